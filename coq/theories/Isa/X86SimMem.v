(* Isa/X86SimMem.v -- byte memory: Sem's mem_load / mem_store against the specification's mem_rd / mem_wr, and the
   memory-operand forms of the mirrored builders (operand_load / operand_store). *)
From Coq Require Import ZArith List Bool NArith Lia.
From Falcon Require Import Base.Res IL.Const IL.ConstSpec IL.ConstProofs IL.Expr IL.ExprSpec IL.Func IL.Loc Exec.Sem.
From Falcon Require Import Isa.X86 Isa.X86Run Isa.X86Lift Isa.X86Mirror Isa.X86Proofs Isa.X86Sim Isa.C01Check Isa.X86Tie.
Import ListNotations.
Local Open Scope Z_scope.

Definition mem_agree (xm : xmem) (bm : bmem) : Prop := forall a, mem_rd1 xm a = bm_get bm a.
Definition bytes_ok (xm : xmem) : Prop := forall a b, mem_rd1 xm a = Some b -> 0 <= b < 256.

(* ---------- reads ---------- *)
Lemma mem_rd_S xm asz a n : mem_rd xm asz a (Datatypes.S n) =
  match mem_rd1 xm a, mem_rd xm asz ((a + 1) mod 2 ^ asz) n with Some b, Some r => Some (b + 256 * r) | _, _ => None end.
Proof. reflexivity. Qed.
Lemma rd_bytes xm bm asz : mem_agree xm bm -> forall n a v,
  0 <= a -> a + Z.of_nat n <= 2 ^ asz -> mem_rd xm asz a n = Some v ->
  exists bs, read_bytes bm a n = Some bs /\ le_value bs = v.
Proof.
  intros Ag. induction n as [|n IH]; intros a v Ha Hn H; cbn [mem_rd read_bytes] in *.
  - inversion H. exists []. auto.
  - destruct (mem_rd1 xm a) as [b|] eqn:E1; [|discriminate].
    destruct (mem_rd xm asz ((a + 1) mod 2 ^ asz) n) as [r|] eqn:E2; [|discriminate]. inversion H; subst v.
    rewrite <- (Ag a), E1.
    destruct n as [|n'].
    + cbn [mem_rd] in E2. inversion E2; subst r. cbn [read_bytes]. exists [b]. split; [reflexivity|cbn; lia].
    + assert (M: (a + 1) mod 2 ^ asz = a + 1) by (apply Z.mod_small; lia). rewrite M in E2.
      destruct (IH (a + 1) r ltac:(lia) ltac:(lia) E2) as (bs & Rb & Lv). rewrite Rb.
      exists (b :: bs). split; [reflexivity|cbn [le_value]; rewrite Lv; reflexivity].
Qed.

Lemma rd_range xm asz : bytes_ok xm -> forall n a v, mem_rd xm asz a n = Some v -> 0 <= v < 256 ^ Z.of_nat n.
Proof.
  intros Bo. induction n as [|n IH]; intros a v H.
  - cbn [mem_rd] in H. inversion H; subst v. change (256 ^ Z.of_nat 0) with 1. lia.
  - rewrite mem_rd_S in H. destruct (mem_rd1 xm a) as [b|] eqn:E1; [|discriminate].
    destruct (mem_rd xm asz ((a + 1) mod 2 ^ asz) n) as [r|] eqn:E2; [|discriminate]. injection H as Hv. subst v.
    pose proof (Bo _ _ E1) as Hb. pose proof (IH _ _ E2) as Hr.
    rewrite Nat2Z.inj_succ, Z.pow_succ_r by lia. set (X := 256 ^ Z.of_nat n) in *. clearbody X.
    change (0 <= b + 256 * r < 256 * X). lia.
Qed.

Lemma nbytes_of sz : width_ok sz -> Z.of_nat (nbytes sz) = sz / 8 /\ nbytes sz = Z.to_nat (sz / 8) /\ 256 ^ (sz / 8) = 2 ^ sz.
Proof. intros [->|[->|[->| ->]]]; repeat split; reflexivity. Qed.

(* a load through Sem = the specification's read, when the access does not wrap the address space *)
Lemma mem_load_spec xm bm asz sz a v :
  mem_agree xm bm -> bm_big bm = false -> width_ok sz -> 0 <= a -> a + sz / 8 <= 2 ^ asz -> asz <= 64 ->
  mem_rd xm asz a (nbytes sz) = Some v ->
  mem_load bm a sz = Ok (mkc sz v).
Proof.
  intros Ag Le Hw Ha Hn Hz H. destruct (nbytes_of sz Hw) as (N1 & N2 & _).
  assert (P: 2 ^ asz <= 2 ^ 64) by (apply Z.pow_le_mono_r; lia).
  destruct (rd_bytes xm bm asz Ag (nbytes sz) a v Ha ltac:(lia) H) as (bs & Rb & Lv).
  unfold mem_load.
  assert (Q1: (sz <=? 0) || negb (sz mod 8 =? 0) = false) by (destruct Hw as [->|[->|[->| ->]]]; reflexivity). rewrite Q1.
  assert (Q2: (ADDR_LIMIT <? a + sz / 8) = false) by (apply Z.ltb_ge; unfold ADDR_LIMIT; lia). rewrite Q2.
  rewrite <- N2, Rb. unfold bytes_value. rewrite Le, Lv. reflexivity.
Qed.

(* ---------- writes ---------- *)
Lemma wr_bytes asz : forall n xm l big a v xm',
  (forall x, mem_rd1 xm x = bytes_get l x) ->
  0 <= a -> a + Z.of_nat n <= 2 ^ asz ->
  mem_wr xm asz a v n = Some xm' ->
  (forall x, mem_rd1 xm' x = bm_get (mkbmem big (write_bytes l a (le_bytes n v))) x) /\ xm_init xm' = xm_init xm.
Proof.
  induction n as [|n IH]; intros xm l big a v xm' Ag Ha Hn H; cbn [mem_wr write_bytes le_bytes] in *.
  - inversion H; subst xm'. split; [exact Ag|reflexivity].
  - destruct (mem_rd1 xm a) as [b0|] eqn:E1; [|discriminate].
    set (xm1 := mkxm ((a, v mod 256) :: xm_writes xm) (xm_init xm)) in *.
    assert (Ag1: forall x, mem_rd1 xm1 x = bytes_get ((a, v mod 256) :: l) x).
    { intros x. unfold mem_rd1, xm1. cbn [xm_writes xm_init alookup bytes_get].
      destruct (a =? x); [reflexivity|]. apply Ag. }
    destruct n as [|n'].
    + cbn [mem_wr] in H. inversion H; subst xm'. cbn [le_bytes write_bytes]. split; [exact Ag1|reflexivity].
    + assert (M: (a + 1) mod 2 ^ asz = a + 1) by (apply Z.mod_small; lia). rewrite M in H.
      destruct (IH xm1 ((a, v mod 256) :: l) big (a + 1) (v / 256) xm' Ag1 ltac:(lia) ltac:(lia) H) as (R & I).
      split; [exact R|rewrite I; reflexivity].
Qed.

Lemma wr_bytes_ok asz : forall n xm a v xm', bytes_ok xm -> mem_wr xm asz a v n = Some xm' -> bytes_ok xm'.
Proof.
  induction n as [|n IH]; intros xm a v xm' Bo H; cbn [mem_wr] in H.
  - inversion H; subst; exact Bo.
  - destruct (mem_rd1 xm a) as [b0|] eqn:E1; [|discriminate].
    assert (Bo1: bytes_ok (mkxm ((a, v mod 256) :: xm_writes xm) (xm_init xm))).
    { intros a1 b1 Hx. unfold mem_rd1 in Hx. cbn [xm_writes xm_init alookup] in Hx.
      destruct (a =? a1); [injection Hx as <-; apply Z.mod_pos_bound; lia|apply (Bo a1 b1); unfold mem_rd1; exact Hx]. }
    exact (IH _ _ _ _ Bo1 H).
Qed.

Lemma mem_store_spec xm bm asz sz a v xm' :
  mem_agree xm bm -> bm_big bm = false -> width_ok sz -> 0 <= a -> a + sz / 8 <= 2 ^ asz -> asz <= 64 ->
  mem_wr xm asz a v (nbytes sz) = Some xm' ->
  exists bm', mem_store bm a (mkc sz v) = Ok bm' /\ mem_agree xm' bm' /\ bm_big bm' = false.
Proof.
  intros Ag Le Hw Ha Hn Hz H. destruct (nbytes_of sz Hw) as (N1 & N2 & _).
  assert (P: 2 ^ asz <= 2 ^ 64) by (apply Z.pow_le_mono_r; lia).
  unfold mem_store. cbn [cbits cval].
  assert (Q1: (sz <=? 0) || negb (sz mod 8 =? 0) = false) by (destruct Hw as [->|[->|[->| ->]]]; reflexivity). rewrite Q1.
  assert (Q2: (ADDR_LIMIT <? a + sz / 8) = false) by (apply Z.ltb_ge; unfold ADDR_LIMIT; lia). rewrite Q2.
  eexists. split; [reflexivity|]. rewrite <- N2. unfold value_bytes. rewrite Le.
  destruct (wr_bytes asz (nbytes sz) xm (bm_bytes bm) false a v xm' Ag Ha ltac:(lia) H) as (R & _).
  split; [exact R|reflexivity].
Qed.

(* ---------- simulation under a state condition (memory accesses must not wrap the address space) ---------- *)
Definition sim_when (P : xstate -> Prop) (m : mode) (addr len : Z) (i : instr) : Prop :=
  forall s st s' ip, wf m s -> emb m s st -> P s -> step m (addr + len) i s = XNext s' ip ->
  exists g, mirror_instr m addr len i = Some (Ok g) /\
  exists st', run_instr 600 g (mirror_succ m addr len i) addr st = RunOk st' (Some ip) /\ emb m s' st' /\ wf m s'.
(* the bytes [ea, ea + sz/8) of a memory operand lie inside the address space of its address size *)
Definition no_wrap (sz : Z) (o : operand) (s : xstate) : Prop := ea (x_gpr s) o + sz / 8 <= 2 ^ op_asz o.

Lemma sim_is_sim_when m addr len i : sim m addr len i -> sim_when (fun _ => True) m addr len i.
Proof. intros H s st s' ip Hw He _ Hs. exact (H s st s' ip Hw He Hs). Qed.

Definition nobranch (ops : list operation) : bool := forallb (fun o => negb (is_branch o)) ops.
Lemma run_one_block_nb addr ops nx st st' :
  nobranch ops = true -> ops <> [] -> (length ops <= 600)%nat ->
  exec_ops st ops = Ok st' ->
  run_instr 600 (one_block addr ops) [(nx, None)] addr st = RunOk st' (Some nx).
Proof.
  intros Ha Ne Hl Ex. unfold run_instr.
  assert (FF: from_function (mkfunc addr (one_block addr ops) None) = Some (Ok (LInstr 0 0))).
  { unfold from_function, one_block. cbn [f_cfg g_entry]. unfold f_block, cfg_block, f_cfg. cbn [g_blocks find_block b_index Z.eqb bind].
    destruct ops as [|o t]; [congruence|]. reflexivity. }
  rewrite FF.
  assert (Nb: forall o, In o ops -> is_branch o = false).
  { intros o Hi. unfold nobranch in Ha. rewrite forallb_forall in Ha. specialize (Ha o Hi). destruct (is_branch o); [discriminate|reflexivity]. }
  pose proof (il_run_one_block addr ops Nb ops [] st st' 600 eq_refl Ne Ex Hl) as R.
  cbn [length Z.of_nat] in R. rewrite R. cbn [enabled_succs bind all_same forallb]. reflexivity.
Qed.

(* ---------- the temporary of operand_load ---------- *)
Definition kTM : skey := (52%N, None).
Lemma kTM_not_reg n : reg_name_ok n = true -> (n, @None N) <> kTM.
Proof. intros H E. inversion E; subst n. cbn in H. discriminate. Qed.

Lemma emb_set_free m s st k v : emb m s st ->
  (forall n, reg_name_ok n = true -> (n, @None N) <> k) -> k <> kCF -> k <> kZF -> k <> kSF -> k <> kOF -> k <> kDF ->
  emb m s (mkst (env_set (st_env st) k v) (st_mem st)).
Proof.
  intros He Kr K1 K2 K3 K4 K5.
  assert (Fl: forall f k', k' <> k -> emb_flag f (st_env st) k' -> emb_flag f (env_set (st_env st) k v) k').
  { intros f k' K F. unfold emb_flag in *. destruct f; [rewrite env_get_set_other by exact K; exact F|].
    destruct F as [v0 F]. exists v0. rewrite env_get_set_other by exact K. exact F. }
  constructor; cbn [st_env st_mem].
  - intros r Hr. rewrite env_get_set_other; [apply (emb_gpr _ _ _ He); exact Hr|apply Kr; apply gpr_name_ok; exact Hr].
  - apply Fl; [congruence|apply (emb_cf _ _ _ He)].
  - apply Fl; [congruence|apply (emb_zf _ _ _ He)].
  - apply Fl; [congruence|apply (emb_sf _ _ _ He)].
  - apply Fl; [congruence|apply (emb_of _ _ _ He)].
  - apply Fl; [congruence|apply (emb_df _ _ _ He)].
  - apply (emb_mem _ _ _ He).
  - apply (emb_le _ _ _ He).
Qed.

Lemma emb_set_temp m s st sz v : emb m s st -> emb m s (mkst (env_set (st_env st) kTM (mkc sz v)) (st_mem st)).
Proof. intros He. apply emb_set_free; [exact He|apply kTM_not_reg| | | | |]; unfold kTM, kCF, kZF, kSF, kOF, kDF; discriminate. Qed.

Lemma exec_load st t ae w a v : den (st_env st) ae = Ok (mkc w a) -> a < 2 ^ 64 ->
  mem_load (st_mem st) a (sbits t) = Ok v ->
  exec_op st (OLoad t ae) = Ok (mkst (env_set (st_env st) (skey_of t) v) (st_mem st), EvLoad (skey_of t) a v).
Proof.
  intros D Ha L. unfold exec_op. rewrite D. cbn [bind]. unfold addr_of. cbn [cval].
  assert (Q: (a <? ADDR_LIMIT) = true) by (apply Z.ltb_lt; exact Ha). rewrite Q. cbn [bind]. rewrite L. reflexivity.
Qed.
Lemma exec_store st ae ve w a v bm' : den (st_env st) ve = Ok v -> den (st_env st) ae = Ok (mkc w a) -> a < 2 ^ 64 ->
  mem_store (st_mem st) a v = Ok bm' ->
  exec_op st (OStore ae ve) = Ok (mkst (st_env st) bm', EvStore a v).
Proof.
  intros Dv D Ha S. unfold exec_op. rewrite Dv. cbn [bind]. rewrite D. cbn [bind]. unfold addr_of. cbn [cval].
  assert (Q: (a <? ADDR_LIMIT) = true) by (apply Z.ltb_lt; exact Ha). rewrite Q. cbn [bind]. rewrite S. reflexivity.
Qed.

(* facts about a memory operand used by every memory form *)
Lemma mem_operand_facts m o s : wf m s -> mem_operand_ok m o ->
  0 <= ea (x_gpr s) o < 2 ^ op_asz o /\ op_asz o <= 64 /\ 2 ^ op_asz o <= 2 ^ 64 /\ is_mem o = true.
Proof.
  intros Hw Ho. destruct o as [| |b0 i0 d0 asz|]; try contradiction. destruct Ho as (Ha & _).
  destruct (asz_facts m asz Ha) as (Hz & _ & Hp). cbn [op_asz is_mem]. unfold ea.
  pose proof (Z.mod_pos_bound ((match b0 with Some r => rget (x_gpr s) r | None => 0 end) + (match i0 with Some (r, sc) => rget (x_gpr s) r * sc | None => 0 end) + d0) (2 ^ asz) Hp) as Q.
  assert (A64: asz <= 64) by (destruct m; cbn in Hz; lia).
  repeat split; try lia. apply Z.pow_le_mono_r; lia.
Qed.

(* the register write of a computed value, at the level of the operation list *)
Lemma assign_reg_exec m s st dst sz sd rhs b :
  wf m s -> emb m s st -> 0 <= oreg dst < ngpr m -> isreg dst = true ->
  operand_shape m sz dst = Some (gpr_name m (oreg dst), sd) ->
  e_bits rhs = sz -> 0 <= b < 2 ^ sz -> den (st_env st) rhs = Ok (mkc sz b) ->
  exists o1, ops_store m sz dst rhs = Ok [o1] /\ is_assign o1 = true /\
  exists st' g', exec_ops st [o1] = Ok st' /\ wr_op sz dst b s = Some (set_gpr s g') /\
                 emb m (set_gpr s g') st' /\ wf m (set_gpr s g').
Proof.
  intros Hw He Hr Hi Hs Br Hb Dr.
  destruct (operand_shape_xreg _ _ _ _ _ Hs) as (Xd & Vd & Bd).
  assert (Hb': 0 <= b < 2 ^ shape_bits (wordsz m) sd) by (rewrite Bd; exact Hb).
  assert (Br': e_bits rhs = shape_bits (wordsz m) sd) by (rewrite Bd; exact Br).
  assert (Dr': den (st_env st) rhs = Ok (mkc (shape_bits (wordsz m) sd) b)) by (rewrite Bd; exact Dr).
  destruct (reg_set_correct (st_env st) _ (wordsz m) sd _ rhs b Vd (wf_rng _ _ Hw _ Hr) Hb' (emb_gpr _ _ _ He _ Hr) Br' Dr')
    as (e & Se & De).
  set (nd := gpr_name m (oreg dst)) in *.
  set (v := arch_write sd (wordsz m) (rget (x_gpr s) (oreg dst)) b) in *.
  destruct (wr_reg_operand m sz dst s sd b Hi Hw Hr Hs) as (g' & Wr & Lg & Gv & Go).
  exists (OAssign (mks nd (wordsz m) None) e). split; [unfold ops_store; rewrite Xd; exact Se|]. split; [reflexivity|].
  exists (mkst (env_set (st_env st) (nd, None) (mkc (wordsz m) v)) (st_mem st)), g'.
  split; [cbn [exec_ops]; rewrite (exec_assign st _ _ _ De); reflexivity|]. split; [exact Wr|].
  set (st' := mkst (env_set (st_env st) (nd, None) (mkc (wordsz m) v)) (st_mem st)).
  assert (Fr: forall k, k <> (nd, None) -> k <> kT0 -> k <> kZF -> k <> kSF -> k <> kOF -> k <> kCF ->
               env_get (st_env st') k = env_get (st_env st) k).
  { intros k K _ _ _ _ _. unfold st'. cbn [st_env]. apply env_get_set_other. exact K. }
  assert (Ev: env_get (st_env st') (nd, None) = Some (mkc (wordsz m) v)) by (unfold st'; cbn [st_env]; apply env_get_set_same).
  destruct (emb_frame m s st st' (oreg dst) g' v Hw He Hr Fr Ev Gv Go) as (Eg & Ed).
  pose proof (reg_name_not_special _ (gpr_name_ok m _ Hr)) as (N0 & N1 & N2 & N3 & N4). fold nd in N0, N1, N2, N3, N4.
  assert (Fl: forall f k, k <> (nd, None) -> emb_flag f (st_env st) k -> emb_flag f (st_env st') k).
  { intros f k K F. unfold emb_flag in *. unfold st'. cbn [st_env]. destruct f; [rewrite env_get_set_other by exact K; exact F|].
    destruct F as [v0 F]. exists v0. rewrite env_get_set_other by exact K. exact F. }
  split.
  - constructor; cbn [set_gpr x_gpr x_fl x_mem]; try assumption.
    + apply Fl; [unfold kCF; congruence|apply (emb_cf _ _ _ He)].
    + apply Fl; [unfold kZF; congruence|apply (emb_zf _ _ _ He)].
    + apply Fl; [unfold kSF; congruence|apply (emb_sf _ _ _ He)].
    + apply Fl; [unfold kOF; congruence|apply (emb_of _ _ _ He)].
    + intros a0. apply (emb_mem _ _ _ He).
    + apply (emb_le _ _ _ He).
  - constructor; cbn [set_gpr x_gpr x_mem]; [rewrite Lg; apply (wf_len _ _ Hw)| |apply (wf_bytes _ _ Hw)].
    intros r' Hr'. destruct (Z.eq_dec r' (oreg dst)) as [->|N].
    + rewrite Gv. apply arch_write_range; [exact Vd|apply (wf_rng _ _ Hw); exact Hr|exact Hb'].
    + rewrite Go by lia. apply (wf_rng _ _ Hw). exact Hr'.
Qed.

(* operand_load of a memory operand: one Load into temp_0x<addr> *)
Lemma load_step m sz src s st v : wf m s -> emb m s st -> mem_operand_ok m src -> width_ok sz -> no_wrap sz src s ->
  rd_op sz src s = Some v ->
  exists ae ev, addr_expr m src = Some (Ok ae) /\
    exec_op st (OLoad (temp_main sz) ae) = Ok (mkst (env_set (st_env st) kTM (mkc sz v)) (st_mem st), ev) /\
    match ev with EvBranch _ => False | _ => True end /\ 0 <= v < 2 ^ sz.
Proof.
  intros Hw He Ho Hwd Hnw Hrd.
  destruct (addr_expr_correct m src s st Hw He Ho) as (ae & Ea & Ba & Da).
  destruct (mem_operand_facts m src s Hw Ho) as (Hea & A64 & P64 & Im).
  assert (Hrd': mem_rd (x_mem s) (op_asz src) (ea (x_gpr s) src) (nbytes sz) = Some v).
  { destruct src; try discriminate Im. exact Hrd. }
  pose proof (mem_load_spec (x_mem s) (st_mem st) (op_asz src) sz (ea (x_gpr s) src) v (emb_mem _ _ _ He) (emb_le _ _ _ He) Hwd
                (proj1 Hea) Hnw A64 Hrd') as Ld.
  exists ae. eexists. split; [exact Ea|]. split.
  - assert (L64: ea (x_gpr s) src < 2 ^ 64) by lia.
    apply (exec_load st (temp_main sz) ae (wordsz m) (ea (x_gpr s) src) (mkc sz v) Da L64 Ld).
  - split; [exact I|]. destruct (nbytes_of sz Hwd) as (N1 & _ & N3).
    pose proof (rd_range (x_mem s) (op_asz src) (wf_bytes _ _ Hw) _ _ _ Hrd') as R. rewrite N1, N3 in R. exact R.
Qed.

Lemma temp_main_den en sz v : env_get en kTM = Some (mkc sz v) -> den en (EScalar (temp_main sz)) = Ok (mkc sz v).
Proof. intros H. cbn [den]. unfold skey_of, temp_main. cbn [sname sssa sbits]. fold kTM. rewrite H. cbn [cbits]. rewrite Z.eqb_refl. reflexivity. Qed.

(* ---------- mov r, [m] ---------- *)
Theorem mov_load_sim m addr len sz dst src :
  reg_operand_ok m sz dst -> mem_operand_ok m src -> width_ok sz ->
  sim_when (no_wrap sz src) m addr len (IMov sz dst src).
Proof.
  intros Hd Hsrc Hwd s st s' ip Hw He Hnw Hstep.
  destruct (reg_operand_shape m sz dst Hd) as (sd & Hs & Hr & Hi).
  unfold step in Hstep. destruct (rd_op sz src s) as [v|] eqn:Hrd; cbn [obind] in Hstep; [|discriminate].
  destruct (load_step m sz src s st v Hw He Hsrc Hwd Hnw Hrd) as (ae & ev & Ea & Ex1 & _ & Hv).
  set (st1 := mkst (env_set (st_env st) kTM (mkc sz v)) (st_mem st)) in *.
  pose proof (emb_set_temp m s st sz v He) as He1. fold st1 in He1.
  assert (Dt: den (st_env st1) (EScalar (temp_main sz)) = Ok (mkc sz v)) by (apply temp_main_den; unfold st1; cbn [st_env]; apply env_get_set_same).
  assert (Bt: e_bits (EScalar (temp_main sz)) = sz) by reflexivity.
  destruct (assign_reg_exec m s st1 dst sz sd _ v Hw He1 Hr Hi Hs Bt Hv Dt) as (o1 & Hops & Ia & st' & g' & Hex & Hwr & Hemb & Hwf).
  rewrite Hwr in Hstep. inversion Hstep; subst s' ip.
  destruct (mem_operand_facts m src s Hw Hsrc) as (_ & _ & _ & Im).
  exists (one_block addr [OLoad (temp_main sz) ae; o1]). split.
  - unfold mirror_instr. rewrite Hi, Im. assert (Rg: regimm src = false) by (destruct src; try discriminate Im; reflexivity).
    rewrite Rg. cbn [andb]. unfold lift_mov_load. rewrite Ea. cbn [option_map bind]. rewrite Hops. reflexivity.
  - exists st'. split; [|auto]. apply run_one_block_nb; [destruct o1; try discriminate Ia; reflexivity|discriminate|cbn; lia|].
    cbn [exec_ops]. rewrite Ex1. cbn [bind fst]. exact Hex.
Qed.

(* ---------- mov [m], r | imm ---------- *)
Theorem mov_store_sim m addr len sz dst src :
  mem_operand_ok m dst -> src_operand_ok m sz src -> width_ok sz ->
  sim_when (no_wrap sz dst) m addr len (IMov sz dst src).
Proof.
  intros Hd Hsrc Hwd s st s' ip Hw He Hnw Hstep.
  destruct (src_expr m sz src s st Hw He Hsrc) as (rhs & b & Os & Br & Hb & Dr & _ & Rs).
  destruct (addr_expr_correct m dst s st Hw He Hd) as (ae & Ea & Ba & Da).
  destruct (mem_operand_facts m dst s Hw Hd) as (Hea & A64 & P64 & Im).
  unfold step in Hstep. rewrite Rs in Hstep. cbn [obind] in Hstep.
  assert (Hwr: wr_op sz dst b s = option_map (set_mem s) (mem_wr (x_mem s) (op_asz dst) (ea (x_gpr s) dst) b (nbytes sz))).
  { destruct dst; try discriminate Im. unfold wr_op, wr_op_at. cbn [op_asz].
    destruct (mem_wr (x_mem s) asz _ b (nbytes sz)); reflexivity. }
  rewrite Hwr in Hstep. destruct (mem_wr (x_mem s) (op_asz dst) (ea (x_gpr s) dst) b (nbytes sz)) as [xm'|] eqn:Hmw; cbn [option_map] in Hstep; [|discriminate].
  inversion Hstep; subst s' ip.
  destruct (mem_store_spec (x_mem s) (st_mem st) (op_asz dst) sz (ea (x_gpr s) dst) b xm' (emb_mem _ _ _ He) (emb_le _ _ _ He) Hwd
              (proj1 Hea) Hnw A64 Hmw) as (bm' & Hst & Hag & Hle).
  assert (L64: ea (x_gpr s) dst < 2 ^ 64) by lia.
  pose proof (exec_store st ae rhs (wordsz m) (ea (x_gpr s) dst) (mkc sz b) bm' Dr Da L64 Hst) as Ex.
  exists (one_block addr [OStore ae rhs]). split.
  - unfold mirror_instr. assert (Ir: isreg dst = false) by (destruct dst; try discriminate Im; reflexivity).
    rewrite Ir, Im, (src_regimm _ _ _ Hsrc). cbn [andb]. unfold lift_mov_store. rewrite Ea. cbn [option_map]. rewrite Os. cbn [bind]. reflexivity.
  - exists (mkst (st_env st) bm'). split; [apply run_one_block_nb; [reflexivity|discriminate|cbn; lia|cbn [exec_ops]; rewrite Ex; reflexivity]|].
    split.
    + constructor; cbn [set_mem x_gpr x_fl x_mem st_env st_mem];
        [apply (emb_gpr _ _ _ He)|apply (emb_cf _ _ _ He)|apply (emb_zf _ _ _ He)|apply (emb_sf _ _ _ He)|apply (emb_of _ _ _ He)|apply (emb_df _ _ _ He)|exact Hag|exact Hle].
    + constructor; cbn [set_mem x_gpr x_mem]; [apply (wf_len _ _ Hw)|apply (wf_rng _ _ Hw)|].
      apply (wr_bytes_ok _ _ _ _ _ _ (wf_bytes _ _ Hw) Hmw).
Qed.

(* ---------- packaging at the level of the operation list (no runner) ---------- *)
Lemma write_pack_x m s st dst sz sd res st' (cff : flag) (of : bool) :
  wf m s -> emb m s st -> 0 <= oreg dst < ngpr m -> isreg dst = true ->
  operand_shape m sz dst = Some (gpr_name m (oreg dst), sd) ->
  0 <= res < 2 ^ sz ->
  (forall k, k <> (gpr_name m (oreg dst), None) -> k <> kT0 -> k <> kZF -> k <> kSF -> k <> kOF -> k <> kCF ->
     env_get (st_env st') k = env_get (st_env st) k) ->
  st_mem st' = st_mem st ->
  env_get (st_env st') (gpr_name m (oreg dst), None) =
    Some (mkc (wordsz m) (arch_write sd (wordsz m) (rget (x_gpr s) (oreg dst)) res)) ->
  env_get (st_env st') kZF = Some (mkc 1 (X86.b2z (res =? 0))) ->
  env_get (st_env st') kSF = Some (mkc 1 (X86.b2z (X86.msb sz res))) ->
  env_get (st_env st') kOF = Some (mkc 1 (X86.b2z of)) ->
  emb_flag cff (st_env st') kCF ->
  exists s', option_map (fun s1 => set_fl s1 (fl_arith (x_fl s) cff (FB of) sz res)) (wr_op sz dst res s) = Some s' /\
             emb m s' st' /\ wf m s'.
Proof.
  intros Hw He Hr Hi Hs Hres Fr Hm Ev Ez Es Eo Ec.
  destruct (operand_shape_xreg _ _ _ _ _ Hs) as (_ & Vd & Bd).
  destruct (wr_reg_operand m sz dst s sd res Hi Hw Hr Hs) as (g' & Wr & Lg & Gv & Go).
  rewrite Wr. cbn [option_map]. eexists. split; [reflexivity|].
  destruct (emb_frame m s st st' (oreg dst) g' _ Hw He Hr Fr Ev Gv Go) as (Eg & Ed).
  split.
  - constructor; cbn [set_fl set_gpr x_gpr x_fl x_mem fl_arith f_cf f_zf f_sf f_of f_df emb_flag]; try assumption.
    + intros a. rewrite Hm. apply (emb_mem _ _ _ He).
    + rewrite Hm. apply (emb_le _ _ _ He).
  - apply wf_set_gpr; [exact Hw|exact Lg|]. intros r' Hr'.
    destruct (Z.eq_dec r' (oreg dst)) as [->|N].
    + rewrite Gv. apply arch_write_range; [exact Vd|apply (wf_rng _ _ Hw); exact Hr|rewrite Bd; exact Hres].
    + rewrite Go by lia. apply (wf_rng _ _ Hw). exact Hr'.
Qed.

Lemma assign_nobranch ops : forallb is_assign ops = true -> nobranch ops = true.
Proof.
  unfold nobranch. intros H. rewrite forallb_forall in *. intros o Hi. specialize (H o Hi). destruct o; cbn in *; try discriminate; reflexivity.
Qed.

(* common preparation for `op r, [m]`: the load has been executed, the temporary holds the memory operand *)
Ltac alu_load_prep Hd Hsrc Hwd Hw He Hnw Hstep :=
  destruct (reg_operand_shape _ _ _ Hd) as (sd & Hs & Hr & Hi);
  unfold step in Hstep;
  match type of Hstep with context [rd_op ?sz ?src ?s] =>
    destruct (rd_op sz src s) as [v|] eqn:Hrd;
    [|destruct (rd_op sz _ s); discriminate Hstep] end.

Theorem add_load_sim m addr len sz dst src :
  reg_operand_ok m sz dst -> mem_operand_ok m src -> width_ok sz ->
  sim_when (no_wrap sz src) m addr len (IAlu AAdd sz dst src).
Proof.
  intros Hd Hsrc Hwd s st s' ip Hw He Hnw Hstep.
  destruct (reg_operand_shape m sz dst Hd) as (sd & Hs & Hr & Hi).
  pose proof (rd_reg_operand m sz dst s sd Hi Hs) as Rd.
  unfold step in Hstep. rewrite Rd in Hstep. destruct (rd_op sz src s) as [v|] eqn:Hrd; [|discriminate].
  destruct (load_step m sz src s st v Hw He Hsrc Hwd Hnw Hrd) as (ae & ev & Ea & Ex1 & _ & Hv).
  set (st1 := mkst (env_set (st_env st) kTM (mkc sz v)) (st_mem st)) in *.
  pose proof (emb_set_temp m s st sz v He) as He1. fold st1 in He1.
  assert (Dt: den (st_env st1) (EScalar (temp_main sz)) = Ok (mkc sz v)) by (apply temp_main_den; unfold st1; cbn [st_env]; apply env_get_set_same).
  destruct (dst_expr m sz dst s st1 sd Hw He1 Hr Hs) as (lhs & Ol).
  destruct (add_reg_ops_correct st1 m sz dst _ sd _ lhs (EScalar (temp_main sz)) v Hs (gpr_name_ok m _ Hr) Hwd (wf_rng _ _ Hw _ Hr)
              (emb_gpr _ _ _ He1 _ Hr) Ol eq_refl Hv Dt eq_refl)
    as (ops & st' & _ & Hops & Hasg & Hlen & Hex & Hfr & Hm & Ev & Ez & Es & Eo & Ec).
  set (a := arch_read sd (wordsz m) (rget (x_gpr s) (oreg dst))) in *.
  assert (Hres: 0 <= U sz (a + v) < 2 ^ sz) by (unfold U; apply Z.mod_pos_bound; destruct Hwd as [->|[->|[->| ->]]]; reflexivity).
  destruct (write_pack_x m s st1 dst sz sd (U sz (a + v)) st' (FB _) _ Hw He1 Hr Hi Hs Hres Hfr Hm Ev Ez Es Eo Ec)
    as (s2 & Hwr & Hemb & Hwf).
  cbn [alu_reads_cf alu_writes alu] in Hstep. fold a in Hstep. rewrite Hwr in Hstep. inversion Hstep; subst s' ip.
  destruct (mem_operand_facts m src s Hw Hsrc) as (_ & _ & _ & Im).
  exists (one_block addr (OLoad (temp_main sz) ae :: ops)). split.
  - unfold mirror_instr. rewrite Hi, Im. assert (Rg: regimm src = false) by (destruct src; try discriminate Im; reflexivity).
    rewrite Rg. cbn [andb]. unfold lift_alu_load. rewrite Ea. unfold lift_alu_rhs; cbn [lift_alu_gen option_map]. rewrite Ol. cbn [bind]. rewrite Hops. reflexivity.
  - exists st'. split; [|auto]. apply run_one_block_nb; [cbn [nobranch forallb is_branch negb andb]; apply assign_nobranch; exact Hasg|discriminate|cbn [length]; lia|].
    cbn [exec_ops]. rewrite Ex1. cbn [bind fst]. exact Hex.
Qed.

Theorem sub_load_sim m addr len sz dst src :
  reg_operand_ok m sz dst -> mem_operand_ok m src -> width_ok sz ->
  sim_when (no_wrap sz src) m addr len (IAlu ASub sz dst src).
Proof.
  intros Hd Hsrc Hwd s st s' ip Hw He Hnw Hstep.
  destruct (reg_operand_shape m sz dst Hd) as (sd & Hs & Hr & Hi).
  pose proof (rd_reg_operand m sz dst s sd Hi Hs) as Rd.
  unfold step in Hstep. rewrite Rd in Hstep. destruct (rd_op sz src s) as [v|] eqn:Hrd; [|discriminate].
  destruct (load_step m sz src s st v Hw He Hsrc Hwd Hnw Hrd) as (ae & ev & Ea & Ex1 & _ & Hv).
  set (st1 := mkst (env_set (st_env st) kTM (mkc sz v)) (st_mem st)) in *.
  pose proof (emb_set_temp m s st sz v He) as He1. fold st1 in He1.
  assert (Dt: den (st_env st1) (EScalar (temp_main sz)) = Ok (mkc sz v)) by (apply temp_main_den; unfold st1; cbn [st_env]; apply env_get_set_same).
  destruct (dst_expr m sz dst s st1 sd Hw He1 Hr Hs) as (lhs & Ol).
  destruct (sub_reg_ops_correct st1 m sz dst _ sd _ lhs (EScalar (temp_main sz)) v Hs (gpr_name_ok m _ Hr) Hwd (wf_rng _ _ Hw _ Hr)
              (emb_gpr _ _ _ He1 _ Hr) Ol eq_refl Hv Dt eq_refl)
    as (ops & st' & _ & Hops & Hasg & Hlen & Hex & Hfr & Hm & Ev & Ez & Es & Eo & Ec).
  set (a := arch_read sd (wordsz m) (rget (x_gpr s) (oreg dst))) in *.
  assert (Hres: 0 <= U sz (a - v) < 2 ^ sz) by (unfold U; apply Z.mod_pos_bound; destruct Hwd as [->|[->|[->| ->]]]; reflexivity).
  destruct (write_pack_x m s st1 dst sz sd (U sz (a - v)) st' (FB _) _ Hw He1 Hr Hi Hs Hres Hfr Hm Ev Ez Es Eo Ec)
    as (s2 & Hwr & Hemb & Hwf).
  cbn [alu_reads_cf alu_writes alu] in Hstep. fold a in Hstep. rewrite Hwr in Hstep. inversion Hstep; subst s' ip.
  destruct (mem_operand_facts m src s Hw Hsrc) as (_ & _ & _ & Im).
  exists (one_block addr (OLoad (temp_main sz) ae :: ops)). split.
  - unfold mirror_instr. rewrite Hi, Im. assert (Rg: regimm src = false) by (destruct src; try discriminate Im; reflexivity).
    rewrite Rg. cbn [andb]. unfold lift_alu_load. rewrite Ea. unfold lift_alu_rhs; cbn [lift_alu_gen option_map]. rewrite Ol. cbn [bind]. rewrite Hops. reflexivity.
  - exists st'. split; [|auto]. apply run_one_block_nb; [cbn [nobranch forallb is_branch negb andb]; apply assign_nobranch; exact Hasg|discriminate|cbn [length]; lia|].
    cbn [exec_ops]. rewrite Ex1. cbn [bind fst]. exact Hex.
Qed.

Theorem cmp_load_sim m addr len sz dst src :
  reg_operand_ok m sz dst -> mem_operand_ok m src -> width_ok sz ->
  sim_when (no_wrap sz src) m addr len (IAlu ACmp sz dst src).
Proof.
  intros Hd Hsrc Hwd s st s' ip Hw He Hnw Hstep.
  destruct (reg_operand_shape m sz dst Hd) as (sd & Hs & Hr & Hi).
  pose proof (rd_reg_operand m sz dst s sd Hi Hs) as Rd.
  unfold step in Hstep. rewrite Rd in Hstep. destruct (rd_op sz src s) as [v|] eqn:Hrd; [|discriminate].
  destruct (load_step m sz src s st v Hw He Hsrc Hwd Hnw Hrd) as (ae & ev & Ea & Ex1 & _ & Hv).
  set (st1 := mkst (env_set (st_env st) kTM (mkc sz v)) (st_mem st)) in *.
  pose proof (emb_set_temp m s st sz v He) as He1. fold st1 in He1.
  assert (Dt: den (st_env st1) (EScalar (temp_main sz)) = Ok (mkc sz v)) by (apply temp_main_den; unfold st1; cbn [st_env]; apply env_get_set_same).
  destruct (dst_expr m sz dst s st1 sd Hw He1 Hr Hs) as (lhs & Ol).
  destruct (cmp_reg_ops_correct st1 m sz dst _ sd _ lhs (EScalar (temp_main sz)) v Hs (gpr_name_ok m _ Hr) Hwd (wf_rng _ _ Hw _ Hr)
              (emb_gpr _ _ _ He1 _ Hr) Ol eq_refl Hv Dt eq_refl)
    as (ops & st' & _ & Hops & Hasg & Hlen & Hex & Hfr & Hm & Ev & Ez & Es & Eo & Ec).
  set (a := arch_read sd (wordsz m) (rget (x_gpr s) (oreg dst))) in *.
  cbn [alu_reads_cf alu_writes alu] in Hstep. fold a in Hstep. inversion Hstep; subst s' ip.
  destruct (mem_operand_facts m src s Hw Hsrc) as (_ & _ & _ & Im).
  exists (one_block addr (OLoad (temp_main sz) ae :: ops)). split.
  - unfold mirror_instr. rewrite Hi, Im. assert (Rg: regimm src = false) by (destruct src; try discriminate Im; reflexivity).
    rewrite Rg. cbn [andb]. unfold lift_alu_load. rewrite Ea. unfold lift_alu_rhs; cbn [lift_alu_gen option_map]. rewrite Ol. cbn [bind]. rewrite Hops. reflexivity.
  - exists st'. split; [apply run_one_block_nb; [cbn [nobranch forallb is_branch negb andb]; apply assign_nobranch; exact Hasg|discriminate|cbn [length]; lia|
                        cbn [exec_ops]; rewrite Ex1; cbn [bind fst]; exact Hex]|].
    destruct (emb_frame m s st1 st' (oreg dst) (x_gpr s) _ Hw He1 Hr Hfr Ev eq_refl (fun _ _ _ => eq_refl)) as (Eg & Ed).
    split.
    + constructor; cbn [set_fl x_gpr x_fl x_mem fl_arith f_cf f_zf f_sf f_of f_df emb_flag]; try assumption.
      * intros a0. rewrite Hm. apply (emb_mem _ _ _ He1).
      * rewrite Hm. apply (emb_le _ _ _ He1).
    + constructor; cbn [set_fl x_gpr x_mem]; [apply (wf_len _ _ Hw)|apply (wf_rng _ _ Hw)|apply (wf_bytes _ _ Hw)].
Qed.

Theorem logic_load_sim m addr len o op f sz dst src :
  logic_alu o = Some (op, f) ->
  reg_operand_ok m sz dst -> mem_operand_ok m src -> width_ok sz ->
  sim_when (no_wrap sz src) m addr len (IAlu o sz dst src).
Proof.
  intros Hl Hd Hsrc Hwd s st s' ip Hw He Hnw Hstep.
  destruct (reg_operand_shape m sz dst Hd) as (sd & Hs & Hr & Hi).
  pose proof (rd_reg_operand m sz dst s sd Hi Hs) as Rd.
  unfold step in Hstep. rewrite Rd in Hstep. destruct (rd_op sz src s) as [v|] eqn:Hrd; [|discriminate].
  destruct (load_step m sz src s st v Hw He Hsrc Hwd Hnw Hrd) as (ae & ev & Ea & Ex1 & _ & Hv).
  set (st1 := mkst (env_set (st_env st) kTM (mkc sz v)) (st_mem st)) in *.
  pose proof (emb_set_temp m s st sz v He) as He1. fold st1 in He1.
  assert (Dt: den (st_env st1) (EScalar (temp_main sz)) = Ok (mkc sz v)) by (apply temp_main_den; unfold st1; cbn [st_env]; apply env_get_set_same).
  destruct (dst_expr m sz dst s st1 sd Hw He1 Hr Hs) as (lhs & Ol).
  assert (Lf: logic_fun op = Some f) by (destruct o; try discriminate; inversion Hl; subst; reflexivity).
  destruct (logic_reg_ops_correct st1 m op f sz dst _ sd _ lhs (EScalar (temp_main sz)) v Lf Hs (gpr_name_ok m _ Hr) Hwd (wf_rng _ _ Hw _ Hr)
              (emb_gpr _ _ _ He1 _ Hr) Ol eq_refl Hv Dt eq_refl)
    as (ops & st' & Hops & Hasg & Hlen & Hex & Hfr & Hm & Ev & Ez & Es & Eo & Ec).
  set (a := arch_read sd (wordsz m) (rget (x_gpr s) (oreg dst))) in *.
  destruct (operand_shape_xreg _ _ _ _ _ Hs) as (_ & Vd & Bd).
  assert (Ha: 0 <= a < 2 ^ sz) by (unfold a; rewrite <- Bd; apply arch_read_range; [exact Vd|apply (wf_rng _ _ Hw); exact Hr]).
  assert (W0: 0 <= sz) by (destruct Hwd as [->|[->|[->| ->]]]; lia).
  assert (Hres: 0 <= f a v < 2 ^ sz).
  { destruct o; try discriminate; inversion Hl; subst; [apply lor_range|apply land_range|apply lxor_range]; lia. }
  destruct (write_pack_x m s st1 dst sz sd (f a v) st' (FB false) false Hw He1 Hr Hi Hs Hres Hfr Hm Ev Ez Es Eo Ec)
    as (s2 & Hwr & Hemb & Hwf).
  assert (Hst: (let '(r, f') := alu o sz a v false (x_fl s) in
                if alu_writes o then match option_map (fun s1 => set_fl s1 f') (wr_op sz dst r s) with Some s1 => XNext s1 (addr + len) | None => XFault end
                else XNext (set_fl s f') (addr + len)) =
               match option_map (fun s1 => set_fl s1 (fl_arith (x_fl s) (FB false) (FB false) sz (f a v))) (wr_op sz dst (f a v) s) with
               | Some s1 => XNext s1 (addr + len) | None => XFault end).
  { destruct o; try discriminate; inversion Hl; subst; reflexivity. }
  assert (Rc: (if alu_reads_cf o then flag_is (f_cf (x_fl s)) else Some false) = Some false) by (destruct o; try discriminate; reflexivity).
  fold a in Hstep. rewrite Rc in Hstep. rewrite Hst, Hwr in Hstep. inversion Hstep; subst s' ip.
  destruct (mem_operand_facts m src s Hw Hsrc) as (_ & _ & _ & Im).
  assert (Tne: forall sz0 e1, expr_eqb e1 (EScalar (temp_main sz0)) = true -> e1 = EScalar (temp_main sz0) \/ True) by (intros; right; exact I).
  exists (one_block addr (OLoad (temp_main sz) ae :: ops)). split.
  - unfold mirror_instr. rewrite Hi, Im. assert (Rg: regimm src = false) by (destruct src; try discriminate Im; reflexivity).
    rewrite Rg. cbn [andb]. unfold lift_alu_load. rewrite Ea.
    assert (Q: lift_alu_rhs m o sz dst (Ok (EScalar (temp_main sz))) = Some (Ok ops)).
    { assert (Ne: expr_eqb lhs (EScalar (temp_main sz)) = false).
      { destruct (operand_shape_xreg _ _ _ _ _ Hs) as (Xd & _ & _). unfold opv in Ol. rewrite Xd in Ol.
        assert (G: reg_get (xreg_of (gpr_name m (oreg dst)) (wordsz m) sd) = Ok lhs) by (destruct dst; cbn [operand_shape] in Hs; try discriminate; exact Ol).
        destruct (expr_eqb lhs (EScalar (temp_main sz))) eqn:Q; [|reflexivity].
        apply expr_eqb_eq in Q.
        assert (Nk: gpr_name m (oreg dst) <> fst kTM).
        { intros E. pose proof (kTM_not_reg _ (gpr_name_ok m _ Hr)) as K. apply K. unfold kTM in *. cbn [fst] in E. rewrite E. reflexivity. }
        pose proof (reg_get_mentions _ _ _ _ Vd G kTM Nk) as M. rewrite Q in M. cbn in M. discriminate. }
      destruct o; try discriminate; inversion Hl; subst op f; unfold lift_alu_rhs; cbn [lift_alu_gen]; rewrite Ol; cbn [bind andb]; try rewrite Ne; cbn [andb]; rewrite <- Hops; reflexivity. }
    rewrite Q. cbn [option_map bind]. reflexivity.
  - exists st'. split; [|auto]. apply run_one_block_nb; [cbn [nobranch forallb is_branch negb andb]; apply assign_nobranch; exact Hasg|discriminate|cbn [length]; lia|].
    cbn [exec_ops]. rewrite Ex1. cbn [bind fst]. exact Hex.
Qed.

(* ---------- movzx / movsx r, [m] ---------- *)
Theorem movx_load_sim m addr len (sg : bool) dsz ssz dst src :
  reg_operand_ok m dsz (OReg dst) -> mem_operand_ok m src -> width_ok dsz -> width_ok ssz -> ssz < dsz ->
  sim_when (no_wrap ssz src) m addr len (IMovx sg dsz ssz dst src).
Proof.
  intros Hd Hsrc Wd Ws Hlt s st s' ip Hw He Hnw Hstep.
  destruct (reg_operand_shape m dsz (OReg dst) Hd) as (sd & Hs & Hr & Hi).
  unfold step in Hstep. destruct (rd_op ssz src s) as [b|] eqn:Hrd; cbn [obind] in Hstep; [|discriminate].
  destruct (load_step m ssz src s st b Hw He Hsrc Ws Hnw Hrd) as (ae & ev & Ea & Ex1 & _ & Hb).
  set (st1 := mkst (env_set (st_env st) kTM (mkc ssz b)) (st_mem st)) in *.
  pose proof (emb_set_temp m s st ssz b He) as He1. fold st1 in He1.
  assert (Dt: den (st_env st1) (EScalar (temp_main ssz)) = Ok (mkc ssz b)) by (apply temp_main_den; unfold st1; cbn [st_env]; apply env_get_set_same).
  set (rhs := EScalar (temp_main ssz)) in *.
  set (v := if sg then U dsz (X86.Sg ssz b) else b).
  assert (Mk: mk_ext (if sg then Sext else Zext) dsz rhs = Ok (EExt (if sg then Sext else Zext) dsz rhs)).
  { unfold mk_ext, rhs. cbn [e_bits temp_main sbits].
    assert (Q: (dsz <=? ssz) || (ssz =? 0) = false) by (destruct Ws as [->|[->|[->| ->]]]; (apply orb_false_iff; split; [apply Z.leb_gt; lia|reflexivity])).
    destruct sg; rewrite Q; reflexivity. }
  assert (Dv: den (st_env st1) (EExt (if sg then Sext else Zext) dsz rhs) = Ok (mkc dsz v)).
  { cbn [den]. rewrite Dt. cbn [bind]. unfold v, sp_ext. cbn [cbits cval].
    assert (Q: (dsz <=? ssz) = false) by (apply Z.leb_gt; lia).
    destruct sg; rewrite Q; reflexivity. }
  assert (Hv: 0 <= v < 2 ^ dsz).
  { unfold v. destruct sg; [unfold U; apply Z.mod_pos_bound; destruct Wd as [->|[->|[->| ->]]]; reflexivity|].
    split; [lia|]. apply Z.lt_le_trans with (2 ^ ssz); [lia|]. apply Z.pow_le_mono_r; lia. }
  assert (Bv: e_bits (EExt (if sg then Sext else Zext) dsz rhs) = dsz) by reflexivity.
  destruct (assign_reg_exec m s st1 (OReg dst) dsz sd _ v Hw He1 Hr Hi Hs Bv Hv Dv) as (o1 & Hops & Ia & st' & g' & Hex & Hwr & Hemb & Hwf).
  fold v in Hstep. rewrite Hwr in Hstep. inversion Hstep; subst s' ip.
  destruct (mem_operand_facts m src s Hw Hsrc) as (_ & _ & _ & Im).
  exists (one_block addr [OLoad (temp_main ssz) ae; o1]). split.
  - unfold mirror_instr. assert (Ir: isreg src = false) by (destruct src; try discriminate Im; reflexivity).
    rewrite Ir, Im. unfold lift_movx_load. rewrite Ea. cbn [option_map bind]. fold rhs. rewrite Mk. cbn [bind]. rewrite Hops. reflexivity.
  - exists st'. split; [|auto]. apply run_one_block_nb; [destruct o1; try discriminate Ia; reflexivity|discriminate|cbn; lia|].
    cbn [exec_ops]. rewrite Ex1. cbn [bind fst]. exact Hex.
Qed.

(* ---------- the transfer for conditional simulations ---------- *)
Theorem tie_transfers_when P m addr len i g succ :
  syntactic_tie m addr len i g succ = true -> sim_when P m addr len i ->
  forall s st s' ip, wf m s -> emb m s st -> P s -> step m (addr + len) i s = XNext s' ip ->
    exists st', run_instr 600 g succ addr st = RunOk st' (Some ip) /\ emb m s' st' /\ wf m s'.
Proof.
  intros Ht Hsim s st s' ip Hw He Hp Hs.
  destruct (syntactic_tie_sound _ _ _ _ _ _ Ht) as (Hm & ->).
  destruct (Hsim s st s' ip Hw He Hp Hs) as (g' & Hm' & st' & R). rewrite Hm in Hm'. inversion Hm'; subst g'.
  exists st'. exact R.
Qed.

(* ---------- address expressions depend on the register scalars only ---------- *)
Definition regs_emb (m : mode) (s : xstate) (en : senv) : Prop :=
  forall r, 0 <= r < ngpr m -> env_get en (gpr_name m r, None) = Some (mkc (wordsz m) (rget (x_gpr s) r)).

Lemma addr_reg_regs m asz r s en : wf m s -> regs_emb m s en -> asz_ok m asz -> 0 <= r < ngpr m ->
  exists e, opv m asz (OReg r) = Ok e /\ e_bits e = asz /\
            den en e = Ok (mkc asz (rget (x_gpr s) r mod 2 ^ asz)).
Proof.
  intros Hw Hg Ha Hr. destruct (asz_facts m asz Ha) as (_ & Hsz & _).
  destruct (reg_operand_shape m asz (OReg r) (conj Hr Hsz)) as (sd & Hs & _ & Hi). cbn [oreg] in Hs.
  destruct (operand_shape_xreg _ _ _ _ _ Hs) as (Xd & Vd & Bd).
  destruct (reg_get_correct en _ _ sd _ Vd (wf_rng _ _ Hw _ Hr) (Hg _ Hr)) as (e & Ge & De).
  exists e. split; [unfold opv; rewrite Xd; exact Ge|]. split; [rewrite <- Bd; eapply reg_get_bits; eassumption|].
  pose proof (rd_reg_operand m asz (OReg r) s sd Hi Hs) as Rd. cbn [rd_op oreg] in Rd. injection Rd as Rd.
  rewrite De, Bd. unfold X86.reg_read in Rd. rewrite Rd. reflexivity.
Qed.

Theorem addr_expr_regs m o s en : wf m s -> regs_emb m s en -> mem_operand_ok m o ->
  exists e, addr_expr m o = Some (Ok e) /\ e_bits e = wordsz m /\
            den en e = Ok (mkc (wordsz m) (ea (x_gpr s) o)).
Proof.
  intros Hw He Ho. destruct o as [| |base index disp asz|]; try contradiction.
  destruct Ho as (Ha & Hd & Hne & Hb & Hi).
  destruct (asz_facts m asz Ha) as (Hz & _ & Hp). assert (A0: 0 <= asz) by lia.
  set (g := x_gpr s). set (p := 2 ^ asz) in *.
  destruct base as [rb|]; destruct index as [[ri sc]|]; try (destruct Hne; congruence); unfold addr_expr, ea; fold g.
  - (* base + index * scale *)
    destruct (addr_reg_regs m asz rb s en Hw He Ha (Hb rb eq_refl)) as (eb & Ob & Bb & Db).
    destruct (Hi ri sc eq_refl) as (Hri & Hsc).
    destruct (addr_reg_regs m asz ri s en Hw He Ha Hri) as (ei & Oi & Bi & Di).
    rewrite Ob, Oi. cbn [bind]. rewrite Bb.
    assert (Ms: mk_bin Mul ei (expr_const sc asz) = Ok (EBin Mul ei (expr_const sc asz)))
      by (unfold mk_bin; rewrite Bi; cbn [e_bits expr_const new_big cbits]; rewrite Z.eqb_refl; reflexivity).
    rewrite Ms. cbn [bind].
    assert (Ma: mk_bin Add eb (EBin Mul ei (expr_const sc asz)) = Ok (EBin Add eb (EBin Mul ei (expr_const sc asz))))
      by (unfold mk_bin; cbn [e_bits is_cmp]; rewrite Bb, Bi, Z.eqb_refl; reflexivity).
    rewrite Ma. cbn [bind].
    assert (Dop: den en (EBin Add eb (EBin Mul ei (expr_const sc asz))) = Ok (mkc asz ((rget g rb + rget g ri * sc) mod p))).
    { cbn [den]. rewrite Db, Di. cbn [bind]. unfold expr_const. rewrite new_big_spec by exact A0. cbn [den].
      cbn [bind]. unfold sp_bin_c. cbn [cbits cval]. rewrite Z.eqb_refl. cbn [negb sp_bin bind cbits cval]. rewrite Z.eqb_refl. cbn [negb sp_bin].
      unfold s_add, s_mul, U. fold p.
      assert (P16: 2 ^ 16 <= p) by (apply Z.pow_le_mono_r; [lia|apply (asz_ge16 m); exact Ha]). change (2 ^ 16) with 65536 in P16.
      assert (Sm: sc mod p = sc) by (apply Z.mod_small; destruct Hsc as [->|[->|[->| ->]]]; lia).
      rewrite Sm. rewrite Zmult_mod_idemp_l. rewrite Zplus_mod_idemp_l, Zplus_mod_idemp_r. reflexivity. }
    assert (Bop: e_bits (EBin Add eb (EBin Mul ei (expr_const sc asz))) = asz) by (cbn [e_bits is_cmp]; exact Bb).
    destruct (disp_step en _ asz _ disp Hp A0 Hd Bop Dop) as (op' & Eo & Bo & Do).
    rewrite Eo. cbn [bind].
    destruct (zext_step en m op' asz _ Hz Bo Do) as (e & Ee & Be & De).
    exists e. rewrite Ee. split; [reflexivity|]. split; [exact Be|]. rewrite De. reflexivity.
  - (* base only *)
    destruct (addr_reg_regs m asz rb s en Hw He Ha (Hb rb eq_refl)) as (eb & Ob & Bb & Db).
    rewrite Ob. cbn [bind]. rewrite Bb.
    destruct (disp_step en eb asz _ disp Hp A0 Hd Bb Db) as (op' & Eo & Bo & Do).
    rewrite Eo. cbn [bind].
    destruct (zext_step en m op' asz _ Hz Bo Do) as (e & Ee & Be & De).
    exists e. rewrite Ee. split; [reflexivity|]. split; [exact Be|]. rewrite De. rewrite Z.add_0_r. reflexivity.
  - (* index * scale only *)
    destruct (Hi ri sc eq_refl) as (Hri & Hsc).
    destruct (addr_reg_regs m asz ri s en Hw He Ha Hri) as (ei & Oi & Bi & Di).
    rewrite Oi. cbn [bind]. rewrite Bi.
    assert (Ms: mk_bin Mul ei (expr_const sc asz) = Ok (EBin Mul ei (expr_const sc asz)))
      by (unfold mk_bin; rewrite Bi; cbn [e_bits expr_const new_big cbits]; rewrite Z.eqb_refl; reflexivity).
    rewrite Ms. cbn [bind].
    assert (Dop: den en (EBin Mul ei (expr_const sc asz)) = Ok (mkc asz ((rget g ri * sc) mod p))).
    { cbn [den]. rewrite Di. cbn [bind]. unfold expr_const. rewrite new_big_spec by exact A0. cbn [den].
      cbn [bind]. unfold sp_bin_c. cbn [cbits cval]. rewrite Z.eqb_refl. cbn [negb sp_bin].
      unfold s_mul, U. fold p.
      assert (P16: 2 ^ 16 <= p) by (apply Z.pow_le_mono_r; [lia|apply (asz_ge16 m); exact Ha]). change (2 ^ 16) with 65536 in P16.
      assert (Sm: sc mod p = sc) by (apply Z.mod_small; destruct Hsc as [->|[->|[->| ->]]]; lia).
      rewrite Sm. rewrite Zmult_mod_idemp_l. reflexivity. }
    assert (Bop: e_bits (EBin Mul ei (expr_const sc asz)) = asz) by (cbn [e_bits is_cmp]; exact Bi).
    destruct (disp_step en _ asz _ disp Hp A0 Hd Bop Dop) as (op' & Eo & Bo & Do).
    rewrite Eo. cbn [bind].
    destruct (zext_step en m op' asz _ Hz Bo Do) as (e & Ee & Be & De).
    exists e. rewrite Ee. split; [reflexivity|]. split; [exact Be|]. rewrite De. reflexivity.
Qed.

Lemma emb_regs_of m s st : emb m s st -> regs_emb m s (st_env st).
Proof. intros He r Hr. apply (emb_gpr _ _ _ He). exact Hr. Qed.

(* ---------- the flag-computing core of the ALU builders, for arbitrary clean operand expressions ---------- *)
Definition T0e (sz : Z) : expr := EScalar (temp_k 0 sz).
Lemma clean_parts e : clean e = true ->
  mentions kT0 e = false /\ mentions kZF e = false /\ mentions kSF e = false /\ mentions kOF e = false /\ mentions kCF e = false.
Proof.
  unfold clean. intros C. apply negb_true_iff in C. repeat (apply orb_false_iff in C; destruct C as [C ?]). auto.
Qed.

Section Core.
Variables (st : sstate) (sz a b : Z) (lhs rhs : expr).
Hypothesis Hw : width_ok sz.
Hypothesis Bl : e_bits lhs = sz.
Hypothesis Br : e_bits rhs = sz.
Hypothesis Ha : 0 <= a < 2 ^ sz.
Hypothesis Hb : 0 <= b < 2 ^ sz.
Hypothesis Dl : den (st_env st) lhs = Ok (mkc sz a).
Hypothesis Dr : den (st_env st) rhs = Ok (mkc sz b).
Hypothesis Cl : clean lhs = true.
Hypothesis Cr : clean rhs = true.

(* result expression, value r, OF value, CF operation + value; returns the five operations and the state after them *)
Lemma alu_core (op : binop) (r : Z) (ofv cfv : bool) (sub : bool) (cfop : expr -> res operation) :
  0 <= r < 2 ^ sz ->
  den (st_env st) (EBin op lhs rhs) = Ok (mkc sz r) -> is_cmp op = false ->
  of_value sz a b r sub = X86.b2z ofv ->
  (forall en, den en (T0e sz) = Ok (mkc sz r) -> den en lhs = Ok (mkc sz a) ->
     exists c, cfop (T0e sz) = Ok (OAssign (flag_scalar X86Lift.n_CF) c) /\ den en c = Ok (mkc 1 (X86.b2z cfv))) ->
  exists e zf sf of cf st',
    mk_bin op lhs rhs = Ok e /\ set_zf (T0e sz) = Ok zf /\ set_sf (T0e sz) = Ok sf /\
    set_of (T0e sz) lhs rhs sub = Ok of /\ cfop (T0e sz) = Ok cf /\
    forallb is_assign [OAssign (temp_k 0 sz) e; zf; sf; of; cf] = true /\
    exec_ops st [OAssign (temp_k 0 sz) e; zf; sf; of; cf] = Ok st' /\
    (forall k, k <> kT0 -> k <> kZF -> k <> kSF -> k <> kOF -> k <> kCF -> env_get (st_env st') k = env_get (st_env st) k) /\
    st_mem st' = st_mem st /\
    env_get (st_env st') kT0 = Some (mkc sz r) /\
    env_get (st_env st') kZF = Some (mkc 1 (X86.b2z (r =? 0))) /\
    env_get (st_env st') kSF = Some (mkc 1 (X86.b2z (X86.msb sz r))) /\
    env_get (st_env st') kOF = Some (mkc 1 (X86.b2z ofv)) /\
    env_get (st_env st') kCF = Some (mkc 1 (X86.b2z cfv)).
Proof.
  intros Hr D1 Nc Hof Hcf.
  destruct (clean_parts _ Cl) as (L0 & L1 & L2 & L3 & L4). destruct (clean_parts _ Cr) as (R0 & R1 & R2 & R3 & R4).
  set (en := st_env st) in *. set (t0 := temp_k 0 sz). set (T := T0e sz).
  assert (E1: mk_bin op lhs rhs = Ok (EBin op lhs rhs)) by (unfold mk_bin; rewrite Bl, Br, Z.eqb_refl; reflexivity).
  set (e1 := env_set en kT0 (mkc sz r)).
  assert (KT: skey_of t0 = kT0) by reflexivity.
  assert (BT: e_bits T = sz) by reflexivity.
  assert (DT: forall en', env_get en' kT0 = Some (mkc sz r) -> den en' T = Ok (mkc sz r)).
  { intros en' G. unfold T, T0e. cbn [den]. fold t0. rewrite KT, G. cbn [cbits t0 temp_k sbits]. rewrite Z.eqb_refl. reflexivity. }
  assert (G1: env_get e1 kT0 = Some (mkc sz r)) by apply env_get_set_same.
  assert (L1': den e1 lhs = Ok (mkc sz a)) by (unfold e1; rewrite den_env_set; assumption).
  assert (R1': den e1 rhs = Ok (mkc sz b)) by (unfold e1; rewrite den_env_set; assumption).
  destruct (set_zf_den e1 sz r T BT (DT e1 G1)) as (zfe & Zf & Dz).
  set (e2 := env_set e1 kZF (mkc 1 (X86.b2z (r =? 0)))).
  assert (G2: env_get e2 kT0 = Some (mkc sz r)) by (unfold e2; rewrite env_get_set_other; [exact G1|discriminate]).
  assert (L2': den e2 lhs = Ok (mkc sz a)) by (unfold e2; rewrite den_env_set; assumption).
  assert (R2': den e2 rhs = Ok (mkc sz b)) by (unfold e2; rewrite den_env_set; assumption).
  destruct (set_sf_den e2 sz a b r lhs rhs T Hw Ha Hb Hr Bl Br BT L2' R2' (DT e2 G2)) as (sfe & Sf & Ds).
  set (e3 := env_set e2 kSF (mkc 1 (X86.b2z (X86.msb sz r)))).
  assert (G3: env_get e3 kT0 = Some (mkc sz r)) by (unfold e3; rewrite env_get_set_other; [exact G2|discriminate]).
  assert (L3': den e3 lhs = Ok (mkc sz a)) by (unfold e3; rewrite den_env_set; assumption).
  assert (R3': den e3 rhs = Ok (mkc sz b)) by (unfold e3; rewrite den_env_set; assumption).
  destruct (set_of_den e3 sz a b r lhs rhs T Hw Ha Hb Hr Bl Br BT L3' R3' (DT e3 G3) sub) as (ofe & Of & Do).
  rewrite Hof in Do.
  set (e4 := env_set e3 kOF (mkc 1 (X86.b2z ofv))).
  assert (G4: env_get e4 kT0 = Some (mkc sz r)) by (unfold e4; rewrite env_get_set_other; [exact G3|discriminate]).
  assert (L4': den e4 lhs = Ok (mkc sz a)) by (unfold e4; rewrite den_env_set; assumption).
  destruct (Hcf e4 (DT e4 G4) L4') as (c & Cf & D5).
  set (e5 := env_set e4 kCF (mkc 1 (X86.b2z cfv))).
  exists (EBin op lhs rhs), (OAssign (flag_scalar X86Lift.n_ZF) zfe), (OAssign (flag_scalar X86Lift.n_SF) sfe),
         (OAssign (flag_scalar X86Lift.n_OF) ofe), (OAssign (flag_scalar X86Lift.n_CF) c), (mkst e5 (st_mem st)).
  split; [exact E1|]. split; [exact Zf|]. split; [exact Sf|]. split; [exact Of|]. split; [exact Cf|]. split; [reflexivity|].
  split.
  { cbn [exec_ops].
    rewrite (exec_assign st t0 _ _ D1). cbn [bind fst st_env st_mem]. fold en. rewrite KT. fold e1.
    rewrite (exec_assign (mkst e1 _) _ _ _ Dz). cbn [bind fst st_env st_mem]. change (skey_of (flag_scalar X86Lift.n_ZF)) with kZF. fold e2.
    rewrite (exec_assign (mkst e2 _) _ _ _ Ds). cbn [bind fst st_env st_mem]. change (skey_of (flag_scalar X86Lift.n_SF)) with kSF. fold e3.
    rewrite (exec_assign (mkst e3 _) _ _ _ Do). cbn [bind fst st_env st_mem]. change (skey_of (flag_scalar X86Lift.n_OF)) with kOF. fold e4.
    rewrite (exec_assign (mkst e4 _) _ _ _ D5). cbn [bind fst st_env st_mem]. change (skey_of (flag_scalar X86Lift.n_CF)) with kCF. fold e5.
    reflexivity. }
  split.
  { intros k K0 K1 K2 K3 K4. cbn [st_env]. unfold e5, e4, e3, e2, e1. rewrite !env_get_set_other by assumption. reflexivity. }
  split; [reflexivity|]. cbn [st_env]. unfold e5, e4, e3, e2.
  split; [rewrite !env_get_set_other by discriminate; exact G1|].
  split; [rewrite !env_get_set_other by discriminate; apply env_get_set_same|].
  split; [rewrite !env_get_set_other by discriminate; apply env_get_set_same|].
  split; [rewrite !env_get_set_other by discriminate; apply env_get_set_same|].
  apply env_get_set_same.
Qed.
End Core.

(* ---------- read-modify-write: op [m], r | imm ---------- *)
Lemma regs_emb_frame m s (en en' : senv) :
  regs_emb m s en ->
  (forall r, 0 <= r < ngpr m -> env_get en' (gpr_name m r, None) = env_get en (gpr_name m r, None)) ->
  regs_emb m s en'.
Proof. intros H F r Hr. rewrite F by exact Hr. apply H. exact Hr. Qed.

Lemma reg_key_facts m r : 0 <= r < ngpr m ->
  (gpr_name m r, @None N) <> kT0 /\ (gpr_name m r, @None N) <> kZF /\ (gpr_name m r, @None N) <> kSF /\
  (gpr_name m r, @None N) <> kOF /\ (gpr_name m r, @None N) <> kCF /\ (gpr_name m r, @None N) <> kTM /\ (gpr_name m r, @None N) <> kDF.
Proof.
  intros Hr. pose proof (reg_name_not_special _ (gpr_name_ok m _ Hr)) as (N0 & N1 & N2 & N3 & N4).
  pose proof (kTM_not_reg _ (gpr_name_ok m _ Hr)) as N5. pose proof (kDF_not_reg _ (gpr_name_ok m _ Hr)) as N6.
  unfold kT0, kZF, kSF, kOF, kCF. repeat split; try congruence; assumption.
Qed.

(* the final store of a read-modify-write form and the embedding of the result *)
Lemma rmw_store_pack m s st st2 dst sz r ae (cff : flag) (of : bool) :
  wf m s -> emb m s st -> mem_operand_ok m dst -> width_ok sz -> no_wrap sz dst s ->
  addr_expr m dst = Some (Ok ae) -> 0 <= r < 2 ^ sz ->
  (forall k, k <> kT0 -> k <> kZF -> k <> kSF -> k <> kOF -> k <> kCF -> k <> kTM -> env_get (st_env st2) k = env_get (st_env st) k) ->
  st_mem st2 = st_mem st ->
  forall ve, den (st_env st2) ve = Ok (mkc sz r) ->
  env_get (st_env st2) kZF = Some (mkc 1 (X86.b2z (r =? 0))) ->
  env_get (st_env st2) kSF = Some (mkc 1 (X86.b2z (X86.msb sz r))) ->
  env_get (st_env st2) kOF = Some (mkc 1 (X86.b2z of)) ->
  emb_flag cff (st_env st2) kCF ->
  forall s', option_map (fun s1 => set_fl s1 (fl_arith (x_fl s) cff (FB of) sz r)) (wr_op sz dst r s) = Some s' ->
  exists st3, exec_ops st2 [OStore ae ve] = Ok st3 /\ emb m s' st3 /\ wf m s'.
Proof.
  intros Hw He Hd Hwd Hnw Ea Hr Fr Hm ve Dv Ez Es Eo Ec s' Hs'.
  destruct (mem_operand_facts m dst s Hw Hd) as (Hea & A64 & P64 & Im).
  assert (Rg: regs_emb m s (st_env st2)).
  { apply (regs_emb_frame m s (st_env st)); [apply emb_regs_of; exact He|]. intros r0 Hr0.
    destruct (reg_key_facts m r0 Hr0) as (K0 & K1 & K2 & K3 & K4 & K5 & _). apply Fr; assumption. }
  destruct (addr_expr_regs m dst s (st_env st2) Hw Rg Hd) as (ae' & Ea' & _ & Da). rewrite Ea in Ea'. inversion Ea'; subst ae'.
  assert (Hwr: wr_op sz dst r s = option_map (set_mem s) (mem_wr (x_mem s) (op_asz dst) (ea (x_gpr s) dst) r (nbytes sz))).
  { destruct dst; try discriminate Im. unfold wr_op, wr_op_at. cbn [op_asz]. destruct (mem_wr (x_mem s) asz _ r (nbytes sz)); reflexivity. }
  rewrite Hwr in Hs'. destruct (mem_wr (x_mem s) (op_asz dst) (ea (x_gpr s) dst) r (nbytes sz)) as [xm'|] eqn:Hmw; cbn [option_map] in Hs'; [|discriminate].
  inversion Hs'; subst s'.
  assert (Ag2: mem_agree (x_mem s) (st_mem st2)) by (rewrite Hm; exact (emb_mem _ _ _ He)).
  assert (Le2: bm_big (st_mem st2) = false) by (rewrite Hm; apply (emb_le _ _ _ He)).
  destruct (mem_store_spec (x_mem s) (st_mem st2) (op_asz dst) sz (ea (x_gpr s) dst) r xm' Ag2 Le2 Hwd (proj1 Hea) Hnw A64 Hmw) as (bm' & Hst & Hag & Hle).
  assert (L64: ea (x_gpr s) dst < 2 ^ 64) by lia.
  pose proof (exec_store st2 ae ve (wordsz m) (ea (x_gpr s) dst) (mkc sz r) bm' Dv Da L64 Hst) as Ex.
  exists (mkst (st_env st2) bm'). split; [cbn [exec_ops]; rewrite Ex; reflexivity|].
  split.
  - constructor; cbn [set_fl set_mem x_gpr x_fl x_mem st_env st_mem fl_arith f_cf f_zf f_sf f_of f_df emb_flag]; try assumption.
    + pose proof (emb_df _ _ _ He) as D. unfold emb_flag in *.
      assert (Q: env_get (st_env st2) kDF = env_get (st_env st) kDF) by (apply Fr; flagkeys; unfold kTM; congruence).
      destruct (f_df (x_fl s)); [rewrite Q; exact D|destruct D as [v0 D]; exists v0; rewrite Q; exact D].
  - constructor; cbn [set_fl set_mem x_gpr x_mem]; [apply (wf_len _ _ Hw)|apply (wf_rng _ _ Hw)|].
    apply (wr_bytes_ok _ _ _ _ _ _ (wf_bytes _ _ Hw) Hmw).
Qed.

Lemma den_bin en o l r : den en (EBin o l r) = (x <- den en l ;; y <- den en r ;; sp_bin_c o x y).
Proof. reflexivity. Qed.

Lemma T0e_den en sz r : env_get en kT0 = Some (mkc sz r) -> den en (T0e sz) = Ok (mkc sz r).
Proof. intros G. unfold T0e. cbn [den]. unfold skey_of, temp_k. cbn [sname sssa sbits]. change (Z.to_N (53 + 0), @None N) with kT0. rewrite G. cbn [cbits]. rewrite Z.eqb_refl. reflexivity. Qed.

Lemma is_mem_not_reg o : is_mem o = true -> isreg o = false /\ regimm o = false.
Proof. destruct o; try discriminate; auto. Qed.

(* add [m], r | imm *)
Theorem add_rmw_sim m addr len sz dst src :
  mem_operand_ok m dst -> src_operand_ok m sz src -> width_ok sz ->
  sim_when (no_wrap sz dst) m addr len (IAlu AAdd sz dst src).
Proof.
  intros Hd Hsrc Hwd s st s' ip Hw He Hnw Hstep.
  destruct (mem_operand_facts m dst s Hw Hd) as (Hea & A64 & P64 & Im). destruct (is_mem_not_reg _ Im) as (Ir & Irg).
  unfold step in Hstep. destruct (rd_op sz dst s) as [a|] eqn:Hrd; [|discriminate].
  destruct (load_step m sz dst s st a Hw He Hd Hwd Hnw Hrd) as (ae & ev & Ea & Ex1 & _ & Ha).
  set (st1 := mkst (env_set (st_env st) kTM (mkc sz a)) (st_mem st)) in *.
  pose proof (emb_set_temp m s st sz a He) as He1. fold st1 in He1.
  assert (Dl: den (st_env st1) (EScalar (temp_main sz)) = Ok (mkc sz a)) by (apply temp_main_den; unfold st1; cbn [st_env]; apply env_get_set_same).
  destruct (src_expr m sz src s st1 Hw He1 Hsrc) as (rhs & b & Os & Br & Hb & Dr & Cr & Rs).
  rewrite Rs in Hstep. cbn [alu_reads_cf alu_writes alu] in Hstep.
  set (r := U sz (a + b)) in *.
  assert (Hr: 0 <= r < 2 ^ sz) by (unfold r, U; apply Z.mod_pos_bound; destruct Hwd as [->|[->|[->| ->]]]; reflexivity).
  assert (D1: den (st_env st1) (EBin Add (EScalar (temp_main sz)) rhs) = Ok (mkc sz r)).
  { rewrite den_bin, Dl, Dr. cbn [bind]. unfold sp_bin_c. cbn [cbits cval]. rewrite Z.eqb_refl. reflexivity. }
  destruct (alu_core st1 sz a b (EScalar (temp_main sz)) rhs Hwd eq_refl Br Ha Hb Dl Dr eq_refl Cr Add r
              (X86.sovf sz (X86.Sg sz a + X86.Sg sz b)) (2 ^ sz <=? a + b) false
              (fun T => c <- mk_bin Cmpltu T (EScalar (temp_main sz)) ;; Ok (assign_flag X86Lift.n_CF c)) Hr D1 eq_refl
              (of_add_correct sz a b Hwd Ha Hb))
    as (e & zf & sf & of & cf & st2 & E1 & Zf & Sf & Of & Cf & Hasg & Hex & Hfr & Hm & G0 & Ez & Es & Eo & Ec).
  { intros en DT DL. eexists. split; [unfold mk_bin; cbn [e_bits T0e temp_k temp_main sbits]; rewrite Z.eqb_refl; reflexivity|].
    rewrite den_bin, DT, DL. cbn [bind]. unfold sp_bin_c. cbn [cbits cval]. rewrite Z.eqb_refl. cbn [negb sp_bin].
    unfold s_cmpltu. pose proof (cf_add_correct sz a b Hwd Ha Hb) as CA. fold r in CA. rewrite CA. destruct (2 ^ sz <=? a + b); reflexivity. }
  assert (Fr2: forall k, k <> kT0 -> k <> kZF -> k <> kSF -> k <> kOF -> k <> kCF -> k <> kTM -> env_get (st_env st2) k = env_get (st_env st) k).
  { intros k K0 K1 K2 K3 K4 K5. rewrite Hfr by assumption. unfold st1. cbn [st_env]. apply env_get_set_other. exact K5. }
  assert (Hm2: st_mem st2 = st_mem st) by (rewrite Hm; reflexivity).
  destruct (option_map (fun s1 => set_fl s1 (fl_arith (x_fl s) (FB (2 ^ sz <=? a + b)) (FB (X86.sovf sz (X86.Sg sz a + X86.Sg sz b))) sz r)) (wr_op sz dst r s)) as [s2|] eqn:Hwr; [|discriminate].
  inversion Hstep; subst s' ip.
  destruct (rmw_store_pack m s st st2 dst sz r ae (FB _) _ Hw He Hd Hwd Hnw Ea Hr Fr2 Hm2 (T0e sz) (T0e_den _ _ _ G0) Ez Es Eo Ec s2 Hwr)
    as (st3 & Hex3 & Hemb & Hwf).
  exists (one_block addr (OLoad (temp_main sz) ae :: [OAssign (temp_k 0 sz) e; zf; sf; of; cf] ++ [OStore ae (T0e sz)])). split.
  - unfold mirror_instr. rewrite Ir, Im, (src_regimm _ _ _ Hsrc). cbn [andb]. unfold lift_alu_rmw. rewrite Ea. cbn [lift_alu_gen bind].
    rewrite Os. cbn [bind]. rewrite E1. cbn [bind]. fold (T0e sz). rewrite Zf. cbn [bind]. rewrite Sf. cbn [bind]. rewrite Of. cbn [bind].
    cbn [bind] in Cf. destruct (mk_bin Cmpltu (T0e sz) (EScalar (temp_main sz))) as [c| |] eqn:Ec5; cbn [bind] in Cf; try discriminate. inversion Cf; subst cf.
    cbn [bind app]. reflexivity.
  - exists st3. split; [|auto]. apply run_one_block_nb; [|discriminate|cbn [length app]; lia|].
    + cbn [nobranch forallb is_branch negb andb app]. rewrite forallb_forall in Hasg.
      assert (Q: forall o, In o [OAssign (temp_k 0 sz) e; zf; sf; of; cf] -> negb (is_branch o) = true).
      { intros o Hi. specialize (Hasg o Hi). destruct o; try discriminate; reflexivity. }
      rewrite (Q zf), (Q sf), (Q of), (Q cf) by (cbn; auto 10). reflexivity.
    + assert (App: forall l1 l2 sa sb, exec_ops sa l1 = Ok sb -> exec_ops sa (l1 ++ l2) = exec_ops sb l2).
      { induction l1 as [|o t IH]; intros l2 sa sb H; cbn [exec_ops app] in *; [inversion H; reflexivity|].
        destruct (exec_op sa o) as [[s0 ev0]| |]; cbn [bind fst] in *; try discriminate. apply IH. exact H. }
      change (OLoad (temp_main sz) ae :: [OAssign (temp_k 0 sz) e; zf; sf; of; cf] ++ [OStore ae (T0e sz)])
        with ([OLoad (temp_main sz) ae] ++ ([OAssign (temp_k 0 sz) e; zf; sf; of; cf] ++ [OStore ae (T0e sz)])).
      rewrite (App [OLoad (temp_main sz) ae] _ st st1) by (cbn [exec_ops]; rewrite Ex1; reflexivity).
      rewrite (App _ _ _ _ Hex). exact Hex3.
Qed.

(* sub [m], r | imm *)
Theorem sub_rmw_sim m addr len sz dst src :
  mem_operand_ok m dst -> src_operand_ok m sz src -> width_ok sz ->
  sim_when (no_wrap sz dst) m addr len (IAlu ASub sz dst src).
Proof.
  intros Hd Hsrc Hwd s st s' ip Hw He Hnw Hstep.
  destruct (mem_operand_facts m dst s Hw Hd) as (Hea & A64 & P64 & Im). destruct (is_mem_not_reg _ Im) as (Ir & Irg).
  unfold step in Hstep. destruct (rd_op sz dst s) as [a|] eqn:Hrd; [|discriminate].
  destruct (load_step m sz dst s st a Hw He Hd Hwd Hnw Hrd) as (ae & ev & Ea & Ex1 & _ & Ha).
  set (st1 := mkst (env_set (st_env st) kTM (mkc sz a)) (st_mem st)) in *.
  pose proof (emb_set_temp m s st sz a He) as He1. fold st1 in He1.
  assert (Dl: den (st_env st1) (EScalar (temp_main sz)) = Ok (mkc sz a)) by (apply temp_main_den; unfold st1; cbn [st_env]; apply env_get_set_same).
  destruct (src_expr m sz src s st1 Hw He1 Hsrc) as (rhs & b & Os & Br & Hb & Dr & Cr & Rs).
  rewrite Rs in Hstep. cbn [alu_reads_cf alu_writes alu] in Hstep.
  set (r := U sz (a - b)) in *.
  assert (Hr: 0 <= r < 2 ^ sz) by (unfold r, U; apply Z.mod_pos_bound; destruct Hwd as [->|[->|[->| ->]]]; reflexivity).
  assert (D1: den (st_env st1) (EBin Sub (EScalar (temp_main sz)) rhs) = Ok (mkc sz r)).
  { rewrite den_bin, Dl, Dr. cbn [bind]. unfold sp_bin_c. cbn [cbits cval]. rewrite Z.eqb_refl. reflexivity. }
  destruct (alu_core st1 sz a b (EScalar (temp_main sz)) rhs Hwd eq_refl Br Ha Hb Dl Dr eq_refl Cr Sub r
              (X86.sovf sz (X86.Sg sz a - X86.Sg sz b)) (a <? b) true
              (fun T => set_cf T (EScalar (temp_main sz))) Hr D1 eq_refl
              (of_sub_correct sz a b Hwd Ha Hb))
    as (e & zf & sf & of & cf & st2 & E1 & Zf & Sf & Of & Cf & Hasg & Hex & Hfr & Hm & G0 & Ez & Es & Eo & Ec).
  { intros en DT DL. destruct (set_cf_den en sz a r (EScalar (temp_main sz)) (T0e sz) eq_refl eq_refl DL DT) as (c & Cfe & Dc).
    exists c. split; [exact Cfe|]. pose proof (cf_sub_correct sz a b Hwd Ha Hb) as CA. fold r in CA. rewrite CA in Dc. exact Dc. }
  assert (Fr2: forall k, k <> kT0 -> k <> kZF -> k <> kSF -> k <> kOF -> k <> kCF -> k <> kTM -> env_get (st_env st2) k = env_get (st_env st) k).
  { intros k K0 K1 K2 K3 K4 K5. rewrite Hfr by assumption. unfold st1. cbn [st_env]. apply env_get_set_other. exact K5. }
  assert (Hm2: st_mem st2 = st_mem st) by (rewrite Hm; reflexivity).
  destruct (option_map (fun s1 => set_fl s1 (fl_arith (x_fl s) (FB (a <? b)) (FB (X86.sovf sz (X86.Sg sz a - X86.Sg sz b))) sz r)) (wr_op sz dst r s)) as [s2|] eqn:Hwr; [|discriminate].
  inversion Hstep; subst s' ip.
  destruct (rmw_store_pack m s st st2 dst sz r ae (FB _) _ Hw He Hd Hwd Hnw Ea Hr Fr2 Hm2 (T0e sz) (T0e_den _ _ _ G0) Ez Es Eo Ec s2 Hwr)
    as (st3 & Hex3 & Hemb & Hwf).
  exists (one_block addr (OLoad (temp_main sz) ae :: [OAssign (temp_k 0 sz) e; zf; sf; of; cf] ++ [OStore ae (T0e sz)])). split.
  - unfold mirror_instr. rewrite Ir, Im, (src_regimm _ _ _ Hsrc). cbn [andb]. unfold lift_alu_rmw. rewrite Ea. cbn [lift_alu_gen bind].
    rewrite Os. cbn [bind]. rewrite E1. cbn [bind]. fold (T0e sz). rewrite Zf. cbn [bind]. rewrite Sf. cbn [bind]. rewrite Of. cbn [bind].
    rewrite Cf.
    cbn [bind app]. reflexivity.
  - exists st3. split; [|auto]. apply run_one_block_nb; [|discriminate|cbn [length app]; lia|].
    + cbn [nobranch forallb is_branch negb andb app]. rewrite forallb_forall in Hasg.
      assert (Q: forall o, In o [OAssign (temp_k 0 sz) e; zf; sf; of; cf] -> negb (is_branch o) = true).
      { intros o Hi. specialize (Hasg o Hi). destruct o; try discriminate; reflexivity. }
      rewrite (Q zf), (Q sf), (Q of), (Q cf) by (cbn; auto 10). reflexivity.
    + assert (App: forall l1 l2 sa sb, exec_ops sa l1 = Ok sb -> exec_ops sa (l1 ++ l2) = exec_ops sb l2).
      { induction l1 as [|o t IH]; intros l2 sa sb H; cbn [exec_ops app] in *; [inversion H; reflexivity|].
        destruct (exec_op sa o) as [[s0 ev0]| |]; cbn [bind fst] in *; try discriminate. apply IH. exact H. }
      change (OLoad (temp_main sz) ae :: [OAssign (temp_k 0 sz) e; zf; sf; of; cf] ++ [OStore ae (T0e sz)])
        with ([OLoad (temp_main sz) ae] ++ ([OAssign (temp_k 0 sz) e; zf; sf; of; cf] ++ [OStore ae (T0e sz)])).
      rewrite (App [OLoad (temp_main sz) ae] _ st st1) by (cbn [exec_ops]; rewrite Ex1; reflexivity).
      rewrite (App _ _ _ _ Hex). exact Hex3.
Qed.

Lemma exec_ops_app : forall l1 l2 sa sb, exec_ops sa l1 = Ok sb -> exec_ops sa (l1 ++ l2) = exec_ops sb l2.
Proof.
  induction l1 as [|o t IH]; intros l2 sa sb H; cbn [exec_ops app] in *; [inversion H; reflexivity|].
  destruct (exec_op sa o) as [[s0 ev0]| |]; cbn [bind fst] in *; try discriminate. apply IH. exact H.
Qed.

Section Core2.
Variables (st : sstate) (sz a b : Z) (lhs rhs : expr).
Hypothesis Hw : width_ok sz.
Hypothesis Bl : e_bits lhs = sz.
Hypothesis Br : e_bits rhs = sz.
Hypothesis Ha : 0 <= a < 2 ^ sz.
Hypothesis Hb : 0 <= b < 2 ^ sz.
Hypothesis Dl : den (st_env st) lhs = Ok (mkc sz a).
Hypothesis Dr : den (st_env st) rhs = Ok (mkc sz b).
Hypothesis Cl : clean lhs = true.
Hypothesis Cr : clean rhs = true.

(* and / or / xor: temporary, ZF, SF, CF := 0, OF := 0 *)
Lemma logic_core (op : binop) (r : Z) :
  0 <= r < 2 ^ sz -> den (st_env st) (EBin op lhs rhs) = Ok (mkc sz r) ->
  exists zf sf st',
    mk_bin op lhs rhs = Ok (EBin op lhs rhs) /\ set_zf (T0e sz) = Ok zf /\ set_sf (T0e sz) = Ok sf /\
    forallb is_assign [OAssign (temp_k 0 sz) (EBin op lhs rhs); zf; sf; assign_flag X86Lift.n_CF (expr_const 0 1); assign_flag X86Lift.n_OF (expr_const 0 1)] = true /\
    exec_ops st [OAssign (temp_k 0 sz) (EBin op lhs rhs); zf; sf; assign_flag X86Lift.n_CF (expr_const 0 1); assign_flag X86Lift.n_OF (expr_const 0 1)] = Ok st' /\
    (forall k, k <> kT0 -> k <> kZF -> k <> kSF -> k <> kOF -> k <> kCF -> env_get (st_env st') k = env_get (st_env st) k) /\
    st_mem st' = st_mem st /\
    env_get (st_env st') kT0 = Some (mkc sz r) /\
    env_get (st_env st') kZF = Some (mkc 1 (X86.b2z (r =? 0))) /\
    env_get (st_env st') kSF = Some (mkc 1 (X86.b2z (X86.msb sz r))) /\
    env_get (st_env st') kOF = Some (mkc 1 0) /\
    env_get (st_env st') kCF = Some (mkc 1 0).
Proof.
  intros Hr D1.
  destruct (clean_parts _ Cl) as (L0 & L1 & L2 & L3 & L4). destruct (clean_parts _ Cr) as (R0 & R1 & R2 & R3 & R4).
  set (en := st_env st) in *. set (t0 := temp_k 0 sz). set (T := T0e sz).
  assert (E1: mk_bin op lhs rhs = Ok (EBin op lhs rhs)) by (unfold mk_bin; rewrite Bl, Br, Z.eqb_refl; reflexivity).
  set (e1 := env_set en kT0 (mkc sz r)).
  assert (KT: skey_of t0 = kT0) by reflexivity.
  assert (BT: e_bits T = sz) by reflexivity.
  assert (G1: env_get e1 kT0 = Some (mkc sz r)) by apply env_get_set_same.
  assert (L1': den e1 lhs = Ok (mkc sz a)) by (unfold e1; rewrite den_env_set; assumption).
  assert (R1': den e1 rhs = Ok (mkc sz b)) by (unfold e1; rewrite den_env_set; assumption).
  destruct (set_zf_den e1 sz r T BT (T0e_den e1 sz r G1)) as (zfe & Zf & Dz).
  set (e2 := env_set e1 kZF (mkc 1 (X86.b2z (r =? 0)))).
  assert (G2: env_get e2 kT0 = Some (mkc sz r)) by (unfold e2; rewrite env_get_set_other; [exact G1|discriminate]).
  assert (L2': den e2 lhs = Ok (mkc sz a)) by (unfold e2; rewrite den_env_set; assumption).
  assert (R2': den e2 rhs = Ok (mkc sz b)) by (unfold e2; rewrite den_env_set; assumption).
  destruct (set_sf_den e2 sz a b r lhs rhs T Hw Ha Hb Hr Bl Br BT L2' R2' (T0e_den e2 sz r G2)) as (sfe & Sf & Ds).
  set (e3 := env_set e2 kSF (mkc 1 (X86.b2z (X86.msb sz r)))).
  set (e4 := env_set e3 kCF (mkc 1 0)).
  set (e5 := env_set e4 kOF (mkc 1 0)).
  assert (DC: forall en', den en' (expr_const 0 1) = Ok (mkc 1 0)) by (intros; reflexivity).
  exists (OAssign (flag_scalar X86Lift.n_ZF) zfe), (OAssign (flag_scalar X86Lift.n_SF) sfe), (mkst e5 (st_mem st)).
  split; [exact E1|]. split; [exact Zf|]. split; [exact Sf|]. split; [reflexivity|].
  split.
  { cbn [exec_ops]. unfold assign_flag.
    rewrite (exec_assign st t0 _ _ D1). cbn [bind fst st_env st_mem]. fold en. rewrite KT. fold e1.
    rewrite (exec_assign (mkst e1 _) _ _ _ Dz). cbn [bind fst st_env st_mem]. change (skey_of (flag_scalar X86Lift.n_ZF)) with kZF. fold e2.
    rewrite (exec_assign (mkst e2 _) _ _ _ Ds). cbn [bind fst st_env st_mem]. change (skey_of (flag_scalar X86Lift.n_SF)) with kSF. fold e3.
    rewrite (exec_assign (mkst e3 _) _ _ _ (DC e3)). cbn [bind fst st_env st_mem]. change (skey_of (flag_scalar X86Lift.n_CF)) with kCF. fold e4.
    rewrite (exec_assign (mkst e4 _) _ _ _ (DC e4)). cbn [bind fst st_env st_mem]. change (skey_of (flag_scalar X86Lift.n_OF)) with kOF. fold e5.
    reflexivity. }
  split.
  { intros k K0 K1 K2 K3 K4. cbn [st_env]. unfold e5, e4, e3, e2, e1. rewrite !env_get_set_other by assumption. reflexivity. }
  split; [reflexivity|]. cbn [st_env]. unfold e5, e4, e3, e2.
  split; [rewrite !env_get_set_other by discriminate; exact G1|].
  split; [rewrite !env_get_set_other by discriminate; apply env_get_set_same|].
  split; [rewrite !env_get_set_other by discriminate; apply env_get_set_same|].
  split; [apply env_get_set_same|].
  rewrite env_get_set_other by discriminate. apply env_get_set_same.
Qed.

(* cmp: ZF, SF, OF, CF from the expression lhs - rhs itself *)
Lemma cmp_core :
  let r := U sz (a - b) in
  exists zf sf of cf st',
    mk_bin Sub lhs rhs = Ok (EBin Sub lhs rhs) /\ set_zf (EBin Sub lhs rhs) = Ok zf /\ set_sf (EBin Sub lhs rhs) = Ok sf /\
    set_of (EBin Sub lhs rhs) lhs rhs true = Ok of /\ set_cf (EBin Sub lhs rhs) lhs = Ok cf /\
    forallb is_assign [zf; sf; of; cf] = true /\
    exec_ops st [zf; sf; of; cf] = Ok st' /\
    (forall k, k <> kZF -> k <> kSF -> k <> kOF -> k <> kCF -> env_get (st_env st') k = env_get (st_env st) k) /\
    st_mem st' = st_mem st /\
    env_get (st_env st') kZF = Some (mkc 1 (X86.b2z (r =? 0))) /\
    env_get (st_env st') kSF = Some (mkc 1 (X86.b2z (X86.msb sz r))) /\
    env_get (st_env st') kOF = Some (mkc 1 (X86.b2z (X86.sovf sz (X86.Sg sz a - X86.Sg sz b)))) /\
    env_get (st_env st') kCF = Some (mkc 1 (X86.b2z (a <? b))).
Proof.
  intros r.
  destruct (clean_parts _ Cl) as (L0 & L1 & L2 & L3 & L4). destruct (clean_parts _ Cr) as (R0 & R1 & R2 & R3 & R4).
  assert (Hr: 0 <= r < 2 ^ sz) by (unfold r, U; apply Z.mod_pos_bound; destruct Hw as [->|[->|[->| ->]]]; reflexivity).
  set (en := st_env st) in *. set (T := EBin Sub lhs rhs).
  assert (E1: mk_bin Sub lhs rhs = Ok T) by (unfold mk_bin; rewrite Bl, Br, Z.eqb_refl; reflexivity).
  assert (BT: e_bits T = sz) by (unfold T; cbn [e_bits is_cmp]; exact Bl).
  assert (DT: forall en', den en' lhs = Ok (mkc sz a) -> den en' rhs = Ok (mkc sz b) -> den en' T = Ok (mkc sz r)).
  { intros en' A B. unfold T. rewrite den_bin, A, B. cbn [bind]. unfold sp_bin_c. cbn [cbits cval]. rewrite Z.eqb_refl. reflexivity. }
  destruct (set_zf_den en sz r T BT (DT en Dl Dr)) as (zfe & Zf & Dz).
  set (e2 := env_set en kZF (mkc 1 (X86.b2z (r =? 0)))).
  assert (L2': den e2 lhs = Ok (mkc sz a)) by (unfold e2; rewrite den_env_set; assumption).
  assert (R2': den e2 rhs = Ok (mkc sz b)) by (unfold e2; rewrite den_env_set; assumption).
  destruct (set_sf_den e2 sz a b r lhs rhs T Hw Ha Hb Hr Bl Br BT L2' R2' (DT e2 L2' R2')) as (sfe & Sf & Ds).
  set (e3 := env_set e2 kSF (mkc 1 (X86.b2z (X86.msb sz r)))).
  assert (L3': den e3 lhs = Ok (mkc sz a)) by (unfold e3; rewrite den_env_set; assumption).
  assert (R3': den e3 rhs = Ok (mkc sz b)) by (unfold e3; rewrite den_env_set; assumption).
  destruct (set_of_den e3 sz a b r lhs rhs T Hw Ha Hb Hr Bl Br BT L3' R3' (DT e3 L3' R3') true) as (ofe & Of & Do).
  pose proof (of_sub_correct sz a b Hw Ha Hb) as OA. fold r in OA. rewrite OA in Do.
  set (e4 := env_set e3 kOF (mkc 1 (X86.b2z (X86.sovf sz (X86.Sg sz a - X86.Sg sz b))))).
  assert (L4': den e4 lhs = Ok (mkc sz a)) by (unfold e4; rewrite den_env_set; assumption).
  assert (R4': den e4 rhs = Ok (mkc sz b)) by (unfold e4; rewrite den_env_set; assumption).
  destruct (set_cf_den e4 sz a r lhs T Bl BT L4' (DT e4 L4' R4')) as (cfe & Cf & D5).
  pose proof (cf_sub_correct sz a b Hw Ha Hb) as CA. fold r in CA. rewrite CA in D5.
  set (e5 := env_set e4 kCF (mkc 1 (X86.b2z (a <? b)))).
  exists (OAssign (flag_scalar X86Lift.n_ZF) zfe), (OAssign (flag_scalar X86Lift.n_SF) sfe),
         (OAssign (flag_scalar X86Lift.n_OF) ofe), (OAssign (flag_scalar X86Lift.n_CF) cfe), (mkst e5 (st_mem st)).
  split; [exact E1|]. split; [exact Zf|]. split; [exact Sf|]. split; [exact Of|]. split; [exact Cf|]. split; [reflexivity|].
  split.
  { cbn [exec_ops].
    rewrite (exec_assign st _ _ _ Dz). cbn [bind fst st_env st_mem]. fold en. change (skey_of (flag_scalar X86Lift.n_ZF)) with kZF. fold e2.
    rewrite (exec_assign (mkst e2 _) _ _ _ Ds). cbn [bind fst st_env st_mem]. change (skey_of (flag_scalar X86Lift.n_SF)) with kSF. fold e3.
    rewrite (exec_assign (mkst e3 _) _ _ _ Do). cbn [bind fst st_env st_mem]. change (skey_of (flag_scalar X86Lift.n_OF)) with kOF. fold e4.
    rewrite (exec_assign (mkst e4 _) _ _ _ D5). cbn [bind fst st_env st_mem]. change (skey_of (flag_scalar X86Lift.n_CF)) with kCF. fold e5.
    reflexivity. }
  split.
  { intros k K1 K2 K3 K4. cbn [st_env]. unfold e5, e4, e3, e2. rewrite !env_get_set_other by assumption. reflexivity. }
  split; [reflexivity|]. cbn [st_env]. unfold e5, e4, e3, e2.
  split; [rewrite !env_get_set_other by discriminate; apply env_get_set_same|].
  split; [rewrite !env_get_set_other by discriminate; apply env_get_set_same|].
  split; [rewrite !env_get_set_other by discriminate; apply env_get_set_same|].
  apply env_get_set_same.
Qed.
End Core2.

(* and / or / xor [m], r | imm *)
Theorem logic_rmw_sim m addr len o op f sz dst src :
  logic_alu o = Some (op, f) ->
  mem_operand_ok m dst -> src_operand_ok m sz src -> width_ok sz ->
  sim_when (no_wrap sz dst) m addr len (IAlu o sz dst src).
Proof.
  intros Hl Hd Hsrc Hwd s st s' ip Hw He Hnw Hstep.
  destruct (mem_operand_facts m dst s Hw Hd) as (Hea & A64 & P64 & Im). destruct (is_mem_not_reg _ Im) as (Ir & Irg).
  unfold step in Hstep. destruct (rd_op sz dst s) as [a|] eqn:Hrd; [|discriminate].
  destruct (load_step m sz dst s st a Hw He Hd Hwd Hnw Hrd) as (ae & ev & Ea & Ex1 & _ & Ha).
  set (st1 := mkst (env_set (st_env st) kTM (mkc sz a)) (st_mem st)) in *.
  pose proof (emb_set_temp m s st sz a He) as He1. fold st1 in He1.
  assert (Dl: den (st_env st1) (EScalar (temp_main sz)) = Ok (mkc sz a)) by (apply temp_main_den; unfold st1; cbn [st_env]; apply env_get_set_same).
  destruct (src_expr m sz src s st1 Hw He1 Hsrc) as (rhs & b & Os & Br & Hb & Dr & Cr & Rs).
  rewrite Rs in Hstep.
  assert (Rc: (if alu_reads_cf o then flag_is (f_cf (x_fl s)) else Some false) = Some false) by (destruct o; try discriminate; reflexivity).
  rewrite Rc in Hstep.
  set (r := f a b) in *.
  assert (W0: 0 <= sz) by (destruct Hwd as [->|[->|[->| ->]]]; lia).
  assert (Hr: 0 <= r < 2 ^ sz).
  { unfold r. destruct o; try discriminate; inversion Hl; subst; [apply lor_range|apply land_range|apply lxor_range]; lia. }
  assert (D1: den (st_env st1) (EBin op (EScalar (temp_main sz)) rhs) = Ok (mkc sz r)).
  { rewrite den_bin, Dl, Dr. cbn [bind]. unfold sp_bin_c. cbn [cbits cval]. rewrite Z.eqb_refl. cbn [negb].
    unfold r. destruct o; try discriminate; inversion Hl; subst; reflexivity. }
  destruct (logic_core st1 sz a b (EScalar (temp_main sz)) rhs Hwd eq_refl Br Ha Hb Dl Dr eq_refl Cr op r Hr D1)
    as (zf & sf & st2 & E1 & Zf & Sf & Hasg & Hex & Hfr & Hm & G0 & Ez & Es & Eo & Ec).
  assert (Fr2: forall k, k <> kT0 -> k <> kZF -> k <> kSF -> k <> kOF -> k <> kCF -> k <> kTM -> env_get (st_env st2) k = env_get (st_env st) k).
  { intros k K0 K1 K2 K3 K4 K5. rewrite Hfr by assumption. unfold st1. cbn [st_env]. apply env_get_set_other. exact K5. }
  assert (Hm2: st_mem st2 = st_mem st) by (rewrite Hm; reflexivity).
  assert (Hst: (let '(r0, f') := alu o sz a b false (x_fl s) in
                if alu_writes o then match option_map (fun s1 => set_fl s1 f') (wr_op sz dst r0 s) with Some s1 => XNext s1 (addr + len) | None => XFault end
                else XNext (set_fl s f') (addr + len)) =
               match option_map (fun s1 => set_fl s1 (fl_arith (x_fl s) (FB false) (FB false) sz r)) (wr_op sz dst r s) with
               | Some s1 => XNext s1 (addr + len) | None => XFault end).
  { unfold r. destruct o; try discriminate; inversion Hl; subst; reflexivity. }
  rewrite Hst in Hstep.
  destruct (option_map (fun s1 => set_fl s1 (fl_arith (x_fl s) (FB false) (FB false) sz r)) (wr_op sz dst r s)) as [s2|] eqn:Hwr; [|discriminate].
  inversion Hstep; subst s' ip.
  destruct (rmw_store_pack m s st st2 dst sz r ae (FB false) false Hw He Hd Hwd Hnw Ea Hr Fr2 Hm2 (T0e sz) (T0e_den _ _ _ G0) Ez Es Eo Ec s2 Hwr)
    as (st3 & Hex3 & Hemb & Hwf).
  set (core := [OAssign (temp_k 0 sz) (EBin op (EScalar (temp_main sz)) rhs); zf; sf; assign_flag X86Lift.n_CF (expr_const 0 1); assign_flag X86Lift.n_OF (expr_const 0 1)]) in *.
  exists (one_block addr (OLoad (temp_main sz) ae :: core ++ [OStore ae (T0e sz)])). split.
  - unfold mirror_instr. rewrite Ir, Im, (src_regimm _ _ _ Hsrc). cbn [andb]. unfold lift_alu_rmw. rewrite Ea.
    assert (Q: lift_alu_gen o sz (Ok (EScalar (temp_main sz))) (opv m sz src) (fun v => a0 <- Ok ae ;; Ok [OStore a0 v]) = Some (Ok (core ++ [OStore ae (T0e sz)]))).
    { assert (Ne: expr_eqb (EScalar (temp_main sz)) rhs = false).
      { destruct (expr_eqb (EScalar (temp_main sz)) rhs) eqn:Q; [|reflexivity]. apply expr_eqb_eq in Q.
        assert (M: mentions kTM rhs = true) by (rewrite <- Q; cbn; unfold skey_of, temp_main; cbn; reflexivity).
        (* rhs is a register or immediate expression evaluated in st1 as in st: it cannot mention the load temporary *)
        exfalso. destruct src as [r0|r0| |v0]; cbn in Hsrc; try contradiction.
        - destruct (reg_operand_shape m sz (OReg r0) Hsrc) as (sd0 & Hs0 & Hr0 & _). destruct (operand_shape_xreg _ _ _ _ _ Hs0) as (X0 & V0 & _).
          unfold opv in Os. rewrite X0 in Os.
          assert (Nk: gpr_name m (oreg (OReg r0)) <> fst kTM) by (intros E; apply (kTM_not_reg _ (gpr_name_ok m _ Hr0)); unfold kTM in *; cbn [fst] in E; rewrite E; reflexivity).
          rewrite (reg_get_mentions _ _ _ _ V0 Os kTM Nk) in M. discriminate.
        - destruct (reg_operand_shape m sz (ORegH r0) Hsrc) as (sd0 & Hs0 & Hr0 & _). destruct (operand_shape_xreg _ _ _ _ _ Hs0) as (X0 & V0 & _).
          unfold opv in Os. rewrite X0 in Os.
          assert (Nk: gpr_name m (oreg (ORegH r0)) <> fst kTM) by (intros E; apply (kTM_not_reg _ (gpr_name_ok m _ Hr0)); unfold kTM in *; cbn [fst] in E; rewrite E; reflexivity).
          rewrite (reg_get_mentions _ _ _ _ V0 Os kTM Nk) in M. discriminate.
        - cbn [opv] in Os. inversion Os; subst rhs. cbn in M. discriminate. }
      destruct o; try discriminate; inversion Hl; subst op f; cbn [lift_alu_gen bind]; rewrite Os; cbn [bind andb]; try rewrite Ne; cbn [andb];
        rewrite E1; cbn [bind]; fold (T0e sz); rewrite Zf; cbn [bind]; rewrite Sf; cbn [bind app]; reflexivity. }
    rewrite Q. cbn [option_map bind]. reflexivity.
  - exists st3. split; [|auto]. apply run_one_block_nb; [|discriminate|unfold core; cbn [length app]; lia|].
    + unfold core. cbn [nobranch forallb is_branch negb andb app assign_flag]. unfold core in Hasg. rewrite forallb_forall in Hasg.
      assert (Q: forall o0, In o0 [OAssign (temp_k 0 sz) (EBin op (EScalar (temp_main sz)) rhs); zf; sf; assign_flag X86Lift.n_CF (expr_const 0 1); assign_flag X86Lift.n_OF (expr_const 0 1)] -> negb (is_branch o0) = true).
      { intros o0 Hi. specialize (Hasg o0 Hi). destruct o0; try discriminate; reflexivity. }
      rewrite (Q zf), (Q sf) by (cbn; auto 10). reflexivity.
    + change (OLoad (temp_main sz) ae :: core ++ [OStore ae (T0e sz)]) with ([OLoad (temp_main sz) ae] ++ (core ++ [OStore ae (T0e sz)])).
      rewrite (exec_ops_app [OLoad (temp_main sz) ae] _ st st1) by (cbn [exec_ops]; rewrite Ex1; reflexivity).
      rewrite (exec_ops_app _ _ _ _ Hex). exact Hex3.
Qed.

(* cmp [m], r | imm *)
Theorem cmp_mem_sim m addr len sz dst src :
  mem_operand_ok m dst -> src_operand_ok m sz src -> width_ok sz ->
  sim_when (no_wrap sz dst) m addr len (IAlu ACmp sz dst src).
Proof.
  intros Hd Hsrc Hwd s st s' ip Hw He Hnw Hstep.
  destruct (mem_operand_facts m dst s Hw Hd) as (Hea & A64 & P64 & Im). destruct (is_mem_not_reg _ Im) as (Ir & Irg).
  unfold step in Hstep. destruct (rd_op sz dst s) as [a|] eqn:Hrd; [|discriminate].
  destruct (load_step m sz dst s st a Hw He Hd Hwd Hnw Hrd) as (ae & ev & Ea & Ex1 & _ & Ha).
  set (st1 := mkst (env_set (st_env st) kTM (mkc sz a)) (st_mem st)) in *.
  pose proof (emb_set_temp m s st sz a He) as He1. fold st1 in He1.
  assert (Dl: den (st_env st1) (EScalar (temp_main sz)) = Ok (mkc sz a)) by (apply temp_main_den; unfold st1; cbn [st_env]; apply env_get_set_same).
  destruct (src_expr m sz src s st1 Hw He1 Hsrc) as (rhs & b & Os & Br & Hb & Dr & Cr & Rs).
  rewrite Rs in Hstep. cbn [alu_reads_cf alu_writes alu] in Hstep. inversion Hstep; subst s' ip.
  destruct (cmp_core st1 sz a b (EScalar (temp_main sz)) rhs Hwd eq_refl Br Ha Hb Dl Dr eq_refl Cr)
    as (zf & sf & of & cf & st2 & E1 & Zf & Sf & Of & Cf & Hasg & Hex & Hfr & Hm & Ez & Es & Eo & Ec).
  exists (one_block addr (OLoad (temp_main sz) ae :: [zf; sf; of; cf])). split.
  - unfold mirror_instr. rewrite Ir, Im, (src_regimm _ _ _ Hsrc). cbn [andb]. unfold lift_alu_rmw. rewrite Ea. cbn [lift_alu_gen bind].
    rewrite Os. cbn [bind]. rewrite E1. cbn [bind]. rewrite Zf. cbn [bind]. rewrite Sf. cbn [bind]. rewrite Of. cbn [bind]. rewrite Cf. cbn [bind]. reflexivity.
  - exists st2. split.
    + apply run_one_block_nb; [|discriminate|cbn [length]; lia|].
      * cbn [nobranch forallb is_branch negb andb]. rewrite forallb_forall in Hasg.
        assert (Q: forall o0, In o0 [zf; sf; of; cf] -> negb (is_branch o0) = true) by (intros o0 Hi; specialize (Hasg o0 Hi); destruct o0; try discriminate; reflexivity).
        rewrite (Q zf), (Q sf), (Q of), (Q cf) by (cbn; auto 10). reflexivity.
      * change (OLoad (temp_main sz) ae :: [zf; sf; of; cf]) with ([OLoad (temp_main sz) ae] ++ [zf; sf; of; cf]).
        rewrite (exec_ops_app [OLoad (temp_main sz) ae] _ st st1) by (cbn [exec_ops]; rewrite Ex1; reflexivity). exact Hex.
    + assert (Fr2: forall k, k <> kZF -> k <> kSF -> k <> kOF -> k <> kCF -> k <> kTM -> env_get (st_env st2) k = env_get (st_env st) k).
      { intros k K1 K2 K3 K4 K5. rewrite Hfr by assumption. unfold st1. cbn [st_env]. apply env_get_set_other. exact K5. }
      split.
      * constructor; cbn [set_fl x_gpr x_fl x_mem fl_arith f_cf f_zf f_sf f_of f_df emb_flag]; try assumption.
        -- intros r0 Hr0. destruct (reg_key_facts m r0 Hr0) as (K0 & K1 & K2 & K3 & K4 & K5 & _). rewrite Fr2 by assumption. apply (emb_gpr _ _ _ He). exact Hr0.
        -- pose proof (emb_df _ _ _ He) as D. unfold emb_flag in *.
           assert (Q: env_get (st_env st2) kDF = env_get (st_env st) kDF) by (apply Fr2; flagkeys; unfold kTM; congruence).
           destruct (f_df (x_fl s)); [rewrite Q; exact D|destruct D as [v0 D]; exists v0; rewrite Q; exact D].
        -- intros a0. rewrite Hm. apply (emb_mem _ _ _ He1).
        -- rewrite Hm. apply (emb_le _ _ _ He1).
      * constructor; cbn [set_fl x_gpr x_mem]; [apply (wf_len _ _ Hw)|apply (wf_rng _ _ Hw)|apply (wf_bytes _ _ Hw)].
Qed.

(* inc / dec: ZF, SF, OF from the expression lhs +- 1; CF untouched *)
Lemma incdec_core st sz a lhs (sub : bool) :
  width_ok sz -> e_bits lhs = sz -> 0 <= a < 2 ^ sz -> den (st_env st) lhs = Ok (mkc sz a) -> clean lhs = true ->
  let r := if sub then U sz (a - 1) else U sz (a + 1) in
  let op := if sub then Sub else Add in
  let one := expr_const 1 sz in
  exists zf sf of st',
    mk_bin op lhs one = Ok (EBin op lhs one) /\ set_zf (EBin op lhs one) = Ok zf /\ set_sf (EBin op lhs one) = Ok sf /\
    set_of (EBin op lhs one) lhs one sub = Ok of /\
    forallb is_assign [zf; sf; of] = true /\ exec_ops st [zf; sf; of] = Ok st' /\
    (forall k, k <> kZF -> k <> kSF -> k <> kOF -> env_get (st_env st') k = env_get (st_env st) k) /\
    st_mem st' = st_mem st /\ 0 <= r < 2 ^ sz /\
    den (st_env st') (EBin op lhs one) = Ok (mkc sz r) /\
    env_get (st_env st') kZF = Some (mkc 1 (X86.b2z (r =? 0))) /\
    env_get (st_env st') kSF = Some (mkc 1 (X86.b2z (X86.msb sz r))) /\
    env_get (st_env st') kOF = Some (mkc 1 (X86.b2z (X86.sovf sz (if sub then X86.Sg sz a - X86.Sg sz 1 else X86.Sg sz a + X86.Sg sz 1)))).
Proof.
  intros Hw Bl Ha Dl Cl r op one.
  destruct (clean_parts _ Cl) as (L0 & L1 & L2 & L3 & L4).
  assert (Hb: 0 <= 1 < 2 ^ sz) by (destruct Hw as [->|[->|[->| ->]]]; pows; lia).
  assert (Hr: 0 <= r < 2 ^ sz) by (unfold r, U; destruct sub; apply Z.mod_pos_bound; destruct Hw as [->|[->|[->| ->]]]; reflexivity).
  assert (Bo: e_bits one = sz) by reflexivity.
  assert (Do1: forall en', den en' one = Ok (mkc sz 1)).
  { intros en'. unfold one, expr_const, new_big. cbn [den]. f_equal. f_equal. destruct Hw as [->|[->|[->| ->]]]; reflexivity. }
  set (en := st_env st) in *. set (T := EBin op lhs one).
  assert (E1: mk_bin op lhs one = Ok T) by (unfold mk_bin; rewrite Bl, Bo, Z.eqb_refl; reflexivity).
  assert (BT: e_bits T = sz) by (unfold T, op; destruct sub; cbn [e_bits is_cmp]; exact Bl).
  assert (DT: forall en', den en' lhs = Ok (mkc sz a) -> den en' T = Ok (mkc sz r)).
  { intros en' A. unfold T. rewrite den_bin, A, (Do1 en'). cbn [bind]. unfold sp_bin_c. cbn [cbits cval]. rewrite Z.eqb_refl.
    unfold op, r. destruct sub; reflexivity. }
  destruct (set_zf_den en sz r T BT (DT en Dl)) as (zfe & Zf & Dz).
  set (e2 := env_set en kZF (mkc 1 (X86.b2z (r =? 0)))).
  assert (L2': den e2 lhs = Ok (mkc sz a)) by (unfold e2; rewrite den_env_set; assumption).
  destruct (set_sf_den e2 sz a 1 r lhs one T Hw Ha Hb Hr Bl Bo BT L2' (Do1 e2) (DT e2 L2')) as (sfe & Sf & Ds).
  set (e3 := env_set e2 kSF (mkc 1 (X86.b2z (X86.msb sz r)))).
  assert (L3': den e3 lhs = Ok (mkc sz a)) by (unfold e3; rewrite den_env_set; assumption).
  destruct (set_of_den e3 sz a 1 r lhs one T Hw Ha Hb Hr Bl Bo BT L3' (Do1 e3) (DT e3 L3') sub) as (ofe & Of & Do).
  assert (OV: of_value sz a 1 r sub = X86.b2z (X86.sovf sz (if sub then X86.Sg sz a - X86.Sg sz 1 else X86.Sg sz a + X86.Sg sz 1))).
  { unfold r. destruct sub; [apply of_sub_correct|apply of_add_correct]; assumption. }
  rewrite OV in Do.
  set (e4 := env_set e3 kOF (mkc 1 (X86.b2z (X86.sovf sz (if sub then X86.Sg sz a - X86.Sg sz 1 else X86.Sg sz a + X86.Sg sz 1))))).
  assert (L4': den e4 lhs = Ok (mkc sz a)) by (unfold e4; rewrite den_env_set; assumption).
  exists (OAssign (flag_scalar X86Lift.n_ZF) zfe), (OAssign (flag_scalar X86Lift.n_SF) sfe), (OAssign (flag_scalar X86Lift.n_OF) ofe), (mkst e4 (st_mem st)).
  split; [exact E1|]. split; [exact Zf|]. split; [exact Sf|]. split; [exact Of|]. split; [reflexivity|].
  split.
  { cbn [exec_ops].
    rewrite (exec_assign st _ _ _ Dz). cbn [bind fst st_env st_mem]. fold en. change (skey_of (flag_scalar X86Lift.n_ZF)) with kZF. fold e2.
    rewrite (exec_assign (mkst e2 _) _ _ _ Ds). cbn [bind fst st_env st_mem]. change (skey_of (flag_scalar X86Lift.n_SF)) with kSF. fold e3.
    rewrite (exec_assign (mkst e3 _) _ _ _ Do). cbn [bind fst st_env st_mem]. change (skey_of (flag_scalar X86Lift.n_OF)) with kOF. fold e4.
    reflexivity. }
  split.
  { intros k K1 K2 K3. cbn [st_env]. unfold e4, e3, e2. rewrite !env_get_set_other by assumption. reflexivity. }
  split; [reflexivity|]. split; [exact Hr|]. cbn [st_env]. split; [exact (DT e4 L4')|]. unfold e4, e3, e2.
  split; [rewrite !env_get_set_other by discriminate; apply env_get_set_same|].
  split; [rewrite !env_get_set_other by discriminate; apply env_get_set_same|].
  apply env_get_set_same.
Qed.

(* inc / dec [m] *)
Theorem incdec_rmw_sim m addr len (sub : bool) sz dst :
  mem_operand_ok m dst -> width_ok sz ->
  sim_when (no_wrap sz dst) m addr len (IUn (if sub then UDec else UInc) sz dst).
Proof.
  intros Hd Hwd s st s' ip Hw He Hnw Hstep.
  destruct (mem_operand_facts m dst s Hw Hd) as (Hea & A64 & P64 & Im). destruct (is_mem_not_reg _ Im) as (Ir & Irg).
  assert (Hst0: step m (addr + len) (IUn (if sub then UDec else UInc) sz dst) s =
                match rd_op sz dst s with
                | Some a => let '(r, f') := un (if sub then UDec else UInc) sz a (x_fl s) in
                            match option_map (fun s1 => set_fl s1 f') (wr_op sz dst r s) with Some s1 => XNext s1 (addr + len) | None => XFault end
                | None => XFault end) by (destruct sub; reflexivity).
  rewrite Hst0 in Hstep. destruct (rd_op sz dst s) as [a|] eqn:Hrd; [|discriminate].
  destruct (load_step m sz dst s st a Hw He Hd Hwd Hnw Hrd) as (ae & ev & Ea & Ex1 & _ & Ha).
  set (st1 := mkst (env_set (st_env st) kTM (mkc sz a)) (st_mem st)) in *.
  pose proof (emb_set_temp m s st sz a He) as He1. fold st1 in He1.
  assert (Dl: den (st_env st1) (EScalar (temp_main sz)) = Ok (mkc sz a)) by (apply temp_main_den; unfold st1; cbn [st_env]; apply env_get_set_same).
  destruct (incdec_core st1 sz a (EScalar (temp_main sz)) sub Hwd eq_refl Ha Dl eq_refl)
    as (zf & sf & of & st2 & E1 & Zf & Sf & Of & Hasg & Hex & Hfr & Hm & Hr & DT & Ez & Es & Eo).
  set (r := if sub then U sz (a - 1) else U sz (a + 1)) in *.
  set (op := if sub then Sub else Add) in *.
  set (T := EBin op (EScalar (temp_main sz)) (expr_const 1 sz)) in *.
  assert (Fr2: forall k, k <> kT0 -> k <> kZF -> k <> kSF -> k <> kOF -> k <> kCF -> k <> kTM -> env_get (st_env st2) k = env_get (st_env st) k).
  { intros k K0 K1 K2 K3 K4 K5. rewrite Hfr by assumption. unfold st1. cbn [st_env]. apply env_get_set_other. exact K5. }
  assert (Hm2: st_mem st2 = st_mem st) by (rewrite Hm; reflexivity).
  assert (Ecf: emb_flag (f_cf (x_fl s)) (st_env st2) kCF).
  { pose proof (emb_cf _ _ _ He) as C. unfold emb_flag in *.
    assert (Q: env_get (st_env st2) kCF = env_get (st_env st) kCF).
    { rewrite Hfr by (flagkeys; congruence). unfold st1. cbn [st_env]. apply env_get_set_other. unfold kCF, kTM. discriminate. }
    destruct (f_cf (x_fl s)); [rewrite Q; exact C|destruct C as [v C]; exists v; rewrite Q; exact C]. }
  assert (Hun: un (if sub then UDec else UInc) sz a (x_fl s) =
               (r, fl_arith (x_fl s) (f_cf (x_fl s)) (FB (X86.sovf sz (if sub then X86.Sg sz a - X86.Sg sz 1 else X86.Sg sz a + X86.Sg sz 1))) sz r)).
  { unfold r. destruct sub; cbn [un]; [rewrite (dec_of sz a Hwd Ha)|rewrite (inc_of sz a Hwd Ha)]; reflexivity. }
  rewrite Hun in Hstep.
  destruct (option_map (fun s1 => set_fl s1 (fl_arith (x_fl s) (f_cf (x_fl s)) (FB (X86.sovf sz (if sub then X86.Sg sz a - X86.Sg sz 1 else X86.Sg sz a + X86.Sg sz 1))) sz r)) (wr_op sz dst r s)) as [s2|] eqn:Hwr; [|discriminate].
  inversion Hstep; subst s' ip.
  destruct (rmw_store_pack m s st st2 dst sz r ae (f_cf (x_fl s)) _ Hw He Hd Hwd Hnw Ea Hr Fr2 Hm2 T DT Ez Es Eo Ecf s2 Hwr)
    as (st3 & Hex3 & Hemb & Hwf).
  exists (one_block addr (OLoad (temp_main sz) ae :: [zf; sf; of] ++ [OStore ae T])). split.
  - unfold mirror_instr. rewrite Ir, Im. unfold lift_un_rmw. rewrite Ea.
    assert (Q: lift_un_gen (if sub then UDec else UInc) (Ok (EScalar (temp_main sz))) (fun v => a0 <- Ok ae ;; Ok [OStore a0 v]) = Some (Ok ([zf; sf; of] ++ [OStore ae T]))).
    { clear - E1 Zf Sf Of. unfold T, op in *. destruct sub; cbn [lift_un_gen bind e_bits temp_main sbits]; rewrite E1; cbn [bind]; rewrite Zf; cbn [bind]; rewrite Sf; cbn [bind]; rewrite Of; cbn [bind app]; reflexivity. }
    rewrite Q. cbn [option_map bind]. reflexivity.
  - exists st3. split; [|auto]. apply run_one_block_nb; [|discriminate|cbn [length app]; lia|].
    + cbn [nobranch forallb is_branch negb andb app]. rewrite forallb_forall in Hasg.
      assert (Q: forall o0, In o0 [zf; sf; of] -> negb (is_branch o0) = true) by (intros o0 Hi; specialize (Hasg o0 Hi); destruct o0; try discriminate; reflexivity).
      rewrite (Q zf), (Q sf), (Q of) by (cbn; auto 10). reflexivity.
    + change (OLoad (temp_main sz) ae :: [zf; sf; of] ++ [OStore ae T]) with ([OLoad (temp_main sz) ae] ++ ([zf; sf; of] ++ [OStore ae T])).
      rewrite (exec_ops_app [OLoad (temp_main sz) ae] _ st st1) by (cbn [exec_ops]; rewrite Ex1; reflexivity).
      rewrite (exec_ops_app _ _ _ _ Hex). exact Hex3.
Qed.
