(* Isa/MipsProofs.v -- correctness of the lifter mirror (Isa/MipsLift.v) against the ISA specification
   (Isa/Mips.v) under the reference IL semantics (Isa/ILRun.v over Exec/Sem.v).

   Part 1: the symbolic-execution lemma set (environment, embedding, denotation of register
   expressions and constants, running single-block graphs).
   Part 2: per-form theorems `plain_correct`, for all register fields and all well-formed states. *)
From Coq Require Import ZArith List Bool NArith Lia ZifyBool.
From Falcon Require Import Base.Res IL.Const IL.ConstSpec IL.Expr IL.ExprSpec IL.Func IL.Loc Exec.Sem
  Isa.ILRun Isa.Mips Isa.MipsLift.
Import ListNotations.
Local Open Scope Z_scope.
Ltac Zify.zify_post_hook ::= Z.div_mod_to_equations.

(* ------------------------------------------------------------------ environments *)
Lemma optN_eqb_eq a b : optN_eqb a b = true <-> a = b.
Proof.
  destruct a as [x|], b as [y|]; cbn; try (split; congruence).
  rewrite N.eqb_eq. split; congruence.
Qed.
Lemma skey_eqb_eq a b : skey_eqb a b = true <-> a = b.
Proof.
  destruct a as [n o], b as [m p]. unfold skey_eqb. cbn [fst snd].
  rewrite andb_true_iff, N.eqb_eq, optN_eqb_eq. split; [intros [-> ->]; reflexivity|intros H; inversion H; auto].
Qed.
Lemma skey_eqb_refl k : skey_eqb k k = true.
Proof. apply skey_eqb_eq. reflexivity. Qed.
Lemma skey_eqb_neq a b : a <> b -> skey_eqb a b = false.
Proof. intros H. destruct (skey_eqb a b) eqn:E; [apply skey_eqb_eq in E; congruence|reflexivity]. Qed.

Lemma env_get_set en k v k' : env_get (env_set en k v) k' = if skey_eqb k k' then Some v else env_get en k'.
Proof.
  induction en as [|[k0 v0] t IH]; cbn [env_set env_get].
  - reflexivity.
  - destruct (skey_eqb k0 k) eqn:E.
    + apply skey_eqb_eq in E. subst k0. cbn [env_get]. destruct (skey_eqb k k'); reflexivity.
    + cbn [env_get]. destruct (skey_eqb k0 k') eqn:E2.
      * apply skey_eqb_eq in E2. subst k0. rewrite skey_eqb_neq; [reflexivity|].
        intros ->. rewrite skey_eqb_refl in E. discriminate.
      * apply IH.
Qed.
Lemma env_get_set_same en k v : env_get (env_set en k v) k = Some v.
Proof. rewrite env_get_set, skey_eqb_refl. reflexivity. Qed.
Lemma env_get_set_other en k v k' : k <> k' -> env_get (env_set en k v) k' = env_get en k'.
Proof. intros H. rewrite env_get_set, skey_eqb_neq by assumption. reflexivity. Qed.

(* ------------------------------------------------------------------ keys of the architectural scalars *)
Definition kreg (r : Z) : skey := (Z.to_N r, None).
Lemma skey_reg r : skey_of (reg_scalar r) = kreg r.
Proof. reflexivity. Qed.
Lemma skey_sc r w : skey_of (sc r w) = kreg r.
Proof. reflexivity. Qed.
Lemma kreg_inj a b : 0 <= a -> 0 <= b -> kreg a = kreg b -> a = b.
Proof. unfold kreg. intros Ha Hb H. inversion H as [E]. apply Z2N.inj in E; assumption. Qed.
Lemma kreg_neq a b : 0 <= a -> 0 <= b -> a <> b -> kreg a <> kreg b.
Proof. intros Ha Hb N E. apply N. apply kreg_inj; assumption. Qed.

(* a key that is none of the architectural ones: temporaries, branching_condition, $zero *)
Definition arch_key (k : skey) : Prop := exists r, 1 <= r <= 33 /\ k = kreg r.

(* ------------------------------------------------------------------ embedding *)
Record emb (s : mstate) (st : sstate) : Prop := mkemb {
  emb_reg : forall r, 1 <= r <= 31 -> env_get (st_env st) (kreg r) = Some (mkc 32 (gpr s r));
  emb_hi : env_get (st_env st) (kreg R_HI) = Some (mkc 32 (hi s));
  emb_lo : env_get (st_env st) (kreg R_LO) = Some (mkc 32 (lo s));
  emb_big : bm_big (st_mem st) = big s;
  emb_mem : forall a b, bm_get (st_mem st) a = Some b -> b = mem s a }.

(* HI / LO left UNPREDICTABLE by the instruction are not related *)
Record emb_u (uh ul : bool) (s : mstate) (st : sstate) : Prop := mkembu {
  embu_reg : forall r, 1 <= r <= 31 -> env_get (st_env st) (kreg r) = Some (mkc 32 (gpr s r));
  embu_hi : uh = false -> env_get (st_env st) (kreg R_HI) = Some (mkc 32 (hi s));
  embu_lo : ul = false -> env_get (st_env st) (kreg R_LO) = Some (mkc 32 (lo s));
  embu_big : bm_big (st_mem st) = big s;
  embu_mem : forall a b, bm_get (st_mem st) a = Some b -> b = mem s a }.

Lemma emb_emb_u s st : emb s st -> emb_u false false s st.
Proof. intros [A B C D E]. constructor; auto. Qed.
Lemma emb_u_weaken uh ul s st : emb s st -> emb_u uh ul s st.
Proof. intros [A B C D E]. constructor; auto. Qed.

Definition set_env (st : sstate) (k : skey) (v : const) : sstate := mkst (env_set (st_env st) k v) (st_mem st).

Lemma wf_setr s r v : wf_m s -> 0 <= v < W -> wf_m (setr s r v).
Proof.
  intros (A & B & C & D & E & F) Hv. unfold setr. destruct (Z.eqb_spec r 0) as [->|N].
  - unfold wf_m. auto 10.
  - unfold wf_m. cbn [gpr hi lo pc mem]. split; [|split; [|auto]].
    + destruct (Z.eqb_spec 0 r); [lia|assumption].
    + intros k. destruct (k =? r); [lia|apply B].
Qed.

Lemma emb_setr s st rd v : emb s st -> 0 <= rd <= 31 ->
  emb (setr s rd v) (set_env st (kreg rd) (mkc 32 v)).
Proof.
  intros [A B C D E] Hrd. unfold setr, set_env. destruct (Z.eqb_spec rd 0) as [->|N].
  - constructor; cbn [st_env st_mem]; auto.
    + intros r Hr. rewrite env_get_set_other by (apply kreg_neq; lia). apply A; assumption.
    + rewrite env_get_set_other by (apply kreg_neq; unfold R_HI; lia). assumption.
    + rewrite env_get_set_other by (apply kreg_neq; unfold R_LO; lia). assumption.
  - constructor; cbn [st_env st_mem gpr hi lo mem big]; auto.
    + intros r Hr. destruct (Z.eqb_spec r rd) as [->|N2].
      * apply env_get_set_same.
      * rewrite env_get_set_other by (apply kreg_neq; lia). apply A; assumption.
    + rewrite env_get_set_other by (apply kreg_neq; unfold R_HI; lia). assumption.
    + rewrite env_get_set_other by (apply kreg_neq; unfold R_LO; lia). assumption.
Qed.

Lemma emb_set_hi s st v : emb s st -> emb (set_hi s v) (set_env st (kreg R_HI) (mkc 32 v)).
Proof.
  intros [A B C D E]. constructor; cbn [st_env st_mem set_env set_hi gpr hi lo mem big]; auto.
  - intros r Hr. rewrite env_get_set_other by (apply kreg_neq; unfold R_HI; lia). apply A; assumption.
  - apply env_get_set_same.
  - rewrite env_get_set_other by (apply kreg_neq; unfold R_HI, R_LO; lia). assumption.
Qed.
Lemma emb_set_lo s st v : emb s st -> emb (set_lo s v) (set_env st (kreg R_LO) (mkc 32 v)).
Proof.
  intros [A B C D E]. constructor; cbn [st_env st_mem set_env set_lo gpr hi lo mem big]; auto.
  - intros r Hr. rewrite env_get_set_other by (apply kreg_neq; unfold R_LO; lia). apply A; assumption.
  - rewrite env_get_set_other by (apply kreg_neq; unfold R_HI, R_LO; lia). assumption.
  - apply env_get_set_same.
Qed.

(* writing a non-architectural scalar (a temporary, branching_condition) does not disturb the embedding *)
Lemma emb_set_other s st k v : emb s st -> ~ arch_key k -> emb s (set_env st k v).
Proof.
  intros [A B C D E] Hk. constructor; cbn [st_env st_mem set_env]; auto.
  - intros r Hr. rewrite env_get_set_other; [apply A; assumption|].
    intros ->. apply Hk. exists r. split; [lia|reflexivity].
  - rewrite env_get_set_other; [assumption|]. intros ->. apply Hk. exists R_HI. unfold R_HI. split; [lia|reflexivity].
  - rewrite env_get_set_other; [assumption|]. intros ->. apply Hk. exists R_LO. unfold R_LO. split; [lia|reflexivity].
Qed.

Lemma not_arch_kreg r : 0 <= r -> ~ (1 <= r <= 33) -> ~ arch_key (kreg r).
Proof. intros H0 H [q [Hq E]]. apply kreg_inj in E; lia. Qed.
Lemma not_arch_tmp (t : N) : (40 <= t)%N -> ~ arch_key (t, None).
Proof.
  intros Ht [q [Hq E]]. unfold kreg in E. inversion E as [E']. subst t.
  assert (Z.to_N q < 40)%N by lia. lia.
Qed.

(* ------------------------------------------------------------------ denotations *)
Lemma e_bits_reg r : e_bits (reg_expr r) = 32.
Proof. unfold reg_expr. destruct (r =? 0); reflexivity. Qed.

Lemma new_big_32 v : new_big v 32 = mkc 32 (v mod 2 ^ 32).
Proof.
  unfold new_big, trim, ones. f_equal.
  replace (2 ^ 32 - 1) with (Z.ones 32) by (rewrite Z.ones_equiv; reflexivity).
  apply Z.land_ones. lia.
Qed.
Lemma new_big_64 v : new_big v 64 = mkc 64 (v mod 2 ^ 64).
Proof.
  unfold new_big, trim, ones. f_equal.
  replace (2 ^ 64 - 1) with (Z.ones 64) by (rewrite Z.ones_equiv; reflexivity).
  apply Z.land_ones. lia.
Qed.

Lemma den_const en v w : den en (expr_const v w) = Ok (new_big v w).
Proof. reflexivity. Qed.

Lemma den_reg s st r : wf_m s -> emb s st -> 0 <= r <= 31 ->
  den (st_env st) (reg_expr r) = Ok (mkc 32 (gpr s r)).
Proof.
  intros (Hz & _) He Hr. unfold reg_expr. destruct (Z.eqb_spec r 0) as [->|N].
  - rewrite Hz. reflexivity.
  - cbn [den]. rewrite skey_reg, (emb_reg _ _ He) by lia. reflexivity.
Qed.

Lemma den_bin en o a b w x y : den en a = Ok (mkc w x) -> den en b = Ok (mkc w y) ->
  den en (EBin o a b) = sp_bin o w x y.
Proof.
  intros Ha Hb. cbn [den]. rewrite Ha, Hb. cbn [bind]. unfold sp_bin_c. cbn [cbits cval].
  rewrite Z.eqb_refl. reflexivity.
Qed.

Lemma den_ext en o bits a c : den en a = Ok c -> den en (EExt o bits a) = sp_ext o bits c.
Proof. intros Ha. cbn [den]. rewrite Ha. reflexivity. Qed.

Lemma mk_bin_ok o l r : e_bits l = e_bits r -> mk_bin o l r = Ok (EBin o l r).
Proof. intros H. unfold mk_bin. rewrite H, Z.eqb_refl. reflexivity. Qed.

(* ------------------------------------------------------------------ running graphs *)
Lemma run_single addr ops st : run_graph (single addr ops) st = run_instrs (number addr 0 ops) st.
Proof.
  unfold run_graph, single. cbn [g_entry g_exit]. unfold FUEL.
  cbn [run_cfg g_blocks find_block blk b_index]. rewrite Z.eqb_refl. cbn [b_instrs g_exit optZ_eqb].
  rewrite Z.eqb_refl. change (b_instrs (blk 0 addr ops)) with (number addr 0 ops).
  destruct (run_instrs (number addr 0 ops) st); reflexivity.
Qed.

Lemma run_assign addr i d e t st v : den (st_env st) e = Ok v ->
  run_instrs (mkinstr i (OAssign d e) addr :: t) st = run_instrs t (set_env st (skey_of d) v).
Proof. intros H. cbn [run_instrs i_op exec_op]. rewrite H. reflexivity. Qed.

Lemma run_nop addr i p t st : run_instrs (mkinstr i (ONop p) addr :: t) st = run_instrs t st.
Proof. reflexivity. Qed.

(* ------------------------------------------------------------------ the statement proved per form *)
Definition kbc : skey := kreg R_BC.

Definition trap_id (t : mtrap) : option N :=
  match t with
  | TOverflow => Some I_OVERFLOW | TTrap => Some I_TRAP | TBreak => Some I_BREAK | TSyscall => Some I_SYSCALL
  | TAddrErr => None
  end.

(* what running the instruction graph from an embedded state must produce.  The latch scalar
   `branching_condition` is preserved (frame condition used by the delay-slot theorem). *)
Definition post (r : mresult) (st : sstate) (o : outcome) : Prop :=
  match r with
  | MOk s' uh ul => exists st', o = Fin st' /\ emb_u uh ul s' st' /\
                                env_get (st_env st') kbc = env_get (st_env st) kbc
  | MTrap t s' => exists m st', o = Trap m st' /\ trap_id t = Some m /\ emb s' st'
  | MUnpred => True
  end.

Definition temps_ok (ts : list N) : Prop := forall t, In t ts -> (40 <= t)%N.

(* forall register fields (through i), forall addresses, forall well-formed machine states, forall
   embeddings: the mirror's graph exists (no sort error) and running it gives what the ISA prescribes *)
(* memory forms: the theorems cover accesses for which the ISA raises no AddressError (the complement is the
   known finding kf:mips-unaligned-access-no-address-error) and whose bytes the IL memory maps (the IL
   memory is a sub-map of the machine's: an unmapped byte is a fault of the IL semantics) *)
Definition covers (m : bmem) (a : Z) (n : Z) : Prop := forall k, 0 <= k < n -> bm_get m (a + k) <> None.
Definition access_ok (i : minstr) (s : mstate) (m : bmem) : Prop :=
  match i with
  | MLoad k _ base off =>
      let va := vaddr s base off in
      match k with
      | LLb | LLbu => covers m va 1
      | LLh | LLhu => va mod 2 = 0 /\ covers m va 2
      | LLw | LLl => va mod 4 = 0 /\ covers m va 4
      | LLwl | LLwr => covers m (aligned4 va) 4
      end
  | MStore k _ base off =>
      let va := vaddr s base off in
      match k with
      | SSb => True
      | SSh => va mod 2 = 0
      | SSw | SSc => va mod 4 = 0
      | SSwl | SSwr => covers m (aligned4 va) 4
      end
  | _ => True
  end.

(* madd/maddu/msub/msubu use two temporaries: their ids must differ (the lifter names them after the
   instruction address and address + 1; the harness interns names, so dumped ids are distinct) *)
Definition temps_distinct (i : minstr) (ts : list N) : Prop :=
  match i with
  | MMulDiv MMadd _ _ | MMulDiv MMaddu _ _ | MMulDiv MMsub _ _ | MMulDiv MMsubu _ _ => nthN ts 0 <> nthN ts 1
  | _ => True
  end.

Definition plain_correct (bg : bool) (i : minstr) : Prop :=
  forall a ts s st, wf_m s -> big s = bg -> emb s st -> temps_ok ts -> access_ok i s (st_mem st) ->
    temps_distinct i ts ->
    match lift_plain bg i a ts with
    | None => True
    | Some (Ok g) => post (exec1 i s) st (run_graph g st)
    | Some _ => False
    end.

Definition reg_ok (r : Z) : Prop := 0 <= r <= 31.

Lemma kbc_not_reg r : 0 <= r <= 33 -> kreg r <> kbc.
Proof. intros H. apply kreg_neq; unfold R_BC; lia. Qed.

Lemma post_assign_reg s st ad rd e vil vspec :
  emb s st -> reg_ok rd -> den (st_env st) e = Ok (mkc 32 vil) -> vil = vspec ->
  post (ok (setr s rd vspec)) st (run_graph (single ad [OAssign (reg_scalar rd) e]) st).
Proof.
  intros He Hrd Hd <-. rewrite run_single. cbn [number]. erewrite run_assign by eassumption.
  cbn [run_instrs]. unfold ok, post. eexists. split; [reflexivity|]. split.
  - apply emb_emb_u. rewrite skey_reg. apply emb_setr; assumption.
  - rewrite skey_reg. unfold set_env. cbn [st_env]. apply env_get_set_other. apply kbc_not_reg. unfold reg_ok in Hrd. lia.
Qed.

(* same, HI / LO unpredictable afterwards (mul) *)
Lemma post_assign_reg_u s st ad rd e vil vspec :
  emb s st -> reg_ok rd -> den (st_env st) e = Ok (mkc 32 vil) -> vil = vspec ->
  post (MOk (setr s rd vspec) true true) st (run_graph (single ad [OAssign (reg_scalar rd) e]) st).
Proof.
  intros He Hrd Hd <-. rewrite run_single. cbn [number]. erewrite run_assign by eassumption.
  cbn [run_instrs]. unfold post. eexists. split; [reflexivity|]. split.
  - apply emb_u_weaken. rewrite skey_reg. apply emb_setr; assumption.
  - rewrite skey_reg. unfold set_env. cbn [st_env]. apply env_get_set_other. apply kbc_not_reg. unfold reg_ok in Hrd. lia.
Qed.

Lemma post_assign_hi s st ad e vil vspec :
  emb s st -> den (st_env st) e = Ok (mkc 32 vil) -> vil = vspec ->
  post (ok (set_hi s vspec)) st (run_graph (single ad [OAssign (sc R_HI 32) e]) st).
Proof.
  intros He Hd <-. rewrite run_single. cbn [number]. erewrite run_assign by eassumption.
  cbn [run_instrs]. unfold ok, post. eexists. split; [reflexivity|]. split.
  - apply emb_emb_u. rewrite skey_sc. apply emb_set_hi; assumption.
  - rewrite skey_sc. unfold set_env. cbn [st_env]. apply env_get_set_other. apply kbc_not_reg. unfold R_HI. lia.
Qed.
Lemma post_assign_lo s st ad e vil vspec :
  emb s st -> den (st_env st) e = Ok (mkc 32 vil) -> vil = vspec ->
  post (ok (set_lo s vspec)) st (run_graph (single ad [OAssign (sc R_LO 32) e]) st).
Proof.
  intros He Hd <-. rewrite run_single. cbn [number]. erewrite run_assign by eassumption.
  cbn [run_instrs]. unfold ok, post. eexists. split; [reflexivity|]. split.
  - apply emb_emb_u. rewrite skey_sc. apply emb_set_lo; assumption.
  - rewrite skey_sc. unfold set_env. cbn [st_env]. apply env_get_set_other. apply kbc_not_reg. unfold R_LO. lia.
Qed.

(* ------------------------------------------------------------------ value lemmas *)
Lemma gpr_range s r : wf_m s -> 0 <= gpr s r < 2 ^ 32.
Proof. intros (_ & B & _). apply B. Qed.
Lemma gpr_zero s : wf_m s -> gpr s 0 = 0.
Proof. intros (A & _). exact A. Qed.

Lemma U_small w x : 0 <= x < 2 ^ w -> U w x = x.
Proof. intros H. unfold U. apply Z.mod_small. assumption. Qed.

Lemma lxor_ones32 x : 0 <= x < 2 ^ 32 -> Z.lxor x 4294967295 = 4294967295 - x.
Proof.
  intros Hx. change 4294967295 with (Z.ones 32).
  assert (L : Z.land x (Z.lxor x (Z.ones 32)) = 0).
  { apply Z.bits_inj'. intros n Hn. rewrite Z.land_spec, Z.lxor_spec, Z.bits_0.
    destruct (Z.ltb_spec n 32) as [Hlt|Hge].
    - rewrite Z.ones_spec_low by lia. destruct (Z.testbit x n); reflexivity.
    - rewrite (Z.bits_above_log2 x n); [reflexivity|lia|].
      destruct (Z.eqb_spec x 0) as [->|Nz]; [cbn; lia|].
      assert (Z.log2 x < 32) by (apply Z.log2_lt_pow2; lia). lia. }
  pose proof (Z.add_nocarry_lxor _ _ L) as H.
  rewrite <- Z.lxor_assoc, Z.lxor_nilpotent, Z.lxor_0_l in H.
  rewrite Z.ones_equiv in *. lia.
Qed.

Lemma mod64_mod32 z : (z mod 2 ^ 64) mod 2 ^ 32 = z mod 2 ^ 32.
Proof. symmetry. apply Znumtheory.Zmod_div_mod; try lia. exists (2 ^ 32). reflexivity. Qed.

Lemma mul_sext_trun x y : U 32 (U 64 (U 64 x * U 64 y)) = U 32 (x * y).
Proof.
  unfold U. rewrite <- Z.mul_mod by lia. apply mod64_mod32.
Qed.

Lemma land31 y : 0 <= y -> Z.land y 31 = y mod 32.
Proof. intros H. change 31 with (Z.ones 5). rewrite Z.land_ones by lia. reflexivity. Qed.

Lemma cs_simm_mod imm : 0 <= imm < 2 ^ 16 -> cs_simm imm mod 2 ^ 32 = sx16 imm mod 2 ^ 32.
Proof.
  intros H. unfold cs_simm, sx16. destruct (imm <? 2 ^ 15); [reflexivity|].
  replace (2 ^ 64 - 2 ^ 16 + imm) with ((imm - 2 ^ 16) + 2 ^ 32 * 2 ^ 32) by (change (2 ^ 64) with (2 ^ 32 * 2 ^ 32); ring).
  rewrite Z.mod_add by lia. reflexivity.
Qed.

(* ------------------------------------------------------------------ tactics *)
Ltac den_tac :=
  lazymatch goal with
  | |- den _ (reg_expr _) = _ => eapply den_reg; [eassumption|eassumption|unfold reg_ok in *; lia]
  | |- den _ (expr_const _ 32) = _ => rewrite den_const, new_big_32; reflexivity
  | |- den _ (expr_const _ 64) = _ => rewrite den_const, new_big_64; reflexivity
  | |- den _ (EBin _ _ _) = _ => eapply eq_trans; [eapply den_bin; den_tac|cbn [sp_bin]; reflexivity]
  | |- den _ (EExt _ _ _) = _ => eapply eq_trans; [eapply den_ext; den_tac|cbn [sp_ext cbits cval Z.leb Z.compare Pos.compare Pos.compare_cont]; reflexivity]
  end.

Ltac builder_ok :=
  repeat (rewrite mk_bin_ok by (cbn [e_bits is_cmp]; rewrite ?e_bits_reg; reflexivity); cbn [bind]).

(* ------------------------------------------------------------------ ALU, register operands *)
Definition alu3_simple (o : alu3) : bool :=
  match o with AAddu | ASubu | AAnd | AOr | AXor | ANor | AMul => true | _ => false end.

Theorem alu3_simple_correct bg o rd rs rt :
  alu3_simple o = true -> reg_ok rd -> reg_ok rs -> reg_ok rt -> plain_correct bg (MAlu3 o rd rs rt).
Proof.
  intros Ho Hd Hs Ht a ts s st Hw Hb He Hts Hacc Htd.
  pose proof (gpr_range s rs Hw) as Rs. pose proof (gpr_range s rt Hw) as Rt. pose proof (gpr_zero s Hw) as Z0.
  destruct o; try discriminate Ho; cbn [lift_plain exec1 exec_alu3].
  - (* addu / move *)
    destruct (Z.eqb_spec rt 0) as [->|N].
    + unfold b_move. eapply post_assign_reg; [assumption|assumption|den_tac|].
      rewrite Z0, Z.add_0_r. symmetry. apply U_small. assumption.
    + unfold b_bin3. builder_ok. eapply post_assign_reg; [assumption|assumption|den_tac|reflexivity].
  - (* subu / negu *)
    destruct (Z.eqb_spec rs 0) as [->|N].
    + unfold b_negu. builder_ok. eapply post_assign_reg; [assumption|assumption|den_tac|].
      rewrite Z0. reflexivity.
    + unfold b_bin3. builder_ok. eapply post_assign_reg; [assumption|assumption|den_tac|reflexivity].
  - (* and *)
    unfold b_bin3. builder_ok. eapply post_assign_reg; [assumption|assumption|den_tac|reflexivity].
  - (* or / move *)
    destruct (Z.eqb_spec rt 0) as [->|N].
    + unfold b_move. eapply post_assign_reg; [assumption|assumption|den_tac|].
      rewrite Z0, Z.lor_0_r. reflexivity.
    + unfold b_bin3. builder_ok. eapply post_assign_reg; [assumption|assumption|den_tac|reflexivity].
  - (* xor *)
    unfold b_bin3. builder_ok. eapply post_assign_reg; [assumption|assumption|den_tac|reflexivity].
  - (* nor / not (not handled) *)
    destruct (Z.eqb_spec rt 0) as [->|N]; [exact I|].
    unfold b_nor. builder_ok. eapply post_assign_reg; [assumption|assumption|den_tac|].
    unfold s_xor, s_or. change (4294967295 mod 2 ^ 32) with 4294967295.
    rewrite lxor_ones32; [unfold W; lia|].
    split; [apply Z.lor_nonneg; lia|].
    destruct (Z.eqb_spec (Z.lor (gpr s rs) (gpr s rt)) 0) as [E|NE]; [rewrite E; lia|].
    apply Z.log2_lt_cancel. rewrite Z.log2_lor by lia. rewrite Z.log2_pow2 by lia.
    destruct (Z.eqb_spec (gpr s rs) 0) as [Ea|Na], (Z.eqb_spec (gpr s rt) 0) as [Eb|Nb];
      try rewrite Ea; try rewrite Eb; cbn [Z.log2 Z.max];
      repeat match goal with
             | H : gpr s ?r <> 0 |- _ => assert (Z.log2 (gpr s r) < 32) by (apply Z.log2_lt_pow2; lia); clear H
             end; lia.
  - (* mul *)
    unfold b_mul.
    assert (E1 : mk_ext Sext 64 (reg_expr rs) = Ok (EExt Sext 64 (reg_expr rs))) by (unfold mk_ext; rewrite e_bits_reg; reflexivity).
    assert (E2 : mk_ext Sext 64 (reg_expr rt) = Ok (EExt Sext 64 (reg_expr rt))) by (unfold mk_ext; rewrite e_bits_reg; reflexivity).
    rewrite E1, E2. cbn [bind]. builder_ok. cbn [mk_ext e_bits is_cmp Z.leb Z.eqb Z.compare Pos.compare Pos.compare_cont orb bind].
    eapply post_assign_reg_u; [assumption|assumption|den_tac|].
    unfold s_trun, s_mul, s_sext. apply mul_sext_trun.
Qed.

(* ------------------------------------------------------------------ shifts *)
Definition shop_binop (o : shop) : binop := match o with SSll => Shl | SSrl => Shr | SSra => AShr end.

Lemma shift_value o x n : 0 <= n < 32 ->
  match sp_bin (shop_binop o) 32 x n with Ok c => c = mkc 32 (shift o x n) | _ => False end.
Proof.
  intros Hn. destruct o; cbn [shop_binop sp_bin shift]; unfold s_shl, s_shr, s_ashr;
    (destruct (Z.leb_spec 32 n); [lia|reflexivity]).
Qed.

Theorem shi_correct bg o rd rt sa :
  reg_ok rd -> reg_ok rt -> 0 <= sa < 32 -> plain_correct bg (MShi o rd rt sa).
Proof.
  intros Hd Ht Hsa a ts s st Hw Hb He Hts Hacc Htd.
  assert (Hsa' : sa mod 2 ^ 32 = sa) by (apply Z.mod_small; lia).
  assert (G : forall bo, bo = shop_binop o ->
            match b_shi (Some a) bo rd rt sa with
            | Ok g => post (exec1 (MShi o rd rt sa) s) st (run_graph g st) | _ => False end).
  { intros bo ->. unfold b_shi. builder_ok. cbn [exec1].
    pose proof (shift_value o (gpr s rt) sa Hsa) as V.
    destruct (sp_bin (shop_binop o) 32 (gpr s rt) sa) as [c| |] eqn:E; try contradiction. subst c.
    eapply post_assign_reg; [assumption|assumption| |reflexivity].
    eapply eq_trans; [eapply den_bin; den_tac|]. rewrite Hsa'. exact E. }
  cbn [lift_plain]. destruct o.
  - destruct ((rd =? 0) && (rt =? 0)) eqn:Ez.
    + destruct (Z.eqb_spec sa 0) as [->|N]; [|exact I].
      apply andb_true_iff in Ez. destruct Ez as [Ed Et]. apply Z.eqb_eq in Ed, Et. subst rd rt.
      unfold b_nop. cbn [exec1 shift]. rewrite run_single. cbn [number run_instrs i_op exec_op].
      unfold ok, post. eexists. split; [reflexivity|]. split; [|reflexivity].
      apply emb_emb_u. unfold setr. cbn [Z.eqb]. assumption.
    + apply (G Shl eq_refl).
  - apply (G Shr eq_refl).
  - apply (G AShr eq_refl).
Qed.

Theorem shv_correct bg o rd rt rs :
  reg_ok rd -> reg_ok rt -> reg_ok rs -> plain_correct bg (MShv o rd rt rs).
Proof.
  intros Hd Ht Hs a ts s st Hw Hb He Hts Hacc Htd.
  pose proof (gpr_range s rs Hw) as Rs.
  assert (Hn : 0 <= gpr s rs mod 32 < 32) by (apply Z.mod_pos_bound; lia).
  cbn [lift_plain exec1]. fold (shop_binop o). unfold b_shv. builder_ok.
  pose proof (shift_value o (gpr s rt) (gpr s rs mod 32) Hn) as V.
  destruct (sp_bin (shop_binop o) 32 (gpr s rt) (gpr s rs mod 32)) as [c| |] eqn:E; try contradiction. subst c.
  eapply post_assign_reg; [assumption|assumption| |reflexivity].
  eapply eq_trans; [eapply den_bin; den_tac|].
  unfold s_and. change (31 mod 2 ^ 32) with 31. rewrite land31 by lia. exact E.
Qed.

(* ------------------------------------------------------------------ immediates *)
Definition alui_simple (o : alui) : bool :=
  match o with IAddiu | IAndi | IOri | IXori => true | _ => false end.

Theorem alui_simple_correct bg o rt rs imm :
  alui_simple o = true -> reg_ok rt -> reg_ok rs -> 0 <= imm < 2 ^ 16 -> plain_correct bg (MAluI o rt rs imm).
Proof.
  intros Ho Ht Hs Hi a ts s st Hw Hb He Hts Hacc Htd.
  assert (Him : imm mod 2 ^ 32 = imm) by (apply Z.mod_small; lia).
  destruct o; try discriminate Ho; cbn [lift_plain exec1 exec_alui]; unfold b_bini; builder_ok;
    (eapply post_assign_reg; [assumption|assumption|den_tac|]).
  - unfold s_add, U. rewrite cs_simm_mod by assumption. rewrite Z.add_mod_idemp_r by lia. reflexivity.
  - unfold s_and. rewrite Him. reflexivity.
  - unfold s_or. rewrite Him. reflexivity.
  - unfold s_xor. rewrite Him. reflexivity.
Qed.

Theorem lui_correct bg rt imm : reg_ok rt -> 0 <= imm < 2 ^ 16 -> plain_correct bg (MLui rt imm).
Proof.
  intros Ht Hi a ts s st Hw Hb He Hts Hacc Htd. cbn [lift_plain exec1]. unfold b_lui.
  eapply post_assign_reg; [assumption|assumption|den_tac|]. apply Z.mod_small. lia.
Qed.

(* ------------------------------------------------------------------ HI / LO moves *)
Lemma den_hi s st : emb s st -> den (st_env st) (EScalar (sc R_HI 32)) = Ok (mkc 32 (hi s)).
Proof. intros He. cbn [den]. rewrite skey_sc, (emb_hi _ _ He). reflexivity. Qed.
Lemma den_lo s st : emb s st -> den (st_env st) (EScalar (sc R_LO 32)) = Ok (mkc 32 (lo s)).
Proof. intros He. cbn [den]. rewrite skey_sc, (emb_lo _ _ He). reflexivity. Qed.

Theorem mfhi_correct bg rd : reg_ok rd -> plain_correct bg (MMfhi rd).
Proof.
  intros Hd a ts s st Hw Hb He Hts Hacc Htd. cbn [lift_plain exec1]. unfold b_mfhilo.
  eapply post_assign_reg; [assumption|assumption|eapply den_hi; eassumption|reflexivity].
Qed.
Theorem mflo_correct bg rd : reg_ok rd -> plain_correct bg (MMflo rd).
Proof.
  intros Hd a ts s st Hw Hb He Hts Hacc Htd. cbn [lift_plain exec1]. unfold b_mfhilo.
  eapply post_assign_reg; [assumption|assumption|eapply den_lo; eassumption|reflexivity].
Qed.
Theorem mthi_correct bg rs : reg_ok rs -> plain_correct bg (MMthi rs).
Proof.
  intros Hs a ts s st Hw Hb He Hts Hacc Htd. cbn [lift_plain exec1]. unfold b_mthilo.
  eapply post_assign_hi; [assumption|den_tac|reflexivity].
Qed.
Theorem mtlo_correct bg rs : reg_ok rs -> plain_correct bg (MMtlo rs).
Proof.
  intros Hs a ts s st Hw Hb He Hts Hacc Htd. cbn [lift_plain exec1]. unfold b_mthilo.
  eapply post_assign_lo; [assumption|den_tac|reflexivity].
Qed.

(* ------------------------------------------------------------------ multi-block graphs *)
Lemma run_cfg_step fuel g b st bl : find_block (g_blocks g) b = Some bl ->
  run_cfg (Datatypes.S fuel) g b st =
  match run_instrs (b_instrs bl) st with
  | Fin st' =>
      if optZ_eqb (g_exit g) (Some b) then Fin st'
      else match enabled_edges (st_env st') (out_edges g b) with
           | Ok [e] => run_cfg fuel g (e_tail e) st'
           | Ok [] => Stuck ENoLocation
           | Ok _ => Stuck EOther
           | Err e => Stuck e
           | Panic => Stuck EOther
           end
  | o => o
  end.
Proof. intros H. cbn [run_cfg]. rewrite H. reflexivity. Qed.

Lemma den_not1 en c b : den en c = Ok (mkc 1 b) ->
  den en (EBin Cmpeq c c0_1) = Ok (mkc 1 (if b =? 0 then 1 else 0)).
Proof. intros H. erewrite den_bin; [|eassumption|reflexivity]. reflexivity. Qed.

Definition bit01 (b : Z) : Prop := b = 0 \/ b = 1.

(* head [nop] --c--> 1 ; --nc--> 2 ; 1 --> 3 ; 2 --> 3 ; exit 3: add, addi, sub, slt-family *)
Lemma run_diamond ad c nc ops1 ops2 st b :
  den (st_env st) c = Ok (mkc 1 b) -> den (st_env st) nc = Ok (mkc 1 (if b =? 0 then 1 else 0)) -> bit01 b ->
  run_graph (mkcfg [blk 0 ad [ONop None]; blk 1 ad ops1; blk 2 ad ops2; blk 3 ad []]
                   [edge_c 0 1 c; edge_c 0 2 nc; edge_u 1 3; edge_u 2 3] 4 (Some 0) (Some 3)) st
  = run_instrs (number ad 0 (if b =? 1 then ops1 else ops2)) st.
Proof.
  intros Hc Hnc Hb. unfold run_graph. cbn [g_entry g_exit]. unfold FUEL.
  erewrite run_cfg_step by reflexivity.
  change (b_instrs (blk 0 ad [ONop None])) with (number ad 0 [ONop None]).
  cbn [number run_instrs i_op exec_op g_exit optZ_eqb Z.eqb].
  change (out_edges _ 0) with [edge_c 0 1 c; edge_c 0 2 nc].
  cbn [enabled_edges e_cond edge_c guard_on]. rewrite Hc, Hnc.
  destruct Hb as [-> | ->]; cbn [bind cbits cval Z.eqb Pos.eqb negb e_tail edge_c].
  - erewrite run_cfg_step by reflexivity. change (b_instrs (blk 2 ad ops2)) with (number ad 0 ops2).
    destruct (run_instrs (number ad 0 ops2) st) as [st'| | |]; reflexivity.
  - erewrite run_cfg_step by reflexivity. change (b_instrs (blk 1 ad ops1)) with (number ad 0 ops1).
    destruct (run_instrs (number ad 0 ops1) st) as [st'| | |]; reflexivity.
Qed.

(* head [nop] --c--> 1 ; --nc--> 2 ; 1 --> 2 ; exit 2 (movn/movz, bgezal/bltzal) *)
Lemma run_tri ad c nc ops1 st b :
  den (st_env st) c = Ok (mkc 1 b) -> den (st_env st) nc = Ok (mkc 1 (if b =? 0 then 1 else 0)) -> bit01 b ->
  run_graph (mkcfg [blk 0 ad [ONop None]; blk 1 ad ops1; blk 2 ad []]
                   [edge_c 0 1 c; edge_c 0 2 nc; edge_u 1 2] 3 (Some 0) (Some 2)) st
  = run_instrs (number ad 0 (if b =? 1 then ops1 else [])) st.
Proof.
  intros Hc Hnc Hb. unfold run_graph. cbn [g_entry g_exit]. unfold FUEL.
  erewrite run_cfg_step by reflexivity.
  change (b_instrs (blk 0 ad [ONop None])) with (number ad 0 [ONop None]).
  cbn [number run_instrs i_op exec_op g_exit optZ_eqb Z.eqb].
  change (out_edges _ 0) with [edge_c 0 1 c; edge_c 0 2 nc].
  cbn [enabled_edges e_cond edge_c guard_on]. rewrite Hc, Hnc.
  destruct Hb as [-> | ->]; cbn [bind cbits cval Z.eqb Pos.eqb negb e_tail edge_c].
  - erewrite run_cfg_step by reflexivity. reflexivity.
  - erewrite run_cfg_step by reflexivity. change (b_instrs (blk 1 ad ops1)) with (number ad 0 ops1).
    destruct (run_instrs (number ad 0 ops1) st) as [st'| | |]; reflexivity.
Qed.

(* ------------------------------------------------------------------ posts over instruction lists *)
Lemma post_i_assign_reg s st ad rd e vil vspec :
  emb s st -> reg_ok rd -> den (st_env st) e = Ok (mkc 32 vil) -> vil = vspec ->
  post (ok (setr s rd vspec)) st (run_instrs (number ad 0 [OAssign (reg_scalar rd) e]) st).
Proof.
  intros He Hrd Hd Hv. rewrite <- run_single. eapply post_assign_reg; eassumption.
Qed.
Lemma post_i_nothing s st ad : emb s st -> post (ok s) st (run_instrs (number ad 0 []) st).
Proof.
  intros He. cbn [number run_instrs]. unfold ok, post. eexists. split; [reflexivity|]. split; [apply emb_emb_u; assumption|reflexivity].
Qed.
Lemma post_i_trap s st ad t m declared :
  emb s st -> trap_id t = Some m -> post (MTrap t s) st (run_instrs (number ad 0 [intr m declared]) st).
Proof.
  intros He Ht. cbn [number run_instrs i_op intr]. unfold post. exists m, st. auto.
Qed.

(* ------------------------------------------------------------------ slt, sltu, slti, sltiu *)
Lemma setlt_post s st ad o rd lhs rhs x y (bspec : bool) :
  emb s st -> reg_ok rd -> is_cmp o = true -> e_bits lhs = 32 -> e_bits rhs = 32 ->
  den (st_env st) lhs = Ok (mkc 32 x) -> den (st_env st) rhs = Ok (mkc 32 y) ->
  sp_bin o 32 x y = Ok (mkc 1 (if bspec then 1 else 0)) ->
  match b_setlt ad o (reg_scalar rd) lhs rhs with
  | Ok g => post (ok (setr s rd (if bspec then 1 else 0))) st (run_graph g st)
  | _ => False
  end.
Proof.
  intros He Hd Ho Hl Hr Dl Dr Hv. unfold b_setlt, not1.
  rewrite !(mk_bin_ok o lhs rhs) by congruence. cbn [bind].
  rewrite mk_bin_ok by (cbn [e_bits]; rewrite Ho; reflexivity). cbn [bind].
  assert (Dc : den (st_env st) (EBin o lhs rhs) = Ok (mkc 1 (if bspec then 1 else 0))).
  { erewrite den_bin by eassumption. exact Hv. }
  erewrite run_diamond; [|exact Dc|apply den_not1; exact Dc|destruct bspec; [right|left]; reflexivity].
  destruct bspec; cbn [Z.eqb Pos.eqb].
  - eapply post_i_assign_reg; [assumption|assumption|den_tac|reflexivity].
  - eapply post_i_assign_reg; [assumption|assumption|den_tac|reflexivity].
Qed.

Theorem slt_correct bg o rd rs rt : (o = ASlt \/ o = ASltu) ->
  reg_ok rd -> reg_ok rs -> reg_ok rt -> plain_correct bg (MAlu3 o rd rs rt).
Proof.
  intros Ho Hd Hs Ht a ts s st Hw Hb He Hts Hacc Htd.
  destruct Ho as [-> | ->]; cbn [lift_plain exec1 exec_alu3].
  - eapply (setlt_post s st (Some a) Cmplts rd _ _ _ _ (S 32 (gpr s rs) <? S 32 (gpr s rt)));
      [assumption|assumption|reflexivity|apply e_bits_reg|apply e_bits_reg|den_tac|den_tac|].
    cbn [sp_bin]. unfold s_cmplts. destruct (S 32 (gpr s rs) <? S 32 (gpr s rt)); reflexivity.
  - eapply (setlt_post s st (Some a) Cmpltu rd _ _ _ _ (gpr s rs <? gpr s rt));
      [assumption|assumption|reflexivity|apply e_bits_reg|apply e_bits_reg|den_tac|den_tac|].
    cbn [sp_bin]. unfold s_cmpltu. destruct (gpr s rs <? gpr s rt); reflexivity.
Qed.

Lemma S32_simm imm : 0 <= imm < 2 ^ 16 -> S 32 (cs_simm imm mod 2 ^ 32) = sx16 imm.
Proof.
  intros H. rewrite cs_simm_mod by assumption. unfold S, sx16.
  change (2 ^ (32 - 1)) with 2147483648. change (2 ^ 32) with 4294967296.
  change (2 ^ 15) with 32768 in *. change (2 ^ 16) with 65536 in *.
  destruct (imm <? 32768) eqn:E.
  - rewrite Z.mod_small by lia. destruct (imm <? 2147483648) eqn:E2; lia.
  - replace ((imm - 65536) mod 4294967296) with (imm - 65536 + 4294967296).
    + destruct (imm - 65536 + 4294967296 <? 2147483648) eqn:E2; lia.
    + symmetry. rewrite <- (Z.mod_add _ 1) by lia. apply Z.mod_small. lia.
Qed.

Theorem slti_correct bg o rt rs imm : (o = ISlti \/ o = ISltiu) ->
  reg_ok rt -> reg_ok rs -> 0 <= imm < 2 ^ 16 -> plain_correct bg (MAluI o rt rs imm).
Proof.
  intros Ho Ht Hs Hi a ts s st Hw Hb He Hts Hacc Htd.
  destruct Ho as [-> | ->]; cbn [lift_plain exec1 exec_alui].
  - eapply (setlt_post s st (Some a) Cmplts rt _ _ _ _ (S 32 (gpr s rs) <? sx16 imm));
      [assumption|assumption|reflexivity|apply e_bits_reg|reflexivity|den_tac|den_tac|].
    cbn [sp_bin]. unfold s_cmplts. rewrite S32_simm by assumption.
    destruct (S 32 (gpr s rs) <? sx16 imm); reflexivity.
  - eapply (setlt_post s st (Some a) Cmpltu rt _ _ _ _ (gpr s rs <? U 32 (sx16 imm)));
      [assumption|assumption|reflexivity|apply e_bits_reg|reflexivity|den_tac|den_tac|].
    cbn [sp_bin]. unfold s_cmpltu, U. rewrite cs_simm_mod by assumption.
    destruct (gpr s rs <? sx16 imm mod 2 ^ 32); reflexivity.
Qed.

(* ------------------------------------------------------------------ movn, movz *)
Theorem movc_correct bg o rd rs rt : (o = AMovn \/ o = AMovz) ->
  reg_ok rd -> reg_ok rs -> reg_ok rt -> plain_correct bg (MAlu3 o rd rs rt).
Proof.
  intros Ho Hd Hs Ht a ts s st Hw Hb He Hts Hacc Htd.
  assert (Z32 : 0 mod 2 ^ 32 = 0) by reflexivity.
  destruct Ho as [-> | ->]; cbn [lift_plain exec1 exec_alu3]; unfold b_movc; builder_ok.
  - (* movn: take if rt <> 0 *)
    assert (Dc : den (st_env st) (EBin Cmpneq (reg_expr rt) (expr_const 0 32)) = Ok (mkc 1 (if gpr s rt =? 0 then 0 else 1))).
    { eapply eq_trans; [eapply den_bin; den_tac|]. cbn [sp_bin]. unfold s_cmpneq. rewrite Z32. reflexivity. }
    assert (Dn : den (st_env st) (EBin Cmpeq (reg_expr rt) (expr_const 0 32)) = Ok (mkc 1 (if gpr s rt =? 0 then 1 else 0))).
    { eapply eq_trans; [eapply den_bin; den_tac|]. cbn [sp_bin]. unfold s_cmpeq. rewrite Z32. reflexivity. }
    erewrite run_tri; [|exact Dc| |].
    + destruct (gpr s rt =? 0); cbn [Z.eqb Pos.eqb].
      * apply post_i_nothing. assumption.
      * eapply post_i_assign_reg; [assumption|assumption|den_tac|reflexivity].
    + rewrite Dn. destruct (gpr s rt =? 0); reflexivity.
    + destruct (gpr s rt =? 0); [left|right]; reflexivity.
  - (* movz: take if rt = 0 *)
    assert (Dc : den (st_env st) (EBin Cmpeq (reg_expr rt) (expr_const 0 32)) = Ok (mkc 1 (if gpr s rt =? 0 then 1 else 0))).
    { eapply eq_trans; [eapply den_bin; den_tac|]. cbn [sp_bin]. unfold s_cmpeq. rewrite Z32. reflexivity. }
    assert (Dn : den (st_env st) (EBin Cmpneq (reg_expr rt) (expr_const 0 32)) = Ok (mkc 1 (if gpr s rt =? 0 then 0 else 1))).
    { eapply eq_trans; [eapply den_bin; den_tac|]. cbn [sp_bin]. unfold s_cmpneq. rewrite Z32. reflexivity. }
    erewrite run_tri; [|exact Dc| |].
    + destruct (gpr s rt =? 0); cbn [Z.eqb Pos.eqb].
      * eapply post_i_assign_reg; [assumption|assumption|den_tac|reflexivity].
      * apply post_i_nothing. assumption.
    + rewrite Dn. destruct (gpr s rt =? 0); reflexivity.
    + destruct (gpr s rt =? 0); [right|left]; reflexivity.
Qed.

(* ------------------------------------------------------------------ add, addi, sub (IntegerOverflow) *)
(* bit 32 and bit 31 of the 64-bit sum / difference of the sign-extended operands differ exactly when the
   32-bit signed operation overflows *)
Lemma overflow_bits_add a b : 0 <= a < 2 ^ 32 -> 0 <= b < 2 ^ 32 ->
  let t := U 64 (U 64 (S 32 a) + U 64 (S 32 b)) in
  let sum := S 32 a + S 32 b in
  (if U 1 (t / 2 ^ 32) =? U 1 (t / 2 ^ 31) then 0 else 1) = (if (sum <? - 2 ^ 31) || (2 ^ 31 <=? sum) then 1 else 0).
Proof.
  intros Ha Hb. cbv zeta. unfold U, S.
  change (2 ^ (32 - 1)) with 2147483648. change (2 ^ 32) with 4294967296. change (2 ^ 31) with 2147483648.
  change (2 ^ 64) with 18446744073709551616. change (2 ^ 1) with 2.
  destruct (a <? 2147483648) eqn:Ea, (b <? 2147483648) eqn:Eb;
    match goal with |- (if ?x =? ?y then _ else _) = (if ?c then _ else _) => destruct (Z.eqb_spec x y), c eqn:Ec end; lia.
Qed.
Lemma overflow_bits_sub a b : 0 <= a < 2 ^ 32 -> 0 <= b < 2 ^ 32 ->
  let t := U 64 (U 64 (S 32 a) - U 64 (S 32 b)) in
  let sum := S 32 a - S 32 b in
  (if U 1 (t / 2 ^ 32) =? U 1 (t / 2 ^ 31) then 0 else 1) = (if (sum <? - 2 ^ 31) || (2 ^ 31 <=? sum) then 1 else 0).
Proof.
  intros Ha Hb. cbv zeta. unfold U, S.
  change (2 ^ (32 - 1)) with 2147483648. change (2 ^ 32) with 4294967296. change (2 ^ 31) with 2147483648.
  change (2 ^ 64) with 18446744073709551616. change (2 ^ 1) with 2.
  destruct (a <? 2147483648) eqn:Ea, (b <? 2147483648) eqn:Eb;
    match goal with |- (if ?x =? ?y then _ else _) = (if ?c then _ else _) => destruct (Z.eqb_spec x y), c eqn:Ec end; lia.
Qed.

Lemma U32_S_add a b : U 32 (S 32 a + S 32 b) = U 32 (a + b).
Proof.
  unfold U, S. change (2 ^ (32 - 1)) with 2147483648. change (2 ^ 32) with 4294967296.
  destruct (a <? 2147483648), (b <? 2147483648); lia.
Qed.
Lemma U32_S_sub a b : U 32 (S 32 a - S 32 b) = U 32 (a - b).
Proof.
  unfold U, S. change (2 ^ (32 - 1)) with 2147483648. change (2 ^ 32) with 4294967296.
  destruct (a <? 2147483648), (b <? 2147483648); lia.
Qed.

Lemma mk_ext_sext64 e : e_bits e = 32 -> mk_ext Sext 64 e = Ok (EExt Sext 64 e).
Proof. intros H. unfold mk_ext. rewrite H. reflexivity. Qed.

Definition trap_cond (o : binop) (lhs rhs : expr) : expr :=
  let t := EBin o (EExt Sext 64 lhs) (EExt Sext 64 rhs) in
  EBin Cmpneq (EExt Trun 1 (EBin Shr t (expr_const 32 64))) (EExt Trun 1 (EBin Shr t (expr_const 31 64))).

Lemma b_trapping_eq ad o dst lhs rhs : (o = Add \/ o = Sub) -> e_bits lhs = 32 -> e_bits rhs = 32 ->
  b_trapping ad o dst lhs rhs =
  Ok (mkcfg [blk 0 ad [ONop None]; blk 1 ad [intr I_OVERFLOW false]; blk 2 ad [OAssign dst (EBin o lhs rhs)]; blk 3 ad []]
            [edge_c 0 1 (trap_cond o lhs rhs); edge_c 0 2 (EBin Cmpeq (trap_cond o lhs rhs) c0_1); edge_u 1 3; edge_u 2 3]
            4 (Some 0) (Some 3)).
Proof.
  intros [-> | ->] Hl Hr; unfold b_trapping, not1, mk_bin, mk_ext, trap_cond; cbn [e_bits is_cmp];
    rewrite ?Hl, ?Hr; reflexivity.
Qed.

(* the trapping graph, for o = Add / Sub: `ovf` is the ISA's overflow test, `vspec` its result *)
Lemma trapping_post s st ad (o : binop) rd lhs rhs x y (ovf : bool) vspec :
  emb s st -> reg_ok rd -> (o = Add \/ o = Sub) -> e_bits lhs = 32 -> e_bits rhs = 32 ->
  0 <= x < 2 ^ 32 -> 0 <= y < 2 ^ 32 ->
  den (st_env st) lhs = Ok (mkc 32 x) -> den (st_env st) rhs = Ok (mkc 32 y) ->
  ovf = (let t := match o with Add => S 32 x + S 32 y | _ => S 32 x - S 32 y end in (t <? - 2 ^ 31) || (2 ^ 31 <=? t)) ->
  vspec = U 32 (match o with Add => S 32 x + S 32 y | _ => S 32 x - S 32 y end) ->
  match b_trapping ad o (reg_scalar rd) lhs rhs with
  | Ok g => post (if ovf then MTrap TOverflow s else ok (setr s rd vspec)) st (run_graph g st)
  | _ => False
  end.
Proof.
  intros He Hd Ho Hl Hr Hx Hy Dl Dr Hov Hv. rewrite b_trapping_eq by assumption.
  set (t := match o with Add => U 64 (U 64 (S 32 x) + U 64 (S 32 y)) | _ => U 64 (U 64 (S 32 x) - U 64 (S 32 y)) end).
  assert (Dt : den (st_env st) (EBin o (EExt Sext 64 lhs) (EExt Sext 64 rhs)) = Ok (mkc 64 t)).
  { destruct Ho as [-> | ->]; (eapply eq_trans; [eapply den_bin; (eapply eq_trans; [eapply den_ext; eassumption|reflexivity])|reflexivity]). }
  assert (Db : forall k, 0 <= k < 64 ->
           den (st_env st) (EExt Trun 1 (EBin Shr (EBin o (EExt Sext 64 lhs) (EExt Sext 64 rhs)) (expr_const k 64))) = Ok (mkc 1 (U 1 (t / 2 ^ k)))).
  { intros k Hk. eapply eq_trans; [eapply den_ext; eapply eq_trans; [eapply den_bin; [exact Dt|den_tac]|reflexivity]|].
    cbn [sp_ext cbits cval Z.leb Z.compare Pos.compare Pos.compare_cont]. unfold s_trun, s_shr.
    rewrite (Z.mod_small k) by lia. destruct (Z.leb_spec 64 k); [lia|reflexivity]. }
  assert (Dc : den (st_env st) (trap_cond o lhs rhs) = Ok (mkc 1 (if ovf then 1 else 0))).
  { unfold trap_cond. erewrite den_bin; [|apply Db; lia|apply Db; lia]. cbn [sp_bin]. unfold s_cmpneq. f_equal. f_equal.
    subst ovf t. destruct Ho as [-> | ->]; [apply overflow_bits_add|apply overflow_bits_sub]; assumption. }
  erewrite run_diamond; [|exact Dc|apply den_not1; exact Dc|destruct ovf; [right|left]; reflexivity].
  destruct ovf; cbn [Z.eqb Pos.eqb].
  - apply post_i_trap; [assumption|reflexivity].
  - subst vspec. clear Hov Dc Db Dt t.
    destruct Ho as [-> | ->];
      (eapply post_i_assign_reg; [assumption|assumption|eapply eq_trans; [eapply den_bin; eassumption|reflexivity]|]).
    + unfold s_add. symmetry. apply U32_S_add.
    + unfold s_sub. symmetry. apply U32_S_sub.
Qed.

Theorem add_sub_correct bg o rd rs rt : (o = AAdd \/ o = ASub) ->
  reg_ok rd -> reg_ok rs -> reg_ok rt -> plain_correct bg (MAlu3 o rd rs rt).
Proof.
  intros Ho Hd Hs Ht a ts s st Hw Hb He Hts Hacc Htd.
  pose proof (gpr_range s rs Hw) as Rs. pose proof (gpr_range s rt Hw) as Rt.
  destruct Ho as [-> | ->]; cbn [lift_plain exec1 exec_alu3].
  - unfold b_add.
    eapply (trapping_post s st (Some a) Add rd _ _ (gpr s rs) (gpr s rt));
      [assumption|assumption|left; reflexivity|apply e_bits_reg|apply e_bits_reg|assumption|assumption|den_tac|den_tac|reflexivity|reflexivity].
  - destruct (Z.eqb_spec rs 0) as [->|N]; [exact I|]. unfold b_sub.
    eapply (trapping_post s st (Some a) Sub rd _ _ (gpr s rs) (gpr s rt));
      [assumption|assumption|right; reflexivity|apply e_bits_reg|apply e_bits_reg|assumption|assumption|den_tac|den_tac|reflexivity|reflexivity].
Qed.

Theorem addi_correct bg rt rs imm :
  reg_ok rt -> reg_ok rs -> 0 <= imm < 2 ^ 16 -> plain_correct bg (MAluI IAddi rt rs imm).
Proof.
  intros Ht Hs Hi a ts s st Hw Hb He Hts Hacc Htd.
  pose proof (gpr_range s rs Hw) as Rs.
  cbn [lift_plain exec1 exec_alui]. unfold b_addi.
  rewrite <- (S32_simm imm Hi).
  eapply (trapping_post s st (Some a) Add rt _ _ (gpr s rs) (cs_simm imm mod 2 ^ 32));
    [assumption|assumption|left; reflexivity|apply e_bits_reg|reflexivity|assumption|apply Z.mod_pos_bound; lia|den_tac|den_tac|reflexivity|reflexivity].
Qed.

(* ------------------------------------------------------------------ teq, break, syscall, sync, pref *)
Lemma run_teq ad n e st b :
  den (st_env st) e = Ok (mkc 1 b) -> den (st_env st) n = Ok (mkc 1 (if b =? 0 then 1 else 0)) -> bit01 b ->
  run_graph (mkcfg [blk 0 ad [ONop None]; blk 1 ad []; blk 2 ad [intr I_TRAP true]]
                   [edge_c 0 1 n; edge_c 0 2 e; edge_u 2 1] 3 (Some 0) (Some 1)) st
  = if b =? 1 then Trap I_TRAP st else Fin st.
Proof.
  intros Hc Hnc Hb. unfold run_graph. cbn [g_entry g_exit]. unfold FUEL.
  erewrite run_cfg_step by reflexivity.
  change (b_instrs (blk 0 ad [ONop None])) with (number ad 0 [ONop None]).
  cbn [number run_instrs i_op exec_op g_exit optZ_eqb Z.eqb].
  change (out_edges _ 0) with [edge_c 0 1 n; edge_c 0 2 e].
  cbn [enabled_edges e_cond edge_c guard_on]. rewrite Hc, Hnc.
  destruct Hb as [-> | ->]; cbn [bind cbits cval Z.eqb Pos.eqb negb e_tail edge_c]; reflexivity.
Qed.

Theorem teq_correct bg rs rt code : reg_ok rs -> reg_ok rt -> plain_correct bg (MTeq rs rt code).
Proof.
  intros Hs Ht a ts s st Hw Hb He Hts Hacc Htd. cbn [lift_plain exec1]. unfold b_teq. builder_ok.
  assert (De : den (st_env st) (EBin Cmpeq (reg_expr rs) (reg_expr rt)) = Ok (mkc 1 (if gpr s rs =? gpr s rt then 1 else 0))).
  { eapply eq_trans; [eapply den_bin; den_tac|reflexivity]. }
  assert (Dn : den (st_env st) (EBin Cmpneq (reg_expr rs) (reg_expr rt)) = Ok (mkc 1 (if gpr s rs =? gpr s rt then 0 else 1))).
  { eapply eq_trans; [eapply den_bin; den_tac|reflexivity]. }
  erewrite run_teq; [|exact De| |].
  - destruct (gpr s rs =? gpr s rt); cbn [Z.eqb Pos.eqb].
    + unfold post. exists I_TRAP, st. auto.
    + unfold ok, post. exists st. split; [reflexivity|]. split; [apply emb_emb_u; assumption|reflexivity].
  - rewrite Dn. destruct (gpr s rs =? gpr s rt); reflexivity.
  - destruct (gpr s rs =? gpr s rt); [right|left]; reflexivity.
Qed.

Theorem break_correct bg code : plain_correct bg (MBreak code).
Proof.
  intros a ts s st Hw Hb He Hts Hacc Htd. cbn [lift_plain exec1]. unfold b_intr. rewrite run_single.
  apply post_i_trap; [assumption|reflexivity].
Qed.
Theorem syscall_correct bg code : plain_correct bg (MSyscall code).
Proof.
  intros a ts s st Hw Hb He Hts Hacc Htd. cbn [lift_plain exec1]. unfold b_intr. rewrite run_single.
  apply post_i_trap; [assumption|reflexivity].
Qed.
Lemma nop_post s st ad : emb s st -> post (ok s) st (run_graph (single ad [ONop None]) st).
Proof.
  intros He. rewrite run_single. cbn [number run_instrs i_op exec_op]. unfold ok, post. exists st.
  split; [reflexivity|]. split; [apply emb_emb_u; assumption|reflexivity].
Qed.
Theorem sync_correct bg stype : plain_correct bg (MSync stype).
Proof. intros a ts s st Hw Hb He Hts Hacc Htd. cbn [lift_plain exec1]. unfold b_nop. apply nop_post. assumption. Qed.
Theorem pref_correct bg h b o : plain_correct bg (MPref h b o).
Proof. intros a ts s st Hw Hb He Hts Hacc Htd. cbn [lift_plain exec1]. unfold b_nop. apply nop_post. assumption. Qed.

(* ================================================================== translated blocks *)
Definition block_post (r : mresult) (st : sstate) (o : outcome) : Prop :=
  match r with
  | MOk s' uh ul => exists st', o = Goto (pc s') st' /\ emb_u uh ul s' st'
  | MTrap t s' => exists m st', o = Trap m st' /\ trap_id t = Some m /\ emb s' st'
  | MUnpred => True
  end.

Lemma a32_small x : 0 <= x < 2 ^ 32 -> a32 x = x.
Proof. intros H. unfold a32, W. apply Z.mod_small. assumption. Qed.

Lemma emb_u_set_pc uh ul s st v : emb_u uh ul s st -> emb_u uh ul (set_pc s v) st.
Proof. intros [A B C D E]. constructor; auto. Qed.
Lemma emb_set_pc s st v : emb s st -> emb (set_pc s v) st.
Proof. intros [A B C D E]. constructor; auto. Qed.

(* ---------- one non-control instruction: graphs [g], successors [(a + 4, None)] ---------- *)
Theorem single_block_correct bg a w i temps s st :
  decode w = Some i -> is_control i = false -> plain_correct bg i ->
  wf_m s -> big s = bg -> pc s = a -> 0 <= a -> a + 8 < 2 ^ 32 -> emb s st -> temps_ok (nth 0 temps []) ->
  access_ok i s (st_mem st) -> temps_distinct i (nth 0 temps []) ->
  match mirror_block bg a [w] temps with
  | None => True
  | Some l => block_post (mrun [w] s) st (run_block (map snd (fst l)) (snd l) st)
  end.
Proof.
  intros Hdec Hc Hpc Hw Hb Hp Ha0 Ha He Hts Hacc Htd. unfold mirror_block, mrun. rewrite Hdec, Hc.
  specialize (Hpc a (nth 0 temps []) s st Hw Hb He Hts Hacc Htd). unfold okc.
  destruct (lift_plain bg i a (nth 0 temps [])) as [[g| |]|]; try exact I.
  cbn [fst snd map]. unfold mstep1. rewrite Hc. unfold run_block. cbn [run_seq].
  destruct (exec1 i s) as [s' uh ul|t s'|]; cbn [post block_post] in *.
  - destruct Hpc as (st' & -> & Hemb & _). cbn [enabled_succs guard_on bind].
    exists st'. split; [|apply emb_u_set_pc; assumption].
    cbn [pc set_pc]. rewrite Hp, a32_small by lia. reflexivity.
  - destruct Hpc as (m & st' & -> & Ht & Hemb). exists m, st'. auto.
  - exact I.
Qed.

(* ---------- a branch and its delay slot ---------- *)
Lemma run_block_cons g gs succs st :
  run_block (g :: gs) succs st = match run_graph g st with Fin st' => run_block gs succs st' | o => o end.
Proof. unfold run_block. cbn [run_seq]. destruct (run_graph g st); reflexivity. Qed.

Lemma den_reg_u uh ul s st r : gpr s 0 = 0 -> emb_u uh ul s st -> 0 <= r <= 31 ->
  den (st_env st) (reg_expr r) = Ok (mkc 32 (gpr s r)).
Proof.
  intros Hz He Hr. unfold reg_expr. destruct (Z.eqb_spec r 0) as [->|N].
  - rewrite Hz. reflexivity.
  - cbn [den]. rewrite skey_reg, (embu_reg _ _ _ _ He) by lia. reflexivity.
Qed.

Lemma den_bc en cv : env_get en kbc = Some (mkc 1 cv) -> den en bc_expr = Ok (mkc 1 cv).
Proof. intros H. unfold bc_expr, bc_scalar. cbn [den]. rewrite skey_sc. fold kbc. rewrite H. reflexivity. Qed.

Lemma not_arch_kbc : ~ arch_key kbc.
Proof. apply not_arch_kreg; unfold R_BC; lia. Qed.

(* the slot, then whatever the branch's own graph and the successors do *)
Lemma branch_core bg sl a ts s1 st st1 p sg q succs tgt :
  plain_correct bg sl -> lift_plain bg sl (a + 4) ts = Some (Ok sg) -> temps_ok ts ->
  wf_m s1 -> big s1 = bg -> emb s1 st1 -> run_graph p st = Fin st1 -> access_ok sl s1 (st_mem st1) ->
  temps_distinct sl ts ->
  (forall s2 uh ul st2, exec1 sl s1 = MOk s2 uh ul -> emb_u uh ul s2 st2 ->
     env_get (st_env st2) kbc = env_get (st_env st1) kbc ->
     exists st3, run_block [q] succs st2 = Goto tgt st3 /\ emb_u uh ul s2 st3) ->
  block_post (match exec1 sl s1 with MOk s2 uh ul => MOk (set_pc s2 tgt) uh ul | r => r end) st
             (run_block [p; sg; q] succs st).
Proof.
  intros Hpc Hl Hts Hw Hb He Hp Hacc Htd Hk.
  specialize (Hpc (a + 4) ts s1 st1 Hw Hb He Hts Hacc Htd). rewrite Hl in Hpc.
  rewrite run_block_cons, Hp, run_block_cons.
  destruct (exec1 sl s1) as [s2 uh ul|t s2|]; cbn [post block_post] in *.
  - destruct Hpc as (st2 & -> & Hemb & Hfr).
    destruct (Hk s2 uh ul st2 eq_refl Hemb Hfr) as (st3 & -> & He3).
    exists st3. split; [reflexivity|apply emb_u_set_pc; assumption].
  - destruct Hpc as (m & st2 & -> & Ht & Hemb). exists m, st2. auto.
  - exact I.
Qed.

Lemma run_empty ad st : run_graph (single ad []) st = Fin st.
Proof. rewrite run_single. reflexivity. Qed.

Lemma run_branch_op ad e st v : den (st_env st) e = Ok (mkc 32 v) -> 0 <= v < 2 ^ 32 ->
  run_graph (single ad [OBranch e]) st = Goto v st.
Proof.
  intros H Hv. rewrite run_single. cbn [number run_instrs i_op exec_op]. rewrite H. cbn [bind].
  unfold addr_of. cbn [cval]. unfold ADDR_LIMIT. destruct (Z.ltb_spec v (2 ^ 64)); [reflexivity|lia].
Qed.

(* field / address side conditions *)
Definition off_ok (a off : Z) : Prop := 0 <= off < 2 ^ 16 /\ 0 <= a + 4 + sx16 off * 4 < 2 ^ 32.
Definition branch_ok (a : Z) (b : minstr) : Prop :=
  match b with
  | MJ idx | MJal idx => 0 <= idx < 2 ^ 26
  | MJr rs => reg_ok rs
  | MJalr rd rs => reg_ok rd /\ reg_ok rs
  | MBr2 _ rs rt off => reg_ok rs /\ reg_ok rt /\ off_ok a off
  | MBrz _ rs off | MBrzal _ rs off => reg_ok rs /\ off_ok a off
  | _ => True
  end.

(* jr / jalr read the target register AFTER the delay slot (known finding
   kf:mips-jr-jalr-target-read-after-slot): the theorem covers slots that leave it unchanged *)
Definition link_state (b : minstr) (s : mstate) : mstate :=
  match branch_info b s with
  | Some bi => match b_link bi with Some (r, v) => setr s r v | None => s end
  | None => s
  end.
Definition target_stable (b sl : minstr) (s : mstate) : Prop :=
  match b with
  | MJr rs | MJalr _ rs => forall s2 uh ul, exec1 sl (link_state b s) = MOk s2 uh ul -> gpr s2 rs = gpr s rs /\ gpr s2 0 = 0
  | _ => True
  end.

Lemma cs_btarget_eq s a off : pc s = a -> off_ok a off -> cs_btarget a off = btarget s off.
Proof.
  intros Hp [Ho Ht]. unfold cs_btarget, cs_target, btarget, a32, W. rewrite Hp.
  rewrite !Z.mod_small; lia.
Qed.
Lemma cs_jtarget_eq s a idx : pc s = a -> 0 <= a -> a + 8 < 2 ^ 32 -> cs_jtarget a idx = jtarget s idx.
Proof.
  intros Hp H0 Ha. unfold cs_jtarget, jtarget. rewrite Hp, a32_small by lia. reflexivity.
Qed.
Lemma jtarget_range s a idx : pc s = a -> 0 <= a -> a + 8 < 2 ^ 32 -> 0 <= idx < 2 ^ 26 -> 0 <= jtarget s idx < 2 ^ 32.
Proof.
  intros Hp H0 Ha Hi. unfold jtarget. rewrite Hp, a32_small by lia.
  change (2 ^ 28) with 268435456. change (2 ^ 32) with 4294967296 in *. change (2 ^ 26) with 67108864 in *. lia.
Qed.

(* the two guarded successors of a conditional branch, after merge_successors: when target and
   fall-through coincide they are one successor guarded by `bc | (bc == 0)`, which always holds *)
Lemma merge_one x : merge_succs [x] = [x].
Proof. destruct x. reflexivity. Qed.

Lemma two_succs en t f cv n : env_get en kbc = Some (mkc 1 cv) -> bit01 cv -> not1 bc_expr = Ok n ->
  enabled_succs en (merge_succs [(t, Some bc_expr); (f, Some n)]) = Ok [if cv =? 1 then t else f].
Proof.
  intros H Hb Hn. unfold not1 in Hn. rewrite mk_bin_ok in Hn by reflexivity. inversion Hn; subst n.
  pose proof (den_bc en cv H) as Dbc.
  pose proof (den_not1 en bc_expr cv Dbc) as Dn.
  unfold merge_succs. cbn [fold_left merge_into fst snd].
  destruct (Z.eqb_spec t f) as [->|Ntf].
  - (* same address: one successor, guard bc | (bc == 0) *)
    rewrite mk_bin_ok by reflexivity.
    cbn [enabled_succs guard_on].
    erewrite den_bin by eassumption. cbn [sp_bin bind cbits cval].
    destruct Hb as [-> | ->]; cbn [Z.eqb Pos.eqb negb]; reflexivity.
  - cbn [enabled_succs guard_on]. rewrite Dn, Dbc.
    destruct Hb as [-> | ->]; reflexivity.
Qed.

Lemma okc_some o g : okc o = Some g -> o = Some (Ok g).
Proof. destruct o as [[x| |]|]; cbn; congruence. Qed.

Lemma run_nop_graph ad st : run_graph (single ad [ONop None]) st = Fin st.
Proof. rewrite run_single. reflexivity. Qed.

Lemma run_block_succ1 ad t st : run_block [single ad []] [(t, None)] st = Goto t st.
Proof. rewrite run_block_cons, run_empty. reflexivity. Qed.

(* conditional direct branches: the condition is latched before the slot *)
Lemma cond_branch_case bg sl a ts s st sg e (taken : bool) off n :
  plain_correct bg sl -> lift_plain bg sl (a + 4) ts = Some (Ok sg) -> temps_ok ts ->
  wf_m s -> big s = bg -> emb s st -> pc s = a -> 0 <= a -> a + 8 < 2 ^ 32 -> off_ok a off ->
  access_ok sl s (st_mem st) -> temps_distinct sl ts ->
  den (st_env st) e = Ok (mkc 1 (if taken then 1 else 0)) -> not1 bc_expr = Ok n ->
  block_post (match exec1 sl s with
              | MOk s2 uh ul => MOk (set_pc s2 (if taken then btarget s off else a32 (pc s + 8))) uh ul
              | r => r end) st
    (run_block [single (Some a) [OAssign bc_scalar e]; sg; single (Some (a + 1)) []]
               (merge_succs [(cs_btarget a off, Some bc_expr); (a + 8, Some n)]) st).
Proof.
  intros Hpl Hl Hts Hw Hb He Hp Ha0 Ha Ho Hacc Htd De Hn.
  set (cv := if taken then 1 else 0) in *.
  eapply (branch_core bg sl a ts s st (set_env st kbc (mkc 1 cv))); try eassumption.
  - apply emb_set_other; [assumption|apply not_arch_kbc].
  - rewrite run_single. cbn [number]. erewrite run_assign by eassumption. reflexivity.
  - intros s2 uh ul st2 _ He2 Hfr. exists st2. split; [|assumption].
    rewrite run_block_cons, run_empty. unfold run_block. cbn [run_seq].
    unfold set_env in Hfr. cbn [st_env] in Hfr. rewrite env_get_set_same in Hfr.
    assert (Hne : merge_succs [(cs_btarget a off, Some bc_expr); (a + 8, Some n)] <> []).
    { unfold merge_succs. cbn [fold_left merge_into fst snd]. destruct (cs_btarget a off =? a + 8); discriminate. }
    destruct (merge_succs [(cs_btarget a off, Some bc_expr); (a + 8, Some n)]) as [|s0 sr] eqn:Em; [congruence|]. rewrite <- Em.
    erewrite two_succs; [|eassumption|subst cv; destruct taken; [right|left]; reflexivity|assumption].
    rewrite (cs_btarget_eq s a off Hp Ho), Hp, a32_small by lia.
    subst cv. destruct taken; reflexivity.
Qed.

(* unconditional direct branches (j, b): nop before the slot, one unguarded successor *)
Lemma uncond_branch_case bg sl a ts s st sg tgt :
  plain_correct bg sl -> lift_plain bg sl (a + 4) ts = Some (Ok sg) -> temps_ok ts ->
  wf_m s -> big s = bg -> emb s st -> access_ok sl s (st_mem st) -> temps_distinct sl ts ->
  block_post (match exec1 sl s with MOk s2 uh ul => MOk (set_pc s2 tgt) uh ul | r => r end) st
    (run_block [single (Some a) [ONop None]; sg; single (Some (a + 1)) []] (merge_succs [(tgt, None)]) st).
Proof.
  intros Hpl Hl Hts Hw Hb He Hacc Htd.
  eapply (branch_core bg sl a ts s st st); try eassumption.
  - apply run_nop_graph.
  - intros s2 uh ul st2 _ He2 _. exists st2. split; [rewrite merge_one; apply run_block_succ1|assumption].
Qed.

Lemma link_graph_run s st a rd : emb s st -> reg_ok rd -> pc s = a -> 0 <= a -> a + 8 < 2 ^ 32 ->
  run_graph (single (Some a) [OAssign (reg_scalar rd) (expr_const (a + 8) 32)]) st
    = Fin (set_env st (kreg rd) (mkc 32 (a32 (pc s + 8)))) /\
  emb (setr s rd (a32 (pc s + 8))) (set_env st (kreg rd) (mkc 32 (a32 (pc s + 8)))).
Proof.
  intros He Hd Hp Ha0 Ha. split.
  - rewrite run_single. cbn [number]. erewrite run_assign by (rewrite den_const, new_big_32; reflexivity).
    rewrite skey_reg, Hp. unfold a32, W. reflexivity.
  - apply emb_setr; assumption.
Qed.

Lemma a32_range x : 0 <= a32 x < W.
Proof. unfold a32, W. apply Z.mod_pos_bound. lia. Qed.

(* forall delay-slot instruction forms sl with a per-form theorem, forall states, forall embeddings *)
Definition branch_correct (bg : bool) (b : minstr) : Prop :=
  forall a sl ts s st,
  is_control sl = false -> plain_correct bg sl -> branch_ok a b -> target_stable b sl s ->
  wf_m s -> big s = bg -> pc s = a -> 0 <= a -> a + 8 < 2 ^ 32 -> emb s st -> temps_ok ts ->
  access_ok sl (link_state b s) (st_mem st) -> temps_distinct sl ts ->
  match okc (pre_graph b a), okc (lift_plain bg sl (a + 4) ts), okc (post_graph b a) with
  | Some p, Some sg, Some q => block_post (mstep2 b sl s) st (run_block [p; sg; q] (merge_succs (succs_of b a)) st)
  | _, _, _ => True
  end.

Lemma not1_bc : not1 bc_expr = Ok (EBin Cmpeq bc_expr c0_1).
Proof. reflexivity. Qed.

Lemma S32_0 : S 32 0 = 0.
Proof. reflexivity. Qed.

Ltac slot_split Hsg :=
  match goal with
  | |- context [okc (lift_plain ?bg ?sl ?a ?ts)] =>
      destruct (okc (lift_plain bg sl a ts)) as [sg|] eqn:Hsg; [apply okc_some in Hsg|exact I]
  end.

Theorem j_correct bg idx : branch_correct bg (MJ idx).
Proof.
  intros a sl ts s st Hcs Hpl Hbo Hstab Hw Hb Hp Ha0 Ha He Hts Hacc Htd.
  cbn [pre_graph post_graph succs_of]. unfold b_nop, b_empty. cbn [okc]. slot_split Hsg.
  unfold mstep2. cbn [branch_info b_link b_taken b_target]. rewrite Hcs.
  rewrite <- (cs_jtarget_eq s a idx Hp Ha0 Ha).
  eapply uncond_branch_case; eassumption.
Qed.

Theorem br2_correct bg c rs rt off : branch_correct bg (MBr2 c rs rt off).
Proof.
  intros a sl ts s st Hcs Hpl (Hs & Ht & Ho) Hstab Hw Hb Hp Ha0 Ha He Hts Hacc Htd.
  pose proof (gpr_zero s Hw) as Z0.
  unfold mstep2. rewrite Hcs.
  destruct c; cbn [pre_graph post_graph succs_of branch_info b_link b_taken b_target].
  - (* beq / beqz / b *)
    destruct ((rs =? 0) && (rt =? 0)) eqn:Ezz.
    + apply andb_true_iff in Ezz. destruct Ezz as [E1 E2]. apply Z.eqb_eq in E1, E2. subst rs rt.
      unfold b_nop, b_empty. cbn [okc]. slot_split Hsg. rewrite Z.eqb_refl.
      rewrite <- (cs_btarget_eq s a off Hp Ho). eapply uncond_branch_case; eassumption.
    + destruct (Z.eqb_spec rt 0) as [->|Nt]; builder_ok; unfold b_empty; cbn [okc]; slot_split Hsg;
        rewrite not1_bc.
      * eapply cond_branch_case; try eassumption; [|reflexivity].
        eapply eq_trans; [eapply den_bin; den_tac|]. cbn [sp_bin]. unfold s_cmpeq. rewrite Z0. reflexivity.
      * eapply cond_branch_case; try eassumption; [|reflexivity].
        eapply eq_trans; [eapply den_bin; den_tac|]. reflexivity.
  - (* bne / bnez *)
    destruct (Z.eqb_spec rt 0) as [->|Nt]; builder_ok; unfold b_empty; cbn [okc]; slot_split Hsg;
      rewrite not1_bc.
    + eapply cond_branch_case; try eassumption; [|reflexivity].
      eapply eq_trans; [eapply den_bin; den_tac|]. cbn [sp_bin]. unfold s_cmpneq. rewrite Z0.
      change (0 mod 2 ^ 32) with 0. destruct (gpr s rs =? 0); reflexivity.
    + eapply cond_branch_case; try eassumption; [|reflexivity].
      eapply eq_trans; [eapply den_bin; den_tac|]. cbn [sp_bin]. unfold s_cmpneq.
      destruct (gpr s rs =? gpr s rt); reflexivity.
Qed.

Theorem brz_correct bg c rs off : branch_correct bg (MBrz c rs off).
Proof.
  intros a sl ts s st Hcs Hpl (Hs & Ho) Hstab Hw Hb Hp Ha0 Ha He Hts Hacc Htd.
  pose proof (gpr_range s rs Hw) as Rs.
  unfold mstep2. rewrite Hcs.
  destruct c; cbn [pre_graph post_graph succs_of branch_info b_link b_taken b_target];
    unfold not1; builder_ok; unfold b_empty; cbn [okc]; slot_split Hsg;
    (eapply cond_branch_case; try eassumption; [|reflexivity]).
  - (* blez: (rs <s 0) | (rs == 0) *)
    eapply eq_trans; [eapply den_bin; (eapply eq_trans; [eapply den_bin; den_tac|reflexivity])|].
    cbn [sp_bin]. unfold s_or, s_cmplts, s_cmpeq. change (0 mod 2 ^ 32) with 0. rewrite S32_0.
    f_equal. f_equal. unfold S. change (2 ^ (32 - 1)) with 2147483648. change (2 ^ 32) with 4294967296 in *.
    destruct (gpr s rs <? 2147483648) eqn:E1;
      repeat match goal with |- context [?x <? ?y] => destruct (Z.ltb_spec x y) | |- context [?x =? ?y] => destruct (Z.eqb_spec x y)
                       | |- context [?x <=? ?y] => destruct (Z.leb_spec x y) end; cbn [Z.lor]; lia.
  - (* bgtz: 0 <s rs *)
    eapply eq_trans; [eapply den_bin; den_tac|]. cbn [sp_bin]. unfold s_cmplts. change (0 mod 2 ^ 32) with 0. rewrite S32_0. reflexivity.
  - (* bltz: rs <s 0 *)
    eapply eq_trans; [eapply den_bin; den_tac|]. cbn [sp_bin]. unfold s_cmplts. change (0 mod 2 ^ 32) with 0. rewrite S32_0. reflexivity.
  - (* bgez: (rs <s 0) == 0 *)
    erewrite den_not1; [|eapply eq_trans; [eapply den_bin; den_tac|reflexivity]].
    unfold s_cmplts. change (0 mod 2 ^ 32) with 0. rewrite S32_0. f_equal. f_equal.
    destruct (Z.ltb_spec (S 32 (gpr s rs)) 0), (Z.leb_spec 0 (S 32 (gpr s rs))); cbn [Z.eqb]; lia.
Qed.

Lemma big_setr s r v : big (setr s r v) = big s.
Proof. unfold setr. destruct (r =? 0); reflexivity. Qed.

Theorem jal_correct bg idx : branch_correct bg (MJal idx).
Proof.
  intros a sl ts s st Hcs Hpl Hbo Hstab Hw Hb Hp Ha0 Ha He Hts Hacc Htd.
  cbn [pre_graph post_graph succs_of]. unfold b_branch_const. cbn [okc]. slot_split Hsg.
  unfold mstep2. cbn [branch_info b_link b_taken b_target]. rewrite Hcs.
  destruct (link_graph_run s st a 31 He ltac:(unfold reg_ok; lia) Hp Ha0 Ha) as [Hrun Hemb].
  eapply (branch_core bg sl a ts _ st _); try eassumption.
  - apply wf_setr; [assumption|apply a32_range].
  - intros s2 uh ul st2 _ He2 _. exists st2. split; [|assumption].
    rewrite run_block_cons. erewrite run_branch_op.
    + reflexivity.
    + rewrite den_const, new_big_32. rewrite (cs_jtarget_eq s a idx Hp Ha0 Ha).
      rewrite Z.mod_small by (eapply jtarget_range; eassumption). reflexivity.
    + eapply jtarget_range; eassumption.
Qed.

Theorem jr_correct bg rs : branch_correct bg (MJr rs).
Proof.
  intros a sl ts s st Hcs Hpl Hbo Hstab Hw Hb Hp Ha0 Ha He Hts Hacc Htd.
  cbn [pre_graph post_graph succs_of]. unfold b_nop, b_branch_reg. cbn [okc]. slot_split Hsg.
  unfold mstep2. cbn [branch_info b_link b_taken b_target]. rewrite Hcs.
  cbn [target_stable] in Hstab. unfold link_state in Hstab. cbn [branch_info b_link] in Hstab.
  eapply (branch_core bg sl a ts s st st); try eassumption.
  - apply run_nop_graph.
  - intros s2 uh ul st2 Hex He2 _. destruct (Hstab s2 uh ul Hex) as [Hsame Hz]. exists st2. split; [|assumption].
    rewrite run_block_cons. erewrite run_branch_op.
    + reflexivity.
    + rewrite <- Hsame. eapply den_reg_u; [exact Hz|eassumption|exact Hbo].
    + apply gpr_range. assumption.
Qed.

Theorem jalr_correct bg rd rs : branch_correct bg (MJalr rd rs).
Proof.
  intros a sl ts s st Hcs Hpl (Hd & Hs) Hstab Hw Hb Hp Ha0 Ha He Hts Hacc Htd.
  unfold mstep2. cbn [branch_info]. cbn [target_stable] in Hstab. unfold link_state in Hstab. cbn [branch_info] in Hstab.
  unfold link_state in Hacc. cbn [branch_info] in Hacc.
  destruct (Z.eqb_spec rd rs) as [->|Nds].
  { destruct (okc (pre_graph (MJalr rs rs) a)), (okc (lift_plain bg sl (a + 4) ts)), (okc (post_graph (MJalr rs rs) a)); exact I. }
  cbn [b_link b_taken b_target] in *. rewrite Hcs.
  cbn [pre_graph post_graph succs_of]. unfold b_nop, b_branch_reg.
  destruct (Z.eqb_spec rd 0) as [->|Nd]; cbn [okc]; slot_split Hsg.
  - (* capstone: jr rs *)
    change (setr s 0 (a32 (pc s + 8))) with s in *.
    eapply (branch_core bg sl a ts s st st); try eassumption.
    + apply run_nop_graph.
    + intros s2 uh ul st2 Hex He2 _. destruct (Hstab s2 uh ul Hex) as [Hsame Hz]. exists st2. split; [|assumption].
      rewrite run_block_cons. erewrite run_branch_op.
      * reflexivity.
      * rewrite <- Hsame. eapply den_reg_u; [exact Hz|eassumption|exact Hs].
      * apply gpr_range. assumption.
  - destruct (link_graph_run s st a rd He Hd Hp Ha0 Ha) as [Hrun Hemb].
    assert (Hw1 : wf_m (setr s rd (a32 (pc s + 8)))) by (apply wf_setr; [assumption|apply a32_range]).
    assert (Hb1 : big (setr s rd (a32 (pc s + 8))) = bg) by (rewrite big_setr; assumption).
    eapply (branch_core bg sl a ts _ st _ _ _ _ _ _ Hpl Hsg Hts Hw1 Hb1 Hemb Hrun Hacc Htd).
    + intros s2 uh ul st2 Hex He2 _. destruct (Hstab s2 uh ul Hex) as [Hsame Hz]. exists st2. split; [|assumption].
      rewrite run_block_cons. erewrite run_branch_op.
      * reflexivity.
      * rewrite <- Hsame. eapply den_reg_u; [exact Hz|eassumption|exact Hs].
      * apply gpr_range. assumption.
Qed.

Lemma b_cond_link_eq ad t :
  b_cond_link ad t =
  Ok (mkcfg [blk 0 ad [ONop None]; blk 1 ad [OBranch (expr_const t 32)]; blk 2 ad []]
            [edge_c 0 1 bc_expr; edge_c 0 2 (EBin Cmpeq bc_expr c0_1); edge_u 1 2] 3 (Some 0) (Some 2)).
Proof. reflexivity. Qed.

(* bgezal / bltzal / bal *)
Lemma cond_link_case bg sl a ts s st sg e (taken : bool) off :
  plain_correct bg sl -> lift_plain bg sl (a + 4) ts = Some (Ok sg) -> temps_ok ts ->
  wf_m s -> big s = bg -> emb s st -> pc s = a -> 0 <= a -> a + 8 < 2 ^ 32 -> off_ok a off ->
  access_ok sl (setr s 31 (a32 (pc s + 8))) (st_mem st) -> temps_distinct sl ts ->
  den (st_env st) e = Ok (mkc 1 (if taken then 1 else 0)) ->
  match b_cond_link (Some (a + 1)) (cs_btarget a off) with
  | Ok q =>
    block_post (match exec1 sl (setr s 31 (a32 (pc s + 8))) with
                | MOk s2 uh ul => MOk (set_pc s2 (if taken then btarget s off else a32 (pc s + 8))) uh ul
                | r => r end) st
      (run_block [single (Some a) [OAssign bc_scalar e; OAssign (reg_scalar 31) (expr_const (a + 8) 32)]; sg; q]
                 [(a + 8, None)] st)
  | _ => False
  end.
Proof.
  intros Hpl Hl Hts Hw Hb He Hp Ha0 Ha Ho Hacc Htd De.
  rewrite b_cond_link_eq.
  set (cv := if taken then 1 else 0) in *.
  set (st0 := set_env st kbc (mkc 1 cv)).
  assert (He0 : emb s st0) by (apply emb_set_other; [assumption|apply not_arch_kbc]).
  destruct (link_graph_run s st0 a 31 He0 ltac:(unfold reg_ok; lia) Hp Ha0 Ha) as [Hrun Hemb].
  eapply (branch_core bg sl a ts _ st _); try eassumption.
  - apply wf_setr; [assumption|apply a32_range].
  - rewrite run_single. cbn [number]. erewrite run_assign by eassumption.
    rewrite run_single in Hrun. cbn [number] in Hrun. exact Hrun.
  - intros s2 uh ul st2 _ He2 Hfr.
    assert (Hbc : env_get (st_env st2) kbc = Some (mkc 1 cv)).
    { rewrite Hfr. unfold set_env, st0. cbn [st_env].
      rewrite env_get_set_other by (apply kbc_not_reg; lia). apply env_get_set_same. }
    exists st2. split; [|assumption].
    rewrite run_block_cons.
    erewrite run_tri; [|apply den_bc; exact Hbc|apply den_not1; apply den_bc; exact Hbc|subst cv; destruct taken; [right|left]; reflexivity].
    subst cv. destruct taken; cbn [Z.eqb Pos.eqb number run_instrs i_op exec_op].
    + rewrite den_const, new_big_32. cbn [bind]. rewrite (cs_btarget_eq s a off Hp Ho).
      assert (R : 0 <= btarget s off < 2 ^ 32) by (unfold btarget; apply a32_range).
      rewrite Z.mod_small by exact R. unfold addr_of, ADDR_LIMIT. cbn [cval].
      destruct (Z.ltb_spec (btarget s off) (2 ^ 64)); [reflexivity|lia].
    + unfold run_block. cbn [run_seq enabled_succs guard_on bind]. rewrite Hp, a32_small by lia. reflexivity.
Qed.

Theorem brzal_correct bg c rs off : branch_correct bg (MBrzal c rs off).
Proof.
  intros a sl ts s st Hcs Hpl (Hs & Ho) Hstab Hw Hb Hp Ha0 Ha He Hts Hacc Htd.
  pose proof (gpr_range s rs Hw) as Rs. pose proof (gpr_zero s Hw) as Z0.
  unfold mstep2. cbn [branch_info].
  destruct (Z.eqb_spec rs 31) as [->|N31].
  { destruct (okc (pre_graph (MBrzal c 31 off) a)), (okc (lift_plain bg sl (a + 4) ts)), (okc (post_graph (MBrzal c 31 off) a)); exact I. }
  assert (Hacc' : access_ok sl (setr s 31 (a32 (pc s + 8))) (st_mem st)).
  { unfold link_state in Hacc. cbn [branch_info] in Hacc. destruct (Z.eqb_spec rs 31); [contradiction|]. exact Hacc. }
  cbn [b_link b_taken b_target]. rewrite Hcs.
  destruct c; cbn [pre_graph post_graph succs_of].
  - (* bltzal *)
    unfold not1; builder_ok.
    pose proof (cond_link_case bg sl a ts s st) as L.
    destruct (b_cond_link (Some (a + 1)) (cs_btarget a off)) as [q| |] eqn:Eq.
    2,3: (exfalso; rewrite b_cond_link_eq in Eq; discriminate Eq).
    cbn [okc]. slot_split Hsg.
    specialize (L sg (EBin Cmplts (reg_expr rs) (expr_const 0 32)) (S 32 (gpr s rs) <? 0) off Hpl Hsg Hts Hw Hb He Hp Ha0 Ha Ho Hacc' Htd).
    rewrite Eq in L. apply L.
    eapply eq_trans; [eapply den_bin; den_tac|]. cbn [sp_bin]. unfold s_cmplts. change (0 mod 2 ^ 32) with 0. rewrite S32_0. reflexivity.
  - (* bgezal / bal *)
    destruct (Z.eqb_spec rs 0) as [->|N0].
    + (* bal *)
      unfold b_branch_const. cbn [okc]. slot_split Hsg.
      destruct (link_graph_run s st a 31 He ltac:(unfold reg_ok; lia) Hp Ha0 Ha) as [Hrun Hemb].
      rewrite Z0, S32_0. cbn [Z.leb Z.compare].
      eapply (branch_core bg sl a ts _ st _); try eassumption.
      * apply wf_setr; [assumption|apply a32_range].
      * intros s2 uh ul st2 _ He2 _. exists st2. split; [|assumption].
        rewrite run_block_cons.
        assert (R : 0 <= btarget s off < 2 ^ 32) by (unfold btarget; apply a32_range).
        erewrite run_branch_op; [reflexivity| |exact R].
        rewrite den_const, new_big_32, (cs_btarget_eq s a off Hp Ho), Z.mod_small by exact R. reflexivity.
    + unfold not1; builder_ok.
      pose proof (cond_link_case bg sl a ts s st) as L.
      destruct (b_cond_link (Some (a + 1)) (cs_btarget a off)) as [q| |] eqn:Eq.
      2,3: (exfalso; rewrite b_cond_link_eq in Eq; discriminate Eq).
      cbn [okc]. slot_split Hsg.
      specialize (L sg (EBin Cmpeq (EBin Cmplts (reg_expr rs) (expr_const 0 32)) (expr_const 0 1)) (0 <=? S 32 (gpr s rs)) off Hpl Hsg Hts Hw Hb He Hp Ha0 Ha Ho Hacc' Htd).
      rewrite Eq in L. apply L.
      fold c0_1. erewrite den_not1; [|eapply eq_trans; [eapply den_bin; den_tac|reflexivity]].
      unfold s_cmplts. change (0 mod 2 ^ 32) with 0. rewrite S32_0. f_equal. f_equal.
      destruct (Z.ltb_spec (S 32 (gpr s rs)) 0), (Z.leb_spec 0 (S 32 (gpr s rs))); cbn [Z.eqb]; lia.
Qed.

(* ---------- the translated block of a branch and its delay slot, through mirror_block / mrun ---------- *)
Theorem branch_block_correct bg a w1 w2 b sl temps s st :
  decode w1 = Some b -> decode w2 = Some sl -> is_control b = true -> is_control sl = false ->
  branch_correct bg b -> plain_correct bg sl -> branch_ok a b -> target_stable b sl s ->
  wf_m s -> big s = bg -> pc s = a -> 0 <= a -> a + 8 < 2 ^ 32 -> emb s st -> temps_ok (nth 1 temps []) ->
  access_ok sl (link_state b s) (st_mem st) -> temps_distinct sl (nth 1 temps []) ->
  match mirror_block bg a [w1; w2] temps with
  | None => True
  | Some l => block_post (mrun [w1; w2] s) st (run_block (map snd (fst l)) (snd l) st)
  end.
Proof.
  intros D1 D2 Cb Cs Hbr Hpl Hbo Hstab Hw Hb Hp Ha0 Ha He Hts Hacc Htd.
  unfold mirror_block, mrun. rewrite D1, D2, Cb, Cs. cbn [negb orb].
  specialize (Hbr a sl (nth 1 temps []) s st Cs Hpl Hbo Hstab Hw Hb Hp Ha0 Ha He Hts Hacc Htd).
  destruct (okc (pre_graph b a)), (okc (lift_plain bg sl (a + 4) (nth 1 temps []))), (okc (post_graph b a)); try exact I.
  exact Hbr.
Qed.

Theorem control_correct bg b : is_control b = true -> branch_correct bg b.
Proof.
  intros H. destruct b; try discriminate H.
  - apply j_correct. - apply jal_correct. - apply jr_correct. - apply jalr_correct.
  - apply br2_correct. - apply brz_correct. - apply brzal_correct.
Qed.

Lemma branch_okb_ok a b : branch_okb a b = true -> branch_ok a b.
Proof.
  unfold branch_okb, branch_ok, off_okb, off_ok, regb, reg_ok. destruct b; intros H; try exact I;
    repeat (apply andb_true_iff in H; destruct H as [H ?]); repeat split; lia.
Qed.
