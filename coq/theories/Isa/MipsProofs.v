(* Isa/MipsProofs.v -- correctness of the lifter mirror (Isa/MipsLift.v) against the ISA specification
   (Isa/Mips.v) under the reference IL semantics (Isa/ILRun.v over Exec/Sem.v).

   Part 1: the symbolic-execution lemma set (environment, embedding, denotation of register
   expressions and constants, running single-block graphs).
   Part 2: per-form theorems `plain_correct`, for all register fields and all well-formed states. *)
From Coq Require Import ZArith List Bool NArith Lia ZifyBool.
From Falcon Require Import Base.Res IL.Const IL.ConstSpec IL.Expr IL.ExprSpec IL.Func IL.Loc Exec.Sem
  Isa.ILRun Isa.Mips Isa.MipsLift.
Import ListNotations.
Local Open Scope Z_scope.
Ltac Zify.zify_post_hook ::= Z.div_mod_to_equations.

(* ------------------------------------------------------------------ environments *)
Lemma optN_eqb_eq a b : optN_eqb a b = true <-> a = b.
Proof.
  destruct a as [x|], b as [y|]; cbn; try (split; congruence).
  rewrite N.eqb_eq. split; congruence.
Qed.
Lemma skey_eqb_eq a b : skey_eqb a b = true <-> a = b.
Proof.
  destruct a as [n o], b as [m p]. unfold skey_eqb. cbn [fst snd].
  rewrite andb_true_iff, N.eqb_eq, optN_eqb_eq. split; [intros [-> ->]; reflexivity|intros H; inversion H; auto].
Qed.
Lemma skey_eqb_refl k : skey_eqb k k = true.
Proof. apply skey_eqb_eq. reflexivity. Qed.
Lemma skey_eqb_neq a b : a <> b -> skey_eqb a b = false.
Proof. intros H. destruct (skey_eqb a b) eqn:E; [apply skey_eqb_eq in E; congruence|reflexivity]. Qed.

Lemma env_get_set en k v k' : env_get (env_set en k v) k' = if skey_eqb k k' then Some v else env_get en k'.
Proof.
  induction en as [|[k0 v0] t IH]; cbn [env_set env_get].
  - reflexivity.
  - destruct (skey_eqb k0 k) eqn:E.
    + apply skey_eqb_eq in E. subst k0. cbn [env_get]. destruct (skey_eqb k k'); reflexivity.
    + cbn [env_get]. destruct (skey_eqb k0 k') eqn:E2.
      * apply skey_eqb_eq in E2. subst k0. rewrite skey_eqb_neq; [reflexivity|].
        intros ->. rewrite skey_eqb_refl in E. discriminate.
      * apply IH.
Qed.
Lemma env_get_set_same en k v : env_get (env_set en k v) k = Some v.
Proof. rewrite env_get_set, skey_eqb_refl. reflexivity. Qed.
Lemma env_get_set_other en k v k' : k <> k' -> env_get (env_set en k v) k' = env_get en k'.
Proof. intros H. rewrite env_get_set, skey_eqb_neq by assumption. reflexivity. Qed.

(* ------------------------------------------------------------------ keys of the architectural scalars *)
Definition kreg (r : Z) : skey := (Z.to_N r, None).
Lemma skey_reg r : skey_of (reg_scalar r) = kreg r.
Proof. reflexivity. Qed.
Lemma skey_sc r w : skey_of (sc r w) = kreg r.
Proof. reflexivity. Qed.
Lemma kreg_inj a b : 0 <= a -> 0 <= b -> kreg a = kreg b -> a = b.
Proof. unfold kreg. intros Ha Hb H. inversion H as [E]. apply Z2N.inj in E; assumption. Qed.
Lemma kreg_neq a b : 0 <= a -> 0 <= b -> a <> b -> kreg a <> kreg b.
Proof. intros Ha Hb N E. apply N. apply kreg_inj; assumption. Qed.

(* a key that is none of the architectural ones: temporaries, branching_condition, $zero *)
Definition arch_key (k : skey) : Prop := exists r, 1 <= r <= 33 /\ k = kreg r.

(* ------------------------------------------------------------------ embedding *)
Record emb (s : mstate) (st : sstate) : Prop := mkemb {
  emb_reg : forall r, 1 <= r <= 31 -> env_get (st_env st) (kreg r) = Some (mkc 32 (gpr s r));
  emb_hi : env_get (st_env st) (kreg R_HI) = Some (mkc 32 (hi s));
  emb_lo : env_get (st_env st) (kreg R_LO) = Some (mkc 32 (lo s));
  emb_big : bm_big (st_mem st) = big s;
  emb_mem : forall a b, bm_get (st_mem st) a = Some b -> b = mem s a }.

(* HI / LO left UNPREDICTABLE by the instruction are not related *)
Record emb_u (uh ul : bool) (s : mstate) (st : sstate) : Prop := mkembu {
  embu_reg : forall r, 1 <= r <= 31 -> env_get (st_env st) (kreg r) = Some (mkc 32 (gpr s r));
  embu_hi : uh = false -> env_get (st_env st) (kreg R_HI) = Some (mkc 32 (hi s));
  embu_lo : ul = false -> env_get (st_env st) (kreg R_LO) = Some (mkc 32 (lo s));
  embu_big : bm_big (st_mem st) = big s;
  embu_mem : forall a b, bm_get (st_mem st) a = Some b -> b = mem s a }.

Lemma emb_emb_u s st : emb s st -> emb_u false false s st.
Proof. intros [A B C D E]. constructor; auto. Qed.
Lemma emb_u_weaken uh ul s st : emb s st -> emb_u uh ul s st.
Proof. intros [A B C D E]. constructor; auto. Qed.

Definition set_env (st : sstate) (k : skey) (v : const) : sstate := mkst (env_set (st_env st) k v) (st_mem st).

Lemma wf_setr s r v : wf_m s -> 0 <= v < W -> wf_m (setr s r v).
Proof.
  intros (A & B & C & D & E & F) Hv. unfold setr. destruct (r =? 0) eqn:Er; [repeat split; auto|].
  repeat split; cbn [gpr hi lo pc mem]; auto.
  - destruct (Z.eqb_spec 0 r); [lia|assumption].
  - intros k. destruct (k =? r); [lia|apply B].
  - intros k. destruct (k =? r); [lia|apply B].
Qed.

Lemma emb_setr s st rd v : emb s st -> 0 <= rd <= 31 ->
  emb (setr s rd v) (set_env st (kreg rd) (mkc 32 v)).
Proof.
  intros [A B C D E] Hrd. unfold setr, set_env. destruct (Z.eqb_spec rd 0) as [->|N].
  - constructor; cbn [st_env st_mem]; auto.
    + intros r Hr. rewrite env_get_set_other by (apply kreg_neq; lia). apply A; assumption.
    + rewrite env_get_set_other by (apply kreg_neq; unfold R_HI; lia). assumption.
    + rewrite env_get_set_other by (apply kreg_neq; unfold R_LO; lia). assumption.
  - constructor; cbn [st_env st_mem gpr hi lo mem big]; auto.
    + intros r Hr. destruct (Z.eqb_spec r rd) as [->|N2].
      * apply env_get_set_same.
      * rewrite env_get_set_other by (apply kreg_neq; lia). apply A; assumption.
    + rewrite env_get_set_other by (apply kreg_neq; unfold R_HI; lia). assumption.
    + rewrite env_get_set_other by (apply kreg_neq; unfold R_LO; lia). assumption.
Qed.

Lemma emb_set_hi s st v : emb s st -> emb (set_hi s v) (set_env st (kreg R_HI) (mkc 32 v)).
Proof.
  intros [A B C D E]. constructor; cbn [st_env st_mem set_env set_hi gpr hi lo mem big]; auto.
  - intros r Hr. rewrite env_get_set_other by (apply kreg_neq; unfold R_HI; lia). apply A; assumption.
  - apply env_get_set_same.
  - rewrite env_get_set_other by (apply kreg_neq; unfold R_HI, R_LO; lia). assumption.
Qed.
Lemma emb_set_lo s st v : emb s st -> emb (set_lo s v) (set_env st (kreg R_LO) (mkc 32 v)).
Proof.
  intros [A B C D E]. constructor; cbn [st_env st_mem set_env set_lo gpr hi lo mem big]; auto.
  - intros r Hr. rewrite env_get_set_other by (apply kreg_neq; unfold R_LO; lia). apply A; assumption.
  - rewrite env_get_set_other by (apply kreg_neq; unfold R_HI, R_LO; lia). assumption.
  - apply env_get_set_same.
Qed.

(* writing a non-architectural scalar (a temporary, branching_condition) does not disturb the embedding *)
Lemma emb_set_other s st k v : emb s st -> ~ arch_key k -> emb s (set_env st k v).
Proof.
  intros [A B C D E] Hk. constructor; cbn [st_env st_mem set_env]; auto.
  - intros r Hr. rewrite env_get_set_other; [apply A; assumption|].
    intros ->. apply Hk. exists r. split; [lia|reflexivity].
  - rewrite env_get_set_other; [assumption|]. intros ->. apply Hk. exists R_HI. unfold R_HI. split; [lia|reflexivity].
  - rewrite env_get_set_other; [assumption|]. intros ->. apply Hk. exists R_LO. unfold R_LO. split; [lia|reflexivity].
Qed.

Lemma not_arch_kreg r : 0 <= r -> ~ (1 <= r <= 33) -> ~ arch_key (kreg r).
Proof. intros H0 H [q [Hq E]]. apply kreg_inj in E; lia. Qed.
Lemma not_arch_tmp (t : N) : (40 <= t)%N -> ~ arch_key (t, None).
Proof.
  intros Ht [q [Hq E]]. unfold kreg in E. inversion E as [E']. subst t.
  assert (Z.to_N q < 40)%N by lia. lia.
Qed.

(* ------------------------------------------------------------------ denotations *)
Lemma e_bits_reg r : e_bits (reg_expr r) = 32.
Proof. unfold reg_expr. destruct (r =? 0); reflexivity. Qed.

Lemma new_big_32 v : new_big v 32 = mkc 32 (v mod 2 ^ 32).
Proof.
  unfold new_big, trim, ones. f_equal.
  replace (2 ^ 32 - 1) with (Z.ones 32) by (rewrite Z.ones_equiv; reflexivity).
  apply Z.land_ones. lia.
Qed.
Lemma new_big_64 v : new_big v 64 = mkc 64 (v mod 2 ^ 64).
Proof.
  unfold new_big, trim, ones. f_equal.
  replace (2 ^ 64 - 1) with (Z.ones 64) by (rewrite Z.ones_equiv; reflexivity).
  apply Z.land_ones. lia.
Qed.

Lemma den_const en v w : den en (expr_const v w) = Ok (new_big v w).
Proof. reflexivity. Qed.

Lemma den_reg s st r : wf_m s -> emb s st -> 0 <= r <= 31 ->
  den (st_env st) (reg_expr r) = Ok (mkc 32 (gpr s r)).
Proof.
  intros (Hz & _) He Hr. unfold reg_expr. destruct (Z.eqb_spec r 0) as [->|N].
  - rewrite Hz. reflexivity.
  - cbn [den]. rewrite skey_reg, (emb_reg _ _ He) by lia. reflexivity.
Qed.

Lemma den_bin en o a b w x y : den en a = Ok (mkc w x) -> den en b = Ok (mkc w y) ->
  den en (EBin o a b) = sp_bin o w x y.
Proof.
  intros Ha Hb. cbn [den]. rewrite Ha, Hb. cbn [bind]. unfold sp_bin_c. cbn [cbits cval].
  rewrite Z.eqb_refl. reflexivity.
Qed.

Lemma den_ext en o bits a c : den en a = Ok c -> den en (EExt o bits a) = sp_ext o bits c.
Proof. intros Ha. cbn [den]. rewrite Ha. reflexivity. Qed.

Lemma mk_bin_ok o l r : e_bits l = e_bits r -> mk_bin o l r = Ok (EBin o l r).
Proof. intros H. unfold mk_bin. rewrite H, Z.eqb_refl. reflexivity. Qed.

(* ------------------------------------------------------------------ running graphs *)
Lemma run_single addr ops st : run_graph (single addr ops) st = run_instrs (number addr 0 ops) st.
Proof.
  unfold run_graph, single. cbn [g_entry g_exit]. unfold FUEL.
  cbn [run_cfg g_blocks find_block blk b_index]. rewrite Z.eqb_refl. cbn [b_instrs g_exit optZ_eqb].
  rewrite Z.eqb_refl. destruct (run_instrs (number addr 0 ops) st); reflexivity.
Qed.

Lemma run_assign addr i d e t st v : den (st_env st) e = Ok v ->
  run_instrs (mkinstr i (OAssign d e) addr :: t) st = run_instrs t (set_env st (skey_of d) v).
Proof. intros H. cbn [run_instrs i_op exec_op]. rewrite H. reflexivity. Qed.

Lemma run_nop addr i p t st : run_instrs (mkinstr i (ONop p) addr :: t) st = run_instrs t st.
Proof. reflexivity. Qed.
