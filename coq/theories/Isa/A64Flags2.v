(* Isa/A64Flags2.v -- per-form correctness of ADDS / SUBS (immediate; shifted register LSL / LSR).
   ADDS: full [sim].  SUBS: everything agrees EXCEPT the carry flag, which the lifter computes as
   "a borrow occurred" = NOT C (known finding kf:subs-carry-is-borrow): the theorem is stated for the
   result state with C flipped ([sim_c true]), next to a refutation witness of [sim] itself.  [U] *)
From Coq Require Import ZArith List Bool NArith Lia ZifyBool.
From Falcon Require Import Base.Res IL.Const IL.ConstSpec IL.Expr IL.ExprSpec IL.Func IL.Loc Exec.Sem
     IL.ConstProofs IL.ExprProofs Isa.A64 Isa.A64Lift Isa.A64Run Isa.A64Proofs Isa.A64Sim Isa.A64Arith
     Isa.A64Arith2 Isa.A64Flags Isa.C03Check Isa.A64Tie.
Import ListNotations.
Local Open Scope Z_scope.
Ltac Zify.zify_post_hook ::= Z.div_mod_to_equations.

Definition flipC (s : a64state) : a64state := setNZCV s (fN s) (fZ s) (negb (fC s)) (fV s).

(* [sim] up to the polarity of C: [sim_c false] is [sim] *)
Definition sim_c (flip : bool) (addr : Z) (i : instr) : Prop :=
  forall s st ops succs s',
    wf s -> apc s = addr -> addr + 4 < 2 ^ 64 ->
    emb s st -> mapped st (footprint i s) ->
    lift addr i = Ok (ops, succs) ->
    a64step i s = Done s' ->
    exists st', run_lifted (graph_of addr ops) succs st = Ok (st', apc s') /\ emb (if flip then flipC s' else s') st'.

Lemma sim_c_false addr i : sim_c false addr i -> sim addr i.
Proof. intros H. exact H. Qed.

Lemma finish_fall_ops addr s st s1 ops st' :
  wf s -> apc s = addr -> addr + 4 < 2 ^ 64 -> (length ops < 64)%nat ->
  run_ops ops st = OFall st' -> emb s1 st' -> apc s1 = apc s ->
  run_lifted (graph_of addr ops) [(addr + 4, None)] st = Ok (st', apc (nextPC s1)) /\ emb (nextPC s1) st'.
Proof.
  intros Hw Hpc Ha Hlen Hr He Hp. split; [|apply emb_nextPC; exact He].
  rewrite (run_lifted_fall addr ops st st') by assumption.
  destruct Hw as (_ & _ & _ & Hpcr). rewrite apc_nextPC by lia. rewrite Hp, Hpc. reflexivity.
Qed.

(* the specification's ADDS/SUBS result state against the state the lifter's IL reaches *)
Lemma spec_vs_lifter (sub : bool) s rd r ln lz lc lv :
  let s' := nextPC (setX (setNZCV s ln lz (if sub then negb lc else lc) lv) rd r) in
  (if sub then flipC s' else s') = nextPC (setX (setNZCV s ln lz lc lv) rd r).
Proof.
  cbv zeta. destruct sub; [|reflexivity].
  unfold flipC, nextPC, setPC, setX, setNZCV. destruct (rd =? 31); cbn [fN fZ fC fV xr asp amem apc abig];
    rewrite negb_involutive; reflexivity.
Qed.

Lemma same_regs_SPorX s s1 n : same_regs s s1 -> SPorX s1 n = SPorX s n.
Proof. intros (_ & H1 & H2 & _). unfold SPorX. rewrite H1, H2. reflexivity. Qed.
Lemma same_regs_Xw s s1 n N : same_regs s s1 -> Xw s1 n N = Xw s n N.
Proof. intros (_ & H1 & _). unfold Xw, X. rewrite H1. reflexivity. Qed.

(* the common closing argument: the builder lemma's result against the specification *)
Lemma addsubs_close addr (sf sub : bool) s st rd x y ops succs s' o1 o2 :
  wf s -> apc s = addr -> addr + 4 < 2 ^ 64 -> emb s st -> 0 <= rd < 32 ->
  0 <= x < 2 ^ dsize sf -> 0 <= y < 2 ^ dsize sf ->
  (forall s1, same_regs s s1 -> loads s1 o1 (dsize sf) (dsize sf) x) ->
  (forall s1, same_regs s s1 -> loads s1 o2 (dsize sf) (dsize sf) y) ->
  (b <- b_addsubs (if sub then ASub else AAdd) [OReg (xreg_zr sf rd); o1; o2] ;; Ok (fst b, merge_successors [(addr + 4, None)])) = Ok (ops, succs) ->
  finish_addsub s true false rd (addsub (dsize sf) sub x y) = Done s' ->
  exists st', run_lifted (graph_of addr ops) succs st = Ok (st', apc s') /\ emb (if sub then flipC s' else s') st'.
Proof.
  intros Hw Hpc Ha He Hd Hx Hy L1 L2 Hl Hs.
  destruct (xzr_xsp_range sf rd Hd) as [Hrd _].
  assert (HN : dsize sf = 64 \/ dsize sf = 32) by (destruct sf; cbn; auto).
  pose proof (addsub_result (dsize sf) sub x y HN Hx Hy) as Hres.
  pose proof (addsub_flags (dsize sf) sub x y HN Hx Hy) as Hfl. cbv zeta in Hfl.
  destruct (addsub (dsize sf) sub x y) as [res [[[fn_ fz_] fc_] fv_]]. cbn [fst snd] in Hres, Hfl.
  unfold finish_addsub in Hs. cbn [andb negb] in Hs. inversion Hs; subst s'; clear Hs.
  inversion Hfl; subst fn_ fz_ fc_ fv_; clear Hfl.
  set (a := if sub then ASub else AAdd) in *.
  rewrite <- (reg_bits_zr sf rd) in L1, L2, Hx, Hy.
  destruct (b_addsubs_sim a s st (xreg_zr sf rd) o1 o2 x y Hw He Hrd L1 L2 Hx Hy) as (ops' & st' & B1 & Blen & B2 & B3).
  rewrite B1 in Hl. cbn [bind fst snd] in Hl. inversion Hl; subst ops succs; clear Hl.
  rewrite areg_write_zr, reg_bits_zr, <- Hres in B3.
  rewrite <- !Hres. exists st'. rewrite spec_vs_lifter.
  assert (Hlen : (length ops' < 64)%nat) by lia.
  assert (Hp : apc (setX (setNZCV s (lf_n (dsize sf) res) (lf_z res) (lf_c a res x y) (lf_v a (dsize sf) res x y)) rd res) = apc s)
    by (rewrite apc_setX; reflexivity).
  destruct (finish_fall_ops addr s st _ ops' st' Hw Hpc Ha Hlen B2 B3 Hp) as [F1 F2].
  split; [|exact F2].
  assert (Hsame : forall c1 c2, apc (nextPC (setX (setNZCV s (lf_n (dsize sf) res) (lf_z res) c1 (lf_v a (dsize sf) res x y)) rd res)) =
                                apc (nextPC (setX (setNZCV s (lf_n (dsize sf) res) (lf_z res) c2 (lf_v a (dsize sf) res x y)) rd res))).
  { intros c1 c2. unfold nextPC, setPC, setX, setNZCV. destruct (rd =? 31); reflexivity. }
  rewrite (Hsame _ (lf_c a res x y)). exact F1.
Qed.

(* ------------------------------------------------------------------ C6.2.8 ADDS / C6.2.363 SUBS (immediate) *)
Theorem addsubs_imm_simc addr (sf sub sh : bool) imm12 rn rd :
  0 <= imm12 < 4096 -> 0 <= rn < 32 -> 0 <= rd < 32 ->
  sim_c sub addr (IAddSubImm sf sub true sh imm12 rn rd).
Proof.
  intros Hi Hn Hd s st ops succs s' Hw Hpc Ha He _ Hl Hs.
  destruct (xzr_xsp_range sf rn Hn) as [_ Hrn].
  cbn [a64step] in Hs.
  assert (HN : dsize sf = 64 \/ dsize sf = 32) by (destruct sf; cbn; auto).
  assert (Hop1 : 0 <= SPorX s rn mod 2 ^ dsize sf < 2 ^ dsize sf) by (apply Z.mod_pos_bound; destruct sf; cbn; lia).
  assert (Himm : 0 <= (if sh then imm12 * 4096 else imm12) < 2 ^ dsize sf) by (destruct sh, sf; cbn [dsize]; lia).
  unfold lift in Hl. cbn [operands_of andb] in Hl.
  destruct (rd =? 31) eqn:E31; [cbn [dispatch bind] in Hl; discriminate|].
  assert (L1 : forall s1, same_regs s s1 -> loads s1 (OReg (xreg_sp sf rn)) (dsize sf) (dsize sf) (SPorX s rn mod 2 ^ dsize sf)).
  { intros s1 Hsr. rewrite <- (same_regs_SPorX s s1 rn Hsr). destruct Hsr as (Hw1 & _).
    rewrite <- areg_val_sp by assumption. rewrite <- (reg_bits_sp sf rn). apply loads_reg; assumption. }
  assert (L2 : forall s1, same_regs s s1 -> loads s1 (imm_opnd sf imm12 (if sh then Some (BLSL 12) else None))
                       (dsize sf) (dsize sf) (if sh then imm12 * 4096 else imm12)).
  { intros s1 _. unfold imm_opnd. destruct sf, sh; cbn [dsize].
    - replace (imm12 * 4096) with (s_shl 64 (U 64 imm12) (U 64 12)); [apply loads_imm64_lsl|].
      unfold s_shl, U. change (12 mod 2 ^ 64) with 12. change (64 <=? 12) with false. cbv iota. change (2 ^ 12) with 4096. lia.
    - replace imm12 with (U 64 imm12) at 2 by (unfold U; lia). apply loads_imm64.
    - replace (imm12 * 4096) with (s_shl 32 (U 32 imm12) (U 32 12)); [apply loads_imm32_lsl|].
      unfold s_shl, U. change (12 mod 2 ^ 32) with 12. change (32 <=? 12) with false. cbv iota. change (2 ^ 12) with 4096. lia.
    - replace imm12 with (U 32 imm12) at 2 by (unfold U; lia). apply loads_imm32. }
  apply (addsubs_close addr sf sub s st rd _ _ ops succs s' _ _ Hw Hpc Ha He Hd Hop1 Himm L1 L2); [|exact Hs].
  destruct sub; cbn [dispatch terminating] in Hl; exact Hl.
Qed.

Theorem adds_imm_sim addr (sf sh : bool) imm12 rn rd :
  0 <= imm12 < 4096 -> 0 <= rn < 32 -> 0 <= rd < 32 -> sim addr (IAddSubImm sf false true sh imm12 rn rd).
Proof. intros. apply sim_c_false. apply addsubs_imm_simc; assumption. Qed.

(* ------------------------------------------------------------------ C6.2.9 ADDS / C6.2.364 SUBS (shifted register), LSL and LSR *)
Theorem addsubs_shift_simc addr (sf sub : bool) k rm imm6 rn rd :
  lsl_or_lsr k -> 0 <= imm6 < dsize sf -> 0 <= rm < 32 -> 0 <= rn < 32 -> 0 <= rd < 32 ->
  sim_c sub addr (IAddSubShift sf sub true k rm imm6 rn rd).
Proof.
  intros Hk Hi Hm Hn Hd s st ops succs s' Hw Hpc Ha He _ Hl Hs.
  destruct (xzr_xsp_range sf rn Hn) as [Hrn _].
  cbn [a64step] in Hs.
  assert (HN : dsize sf = 64 \/ dsize sf = 32) by (destruct sf; cbn; auto).
  assert (Hop1 : 0 <= Xw s rn (dsize sf) < 2 ^ dsize sf) by (unfold Xw; apply Z.mod_pos_bound; destruct sf; cbn; lia).
  assert (Hopm : 0 <= Xw s rm (dsize sf) < 2 ^ dsize sf) by (unfold Xw; apply Z.mod_pos_bound; destruct sf; cbn; lia).
  assert (Hop2 : 0 <= shift_val (dsize sf) k (Xw s rm (dsize sf)) imm6 < 2 ^ dsize sf).
  { destruct Hk as [-> | ->]; cbn [shift_val].
    - apply Z.mod_pos_bound; destruct sf; cbn; lia.
    - split; [apply Z.div_pos; [lia|apply pow_pos; lia]|].
      apply Z.le_lt_trans with (Xw s rm (dsize sf)); [|lia].
      apply Z.div_le_upper_bound; [apply pow_pos; lia|]. pose proof (pow_pos imm6 ltac:(lia)). nia. }
  unfold lift in Hl. cbn [operands_of andb] in Hl.
  destruct (rd =? 31) eqn:E31; [cbn [dispatch bind] in Hl; discriminate|].
  destruct (sub && (rn =? 31)) eqn:Eneg; [cbn [dispatch bind] in Hl; discriminate|].
  assert (L1 : forall s1, same_regs s s1 -> loads s1 (OReg (xreg_zr sf rn)) (dsize sf) (dsize sf) (Xw s rn (dsize sf))).
  { intros s1 Hsr. rewrite <- (same_regs_Xw s s1 rn _ Hsr). destruct Hsr as (Hw1 & _).
    rewrite <- areg_val_zr by assumption. rewrite <- (reg_bits_zr sf rn). apply loads_reg; assumption. }
  assert (L2 : forall s1, same_regs s s1 -> loads s1 (shifted_reg sf rm k imm6) (dsize sf) (dsize sf)
                       (shift_val (dsize sf) k (Xw s rm (dsize sf)) imm6)).
  { intros s1 Hsr. rewrite <- (same_regs_Xw s s1 rm _ Hsr). destruct Hsr as (Hw1 & _). apply loads_shifted_reg; assumption. }
  apply (addsubs_close addr sf sub s st rd _ _ ops succs s' _ _ Hw Hpc Ha He Hd Hop1 Hop2 L1 L2); [|exact Hs].
  destruct sub; cbn [dispatch terminating] in Hl; exact Hl.
Qed.

Theorem adds_shift_sim addr (sf : bool) k rm imm6 rn rd :
  lsl_or_lsr k -> 0 <= imm6 < dsize sf -> 0 <= rm < 32 -> 0 <= rn < 32 -> 0 <= rd < 32 ->
  sim addr (IAddSubShift sf false true k rm imm6 rn rd).
Proof. intros. apply sim_c_false. apply addsubs_shift_simc; assumption. Qed.

(* ------------------------------------------------------------------ the SUBS carry defect: a refutation witness of [sim] *)
(* subs x0, x1, x2 (0xeb020020) at 0x1000 with x1 = 1, x2 = 0: no borrow, the architecture sets C = 1,
   the lifted IL leaves c = 0 *)
Definition wit_instr : instr := IAddSubShift true true true SLSL 2 0 1 0.
Definition wit_state : a64state :=
  mkA (fun n => if n =? 1 then 1 else 0) (fun _ => 0) 0 false false false false (fun _ => 0) 4096 false.
Definition wit_ops := Eval vm_compute in (match lift 4096 wit_instr with Ok (o, _) => o | _ => [] end).
Definition wit_succs := Eval vm_compute in (match lift 4096 wit_instr with Ok (_, s) => s | _ => [] end).
Definition wit_result : a64state := match a64step wit_instr wit_state with Done s => s | Undef => wit_state end.

Lemma wit_decodes : decode 3942776864 = Some wit_instr.      (* 0xeb020020 *)
Proof. vm_compute. reflexivity. Qed.
Lemma wit_lift_eq : lift 4096 wit_instr = Ok (wit_ops, wit_succs).
Proof. vm_compute. reflexivity. Qed.
Lemma wit_step_eq : a64step wit_instr wit_state = Done wit_result.
Proof. reflexivity. Qed.
Lemma wit_wf : wf wit_state.
Proof.
  unfold wf, wit_state. cbn [xr asp amem apc]. repeat split; try lia.
  - destruct (n =? 1); lia.
  - destruct (n =? 1); lia.
Qed.

Theorem subs_carry_refuted : ~ sim 4096 wit_instr.
Proof.
  intros H.
  assert (Hm : mapped (embed wit_state []) (footprint wit_instr wit_state)) by (intros a []).
  destruct (H wit_state (embed wit_state []) wit_ops wit_succs wit_result wit_wf eq_refl ltac:(reflexivity)
              (A64Tie.emb_embed _ _) Hm wit_lift_eq wit_step_eq) as (st' & R & E).
  pose proof (emb_c _ _ E) as Ec.
  assert (C : fC wit_result = true) by (vm_compute; reflexivity). rewrite C in Ec.
  vm_compute in R. inversion R; subst st'. vm_compute in Ec. discriminate Ec.
Qed.
