(* Isa/A64Load.v -- per-form correctness of the single-register LOADS without write-back:
   LDR / LDRB / LDRH / LDRSB / LDRSH / LDRSW, unsigned-offset and unscaled (LDUR..) forms, W and X
   destinations, base = SP or Xn, both data endiannesses.  [U] *)
From Coq Require Import ZArith List Bool NArith Lia ZifyBool.
From Falcon Require Import Base.Res IL.Const IL.ConstSpec IL.Expr IL.ExprSpec IL.Func IL.Loc Exec.Sem
     IL.ConstProofs IL.ExprProofs Isa.A64 Isa.A64Lift Isa.A64Run Isa.A64Proofs Isa.A64Sim Isa.A64Arith Isa.A64Mem.
Import ListNotations.
Local Open Scope Z_scope.
Ltac Zify.zify_post_hook ::= Z.div_mod_to_equations.

(* reg_set with a narrow value (8 / 16 / 32 bits): zero-extended into the X register *)
Lemma reg_set_sim_w s st r value w v :
  emb s st -> areg_ok r -> 1 <= w <= 64 -> e_bits value = w ->
  den (st_env st) value = Ok (mkc w v) ->
  exists op st' k c, reg_set r value = Ok op /\ exec_op st op = Ok (st', EvAssign k c) /\
                     emb (areg_write s r v) st'.
Proof.
  intros He Hr Hw Hb Hd. destruct (Z.eq_dec w 64) as [-> | Hne].
  - apply (reg_set_sim s st r value 64 v); auto.
  - assert (Hd' : den (st_env st) (EExt Zext 64 value) = Ok (mkc 64 v)).
    { rewrite (den_ext _ _ _ _ _ Hd). cbn [sp_ext cbits cval]. destruct (Z.leb_spec 64 w); [lia|reflexivity]. }
    destruct (reg_set_sim s st r (EExt Zext 64 value) 64 v He Hr (or_introl eq_refl) eq_refl Hd') as (op & st' & k & c & S1 & S2 & S3).
    exists op, st', k, c. split; [|split; assumption].
    unfold reg_set in *. rewrite Hb. cbn [e_bits] in S1. change (64 <? 64) with false in S1. change (64 =? 64) with true in S1. cbv iota in S1.
    destruct (Z.ltb_spec 64 w); [lia|]. destruct (Z.eqb_spec w 64); [lia|].
    rewrite mk_ext_ok by lia. cbn [unwrap bind]. exact S1.
Qed.

Lemma wrap_add_U x o : U 64 (x + U 64 o) = wrap64 (x + o).
Proof. unfold U, wrap64. apply Zplus_mod_idemp_r. Qed.
Lemma U64_u64' o : U 64 (u64 o) = U 64 o.
Proof. unfold U, u64. apply Z.mod_mod. lia. Qed.

(* mem_operand_address (MemOffset): the address expression and its value *)
Lemma mem_offset_den s st base off : wf s -> emb s st -> areg_ok base -> reg_bits base = 64 ->
  exists a_e, mem_operand_address (OMemOffset base off) = Ok (a_e, None) /\
              den (st_env st) a_e = Ok (mkc 64 (wrap64 (areg_val s base + off))).
Proof.
  intros Hw He Hr Hb. destruct (reg_get_den s st base Hw He Hr) as (e & G & B & D). rewrite Hb in B, D.
  cbn [mem_operand_address]. rewrite G. cbn [bind]. rewrite mk_bin_ok by (rewrite B; reflexivity). cbn [unwrap bind].
  eexists. split; [reflexivity|].
  rewrite (den_bin _ Add _ _ 64 _ (U 64 off) D) by (apply den_const; lia). cbn [sp_bin]. unfold s_add.
  rewrite wrap_add_U. reflexivity.
Qed.

Lemma wrap64_range x : 0 <= wrap64 x < 2 ^ 64.
Proof. unfold wrap64. apply Z.mod_pos_bound. lia. Qed.

(* fn ldr / ldrb / ldrh on [Reg rt; MemOffset base off] *)
Lemma b_ldr_sim s st fixed rt' base off n data :
  wf s -> emb s st -> areg_ok rt' -> areg_ok base -> reg_bits base = 64 -> (1 <= n <= 8)%nat ->
  (match fixed with Some b => b | None => reg_bits rt' end) = 8 * Z.of_nat n ->
  mapped st (addr_range (wrap64 (areg_val s base + off)) n) ->
  mem_rd s (wrap64 (areg_val s base + off)) n = Some data ->
  exists ops st', b_ldr fixed [OReg rt'; OMemOffset base off] = Ok (ops, []) /\ length ops = 2%nat /\
                  run_ops ops st = OFall st' /\ emb (areg_write s rt' data) st'.
Proof.
  intros Hw He Hrt Hbase Hb64 Hn Hbits Hm Hrd.
  destruct (mem_offset_den s st base off Hw He Hbase Hb64) as (a_e & MA & DA).
  unfold b_ldr, nth_op. cbn [nth_error res_of_option bind]. rewrite MA. cbn [bind fst snd].
  assert (Hbits' : (match fixed with Some b => Ok b | None => operand_storing_width (OReg rt') end) = Ok (8 * Z.of_nat n))
    by (destruct fixed; cbn [operand_storing_width]; congruence).
  rewrite Hbits'. cbn [bind operand_store sideeffect].
  destruct (exec_load s st 70%N (8 * Z.of_nat n) a_e _ n data He ltac:(lia) ltac:(lia) eq_refl DA (wrap64_range _) Hm Hrd)
    as (st1 & E1 & He1 & G1).
  assert (Dt : den (st_env st1) (EScalar (s_temp0 (8 * Z.of_nat n))) = Ok (mkc (8 * Z.of_nat n) data))
    by (apply den_scalar_get; [exact G1|reflexivity]).
  destruct (reg_set_sim_w s st1 rt' (EScalar (s_temp0 (8 * Z.of_nat n))) (8 * Z.of_nat n) data He1 Hrt ltac:(lia) eq_refl Dt) as (op & st' & k & c & S1 & S2 & S3).
  rewrite S1. cbn [bind app]. eexists; exists st'. split; [reflexivity|]. split; [reflexivity|]. split; [|exact S3].
  rewrite (run_ops_step _ _ _ _ _ E1 I), (run_ops_assign _ _ _ _ _ _ S2). reflexivity.
Qed.

(* fn ldrsb / ldrsh / ldrsw *)
Lemma b_ldrs_sim s st width rt' base off n data :
  wf s -> emb s st -> areg_ok rt' -> areg_ok base -> reg_bits base = 64 -> (1 <= n <= 4)%nat ->
  width = 8 * Z.of_nat n -> width < reg_bits rt' -> (width = 32 -> reg_bits rt' = 64) ->
  mapped st (addr_range (wrap64 (areg_val s base + off)) n) ->
  mem_rd s (wrap64 (areg_val s base + off)) n = Some data ->
  exists ops st', b_ldrs width [OReg rt'; OMemOffset base off] = Ok (ops, []) /\ length ops = 2%nat /\
                  run_ops ops st = OFall st' /\ emb (areg_write s rt' (s_sext (reg_bits rt') width data)) st'.
Proof.
  intros Hw He Hrt Hbase Hb64 Hn Hwd Hlt H32 Hm Hrd.
  destruct (mem_offset_den s st base off Hw He Hbase Hb64) as (a_e & MA & DA).
  unfold b_ldrs, nth_op. cbn [nth_error res_of_option bind operand_storing_width].
  assert (Hck : (width =? 32) && negb (reg_bits rt' =? 64) = false).
  { destruct (Z.eqb_spec width 32) as [E|_]; [|reflexivity]. rewrite (H32 E). reflexivity. }
  rewrite Hck. cbn [bind]. rewrite MA. cbn [bind fst snd].
  rewrite mk_ext_ok by (cbn [e_bits s_temp0 sbits]; lia). cbn [unwrap bind operand_store sideeffect].
  subst width.
  destruct (exec_load s st 70%N (8 * Z.of_nat n) a_e _ n data He ltac:(lia) ltac:(lia) eq_refl DA (wrap64_range _) Hm Hrd)
    as (st1 & E1 & He1 & G1).
  assert (Dt : den (st_env st1) (EExt Sext (reg_bits rt') (EScalar (s_temp0 (8 * Z.of_nat n)))) =
               Ok (mkc (reg_bits rt') (s_sext (reg_bits rt') (8 * Z.of_nat n) data))).
  { rewrite (den_ext _ _ _ _ (mkc (8 * Z.of_nat n) data)) by (apply den_scalar_get; [exact G1|reflexivity]).
    cbn [sp_ext cbits cval]. destruct (Z.leb_spec (reg_bits rt') (8 * Z.of_nat n)); [lia|reflexivity]. }
  destruct (reg_set_sim s st1 rt' (EExt Sext (reg_bits rt') (EScalar (s_temp0 (8 * Z.of_nat n)))) (reg_bits rt') _ He1 Hrt (reg_bits_cases rt') eq_refl Dt) as (op & st' & k & c & S1 & S2 & S3).
  rewrite S1. cbn [bind app]. eexists; exists st'. split; [reflexivity|]. split; [reflexivity|]. split; [|exact S3].
  rewrite (run_ops_step _ _ _ _ _ E1 I), (run_ops_assign _ _ _ _ _ _ S2). reflexivity.
Qed.

(* ------------------------------------------------------------------ the instruction-level theorem *)
Definition load_val (size opc data : Z) : Z :=
  if opc =? 1 then data else U (if opc =? 3 then 32 else 64) (S (8 * 2 ^ size) data).

Lemma ldst_access_load s size opc t address :
  0 <= size < 4 -> 1 <= opc < 4 ->
  ldst_access s size opc t address =
  match mem_rd s address (Z.to_nat (2 ^ size)) with
  | None => None
  | Some data => Some (setX s t (load_val size opc data))
  end.
Proof.
  intros Hs Ho.
  assert (size = 0 \/ size = 1 \/ size = 2 \/ size = 3) as [-> | [-> | [-> | ->]]] by lia;
  assert (opc = 1 \/ opc = 2 \/ opc = 3) as [-> | [-> | ->]] by lia; reflexivity.
Qed.

Lemma finish_fall_ops' addr s st s1 ops st' :
  wf s -> apc s = addr -> addr + 4 < 2 ^ 64 -> (length ops < 64)%nat ->
  run_ops ops st = OFall st' -> emb s1 st' -> apc s1 = apc s ->
  exists st'', run_lifted (graph_of addr ops) (merge_successors [(addr + 4, None)]) st = Ok (st'', apc (nextPC s1)) /\ emb (nextPC s1) st''.
Proof.
  intros Hw Hpc Ha Hlen Hr He Hp. exists st'. split; [|apply emb_nextPC; exact He].
  change (merge_successors [(addr + 4, None)]) with [(addr + 4, @None expr)].
  rewrite (run_lifted_fall addr ops st st') by assumption.
  destruct Hw as (_ & _ & _ & Hpcr). rewrite apc_nextPC by lia. rewrite Hp, Hpc. reflexivity.
Qed.

Lemma areg_val_sp64 s n : wf s -> areg_val s (xreg_sp true n) = SPorX s n.
Proof.
  intros Hw. rewrite areg_val_sp by assumption. cbn [dsize]. apply Z.mod_small.
  destruct Hw as (Hx & Hsp & _). unfold SPorX. destruct (n =? 31); auto.
Qed.
Lemma wrap_u64 x o : wrap64 (x + u64 o) = wrap64 (x + o).
Proof. unfold wrap64, u64. apply Zplus_mod_idemp_r. Qed.

Theorem ldr_imm_sim addr size opc (scaled : bool) imm rn rt :
  0 <= size < 4 -> 1 <= opc < 4 -> decode_ldst_opc_ok size opc = true ->
  0 <= rn < 32 -> 0 <= rt < 32 ->
  sim addr (ILdStImm size opc WOffset scaled imm rn rt).
Proof.
  intros Hsz Hop Hok Hn Ht s st ops succs s' Hw Hpc Ha He Hm Hl Hs.
  destruct (xzr_xsp_range true rn Hn) as [_ Hbase].
  set (offset := if scaled then imm * 2 ^ size else sext_imm 9 imm) in *.
  set (A := wrap64 (SPorX s rn + offset)).
  (* specification *)
  cbn [a64step] in Hs. fold offset in Hs.
  destruct (ldst_regsize_signed size opc) as [[rs0 sg0] il0]. cbn [andb] in Hs. fold A in Hs.
  rewrite ldst_access_load in Hs by assumption.
  destruct (mem_rd s A (Z.to_nat (2 ^ size))) as [data|] eqn:Erd; [|discriminate]. inversion Hs; subst s'; clear Hs.
  (* footprint *)
  assert (Hm' : mapped st (addr_range A (Z.to_nat (2 ^ size)))) by exact Hm.
  (* the lifter *)
  unfold lift in Hl. cbn [operands_of] in Hl. fold offset in Hl.
  set (off := if scaled then imm * 2 ^ size else u64 (sext_imm 9 imm)) in *.
  assert (HA : wrap64 (areg_val s (xreg_sp true rn) + off) = A).
  { rewrite areg_val_sp64 by assumption. unfold off, A, offset. destruct scaled; [reflexivity|apply wrap_u64]. }
  assert (Hb64 : reg_bits (xreg_sp true rn) = 64) by apply reg_bits_sp.
  assert (Hfin : forall v rt' ops',
            areg_write s rt' v = setX s rt v ->
            (exists st', (length ops' = 2)%nat /\ run_ops ops' st = OFall st' /\ emb (areg_write s rt' v) st') ->
            exists st', run_lifted (graph_of addr ops') (merge_successors [(addr + 4, None)]) st = Ok (st', apc (nextPC (setX s rt v))) /\
                        emb (nextPC (setX s rt v)) st').
  { intros v rt' ops' Hwr (st' & Hlen & Hr & Hemb). rewrite Hwr in Hemb.
    apply (finish_fall_ops' addr s st _ ops' st'); try assumption; [lia|apply apc_setX]. }
  rewrite <- HA in Hm', Erd.
  assert (size = 0 \/ size = 1 \/ size = 2 \/ size = 3) as Hsize by lia.
  assert (opc = 1 \/ opc = 2 \/ opc = 3) as Hopc by lia.
  Ltac ldr_case Hl Hfin Hw He Ht Hbase Hb64 Hm' Erd sfr fixed n :=
    destruct (xzr_xsp_range sfr _ Ht) as [Hrt _];
    destruct (b_ldr_sim _ _ fixed _ _ _ n _ Hw He Hrt Hbase Hb64 ltac:(lia) ltac:(first [reflexivity | (cbv beta iota; rewrite reg_bits_zr; reflexivity)]) Hm' Erd) as (ops' & st' & B1 & Blen & B2 & B3);
    cbn [dispatch terminating] in Hl; rewrite B1 in Hl; cbn [bind fst snd] in Hl; inversion Hl; subst; clear Hl;
    match goal with HB2 : run_ops ?o _ = OFall ?s2 |- _ => apply (Hfin _ (xreg_zr sfr _) o (areg_write_zr _ sfr _ _)); exists s2; auto end.
  Ltac ldrs_case Hl Hfin Hw He Ht Hbase Hb64 Hm' Erd sfr width n :=
    destruct (xzr_xsp_range sfr _ Ht) as [Hrt _];
    destruct (b_ldrs_sim _ _ width _ _ _ n _ Hw He Hrt Hbase Hb64 ltac:(lia) ltac:(reflexivity)
                ltac:(rewrite reg_bits_zr; cbn; lia) ltac:(intros; rewrite reg_bits_zr; try reflexivity; try lia) Hm' Erd)
      as (ops' & st' & B1 & Blen & B2 & B3);
    cbn [dispatch terminating] in Hl; rewrite B1 in Hl; cbn [bind fst snd] in Hl; inversion Hl; subst; clear Hl;
    rewrite reg_bits_zr in B3;
    match goal with HB2 : run_ops ?o _ = OFall ?s2 |- _ => apply (Hfin _ (xreg_zr sfr _) o (areg_write_zr _ sfr _ _)); exists s2; auto end.
  destruct Hsize as [-> | [-> | [-> | ->]]]; destruct Hopc as [-> | [-> | ->]]; try discriminate Hok.
  - change (ldst_mnem 0 1) with MLdrb in Hl. change (ldst_rt 0 1 rt) with (xreg_zr false rt) in Hl.
    change (Z.to_nat (2 ^ 0)) with 1%nat in *. ldr_case Hl Hfin Hw He Ht Hbase Hb64 Hm' Erd false (Some 8) 1%nat.
  - change (ldst_mnem 0 2) with MLdrsb in Hl. change (ldst_rt 0 2 rt) with (xreg_zr true rt) in Hl.
    change (Z.to_nat (2 ^ 0)) with 1%nat in *. ldrs_case Hl Hfin Hw He Ht Hbase Hb64 Hm' Erd true 8 1%nat.
  - change (ldst_mnem 0 3) with MLdrsb in Hl. change (ldst_rt 0 3 rt) with (xreg_zr false rt) in Hl.
    change (Z.to_nat (2 ^ 0)) with 1%nat in *. ldrs_case Hl Hfin Hw He Ht Hbase Hb64 Hm' Erd false 8 1%nat.
  - change (ldst_mnem 1 1) with MLdrh in Hl. change (ldst_rt 1 1 rt) with (xreg_zr false rt) in Hl.
    change (Z.to_nat (2 ^ 1)) with 2%nat in *. ldr_case Hl Hfin Hw He Ht Hbase Hb64 Hm' Erd false (Some 16) 2%nat.
  - change (ldst_mnem 1 2) with MLdrsh in Hl. change (ldst_rt 1 2 rt) with (xreg_zr true rt) in Hl.
    change (Z.to_nat (2 ^ 1)) with 2%nat in *. ldrs_case Hl Hfin Hw He Ht Hbase Hb64 Hm' Erd true 16 2%nat.
  - change (ldst_mnem 1 3) with MLdrsh in Hl. change (ldst_rt 1 3 rt) with (xreg_zr false rt) in Hl.
    change (Z.to_nat (2 ^ 1)) with 2%nat in *. ldrs_case Hl Hfin Hw He Ht Hbase Hb64 Hm' Erd false 16 2%nat.
  - change (ldst_mnem 2 1) with MLdr in Hl. change (ldst_rt 2 1 rt) with (xreg_zr false rt) in Hl.
    change (Z.to_nat (2 ^ 2)) with 4%nat in *. ldr_case Hl Hfin Hw He Ht Hbase Hb64 Hm' Erd false (@None Z) 4%nat.
  - change (ldst_mnem 2 2) with MLdrsw in Hl. change (ldst_rt 2 2 rt) with (xreg_zr true rt) in Hl.
    change (Z.to_nat (2 ^ 2)) with 4%nat in *. ldrs_case Hl Hfin Hw He Ht Hbase Hb64 Hm' Erd true 32 4%nat.
  - change (ldst_mnem 3 1) with MLdr in Hl. change (ldst_rt 3 1 rt) with (xreg_zr true rt) in Hl.
    change (Z.to_nat (2 ^ 3)) with 8%nat in *. ldr_case Hl Hfin Hw He Ht Hbase Hb64 Hm' Erd true (@None Z) 8%nat.
Qed.
