(* Isa/X86SimBt.v -- round 7: bt / bts / btr / btc with a register or memory base and a register (register base only) or
   immediate bit offset: the offset is taken modulo the operand size.  (The bit-string form -- memory base, register
   offset -- is not covered here.) *)
From Coq Require Import ZArith List Bool NArith Lia ZifyBool.
From Falcon Require Import Base.Res IL.Const IL.ConstSpec IL.ConstProofs IL.Expr IL.ExprSpec IL.Func IL.Loc Exec.Sem.
From Falcon Require Import Isa.X86 Isa.X86Run Isa.X86Lift Isa.X86Mirror Isa.X86Proofs Isa.X86Sim Isa.C01Check Isa.X86Tie Isa.X86SimMem Isa.X86SimCarry Isa.X86SimMore Isa.X86SimXchg Isa.X86SimMul Isa.X86SimShift Isa.X86SimRot.
Import ListNotations.
Local Open Scope Z_scope.
Ltac Zify.zify_post_hook ::= Z.div_mod_to_equations.

(* ---------- setting / clearing / toggling one bit ---------- *)
Lemma pow2_bits n i : 0 <= n -> Z.testbit (2 ^ n) i = (i =? n).
Proof. intros Hn. destruct (Z.eqb_spec i n) as [->|N]; [apply Z.pow2_bits_true; exact Hn|apply Z.pow2_bits_false; lia]. Qed.

Lemma lor_bit a n : 0 <= n -> 0 <= a -> Z.lor a (2 ^ n) = if Z.testbit a n then a else a + 2 ^ n.
Proof.
  intros Hn Ha. destruct (Z.testbit a n) eqn:T.
  - apply Z.bits_inj'. intros i Hi. rewrite Z.lor_spec, pow2_bits by exact Hn. destruct (Z.eqb_spec i n) as [->|N]; [rewrite T; reflexivity|apply orb_false_r].
  - assert (L: Z.land a (2 ^ n) = 0).
    { apply Z.bits_inj'. intros i Hi. rewrite Z.land_spec, pow2_bits, Z.bits_0 by exact Hn. destruct (Z.eqb_spec i n) as [->|N]; [rewrite T; reflexivity|apply andb_false_r]. }
    rewrite (Z.add_nocarry_lxor _ _ L). symmetry. apply Z.lxor_lor. exact L.
Qed.
Lemma lxor_bit a n : 0 <= n -> 0 <= a -> Z.lxor a (2 ^ n) = if Z.testbit a n then a - 2 ^ n else a + 2 ^ n.
Proof.
  intros Hn Ha. destruct (Z.testbit a n) eqn:T.
  - assert (L: Z.land (a - 2 ^ n) (2 ^ n) = 0 /\ a - 2 ^ n = Z.lxor a (2 ^ n)).
    { assert (E: Z.lxor a (2 ^ n) = Z.ldiff a (2 ^ n)).
      { apply Z.bits_inj'. intros i Hi. rewrite Z.lxor_spec, Z.ldiff_spec, pow2_bits by exact Hn. destruct (Z.eqb_spec i n) as [->|N]; [rewrite T; reflexivity|rewrite xorb_false_r, andb_true_r; reflexivity]. }
      assert (D: Z.ldiff (2 ^ n) a = 0).
      { apply Z.bits_inj'. intros i Hi. rewrite Z.ldiff_spec, pow2_bits, Z.bits_0 by exact Hn. destruct (Z.eqb_spec i n) as [->|N]; [rewrite T; reflexivity|reflexivity]. }
      rewrite (Z.sub_nocarry_ldiff a (2 ^ n) D), E. split; [|reflexivity].
      apply Z.bits_inj'. intros i Hi. rewrite Z.land_spec, Z.ldiff_spec, pow2_bits, Z.bits_0 by exact Hn. destruct (Z.eqb_spec i n); [rewrite andb_false_r; reflexivity|apply andb_false_r]. }
    destruct L as (_ & L). symmetry. exact L.
  - assert (L: Z.land a (2 ^ n) = 0).
    { apply Z.bits_inj'. intros i Hi. rewrite Z.land_spec, pow2_bits, Z.bits_0 by exact Hn. destruct (Z.eqb_spec i n) as [->|N]; [rewrite T; reflexivity|apply andb_false_r]. }
    symmetry. apply Z.add_nocarry_lxor. exact L.
Qed.
Lemma land_nbit a n w : 0 <= n < w -> 0 <= a < 2 ^ w -> Z.land a (Z.lxor (2 ^ n) (2 ^ w - 1)) = if Z.testbit a n then a - 2 ^ n else a.
Proof.
  intros Hn Ha.
  assert (E: Z.land a (Z.lxor (2 ^ n) (2 ^ w - 1)) = Z.ldiff a (2 ^ n)).
  { replace (2 ^ w - 1) with (Z.ones w) by (rewrite Z.ones_equiv; lia).
    apply Z.bits_inj'. intros i Hi. rewrite Z.land_spec, Z.lxor_spec, Z.ldiff_spec, pow2_bits by lia. destruct (Z.ltb_spec i w).
    - rewrite Z.ones_spec_low by lia. rewrite xorb_true_r. reflexivity.
    - replace (Z.testbit a i) with false; [reflexivity|]. symmetry. rewrite <- (Z.mod_small a (2 ^ w)) by lia. apply Z.mod_pow2_bits_high. lia. }
  rewrite E. destruct (Z.testbit a n) eqn:T.
  - assert (D: Z.ldiff (2 ^ n) a = 0).
    { apply Z.bits_inj'. intros i Hi. rewrite Z.ldiff_spec, pow2_bits, Z.bits_0 by lia. destruct (Z.eqb_spec i n) as [->|N]; [rewrite T; reflexivity|reflexivity]. }
    symmetry. apply Z.sub_nocarry_ldiff. exact D.
  - apply Z.bits_inj'. intros i Hi. rewrite Z.ldiff_spec, pow2_bits by lia. destruct (Z.eqb_spec i n) as [->|N]; [rewrite T; reflexivity|apply andb_true_r].
Qed.
Lemma bitb_is_testbit a n : 0 <= n -> X86.bitb a n = Z.testbit a n.
Proof. intros Hn. unfold X86.bitb. rewrite <- Z.bit0_odd. apply Z.div_pow2_bits; lia. Qed.

Definition bt_osz (sz : Z) (src : operand) : Z := match src with OImm _ => 8 | _ => sz end.
Definition bt_form_ok (dst src : operand) : bool :=
  (isreg dst && regimm src) || (is_mem dst && match src with OImm _ => true | _ => false end).
Definition bt_result (o : btop) (a bit : Z) : Z :=
  let cf := X86.bitb a bit in
  match o with BtT => a | BtS => if cf then a else a + 2 ^ bit | BtR => if cf then a - 2 ^ bit else a | BtC => if cf then a - 2 ^ bit else a + 2 ^ bit end.
Definition bt_flags (a bit : Z) (f : flags) : flags := mkfl (FB (X86.bitb a bit)) FU (f_zf f) FU FU (f_df f).

Lemma bt_step m next o sz dst src s : bt_form_ok dst src = true ->
  step m next (IBt o sz dst src) s =
  match rd_op sz src s with
  | None => XFault
  | Some off =>
      match rd_op sz dst s with
      | None => XFault
      | Some a =>
          match o with
          | BtT => XNext (set_fl s (bt_flags a (off mod sz) (x_fl s))) next
          | _ => match option_map (fun s' => set_fl s' (bt_flags a (off mod sz) (x_fl s))) (wr_op sz dst (bt_result o a (off mod sz)) s) with
                 | Some s' => XNext s' next | None => XFault end
          end
      end
  end.
Proof.
  intros Hf. unfold step. destruct (rd_op sz src s) as [off|]; [|reflexivity].
  assert (Q: (match dst, (match src with OReg _ => true | _ => false end) with
              | OMem b i d asz, true => OMem b i (d + (sz / 8) * (X86.Sg sz off / sz)) asz | _, _ => dst end) = dst).
  { destruct dst; try reflexivity. destruct src; try reflexivity. cbn in Hf. discriminate. }
  rewrite Q. destruct (rd_op sz dst s) as [a|]; [|reflexivity]. destruct o; reflexivity.
Qed.

Lemma u64max_const_den en sz : width_ok sz -> den en (expr_const U64MAX sz) = Ok (mkc sz (2 ^ sz - 1)).
Proof. intros Hw. unfold expr_const. rewrite new_big_spec by (destruct Hw as [->|[->|[->| ->]]]; lia). cbn [den]. destruct Hw as [->|[->|[->| ->]]]; reflexivity. Qed.

Definition is_bt_t (o : btop) : bool := match o with BtT => true | _ => false end.

Lemma bt_flags_emb m s (stA st2 : sstate) a bit :
  emb m s stA -> (forall k, k <> kT0 -> k <> kT1 -> k <> kCF -> env_get (st_env st2) k = env_get (st_env stA) k) ->
  env_get (st_env st2) kCF = Some (mkc 1 (X86.b2z (X86.bitb a bit))) ->
  (forall r0, 0 <= r0 < ngpr m -> env_get (st_env st2) (gpr_name m r0, None) = env_get (st_env stA) (gpr_name m r0, None)) /\
  env_get (st_env st2) kDF = env_get (st_env stA) kDF /\
  emb_flag (f_cf (bt_flags a bit (x_fl s))) (st_env st2) kCF /\ emb_flag (f_zf (bt_flags a bit (x_fl s))) (st_env st2) kZF /\
  emb_flag (f_sf (bt_flags a bit (x_fl s))) (st_env st2) kSF /\ emb_flag (f_of (bt_flags a bit (x_fl s))) (st_env st2) kOF.
Proof.
  intros He Fk Gc.
  assert (Tr: forall f0 k, k <> kT0 -> k <> kT1 -> k <> kCF -> emb_flag f0 (st_env stA) k -> emb_flag f0 (st_env st2) k).
  { intros f0 k K0 K1 K2 H. unfold emb_flag in *. destruct f0; [rewrite Fk by assumption; exact H|destruct H as [v0 H]; exists v0; rewrite Fk by assumption; exact H]. }
  split; [intros r0 Hr0; destruct (reg_key_facts m r0 Hr0) as (K0 & _ & _ & _ & K4 & _); apply Fk; [exact K0|apply not_eq_sym; apply kT1_ne_reg; exact Hr0|exact K4]|].
  split; [apply Fk; intro E; inversion E|].
  cbn [bt_flags f_cf f_zf f_sf f_of]. split; [exact Gc|].
  split; [apply Tr; [intro E; inversion E|intro E; inversion E|intro E; inversion E|apply (emb_zf _ _ _ He)]|].
  split; [apply Tr; [intro E; inversion E|intro E; inversion E|intro E; inversion E|apply (emb_flag_weaken _ _ _ (emb_sf _ _ _ He))]|].
  apply Tr; [intro E; inversion E|intro E; inversion E|intro E; inversion E|apply (emb_flag_weaken _ _ _ (emb_of _ _ _ He))].
Qed.

Lemma bt_gen m addr nx (o : btop) sz dst src s st a ov :
  wf m s -> emb m s st -> width_ok sz -> bt_form_ok dst src = true ->
  opnd_ok m sz dst -> opnd_ok m (bt_osz sz src) src -> opnd_nw sz dst s ->
  rd_op sz dst s = Some a -> rd_op sz src s = Some ov ->
  forall s', (match o with
              | BtT => Some (set_fl s (bt_flags a (ov mod sz) (x_fl s)))
              | _ => option_map (fun s0 => set_fl s0 (bt_flags a (ov mod sz) (x_fl s))) (wr_op sz dst (bt_result o a (ov mod sz)) s) end) = Some s' ->
  exists ops st', lift_bt m o sz dst src = Ok ops /\ opnd_mirrored m dst = true /\
    run_instr 600 (one_block addr ops) [(nx, None)] addr st = RunOk st' (Some nx) /\ emb m s' st' /\ wf m s'.
Proof.
  intros Hw He Hwd Hf Hod Hos Hnw Hra Hrs s' Hs'.
  assert (Hk: isreg dst = true \/ is_mem dst = true).
  { unfold bt_form_ok in Hf. apply orb_prop in Hf. destruct Hf as [H|H]; apply andb_prop in H; destruct H as [H _]; auto. }
  assert (Hsm: is_mem src = false).
  { unfold bt_form_ok in Hf. apply orb_prop in Hf. destruct Hf as [H|H]; apply andb_prop in H; destruct H as [_ H]; destruct src; try discriminate; reflexivity. }
  set (osz := bt_osz sz src) in *.
  assert (Hwo: width_ok osz) by (unfold osz, bt_osz; destruct src; try exact Hwd; left; reflexivity).
  assert (Hco: osz = 8 \/ osz = sz) by (unfold osz, bt_osz; destruct src; auto).
  assert (Hrs': rd_op osz src s = Some ov) by (destruct src; try discriminate Hsm; exact Hrs).
  assert (Hnc: opnd_nw osz src s) by (destruct src; try discriminate; exact I).
  destruct (read2 m sz osz dst src s st a ov Hw He Hod Hos (or_intror Hsm) Hwd Hwo Hnw Hnc Hra Hrs')
    as (pa & ea & pb & eb & st1 & Oa & Ob & Ma & _ & Nb & Ln & Ex1 & He1 & (Ba & Ha & Da & Ca & Ta) & (Bb & Hov & Db & Cb & Tb)).
  assert (W0: 0 <= sz) by (destruct Hwd as [->|[->|[->| ->]]]; lia).
  assert (Hs2: 1 < sz < 2 ^ sz) by (destruct Hwd as [->|[->|[->| ->]]]; pows; lia).
  destruct (clean_parts _ Ca) as (A0 & _ & _ & _ & A4). destruct (clean_parts _ Cb) as (B0 & _ & _ & _ & B4).
  (* the offset at the width of the base *)
  assert (Pre: exists pr offX stA, (if e_bits eb =? sz then Ok ([], eb) else z <- mk_ext Zext sz eb ;; Ok ([OAssign (temp_k 0 sz) z], EScalar (temp_k 0 sz))) = Ok (pr, offX) /\
            forallb is_assign pr = true /\ (length pr <= 1)%nat /\ exec_ops st1 pr = Ok stA /\ emb m s stA /\
            e_bits offX = sz /\ den (st_env stA) offX = Ok (mkc sz ov) /\ mentions kT1 offX = false /\ mentions kCF offX = false /\
            den (st_env stA) ea = Ok (mkc sz a) /\ st_mem stA = st_mem st1).
  { destruct (e_bits eb =? sz) eqn:Eb.
    - apply Z.eqb_eq in Eb. rewrite Bb in Eb. rewrite Eb in *. exists [], eb, st1. split; [reflexivity|]. split; [reflexivity|]. split; [cbn; lia|]. split; [reflexivity|]. split; [exact He1|]. split; [exact Bb|]. split; [exact Db|]. split; [exact Tb|]. split; [exact B4|]. split; [exact Da|reflexivity].
    - apply Z.eqb_neq in Eb. rewrite Bb in Eb. destruct Hco as [H8|H8]; [|congruence]. rewrite H8 in *.
      assert (Q: (sz <=? 8) || (8 =? 0) = false) by (destruct Hwd as [->|[->|[->| ->]]]; try congruence; reflexivity).
      assert (Q2: (sz <=? 8) = false) by (destruct Hwd as [->|[->|[->| ->]]]; try congruence; reflexivity).
      set (z := EExt Zext sz eb).
      assert (Mz: mk_ext Zext sz eb = Ok z) by (unfold mk_ext; rewrite Bb, Q; reflexivity).
      assert (Dz: den (st_env st1) z = Ok (mkc sz ov)) by (unfold z; cbn [den]; rewrite Db; cbn [bind]; unfold sp_ext; cbn [cbits cval]; rewrite Q2; reflexivity).
      set (stA := mkst (env_set (st_env st1) kT0 (mkc sz ov)) (st_mem st1)).
      exists [OAssign (temp_k 0 sz) z], (EScalar (temp_k 0 sz)), stA.
      split; [rewrite Mz; reflexivity|]. split; [reflexivity|]. split; [cbn; lia|].
      split; [cbn [exec_ops]; rewrite (exec_assign st1 _ _ _ Dz); reflexivity|].
      split; [apply emb_set_T0; exact He1|]. split; [reflexivity|].
      split; [apply (T0e_den _ sz ov); unfold stA; cbn [st_env]; apply env_get_set_same|]. split; [reflexivity|]. split; [reflexivity|].
      split; [|reflexivity]. unfold stA. cbn [st_env]. rewrite den_env_set by exact A0. exact Da. }
  destruct Pre as (pr & offX & stA & Epr & Apr & Lpr & Expr & HeA & Bo & Do & To1 & Toc & DaA & Hm1).
  set (bit := ov mod sz). assert (Hbit: 0 <= bit < sz) by (apply Z.mod_pos_bound; lia).
  assert (P2: 0 < 2 ^ bit < 2 ^ sz) by (split; [apply Z.pow_pos_nonneg; lia|apply Z.pow_lt_mono_r; lia]).
  set (off := EBin And offX (expr_const (sz - 1) sz)). set (sh := EBin Shr ea off).
  assert (Moff: mk_bin And offX (expr_const (sz - 1) sz) = Ok off) by (unfold mk_bin; rewrite Bo; cbn [e_bits expr_const new_big cbits]; rewrite Z.eqb_refl; reflexivity).
  assert (Boff: e_bits off = sz) by (unfold off; cbn [e_bits is_cmp]; exact Bo).
  assert (Msh: mk_bin Shr ea off = Ok sh) by (unfold mk_bin; rewrite Ba, Boff, Z.eqb_refl; reflexivity).
  assert (Doff: forall en, den en offX = Ok (mkc sz ov) -> den en off = Ok (mkc sz bit)).
  { intros en D. unfold off. rewrite den_bin, D, (const_den en (sz - 1) sz W0) by lia. cbn [bind]. unfold sp_bin_c. cbn [cbits cval]. rewrite Z.eqb_refl. cbn [negb sp_bin].
    unfold s_and. rewrite (land_size_mask sz ov Hwd). reflexivity. }
  assert (Qb: (sz <=? bit) = false) by (apply Z.leb_gt; lia).
  assert (Dsh: forall en, den en offX = Ok (mkc sz ov) -> den en ea = Ok (mkc sz a) -> den en sh = Ok (mkc sz (a / 2 ^ bit))).
  { intros en D1 D2. unfold sh. rewrite den_bin, D2, (Doff en D1). cbn [bind]. unfold sp_bin_c. cbn [cbits cval]. rewrite Z.eqb_refl. cbn [negb sp_bin]. unfold s_shr. rewrite Qb. reflexivity. }
  assert (Q1: (sz <=? 1) = false) by (apply Z.leb_gt; lia). assert (Q0: (sz =? 0) = false) by (apply Z.eqb_neq; lia).
  assert (Cfv: U 1 (a / 2 ^ bit) = X86.b2z (X86.bitb a bit)) by (unfold U, X86.bitb; change (2 ^ 1) with 2; rewrite b2z_odd; reflexivity).
  assert (Mtr: forall k, mk_ext Trun 1 (EScalar (temp_k k sz)) = Ok (EExt Trun 1 (EScalar (temp_k k sz)))) by (intros k; unfold mk_ext; cbn [e_bits temp_k sbits]; rewrite Q1, Q0; reflexivity).
  assert (KT01: kT0 <> kT1) by (intro E; inversion E). assert (KT0c: kT0 <> kCF) by (intro E; inversion E). assert (KT1c: kT1 <> kCF) by (intro E; inversion E).
  pose proof (Dsh _ Do DaA) as DshA.
  assert (Run: forall core sto st2 st3, forallb is_assign core = true -> core <> [] -> (length core <= 2)%nat -> exec_ops stA core = Ok st2 ->
             nobranch sto = true -> (length sto <= 1)%nat -> exec_ops st2 sto = Ok st3 ->
             run_instr 600 (one_block addr (pa ++ pb ++ pr ++ core ++ sto)) [(nx, None)] addr st = RunOk st3 (Some nx)).
  { intros core sto st2 st3 Ac Nc Lc Exc Ns Ls Exs. rewrite app_assoc.
    destruct core as [|c0 ct]; [congruence|].
    apply run_one_block_nb.
    - unfold nobranch in *. rewrite forallb_app, Nb. rewrite !forallb_app. pose proof (assign_nobranch _ Apr) as N1. pose proof (assign_nobranch _ Ac) as N2. unfold nobranch in N1, N2. rewrite N1, N2, Ns. reflexivity.
    - intros E. apply app_eq_nil in E. destruct E as [_ E]. apply app_eq_nil in E. destruct E as [_ E]. discriminate.
    - rewrite (app_length (pa ++ pb)), (app_length pr), (app_length (c0 :: ct)). lia.
    - rewrite (exec_ops_app (pa ++ pb) _ st st1 Ex1). rewrite (exec_ops_app pr _ st1 stA Expr). rewrite (exec_ops_app (c0 :: ct) _ stA st2 Exc). exact Exs. }
  destruct (is_bt_t o) eqn:Ot.
  - (* bt: t0 := base >> off; CF := trun(t0) *)
    destruct o; try discriminate Ot. clear Ot. inversion Hs'; subst s'.
    set (e1 := env_set (st_env stA) kT0 (mkc sz (a / 2 ^ bit))).
    set (c := EExt Trun 1 (EScalar (temp_k 0 sz))).
    assert (Dc: den e1 c = Ok (mkc 1 (X86.b2z (X86.bitb a bit)))).
    { unfold c. cbn [den]. change (skey_of (temp_k 0 sz)) with kT0. unfold e1. rewrite env_get_set_same. cbn [cbits temp_k sbits]. rewrite Z.eqb_refl. cbn [bind].
      unfold sp_ext. cbn [cbits cval]. rewrite Q1. unfold s_trun. rewrite Cfv. reflexivity. }
    set (st2 := mkst (env_set e1 kCF (mkc 1 (X86.b2z (X86.bitb a bit)))) (st_mem stA)).
    assert (Fk: forall k, k <> kT0 -> k <> kT1 -> k <> kCF -> env_get (st_env st2) k = env_get (st_env stA) k).
    { intros k K0 _ K2. unfold st2, e1. cbn [st_env]. rewrite !env_get_set_other by assumption. reflexivity. }
    assert (Gc: env_get (st_env st2) kCF = Some (mkc 1 (X86.b2z (X86.bitb a bit)))) by (unfold st2; cbn [st_env]; apply env_get_set_same).
    destruct (bt_flags_emb m s stA st2 a bit HeA Fk Gc) as (Fr & Fd & Ec & Ez & Es & Eo).
    destruct (emb_after_flags m s stA st2 (bt_flags a bit (x_fl s)) Hw HeA Fr Fd eq_refl eq_refl Ec Ez Es Eo) as (He2 & Hw2).
    exists (pa ++ pb ++ pr ++ [OAssign (temp_k 0 sz) sh; assign_flag X86Lift.n_CF c] ++ []), st2.
    split.
    { unfold lift_bt. change (match src with OImm _ => 8 | _ => sz end) with osz. rewrite Oa, Ob. cbn [bind fst snd]. rewrite Ba. rewrite Epr. cbn [bind fst snd]. rewrite Moff. cbn [bind]. rewrite Msh. cbn [bind].
      rewrite (Mtr 0). cbn [bind]. rewrite app_nil_r. reflexivity. }
    split; [exact Ma|]. split; [|split; [exact He2|exact Hw2]].
    apply (Run _ [] st2 st2); [reflexivity|discriminate|cbn; lia| |reflexivity|cbn; lia|reflexivity].
    cbn [exec_ops]. unfold assign_flag. rewrite (exec_assign stA _ _ _ DshA). cbn [bind fst st_env st_mem]. change (skey_of (temp_k 0 sz)) with kT0. fold e1.
    rewrite (exec_assign (mkst e1 _) _ _ _ Dc). reflexivity.
  - (* bts / btr / btc *)
    assert (Hs2': option_map (fun s0 => set_fl s0 (bt_flags a bit (x_fl s))) (wr_op sz dst (bt_result o a bit) s) = Some s') by (destruct o; try discriminate Ot; exact Hs').
    set (e1 := env_set (st_env stA) kT1 (mkc sz (a / 2 ^ bit))).
    set (c := EExt Trun 1 (EScalar (temp_k 1 sz))).
    assert (Dc: den e1 c = Ok (mkc 1 (X86.b2z (X86.bitb a bit)))).
    { unfold c. cbn [den]. change (skey_of (temp_k 1 sz)) with kT1. unfold e1. rewrite env_get_set_same. cbn [cbits temp_k sbits]. rewrite Z.eqb_refl. cbn [bind].
      unfold sp_ext. cbn [cbits cval]. rewrite Q1. unfold s_trun. rewrite Cfv. reflexivity. }
    set (st2 := mkst (env_set e1 kCF (mkc 1 (X86.b2z (X86.bitb a bit)))) (st_mem stA)).
    assert (Fk: forall k, k <> kT0 -> k <> kT1 -> k <> kCF -> env_get (st_env st2) k = env_get (st_env stA) k).
    { intros k _ K1 K2. unfold st2, e1. cbn [st_env]. rewrite !env_get_set_other by assumption. reflexivity. }
    assert (Gc: env_get (st_env st2) kCF = Some (mkc 1 (X86.b2z (X86.bitb a bit)))) by (unfold st2; cbn [st_env]; apply env_get_set_same).
    destruct (bt_flags_emb m s stA st2 a bit HeA Fk Gc) as (Fr & Fd & Ec & Ez & Es & Eo).
    assert (Do2: den (st_env st2) offX = Ok (mkc sz ov)) by (unfold st2, e1; cbn [st_env]; rewrite !den_env_set by assumption; exact Do).
    assert (Da2: den (st_env st2) ea = Ok (mkc sz a)) by (unfold st2, e1; cbn [st_env]; rewrite !den_env_set by assumption; exact DaA).
    set (one := EBin Shl (expr_const 1 sz) off).
    assert (Mone: mk_bin Shl (expr_const 1 sz) off = Ok one) by (unfold mk_bin; rewrite Boff; cbn [e_bits expr_const new_big cbits]; rewrite Z.eqb_refl; reflexivity).
    assert (Done: den (st_env st2) one = Ok (mkc sz (2 ^ bit))).
    { unfold one. rewrite den_bin, (const_den _ 1 sz W0) by lia. rewrite (Doff _ Do2). cbn [bind]. unfold sp_bin_c. cbn [cbits cval]. rewrite Z.eqb_refl. cbn [negb sp_bin].
      unfold s_shl, U. rewrite Qb. rewrite Z.mul_1_l, Z.mod_small by lia. reflexivity. }
    assert (Tb2: X86.bitb a bit = Z.testbit a bit) by (apply bitb_is_testbit; lia).
    assert (Ex: exists e, (match o with BtS => mk_bin Or ea one | BtR => x <- mk_bin Xor one (expr_const U64MAX sz) ;; mk_bin And ea x | _ => mk_bin Xor ea one end) = Ok e /\
                 e_bits e = sz /\ den (st_env st2) e = Ok (mkc sz (bt_result o a bit))).
    { assert (Bone: e_bits one = sz) by reflexivity.
      destruct o; try discriminate Ot; unfold bt_result; rewrite Tb2.
      - exists (EBin Or ea one). split; [unfold mk_bin; rewrite Ba, Bone, Z.eqb_refl; reflexivity|]. split; [cbn [e_bits is_cmp]; exact Ba|].
        rewrite den_bin, Da2, Done. cbn [bind]. unfold sp_bin_c. cbn [cbits cval]. rewrite Z.eqb_refl. cbn [negb sp_bin]. unfold s_or. rewrite (lor_bit a bit) by lia. reflexivity.
      - set (x := EBin Xor one (expr_const U64MAX sz)). exists (EBin And ea x).
        assert (Mx: mk_bin Xor one (expr_const U64MAX sz) = Ok x) by (unfold mk_bin; rewrite Bone; cbn [e_bits expr_const new_big cbits]; rewrite Z.eqb_refl; reflexivity).
        assert (Bx: e_bits x = sz) by reflexivity.
        split; [rewrite Mx; cbn [bind]; unfold mk_bin; rewrite Ba, Bx, Z.eqb_refl; reflexivity|]. split; [cbn [e_bits is_cmp]; exact Ba|].
        unfold x. rewrite !den_bin, Da2, Done, (u64max_const_den _ sz Hwd). cbn [bind]. unfold sp_bin_c. cbn [cbits cval]. rewrite !Z.eqb_refl. cbn [negb sp_bin bind cbits cval]. rewrite Z.eqb_refl. cbn [negb sp_bin].
        unfold s_and, s_xor. rewrite (land_nbit a bit sz) by lia. reflexivity.
      - exists (EBin Xor ea one). split; [unfold mk_bin; rewrite Ba, Bone, Z.eqb_refl; reflexivity|]. split; [cbn [e_bits is_cmp]; exact Ba|].
        rewrite den_bin, Da2, Done. cbn [bind]. unfold sp_bin_c. cbn [cbits cval]. rewrite Z.eqb_refl. cbn [negb sp_bin]. unfold s_xor. rewrite (lxor_bit a bit) by lia. reflexivity. }
    destruct Ex as (e & Me & Be & De).
    assert (Rr: 0 <= bt_result o a bit < 2 ^ sz).
    { assert (Tcase: Z.testbit a bit = true -> 2 ^ bit <= a).
      { intros T. destruct (Z.lt_ge_cases a (2 ^ bit)) as [L|L]; [|exact L]. rewrite <- (Z.mod_small a (2 ^ bit)) in T by lia. rewrite Z.mod_pow2_bits_high in T by lia. discriminate. }
      assert (Fcase: Z.testbit a bit = false -> a + 2 ^ bit < 2 ^ sz).
      { intros T. pose proof (lor_bit a bit ltac:(lia) ltac:(lia)) as L. rewrite T in L. rewrite <- L. apply lor_range; lia. }
      unfold bt_result. rewrite Tb2. destruct o; try discriminate Ot; destruct (Z.testbit a bit) eqn:T; try specialize (Tcase eq_refl); try specialize (Fcase eq_refl); lia. }
    destruct (write_operand m s stA st2 dst sz (bt_result o a bit) e (bt_flags a bit (x_fl s)) s' Hw HeA Hod Hk Hwd Hnw Rr Be De Fr Fd eq_refl eq_refl Ec Ez Es Eo Hs2')
      as (sto & st3 & Ost & Sne & Snb & Sln & Hex3 & Hemb & Hwf).
    exists (pa ++ pb ++ pr ++ [OAssign (temp_k 1 sz) sh; assign_flag X86Lift.n_CF c] ++ sto), st3.
    split.
    { unfold lift_bt. change (match src with OImm _ => 8 | _ => sz end) with osz. rewrite Oa, Ob. cbn [bind fst snd]. rewrite Ba. rewrite Epr. cbn [bind fst snd]. rewrite Moff. cbn [bind]. rewrite Msh. cbn [bind].
      destruct o; try discriminate Ot; rewrite (Mtr 1); cbn [bind]; rewrite Mone; cbn [bind]; fold one; rewrite Me; cbn [bind]; rewrite Ost; reflexivity. }
    split; [exact Ma|]. split; [|split; [exact Hemb|exact Hwf]].
    apply (Run _ sto st2 st3); [reflexivity|discriminate|cbn; lia| |exact Snb|exact Sln|exact Hex3].
    cbn [exec_ops]. unfold assign_flag. rewrite (exec_assign stA _ _ _ DshA). cbn [bind fst st_env st_mem]. change (skey_of (temp_k 1 sz)) with kT1. fold e1.
    rewrite (exec_assign (mkst e1 _) _ _ _ Dc). reflexivity.
Qed.

(* bt / bts / btr / btc  r, r | imm8   and   [m], imm8 *)
Theorem bt_sim m addr len (o : btop) sz dst src :
  width_ok sz -> bt_form_ok dst src = true -> opnd_ok m sz dst -> opnd_ok m (bt_osz sz src) src ->
  sim_when (opnd_nw sz dst) m addr len (IBt o sz dst src).
Proof.
  intros Hwd Hf Hod Hos s st s' ip Hw He Hnw Hstep.
  rewrite (bt_step m (addr + len) o sz dst src s Hf) in Hstep.
  destruct (rd_op sz src s) as [ov|] eqn:Hrs; [|discriminate]. destruct (rd_op sz dst s) as [a|] eqn:Hra; [|discriminate].
  assert (Hs': exists s2, (match o with BtT => Some (set_fl s (bt_flags a (ov mod sz) (x_fl s)))
                          | _ => option_map (fun s0 => set_fl s0 (bt_flags a (ov mod sz) (x_fl s))) (wr_op sz dst (bt_result o a (ov mod sz)) s) end) = Some s2 /\ s' = s2 /\ ip = addr + len).
  { destruct o; [eexists; split; [reflexivity|]; inversion Hstep; auto| | |];
      (destruct (option_map (fun s0 => set_fl s0 (bt_flags a (ov mod sz) (x_fl s))) (wr_op sz dst _ s)) as [s2|]; [|discriminate]; exists s2; split; [reflexivity|]; inversion Hstep; auto). }
  destruct Hs' as (s2 & Hs2 & -> & ->).
  destruct (bt_gen m addr (addr + len) o sz dst src s st a ov Hw He Hwd Hf Hod Hos Hnw Hra Hrs s2 Hs2) as (ops & st' & Hl & Md & Hrun & Hemb & Hwf).
  exists (one_block addr ops). split.
  - unfold mirror_instr. fold (bt_form_ok dst src). unfold bt_form_ok in Hf |- *.
    assert (Q: (isreg dst && regimm src) || (is_mem dst && opnd_mirrored m dst && match src with OImm _ => true | _ => false end) = true).
    { apply orb_prop in Hf. destruct Hf as [H|H]; [rewrite H; reflexivity|]. apply andb_prop in H. destruct H as [H1 H2]. rewrite H1, Md, H2. apply orb_true_r. }
    rewrite Q, Hl. reflexivity.
  - exists st'. auto.
Qed.
