(* Isa/X86SimBt.v -- round 7: bt / bts / btr / btc with a register or memory base and a register (register base only) or
   immediate bit offset: the offset is taken modulo the operand size.  (The bit-string form -- memory base, register
   offset -- is not covered here.) *)
From Coq Require Import ZArith List Bool NArith Lia ZifyBool.
From Falcon Require Import Base.Res IL.Const IL.ConstSpec IL.ConstProofs IL.Expr IL.ExprSpec IL.Func IL.Loc Exec.Sem.
From Falcon Require Import Isa.X86 Isa.X86Run Isa.X86Lift Isa.X86Mirror Isa.X86Proofs Isa.X86Sim Isa.C01Check Isa.X86Tie Isa.X86SimMem Isa.X86SimCarry Isa.X86SimMore Isa.X86SimXchg Isa.X86SimMul Isa.X86SimShift.
Import ListNotations.
Local Open Scope Z_scope.
Ltac Zify.zify_post_hook ::= Z.div_mod_to_equations.

(* ---------- setting / clearing / toggling one bit ---------- *)
Lemma pow2_bits n i : 0 <= n -> Z.testbit (2 ^ n) i = (i =? n).
Proof. intros Hn. destruct (Z.eqb_spec i n) as [->|N]; [apply Z.pow2_bits_true; exact Hn|apply Z.pow2_bits_false; lia]. Qed.

Lemma lor_bit a n : 0 <= n -> 0 <= a -> Z.lor a (2 ^ n) = if Z.testbit a n then a else a + 2 ^ n.
Proof.
  intros Hn Ha. destruct (Z.testbit a n) eqn:T.
  - apply Z.bits_inj'. intros i Hi. rewrite Z.lor_spec, pow2_bits by exact Hn. destruct (Z.eqb_spec i n) as [->|N]; [rewrite T; reflexivity|apply orb_false_r].
  - assert (L: Z.land a (2 ^ n) = 0).
    { apply Z.bits_inj'. intros i Hi. rewrite Z.land_spec, pow2_bits, Z.bits_0 by exact Hn. destruct (Z.eqb_spec i n) as [->|N]; [rewrite T; reflexivity|apply andb_false_r]. }
    rewrite (Z.add_nocarry_lxor _ _ L). symmetry. apply Z.lxor_lor. exact L.
Qed.
Lemma lxor_bit a n : 0 <= n -> 0 <= a -> Z.lxor a (2 ^ n) = if Z.testbit a n then a - 2 ^ n else a + 2 ^ n.
Proof.
  intros Hn Ha. destruct (Z.testbit a n) eqn:T.
  - assert (L: Z.land (a - 2 ^ n) (2 ^ n) = 0 /\ a - 2 ^ n = Z.lxor a (2 ^ n)).
    { assert (E: Z.lxor a (2 ^ n) = Z.ldiff a (2 ^ n)).
      { apply Z.bits_inj'. intros i Hi. rewrite Z.lxor_spec, Z.ldiff_spec, pow2_bits by exact Hn. destruct (Z.eqb_spec i n) as [->|N]; [rewrite T; reflexivity|rewrite xorb_false_r, andb_true_r; reflexivity]. }
      assert (D: Z.ldiff (2 ^ n) a = 0).
      { apply Z.bits_inj'. intros i Hi. rewrite Z.ldiff_spec, pow2_bits, Z.bits_0 by exact Hn. destruct (Z.eqb_spec i n) as [->|N]; [rewrite T; reflexivity|reflexivity]. }
      rewrite (Z.sub_nocarry_ldiff a (2 ^ n) D), E. split; [|reflexivity].
      apply Z.bits_inj'. intros i Hi. rewrite Z.land_spec, Z.ldiff_spec, pow2_bits, Z.bits_0 by exact Hn. destruct (Z.eqb_spec i n); [rewrite andb_false_r; reflexivity|apply andb_false_r]. }
    destruct L as (_ & L). symmetry. exact L.
  - assert (L: Z.land a (2 ^ n) = 0).
    { apply Z.bits_inj'. intros i Hi. rewrite Z.land_spec, pow2_bits, Z.bits_0 by exact Hn. destruct (Z.eqb_spec i n) as [->|N]; [rewrite T; reflexivity|apply andb_false_r]. }
    symmetry. apply Z.add_nocarry_lxor. exact L.
Qed.
Lemma land_nbit a n w : 0 <= n < w -> 0 <= a < 2 ^ w -> Z.land a (Z.lxor (2 ^ n) (2 ^ w - 1)) = if Z.testbit a n then a - 2 ^ n else a.
Proof.
  intros Hn Ha.
  assert (E: Z.land a (Z.lxor (2 ^ n) (2 ^ w - 1)) = Z.ldiff a (2 ^ n)).
  { replace (2 ^ w - 1) with (Z.ones w) by (rewrite Z.ones_equiv; lia).
    apply Z.bits_inj'. intros i Hi. rewrite Z.land_spec, Z.lxor_spec, Z.ldiff_spec, pow2_bits by lia. destruct (Z.ltb_spec i w).
    - rewrite Z.ones_spec_low by lia. rewrite xorb_true_r. reflexivity.
    - replace (Z.testbit a i) with false; [reflexivity|]. symmetry. rewrite <- (Z.mod_small a (2 ^ w)) by lia. apply Z.mod_pow2_bits_high. lia. }
  rewrite E. destruct (Z.testbit a n) eqn:T.
  - assert (D: Z.ldiff (2 ^ n) a = 0).
    { apply Z.bits_inj'. intros i Hi. rewrite Z.ldiff_spec, pow2_bits, Z.bits_0 by lia. destruct (Z.eqb_spec i n) as [->|N]; [rewrite T; reflexivity|reflexivity]. }
    symmetry. apply Z.sub_nocarry_ldiff. exact D.
  - apply Z.bits_inj'. intros i Hi. rewrite Z.ldiff_spec, pow2_bits by lia. destruct (Z.eqb_spec i n) as [->|N]; [rewrite T; reflexivity|apply andb_true_r].
Qed.
Lemma bitb_is_testbit a n : 0 <= n -> X86.bitb a n = Z.testbit a n.
Proof. intros Hn. unfold X86.bitb. rewrite <- Z.bit0_odd. apply Z.div_pow2_bits; lia. Qed.
