(* Isa/A64Branch2.v -- per-form correctness: B.cond (all sixteen conditions), CBZ/CBNZ, TBZ/TBNZ. [U] *)
From Coq Require Import ZArith List Bool NArith Lia ZifyBool.
From Falcon Require Import Base.Res IL.Const IL.ConstSpec IL.Expr IL.ExprSpec IL.Func IL.Loc Exec.Sem
     IL.ConstProofs IL.ExprProofs Isa.A64 Isa.A64Lift Isa.A64Run Isa.A64Proofs Isa.A64Sim Isa.A64Arith Isa.A64Branch.
Import ListNotations.
Local Open Scope Z_scope.
Ltac Zify.zify_post_hook ::= Z.div_mod_to_equations.

(* a two-way successor list whose guards denote b and (not b), after merge_successors: when both
   name the same address they are merged under the disjunction of the guards *)
Lemma enabled_two st a1 a2 t f (b : bool) :
  den (st_env st) t = Ok (mkc 1 (b2z b)) -> den (st_env st) f = Ok (mkc 1 (b2z (negb b))) ->
  e_bits t = 1 -> e_bits f = 1 ->
  enabled_succs (st_env st) (merge_successors [(a1, Some t); (a2, Some f)]) = Ok [if b then a1 else a2].
Proof.
  intros Ht Hf Bt Bf. unfold merge_successors. cbn [fold_left merge_into fst snd].
  destruct (Z.eqb_spec a1 a2) as [->|N].
  - rewrite mk_bin_ok by congruence. cbn [enabled_succs succ_enabled fst snd].
    rewrite (den_bin _ Or _ _ 1 _ _ Ht Hf). cbn [sp_bin bind cbits cval]. destruct b; reflexivity.
  - cbn [enabled_succs succ_enabled fst snd]. rewrite Ht, Hf. cbn [bind cbits cval].
    destruct b; reflexivity.
Qed.

(* ------------------------------------------------------------------ C6.2.27 B.cond *)
Lemma bcc_conds s st addr cond v : emb s st -> 0 <= cond < 14 ->
  exists t f, b_bcc addr cond [OLabel v] = Ok ([], [(U 64 v, Some t); (addr + 4, Some f)]) /\
    e_bits t = 1 /\ e_bits f = 1 /\
    den (st_env st) t = Ok (mkc 1 (b2z (ConditionHolds s cond))) /\
    den (st_env st) f = Ok (mkc 1 (b2z (negb (ConditionHolds s cond)))).
Proof.
  intros [_ _ Hn Hz Hc Hv _ _] Hcond. unfold key_n, key_z, key_c, key_v in *.
  assert (Hcases : cond = 0 \/ cond = 1 \/ cond = 2 \/ cond = 3 \/ cond = 4 \/ cond = 5 \/ cond = 6 \/ cond = 7 \/
                   cond = 8 \/ cond = 9 \/ cond = 10 \/ cond = 11 \/ cond = 12 \/ cond = 13) by lia.
  unfold ConditionHolds, b_bcc, nth_op. cbn [nth_error res_of_option bind]. rewrite const_target_label. cbn [bind].
  generalize (U 64 v) (addr + 4). intros dst nxt.
  Ltac bcc_case Hn Hz Hc Hv :=
    eexists; eexists; split; [vm_compute; reflexivity|];
    split; [reflexivity|]; split; [reflexivity|];
    split; cbn [den]; unfold skey_of; cbn [sname sssa sbits]; rewrite ?Hn, ?Hz, ?Hc, ?Hv;
    match goal with s : a64state |- _ => destruct (fN s), (fZ s), (fC s), (fV s) end; vm_compute; reflexivity.
  destruct Hcases as [-> | Hcases]; [bcc_case Hn Hz Hc Hv|].
  destruct Hcases as [-> | Hcases]; [bcc_case Hn Hz Hc Hv|].
  destruct Hcases as [-> | Hcases]; [bcc_case Hn Hz Hc Hv|].
  destruct Hcases as [-> | Hcases]; [bcc_case Hn Hz Hc Hv|].
  destruct Hcases as [-> | Hcases]; [bcc_case Hn Hz Hc Hv|].
  destruct Hcases as [-> | Hcases]; [bcc_case Hn Hz Hc Hv|].
  destruct Hcases as [-> | Hcases]; [bcc_case Hn Hz Hc Hv|].
  destruct Hcases as [-> | Hcases]; [bcc_case Hn Hz Hc Hv|].
  destruct Hcases as [-> | Hcases]; [bcc_case Hn Hz Hc Hv|].
  destruct Hcases as [-> | Hcases]; [bcc_case Hn Hz Hc Hv|].
  destruct Hcases as [-> | Hcases]; [bcc_case Hn Hz Hc Hv|].
  destruct Hcases as [-> | Hcases]; [bcc_case Hn Hz Hc Hv|].
  destruct Hcases as [-> | ->]; bcc_case Hn Hz Hc Hv.
Qed.

Theorem bcond_sim addr cond imm19 : 0 <= cond < 16 -> sim addr (IBCond cond imm19).
Proof.
  intros Hc s st ops succs s' Hw Hpc Ha He _ Hl Hs.
  cbn [a64step] in Hs.
  unfold lift in Hl. cbn [operands_of dispatch terminating] in Hl.
  assert (Hpcr : 0 <= apc s < 2 ^ 64) by (destruct Hw as (_ & _ & _ & H); exact H).
  destruct (Z_lt_ge_dec cond 14) as [Hlt | Hge].
  - destruct (bcc_conds s st addr cond (u64 (addr + sext_imm 21 (imm19 * 4))) He ltac:(lia)) as (t & f & B & Bt & Bf & Dt & Df).
    rewrite B in Hl. cbn [bind fst snd] in Hl. inversion Hl; subst ops succs; clear Hl.
    pose proof (enabled_two st (U 64 (u64 (addr + sext_imm 21 (imm19 * 4)))) (addr + 4) t f _ Dt Df Bt Bf) as En.
    exists st. destruct (ConditionHolds s cond); inversion Hs; subst s'; clear Hs.
    + split; [|apply emb_setPC; assumption]. rewrite (run_lifted_empty _ _ _ _ En).
      rewrite U64_u64. unfold setPC. cbn [apc]. rewrite Hpc. reflexivity.
    + split; [|apply emb_nextPC; assumption]. rewrite (run_lifted_empty _ _ _ _ En).
      rewrite apc_nextPC by lia. rewrite Hpc. reflexivity.
  - assert (Hcc : cond = 14 \/ cond = 15) by lia.
    assert (Hch : ConditionHolds s cond = true) by (destruct Hcc as [-> | ->]; reflexivity).
    rewrite Hch in Hs. inversion Hs; subst s'; clear Hs.
    assert (Hb : b_bcc addr cond [OLabel (u64 (addr + sext_imm 21 (imm19 * 4)))] = b_b [OLabel (u64 (addr + sext_imm 21 (imm19 * 4)))])
      by (destruct Hcc as [-> | ->]; reflexivity).
    rewrite Hb in Hl. unfold b_b, nth_op in Hl. cbn [nth_error res_of_option bind] in Hl.
    rewrite const_target_label in Hl. cbn [bind fst snd] in Hl. inversion Hl; subst ops succs; clear Hl.
    exists st. split; [|apply emb_setPC; assumption].
    rewrite U64_u64. apply run_lifted_empty. unfold setPC. cbn [apc]. rewrite Hpc. reflexivity.
Qed.

(* ------------------------------------------------------------------ C6.2.47 CBZ / C6.2.46 CBNZ *)
Lemma den_cmp0 en e w x : 0 <= w -> den en e = Ok (mkc w x) ->
  den en (EBin Cmpneq e (expr_const 0 w)) = Ok (mkc 1 (b2z (negb (x =? 0)))) /\
  den en (EBin Cmpeq e (expr_const 0 w)) = Ok (mkc 1 (b2z (x =? 0))).
Proof.
  intros Hw D. assert (D0 : den en (expr_const 0 w) = Ok (mkc w 0)).
  { rewrite den_const by assumption. unfold U. rewrite Z.mod_0_l by (pose proof (pow_pos w Hw); lia). reflexivity. }
  split; rewrite (den_bin _ _ _ _ _ _ _ D D0); cbn [sp_bin]; unfold s_cmpneq, s_cmpeq; destruct (x =? 0); reflexivity.
Qed.

Theorem cb_sim addr sf nz imm19 rt : 0 <= rt < 32 -> sim addr (ICB sf nz imm19 rt).
Proof.
  intros Ht s st ops succs s' Hw Hpc Ha He _ Hl Hs.
  cbn [a64step] in Hs.
  destruct (xzr_xsp_range sf rt Ht) as [Hr _].
  assert (Hpcr : 0 <= apc s < 2 ^ 64) by (destruct Hw as (_ & _ & _ & H); exact H).
  destruct (reg_get_den s st _ Hw He Hr) as (e & G & B & D).
  rewrite areg_val_zr in D by assumption. rewrite reg_bits_zr in D, B.
  assert (HN : 0 <= dsize sf) by (destruct sf; cbn; lia).
  destruct (den_cmp0 _ _ _ _ HN D) as [Dne Deq].
  unfold lift in Hl. cbn [operands_of] in Hl.
  assert (Hb : forall biz, b_cbtb addr biz false [OReg (xreg_zr sf rt); OLabel (u64 (addr + sext_imm 21 (imm19 * 4)))] =
      Ok ([], [(U 64 (u64 (addr + sext_imm 21 (imm19 * 4))),
                Some (if biz then EBin Cmpeq e (expr_const 0 (dsize sf)) else EBin Cmpneq e (expr_const 0 (dsize sf))));
               (addr + 4, Some (if biz then EBin Cmpneq e (expr_const 0 (dsize sf)) else EBin Cmpeq e (expr_const 0 (dsize sf))))])).
  { intros biz. unfold b_cbtb, nth_op. cbn [nth_error res_of_option bind]. rewrite const_target_label.
    cbn [bind operand_storing_width operand_load]. rewrite reg_bits_zr, G. cbn [bind].
    rewrite !mk_bin_ok by (rewrite B; reflexivity). cbn [unwrap bind]. destruct biz; reflexivity. }
  set (x := Xw s rt (dsize sf)) in *.
  destruct nz; cbn [dispatch terminating negb] in Hl, Hs; rewrite Hb in Hl; cbn [bind fst snd] in Hl;
    inversion Hl; subst ops succs; clear Hl; exists st.
  - (* CBNZ: branch when the operand is non-zero *)
    assert (Deq' : den (st_env st) (EBin Cmpeq e (expr_const 0 (dsize sf))) = Ok (mkc 1 (b2z (negb (negb (x =? 0))))))
      by (rewrite negb_involutive; exact Deq).
    pose proof (enabled_two st (U 64 (u64 (addr + sext_imm 21 (imm19 * 4)))) (addr + 4) _ _ (negb (x =? 0)) Dne Deq' eq_refl eq_refl) as En.
    destruct (x =? 0); cbn [Bool.eqb negb] in Hs, En; inversion Hs; subst s'; clear Hs.
    + split; [|apply emb_nextPC; assumption]. rewrite (run_lifted_empty _ _ _ _ En).
      rewrite apc_nextPC by lia. rewrite Hpc. reflexivity.
    + split; [|apply emb_setPC; assumption]. rewrite (run_lifted_empty _ _ _ _ En).
      rewrite U64_u64. unfold setPC. cbn [apc]. rewrite Hpc. reflexivity.
  - (* CBZ *)
    pose proof (enabled_two st (U 64 (u64 (addr + sext_imm 21 (imm19 * 4)))) (addr + 4) _ _ (x =? 0) Deq Dne eq_refl eq_refl) as En.
    destruct (x =? 0); cbn [Bool.eqb negb] in Hs, En; inversion Hs; subst s'; clear Hs.
    + split; [|apply emb_setPC; assumption]. rewrite (run_lifted_empty _ _ _ _ En).
      rewrite U64_u64. unfold setPC. cbn [apc]. rewrite Hpc. reflexivity.
    + split; [|apply emb_nextPC; assumption]. rewrite (run_lifted_empty _ _ _ _ En).
      rewrite apc_nextPC by lia. rewrite Hpc. reflexivity.
Qed.

(* ------------------------------------------------------------------ C6.2.375 TBZ / C6.2.374 TBNZ *)
Lemma land_pow2 x b : 0 <= b -> Z.land x (2 ^ b) = if Z.testbit x b then 2 ^ b else 0.
Proof.
  intros Hb. apply Z.bits_inj'. intros m Hm. rewrite Z.land_spec, Z.pow2_bits_eqb by assumption.
  destruct (Z.testbit x b) eqn:E.
  - rewrite Z.pow2_bits_eqb by assumption. destruct (Z.eqb_spec b m) as [->|N]; [rewrite E; reflexivity|apply andb_false_r].
  - rewrite Z.bits_0. destruct (Z.eqb_spec b m) as [->|N]; [rewrite E; reflexivity|apply andb_false_r].
Qed.
Lemma land_pow2_zero x b : 0 <= b -> (Z.land x (2 ^ b) =? 0) = negb (Z.testbit x b).
Proof.
  intros Hb. rewrite land_pow2 by assumption. pose proof (pow_pos b Hb).
  destruct (Z.testbit x b); cbn [negb]; [apply Z.eqb_neq; lia|reflexivity].
Qed.

Theorem tb_sim addr (b5 : bool) nz b40 imm14 rt : 0 <= b40 < 32 -> 0 <= rt < 32 -> sim addr (ITB b5 nz b40 imm14 rt).
Proof.
  intros Hb40 Ht s st ops succs s' Hw Hpc Ha He _ Hl Hs.
  cbn [a64step] in Hs.
  destruct (xzr_xsp_range b5 rt Ht) as [Hr _].
  assert (Hpcr : 0 <= apc s < 2 ^ 64) by (destruct Hw as (_ & _ & _ & H); exact H).
  destruct (reg_get_den s st _ Hw He Hr) as (e & G & B & D).
  rewrite areg_val_zr in D by assumption. rewrite reg_bits_zr in D, B.
  set (bit := (if b5 then 32 else 0) + b40) in *.
  assert (Hbit : 0 <= bit < dsize b5) by (subst bit; destruct b5; cbn [dsize]; lia).
  assert (HN : 0 <= dsize b5) by (destruct b5; cbn; lia).
  set (x := Xw s rt (dsize b5)) in *.
  set (masked := EBin And e (expr_const (2 ^ bit) (dsize b5))).
  assert (Dm : den (st_env st) masked = Ok (mkc (dsize b5) (Z.land x (2 ^ bit)))).
  { unfold masked. rewrite (den_bin _ And _ _ (dsize b5) x (U (dsize b5) (2 ^ bit)) D) by (apply den_const; assumption).
    cbn [sp_bin]. unfold s_and. rewrite U_small; [reflexivity|]. unfold inr. split; [apply Z.lt_le_incl, pow_pos; lia|apply pow_mono_lt; lia]. }
  destruct (den_cmp0 _ _ _ _ HN Dm) as [Dne Deq].
  rewrite land_pow2_zero in Dne, Deq by lia. rewrite negb_involutive in Dne.
  unfold lift in Hl. cbn [operands_of] in Hl. fold bit in Hl.
  assert (Hb : forall biz, b_cbtb addr biz true [OReg (xreg_zr b5 rt); OImm32 bit None; OLabel (u64 (addr + sext_imm 16 (imm14 * 4)))] =
      Ok ([], [(U 64 (u64 (addr + sext_imm 16 (imm14 * 4))),
                Some (if biz then EBin Cmpeq masked (expr_const 0 (dsize b5)) else EBin Cmpneq masked (expr_const 0 (dsize b5))));
               (addr + 4, Some (if biz then EBin Cmpneq masked (expr_const 0 (dsize b5)) else EBin Cmpeq masked (expr_const 0 (dsize b5))))])).
  { intros biz. unfold b_cbtb, nth_op. cbn [nth_error res_of_option bind]. rewrite const_target_label.
    cbn [bind operand_storing_width operand_load operand_imm_u64]. rewrite reg_bits_zr, G. cbn [bind].
    destruct (Z.leb_spec (dsize b5) bit) as [Hle|_]; [lia|].
    rewrite (mk_bin_ok And) by (rewrite B; reflexivity). cbn [unwrap bind]. fold masked.
    rewrite !mk_bin_ok by (unfold masked; cbn [e_bits is_cmp]; rewrite B; reflexivity). cbn [unwrap bind]. destruct biz; reflexivity. }
  destruct nz; cbn [dispatch terminating] in Hl; rewrite Hb in Hl; cbn [bind fst snd] in Hl;
    inversion Hl; subst ops succs; clear Hl; exists st.
  - (* TBNZ: branch when the bit is set *)
    pose proof (enabled_two st (U 64 (u64 (addr + sext_imm 16 (imm14 * 4)))) (addr + 4) _ _ (Z.testbit x bit) Dne Deq eq_refl eq_refl) as En.
    destruct (Z.testbit x bit); cbn [Bool.eqb] in Hs, En; inversion Hs; subst s'; clear Hs.
    + split; [|apply emb_setPC; assumption]. rewrite (run_lifted_empty _ _ _ _ En).
      rewrite U64_u64. unfold setPC. cbn [apc]. rewrite Hpc. reflexivity.
    + split; [|apply emb_nextPC; assumption]. rewrite (run_lifted_empty _ _ _ _ En).
      rewrite apc_nextPC by lia. rewrite Hpc. reflexivity.
  - (* TBZ *)
    assert (Dne' : den (st_env st) (EBin Cmpneq masked (expr_const 0 (dsize b5))) = Ok (mkc 1 (b2z (negb (negb (Z.testbit x bit))))))
      by (rewrite negb_involutive; exact Dne).
    pose proof (enabled_two st (U 64 (u64 (addr + sext_imm 16 (imm14 * 4)))) (addr + 4) _ _ (negb (Z.testbit x bit)) Deq Dne' eq_refl eq_refl) as En.
    destruct (Z.testbit x bit); cbn [Bool.eqb negb] in Hs, En; inversion Hs; subst s'; clear Hs.
    + split; [|apply emb_nextPC; assumption]. rewrite (run_lifted_empty _ _ _ _ En).
      rewrite apc_nextPC by lia. rewrite Hpc. reflexivity.
    + split; [|apply emb_setPC; assumption]. rewrite (run_lifted_empty _ _ _ _ En).
      rewrite U64_u64. unfold setPC. cbn [apc]. rewrite Hpc. reflexivity.
Qed.
