(* Isa/PpcLift.v -- Gallina MIRROR of lib/translator/ppc/semantics.rs and of the per-instruction part of
   lib/translator/ppc/mod.rs (translate_block on one instruction word), through the checked constructors.

   Scalars are interned by the harness in the fixed order r0..r31 = 0..31, lr = 32, ctr = 33, carry = 34,
   cr0-lt cr0-gt cr0-eq cr0-so ... cr7-so = 35..66, temporaries from 67.
   capstone's presentation is modelled where it decides the builder: addi/addis with RA = 0 are li/lis,
   `or rA,rS,rS` is mr, `ori 0,0,0` is nop, rlwinm/slwi share rlwinm_, mtspr/mfspr 8/9 are mtlr mflr mtctr,
   bclr 20,0 is blr, bcctr 20,0 is bctr.  None = no claim (the lifter rejects the form, or it is not mirrored). *)
From Coq Require Import ZArith List Bool NArith.
From Falcon Require Import Base.Res IL.Const IL.Expr IL.Func Isa.Ppc Isa.MipsLift.
Import ListNotations.
Local Open Scope Z_scope.

Definition P_LR : Z := 32.
Definition P_CTR : Z := 33.
Definition P_CA : Z := 34.
Definition P_CR0 : Z := 35.

Definition preg (r : Z) : scalar := mks (Z.to_N r) 32 None.
Definition pexp (r : Z) : expr := EScalar (preg r).
Definition crbit (i : Z) : scalar := mks (Z.to_N (P_CR0 + i)) 1 None.
Definition carry : scalar := mks (Z.to_N P_CA) 1 None.

(* rlwinm_: MASK(mb, me) as computed in Rust on u64 *)
Definition rust_mask (mb me : Z) : Z :=
  let from_mb := 4294967295 / 2 ^ mb in
  let to_me := (4294967295 * 2 ^ (31 - me)) mod 2 ^ 32 in
  if mb <=? me then Z.land from_mb to_me else Z.lor from_mb to_me.

Section PBuilders.
Variable addr : option Z.

Definition pb_add (rt ra rb : Z) : res cfg :=
  e <- mk_bin Add (pexp ra) (pexp rb) ;; Ok (single addr [OAssign (preg rt) e]).
Definition pb_subf (rt ra rb : Z) : res cfg :=
  n <- mk_bin Xor (pexp ra) (expr_const 4294967295 32) ;; s <- mk_bin Add n (pexp rb) ;;
  e <- mk_bin Add s (expr_const 1 32) ;; Ok (single addr [OAssign (preg rt) e]).
Definition pb_addi (rt ra immv : Z) : res cfg :=
  e <- mk_bin Add (pexp ra) (expr_const immv 32) ;; Ok (single addr [OAssign (preg rt) e]).
Definition pb_li (rt immv : Z) : res cfg := Ok (single addr [OAssign (preg rt) (expr_const immv 32)]).
Definition pb_lis (rt immv : Z) : res cfg :=
  e <- mk_bin Shl (expr_const immv 32) (expr_const 16 32) ;; Ok (single addr [OAssign (preg rt) e]).
Definition pb_addze (t : N) (rt ra : Z) : res cfg :=
  z <- mk_ext Zext 32 (EScalar carry) ;; s <- mk_bin Add (pexp ra) z ;;
  c <- mk_bin Cmpltu (EScalar (tmp t 32)) (pexp ra) ;;
  Ok (single addr [OAssign (tmp t 32) s; OAssign carry c; OAssign (preg rt) (EScalar (tmp t 32))]).
Definition pb_cmp (o : binop) (bf ra immv : Z) : res cfg :=
  let lhs := pexp ra in let rhs := expr_const immv 32 in
  lt <- mk_bin o lhs rhs ;; gt <- mk_bin o rhs lhs ;; eq <- mk_bin Cmpeq lhs rhs ;;
  Ok (single addr [OAssign (crbit (4 * bf)) lt; OAssign (crbit (4 * bf + 1)) gt; OAssign (crbit (4 * bf + 2)) eq]).
Definition pea (ra d : Z) : res expr := mk_bin Add (expr_const (cs_simm d) 32) (pexp ra).
Definition pb_lbz (t : N) (rt ra d : Z) : res cfg :=
  a <- pea ra d ;; z <- mk_ext Zext 32 (EScalar (tmp t 8)) ;;
  Ok (single addr [OLoad (tmp t 8) a; OAssign (preg rt) z]).
Definition pb_lwz (rt ra d : Z) : res cfg := a <- pea ra d ;; Ok (single addr [OLoad (preg rt) a]).
Definition pb_lwzu (rt ra d : Z) : res cfg := a <- pea ra d ;; Ok (single addr [OLoad (preg rt) a; OAssign (preg ra) a]).
Definition pb_stw (rs ra d : Z) : res cfg := a <- pea ra d ;; Ok (single addr [OStore a (pexp rs)]).
Definition pb_stwu (rs ra d : Z) : res cfg := a <- pea ra d ;; Ok (single addr [OStore a (pexp rs); OAssign (preg ra) a]).
(* stmw: registers rs..31, the offset is a Constant incremented by 4 (wrapping at 32 bits) *)
Fixpoint stmw_ops (n : nat) (r off ra : Z) : res (list operation) :=
  match n with
  | O => Ok []
  | Datatypes.S n =>
      if 31 <? r then Ok []
      else a <- mk_bin Add (EConst (new_big off 32)) (pexp ra) ;;
           rest <- stmw_ops n (r + 1) (cval (new_big (off + 4) 32)) ra ;;
           Ok (OStore a (pexp r) :: rest)
  end.
Definition pb_stmw (rs ra d : Z) : res cfg :=
  ops <- stmw_ops 32 rs (cval (new_big (cs_simm d) 32)) ra ;; Ok (single addr ops).
Definition pb_mr (ra rs : Z) : res cfg := Ok (single addr [OAssign (preg ra) (pexp rs)]).
Definition pb_rlwinm (ra rs sh mb me : Z) : res cfg :=
  r <- rotl (pexp rs) (expr_const sh 32) ;; e <- mk_bin And r (expr_const (rust_mask mb me) 32) ;;
  Ok (single addr [OAssign (preg ra) e]).
Definition pb_srawi (ra rs sh : Z) : res cfg :=
  let lhs := pexp rs in
  so <- mk_bin And lhs (expr_const (2 ^ (sh mod 32) - 1) 32) ;;
  neg <- mk_bin Cmplts lhs (expr_const 0 32) ;; nz <- mk_bin Cmpneq so (expr_const 0 32) ;;
  c <- mk_bin And neg nz ;; v <- sra lhs (expr_const sh 32) ;;
  Ok (single addr [OAssign carry c; OAssign (preg ra) v]).
Definition pb_mtspr (spr_scalar : Z) (rs : Z) : res cfg := Ok (single addr [OAssign (preg spr_scalar) (pexp rs)]).
Definition pb_mflr (rt : Z) : res cfg := Ok (single addr [OAssign (preg rt) (pexp P_LR)]).
Definition pb_bl (next target : Z) : res cfg :=
  Ok (single addr [OAssign (preg P_LR) (expr_const next 32); OBranch (expr_const target 32)]).
Definition pb_branch_masked (r : Z) : res cfg :=
  t <- mk_bin And (pexp r) (expr_const 4294967292 32) ;; Ok (single addr [OBranch t]).
End PBuilders.

Definition b_off (li : Z) : Z := (if li <? 2 ^ 23 then li else li - 2 ^ 24) * 4.

(* graph of one instruction and the successors of the one-instruction block; bool = the block ends here *)
Definition plift (i : pinstr) (a : Z) (ts : list N) : option (res cfg * list (Z * option expr)) :=
  let ad := Some a in
  let fall := [(a + 4, @None expr)] in
  match i with
  | PAdd rt ra rb => Some (pb_add ad rt ra rb, fall)
  | PSubf rt ra rb => Some (pb_subf ad rt ra rb, fall)
  | PAddze rt ra => Some (pb_addze ad (nthN ts 0) rt ra, fall)
  | PAddi rt ra si => Some (if ra =? 0 then pb_li ad rt (cs_simm si) else pb_addi ad rt ra (cs_simm si), fall)
  | PAddis rt ra si => Some (if ra =? 0 then pb_lis ad rt (cs_simm si) else pb_addi ad rt ra (cs_simm si * 2 ^ 16), fall)
  | PCmpwi bf ra si => if bf =? 0 then None else Some (pb_cmp ad Cmplts bf ra (cs_simm si), fall)
  | PCmplwi bf ra ui => if bf =? 0 then None else Some (pb_cmp ad Cmpltu bf ra ui, fall)
  | PLbz rt ra d => if ra =? 0 then None else Some (pb_lbz ad (nthN ts 0) rt ra d, fall)
  | PLwz rt ra d => if ra =? 0 then None else Some (pb_lwz ad rt ra d, fall)
  | PLwzu rt ra d => if ra =? 0 then None else Some (pb_lwzu ad rt ra d, fall)
  | PStw rs ra d => if ra =? 0 then None else Some (pb_stw ad rs ra d, fall)
  | PStwu rs ra d => if ra =? 0 then None else Some (pb_stwu ad rs ra d, fall)
  | PStmw rs ra d => if ra =? 0 then None else Some (pb_stmw ad rs ra d, fall)
  | POr ra rs rb => if rs =? rb then Some (pb_mr ad ra rs, fall) else None
  | POri ra rs ui => if (ra =? 0) && (rs =? 0) && (ui =? 0) then Some (b_nop ad, fall) else None
  | PRlwinm ra rs sh mb me => Some (pb_rlwinm ad ra rs sh mb me, fall)
  | PSrawi ra rs sh => Some (pb_srawi ad ra rs sh, fall)
  | PMtspr spr rs => if spr =? 8 then Some (pb_mtspr ad P_LR rs, fall) else if spr =? 9 then Some (pb_mtspr ad P_CTR rs, fall) else None
  | PMfspr rt spr => if spr =? 8 then Some (pb_mflr ad rt, fall) else None
  | PB li aa lk =>
      if aa =? 1 then None
      else if lk =? 1 then Some (pb_bl ad (a + 4) ((a + b_off li) mod 2 ^ 32), fall)
      else Some (b_nop ad, [((a + b_off li) mod 2 ^ 64, None)])
  | PBclr bo bi lk => if (bo =? 20) && (bi =? 0) && (lk =? 0) then Some (pb_branch_masked ad P_LR, []) else None
  | PBcctr bo bi lk => if (bo =? 20) && (bi =? 0) && (lk =? 0) then Some (pb_branch_masked ad P_CTR, []) else None
  | PBc _ _ _ _ _ => None
  end.

Definition pmirror_block (addr : Z) (w : Z) (temps : list (list N)) : option mlifted :=
  match Ppc.decode w with
  | Some i =>
      match plift i addr (nth 0 temps []) with
      | Some (Ok g, succs) => Some ([(addr, g)], merge_succs succs)
      | _ => None
      end
  | None => None
  end.

(* ---------- which forms have a correctness theorem (Isa/PpcProofs.v) and the field ranges it assumes;
   evaluated by the tie for every enumerated encoding ---------- *)
Definition pproved (i : pinstr) : bool := match i with PStmw _ _ _ => false | _ => true end.
Definition prb (r : Z) : bool := (0 <=? r) && (r <=? 31).
Definition pib (x : Z) : bool := (0 <=? x) && (x <? 2 ^ 16).
Definition pfields_okb (i : pinstr) : bool :=
  match i with
  | PAdd rt ra rb | PSubf rt ra rb | POr rt ra rb => prb rt && prb ra && prb rb
  | PAddze rt ra => prb rt && prb ra
  | PAddi rt ra x | PAddis rt ra x | PLbz rt ra x | PLwz rt ra x | PLwzu rt ra x | PStw rt ra x | PStwu rt ra x => prb rt && prb ra && pib x
  | PCmpwi bf ra x | PCmplwi bf ra x => (0 <=? bf) && (bf <=? 7) && prb ra && pib x
  | PRlwinm ra rs sh mb me => prb ra && prb rs && prb sh && prb mb && prb me
  | PSrawi ra rs sh => prb ra && prb rs && prb sh
  | PMtspr _ r | PMfspr r _ => prb r
  | PB li _ _ => (0 <=? li) && (li <? 2 ^ 24)
  | _ => true
  end.
Definition pcase_okb (a w : Z) (ts : list N) : bool :=
  (0 <=? a) && (a + 4 <? 2 ^ 32) &&
  match Ppc.decode w with
  | Some i => pfields_okb i && (match i with PAddze _ _ | PLbz _ _ _ => 1 <=? Z.of_nat (length ts) | _ => true end) &&
              (match i with PB li _ _ => (0 <=? a + b_off li) && (a + b_off li <? 2 ^ 32) | _ => true end)
  | None => true
  end.
