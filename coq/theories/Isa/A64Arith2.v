(* Isa/A64Arith2.v -- per-form correctness: add/sub (shifted register, LSL / LSR) without flags,
   MOV (register) = ORR alias, MOV (wide immediate) = MOVZ alias, MOV (inverted wide immediate) = MOVN alias. *)
From Coq Require Import ZArith List Bool NArith Lia ZifyBool.
From Falcon Require Import Base.Res IL.Const IL.ConstSpec IL.Expr IL.ExprSpec IL.Func IL.Loc Exec.Sem
     IL.ConstProofs IL.ExprProofs Isa.A64 Isa.A64Lift Isa.A64Run Isa.A64Proofs Isa.A64Sim Isa.A64Arith.
Import ListNotations.
Local Open Scope Z_scope.
Ltac Zify.zify_post_hook ::= Z.div_mod_to_equations.

(* a register shifted by a constant amount below the width: LSL and LSR *)
Lemma loads_shiftreg_lsl s r a : wf s -> areg_ok r -> 0 <= a < reg_bits r ->
  loads s (OShiftReg r (BLSL a)) (reg_bits r) (reg_bits r) (U (reg_bits r) (areg_val s r * 2 ^ a)).
Proof.
  intros Hw Hr Ha st He. cbn [operand_load].
  destruct (reg_get_den s st r Hw He Hr) as (e & G & B & D). rewrite G. cbn [bind shift_]. unfold lsl_.
  rewrite mk_bin_ok by (rewrite B; reflexivity). cbn [unwrap].
  eexists; split; [reflexivity|]. split; [exact B|].
  rewrite (den_bin _ Shl _ _ (reg_bits r) (areg_val s r) (U (reg_bits r) a) D)
    by (apply den_const; destruct (reg_bits_cases r) as [-> | ->]; lia).
  cbn [sp_bin]. unfold s_shl. f_equal. f_equal.
  destruct (reg_bits_cases r) as [E | E]; rewrite E in *; unfold U;
    rewrite (Z.mod_small a) by lia;
    match goal with |- context [?x <=? a] => destruct (Z.leb_spec x a) end; try lia; reflexivity.
Qed.
Lemma loads_shiftreg_lsr s r a : wf s -> areg_ok r -> 0 <= a < reg_bits r ->
  loads s (OShiftReg r (BLSR a)) (reg_bits r) (reg_bits r) (areg_val s r / 2 ^ a).
Proof.
  intros Hw Hr Ha st He. cbn [operand_load].
  destruct (reg_get_den s st r Hw He Hr) as (e & G & B & D). rewrite G. cbn [bind shift_]. unfold lsr_.
  rewrite mk_bin_ok by (rewrite B; reflexivity). cbn [unwrap].
  eexists; split; [reflexivity|]. split; [exact B|].
  rewrite (den_bin _ Shr _ _ (reg_bits r) (areg_val s r) (U (reg_bits r) a) D)
    by (apply den_const; destruct (reg_bits_cases r) as [-> | ->]; lia).
  cbn [sp_bin]. unfold s_shr. f_equal. f_equal.
  destruct (reg_bits_cases r) as [E | E]; rewrite E in *; unfold U;
    rewrite (Z.mod_small a) by lia;
    match goal with |- context [?x <=? a] => destruct (Z.leb_spec x a) end; try lia; reflexivity.
Qed.

Definition lsl_or_lsr (k : shiftk) : Prop := k = SLSL \/ k = SLSR.

Lemma loads_shifted_reg s sf rm k a : wf s -> 0 <= rm < 32 -> 0 <= a < dsize sf -> lsl_or_lsr k ->
  loads s (shifted_reg sf rm k a) (dsize sf) (dsize sf) (shift_val (dsize sf) k (Xw s rm (dsize sf)) a).
Proof.
  intros Hw Hm Ha Hk.
  destruct (xzr_xsp_range sf rm Hm) as [Hr _].
  pose proof (reg_bits_zr sf rm) as Hb. pose proof (areg_val_zr s sf rm Hw) as Hv.
  assert (Hrange : 0 <= Xw s rm (dsize sf) < 2 ^ dsize sf) by (unfold Xw; apply Z.mod_pos_bound; destruct sf; cbn; lia).
  destruct Hk as [-> | ->]; cbn [shifted_reg shift_val bshift_of].
  - destruct (Z.eqb_spec a 0) as [-> | Na].
    + change (2 ^ 0) with 1. rewrite Z.mul_1_r, Z.mod_small by assumption.
      rewrite <- Hv, <- Hb. apply loads_reg; assumption.
    + rewrite <- Hv, <- Hb. apply loads_shiftreg_lsl; try assumption. rewrite Hb; assumption.
  - rewrite <- Hv, <- Hb. apply loads_shiftreg_lsr; try assumption. rewrite Hb; assumption.
Qed.

(* ------------------------------------------------------------------ C6.2.5 ADD / C6.2.358 SUB (shifted register), LSL and LSR *)
Theorem addsub_shift_sim addr sf sub k rm imm6 rn rd :
  lsl_or_lsr k -> 0 <= imm6 < dsize sf -> 0 <= rm < 32 -> 0 <= rn < 32 -> 0 <= rd < 32 ->
  sim addr (IAddSubShift sf sub false k rm imm6 rn rd).
Proof.
  intros Hk Hi Hm Hn Hd s st ops succs s' Hw Hpc Ha He _ Hl Hs.
  destruct (xzr_xsp_range sf rd Hd) as [Hrd _]. destruct (xzr_xsp_range sf rn Hn) as [Hrn _].
  assert (HN : dsize sf = 64 \/ dsize sf = 32) by (destruct sf; cbn; auto).
  cbn [a64step] in Hs. unfold finish_addsub in Hs.
  destruct (addsub (dsize sf) sub (Xw s rn (dsize sf)) (shift_val (dsize sf) k (Xw s rm (dsize sf)) imm6))
    as [res [[[fn_ fz_] fc_] fv_]] eqn:Eres.
  cbn [andb negb] in Hs. inversion Hs; subst s'; clear Hs.
  assert (Hop1 : 0 <= Xw s rn (dsize sf) < 2 ^ dsize sf) by (unfold Xw; apply Z.mod_pos_bound; destruct sf; cbn; lia).
  assert (Hopm : 0 <= Xw s rm (dsize sf) < 2 ^ dsize sf) by (unfold Xw; apply Z.mod_pos_bound; destruct sf; cbn; lia).
  assert (Hop2 : 0 <= shift_val (dsize sf) k (Xw s rm (dsize sf)) imm6 < 2 ^ dsize sf).
  { destruct Hk as [-> | ->]; cbn [shift_val].
    - apply Z.mod_pos_bound; destruct sf; cbn; lia.
    - split; [apply Z.div_pos; [lia|apply pow_pos; lia]|].
      apply Z.le_lt_trans with (Xw s rm (dsize sf)); [|lia].
      apply Z.div_le_upper_bound; [apply pow_pos; lia|]. pose proof (pow_pos imm6 ltac:(lia)). nia. }
  pose proof (addsub_result (dsize sf) sub _ _ HN Hop1 Hop2) as Hres. rewrite Eres in Hres. cbn [fst] in Hres.
  unfold lift in Hl. cbn [operands_of andb] in Hl. cbv iota in Hl.
  destruct (sub && (rn =? 31)) eqn:Eneg.
  - (* NEG: not accepted *) cbn [dispatch bind] in Hl. discriminate.
  - assert (L1 : loads s (OReg (xreg_zr sf rn)) (reg_bits (xreg_zr sf rd)) (reg_bits (xreg_zr sf rd)) (Xw s rn (dsize sf))).
    { rewrite <- areg_val_zr by assumption. rewrite (reg_bits_zr sf rd), <- (reg_bits_zr sf rn). apply loads_reg; assumption. }
    assert (L2 : loads s (shifted_reg sf rm k imm6) (reg_bits (xreg_zr sf rd)) (reg_bits (xreg_zr sf rd))
                       (shift_val (dsize sf) k (Xw s rm (dsize sf)) imm6)).
    { rewrite reg_bits_zr. apply loads_shifted_reg; assumption. }
    destruct (b_addsub_sim (if sub then ASub else AAdd) s st _ _ _ _ _ Hw He Hrd L1 L2) as (op & st' & B1 & B2 & B3).
    rewrite areg_write_zr, reg_bits_zr, <- Hres in B3.
    destruct sub; cbn [dispatch terminating fst snd bind] in Hl; rewrite B1 in Hl; cbn [bind fst snd] in Hl;
      inversion Hl; subst ops succs; clear Hl;
      (apply (finish_fall addr s st _ op st'); try assumption; apply apc_setX).
Qed.

(* ------------------------------------------------------------------ C6.2.220 MOV (register) : ORR Rd, ZR, Rm *)
Theorem mov_reg_sim addr sf rm rd : 0 <= rm < 32 -> 0 <= rd < 32 ->
  sim addr (IOrrShift sf SLSL rm 0 31 rd).
Proof.
  intros Hm Hd s st ops succs s' Hw Hpc Ha He _ Hl Hs.
  destruct (xzr_xsp_range sf rd Hd) as [Hrd _]. destruct (xzr_xsp_range sf rm Hm) as [Hrm _].
  cbn [a64step] in Hs. inversion Hs; subst s'; clear Hs.
  assert (Hopm : 0 <= Xw s rm (dsize sf) < 2 ^ dsize sf) by (unfold Xw; apply Z.mod_pos_bound; destruct sf; cbn; lia).
  replace ((Xw s rm (dsize sf) * 1) mod 2 ^ dsize sf) with (Xw s rm (dsize sf))
    by (rewrite Z.mul_1_r, Z.mod_small by assumption; reflexivity).
  unfold lift in Hl. cbn [operands_of] in Hl. change (0 =? 0) with true in Hl. change (31 =? 31) with true in Hl.
  cbn [andb dispatch terminating fst snd bind] in Hl.
  assert (L1 : loads s (OReg (xreg_zr sf rm)) (reg_bits (xreg_zr sf rd)) (reg_bits (xreg_zr sf rd)) (Xw s rm (dsize sf))).
  { rewrite <- areg_val_zr by assumption. rewrite (reg_bits_zr sf rd), <- (reg_bits_zr sf rm). apply loads_reg; assumption. }
  destruct (b_mov_sim s st _ _ _ Hw He Hrd L1) as (op & st' & B1 & B2 & B3).
  rewrite B1 in Hl. cbn [bind fst snd] in Hl. inversion Hl; subst ops succs; clear Hl.
  rewrite areg_write_zr in B3.
  apply (finish_fall addr s st _ op st'); try assumption. apply apc_setX.
Qed.

(* ------------------------------------------------------------------ C6.2.227 MOVZ / C6.2.226 MOVN through their MOV aliases *)
Theorem mov_wide_sim addr (sf : bool) opc hw imm16 rd :
  (opc = 0 \/ opc = 2) -> 0 <= hw < (if sf then 4 else 2) -> 0 <= imm16 < 65536 -> 0 <= rd < 32 ->
  sim addr (IMovWide sf opc hw imm16 rd).
Proof.
  intros Hopc Hhw Hi Hd s st ops succs s' Hw Hpc Ha He _ Hl Hs.
  destruct (xzr_xsp_range sf rd Hd) as [Hrd _].
  assert (Hpos : 0 <= imm16 * 2 ^ (hw * 16) < 2 ^ dsize sf).
  { destruct sf; cbv iota in Hhw; cbn [dsize].
    - assert (hw = 0 \/ hw = 1 \/ hw = 2 \/ hw = 3) as [-> | [-> | [-> | ->]]] by lia; cbn [Z.mul Pos.mul]; lia.
    - assert (hw = 0 \/ hw = 1) as [-> | ->] by lia; cbn [Z.mul Pos.mul]; lia. }
  unfold lift in Hl. cbn [operands_of] in Hl.
  cbn [a64step] in Hs.
  destruct Hopc as [-> | ->].
  - (* MOVN *)
    change (0 =? 3) with false in Hs. change (0 =? 0) with true in Hs. cbv iota in Hs. inversion Hs; subst s'; clear Hs.
    change (0 =? 2) with false in Hl. change (0 =? 0) with true in Hl. cbv iota in Hl.
    destruct (negb ((imm16 =? 0) && negb (hw =? 0)) && (sf || negb (imm16 =? 65535))) eqn:Eal.
    + cbn [dispatch terminating fst snd bind] in Hl.
      assert (L1 : loads s (imm_opnd sf (NOT (dsize sf) (imm16 * 2 ^ (hw * 16))) None)
                         (reg_bits (xreg_zr sf rd)) (reg_bits (xreg_zr sf rd)) (NOT (dsize sf) (imm16 * 2 ^ (hw * 16)))).
      { rewrite reg_bits_zr. unfold imm_opnd, NOT. destruct sf; cbn [dsize] in *.
        - replace (2 ^ 64 - 1 - imm16 * 2 ^ (hw * 16)) with (U 64 (2 ^ 64 - 1 - imm16 * 2 ^ (hw * 16))) at 2 by (unfold U; apply Z.mod_small; lia).
          apply loads_imm64.
        - replace (2 ^ 32 - 1 - imm16 * 2 ^ (hw * 16)) with (U 32 (2 ^ 32 - 1 - imm16 * 2 ^ (hw * 16))) at 2 by (unfold U; apply Z.mod_small; lia).
          apply loads_imm32. }
      destruct (b_mov_sim s st _ _ _ Hw He Hrd L1) as (op & st' & B1 & B2 & B3).
      rewrite B1 in Hl. cbn [bind fst snd] in Hl. inversion Hl; subst ops succs; clear Hl.
      rewrite areg_write_zr in B3.
      apply (finish_fall addr s st _ op st'); try assumption. apply apc_setX.
    + cbn [dispatch bind] in Hl. discriminate.
  - (* MOVZ *)
    change (2 =? 3) with false in Hs. change (2 =? 0) with false in Hs. cbv iota in Hs. inversion Hs; subst s'; clear Hs.
    change (2 =? 2) with true in Hl. cbv iota in Hl.
    destruct (negb ((imm16 =? 0) && negb (hw =? 0))) eqn:Eal.
    + cbn [dispatch terminating fst snd bind] in Hl.
      assert (L1 : loads s (imm_opnd sf (imm16 * 2 ^ (hw * 16)) None)
                         (reg_bits (xreg_zr sf rd)) (reg_bits (xreg_zr sf rd)) (imm16 * 2 ^ (hw * 16))).
      { rewrite reg_bits_zr. unfold imm_opnd. destruct sf; cbn [dsize] in *.
        - replace (imm16 * 2 ^ (hw * 16)) with (U 64 (imm16 * 2 ^ (hw * 16))) at 2 by (unfold U; apply Z.mod_small; lia).
          apply loads_imm64.
        - replace (imm16 * 2 ^ (hw * 16)) with (U 32 (imm16 * 2 ^ (hw * 16))) at 2 by (unfold U; apply Z.mod_small; lia).
          apply loads_imm32. }
      destruct (b_mov_sim s st _ _ _ Hw He Hrd L1) as (op & st' & B1 & B2 & B3).
      rewrite B1 in Hl. cbn [bind fst snd] in Hl. inversion Hl; subst ops succs; clear Hl.
      rewrite areg_write_zr in B3.
      apply (finish_fall addr s st _ op st'); try assumption. apply apc_setX.
    + cbn [dispatch bind] in Hl. discriminate.
Qed.
