(* Isa/X86SimRot.v -- round 7: rol / ror (imm8, cl, implicit 1; register and memory destinations). *)
From Coq Require Import ZArith List Bool NArith Lia ZifyBool.
From Falcon Require Import Base.Res IL.Const IL.ConstSpec IL.ConstProofs IL.Expr IL.ExprSpec IL.Func IL.Loc Exec.Sem.
From Falcon Require Import Isa.X86 Isa.X86Run Isa.X86Lift Isa.X86Mirror Isa.X86Proofs Isa.X86Sim Isa.C01Check Isa.X86Tie Isa.X86SimMem Isa.X86SimCarry Isa.X86SimMore Isa.X86SimXchg Isa.X86SimMul Isa.X86SimShift.
Import ListNotations.
Local Open Scope Z_scope.
Ltac Zify.zify_post_hook ::= Z.div_mod_to_equations.

(* ---------- arithmetic: the two halves of a rotation do not overlap ---------- *)
Lemma lor_rot sz a j : 0 < j < sz -> 0 <= a < 2 ^ sz ->
  Z.lor (U sz (a * 2 ^ j)) (a / 2 ^ (sz - j)) = U sz (a * 2 ^ j) + a / 2 ^ (sz - j) /\
  0 <= U sz (a * 2 ^ j) + a / 2 ^ (sz - j) < 2 ^ sz.
Proof.
  intros Hj Ha.
  assert (P: 2 ^ sz = 2 ^ (sz - j) * 2 ^ j) by (rewrite <- Z.pow_add_r by lia; f_equal; lia).
  assert (Pj: 0 < 2 ^ j) by (apply Z.pow_pos_nonneg; lia). assert (Ps: 0 < 2 ^ (sz - j)) by (apply Z.pow_pos_nonneg; lia).
  assert (Ex: U sz (a * 2 ^ j) = (a mod 2 ^ (sz - j)) * 2 ^ j) by (unfold U; rewrite P; apply Z.mul_mod_distr_r; lia).
  set (x := a mod 2 ^ (sz - j)) in *. assert (Hx: 0 <= x < 2 ^ (sz - j)) by (apply Z.mod_pos_bound; exact Ps).
  set (y := a / 2 ^ (sz - j)). assert (Hy: 0 <= y < 2 ^ j) by (unfold y; split; [apply Z.div_pos; lia|apply Z.div_lt_upper_bound; lia]).
  rewrite Ex. split; [|nia].
  assert (L0: Z.land (x * 2 ^ j) y = 0).
  { apply Z.bits_inj'. intros i Hi. rewrite Z.land_spec, Z.bits_0. destruct (Z.ltb_spec i j).
    - rewrite Z.mul_pow2_bits_low by lia. reflexivity.
    - replace (Z.testbit y i) with false; [apply andb_false_r|]. symmetry. rewrite <- (Z.mod_small y (2 ^ j)) by lia. apply Z.mod_pow2_bits_high. lia. }
  rewrite (Z.add_nocarry_lxor _ _ L0). symmetry. apply Z.lxor_lor. exact L0.
Qed.

Definition rot_il (isl : bool) (sz a k : Z) : Z :=
  if isl then Z.lor (s_shl sz a k) (s_shr sz a (U sz (sz - k))) else Z.lor (s_shr sz a k) (s_shl sz a (U sz (sz - k))).
Definition rot_spec_r (isl : bool) (sz a k : Z) : Z :=
  if k =? 0 then a else if isl then U sz (a * 2 ^ k) + a / 2 ^ (sz - k) else a / 2 ^ k + U sz (a * 2 ^ (sz - k)).

Lemma rot_il_spec isl sz a k : width_ok sz -> 0 <= a < 2 ^ sz -> 0 <= k < sz ->
  rot_il isl sz a k = rot_spec_r isl sz a k /\ 0 <= rot_spec_r isl sz a k < 2 ^ sz.
Proof.
  intros Hw Ha Hk.
  assert (Hs: sz < 2 ^ sz) by (destruct Hw as [->|[->|[->| ->]]]; pows; lia).
  unfold rot_il, rot_spec_r. destruct (k =? 0) eqn:E0.
  - apply Z.eqb_eq in E0. subst k. rewrite Z.sub_0_r. unfold U at 1 2. rewrite (Z.mod_small sz) by lia.
    assert (Q0: (sz <=? 0) = false) by (apply Z.leb_gt; lia).
    unfold s_shl, s_shr. rewrite Z.leb_refl, Q0. change (2 ^ 0) with 1. rewrite Z.mul_1_r, Z.div_1_r. unfold U. rewrite Z.mod_small by lia.
    split; [destruct isl; [apply Z.lor_0_r|apply Z.lor_0_r]|exact Ha].
  - apply Z.eqb_neq in E0. assert (Uk: U sz (sz - k) = sz - k) by (unfold U; apply Z.mod_small; lia). rewrite Uk.
    unfold s_shl, s_shr. replace (sz <=? k) with false by (symmetry; apply Z.leb_gt; lia). replace (sz <=? sz - k) with false by (symmetry; apply Z.leb_gt; lia).
    destruct isl.
    + apply (lor_rot sz a k); lia.
    + destruct (lor_rot sz a (sz - k) ltac:(lia) Ha) as (L & R). replace (sz - (sz - k)) with k in L, R by lia.
      rewrite Z.lor_comm, L. split; lia.
Qed.

Lemma land_size_mask sz c : width_ok sz -> Z.land c (sz - 1) = c mod sz.
Proof.
  intros [->|[->|[->| ->]]]; [change (8 - 1) with (Z.ones 3)|change (16 - 1) with (Z.ones 4)|change (32 - 1) with (Z.ones 5)|change (64 - 1) with (Z.ones 6)];
    rewrite Z.land_ones by lia; reflexivity.
Qed.

(* the specification of rol / ror in terms of the IL values *)
Lemma rot_spec (isl : bool) sz a cv f : width_ok sz -> 0 <= a < 2 ^ sz ->
  let c := cv mod cmask sz in let r := rot_spec_r isl sz a (c mod sz) in
  (c = 0 /\ shift (if isl then SRol else SRor) sz a cv f = (a, f)) \/
  (c <> 0 /\ exists f', shift (if isl then SRol else SRor) sz a cv f = (r, f') /\
     f_cf f' = FB (if isl then Z.odd r else X86.msb sz r) /\
     flag_ok (f_of f') (if isl then Z.lxor (X86.b2z (X86.msb sz r)) (U 1 r) else Z.lxor (X86.b2z (X86.msb sz r)) (U 1 (s_shr sz r (sz - 2)))) /\
     f_zf f' = f_zf f /\ f_sf f' = f_sf f /\ f_df f' = f_df f).
Proof.
  intros Hw Ha c r.
  assert (S2: 2 <= sz) by (destruct Hw as [->|[->|[->| ->]]]; lia).
  unfold shift. fold c. destruct (c =? 0) eqn:E0; [left; split; [apply Z.eqb_eq; exact E0|destruct isl; reflexivity]|right].
  apply Z.eqb_neq in E0. split; [exact E0|].
  assert (Q2: (sz <=? sz - 2) = false) by (apply Z.leb_gt; lia).
  destruct isl; (eexists; split; [reflexivity|]); cbn [fl_of fl_cf f_cf f_of f_zf f_sf f_df]; fold r.
  - split; [reflexivity|]. split; [|repeat split]. destruct (c =? 1); cbn [flag_ok]; [|exact I].
    unfold U. change (2 ^ 1) with 2. rewrite <- b2z_odd, lxor_b2z. reflexivity.
  - split; [reflexivity|]. split; [|repeat split]. destruct (c =? 1); cbn [flag_ok]; [|exact I].
    unfold s_shr, U. rewrite Q2. change (2 ^ 1) with 2. unfold X86.bitb. rewrite <- b2z_odd, lxor_b2z. reflexivity.
Qed.

(* ---------- the expressions of the builder ---------- *)
Lemma rot_exprs (isl : bool) sz ea ce : width_ok sz -> e_bits ea = sz -> e_bits ce = sz -> clean ea = true -> clean ce = true ->
  exists rot oth x y res cf of,
    mk_bin And ce (expr_const (sz - 1) sz) = Ok rot /\ mk_bin Sub (expr_const sz sz) rot = Ok oth /\
    mk_bin (if isl then Shl else Shr) ea rot = Ok x /\ mk_bin (if isl then Shr else Shl) ea oth = Ok y /\ mk_bin Or x y = Ok res /\
    (if isl then mk_ext Trun 1 res = Ok cf /\ (ms <- msb_expr res ;; mk_bin Xor ms cf) = Ok of
     else msb_expr res = Ok cf /\ (sh <- mk_bin Shr res (expr_const (sz - 2) sz) ;; sec <- mk_ext Trun 1 sh ;; mk_bin Xor cf sec) = Ok of) /\
    e_bits res = sz /\ e_bits cf = 1 /\ e_bits of = 1 /\ clean res = true /\ clean cf = true /\ clean of = true /\
    forall en a c, 0 <= a < 2 ^ sz -> 0 <= c < 2 ^ sz -> den en ea = Ok (mkc sz a) -> den en ce = Ok (mkc sz c) ->
      let r := rot_il isl sz a (c mod sz) in
      0 <= r < 2 ^ sz /\ den en res = Ok (mkc sz r) /\
      den en cf = Ok (mkc 1 (if isl then U 1 r else X86.b2z (X86.msb sz r))) /\
      den en of = Ok (mkc 1 (if isl then Z.lxor (X86.b2z (X86.msb sz r)) (U 1 r) else Z.lxor (X86.b2z (X86.msb sz r)) (U 1 (s_shr sz r (sz - 2))))).
Proof.
  intros Hw Ba Bc Ca Cc.
  assert (W0: 0 <= sz) by (destruct Hw as [->|[->|[->| ->]]]; lia).
  assert (Hs: 2 <= sz < 2 ^ sz) by (destruct Hw as [->|[->|[->| ->]]]; pows; lia).
  assert (Q1: (sz <=? 1) = false) by (destruct Hw as [->|[->|[->| ->]]]; reflexivity).
  assert (Q0: (sz =? 0) = false) by (destruct Hw as [->|[->|[->| ->]]]; reflexivity).
  set (rot := EBin And ce (expr_const (sz - 1) sz)). set (oth := EBin Sub (expr_const sz sz) rot).
  set (x := EBin (if isl then Shl else Shr) ea rot). set (y := EBin (if isl then Shr else Shl) ea oth). set (res := EBin Or x y).
  assert (Brot: e_bits rot = sz) by (unfold rot; cbn [e_bits is_cmp]; exact Bc).
  assert (Both: e_bits oth = sz) by reflexivity.
  assert (Bx: e_bits x = sz) by (unfold x; destruct isl; cbn [e_bits is_cmp]; exact Ba).
  assert (By: e_bits y = sz) by (unfold y; destruct isl; cbn [e_bits is_cmp]; exact Ba).
  assert (Bres: e_bits res = sz) by (unfold res; cbn [e_bits is_cmp]; exact Bx).
  assert (Crot: clean rot = true) by (apply clean_bin; [exact Cc|reflexivity]).
  assert (Coth: clean oth = true) by (apply clean_bin; [reflexivity|exact Crot]).
  assert (Cx: clean x = true) by (apply clean_bin; assumption). assert (Cy: clean y = true) by (apply clean_bin; assumption).
  assert (Cres: clean res = true) by (apply clean_bin; assumption).
  assert (E1: mk_bin And ce (expr_const (sz - 1) sz) = Ok rot) by (unfold mk_bin; rewrite Bc; cbn [e_bits expr_const new_big cbits]; rewrite Z.eqb_refl; reflexivity).
  assert (E2: mk_bin Sub (expr_const sz sz) rot = Ok oth) by (unfold mk_bin; rewrite Brot; cbn [e_bits expr_const new_big cbits]; rewrite Z.eqb_refl; reflexivity).
  assert (E3: mk_bin (if isl then Shl else Shr) ea rot = Ok x) by (unfold mk_bin; rewrite Ba, Brot, Z.eqb_refl; reflexivity).
  assert (E4: mk_bin (if isl then Shr else Shl) ea oth = Ok y) by (unfold mk_bin; rewrite Ba, Both, Z.eqb_refl; reflexivity).
  assert (E5: mk_bin Or x y = Ok res) by (unfold mk_bin; rewrite Bx, By, Z.eqb_refl; reflexivity).
  assert (Dres: forall en a c, 0 <= a < 2 ^ sz -> 0 <= c < 2 ^ sz -> den en ea = Ok (mkc sz a) -> den en ce = Ok (mkc sz c) ->
                den en res = Ok (mkc sz (rot_il isl sz a (c mod sz)))).
  { intros en a c Ha Hc Da Dc.
    assert (Drot: den en rot = Ok (mkc sz (c mod sz))).
    { unfold rot. rewrite den_bin, Dc, (const_den en (sz - 1) sz W0) by lia. cbn [bind]. unfold sp_bin_c. cbn [cbits cval]. rewrite Z.eqb_refl. cbn [negb sp_bin].
      unfold s_and. rewrite (land_size_mask sz c Hw). reflexivity. }
    assert (Doth: den en oth = Ok (mkc sz (U sz (sz - c mod sz)))).
    { unfold oth. rewrite den_bin, Drot, (const_den en sz sz W0) by lia. cbn [bind]. unfold sp_bin_c. cbn [cbits cval]. rewrite Z.eqb_refl. reflexivity. }
    unfold res, x, y, rot_il. rewrite !den_bin, Da, Drot, Doth. cbn [bind]. unfold sp_bin_c. cbn [cbits cval]. rewrite !Z.eqb_refl.
    destruct isl; cbn [negb sp_bin bind cbits cval]; rewrite ?Z.eqb_refl; reflexivity. }
  assert (Rr: forall a c, 0 <= a < 2 ^ sz -> 0 <= rot_il isl sz a (c mod sz) < 2 ^ sz).
  { intros a c Ha. assert (Hk: 0 <= c mod sz < sz) by (apply Z.mod_pos_bound; lia).
    destruct (rot_il_spec isl sz a (c mod sz) Hw Ha Hk) as (E & R). rewrite E. exact R. }
  assert (Dtr: forall en e0 v, e_bits e0 = sz -> den en e0 = Ok (mkc sz v) -> den en (EExt Trun 1 e0) = Ok (mkc 1 (U 1 v))).
  { intros en e0 v Bx0 Dx. cbn [den]. rewrite Dx. cbn [bind]. unfold sp_ext. cbn [cbits cval]. rewrite Q1. reflexivity. }
  assert (Etr: forall e0, e_bits e0 = sz -> mk_ext Trun 1 e0 = Ok (EExt Trun 1 e0)) by (intros e0 Bx0; unfold mk_ext; rewrite Bx0, Q1, Q0; reflexivity).
  destruct (msb_expr_all sz res Hw Bres) as (Em & Bm & Cm & Dm). set (ms := EExt Trun 1 (EBin Shr res (expr_const (sz - 1) sz))) in *.
  destruct isl.
  - set (cf := EExt Trun 1 res). set (of := EBin Xor ms cf).
    exists rot, oth, x, y, res, cf, of.
    split; [exact E1|]. split; [exact E2|]. split; [exact E3|]. split; [exact E4|]. split; [exact E5|].
    split; [split; [apply Etr; exact Bres|rewrite Em; cbn [bind]; unfold mk_bin; rewrite Bm; reflexivity]|].
    split; [exact Bres|]. split; [reflexivity|]. split; [reflexivity|]. split; [exact Cres|]. split; [apply clean_ext; exact Cres|].
    split; [apply clean_bin; [exact (Cm Cres)|apply clean_ext; exact Cres]|].
    intros en a c Ha Hc Da Dc. cbv zeta. pose proof (Dres en a c Ha Hc Da Dc) as DR. pose proof (Rr a c Ha) as RR.
    split; [exact RR|]. split; [exact DR|]. split; [exact (Dtr en res _ Bres DR)|].
    unfold of, cf. rewrite den_bin, (Dm en _ RR DR), (Dtr en res _ Bres DR). reflexivity.
  - set (sh := EBin Shr res (expr_const (sz - 2) sz)). set (sec := EExt Trun 1 sh). set (of := EBin Xor ms sec).
    assert (Bsh: e_bits sh = sz) by (unfold sh; cbn [e_bits is_cmp]; exact Bres).
    exists rot, oth, x, y, res, ms, of.
    split; [exact E1|]. split; [exact E2|]. split; [exact E3|]. split; [exact E4|]. split; [exact E5|].
    split; [split; [exact Em|]|].
    { assert (Es: mk_bin Shr res (expr_const (sz - 2) sz) = Ok sh) by (unfold mk_bin; rewrite Bres; cbn [e_bits expr_const new_big cbits]; rewrite Z.eqb_refl; reflexivity).
      rewrite Es. cbn [bind]. rewrite (Etr sh Bsh). cbn [bind]. unfold mk_bin. rewrite Bm. reflexivity. }
    split; [exact Bres|]. split; [exact Bm|]. split; [reflexivity|]. split; [exact Cres|]. split; [exact (Cm Cres)|].
    split; [apply clean_bin; [exact (Cm Cres)|apply clean_ext; apply clean_bin; [exact Cres|reflexivity]]|].
    intros en a c Ha Hc Da Dc. cbv zeta. pose proof (Dres en a c Ha Hc Da Dc) as DR. pose proof (Rr a c Ha) as RR.
    split; [exact RR|]. split; [exact DR|]. split; [exact (Dm en _ RR DR)|].
    assert (Dsh: den en sh = Ok (mkc sz (s_shr sz (rot_il false sz a (c mod sz)) (sz - 2)))).
    { unfold sh. rewrite den_bin, DR, (const_den en (sz - 2) sz W0) by lia. cbn [bind]. unfold sp_bin_c. cbn [cbits cval]. rewrite Z.eqb_refl. reflexivity. }
    unfold of, sec. rewrite den_bin, (Dm en _ RR DR), (Dtr en sh _ Bsh Dsh). reflexivity.
Qed.

Definition rot_op (isl : bool) : shop := if isl then SRol else SRor.

Lemma rot_gen m addr nx (isl : bool) sz csz dst cnt s st a cv s' :
  wf m s -> emb m s st -> width_ok sz -> width_ok csz -> csz = 8 \/ csz = sz ->
  opnd_ok m sz dst -> isreg dst = true \/ is_mem dst = true -> opnd_ok m csz cnt -> is_mem cnt = false ->
  opnd_nw sz dst s -> rd_op sz dst s = Some a -> rd_op csz cnt s = Some cv ->
  (let '(r, f') := shift (rot_op isl) sz a cv (x_fl s) in option_map (fun s0 => set_fl s0 f') (wr_op sz dst r s)) = Some s' ->
  exists ops st', lift_rot m isl sz csz dst cnt = Ok ops /\ opnd_mirrored m dst = true /\
    run_instr 600 (one_block addr ops) [(nx, None)] addr st = RunOk st' (Some nx) /\ emb m s' st' /\ wf m s'.
Proof.
  intros Hw He Hwd Hwc Hcs Hod Hk Hoc Hcm Hnw Hra Hrc Hs'.
  assert (Hnc: opnd_nw csz cnt s) by (destruct cnt; try discriminate; exact I).
  destruct (read2 m sz csz dst cnt s st a cv Hw He Hod Hoc (or_intror Hcm) Hwd Hwc Hnw Hnc Hra Hrc)
    as (pa & ea & pb & eb & st1 & Oa & Ob & Ma & _ & Nb & Ln & Ex1 & He1 & (Ba & Ha & Da & Ca & _) & (Bb & Hcv & Db & Cb & _)).
  destruct (masked_count_ok (st_env st1) sz csz eb cv Hwd Hcs Bb Hcv Db) as (ce & Emc & Bce & Dce & Cce). specialize (Cce Cb).
  set (c := cv mod cmask sz) in *.
  assert (Hc: 0 <= c < 64) by (unfold c, cmask; destruct (sz =? 64); [apply Z.mod_pos_bound; lia|pose proof (Z.mod_pos_bound cv 32 ltac:(lia)); lia]).
  assert (Hc2: 0 <= c < 2 ^ sz) by (destruct Hwd as [->|[->|[->| ->]]]; pows; lia).
  assert (S0: 0 < sz) by (destruct Hwd as [->|[->|[->| ->]]]; lia).
  destruct (rot_exprs isl sz ea ce Hwd Ba Bce Ca Cce)
    as (rot & oth & x & y & res & cf & of & E1 & E2 & E3 & E4 & E5 & E6 & Bres & Bcf & Bof & Cres & Ccf & Cof & DEN).
  set (en0 := st_env st1) in *.
  destruct (DEN en0 a c Ha Hc2 Da Dce) as (Rr & Dres0 & Dcf0 & Dof0).
  set (k := c mod sz) in *. assert (Hk2: 0 <= k < sz) by (apply Z.mod_pos_bound; lia).
  destruct (rot_il_spec isl sz a k Hwd Ha Hk2) as (Eil & _).
  set (r := rot_il isl sz a k) in *.
  destruct (emb_flag_value _ _ _ (emb_cf _ _ _ He1)) as (oc & Gc & Fc). destruct (emb_flag_value _ _ _ (emb_of _ _ _ He1)) as (oo & Go & Fo).
  fold en0 in Gc, Go.
  destruct (fuz_exec st1 X86Lift.n_CF ce sz c cf _ oc Hwd Bce Dce Bcf Dcf0 Gc) as (i1 & F1 & X1).
  set (v1 := mkc 1 (if c =? 0 then oc else (if isl then U 1 r else X86.b2z (X86.msb sz r)))) in *. change (X86Lift.n_CF, @None N) with kCF in X1. fold en0 in X1.
  set (sa := mkst (env_set en0 kCF v1) (st_mem st1)) in *.
  assert (D1c: den (st_env sa) ce = Ok (mkc sz c)) by (unfold sa; cbn [st_env]; rewrite den_set_flag by auto; exact Dce).
  assert (D1o: den (st_env sa) of = Ok (mkc 1 (if isl then Z.lxor (X86.b2z (X86.msb sz r)) (U 1 r) else Z.lxor (X86.b2z (X86.msb sz r)) (U 1 (s_shr sz r (sz - 2))))))
    by (unfold sa; cbn [st_env]; rewrite den_set_flag by auto; exact Dof0).
  assert (G1o: env_get (st_env sa) (X86Lift.n_OF, None) = Some (mkc 1 oo)).
  { unfold sa. cbn [st_env]. rewrite env_get_set_other by (flagkeys; congruence). exact Go. }
  destruct (fuz_exec sa X86Lift.n_OF ce sz c of _ oo Hwd Bce D1c Bof D1o G1o) as (i2 & F2 & X2).
  set (v2 := mkc 1 (if c =? 0 then oo else (if isl then Z.lxor (X86.b2z (X86.msb sz r)) (U 1 r) else Z.lxor (X86.b2z (X86.msb sz r)) (U 1 (s_shr sz r (sz - 2)))))) in *.
  change (X86Lift.n_OF, @None N) with kOF in X2.
  set (st2 := mkst (env_set (st_env sa) kOF v2) (st_mem sa)) in *.
  assert (En2: st_env st2 = env_set (env_set en0 kCF v1) kOF v2) by reflexivity.
  assert (D2r: den (st_env st2) res = Ok (mkc sz r)) by (rewrite En2, !den_set_flag by auto; exact Dres0).
  assert (Fk: forall k0, k0 <> kCF -> k0 <> kOF -> env_get (st_env st2) k0 = env_get en0 k0).
  { intros k0 K1 K2. rewrite En2. rewrite !env_get_set_other by assumption. reflexivity. }
  assert (Fr: forall r0, 0 <= r0 < ngpr m -> env_get (st_env st2) (gpr_name m r0, None) = env_get (st_env st1) (gpr_name m r0, None)).
  { intros r0 Hr0. destruct (reg_key_facts m r0 Hr0) as (_ & _ & _ & K3 & K4 & _). apply Fk; assumption. }
  assert (Fd: env_get (st_env st2) kDF = env_get (st_env st1) kDF) by (apply Fk; flagkeys; congruence).
  assert (G2c: env_get (st_env st2) kCF = Some v1) by (rewrite En2; rewrite env_get_set_other by (flagkeys; congruence); apply env_get_set_same).
  assert (G2o: env_get (st_env st2) kOF = Some v2) by (rewrite En2; apply env_get_set_same).
  assert (Ezs: forall f0, emb_flag f0 (st_env st1) kZF -> emb_flag f0 (st_env st2) kZF).
  { intros f0 H. unfold emb_flag in *. destruct f0; [rewrite Fk by (flagkeys; congruence); exact H|destruct H as [v0 H]; exists v0; rewrite Fk by (flagkeys; congruence); exact H]. }
  assert (Ess: forall f0, emb_flag f0 (st_env st1) kSF -> emb_flag f0 (st_env st2) kSF).
  { intros f0 H. unfold emb_flag in *. destruct f0; [rewrite Fk by (flagkeys; congruence); exact H|destruct H as [v0 H]; exists v0; rewrite Fk by (flagkeys; congruence); exact H]. }
  assert (Fin: exists fl', (let '(r0, f') := shift (rot_op isl) sz a cv (x_fl s) in option_map (fun s0 => set_fl s0 f') (wr_op sz dst r0 s))
                            = option_map (fun s0 => set_fl s0 fl') (wr_op sz dst r s) /\ f_df fl' = f_df (x_fl s) /\
                 emb_flag (f_cf fl') (st_env st2) kCF /\ emb_flag (f_zf fl') (st_env st2) kZF /\
                 emb_flag (f_sf fl') (st_env st2) kSF /\ emb_flag (f_of fl') (st_env st2) kOF).
  { destruct (rot_spec isl sz a cv (x_fl s) Hwd Ha) as [(C0 & Sp)|(C0 & f' & Sp & Kc & Ko & Kz & Ks & Kd)]; fold c in C0; unfold rot_op.
    - exists (x_fl s). rewrite Sp.
      assert (Ra: r = a). { rewrite Eil. unfold rot_spec_r, k. rewrite C0. rewrite Z.mod_0_l by lia. reflexivity. }
      rewrite Ra. split; [reflexivity|]. split; [reflexivity|]. unfold v1, v2 in *. rewrite C0 in *. cbn [Z.eqb] in *.
      split; [apply (emb_flag_of_value _ _ _ oc G2c Fc)|]. split; [apply Ezs; apply (emb_zf _ _ _ He1)|].
      split; [apply Ess; apply (emb_sf _ _ _ He1)|apply (emb_flag_of_value _ _ _ oo G2o Fo)].
    - exists f'. rewrite Sp. fold c k. rewrite <- Eil. fold r. split; [reflexivity|]. split; [exact Kd|].
      assert (E0: (c =? 0) = false) by (apply Z.eqb_neq; exact C0).
      fold c k in Kc, Ko. rewrite <- Eil in Kc, Ko. fold r in Kc, Ko.
      unfold v1, v2 in *. rewrite E0 in *. rewrite Kc, Kz, Ks.
      split.
      { cbn [emb_flag]. rewrite G2c. destruct isl; [unfold U; change (2 ^ 1) with 2; rewrite <- b2z_odd; reflexivity|reflexivity]. }
      split; [apply Ezs; apply (emb_zf _ _ _ He1)|]. split; [apply Ess; apply (emb_sf _ _ _ He1)|].
      apply (emb_flag_of_value _ _ _ _ G2o). destruct isl; exact Ko. }
  destruct Fin as (fl' & Hsp & Hdf & Ec & Ez & Es & Eo). rewrite Hsp in Hs'.
  destruct (write_operand m s st1 st2 dst sz r res fl' s' Hw He1 Hod Hk Hwd Hnw Rr Bres D2r Fr Fd eq_refl Hdf Ec Ez Es Eo Hs')
    as (sto & st3 & Ost & Sne & Snb & Sln & Hex3 & Hemb & Hwf).
  set (fl2 := [assign_flag X86Lift.n_CF i1; assign_flag X86Lift.n_OF i2]).
  exists (pa ++ pb ++ fl2 ++ sto), st3.
  split.
  { unfold lift_rot. rewrite Oa, Ob. cbn [bind fst snd]. rewrite Ba, Emc. cbn [bind]. rewrite E1. cbn [bind]. rewrite E2. cbn [bind].
    rewrite E3. cbn [bind]. rewrite E4. cbn [bind]. rewrite E5. cbn [bind].
    destruct isl; destruct E6 as (E6a & E6b).
    - rewrite E6a. cbn [bind]. rewrite F1. cbn [bind].
      revert E6b. destruct (msb_expr res) as [ms| |]; cbn [bind]; try discriminate. intros E6b. rewrite E6b. cbn [bind]. rewrite F2. cbn [bind]. rewrite Ost. reflexivity.
    - rewrite E6a. cbn [bind]. rewrite F1. cbn [bind].
      revert E6b. destruct (mk_bin Shr res (expr_const (sz - 2) sz)) as [sh| |]; cbn [bind]; try discriminate.
      destruct (mk_ext Trun 1 sh) as [sec| |]; cbn [bind]; try discriminate. intros E6b. rewrite E6b. cbn [bind]. rewrite F2. cbn [bind]. rewrite Ost. reflexivity. }
  split; [exact Ma|]. split; [|split; [exact Hemb|exact Hwf]].
  rewrite app_assoc. apply run_one_block_nb.
  - unfold nobranch in *. rewrite forallb_app, Nb. rewrite forallb_app, Snb. reflexivity.
  - intros E. apply app_eq_nil in E. destruct E as [_ E]. apply app_eq_nil in E. destruct E as [E _]. discriminate.
  - rewrite (app_length (pa ++ pb)), (app_length fl2). unfold fl2. cbn [length]. lia.
  - rewrite (exec_ops_app (pa ++ pb) _ st st1 Ex1).
    assert (X12: exec_ops st1 fl2 = Ok st2).
    { unfold fl2. change [assign_flag X86Lift.n_CF i1; assign_flag X86Lift.n_OF i2] with ([assign_flag X86Lift.n_CF i1] ++ [assign_flag X86Lift.n_OF i2]).
      rewrite (exec_ops_app _ _ st1 sa X1). exact X2. }
    rewrite (exec_ops_app fl2 _ st1 st2 X12). exact Hex3.
Qed.

(* rol / ror r/m, imm8 | cl *)
Theorem rot_sim m addr len (isl : bool) sz dst cnt :
  width_ok sz -> opnd_ok m sz dst -> isreg dst = true \/ is_mem dst = true -> opnd_ok m 8 cnt -> is_mem cnt = false ->
  sim_when (opnd_nw sz dst) m addr len (IShift (rot_op isl) sz dst cnt).
Proof.
  intros Hwd Hod Hk Hoc Hcm s st s' ip Hw He Hnw Hstep.
  unfold step in Hstep. destruct (rd_op sz dst s) as [a|] eqn:Hra; [|discriminate]. destruct (rd_op 8 cnt s) as [cv|] eqn:Hrc; [|discriminate].
  destruct (shift (rot_op isl) sz a cv (x_fl s)) as [r f'] eqn:Hsh.
  destruct (option_map (fun s0 => set_fl s0 f') (wr_op sz dst r s)) as [s2|] eqn:Hwr; [|discriminate]. inversion Hstep; subst s' ip.
  assert (Hs': (let '(r0, f0) := shift (rot_op isl) sz a cv (x_fl s) in option_map (fun s0 => set_fl s0 f0) (wr_op sz dst r0 s)) = Some s2) by (rewrite Hsh; exact Hwr).
  destruct (rot_gen m addr (addr + len) isl sz 8 dst cnt s st a cv s2 Hw He Hwd (or_introl eq_refl) (or_introl eq_refl) Hod Hk Hoc Hcm Hnw Hra Hrc Hs')
    as (ops & st' & Hl & Md & Hrun & Hemb & Hwf).
  exists (one_block addr ops). split.
  - unfold mirror_instr. assert (Rc: regimm cnt = true) by (destruct cnt; try discriminate; reflexivity). rewrite Md, Rc.
    destruct Hk as [Hk|Hk]; rewrite Hk; [|rewrite orb_true_r]; cbn [orb andb]; destruct isl; cbn [rot_op lift_shift_any option_map]; rewrite Hl; reflexivity.
  - exists st'. auto.
Qed.

(* rol / ror r/m, 1 (D0 / D1) *)
Theorem rot1_sim m addr len (isl : bool) sz dst :
  width_ok sz -> opnd_ok m sz dst -> isreg dst = true \/ is_mem dst = true ->
  sim_when (opnd_nw sz dst) m addr len (IShift1 (rot_op isl) sz dst).
Proof.
  intros Hwd Hod Hk s st s' ip Hw He Hnw Hstep.
  unfold step in Hstep. destruct (rd_op sz dst s) as [a|] eqn:Hra; [|discriminate].
  destruct (shift (rot_op isl) sz a 1 (x_fl s)) as [r f'] eqn:Hsh.
  destruct (option_map (fun s0 => set_fl s0 f') (wr_op sz dst r s)) as [s2|] eqn:Hwr; [|discriminate]. inversion Hstep; subst s' ip.
  assert (Hs': (let '(r0, f0) := shift (rot_op isl) sz a 1 (x_fl s) in option_map (fun s0 => set_fl s0 f0) (wr_op sz dst r0 s)) = Some s2) by (rewrite Hsh; exact Hwr).
  assert (H1: 0 <= 1 < 2 ^ sz) by (destruct Hwd as [->|[->|[->| ->]]]; pows; lia).
  assert (Hoc: opnd_ok m sz (OImm 1)) by (split; assumption).
  destruct (rot_gen m addr (addr + len) isl sz sz dst (OImm 1) s st a 1 s2 Hw He Hwd Hwd (or_intror eq_refl) Hod Hk Hoc eq_refl Hnw Hra eq_refl Hs')
    as (ops & st' & Hl & Md & Hrun & Hemb & Hwf).
  exists (one_block addr ops). split.
  - unfold mirror_instr. rewrite Md. destruct Hk as [Hk|Hk]; rewrite Hk; [|rewrite orb_true_r]; cbn [orb andb]; destruct isl; cbn [rot_op lift_shift_any option_map]; rewrite Hl; reflexivity.
  - exists st'. auto.
Qed.
