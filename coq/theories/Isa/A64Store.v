(* Isa/A64Store.v -- per-form correctness of the single-register STORES without write-back:
   STR (W, X), STRB, STRH, unsigned-offset and unscaled (STUR..) forms, base = SP or Xn, transfer
   register 31 = ZR, both data endiannesses.  [U] *)
From Coq Require Import ZArith List Bool NArith Lia ZifyBool.
From Falcon Require Import Base.Res IL.Const IL.ConstSpec IL.Expr IL.ExprSpec IL.Func IL.Loc Exec.Sem
     IL.ConstProofs IL.ExprProofs Isa.A64 Isa.A64Lift Isa.A64Run Isa.A64Proofs Isa.A64Sim Isa.A64Arith
     Isa.A64Mem Isa.A64Load.
Import ListNotations.
Local Open Scope Z_scope.
Ltac Zify.zify_post_hook ::= Z.div_mod_to_equations.

(* ------------------------------------------------------------------ byte lists as views of a memory *)
Definition view (l : list (Z * Z)) (m : Z -> Z) : Prop := forall a b, bytes_get l a = Some b -> b = m a.

Fixpoint wr_list (m : Z -> Z) (a : Z) (bs : list Z) : Z -> Z :=
  match bs with [] => m | b :: t => wr_list (upd m a b) (a + 1) t end.

Lemma view_cons l m a b : view l m -> view ((a, b) :: l) (upd m a b).
Proof.
  intros H a' b'. cbn [bytes_get]. unfold upd. rewrite (Z.eqb_sym a' a).
  destruct (Z.eqb_spec a a'); [congruence|apply H].
Qed.
Lemma view_write : forall bs l m a, view l m -> view (write_bytes l a bs) (wr_list m a bs).
Proof.
  induction bs as [|b t IH]; intros l m a H; [exact H|].
  cbn [write_bytes wr_list]. apply IH. apply view_cons. exact H.
Qed.

Lemma wr_list_le m : forall n a v, wr_list m a (le_bytes n v) = wr_le m a n v.
Proof.
  intros n. revert m. induction n as [|n IH]; intros m a v; [reflexivity|].
  cbn [le_bytes wr_list wr_le]. apply IH.
Qed.
Lemma wr_list_app : forall l1 m a l2, wr_list m a (l1 ++ l2) = wr_list (wr_list m a l1) (a + Z.of_nat (length l1)) l2.
Proof.
  induction l1 as [|b t IH]; intros m a l2.
  - cbn [app wr_list length]. rewrite Z.add_0_r. reflexivity.
  - cbn [app wr_list length]. rewrite IH. rewrite Nat2Z.inj_succ. f_equal. lia.
Qed.
Lemma le_bytes_length : forall n v, length (le_bytes n v) = n.
Proof. induction n as [|n IH]; intros v; [reflexivity|]. cbn [le_bytes length]. rewrite IH. reflexivity. Qed.
Lemma wr_list_be m : forall n a v, wr_list m a (rev (le_bytes n v)) = wr_be m a n v.
Proof.
  induction n as [|n IH]; intros a v; [reflexivity|].
  cbn [le_bytes rev wr_be]. rewrite wr_list_app, rev_length, le_bytes_length, IH. reflexivity.
Qed.

(* Sem.mem_store against the specification's Mem[] write *)
Lemma mem_store_spec s st a n v s1 : emb s st -> (1 <= n)%nat -> 0 <= a ->
  mem_wr s a n v = Some s1 ->
  exists m', mem_store (st_mem st) a (mkc (8 * Z.of_nat n) v) = Ok m' /\ emb s1 (mkst (st_env st) m').
Proof.
  intros He Hn Ha Hwr. unfold mem_wr in Hwr. unfold mem_store. cbn [cbits cval].
  destruct (Z.ltb_spec (2 ^ 64) (a + Z.of_nat n)) as [Hov|Hok]; [discriminate|]. inversion Hwr; subst s1; clear Hwr.
  assert (E1 : (8 * Z.of_nat n <=? 0) || negb ((8 * Z.of_nat n) mod 8 =? 0) = false).
  { apply orb_false_iff. split; [apply Z.leb_gt; lia|].
    replace (8 * Z.of_nat n) with (Z.of_nat n * 8) by ring. rewrite Z.mod_mul by lia. reflexivity. }
  rewrite E1.
  assert (E2 : 8 * Z.of_nat n / 8 = Z.of_nat n) by (replace (8 * Z.of_nat n) with (Z.of_nat n * 8) by ring; apply Z.div_mul; lia).
  rewrite E2. unfold ADDR_LIMIT.
  destruct (Z.ltb_spec (2 ^ 64) (a + Z.of_nat n)) as [Hov|_]; [lia|].
  rewrite Nat2Z.id. eexists. split; [reflexivity|].
  destruct He as [Hx Hsp Hfn Hfz Hfc Hfv Hb Hm].
  constructor; cbn [st_env st_mem xr asp fN fZ fC fV amem abig setMem bm_big]; try assumption.
  intros a' b' Hg. unfold bm_get in Hg. cbn [bm_bytes] in Hg.
  assert (Hview : view (bm_bytes (st_mem st)) (amem s)) by (intros x y Hxy; apply Hm; exact Hxy).
  pose proof (view_write (value_bytes (bm_big (st_mem st)) n v) _ _ a Hview a' b' Hg) as Hr.
  rewrite Hr. unfold value_bytes. rewrite Hb. destruct (abig s).
  - rewrite wr_list_be. reflexivity.
  - rewrite wr_list_le. reflexivity.
Qed.

Lemma exec_store s st idx src a n v s1 :
  emb s st -> (1 <= n)%nat ->
  den (st_env st) idx = Ok (mkc 64 a) -> 0 <= a < 2 ^ 64 ->
  den (st_env st) src = Ok (mkc (8 * Z.of_nat n) v) ->
  mem_wr s a n v = Some s1 ->
  exists st', exec_op st (OStore idx src) = Ok (st', EvStore a (mkc (8 * Z.of_nat n) v)) /\ emb s1 st'.
Proof.
  intros He Hn Hi Ha Hs Hwr. cbn [exec_op]. rewrite Hs, Hi. cbn [bind]. unfold addr_of. cbn [cval].
  assert (H : a <? ADDR_LIMIT = true) by (apply Z.ltb_lt; unfold ADDR_LIMIT; lia). rewrite H. cbn [bind].
  destruct (mem_store_spec s st a n v s1 He Hn ltac:(lia) Hwr) as (m' & M1 & M2).
  rewrite M1. cbn [bind]. eexists. split; [reflexivity|exact M2].
Qed.

(* fn str / strb / strh on [Reg rt; MemOffset base off] *)
Lemma b_str_sim s st trunc rt' base off n s1 :
  wf s -> emb s st -> areg_ok rt' -> areg_ok base -> reg_bits base = 64 -> (1 <= n <= 8)%nat ->
  match trunc with
  | None => reg_bits rt' = 8 * Z.of_nat n
  | Some w => w = 8 * Z.of_nat n /\ reg_bits rt' = 32 /\ w < 32
  end ->
  mem_wr s (wrap64 (areg_val s base + off)) n (areg_val s rt' mod 2 ^ (8 * Z.of_nat n)) = Some s1 ->
  exists ops st', b_str trunc [OReg rt'; OMemOffset base off] = Ok (ops, []) /\ length ops = 1%nat /\
                  run_ops ops st = OFall st' /\ emb s1 st'.
Proof.
  intros Hw He Hrt Hbase Hb64 Hn Htr Hwr.
  destruct (mem_offset_den s st base off Hw He Hbase Hb64) as (a_e & MA & DA).
  destruct (reg_get_den s st rt' Hw He Hrt) as (e & G & B & D).
  pose proof (areg_val_range s rt' Hw) as Hvr.
  unfold b_str, nth_op. cbn [nth_error res_of_option bind].
  destruct trunc as [w|].
  - destruct Htr as (Hw8 & H32 & Hlt). cbn [operand_load]. rewrite G. cbn [bind]. rewrite MA. cbn [bind fst snd].
    rewrite mk_ext_ok by (rewrite B, H32; lia). cbn [unwrap bind sideeffect app].
    assert (Dv : den (st_env st) (EExt Trun w e) = Ok (mkc (8 * Z.of_nat n) (areg_val s rt' mod 2 ^ (8 * Z.of_nat n)))).
    { rewrite (den_ext _ _ _ _ _ D). cbn [sp_ext cbits cval]. rewrite H32. destruct (Z.leb_spec 32 w); [lia|].
      unfold s_trun, U. rewrite Hw8. reflexivity. }
    destruct (exec_store s st a_e _ _ n _ s1 He ltac:(lia) DA (wrap64_range _) Dv Hwr) as (st' & E1 & E2).
    eexists; exists st'. split; [reflexivity|]. split; [reflexivity|]. split; [|exact E2].
    rewrite (run_ops_step _ _ _ _ _ E1 I). reflexivity.
  - cbn [operand_storing_width operand_load bind]. rewrite G. cbn [bind]. rewrite MA. cbn [bind fst snd sideeffect app].
    assert (Dv : den (st_env st) e = Ok (mkc (8 * Z.of_nat n) (areg_val s rt' mod 2 ^ (8 * Z.of_nat n)))).
    { rewrite D, Htr. rewrite Z.mod_small by (rewrite <- Htr; exact Hvr). reflexivity. }
    destruct (exec_store s st a_e _ _ n _ s1 He ltac:(lia) DA (wrap64_range _) Dv Hwr) as (st' & E1 & E2).
    eexists; exists st'. split; [reflexivity|]. split; [reflexivity|]. split; [|exact E2].
    rewrite (run_ops_step _ _ _ _ _ E1 I). reflexivity.
Qed.

(* ------------------------------------------------------------------ the instruction-level theorem *)
Lemma ldst_access_store s size t address : 0 <= size < 4 ->
  ldst_access s size 0 t address = mem_wr s address (Z.to_nat (2 ^ size)) (X s t mod 2 ^ (8 * 2 ^ size)).
Proof.
  intros Hs. assert (size = 0 \/ size = 1 \/ size = 2 \/ size = 3) as [-> | [-> | [-> | ->]]] by lia; reflexivity.
Qed.

Theorem str_imm_sim addr size (scaled : bool) imm rn rt :
  0 <= size < 4 -> 0 <= rn < 32 -> 0 <= rt < 32 ->
  sim addr (ILdStImm size 0 WOffset scaled imm rn rt).
Proof.
  intros Hsz Hn Ht s st ops succs s' Hw Hpc Ha He _ Hl Hs.
  destruct (xzr_xsp_range true rn Hn) as [_ Hbase].
  set (offset := if scaled then imm * 2 ^ size else sext_imm 9 imm) in *.
  set (A := wrap64 (SPorX s rn + offset)).
  cbn [a64step] in Hs. fold offset in Hs.
  destruct (ldst_regsize_signed size 0) as [[rs0 sg0] il0]. cbn [andb] in Hs. fold A in Hs.
  rewrite ldst_access_store in Hs by assumption.
  destruct (mem_wr s A (Z.to_nat (2 ^ size)) (X s rt mod 2 ^ (8 * 2 ^ size))) as [s1|] eqn:Ewr; [|discriminate].
  inversion Hs; subst s'; clear Hs.
  unfold lift in Hl. cbn [operands_of] in Hl. fold offset in Hl.
  set (off := if scaled then imm * 2 ^ size else u64 (sext_imm 9 imm)) in *.
  assert (HA : wrap64 (areg_val s (xreg_sp true rn) + off) = A).
  { rewrite areg_val_sp64 by assumption. unfold off, A, offset. destruct scaled; [reflexivity|apply wrap_u64]. }
  assert (Hb64 : reg_bits (xreg_sp true rn) = 64) by apply reg_bits_sp.
  assert (Hp1 : apc s1 = apc s).
  { unfold mem_wr in Ewr. destruct (2 ^ 64 <? A + Z.of_nat (Z.to_nat (2 ^ size))); [discriminate|]. inversion Ewr. reflexivity. }
  assert (Hfin : forall ops', (exists st', (length ops' = 1)%nat /\ run_ops ops' st = OFall st' /\ emb s1 st') ->
            exists st', run_lifted (graph_of addr ops') (merge_successors [(addr + 4, None)]) st = Ok (st', apc (nextPC s1)) /\
                        emb (nextPC s1) st').
  { intros ops' (st' & Hlen & Hr & Hemb). apply (finish_fall_ops' addr s st _ ops' st'); try assumption. lia. }
  rewrite <- HA in Ewr.
  pose proof (X_range_local := fun n => proj1 Hw n).
  assert (HX : 0 <= X s rt < 2 ^ 64) by (unfold X; destruct (rt =? 31); [lia|apply (proj1 Hw)]).
  assert (size = 0 \/ size = 1 \/ size = 2 \/ size = 3) as Hsize by lia.
  Ltac str_case Hl Hfin Hw He Ht Hbase Hb64 Ewr sfr trunc n :=
    destruct (xzr_xsp_range sfr _ Ht) as [Hrt _];
    destruct (b_str_sim _ _ trunc _ _ _ n _ Hw He Hrt Hbase Hb64 ltac:(lia)
                ltac:(first [ (rewrite reg_bits_zr; reflexivity) | (split; [reflexivity|split; [rewrite reg_bits_zr; reflexivity|lia]]) ]) Ewr)
      as (ops' & st' & B1 & Blen & B2 & B3);
    cbn [dispatch terminating] in Hl; rewrite B1 in Hl; cbn [bind fst snd] in Hl; inversion Hl; subst; clear Hl;
    match goal with HB2 : run_ops ?o _ = OFall ?s2 |- _ => apply (Hfin o); exists s2; auto end.
  destruct Hsize as [-> | [-> | [-> | ->]]].
  - change (ldst_mnem 0 0) with MStrb in Hl. change (ldst_rt 0 0 rt) with (xreg_zr false rt) in Hl.
    change (Z.to_nat (2 ^ 0)) with 1%nat in *.
    replace (X s rt mod 2 ^ (8 * 2 ^ 0)) with (areg_val s (xreg_zr false rt) mod 2 ^ (8 * Z.of_nat 1)) in Ewr
      by (rewrite areg_val_zr by assumption; unfold Xw; cbn [dsize]; change (2 ^ (8 * Z.of_nat 1)) with 256;
          change (2 ^ (8 * 2 ^ 0)) with 256; change (2 ^ 32) with 4294967296; lia).
    str_case Hl Hfin Hw He Ht Hbase Hb64 Ewr false (Some 8) 1%nat.
  - change (ldst_mnem 1 0) with MStrh in Hl. change (ldst_rt 1 0 rt) with (xreg_zr false rt) in Hl.
    change (Z.to_nat (2 ^ 1)) with 2%nat in *.
    replace (X s rt mod 2 ^ (8 * 2 ^ 1)) with (areg_val s (xreg_zr false rt) mod 2 ^ (8 * Z.of_nat 2)) in Ewr
      by (rewrite areg_val_zr by assumption; unfold Xw; cbn [dsize]; change (2 ^ (8 * Z.of_nat 2)) with 65536;
          change (2 ^ (8 * 2 ^ 1)) with 65536; change (2 ^ 32) with 4294967296; lia).
    str_case Hl Hfin Hw He Ht Hbase Hb64 Ewr false (Some 16) 2%nat.
  - change (ldst_mnem 2 0) with MStr in Hl. change (ldst_rt 2 0 rt) with (xreg_zr false rt) in Hl.
    change (Z.to_nat (2 ^ 2)) with 4%nat in *.
    replace (X s rt mod 2 ^ (8 * 2 ^ 2)) with (areg_val s (xreg_zr false rt) mod 2 ^ (8 * Z.of_nat 4)) in Ewr
      by (rewrite areg_val_zr by assumption; unfold Xw; cbn [dsize]; change (2 ^ (8 * Z.of_nat 4)) with 4294967296;
          change (2 ^ (8 * 2 ^ 2)) with 4294967296; change (2 ^ 32) with 4294967296; lia).
    str_case Hl Hfin Hw He Ht Hbase Hb64 Ewr false (@None Z) 4%nat.
  - change (ldst_mnem 3 0) with MStr in Hl. change (ldst_rt 3 0 rt) with (xreg_zr true rt) in Hl.
    change (Z.to_nat (2 ^ 3)) with 8%nat in *.
    replace (X s rt mod 2 ^ (8 * 2 ^ 3)) with (areg_val s (xreg_zr true rt) mod 2 ^ (8 * Z.of_nat 8)) in Ewr
      by (rewrite areg_val_zr by assumption; unfold Xw; cbn [dsize]; change (2 ^ (8 * Z.of_nat 8)) with 18446744073709551616;
          change (2 ^ (8 * 2 ^ 3)) with 18446744073709551616; change (2 ^ 64) with 18446744073709551616; lia).
    str_case Hl Hfin Hw He Ht Hbase Hb64 Ewr true (@None Z) 8%nat.
Qed.

(* ------------------------------------------------------------------ LDAR / LDLAR / STLR / STLLR (+ B, H): same builders, offset 0 *)
Theorem ldst_ord_sim addr size (load o0 : bool) rn rt :
  0 <= size < 4 -> 0 <= rn < 32 -> 0 <= rt < 32 -> sim addr (ILdStOrd size load o0 rn rt).
Proof.
  intros Hsz Hn Ht.
  set (opc := if load then 1 else 0).
  assert (Hsim : sim addr (ILdStImm size opc WOffset true 0 rn rt)).
  { unfold opc. destruct load.
    - apply ldr_imm_sim; try assumption; [lia|].
      assert (size = 0 \/ size = 1 \/ size = 2 \/ size = 3) as [-> | [-> | [-> | ->]]] by lia; reflexivity.
    - apply str_imm_sim; assumption. }
  intros s st ops succs s' Hw Hpc Ha He Hm Hl Hs.
  assert (Hbase : wrap64 (SPorX s rn + 0 * 2 ^ size) = SPorX s rn).
  { rewrite Z.mul_0_l, Z.add_0_r. unfold wrap64. apply Z.mod_small.
    destruct Hw as (Hx & Hsp & _). unfold SPorX. destruct (rn =? 31); auto. }
  apply (Hsim s st ops succs s' Hw Hpc Ha He).
  - cbn [footprint]. rewrite Hbase. exact Hm.
  - rewrite <- Hl. unfold lift. cbn [operands_of]. fold opc.
    assert (Hrt : ldst_rt size opc rt = xreg_zr (size =? 3) rt).
    { unfold opc. assert (size = 0 \/ size = 1 \/ size = 2 \/ size = 3) as [-> | [-> | [-> | ->]]] by lia; destruct load; reflexivity. }
    rewrite Hrt, Z.mul_0_l. reflexivity.
  - rewrite <- Hs. cbn [a64step]. fold opc.
    destruct (ldst_regsize_signed size opc) as [[r0 s0] i0]. cbn [andb]. rewrite Hbase. reflexivity.
Qed.
