(* Isa/A64Mem.v -- memory lemmas for the load theorems: Sem.mem_load on an IL memory that is a view of
   the machine memory equals the specification's Mem[] read, for both endiannesses. *)
From Coq Require Import ZArith List Bool NArith Lia ZifyBool.
From Falcon Require Import Base.Res IL.Const IL.ConstSpec IL.Expr IL.ExprSpec IL.Func IL.Loc Exec.Sem
     IL.ConstProofs IL.ExprProofs Isa.A64 Isa.A64Lift Isa.A64Run Isa.A64Proofs Isa.A64Sim.
Import ListNotations.
Local Open Scope Z_scope.
Ltac Zify.zify_post_hook ::= Z.div_mod_to_equations.

Lemma read_bytes_emb s st : emb s st -> forall n a,
  (forall x, In x (addr_range a n) -> bm_get (st_mem st) x <> None) ->
  read_bytes (st_mem st) a n = Some (map (amem s) (addr_range a n)).
Proof.
  intros He. induction n as [|n IH]; intros a Hm; [reflexivity|].
  cbn [read_bytes addr_range map].
  assert (Ha : bm_get (st_mem st) a <> None) by (apply Hm; left; reflexivity).
  destruct (bm_get (st_mem st) a) as [b|] eqn:Eb; [|congruence].
  rewrite (emb_mem _ _ He a b Eb).
  rewrite IH by (intros x Hx; apply Hm; right; exact Hx). reflexivity.
Qed.

Lemma le_value_map m : forall n a, le_value (map m (addr_range a n)) = rd_le m a n.
Proof. induction n as [|n IH]; intros a; [reflexivity|]. cbn [addr_range map le_value rd_le]. rewrite IH. reflexivity. Qed.

Lemma le_value_app l x : le_value (l ++ [x]) = le_value l + x * 256 ^ Z.of_nat (length l).
Proof.
  induction l as [|y t IH]; [cbn; lia|].
  cbn [app le_value length]. rewrite IH. rewrite Nat2Z.inj_succ, Z.pow_succ_r by lia. ring.
Qed.

Lemma addr_range_length a n : length (addr_range a n) = n.
Proof. revert a. induction n as [|n IH]; intros a; [reflexivity|]. cbn [addr_range length]. rewrite IH. reflexivity. Qed.

Lemma rd_be_rev m : forall n a acc,
  rd_be m a n acc = acc * 256 ^ Z.of_nat n + le_value (rev (map m (addr_range a n))).
Proof.
  induction n as [|n IH]; intros a acc; [cbn; lia|].
  cbn [rd_be addr_range map rev]. rewrite IH, le_value_app, rev_length, map_length, addr_range_length.
  rewrite Nat2Z.inj_succ, Z.pow_succ_r by lia. ring.
Qed.

(* Sem.mem_load against the specification's Mem[] *)
Lemma mem_load_spec s st a n v : emb s st -> (1 <= n)%nat -> 0 <= a ->
  (forall x, In x (addr_range a n) -> bm_get (st_mem st) x <> None) ->
  mem_rd s a n = Some v ->
  mem_load (st_mem st) a (8 * Z.of_nat n) = Ok (mkc (8 * Z.of_nat n) v).
Proof.
  intros He Hn Ha Hm Hrd. unfold mem_rd in Hrd. unfold mem_load.
  destruct (Z.ltb_spec (2 ^ 64) (a + Z.of_nat n)) as [Hov|Hok]; [discriminate|]. inversion Hrd; subst v; clear Hrd.
  assert (E1 : (8 * Z.of_nat n <=? 0) || negb ((8 * Z.of_nat n) mod 8 =? 0) = false).
  { apply orb_false_iff. split; [apply Z.leb_gt; lia|].
    replace (8 * Z.of_nat n) with (Z.of_nat n * 8) by ring. rewrite Z.mod_mul by lia. reflexivity. }
  rewrite E1.
  assert (E2 : 8 * Z.of_nat n / 8 = Z.of_nat n) by (replace (8 * Z.of_nat n) with (Z.of_nat n * 8) by ring; apply Z.div_mul; lia).
  rewrite E2. unfold ADDR_LIMIT.
  destruct (Z.ltb_spec (2 ^ 64) (a + Z.of_nat n)) as [Hov|_]; [lia|].
  rewrite Nat2Z.id. rewrite (read_bytes_emb s st He n a Hm).
  f_equal. f_equal. unfold bytes_value. rewrite (emb_big _ _ He).
  destruct (abig s).
  - rewrite rd_be_rev. lia.
  - apply le_value_map.
Qed.

(* a non-branching operation in the straight-line runner *)
Lemma run_ops_step st op st' ev t : exec_op st op = Ok (st', ev) ->
  match ev with EvBranch _ => False | _ => True end ->
  run_ops (op :: t) st = run_ops t st'.
Proof. intros H Hev. cbn [run_ops]. rewrite H. destruct ev; try reflexivity. contradiction. Qed.

(* executing a Load into a free scalar (a temporary) *)
Lemma exec_load s st k bits idx a n v :
  emb s st -> (36 <= k)%N -> (1 <= n)%nat -> bits = 8 * Z.of_nat n ->
  den (st_env st) idx = Ok (mkc 64 a) -> 0 <= a < 2 ^ 64 ->
  (forall x, In x (addr_range a n) -> bm_get (st_mem st) x <> None) ->
  mem_rd s a n = Some v ->
  exists st', exec_op st (OLoad (mks k bits None) idx) = Ok (st', EvLoad (k, None) a (mkc bits v)) /\
              emb s st' /\ env_get (st_env st') (k, None) = Some (mkc bits v).
Proof.
  intros He Hk Hn Hb Hd Ha Hm Hrd. subst bits. cbn [exec_op]. rewrite Hd. cbn [bind]. unfold addr_of. cbn [cval].
  assert (H : a <? ADDR_LIMIT = true) by (apply Z.ltb_lt; unfold ADDR_LIMIT; lia). rewrite H. cbn [bind sbits].
  rewrite (mem_load_spec s st a n v He Hn ltac:(lia) Hm Hrd). cbn [bind]. unfold skey_of. cbn [sname sssa].
  eexists. split; [reflexivity|]. split.
  - apply emb_set_free; assumption.
  - cbn [st_env]. apply env_get_set_same.
Qed.
