(* Isa/X86Sim.v -- the per-form theorems packaged against the ISA specification:
     [sim m addr len i]: from EVERY machine state s embedded into ANY IL state st, running the mirrored builder's
     graph with the Sem-based runner ([X86Run.run_instr]) ends in an IL state that embeds X86.step's result
     (all GPRs, CF/ZF/SF/OF/DF unless the spec leaves them undefined, memory) and at the same next address;
   and [tie_transfers]: the syntactic tie checked by Isa/C01Check.v for a dumped encoding carries [sim] over to
   the REAL lifter's IL for that encoding. *)
From Coq Require Import ZArith List Bool NArith Lia.
From Falcon Require Import Base.Res IL.Const IL.ConstSpec IL.ConstProofs IL.Expr IL.ExprSpec IL.Func IL.Loc Exec.Sem.
From Falcon Require Import Isa.X86 Isa.X86Run Isa.X86Lift Isa.X86Mirror Isa.X86Proofs.
Import ListNotations.
Local Open Scope Z_scope.

(* ---------- register file lemmas ---------- *)
Lemma lset_length g n v : length (lset g n v) = length g.
Proof. revert n; induction g as [|x t IH]; intros [|n]; cbn; auto. Qed.
Lemma nth_lset_same g n v d : (n < length g)%nat -> nth n (lset g n v) d = v.
Proof. revert n; induction g as [|x t IH]; intros [|n] H; cbn in *; try lia; auto. apply IH. lia. Qed.
Lemma nth_lset_other g n n' v d : n <> n' -> nth n' (lset g n v) d = nth n' g d.
Proof. revert n n'; induction g as [|x t IH]; intros [|n] [|n'] H; cbn; auto; try congruence. Qed.

Lemma rget_rset_same g r v : 0 <= r -> (Z.to_nat r < length g)%nat -> rget (rset g r v) r = v.
Proof. intros _ H. unfold rget, rset. apply nth_lset_same. exact H. Qed.
Lemma rget_rset_other g r r' v : 0 <= r -> 0 <= r' -> r <> r' -> rget (rset g r v) r' = rget g r'.
Proof. intros H H' N. unfold rget, rset. apply nth_lset_other. lia. Qed.

(* ---------- names ---------- *)
Lemma full_name_gpr m r : full_name m r = gpr_name m r.
Proof. destruct m; reflexivity. Qed.
Lemma gpr_name_ok m r : 0 <= r < ngpr m -> reg_name_ok (gpr_name m r) = true.
Proof.
  intros H. unfold reg_name_ok, gpr_name, n_gpr64, n_gpr32. apply orb_true_iff. destruct m; cbn [ngpr] in H.
  - right. apply andb_true_iff. split; apply N.ltb_lt; lia.
  - left. apply N.ltb_lt. lia.
Qed.
Lemma gpr_name_inj m r r' : 0 <= r < ngpr m -> 0 <= r' < ngpr m -> gpr_name m r = gpr_name m r' -> r = r'.
Proof. intros H H' E. unfold gpr_name, n_gpr64, n_gpr32 in E. destruct m; cbn [ngpr] in *; apply Z2N.inj in E; lia. Qed.

(* ---------- well-formed machine states and the embedding into IL states ---------- *)
Record wf (m : mode) (s : xstate) : Prop := {
  wf_len : length (x_gpr s) = Z.to_nat (ngpr m);
  wf_rng : forall r, 0 <= r < ngpr m -> 0 <= rget (x_gpr s) r < 2 ^ wordsz m;
  wf_bytes : forall a b, mem_rd1 (x_mem s) a = Some b -> 0 <= b < 256 }.

Definition kDF : skey := (X86Run.n_DF, None).
(* a flag the specification leaves undefined may hold anything (but is a 1-bit scalar) *)
Definition emb_flag (f : flag) (en : senv) (k : skey) : Prop :=
  match f with
  | FB b => env_get en k = Some (mkc 1 (X86.b2z b))
  | FU => exists v, env_get en k = Some (mkc 1 v)
  end.
Record emb (m : mode) (s : xstate) (st : sstate) : Prop := {
  emb_gpr : forall r, 0 <= r < ngpr m ->
            env_get (st_env st) (gpr_name m r, None) = Some (mkc (wordsz m) (rget (x_gpr s) r));
  emb_cf : emb_flag (f_cf (x_fl s)) (st_env st) kCF;
  emb_zf : emb_flag (f_zf (x_fl s)) (st_env st) kZF;
  emb_sf : emb_flag (f_sf (x_fl s)) (st_env st) kSF;
  emb_of : emb_flag (f_of (x_fl s)) (st_env st) kOF;
  emb_df : emb_flag (f_df (x_fl s)) (st_env st) kDF;
  emb_mem : forall a, mem_rd1 (x_mem s) a = bm_get (st_mem st) a;
  emb_le : bm_big (st_mem st) = false }.

(* ---------- running a one-block graph ---------- *)
Lemma assign_not_branch ops : forallb is_assign ops = true -> forall o, In o ops -> is_branch o = false.
Proof.
  intros H o Hi. rewrite forallb_forall in H. specialize (H o Hi). destruct o; cbn in *; try discriminate; reflexivity.
Qed.

Lemma run_one_block addr ops nx st st' :
  forallb is_assign ops = true -> ops <> [] -> (length ops <= 600)%nat ->
  exec_ops st ops = Ok st' ->
  run_instr 600 (one_block addr ops) [(nx, None)] addr st = RunOk st' (Some nx).
Proof.
  intros Ha Ne Hl Ex. unfold run_instr.
  assert (FF: from_function (mkfunc addr (one_block addr ops) None) = Some (Ok (LInstr 0 0))).
  { unfold from_function, one_block. cbn [f_cfg g_entry]. unfold f_block, cfg_block, f_cfg. cbn [g_blocks find_block b_index Z.eqb bind].
    destruct ops as [|o t]; [congruence|]. reflexivity. }
  rewrite FF.
  pose proof (il_run_one_block addr ops (assign_not_branch ops Ha) ops [] st st' 600 eq_refl Ne Ex Hl) as R.
  cbn [length Z.of_nat] in R. rewrite R.
  cbn [enabled_succs bind all_same forallb]. reflexivity.
Qed.

(* ---------- operands of the mirrored forms ---------- *)
Definition reg_operand_ok (m : mode) (sz : Z) (o : operand) : Prop :=
  match o with
  | OReg r => 0 <= r < ngpr m /\ size_shape m sz <> None
  | ORegH r => 0 <= r < 4 /\ sz = 8
  | _ => False
  end.
Definition src_operand_ok (m : mode) (sz : Z) (o : operand) : Prop :=
  match o with OImm v => 0 <= v < 2 ^ sz /\ width_ok sz | _ => reg_operand_ok m sz o end.
Definition oreg (o : operand) : Z := match o with OReg r | ORegH r => r | _ => 0 end.

Lemma reg_operand_shape m sz o : reg_operand_ok m sz o ->
  exists sd, operand_shape m sz o = Some (gpr_name m (oreg o), sd) /\ 0 <= oreg o < ngpr m /\ isreg o = true.
Proof.
  destruct o as [r|r| |]; cbn [reg_operand_ok]; try contradiction.
  - intros [Hr Hs]. destruct (size_shape m sz) as [sd|] eqn:E; [|congruence].
    exists sd. cbn [operand_shape oreg isreg]. rewrite E, full_name_gpr. auto.
  - intros [Hr ->]. exists ShHigh8. cbn [operand_shape oreg isreg]. rewrite full_name_gpr.
    split; [reflexivity|]. split; [destruct m; cbn; lia|reflexivity].
Qed.

Lemma size_shape_not_high m sz sd : size_shape m sz = Some sd -> sd <> ShHigh8.
Proof.
  unfold size_shape. destruct (sz =? wordsz m); [congruence|]. destruct (sz =? 8); [congruence|].
  destruct (sz =? 16); [congruence|]. destruct ((sz =? 32) && (wordsz m =? 64)); congruence.
Qed.

Lemma rd_reg_operand m sz o s sd : isreg o = true ->
  operand_shape m sz o = Some (gpr_name m (oreg o), sd) ->
  rd_op sz o s = Some (arch_read sd (wordsz m) (rget (x_gpr s) (oreg o))).
Proof.
  intros Hi Hs. destruct (operand_shape_xreg _ _ _ _ _ Hs) as (_ & _ & Hb).
  destruct o as [r|r| |]; try discriminate Hi; cbn [rd_op oreg]; cbn [operand_shape] in Hs.
  - destruct (size_shape m sz) as [sd'|] eqn:E; [|discriminate]. cbn [option_map] in Hs. inversion Hs; subst sd'.
    pose proof (size_shape_not_high _ _ _ E) as Nh. f_equal.
    unfold arch_read. destruct sd; try congruence; unfold X86.reg_read, X86.rget; cbn [Z.to_nat nth]; rewrite Hb; reflexivity.
  - destruct (sz =? 8); [|discriminate]. inversion Hs; subst sd. reflexivity.
Qed.

Lemma wr_reg_operand m sz o s sd v : isreg o = true -> wf m s -> 0 <= oreg o < ngpr m ->
  operand_shape m sz o = Some (gpr_name m (oreg o), sd) ->
  exists g', wr_op sz o v s = Some (set_gpr s g') /\ length g' = length (x_gpr s) /\
             rget g' (oreg o) = arch_write sd (wordsz m) (rget (x_gpr s) (oreg o)) v /\
             (forall r', 0 <= r' -> r' <> oreg o -> rget g' r' = rget (x_gpr s) r').
Proof.
  intros Hi Hw Hr Hs. destruct (operand_shape_xreg _ _ _ _ _ Hs) as (_ & _ & Hb).
  assert (Hl: (Z.to_nat (oreg o) < length (x_gpr s))%nat) by (rewrite (wf_len _ _ Hw); lia).
  destruct o as [r|r| |]; try discriminate Hi; cbn [oreg] in *; cbn [operand_shape] in Hs; unfold wr_op, wr_op_at.
  - destruct (size_shape m sz) as [sd'|] eqn:E; [|discriminate]. cbn [option_map] in Hs. inversion Hs; subst sd'.
    pose proof (size_shape_not_high _ _ _ E) as Nh.
    eexists. split; [reflexivity|]. unfold X86.reg_write. split; [apply lset_length|]. split.
    + rewrite rget_rset_same by lia. unfold arch_write.
      destruct sd; try congruence; unfold X86.reg_write, X86.rget, X86.rset; cbn [Z.to_nat nth X86.lset]; rewrite Hb; reflexivity.
    + intros r' H0 N. apply rget_rset_other; lia.
  - destruct (sz =? 8); [|discriminate]. inversion Hs; subst sd.
    eexists. split; [reflexivity|]. unfold X86.regh_write. split; [apply lset_length|]. split.
    + rewrite rget_rset_same by lia. reflexivity.
    + intros r' H0 N. apply rget_rset_other; lia.
Qed.

Lemma reg_get_mentions n fbits sd e : shape_valid fbits sd -> reg_get (xreg_of n fbits sd) = Ok e ->
  forall k, n <> fst k -> mentions k e = false.
Proof.
  intros Vd Gl k Hk. destruct Vd as [[E|E] Hs]; rewrite E in Gl; destruct sd; try (specialize (Hs eq_refl); congruence);
    cbv in Gl; inversion Gl; subst e; cbn [mentions]; unfold skey_of; cbn [sname sssa];
    destruct (skey_eqb (n, None) k) eqn:Q; try reflexivity; apply skey_eqb_eq in Q; subst k; cbn in Hk; congruence.
Qed.

Lemma reg_name_not_special n : reg_name_ok n = true ->
  n <> 53%N /\ n <> X86Lift.n_ZF /\ n <> X86Lift.n_SF /\ n <> X86Lift.n_OF /\ n <> X86Lift.n_CF.
Proof.
  intros Nok. unfold reg_name_ok in Nok. unfold X86Lift.n_ZF, X86Lift.n_SF, X86Lift.n_OF, X86Lift.n_CF.
  repeat split; intros ->; cbn in Nok; discriminate.
Qed.

(* the source operand (register or immediate) as an expression *)
Lemma src_expr m sz src s st : wf m s -> emb m s st -> src_operand_ok m sz src ->
  exists rhs b, opv m sz src = Ok rhs /\ e_bits rhs = sz /\ 0 <= b < 2 ^ sz /\
                den (st_env st) rhs = Ok (mkc sz b) /\ clean rhs = true /\ rd_op sz src s = Some b.
Proof.
  intros Hw He Ho. destruct src as [r|r| |v].
  1,2: (destruct (reg_operand_shape m sz _ Ho) as (sd & Hs & Hr & Hi);
        destruct (operand_shape_xreg _ _ _ _ _ Hs) as (Xd & Vd & Bd);
        pose proof (wf_rng _ _ Hw _ Hr) as Hx; pose proof (emb_gpr _ _ _ He _ Hr) as Eg;
        destruct (reg_get_correct (st_env st) _ _ sd _ Vd Hx Eg) as (e & Ge & De);
        exists e, (arch_read sd (wordsz m) (rget (x_gpr s) r));
        split; [unfold opv; rewrite Xd; exact Ge|];
        split; [rewrite <- Bd; eapply reg_get_bits; eassumption|];
        split; [rewrite <- Bd; apply arch_read_range; assumption|];
        split; [rewrite <- Bd; exact De|];
        split; [|apply rd_reg_operand; assumption];
        pose proof (reg_name_not_special _ (gpr_name_ok m _ Hr)) as (N0 & N1 & N2 & N3 & N4);
        unfold clean; rewrite !(reg_get_mentions _ _ _ _ Vd Ge) by (cbn; assumption); reflexivity).
  - contradiction.
  - destruct Ho as [Hv Hwd]. exists (expr_const v sz), v.
    assert (W0: 0 <= sz) by (destruct Hwd as [->|[->|[->| ->]]]; lia).
    split; [reflexivity|]. split; [reflexivity|]. split; [exact Hv|].
    split; [|split; [reflexivity|reflexivity]].
    unfold expr_const. rewrite new_big_spec by exact W0. cbn [den]. unfold U. rewrite Z.mod_small by lia. reflexivity.
Qed.

Lemma dst_expr m sz dst s st sd : wf m s -> emb m s st -> 0 <= oreg dst < ngpr m ->
  operand_shape m sz dst = Some (gpr_name m (oreg dst), sd) ->
  exists lhs, opv m sz dst = Ok lhs.
Proof.
  intros Hw He Hr Hs. destruct (operand_shape_xreg _ _ _ _ _ Hs) as (Xd & Vd & Bd).
  destruct (reg_get_correct (st_env st) _ _ sd _ Vd (wf_rng _ _ Hw _ Hr) (emb_gpr _ _ _ He _ Hr)) as (e & Ge & _).
  exists e. unfold opv. rewrite Xd. destruct dst; cbn [operand_shape] in Hs; try discriminate; exact Ge.
Qed.

(* ---------- the simulation statement ---------- *)
Definition sim (m : mode) (addr len : Z) (i : instr) : Prop :=
  forall s st s' ip, wf m s -> emb m s st -> step m (addr + len) i s = XNext s' ip ->
  exists g, mirror_instr m addr len i = Some (Ok g) /\
  exists st', run_instr 600 g (mirror_succ m addr len i) addr st = RunOk st' (Some ip) /\ emb m s' st' /\ wf m s'.

Lemma kDF_not_reg n : reg_name_ok n = true -> (n, @None N) <> kDF.
Proof. intros H E. inversion E; subst n. cbn in H. discriminate. Qed.

(* registers and DF after an instruction that writes (at most) the register of [dst], flags and temporaries *)
Lemma emb_frame m s st st' r g' v :
  wf m s -> emb m s st -> 0 <= r < ngpr m ->
  (forall k, k <> (gpr_name m r, None) -> k <> kT0 -> k <> kZF -> k <> kSF -> k <> kOF -> k <> kCF ->
     env_get (st_env st') k = env_get (st_env st) k) ->
  env_get (st_env st') (gpr_name m r, None) = Some (mkc (wordsz m) v) ->
  rget g' r = v -> (forall r', 0 <= r' -> r' <> r -> rget g' r' = rget (x_gpr s) r') ->
  (forall r', 0 <= r' < ngpr m -> env_get (st_env st') (gpr_name m r', None) = Some (mkc (wordsz m) (rget g' r'))) /\
  emb_flag (f_df (x_fl s)) (st_env st') kDF.
Proof.
  intros Hw He Hr Fr Ev Gv Go.
  pose proof (reg_name_not_special _ (gpr_name_ok m _ Hr)) as (N0 & N1 & N2 & N3 & N4).
  split.
  - intros r' Hr'. destruct (Z.eq_dec r' r) as [->|N]; [rewrite Gv; exact Ev|].
    rewrite (Go r') by lia. rewrite Fr; [apply (emb_gpr _ _ _ He); exact Hr'| | | | | |].
    + intros E. inversion E as [E1]. apply gpr_name_inj in E1; [congruence|assumption|assumption].
    + pose proof (reg_name_not_special _ (gpr_name_ok m _ Hr')) as (M0 & _). unfold kT0. congruence.
    + pose proof (reg_name_not_special _ (gpr_name_ok m _ Hr')) as (_ & M1 & _). unfold kZF. congruence.
    + pose proof (reg_name_not_special _ (gpr_name_ok m _ Hr')) as (_ & _ & M2 & _). unfold kSF. congruence.
    + pose proof (reg_name_not_special _ (gpr_name_ok m _ Hr')) as (_ & _ & _ & M3 & _). unfold kOF. congruence.
    + pose proof (reg_name_not_special _ (gpr_name_ok m _ Hr')) as (_ & _ & _ & _ & M4). unfold kCF. congruence.
  - pose proof (emb_df _ _ _ He) as D. unfold emb_flag in *.
    assert (Q: env_get (st_env st') kDF = env_get (st_env st) kDF).
    { apply Fr; try (unfold kDF, kT0, kZF, kSF, kOF, kCF, X86Run.n_DF, X86Lift.n_ZF, X86Lift.n_SF, X86Lift.n_OF, X86Lift.n_CF; congruence).
      intros E. symmetry in E. revert E. apply kDF_not_reg. apply gpr_name_ok. exact Hr. }
    destruct (f_df (x_fl s)); [rewrite Q; exact D|destruct D as [v0 D]; exists v0; rewrite Q; exact D].
Qed.

Lemma wf_set_gpr m s g' f : wf m s -> length g' = length (x_gpr s) ->
  (forall r, 0 <= r < ngpr m -> 0 <= rget g' r < 2 ^ wordsz m) -> wf m (set_fl (set_gpr s g') f).
Proof. intros Hw Hl Hr. constructor; cbn [set_fl set_gpr x_gpr x_mem]; [rewrite Hl; apply (wf_len _ _ Hw)|exact Hr|apply (wf_bytes _ _ Hw)]. Qed.

Lemma arch_write_range sd fb x y : shape_valid fb sd -> 0 <= x < 2 ^ fb -> 0 <= y < 2 ^ shape_bits fb sd ->
  0 <= arch_write sd fb x y < 2 ^ fb.
Proof.
  intros [[->| ->] Hs] Hx Hy; destruct sd; try (specialize (Hs eq_refl); discriminate);
    unfold arch_write, X86.reg_write, X86.regh_write, X86.rget, X86.rset; cbn [shape_bits Z.to_nat nth X86.lset] in *; cbn in *; lia.
Qed.

Ltac flagkeys := unfold kDF, kT0, kZF, kSF, kOF, kCF, X86Run.n_DF, X86Lift.n_ZF, X86Lift.n_SF, X86Lift.n_OF, X86Lift.n_CF.

(* add / sub / and / or / xor r, r|imm share everything but the ops theorem: this lemma does the packaging from
   the facts an ops theorem provides *)
Lemma sim_write_pack m addr len s st dst sz sd res ops st' (cff : flag) (of : bool) :
  wf m s -> emb m s st -> 0 <= oreg dst < ngpr m -> isreg dst = true ->
  operand_shape m sz dst = Some (gpr_name m (oreg dst), sd) ->
  0 <= res < 2 ^ sz ->
  forallb is_assign ops = true -> ops <> [] -> (length ops <= 600)%nat ->
  exec_ops st ops = Ok st' ->
  (forall k, k <> (gpr_name m (oreg dst), None) -> k <> kT0 -> k <> kZF -> k <> kSF -> k <> kOF -> k <> kCF ->
     env_get (st_env st') k = env_get (st_env st) k) ->
  st_mem st' = st_mem st ->
  env_get (st_env st') (gpr_name m (oreg dst), None) =
    Some (mkc (wordsz m) (arch_write sd (wordsz m) (rget (x_gpr s) (oreg dst)) res)) ->
  env_get (st_env st') kZF = Some (mkc 1 (X86.b2z (res =? 0))) ->
  env_get (st_env st') kSF = Some (mkc 1 (X86.b2z (X86.msb sz res))) ->
  env_get (st_env st') kOF = Some (mkc 1 (X86.b2z of)) ->
  emb_flag cff (st_env st') kCF ->
  exists s', option_map (fun s1 => set_fl s1 (fl_arith (x_fl s) cff (FB of) sz res)) (wr_op sz dst res s) = Some s' /\
  exists st'', run_instr 600 (one_block addr ops) [(addr + len, None)] addr st = RunOk st'' (Some (addr + len)) /\
               emb m s' st'' /\ wf m s'.
Proof.
  intros Hw He Hr Hi Hs Hres Ha Ne Hl Ex Fr Hm Ev Ez Es Eo Ec.
  destruct (operand_shape_xreg _ _ _ _ _ Hs) as (_ & Vd & Bd).
  destruct (wr_reg_operand m sz dst s sd res Hi Hw Hr Hs) as (g' & Wr & Lg & Gv & Go).
  rewrite Wr. cbn [option_map]. eexists. split; [reflexivity|].
  exists st'. split; [apply run_one_block; assumption|].
  destruct (emb_frame m s st st' (oreg dst) g' _ Hw He Hr Fr Ev Gv Go) as (Eg & Ed).
  split.
  - constructor; cbn [set_fl set_gpr x_gpr x_fl x_mem fl_arith f_cf f_zf f_sf f_of f_df emb_flag]; try assumption.
    + intros a. rewrite Hm. apply (emb_mem _ _ _ He).
    + rewrite Hm. apply (emb_le _ _ _ He).
  - apply wf_set_gpr; [exact Hw|exact Lg|]. intros r' Hr'.
    destruct (Z.eq_dec r' (oreg dst)) as [->|N].
    + rewrite Gv. apply arch_write_range; [exact Vd|apply (wf_rng _ _ Hw); exact Hr|rewrite Bd; exact Hres].
    + rewrite Go by lia. apply (wf_rng _ _ Hw). exact Hr'.
Qed.

Lemma src_regimm m sz src : src_operand_ok m sz src -> regimm src = true.
Proof. destruct src; cbn; try reflexivity; contradiction. Qed.

(* ---------- add ---------- *)
Theorem add_sim m addr len sz dst src :
  reg_operand_ok m sz dst -> src_operand_ok m sz src -> width_ok sz -> sim m addr len (IAlu AAdd sz dst src).
Proof.
  intros Hd Hsrc Hwd s st s' ip Hw He Hstep.
  destruct (reg_operand_shape m sz dst Hd) as (sd & Hs & Hr & Hi).
  destruct (src_expr m sz src s st Hw He Hsrc) as (rhs & b & Os & Br & Hb & Dr & Cr & Rs).
  destruct (dst_expr m sz dst s st sd Hw He Hr Hs) as (lhs & Ol).
  pose proof (rd_reg_operand m sz dst s sd Hi Hs) as Rd.
  destruct (add_reg_ops_correct st m sz dst _ sd _ lhs rhs b Hs (gpr_name_ok m _ Hr) Hwd (wf_rng _ _ Hw _ Hr)
              (emb_gpr _ _ _ He _ Hr) Ol Br Hb Dr Cr)
    as (ops & st' & _ & Hops & Hasg & Hlen & Hex & Hfr & Hm & Ev & Ez & Es & Eo & Ec).
  set (a := arch_read sd (wordsz m) (rget (x_gpr s) (oreg dst))) in *.
  assert (Hres: 0 <= U sz (a + b) < 2 ^ sz) by (unfold U; apply Z.mod_pos_bound; destruct Hwd as [->|[->|[->| ->]]]; reflexivity).
  destruct (sim_write_pack m addr len s st dst sz sd (U sz (a + b)) ops st' (FB _) _ Hw He Hr Hi Hs Hres Hasg
              ltac:(destruct ops; [cbn in Hlen; lia|discriminate]) ltac:(lia) Hex Hfr Hm Ev Ez Es Eo Ec)
    as (s2 & Hwr & st2 & Hrun & Hemb & Hwf).
  unfold step in Hstep. rewrite Rd, Rs in Hstep. cbn [alu_reads_cf alu_writes alu] in Hstep. fold a in Hstep.
  rewrite Hwr in Hstep. inversion Hstep; subst s' ip.
  exists (one_block addr ops). split.
  - unfold mirror_instr. rewrite Hi, (src_regimm _ _ _ Hsrc). unfold lift_alu; unfold lift_alu_rhs; cbn [andb lift_alu_gen option_map].
    rewrite Ol, Os. cbn [bind]. rewrite Hops. reflexivity.
  - exists st2. auto.
Qed.

(* ---------- sub ---------- *)
Theorem sub_sim m addr len sz dst src :
  reg_operand_ok m sz dst -> src_operand_ok m sz src -> width_ok sz -> sim m addr len (IAlu ASub sz dst src).
Proof.
  intros Hd Hsrc Hwd s st s' ip Hw He Hstep.
  destruct (reg_operand_shape m sz dst Hd) as (sd & Hs & Hr & Hi).
  destruct (src_expr m sz src s st Hw He Hsrc) as (rhs & b & Os & Br & Hb & Dr & Cr & Rs).
  destruct (dst_expr m sz dst s st sd Hw He Hr Hs) as (lhs & Ol).
  pose proof (rd_reg_operand m sz dst s sd Hi Hs) as Rd.
  destruct (sub_reg_ops_correct st m sz dst _ sd _ lhs rhs b Hs (gpr_name_ok m _ Hr) Hwd (wf_rng _ _ Hw _ Hr)
              (emb_gpr _ _ _ He _ Hr) Ol Br Hb Dr Cr)
    as (ops & st' & _ & Hops & Hasg & Hlen & Hex & Hfr & Hm & Ev & Ez & Es & Eo & Ec).
  set (a := arch_read sd (wordsz m) (rget (x_gpr s) (oreg dst))) in *.
  assert (Hres: 0 <= U sz (a - b) < 2 ^ sz) by (unfold U; apply Z.mod_pos_bound; destruct Hwd as [->|[->|[->| ->]]]; reflexivity).
  destruct (sim_write_pack m addr len s st dst sz sd (U sz (a - b)) ops st' (FB _) _ Hw He Hr Hi Hs Hres Hasg
              ltac:(destruct ops; [cbn in Hlen; lia|discriminate]) ltac:(lia) Hex Hfr Hm Ev Ez Es Eo Ec)
    as (s2 & Hwr & st2 & Hrun & Hemb & Hwf).
  unfold step in Hstep. rewrite Rd, Rs in Hstep. cbn [alu_reads_cf alu_writes alu] in Hstep. fold a in Hstep.
  rewrite Hwr in Hstep. inversion Hstep; subst s' ip.
  exists (one_block addr ops). split.
  - unfold mirror_instr. rewrite Hi, (src_regimm _ _ _ Hsrc). unfold lift_alu; unfold lift_alu_rhs; cbn [andb lift_alu_gen option_map].
    rewrite Ol, Os. cbn [bind]. rewrite Hops. reflexivity.
  - exists st2. auto.
Qed.

(* ---------- and / or / xor ---------- *)
Definition logic_alu (o : aluop) : option (binop * (Z -> Z -> Z)) :=
  match o with AAnd => Some (And, Z.land) | AOr => Some (Or, Z.lor) | AXor => Some (Xor, Z.lxor) | _ => None end.

(* xor: the lifter replaces `xor x, x` (syntactically identical operand expressions) by the constant 0; that
   special case is outside this theorem (hypothesis Hne), it is covered by the differential check *)
Theorem logic_sim m addr len o op f sz dst src :
  logic_alu o = Some (op, f) ->
  reg_operand_ok m sz dst -> src_operand_ok m sz src -> width_ok sz ->
  (o = AXor -> forall lhs rhs, opv m sz dst = Ok lhs -> opv m sz src = Ok rhs -> expr_eqb lhs rhs = false) ->
  sim m addr len (IAlu o sz dst src).
Proof.
  intros Hl Hd Hsrc Hwd Hne s st s' ip Hw He Hstep.
  destruct (reg_operand_shape m sz dst Hd) as (sd & Hs & Hr & Hi).
  destruct (src_expr m sz src s st Hw He Hsrc) as (rhs & b & Os & Br & Hb & Dr & Cr & Rs).
  destruct (dst_expr m sz dst s st sd Hw He Hr Hs) as (lhs & Ol).
  pose proof (rd_reg_operand m sz dst s sd Hi Hs) as Rd.
  assert (Lf: logic_fun op = Some f) by (destruct o; try discriminate; inversion Hl; subst; reflexivity).
  destruct (logic_reg_ops_correct st m op f sz dst _ sd _ lhs rhs b Lf Hs (gpr_name_ok m _ Hr) Hwd (wf_rng _ _ Hw _ Hr)
              (emb_gpr _ _ _ He _ Hr) Ol Br Hb Dr Cr)
    as (ops & st' & Hops & Hasg & Hlen & Hex & Hfr & Hm & Ev & Ez & Es & Eo & Ec).
  set (a := arch_read sd (wordsz m) (rget (x_gpr s) (oreg dst))) in *.
  destruct (operand_shape_xreg _ _ _ _ _ Hs) as (_ & Vd & Bd).
  assert (Ha: 0 <= a < 2 ^ sz) by (unfold a; rewrite <- Bd; apply arch_read_range; [exact Vd|apply (wf_rng _ _ Hw); exact Hr]).
  assert (W0: 0 <= sz) by (destruct Hwd as [->|[->|[->| ->]]]; lia).
  assert (Hres: 0 <= f a b < 2 ^ sz).
  { destruct o; try discriminate; inversion Hl; subst; [apply lor_range|apply land_range|apply lxor_range]; lia. }
  destruct (sim_write_pack m addr len s st dst sz sd (f a b) ops st' (FB false) false Hw He Hr Hi Hs Hres Hasg
              ltac:(destruct ops; [cbn in Hlen; lia|discriminate]) ltac:(lia) Hex Hfr Hm Ev Ez Es Eo Ec)
    as (s2 & Hwr & st2 & Hrun & Hemb & Hwf).
  assert (Hst: step m (addr + len) (IAlu o sz dst src) s =
               match option_map (fun s1 => set_fl s1 (fl_arith (x_fl s) (FB false) (FB false) sz (f a b))) (wr_op sz dst (f a b) s) with
               | Some s1 => XNext s1 (addr + len) | None => XFault end).
  { unfold step. rewrite Rd, Rs. fold a. destruct o; try discriminate; inversion Hl; subst; reflexivity. }
  rewrite Hst, Hwr in Hstep. inversion Hstep; subst s' ip.
  exists (one_block addr ops). split.
  - unfold mirror_instr. rewrite Hi, (src_regimm _ _ _ Hsrc). cbn [andb].
    assert (Q: lift_alu m o sz dst src = Some (Ok ops)).
    { destruct o; try discriminate; inversion Hl; subst op f; unfold lift_alu; unfold lift_alu_rhs; cbn [lift_alu_gen]; rewrite Ol, Os; cbn [bind andb];
        try (rewrite (Hne eq_refl lhs rhs Ol Os)); cbn [andb]; rewrite <- Hops; reflexivity. }
    rewrite Q. reflexivity.
  - exists st2. auto.
Qed.

(* ---------- cmp ---------- *)
Theorem cmp_sim m addr len sz dst src :
  reg_operand_ok m sz dst -> src_operand_ok m sz src -> width_ok sz -> sim m addr len (IAlu ACmp sz dst src).
Proof.
  intros Hd Hsrc Hwd s st s' ip Hw He Hstep.
  destruct (reg_operand_shape m sz dst Hd) as (sd & Hs & Hr & Hi).
  destruct (src_expr m sz src s st Hw He Hsrc) as (rhs & b & Os & Br & Hb & Dr & Cr & Rs).
  destruct (dst_expr m sz dst s st sd Hw He Hr Hs) as (lhs & Ol).
  pose proof (rd_reg_operand m sz dst s sd Hi Hs) as Rd.
  destruct (cmp_reg_ops_correct st m sz dst _ sd _ lhs rhs b Hs (gpr_name_ok m _ Hr) Hwd (wf_rng _ _ Hw _ Hr)
              (emb_gpr _ _ _ He _ Hr) Ol Br Hb Dr Cr)
    as (ops & st' & _ & Hops & Hasg & Hlen & Hex & Hfr & Hm & Ev & Ez & Es & Eo & Ec).
  set (a := arch_read sd (wordsz m) (rget (x_gpr s) (oreg dst))) in *.
  unfold step in Hstep. rewrite Rd, Rs in Hstep. cbn [alu_reads_cf alu_writes alu] in Hstep. fold a in Hstep.
  inversion Hstep; subst s' ip.
  exists (one_block addr ops). split.
  - unfold mirror_instr. rewrite Hi, (src_regimm _ _ _ Hsrc). unfold lift_alu; unfold lift_alu_rhs; cbn [andb lift_alu_gen option_map].
    rewrite Ol, Os. cbn [bind]. rewrite Hops. reflexivity.
  - exists st'. split; [apply run_one_block; try assumption; [destruct ops; [cbn in Hlen; lia|discriminate]|lia]|].
    destruct (emb_frame m s st st' (oreg dst) (x_gpr s) _ Hw He Hr Hfr Ev eq_refl (fun _ _ _ => eq_refl)) as (Eg & Ed).
    split.
    + constructor; cbn [set_fl x_gpr x_fl x_mem fl_arith f_cf f_zf f_sf f_of f_df emb_flag]; try assumption.
      * intros a0. rewrite Hm. apply (emb_mem _ _ _ He).
      * rewrite Hm. apply (emb_le _ _ _ He).
    + constructor; cbn [set_fl x_gpr x_mem]; [apply (wf_len _ _ Hw)|apply (wf_rng _ _ Hw)|apply (wf_bytes _ _ Hw)].
Qed.

(* ---------- inc / dec ---------- *)
Lemma inc_of w a : width_ok w -> 0 <= a < 2 ^ w ->
  X86.sovf w (X86.Sg w a + X86.Sg w 1) = (a =? 2 ^ (w - 1) - 1).
Proof. intros Hw Ha. destruct Hw as [->|[->|[->| ->]]]; unfold X86.sovf, X86.Sg, ConstSpec.S in *; pows; split_ifs; lia. Qed.
Lemma dec_of w a : width_ok w -> 0 <= a < 2 ^ w ->
  X86.sovf w (X86.Sg w a - X86.Sg w 1) = (a =? 2 ^ (w - 1)).
Proof. intros Hw Ha. destruct Hw as [->|[->|[->| ->]]]; unfold X86.sovf, X86.Sg, ConstSpec.S in *; pows; split_ifs; lia. Qed.

Theorem incdec_sim m addr len (sub : bool) sz dst :
  reg_operand_ok m sz dst -> width_ok sz -> sim m addr len (IUn (if sub then UDec else UInc) sz dst).
Proof.
  intros Hd Hwd s st s' ip Hw He Hstep.
  destruct (reg_operand_shape m sz dst Hd) as (sd & Hs & Hr & Hi).
  destruct (dst_expr m sz dst s st sd Hw He Hr Hs) as (lhs & Ol).
  pose proof (rd_reg_operand m sz dst s sd Hi Hs) as Rd.
  destruct (incdec_reg_ops_correct st m sub sz dst _ sd _ lhs Hs (gpr_name_ok m _ Hr) Hwd (wf_rng _ _ Hw _ Hr)
              (emb_gpr _ _ _ He _ Hr) Ol)
    as (ops & st' & _ & Hops & Hasg & Hlen & Hex & Hfr & Hm & Ev & Ez & Es & Eo & Ec).
  set (a := arch_read sd (wordsz m) (rget (x_gpr s) (oreg dst))) in *.
  destruct (operand_shape_xreg _ _ _ _ _ Hs) as (_ & Vd & Bd).
  assert (Ha: 0 <= a < 2 ^ sz) by (unfold a; rewrite <- Bd; apply arch_read_range; [exact Vd|apply (wf_rng _ _ Hw); exact Hr]).
  set (r := if sub then U sz (a - 1) else U sz (a + 1)) in *.
  assert (Hres: 0 <= r < 2 ^ sz) by (unfold r, U; destruct sub; apply Z.mod_pos_bound; destruct Hwd as [->|[->|[->| ->]]]; reflexivity).
  assert (Ecf: emb_flag (f_cf (x_fl s)) (st_env st') kCF).
  { pose proof (emb_cf _ _ _ He) as C. unfold emb_flag in *. destruct (f_cf (x_fl s)); [rewrite Ec; exact C|destruct C as [v C]; exists v; rewrite Ec; exact C]. }
  destruct (sim_write_pack m addr len s st dst sz sd r ops st' (f_cf (x_fl s)) _ Hw He Hr Hi Hs Hres Hasg
              ltac:(destruct ops; [cbn in Hlen; lia|discriminate]) ltac:(lia) Hex Hfr Hm Ev Ez Es Eo Ecf)
    as (s2 & Hwr & st2 & Hrun & Hemb & Hwf).
  assert (Hst: step m (addr + len) (IUn (if sub then UDec else UInc) sz dst) s =
               match option_map (fun s1 => set_fl s1 (fl_arith (x_fl s) (f_cf (x_fl s))
                        (FB (X86.sovf sz (if sub then X86.Sg sz a - X86.Sg sz 1 else X86.Sg sz a + X86.Sg sz 1))) sz r)) (wr_op sz dst r s) with
               | Some s1 => XNext s1 (addr + len) | None => XFault end).
  { unfold step. rewrite Rd. fold a. unfold r. destruct sub; cbn [un]; [rewrite (dec_of sz a Hwd Ha)|rewrite (inc_of sz a Hwd Ha)]; reflexivity. }
  rewrite Hst, Hwr in Hstep. inversion Hstep; subst s' ip.
  exists (one_block addr ops). split.
  - unfold mirror_instr. rewrite Hi.
    assert (Q: lift_un m (if sub then UDec else UInc) sz dst = Some (Ok ops)).
    { destruct sub; unfold lift_un; cbn [lift_un_gen]; rewrite Ol; cbn [bind]; rewrite <- Hops; reflexivity. }
    rewrite Q. reflexivity.
  - exists st2. auto.
Qed.

(* ---------- mov ---------- *)
Theorem mov_sim m addr len sz dst src :
  reg_operand_ok m sz dst -> src_operand_ok m sz src -> sim m addr len (IMov sz dst src).
Proof.
  intros Hd Hsrc s st s' ip Hw He Hstep.
  destruct (reg_operand_shape m sz dst Hd) as (sd & Hs & Hr & Hi).
  destruct (src_expr m sz src s st Hw He Hsrc) as (rhs & b & Os & Br & Hb & Dr & Cr & Rs).
  destruct (operand_shape_xreg _ _ _ _ _ Hs) as (Xd & Vd & Bd).
  assert (Hb': 0 <= b < 2 ^ shape_bits (wordsz m) sd) by (rewrite Bd; exact Hb).
  assert (Br': e_bits rhs = shape_bits (wordsz m) sd) by (rewrite Bd; exact Br).
  assert (Dr': den (st_env st) rhs = Ok (mkc (shape_bits (wordsz m) sd) b)) by (rewrite Bd; exact Dr).
  destruct (reg_set_correct (st_env st) _ (wordsz m) sd _ rhs b Vd (wf_rng _ _ Hw _ Hr) Hb' (emb_gpr _ _ _ He _ Hr) Br' Dr')
    as (e & Se & De).
  set (nd := gpr_name m (oreg dst)) in *.
  set (v := arch_write sd (wordsz m) (rget (x_gpr s) (oreg dst)) b) in *.
  set (st' := mkst (env_set (st_env st) (nd, None) (mkc (wordsz m) v)) (st_mem st)).
  destruct (wr_reg_operand m sz dst s sd b Hi Hw Hr Hs) as (g' & Wr & Lg & Gv & Go).
  unfold step in Hstep. rewrite Rs in Hstep. cbn [obind] in Hstep. rewrite Wr in Hstep. inversion Hstep; subst s' ip.
  assert (Hex: exec_ops st [OAssign (mks nd (wordsz m) None) e] = Ok st').
  { cbn [exec_ops]. rewrite (exec_assign st _ _ _ De). reflexivity. }
  exists (one_block addr [OAssign (mks nd (wordsz m) None) e]). split.
  - unfold mirror_instr. rewrite Hi, (src_regimm _ _ _ Hsrc). cbn [andb]. unfold lift_mov, ops_store.
    rewrite Os, Xd. cbn [bind]. fold nd in Se. rewrite Se. reflexivity.
  - exists st'. split; [apply run_one_block; [reflexivity|discriminate|cbn; lia|exact Hex]|].
    assert (Fr: forall k, k <> (nd, None) -> k <> kT0 -> k <> kZF -> k <> kSF -> k <> kOF -> k <> kCF ->
                 env_get (st_env st') k = env_get (st_env st) k).
    { intros k K _ _ _ _ _. unfold st'. cbn [st_env]. apply env_get_set_other. exact K. }
    assert (Ev: env_get (st_env st') (nd, None) = Some (mkc (wordsz m) v)) by (unfold st'; cbn [st_env]; apply env_get_set_same).
    destruct (emb_frame m s st st' (oreg dst) g' v Hw He Hr Fr Ev Gv Go) as (Eg & Ed).
    pose proof (reg_name_not_special _ (gpr_name_ok m _ Hr)) as (N0 & N1 & N2 & N3 & N4). fold nd in N0, N1, N2, N3, N4.
    assert (Fl: forall f k, k <> (nd, None) -> emb_flag f (st_env st) k -> emb_flag f (st_env st') k).
    { intros f k K F. unfold emb_flag in *. unfold st'. cbn [st_env]. destruct f; [rewrite env_get_set_other by exact K; exact F|].
      destruct F as [v0 F]. exists v0. rewrite env_get_set_other by exact K. exact F. }
    split.
    + constructor; cbn [set_gpr x_gpr x_fl x_mem]; try assumption.
      * apply Fl; [unfold kCF; congruence|apply (emb_cf _ _ _ He)].
      * apply Fl; [unfold kZF; congruence|apply (emb_zf _ _ _ He)].
      * apply Fl; [unfold kSF; congruence|apply (emb_sf _ _ _ He)].
      * apply Fl; [unfold kOF; congruence|apply (emb_of _ _ _ He)].
      * intros a0. apply (emb_mem _ _ _ He).
      * apply (emb_le _ _ _ He).
    + constructor; cbn [set_gpr x_gpr x_mem]; [rewrite Lg; apply (wf_len _ _ Hw)| |apply (wf_bytes _ _ Hw)].
      intros r' Hr'. destruct (Z.eq_dec r' (oreg dst)) as [->|N].
      * rewrite Gv. apply arch_write_range; [exact Vd|apply (wf_rng _ _ Hw); exact Hr|exact Hb'].
      * rewrite Go by lia. apply (wf_rng _ _ Hw). exact Hr'.
Qed.

(* ---------- a single register write of a computed value (mov, setcc, movzx/movsx, lea share this) ---------- *)
Lemma assign_reg_pack m addr len s st dst sz sd rhs b :
  wf m s -> emb m s st -> 0 <= oreg dst < ngpr m -> isreg dst = true ->
  operand_shape m sz dst = Some (gpr_name m (oreg dst), sd) ->
  e_bits rhs = sz -> 0 <= b < 2 ^ sz -> den (st_env st) rhs = Ok (mkc sz b) ->
  exists ops, ops_store m sz dst rhs = Ok ops /\
  exists st' g', run_instr 600 (one_block addr ops) [(addr + len, None)] addr st = RunOk st' (Some (addr + len)) /\
                 wr_op sz dst b s = Some (set_gpr s g') /\ emb m (set_gpr s g') st' /\ wf m (set_gpr s g').
Proof.
  intros Hw He Hr Hi Hs Br Hb Dr.
  destruct (operand_shape_xreg _ _ _ _ _ Hs) as (Xd & Vd & Bd).
  assert (Hb': 0 <= b < 2 ^ shape_bits (wordsz m) sd) by (rewrite Bd; exact Hb).
  assert (Br': e_bits rhs = shape_bits (wordsz m) sd) by (rewrite Bd; exact Br).
  assert (Dr': den (st_env st) rhs = Ok (mkc (shape_bits (wordsz m) sd) b)) by (rewrite Bd; exact Dr).
  destruct (reg_set_correct (st_env st) _ (wordsz m) sd _ rhs b Vd (wf_rng _ _ Hw _ Hr) Hb' (emb_gpr _ _ _ He _ Hr) Br' Dr')
    as (e & Se & De).
  set (nd := gpr_name m (oreg dst)) in *.
  set (v := arch_write sd (wordsz m) (rget (x_gpr s) (oreg dst)) b) in *.
  set (st' := mkst (env_set (st_env st) (nd, None) (mkc (wordsz m) v)) (st_mem st)).
  destruct (wr_reg_operand m sz dst s sd b Hi Hw Hr Hs) as (g' & Wr & Lg & Gv & Go).
  assert (Hex: exec_ops st [OAssign (mks nd (wordsz m) None) e] = Ok st').
  { cbn [exec_ops]. rewrite (exec_assign st _ _ _ De). reflexivity. }
  exists [OAssign (mks nd (wordsz m) None) e]. split; [unfold ops_store; rewrite Xd; exact Se|].
  exists st', g'. split; [apply run_one_block; [reflexivity|discriminate|cbn; lia|exact Hex]|]. split; [exact Wr|].
  assert (Fr: forall k, k <> (nd, None) -> k <> kT0 -> k <> kZF -> k <> kSF -> k <> kOF -> k <> kCF ->
               env_get (st_env st') k = env_get (st_env st) k).
  { intros k K _ _ _ _ _. unfold st'. cbn [st_env]. apply env_get_set_other. exact K. }
  assert (Ev: env_get (st_env st') (nd, None) = Some (mkc (wordsz m) v)) by (unfold st'; cbn [st_env]; apply env_get_set_same).
  destruct (emb_frame m s st st' (oreg dst) g' v Hw He Hr Fr Ev Gv Go) as (Eg & Ed).
  pose proof (reg_name_not_special _ (gpr_name_ok m _ Hr)) as (N0 & N1 & N2 & N3 & N4). fold nd in N0, N1, N2, N3, N4.
  assert (Fl: forall f k, k <> (nd, None) -> emb_flag f (st_env st) k -> emb_flag f (st_env st') k).
  { intros f k K F. unfold emb_flag in *. unfold st'. cbn [st_env]. destruct f; [rewrite env_get_set_other by exact K; exact F|].
    destruct F as [v0 F]. exists v0. rewrite env_get_set_other by exact K. exact F. }
  split.
  - constructor; cbn [set_gpr x_gpr x_fl x_mem]; try assumption.
    + apply Fl; [unfold kCF; congruence|apply (emb_cf _ _ _ He)].
    + apply Fl; [unfold kZF; congruence|apply (emb_zf _ _ _ He)].
    + apply Fl; [unfold kSF; congruence|apply (emb_sf _ _ _ He)].
    + apply Fl; [unfold kOF; congruence|apply (emb_of _ _ _ He)].
    + intros a0. apply (emb_mem _ _ _ He).
    + apply (emb_le _ _ _ He).
  - constructor; cbn [set_gpr x_gpr x_mem]; [rewrite Lg; apply (wf_len _ _ Hw)| |apply (wf_bytes _ _ Hw)].
    intros r' Hr'. destruct (Z.eq_dec r' (oreg dst)) as [->|N].
    + rewrite Gv. apply arch_write_range; [exact Vd|apply (wf_rng _ _ Hw); exact Hr|exact Hb'].
    + rewrite Go by lia. apply (wf_rng _ _ Hw). exact Hr'.
Qed.

(* ---------- condition codes: Semantics::cc_condition = the architectural predicate, all 16 codes ---------- *)
Definition kPF : skey := (X86Mirror.n_PF, None).
Definition flags_of_bools (cf pf zf sf of : bool) : flags := mkfl (FB cf) (FB pf) (FB zf) (FB sf) (FB of) FU.

Theorem cc_condition_correct en c (cf pf zf sf of : bool) :
  env_get en kCF = Some (mkc 1 (X86.b2z cf)) -> env_get en kPF = Some (mkc 1 (X86.b2z pf)) ->
  env_get en kZF = Some (mkc 1 (X86.b2z zf)) -> env_get en kSF = Some (mkc 1 (X86.b2z sf)) ->
  env_get en kOF = Some (mkc 1 (X86.b2z of)) ->
  exists e b, cc_condition c = Ok e /\ e_bits e = 1 /\
              cond c (flags_of_bools cf pf zf sf of) = Some b /\ den en e = Ok (mkc 1 (X86.b2z b)).
Proof.
  intros Hc Hp Hz Hs Ho.
  destruct c; (eexists; eexists; split; [reflexivity|]; split; [reflexivity|]; split; [reflexivity|]);
    cbn [den bind]; unfold skey_of, flag_scalar; cbn [sname sssa sbits];
    change (X86Lift.n_CF, @None N) with kCF; change (X86Lift.n_ZF, @None N) with kZF; change (X86Lift.n_SF, @None N) with kSF;
    change (X86Lift.n_OF, @None N) with kOF; change (X86Mirror.n_PF, @None N) with kPF;
    rewrite ?Hc, ?Hp, ?Hz, ?Hs, ?Ho; destruct cf, pf, zf, sf, of; reflexivity.
Qed.

(* from an embedded state: the codes that do not read PF (PF is not part of the embedding) *)
Definition cc_no_pf (c : cc) : bool := match c with CP | CNP => false | _ => true end.
Lemma cc_condition_emb m s st c b : emb m s st -> cc_no_pf c = true -> cond c (x_fl s) = Some b ->
  exists e, cc_condition c = Ok e /\ e_bits e = 1 /\ den (st_env st) e = Ok (mkc 1 (X86.b2z b)).
Proof.
  intros He Hn Hc.
  pose proof (emb_cf _ _ _ He) as Ec. pose proof (emb_zf _ _ _ He) as Ez.
  pose proof (emb_sf _ _ _ He) as Es. pose proof (emb_of _ _ _ He) as Eo.
  unfold emb_flag in *. unfold cond in Hc.
  destruct c; try discriminate Hn; (eexists; split; [reflexivity|]; split; [reflexivity|]);
    cbn [den bind]; unfold skey_of, flag_scalar; cbn [sname sssa sbits];
    change (X86Lift.n_CF, @None N) with kCF; change (X86Lift.n_ZF, @None N) with kZF; change (X86Lift.n_SF, @None N) with kSF;
    change (X86Lift.n_OF, @None N) with kOF;
    destruct (f_cf (x_fl s)) as [cf|], (f_zf (x_fl s)) as [zf|], (f_sf (x_fl s)) as [sf|], (f_of (x_fl s)) as [of|];
    cbn [flag_is option_map] in Hc; try discriminate Hc; inversion Hc; subst b;
    rewrite ?Ec, ?Ez, ?Es, ?Eo;
    repeat match goal with x : bool |- _ => destruct x end; reflexivity.
Qed.

(* ---------- setcc r8 (the 14 codes that do not read PF) ---------- *)
Theorem setcc_sim m addr len c dst :
  reg_operand_ok m 8 dst -> cc_no_pf c = true -> sim m addr len (ISetcc c dst).
Proof.
  intros Hd Hn s st s' ip Hw He Hstep.
  destruct (reg_operand_shape m 8 dst Hd) as (sd & Hs & Hr & Hi).
  unfold step in Hstep. destruct (cond c (x_fl s)) as [b|] eqn:Hc; [|discriminate].
  destruct (cc_condition_emb m s st c b He Hn Hc) as (e & Ce & Be & De).
  assert (Z8: mk_ext Zext 8 e = Ok (EExt Zext 8 e)) by (unfold mk_ext; rewrite Be; reflexivity).
  assert (Dz: den (st_env st) (EExt Zext 8 e) = Ok (mkc 8 (X86.b2z b))) by (cbn [den]; rewrite De; reflexivity).
  assert (Hb: 0 <= X86.b2z b < 2 ^ 8) by (destruct b; cbn; lia).
  destruct (assign_reg_pack m addr len s st dst 8 sd (EExt Zext 8 e) (X86.b2z b) Hw He Hr Hi Hs eq_refl Hb Dz)
    as (ops & Hops & st' & g' & Hrun & Hwr & Hemb & Hwf).
  rewrite Hwr in Hstep. inversion Hstep; subst s' ip.
  exists (one_block addr ops). split.
  - unfold mirror_instr. rewrite Hi. unfold lift_setcc. rewrite Ce. cbn [bind]. rewrite Z8. cbn [bind]. rewrite Hops. reflexivity.
  - exists st'. auto.
Qed.

(* ---------- movzx / movsx / movsxd with a register source ---------- *)
Theorem movx_sim m addr len (sg : bool) dsz ssz dst src :
  reg_operand_ok m dsz (OReg dst) -> reg_operand_ok m ssz src -> width_ok dsz -> width_ok ssz -> ssz < dsz ->
  sim m addr len (IMovx sg dsz ssz dst src).
Proof.
  intros Hd Hsrc Wd Ws Hlt s st s' ip Hw He Hstep.
  destruct (reg_operand_shape m dsz (OReg dst) Hd) as (sd & Hs & Hr & Hi).
  assert (Hso: src_operand_ok m ssz src) by (destruct src; cbn in Hsrc |- *; try contradiction; exact Hsrc).
  destruct (src_expr m ssz src s st Hw He Hso) as (rhs & b & Os & Br & Hb & Dr & _ & Rs).
  set (v := if sg then U dsz (X86.Sg ssz b) else b).
  assert (Mk: mk_ext (if sg then Sext else Zext) dsz rhs = Ok (EExt (if sg then Sext else Zext) dsz rhs)).
  { unfold mk_ext. rewrite Br.
    assert (Q: (dsz <=? ssz) || (ssz =? 0) = false) by (destruct Ws as [->|[->|[->| ->]]]; (apply orb_false_iff; split; [apply Z.leb_gt; lia|reflexivity])).
    destruct sg; rewrite Q; reflexivity. }
  assert (Dv: den (st_env st) (EExt (if sg then Sext else Zext) dsz rhs) = Ok (mkc dsz v)).
  { cbn [den]. rewrite Dr. cbn [bind]. unfold v, sp_ext. cbn [cbits cval].
    assert (Q: (dsz <=? ssz) = false) by (apply Z.leb_gt; lia).
    destruct sg; rewrite Q; reflexivity. }
  assert (Hv: 0 <= v < 2 ^ dsz).
  { unfold v. destruct sg; [unfold U; apply Z.mod_pos_bound; destruct Wd as [->|[->|[->| ->]]]; reflexivity|].
    split; [lia|]. apply Z.lt_le_trans with (2 ^ ssz); [lia|]. apply Z.pow_le_mono_r; lia. }
  assert (Bv: e_bits (EExt (if sg then Sext else Zext) dsz rhs) = dsz) by reflexivity.
  destruct (assign_reg_pack m addr len s st (OReg dst) dsz sd _ v Hw He Hr Hi Hs Bv Hv Dv)
    as (ops & Hops & st' & g' & Hrun & Hwr & Hemb & Hwf).
  unfold step in Hstep. rewrite Rs in Hstep. cbn [obind] in Hstep. fold v in Hstep. rewrite Hwr in Hstep.
  inversion Hstep; subst s' ip.
  exists (one_block addr ops). split.
  - unfold mirror_instr. assert (Is: isreg src = true) by (destruct src; try contradiction; reflexivity). rewrite Is.
    unfold lift_movx. rewrite Os. cbn [bind]. rewrite Mk. cbn [bind]. rewrite Hops. reflexivity.
  - exists st'. auto.
Qed.

(* ---------- effective addresses: Mode::operand_value on a memory operand = X86.ea, incl. address-size prefix ---------- *)
Definition asz_ok (m : mode) (asz : Z) : Prop :=
  match m with M64 => asz = 32 \/ asz = 64 | M32 => asz = 16 \/ asz = 32 end.
Definition scale_ok (sc : Z) : Prop := sc = 1 \/ sc = 2 \/ sc = 4 \/ sc = 8.
Definition mem_operand_ok (m : mode) (o : operand) : Prop :=
  match o with
  | OMem base index disp asz =>
      asz_ok m asz /\ Z.abs disp < 2 ^ asz /\ (base <> None \/ index <> None) /\
      (forall r, base = Some r -> 0 <= r < ngpr m) /\
      (forall r sc, index = Some (r, sc) -> 0 <= r < ngpr m /\ scale_ok sc)
  | _ => False
  end.

Lemma asz_facts m asz : asz_ok m asz -> 0 < asz <= wordsz m /\ size_shape m asz <> None /\ 0 < 2 ^ asz.
Proof. destruct m; intros [->| ->]; cbn; repeat split; try lia; discriminate. Qed.
Lemma asz_ge16 m asz : asz_ok m asz -> 16 <= asz.
Proof. destruct m; intros [->| ->]; lia. Qed.

(* one address register at the address size *)
Lemma addr_reg m asz r s st : wf m s -> emb m s st -> asz_ok m asz -> 0 <= r < ngpr m ->
  exists e, opv m asz (OReg r) = Ok e /\ e_bits e = asz /\
            den (st_env st) e = Ok (mkc asz (rget (x_gpr s) r mod 2 ^ asz)).
Proof.
  intros Hw He Ha Hr. destruct (asz_facts m asz Ha) as (_ & Hs & _).
  destruct (src_expr m asz (OReg r) s st Hw He (conj Hr Hs)) as (e & b & Oe & Be & _ & De & _ & Re).
  exists e. cbn [rd_op] in Re. inversion Re; subst b. auto.
Qed.

Lemma disp_step en op asz Y disp : 0 < 2 ^ asz -> 0 <= asz -> Z.abs disp < 2 ^ asz ->
  e_bits op = asz -> den en op = Ok (mkc asz (Y mod 2 ^ asz)) ->
  exists op', (if 0 <? disp then mk_bin Add op (expr_const disp asz)
               else if disp <? 0 then mk_bin Sub op (expr_const (- disp) asz) else Ok op) = Ok op' /\
              e_bits op' = asz /\ den en op' = Ok (mkc asz ((Y + disp) mod 2 ^ asz)).
Proof.
  intros Hp Ha Hd Bo Do.
  destruct (Z.ltb_spec 0 disp) as [P|NP]; [|destruct (Z.ltb_spec disp 0) as [N|NN]].
  - eexists. split; [unfold mk_bin; rewrite Bo; cbn [e_bits expr_const new_big cbits]; rewrite Z.eqb_refl; reflexivity|].
    split; [cbn [e_bits is_cmp]; exact Bo|].
    cbn [den]. rewrite Do. cbn [bind]. unfold expr_const. rewrite new_big_spec by exact Ha. cbn [den].
    cbn [bind]. unfold sp_bin_c. cbn [cbits cval]. rewrite Z.eqb_refl. cbn [negb sp_bin]. unfold s_add, U.
    rewrite (Z.mod_small disp) by lia. rewrite Zplus_mod_idemp_l. reflexivity.
  - eexists. split; [unfold mk_bin; rewrite Bo; cbn [e_bits expr_const new_big cbits]; rewrite Z.eqb_refl; reflexivity|].
    split; [cbn [e_bits is_cmp]; exact Bo|].
    cbn [den]. rewrite Do. cbn [bind]. unfold expr_const. rewrite new_big_spec by exact Ha. cbn [den].
    cbn [bind]. unfold sp_bin_c. cbn [cbits cval]. rewrite Z.eqb_refl. cbn [negb sp_bin]. unfold s_sub, U.
    rewrite (Z.mod_small (- disp)) by lia. rewrite Zminus_mod_idemp_l. f_equal. f_equal. f_equal. lia.
  - assert (disp = 0) by lia. subst disp. exists op. rewrite Z.add_0_r. auto.
Qed.

Lemma zext_step en m op asz V : 0 < asz <= wordsz m -> e_bits op = asz -> den en op = Ok (mkc asz V) ->
  exists e, (if e_bits op <? wordsz m then mk_ext Zext (wordsz m) op else Ok op) = Ok e /\
            e_bits e = wordsz m /\ den en e = Ok (mkc (wordsz m) V).
Proof.
  intros Ha Bo Do. rewrite Bo. destruct (Z.ltb_spec asz (wordsz m)) as [L|G].
  - eexists. split; [unfold mk_ext; rewrite Bo|].
    + assert (Q: (wordsz m <=? asz) || (asz =? 0) = false) by (apply orb_false_iff; split; [apply Z.leb_gt; lia|apply Z.eqb_neq; lia]).
      rewrite Q. reflexivity.
    + split; [reflexivity|]. cbn [den]. rewrite Do. cbn [bind]. unfold sp_ext. cbn [cbits cval].
      assert (Q: (wordsz m <=? asz) = false) by (apply Z.leb_gt; lia). rewrite Q. reflexivity.
  - assert (E: asz = wordsz m) by lia. exists op. split; [reflexivity|]. split; [rewrite Bo; exact E|rewrite <- E; exact Do].
Qed.

Theorem addr_expr_correct m o s st : wf m s -> emb m s st -> mem_operand_ok m o ->
  exists e, addr_expr m o = Some (Ok e) /\ e_bits e = wordsz m /\
            den (st_env st) e = Ok (mkc (wordsz m) (ea (x_gpr s) o)).
Proof.
  intros Hw He Ho. destruct o as [| |base index disp asz|]; try contradiction.
  destruct Ho as (Ha & Hd & Hne & Hb & Hi).
  destruct (asz_facts m asz Ha) as (Hz & _ & Hp). assert (A0: 0 <= asz) by lia.
  set (en := st_env st). set (g := x_gpr s). set (p := 2 ^ asz) in *.
  destruct base as [rb|]; destruct index as [[ri sc]|]; try (destruct Hne; congruence); unfold addr_expr, ea; fold g.
  - (* base + index * scale *)
    destruct (addr_reg m asz rb s st Hw He Ha (Hb rb eq_refl)) as (eb & Ob & Bb & Db).
    destruct (Hi ri sc eq_refl) as (Hri & Hsc).
    destruct (addr_reg m asz ri s st Hw He Ha Hri) as (ei & Oi & Bi & Di).
    rewrite Ob, Oi. cbn [bind]. rewrite Bb.
    assert (Ms: mk_bin Mul ei (expr_const sc asz) = Ok (EBin Mul ei (expr_const sc asz)))
      by (unfold mk_bin; rewrite Bi; cbn [e_bits expr_const new_big cbits]; rewrite Z.eqb_refl; reflexivity).
    rewrite Ms. cbn [bind].
    assert (Ma: mk_bin Add eb (EBin Mul ei (expr_const sc asz)) = Ok (EBin Add eb (EBin Mul ei (expr_const sc asz))))
      by (unfold mk_bin; cbn [e_bits is_cmp]; rewrite Bb, Bi, Z.eqb_refl; reflexivity).
    rewrite Ma. cbn [bind].
    assert (Dop: den en (EBin Add eb (EBin Mul ei (expr_const sc asz))) = Ok (mkc asz ((rget g rb + rget g ri * sc) mod p))).
    { cbn [den]. fold en in Db, Di. rewrite Db, Di. cbn [bind]. unfold expr_const. rewrite new_big_spec by exact A0. cbn [den].
      cbn [bind]. unfold sp_bin_c. cbn [cbits cval]. rewrite Z.eqb_refl. cbn [negb sp_bin bind cbits cval]. rewrite Z.eqb_refl. cbn [negb sp_bin].
      unfold s_add, s_mul, U. fold p.
      assert (P16: 2 ^ 16 <= p) by (apply Z.pow_le_mono_r; [lia|apply (asz_ge16 m); exact Ha]). change (2 ^ 16) with 65536 in P16.
      assert (Sm: sc mod p = sc) by (apply Z.mod_small; destruct Hsc as [->|[->|[->| ->]]]; lia).
      rewrite Sm. rewrite Zmult_mod_idemp_l. rewrite Zplus_mod_idemp_l, Zplus_mod_idemp_r. reflexivity. }
    assert (Bop: e_bits (EBin Add eb (EBin Mul ei (expr_const sc asz))) = asz) by (cbn [e_bits is_cmp]; exact Bb).
    destruct (disp_step en _ asz _ disp Hp A0 Hd Bop Dop) as (op' & Eo & Bo & Do).
    rewrite Eo. cbn [bind].
    destruct (zext_step en m op' asz _ Hz Bo Do) as (e & Ee & Be & De).
    exists e. rewrite Ee. split; [reflexivity|]. split; [exact Be|]. rewrite De. reflexivity.
  - (* base only *)
    destruct (addr_reg m asz rb s st Hw He Ha (Hb rb eq_refl)) as (eb & Ob & Bb & Db).
    rewrite Ob. cbn [bind]. rewrite Bb.
    destruct (disp_step en eb asz _ disp Hp A0 Hd Bb Db) as (op' & Eo & Bo & Do).
    rewrite Eo. cbn [bind].
    destruct (zext_step en m op' asz _ Hz Bo Do) as (e & Ee & Be & De).
    exists e. rewrite Ee. split; [reflexivity|]. split; [exact Be|]. rewrite De. rewrite Z.add_0_r. reflexivity.
  - (* index * scale only *)
    destruct (Hi ri sc eq_refl) as (Hri & Hsc).
    destruct (addr_reg m asz ri s st Hw He Ha Hri) as (ei & Oi & Bi & Di).
    rewrite Oi. cbn [bind]. rewrite Bi.
    assert (Ms: mk_bin Mul ei (expr_const sc asz) = Ok (EBin Mul ei (expr_const sc asz)))
      by (unfold mk_bin; rewrite Bi; cbn [e_bits expr_const new_big cbits]; rewrite Z.eqb_refl; reflexivity).
    rewrite Ms. cbn [bind].
    assert (Dop: den en (EBin Mul ei (expr_const sc asz)) = Ok (mkc asz ((rget g ri * sc) mod p))).
    { cbn [den]. fold en in Di. rewrite Di. cbn [bind]. unfold expr_const. rewrite new_big_spec by exact A0. cbn [den].
      cbn [bind]. unfold sp_bin_c. cbn [cbits cval]. rewrite Z.eqb_refl. cbn [negb sp_bin].
      unfold s_mul, U. fold p.
      assert (P16: 2 ^ 16 <= p) by (apply Z.pow_le_mono_r; [lia|apply (asz_ge16 m); exact Ha]). change (2 ^ 16) with 65536 in P16.
      assert (Sm: sc mod p = sc) by (apply Z.mod_small; destruct Hsc as [->|[->|[->| ->]]]; lia).
      rewrite Sm. rewrite Zmult_mod_idemp_l. reflexivity. }
    assert (Bop: e_bits (EBin Mul ei (expr_const sc asz)) = asz) by (cbn [e_bits is_cmp]; exact Bi).
    destruct (disp_step en _ asz _ disp Hp A0 Hd Bop Dop) as (op' & Eo & Bo & Do).
    rewrite Eo. cbn [bind].
    destruct (zext_step en m op' asz _ Hz Bo Do) as (e & Ee & Be & De).
    exists e. rewrite Ee. split; [reflexivity|]. split; [exact Be|]. rewrite De. reflexivity.
Qed.

(* ---------- lea r, [base + index*scale + disp] (any address size, incl. the 0x67 prefix) ---------- *)
Theorem lea_sim m addr len sz dst src :
  reg_operand_ok m sz (OReg dst) -> width_ok sz -> mem_operand_ok m src -> sim m addr len (ILea sz dst src).
Proof.
  intros Hd Wd Hsrc s st s' ip Hw He Hstep.
  destruct (reg_operand_shape m sz (OReg dst) Hd) as (sd & Hs & Hr & Hi).
  destruct (addr_expr_correct m src s st Hw He Hsrc) as (a & Ea & Ba & Da).
  destruct (operand_shape_xreg _ _ _ _ _ Hs) as (_ & Vd & Bd).
  assert (Hsz: sz <= wordsz m).
  { destruct Vd as [Vw _]. rewrite <- Bd. destruct sd; cbn [shape_bits]; destruct Vw as [->| ->]; try lia;
      cbn [operand_shape] in Hs; destruct (size_shape m sz) eqn:E; cbn in Hs; try discriminate; inversion Hs; subst;
      unfold size_shape in E; destruct m; cbn [wordsz] in *; repeat match type of E with context [if ?c then _ else _] => destruct c eqn:? end; try discriminate; lia. }
  set (v := U sz (ea (x_gpr s) src)).
  assert (W0: 0 < 2 ^ sz) by (destruct Wd as [->|[->|[->| ->]]]; reflexivity).
  assert (Hv: 0 <= v < 2 ^ sz) by (unfold v, U; apply Z.mod_pos_bound; exact W0).
  assert (Hea: 0 <= ea (x_gpr s) src < 2 ^ wordsz m).
  { destruct src as [| |b0 i0 d0 asz|]; try contradiction. destruct Hsrc as (Ha & _).
    destruct (asz_facts m asz Ha) as (Hz & _ & Hp). unfold ea.
    pose proof (Z.mod_pos_bound ((match b0 with Some r => rget (x_gpr s) r | None => 0 end) + (match i0 with Some (r, sc) => rget (x_gpr s) r * sc | None => 0 end) + d0) (2 ^ asz) Hp) as Q.
    split; [lia|]. apply Z.lt_le_trans with (2 ^ asz); [lia|]. apply Z.pow_le_mono_r; lia. }
  assert (T: exists a', (if sz <? e_bits a then mk_ext Trun sz a else Ok a) = Ok a' /\ e_bits a' = sz /\
                        den (st_env st) a' = Ok (mkc sz v)).
  { rewrite Ba. destruct (Z.ltb_spec sz (wordsz m)) as [L|G].
    - eexists. split; [unfold mk_ext; rewrite Ba|].
      + assert (Q: (wordsz m <=? sz) || (wordsz m =? 0) = false) by (apply orb_false_iff; split; [apply Z.leb_gt; lia|destruct m; reflexivity]).
        rewrite Q. reflexivity.
      + split; [reflexivity|]. cbn [den]. rewrite Da. cbn [bind]. unfold sp_ext. cbn [cbits cval].
        assert (Q: (wordsz m <=? sz) = false) by (apply Z.leb_gt; lia). rewrite Q. reflexivity.
    - assert (E: sz = wordsz m) by lia. exists a. split; [reflexivity|]. split; [rewrite Ba; symmetry; exact E|].
      rewrite Da. unfold v, U. rewrite E. rewrite Z.mod_small by exact Hea. reflexivity. }
  destruct T as (a' & Ta & Ba' & Da').
  destruct (assign_reg_pack m addr len s st (OReg dst) sz sd a' v Hw He Hr Hi Hs Ba' Hv Da')
    as (ops & Hops & st' & g' & Hrun & Hwr & Hemb & Hwf).
  unfold step in Hstep. fold v in Hstep. rewrite Hwr in Hstep. inversion Hstep; subst s' ip.
  exists (one_block addr ops). split.
  - unfold mirror_instr, lift_lea. rewrite Ea. cbn [option_map bind]. rewrite Ta. cbn [bind]. rewrite Hops. reflexivity.
  - exists st'. auto.
Qed.
