(* Isa/C02Check.v -- the per-case checker evaluated in the kernel by the C02 case files.

   One case = one encoding (an instruction word, or a branch word and its delay-slot word), the
   endianness, the address it was lifted at, what the REAL lifter produced for those bytes (every
   instruction graph of the translated block, in order, with the ids of the temporaries first seen in
   it, and the block's successors), and a list of sampled machine states.

   fst (tie)    : the dumped IL is well formed (entry/exit set), the decoded fields and the address satisfy the
                  side conditions of the theorems (case_okb) and, for the forms the mirror covers,
                  `mirror (decode word) = dumped IL` syntactically (this transfers the theorems of
                  Props/C02.v to this encoding for ALL states).
   snd (oracle) : for every sampled state, running the dumped IL with the reference IL semantics
                  (Isa/ILRun.v over Exec/Sem.v) from the embedded state gives what the ISA specification
                  (Isa/Mips.v, from the decoded word) prescribes: registers, HI/LO, memory bytes,
                  next pc / exception.  UNPREDICTABLE components are not compared.  Temporaries, the
                  write-only `$zero` scalar and `branching_condition` are ignored. *)
From Coq Require Import ZArith List Bool NArith.
From Falcon Require Import Base.Res IL.Const IL.ConstSpec IL.Expr IL.Func IL.Loc Exec.Sem Isa.ILRun Isa.Mips Isa.MipsLift.
From Falcon Require Isa.Ppc Isa.PpcLift.
Import ListNotations.
Local Open Scope Z_scope.

Record sample := mksample { sm_regs : list (Z * Z); sm_hi : Z; sm_lo : Z; sm_seed : Z }.

(* (address, graph, temporaries first seen in the graph) list, successors *)
Definition lifted := (list (Z * cfg * list N) * list (Z * option expr))%type.

Record psample := mkpsample { ps_regs : list (Z * Z); ps_lr : Z; ps_ctr : Z; ps_cr : Z; ps_ca : Z; ps_so : Z; ps_seed : Z }.

Inductive case :=
| KMips (big : bool) (addr : Z) (ws : list Z) (l : option lifted) (samples : list sample)
| KPpc (addr : Z) (w : Z) (l : option lifted) (psamples : list psample)
| KSkip.

(* ---------- sampled machine states ---------- *)
Fixpoint assocZ (l : list (Z * Z)) (k : Z) : option Z :=
  match l with [] => None | (a, v) :: t => if a =? k then Some v else assocZ t k end.
Definition dflt_reg (r : Z) : Z := (r * 16843009 + 305419896) mod W.
Definition mk_mstate (bg : bool) (addr : Z) (sm : sample) : mstate :=
  mkm (fun r => if (r <=? 0) || (31 <? r) then 0
                else match assocZ (sm_regs sm) r with Some v => v mod W | None => dflt_reg r end)
      (sm_hi sm mod W) (sm_lo sm mod W) addr
      (fun a => (a * 167 + sm_seed sm) mod 256) bg.

(* the memory window given to the IL: 12 bytes around the aligned word the instruction addresses *)
Definition mem_va (i : minstr) (s : mstate) : option Z :=
  match i with
  | MLoad _ _ b o | MStore _ _ b o => Some (vaddr s b o)
  | _ => None
  end.
Definition case_va (ws : list Z) (s : mstate) : option Z :=
  match ws with
  | [w] => match decode w with Some i => mem_va i s | None => None end
  | [w1; w2] =>
      match decode w1, decode w2 with
      | Some b, Some sl =>
          match branch_info b s with
          | Some bi => mem_va sl (match b_link bi with Some (r, v) => setr s r v | None => s end)
          | None => None
          end
      | _, _ => None
      end
  | _ => None
  end.
Definition win_offsets : list Z := [-4; -3; -2; -1; 0; 1; 2; 3; 4; 5; 6; 7].
Definition window (ws : list Z) (s : mstate) : list Z :=
  match case_va ws s with
  | Some va => map (fun k => a32 (aligned4 va + k)) win_offsets
  | None => []
  end.

(* ---------- embedding into IL states ---------- *)
Definition regs31 : list Z :=
  [1; 2; 3; 4; 5; 6; 7; 8; 9; 10; 11; 12; 13; 14; 15; 16; 17; 18; 19; 20; 21; 22; 23; 24; 25; 26; 27; 28; 29; 30; 31].
Definition rkey (r : Z) : skey := (Z.to_N r, None).
Definition embed (s : mstate) (win : list Z) : sstate :=
  mkst (map (fun r => (rkey r, mkc 32 (gpr s r))) regs31 ++ [(rkey R_HI, mkc 32 (hi s)); (rkey R_LO, mkc 32 (lo s))])
       (mkbmem (big s) (map (fun a => (a, mem s a)) win)).

Definition reg_agrees (en : senv) (r v : Z) : bool :=
  match env_get en (rkey r) with Some c => const_eqb c (mkc 32 v) | None => false end.

Definition agrees (s : mstate) (uhi ulo : bool) (st : sstate) (win : list Z) : bool :=
  forallb (fun r => reg_agrees (st_env st) r (gpr s r)) regs31 &&
  (uhi || reg_agrees (st_env st) R_HI (hi s)) &&
  (ulo || reg_agrees (st_env st) R_LO (lo s)) &&
  forallb (fun a => match bm_get (st_mem st) a with Some b => b =? mem s a | None => false end) win &&
  forallb (fun kv => existsb (Z.eqb (fst kv)) win) (bm_bytes (st_mem st)).

Definition trap_matches (t : mtrap) (m : N) : bool :=
  match t with
  | TOverflow => N.eqb m I_OVERFLOW
  | TTrap => N.eqb m I_TRAP
  | TBreak => N.eqb m I_BREAK
  | TSyscall => N.eqb m I_SYSCALL
  | TAddrErr => false
  end.

Definition graphs_of (l : lifted) : list cfg := map (fun x => snd (fst x)) (fst l).

Definition oracle1 (bg : bool) (addr : Z) (ws : list Z) (l : lifted) (sm : sample) : bool :=
  let s := mk_mstate bg addr sm in
  let win := window ws s in
  match mrun ws s with
  | MUnpred => true
  | MOk s' uh ul =>
      match run_block (graphs_of l) (snd l) (embed s win) with
      | Goto a st' => (a =? pc s') && agrees s' uh ul st' win
      | _ => false
      end
  | MTrap t s' =>
      match run_block (graphs_of l) (snd l) (embed s win) with
      | Trap m st' => trap_matches t m && agrees s' false false st' win
      | _ => false
      end
  end.

(* ---------- tie ---------- *)
Definition graph_wf (g : cfg) : bool :=
  match g_entry g, g_exit g with
  | Some e, Some x => has_block g e && has_block g x
  | _, _ => false
  end.

Definition tie (bg : bool) (addr : Z) (ws : list Z) (l : lifted) : bool :=
  forallb graph_wf (graphs_of l) && case_okb addr ws && forallb (fun x => nodupN (snd x)) (fst l) &&
  match mirror_block bg addr ws (map (fun x => snd x) (fst l)) with
  | None => true                                      (* form not mirrored: no syntactic claim *)
  | Some m => lifted_eqb m (map (fun x => (fst (fst x), snd (fst x))) (fst l), snd l)
  end.

(* ---------- diagnostics (development aid; not used by ck) ---------- *)
Inductive diag :=
| DUnpred
| DOk (pc_spec : Z) (il : option Z) (bad_regs : list (Z * Z * option const)) (mem_ok : bool)
| DTrap (t : mtrap) (il : option N) (bad_regs : list (Z * Z * option const))
| DIl (e : option err).

Definition bad_regs (s : mstate) (st : sstate) : list (Z * Z * option const) :=
  flat_map (fun r => if reg_agrees (st_env st) r (if r =? R_HI then hi s else if r =? R_LO then lo s else gpr s r) then []
                     else [(r, (if r =? R_HI then hi s else if r =? R_LO then lo s else gpr s r), env_get (st_env st) (rkey r))])
           (regs31 ++ [R_HI; R_LO]).

Definition explain1 (bg : bool) (addr : Z) (ws : list Z) (l : lifted) (sm : sample) : diag :=
  let s := mk_mstate bg addr sm in
  let win := window ws s in
  let il := run_block (graphs_of l) (snd l) (embed s win) in
  match mrun ws s with
  | MUnpred => DUnpred
  | MOk s' uh ul =>
      match il with
      | Goto a st' => DOk (pc s') (Some a) (bad_regs s' st') (agrees s' true true st' win)
      | Stuck e => DIl (Some e)
      | _ => DIl None
      end
  | MTrap t s' =>
      match il with
      | Trap m st' => DTrap t (Some m) (bad_regs s' st')
      | Stuck e => DIl (Some e)
      | _ => DTrap t None []
      end
  end.
Definition explain (k : case) : list diag :=
  match k with
  | KMips bg addr ws (Some l) samples => map (explain1 bg addr ws l) samples
  | _ => []
  end.

Import Isa.Ppc.
(* ================================================================== PowerPC =====
   Scalars are interned in the fixed order r0..r31 = 0..31, lr = 32, ctr = 33, carry = 34 (XER[CA]),
   cr0-lt cr0-gt cr0-eq cr0-so ... cr7-so = 35..66 (CR bit i = 35 + i).  The IL has no XER[SO]:
   the sampled states have every crN-so equal to XER[SO] (then "copied from XER[SO]" = "unchanged"). *)
Import Isa.PpcLift.

Definition mk_pstate (addr : Z) (sm : psample) : pstate :=
  mkp (fun r => if (r <? 0) || (31 <? r) then 0
                else match assocZ (ps_regs sm) r with Some v => v mod Ppc.W | None => dflt_reg (r + 1) end)
      (ps_lr sm mod Ppc.W) (ps_ctr sm mod Ppc.W)
      (fun i => if i mod 4 =? 3 then ps_so sm mod 2 else (ps_cr sm / 2 ^ (31 - i)) mod 2)
      (ps_ca sm mod 2) (ps_so sm mod 2) addr
      (fun a => (a * 167 + ps_seed sm) mod 256).

Definition p_ea (i : pinstr) (s : pstate) : option (Z * Z) :=     (* (address, bytes touched) *)
  match i with
  | PLbz _ ra d | PLwz _ ra d | PStw _ ra d => Some (Ppc.a32 (ra0 s ra + exts16 d), 4)
  | PLwzu _ ra d | PStwu _ ra d => Some (Ppc.a32 (pgpr s ra + exts16 d), 4)
  | PStmw rs ra d => Some (Ppc.a32 (ra0 s ra + exts16 d), 4 * (32 - rs))
  | _ => None
  end.
Fixpoint zrange (from : Z) (n : nat) : list Z :=
  match n with O => [] | Datatypes.S n => from :: zrange (from + 1) n end.
Definition pwindow (w : Z) (s : pstate) : list Z :=
  match Ppc.decode w with
  | Some i => match p_ea i s with
              | Some (ea, n) => map (fun k => Ppc.a32 (ea - ea mod 4 + k)) (zrange (-4) (Z.to_nat (n + 12)))
              | None => []
              end
  | None => []
  end.

Definition gprs32 : list Z := 0 :: regs31.
Definition crbits : list Z := zrange 0 32.
Definition pembed (s : pstate) (win : list Z) : sstate :=
  mkst (map (fun r => (rkey r, mkc 32 (pgpr s r))) gprs32 ++
        [(rkey P_LR, mkc 32 (plr s)); (rkey P_CTR, mkc 32 (pctr s)); (rkey P_CA, mkc 1 (pca s))] ++
        map (fun i => (rkey (P_CR0 + i), mkc 1 (pcr s i))) crbits)
       (mkbmem true (map (fun a => (a, pmem s a)) win)).

Definition sc_agrees (en : senv) (id w v : Z) : bool :=
  match env_get en (rkey id) with Some c => const_eqb c (mkc w v) | None => false end.

Definition pagrees (s : pstate) (st : sstate) (win : list Z) : bool :=
  forallb (fun r => sc_agrees (st_env st) r 32 (pgpr s r)) gprs32 &&
  sc_agrees (st_env st) P_LR 32 (plr s) && sc_agrees (st_env st) P_CTR 32 (pctr s) &&
  sc_agrees (st_env st) P_CA 1 (pca s) &&
  forallb (fun i => sc_agrees (st_env st) (P_CR0 + i) 1 (pcr s i)) crbits &&
  forallb (fun a => match bm_get (st_mem st) a with Some b => b =? pmem s a | None => false end) win &&
  forallb (fun kv => existsb (Z.eqb (fst kv)) win) (bm_bytes (st_mem st)).

Definition poracle1 (addr w : Z) (l : lifted) (sm : psample) : bool :=
  let s := mk_pstate addr sm in
  let win := pwindow w s in
  match prun w s with
  | PUnpred => true
  | POk s' =>
      match run_block (graphs_of l) (snd l) (pembed s win) with
      | Goto a st' => (a =? ppc s') && pagrees s' st' win
      | _ => false
      end
  end.

Definition ck (k : case) : bool * bool :=
  match k with
  | KSkip => (true, true)
  | KMips bg addr ws None _ => (true, true)           (* not accepted by the lifter: the property is silent *)
  | KMips bg addr ws (Some l) samples =>
      (tie bg addr ws l, forallb (oracle1 bg addr ws l) samples)
  | KPpc addr w None _ => (true, true)
  | KPpc addr w (Some l) samples =>
      (forallb graph_wf (graphs_of l) && forallb (fun x => nodupN (snd x)) (fst l) &&
       pcase_okb addr w (match fst l with x :: _ => snd x | [] => [] end) &&
       match pmirror_block addr w (map (fun x => snd x) (fst l)) with
       | None => true                                   (* form not mirrored: no syntactic claim *)
       | Some m => lifted_eqb m (map (fun x => (fst (fst x), snd (fst x))) (fst l), snd l)
       end,
       forallb (poracle1 addr w l) samples)
  end.

Inductive pdiag := PDUnpred | PDOk (pc_spec : Z) (il : option Z) (bad : list (Z * option const)) | PDIl (e : option err).
Definition pexplain1 (addr w : Z) (l : lifted) (sm : psample) : pdiag :=
  let s := mk_pstate addr sm in
  let win := pwindow w s in
  match prun w s with
  | PUnpred => PDUnpred
  | POk s' =>
      match run_block (graphs_of l) (snd l) (pembed s win) with
      | Goto a st' =>
          PDOk (ppc s') (Some a)
            (flat_map (fun r => if sc_agrees (st_env st') r 32 (pgpr s' r) then [] else [(r, env_get (st_env st') (rkey r))]) gprs32 ++
             (if sc_agrees (st_env st') P_LR 32 (plr s') then [] else [(P_LR, env_get (st_env st') (rkey P_LR))]) ++
             (if sc_agrees (st_env st') P_CTR 32 (pctr s') then [] else [(P_CTR, env_get (st_env st') (rkey P_CTR))]) ++
             (if sc_agrees (st_env st') P_CA 1 (pca s') then [] else [(P_CA, env_get (st_env st') (rkey P_CA))]) ++
             flat_map (fun i => if sc_agrees (st_env st') (P_CR0 + i) 1 (pcr s' i) then [] else [(P_CR0 + i, env_get (st_env st') (rkey (P_CR0 + i)))]) crbits)
      | Stuck e => PDIl (Some e)
      | _ => PDIl None
      end
  end.
Definition pexplain (k : case) : list pdiag :=
  match k with KPpc addr w (Some l) samples => map (pexplain1 addr w l) samples | _ => [] end.

