(* Isa/A64Branch.v -- per-form correctness of the branches: B, BL, BR, BLR, RET, B.cond, CBZ/CBNZ, TBZ/TBNZ.
   Every theorem is [U]: all field values, all addresses, all states. *)
From Coq Require Import ZArith List Bool NArith Lia ZifyBool.
From Falcon Require Import Base.Res IL.Const IL.ConstSpec IL.Expr IL.ExprSpec IL.Func IL.Loc Exec.Sem
     IL.ConstProofs IL.ExprProofs Isa.A64 Isa.A64Lift Isa.A64Run Isa.A64Proofs Isa.A64Sim Isa.A64Arith.
Import ListNotations.
Local Open Scope Z_scope.
Ltac Zify.zify_post_hook ::= Z.div_mod_to_equations.

Lemma const_target_label v : const_target (OLabel v) = Ok (U 64 v).
Proof.
  unfold const_target. cbn [operand_load bind]. unfold expr_const. rewrite new_big_spec by lia. cbn [cval].
  assert (H : U 64 v <? 2 ^ 64 = true) by (apply Z.ltb_lt; unfold U; apply Z.mod_pos_bound; lia).
  rewrite H. reflexivity.
Qed.

Lemma U64_u64 x : U 64 (u64 x) = x mod 2 ^ 64.
Proof. unfold U, u64. apply Z.mod_mod. lia. Qed.

(* the empty graph of a direct / conditional branch, with the successor list deciding *)
Lemma run_lifted_empty addr succs st a : enabled_succs (st_env st) succs = Ok [a] ->
  run_lifted (graph_of addr []) succs st = Ok (st, a).
Proof.
  intros H. unfold run_lifted. rewrite run_graph_straight by (cbn; lia). cbn [run_ops]. rewrite H. reflexivity.
Qed.

(* ------------------------------------------------------------------ C6.2.26 B *)
Theorem b_sim addr imm26 : sim addr (IBImm false imm26).
Proof.
  intros s st ops succs s' Hw Hpc Ha He _ Hl Hs.
  cbn [a64step] in Hs. inversion Hs; subst s'; clear Hs.
  unfold lift in Hl. cbn [operands_of dispatch terminating] in Hl. unfold b_b, nth_op in Hl.
  cbn [nth_error res_of_option bind] in Hl. rewrite const_target_label in Hl. cbn [bind fst snd] in Hl.
  inversion Hl; subst ops succs; clear Hl.
  exists st. split; [|apply emb_setPC; assumption].
  rewrite U64_u64. apply run_lifted_empty. unfold setPC. cbn [apc]. rewrite Hpc. reflexivity.
Qed.

(* ------------------------------------------------------------------ C6.2.34 BL *)
Lemma exec_branch_const st v : exec_op st (OBranch (expr_const v 64)) = Ok (st, EvBranch (U 64 v)).
Proof.
  cbn [exec_op]. rewrite den_const by lia. cbn [bind]. unfold addr_of. cbn [cval].
  assert (H : U 64 v <? ADDR_LIMIT = true) by (apply Z.ltb_lt; unfold U, ADDR_LIMIT; apply Z.mod_pos_bound; lia).
  rewrite H. reflexivity.
Qed.

Lemma exec_link s st addr : emb s st ->
  exists st', exec_op st (OAssign (sx 30) (expr_const ((addr + 4) mod 2 ^ 64) 64)) =
              Ok (st', EvAssign (key_x 30) (mkc 64 ((addr + 4) mod 2 ^ 64))) /\
              emb (setX s 30 (wrap64 (addr + 4))) st' /\
              (forall k, k <> key_x 30 -> env_get (st_env st') k = env_get (st_env st) k).
Proof.
  intros He. cbn [exec_op]. rewrite den_const by lia. cbn [bind].
  replace (U 64 ((addr + 4) mod 2 ^ 64)) with ((addr + 4) mod 2 ^ 64) by (unfold U; rewrite Z.mod_mod by lia; reflexivity).
  eexists; split; [reflexivity|]. split.
  - apply emb_set_x; [assumption|lia].
  - intros k Hk. cbn [st_env]. apply env_get_set_other. unfold skey_of, sx, key_x in *. cbn [sname sssa]. congruence.
Qed.

Theorem bl_sim addr imm26 : sim addr (IBImm true imm26).
Proof.
  intros s st ops succs s' Hw Hpc Ha He _ Hl Hs.
  cbn [a64step] in Hs. inversion Hs; subst s'; clear Hs.
  unfold lift in Hl. cbn [operands_of dispatch terminating] in Hl. unfold b_bl, nth_op in Hl.
  cbn [nth_error res_of_option bind operand_load] in Hl. unfold expr_const at 1 in Hl. cbn [bind fst snd] in Hl.
  inversion Hl; subst ops succs; clear Hl.
  destruct (exec_link s st addr He) as (st' & E1 & E2 & _).
  exists st'. split; [|apply emb_setPC; rewrite Hpc; exact E2].
  unfold run_lifted. rewrite run_graph_straight by (cbn; lia).
  rewrite (run_ops_assign _ _ _ _ _ _ E1). cbn [run_ops]. fold (expr_const (u64 (addr + sext_imm 28 (imm26 * 4))) 64).
  rewrite exec_branch_const. rewrite U64_u64. unfold setPC. cbn [apc]. rewrite Hpc. reflexivity.
Qed.

(* ------------------------------------------------------------------ C6.2.37 BR, C6.2.35 BLR, C6.2.254 RET *)
Lemma X_range s n : wf s -> 0 <= X s n < 2 ^ 64.
Proof. intros (Hx & _). unfold X. destruct (n =? 31); [lia|apply Hx]. Qed.

Lemma areg_val_zr64 s n : wf s -> areg_val s (xreg_zr true n) = X s n.
Proof.
  intros Hw. rewrite areg_val_zr by assumption. unfold Xw. cbn [dsize]. apply Z.mod_small. apply X_range; assumption.
Qed.

Lemma exec_branch_den st e v : den (st_env st) e = Ok (mkc 64 v) -> 0 <= v < 2 ^ 64 ->
  exec_op st (OBranch e) = Ok (st, EvBranch v).
Proof.
  intros Hd Hv. cbn [exec_op]. rewrite Hd. cbn [bind]. unfold addr_of. cbn [cval].
  assert (H : v <? ADDR_LIMIT = true) by (apply Z.ltb_lt; unfold ADDR_LIMIT; lia). rewrite H. reflexivity.
Qed.

Theorem br_sim addr rn : 0 <= rn < 32 -> sim addr (IBReg 0 rn).
Proof.
  intros Hn s st ops succs s' Hw Hpc Ha He _ Hl Hs.
  cbn [a64step] in Hs. change (0 =? 1) with false in Hs. cbv iota in Hs. inversion Hs; subst s'; clear Hs.
  destruct (xzr_xsp_range true rn Hn) as [Hr _].
  unfold lift in Hl. cbn [operands_of] in Hl. change (0 =? 0) with true in Hl. change (0 =? 2) with false in Hl.
  cbn [andb dispatch terminating] in Hl. cbv iota in Hl. unfold b_br, nth_op in Hl.
  cbn [nth_error res_of_option bind operand_load] in Hl.
  destruct (reg_get_den s st _ Hw He Hr) as (e & G & B & D). rewrite G in Hl. cbn [bind fst snd] in Hl.
  inversion Hl; subst ops succs; clear Hl.
  exists st. split; [|apply emb_setPC; assumption].
  rewrite areg_val_zr64 in D by assumption. cbn [reg_bits] in D. rewrite reg_bits_zr in D. cbn [dsize] in D.
  unfold run_lifted. rewrite run_graph_straight by (cbn; lia). cbn [run_ops].
  rewrite (exec_branch_den st e (X s rn) D (X_range s rn Hw)).
  unfold setPC. cbn [apc]. rewrite Z.mod_small by (apply X_range; assumption). reflexivity.
Qed.

Theorem ret_sim addr rn : 0 <= rn < 32 -> sim addr (IBReg 2 rn).
Proof.
  intros Hn s st ops succs s' Hw Hpc Ha He _ Hl Hs.
  cbn [a64step] in Hs. change (2 =? 1) with false in Hs. cbv iota in Hs. inversion Hs; subst s'; clear Hs.
  destruct (xzr_xsp_range true rn Hn) as [Hr _].
  unfold lift in Hl. cbn [operands_of] in Hl. change (2 =? 0) with false in Hl. change (2 =? 1) with false in Hl.
  change (2 =? 2) with true in Hl. cbn [andb dispatch terminating] in Hl. cbv iota in Hl. unfold b_ret in Hl.
  assert (Hfin : forall e, den (st_env st) e = Ok (mkc 64 (X s rn)) ->
            exists st' : sstate, run_lifted (graph_of addr [OBranch e]) [] st = Ok (st', apc (setPC s (X s rn))) /\ emb (setPC s (X s rn)) st').
  { intros e D. exists st. split; [|apply emb_setPC; assumption].
    unfold run_lifted. rewrite run_graph_straight by (cbn; lia). cbn [run_ops].
    rewrite (exec_branch_den st e (X s rn) D (X_range s rn Hw)).
    unfold setPC. cbn [apc]. rewrite Z.mod_small by (apply X_range; assumption). reflexivity. }
  destruct (rn =? 30) eqn:E30.
  - apply Z.eqb_eq in E30. subst rn. cbn [bind fst snd] in Hl. inversion Hl; subst ops succs; clear Hl.
    apply Hfin. unfold X. change (30 =? 31) with false. cbv iota.
    unfold sx. apply den_scalar_get; [apply (emb_x _ _ He); lia|reflexivity].
  - cbn [operand_load] in Hl.
    destruct (reg_get_den s st _ Hw He Hr) as (e & G & B & D). rewrite G in Hl. cbn [bind fst snd] in Hl.
    inversion Hl; subst ops succs; clear Hl.
    rewrite areg_val_zr64 in D by assumption. rewrite reg_bits_zr in D. cbn [dsize] in D. apply Hfin; exact D.
Qed.

Theorem blr_sim addr rn : 0 <= rn < 32 -> sim addr (IBReg 1 rn).
Proof.
  intros Hn s st ops succs s' Hw Hpc Ha He _ Hl Hs.
  cbn [a64step] in Hs. change (1 =? 1) with true in Hs. cbv iota in Hs. inversion Hs; subst s'; clear Hs.
  destruct (xzr_xsp_range true rn Hn) as [Hr _].
  unfold lift in Hl. cbn [operands_of] in Hl. change (1 =? 0) with false in Hl. change (1 =? 1) with true in Hl.
  change (1 =? 2) with false in Hl. cbn [andb dispatch terminating] in Hl. cbv iota in Hl. unfold b_bl, nth_op in Hl.
  cbn [nth_error res_of_option bind operand_load] in Hl.
  destruct (reg_get_den s st _ Hw He Hr) as (e & G & B & D). rewrite G in Hl. cbn [bind] in Hl.
  rewrite areg_val_zr64 in D by assumption. rewrite reg_bits_zr in D. cbn [dsize] in D.
  pose proof (X_range s rn Hw) as HX.
  destruct (exec_link s st addr He) as (st1 & E1 & E2 & E3).
  assert (Hgoal : forall st', emb (setX s 30 (wrap64 (addr + 4))) st' ->
            emb (setPC (setX s 30 (wrap64 (apc s + 4))) (X s rn)) st').
  { intros st' H. apply emb_setPC. rewrite Hpc. exact H. }
  assert (Hpc' : apc (setPC (setX s 30 (wrap64 (apc s + 4))) (X s rn)) = X s rn).
  { unfold setPC. cbn [apc]. apply Z.mod_small. exact HX. }
  destruct e as [sc|c|o l r|o bits x|c t f];
    cbn [fst snd] in Hl; inversion Hl; subst ops succs; clear Hl.
  2: { (* a constant target (blr xzr): link, branch *)
       exists st1. split; [|apply Hgoal; exact E2]. rewrite Hpc'.
       unfold run_lifted. rewrite run_graph_straight by (cbn; lia).
       rewrite (run_ops_assign _ _ _ _ _ _ E1). cbn [run_ops].
       assert (D1 : den (st_env st1) (EConst c) = Ok (mkc 64 (X s rn))) by exact D.
       rewrite (exec_branch_den st1 _ _ D1 HX). reflexivity. }
  all: (* a register target: latch it in the temporary, link, branch to the temporary *)
    match goal with |- context [OAssign (s_temp0 64) ?ee] => set (e := ee) in * end;
    assert (T1 : exec_op st (OAssign (s_temp0 64) e) =
                 Ok (mkst (env_set (st_env st) (70%N, None) (mkc 64 (X s rn))) (st_mem st), EvAssign (70%N, None) (mkc 64 (X s rn))))
      by (cbn [exec_op]; rewrite D; reflexivity);
    pose proof (emb_set_free s st 70%N (mkc 64 (X s rn)) He ltac:(lia)) as He2;
    destruct (exec_link s _ addr He2) as (st2 & F1 & F2 & F3);
    exists st2; (split; [|apply Hgoal; exact F2]); rewrite Hpc';
    unfold run_lifted; rewrite run_graph_straight by (cbn; lia);
    rewrite (run_ops_assign _ _ _ _ _ _ T1), (run_ops_assign _ _ _ _ _ _ F1); cbn [run_ops];
    assert (D2 : den (st_env st2) (EScalar (s_temp0 64)) = Ok (mkc 64 (X s rn)))
      by (apply den_scalar_get; [rewrite F3 by (unfold key_x; intros Q; inversion Q); cbn [st_env]; apply env_get_set_same|reflexivity]);
    rewrite (exec_branch_den st2 _ _ D2 HX); reflexivity.
Qed.
