(* Isa/A64Sim.v -- the statement of per-form correctness ([sim]) and the builder-level lemmas shared
   by the per-form theorems: operand values, register write-back, fall-through. *)
From Coq Require Import ZArith List Bool NArith Lia ZifyBool.
From Falcon Require Import Base.Res IL.Const IL.ConstSpec IL.Expr IL.ExprSpec IL.Func IL.Loc Exec.Sem
     IL.ConstProofs IL.ExprProofs Isa.A64 Isa.A64Lift Isa.A64Run Isa.A64Proofs.
Import ListNotations.
Local Open Scope Z_scope.
Ltac Zify.zify_post_hook ::= Z.div_mod_to_equations.

(* every byte the instruction accesses is present in the IL memory *)
Definition mapped (st : sstate) (l : list Z) : Prop := forall a, In a l -> bm_get (st_mem st) a <> None.

(* THE per-form statement: for the instruction [i] at address [addr], from every well-formed machine
   state and every IL state that represents it (and maps the accessed bytes), whenever the lifter
   accepts [i] and the architecture defines the outcome, running the lifted IL (Exec/Sem.v) ends in
   an IL state that represents the architecture's result state, at the architecture's next pc. *)
Definition sim (addr : Z) (i : instr) : Prop :=
  forall s st ops succs s',
    wf s -> apc s = addr -> addr + 4 < 2 ^ 64 ->
    emb s st -> mapped st (footprint i s) ->
    lift addr i = Ok (ops, succs) ->
    a64step i s = Done s' ->
    exists st', run_lifted (graph_of addr ops) succs st = Ok (st', apc s') /\ emb s' st'.

(* ------------------------------------------------------------------ denotation steps *)
Lemma den_bin en o l r w a b : den en l = Ok (mkc w a) -> den en r = Ok (mkc w b) ->
  den en (EBin o l r) = sp_bin o w a b.
Proof.
  intros Hl Hr. cbn [den]. rewrite Hl, Hr. cbn [bind]. unfold sp_bin_c. cbn [cbits cval].
  rewrite Z.eqb_refl. reflexivity.
Qed.
Lemma den_ext en o bits x c : den en x = Ok c -> den en (EExt o bits x) = sp_ext o bits c.
Proof. intros H. cbn [den]. rewrite H. reflexivity. Qed.
Lemma den_const en v w : 0 <= w -> den en (expr_const v w) = Ok (mkc w (U w v)).
Proof. intros H. rewrite expr_const_spec by assumption. reflexivity. Qed.
Lemma e_bits_const v w : e_bits (expr_const v w) = w.
Proof. reflexivity. Qed.

(* ------------------------------------------------------------------ operand values *)
(* operand [o], loaded with [out_bits], is an expression of width [w] denoting [v] in every IL
   state representing [s] *)
Definition loads (s : a64state) (o : opnd) (out_bits w v : Z) : Prop :=
  forall st, emb s st ->
    exists e, operand_load o out_bits = Ok e /\ e_bits e = w /\ den (st_env st) e = Ok (mkc w v).

Lemma loads_reg s r ob : wf s -> areg_ok r -> loads s (OReg r) ob (reg_bits r) (areg_val s r).
Proof. intros Hw Hr st He. cbn [operand_load]. apply reg_get_den; assumption. Qed.

Lemma loads_imm64 s v ob : loads s (OImm64 v None) ob 64 (U 64 v).
Proof.
  intros st He. cbn [operand_load maybe_shift]. eexists; split; [reflexivity|]. split; [reflexivity|].
  apply den_const; lia.
Qed.
Lemma loads_imm32 s v ob : loads s (OImm32 v None) ob 32 (U 32 v).
Proof.
  intros st He. cbn [operand_load maybe_shift]. eexists; split; [reflexivity|]. split; [reflexivity|].
  rewrite den_const by lia. unfold U. rewrite Z.mod_mod by lia. reflexivity.
Qed.
Lemma loads_imm64_lsl s v a : loads s (OImm64 v (Some (BLSL a))) 64 64 (s_shl 64 (U 64 v) (U 64 a)).
Proof.
  intros st He. cbn [operand_load maybe_shift shift_]. unfold lsl_.
  rewrite mk_bin_ok by reflexivity. cbn [unwrap].
  eexists; split; [reflexivity|]. split; [reflexivity|].
  rewrite (den_bin _ Shl _ _ 64 (U 64 v) (U 64 a)) by (apply den_const; lia). reflexivity.
Qed.
Lemma loads_imm32_lsl s v a : loads s (OImm32 v (Some (BLSL a))) 32 32 (s_shl 32 (U 32 v) (U 32 a)).
Proof.
  intros st He. cbn [operand_load maybe_shift shift_]. unfold lsl_.
  rewrite mk_bin_ok by reflexivity. cbn [unwrap].
  eexists; split; [reflexivity|]. split; [reflexivity|].
  rewrite (den_bin _ Shl _ _ 32 (U 32 v) (U 32 a)); [reflexivity| |apply den_const; lia].
  rewrite den_const by lia. unfold U. rewrite Z.mod_mod by lia. reflexivity.
Qed.

(* ------------------------------------------------------------------ register write-back *)
Lemma areg_val_range s r : wf s -> 0 <= areg_val s r < 2 ^ reg_bits r.
Proof.
  intros (Hx & Hsp & _). destruct r as [n|n| | | |]; cbn [areg_val reg_bits]; try lia; apply Hx.
Qed.

(* reg_set with an expression of width 64 or 32 denoting v: one assignment, after which the IL state
   represents the machine state with the (zero-extended) value written *)
Lemma reg_set_sim s st r value w v :
  emb s st -> areg_ok r -> (w = 64 \/ w = 32) -> e_bits value = w ->
  den (st_env st) value = Ok (mkc w v) ->
  exists op st' k c, reg_set r value = Ok op /\ exec_op st op = Ok (st', EvAssign k c) /\
                     emb (areg_write s r v) st'.
Proof.
  intros He Hr Hw Hb Hd. unfold reg_set. rewrite Hb.
  assert (Hfin : forall value', den (st_env st) value' = Ok (mkc 64 v) ->
            exists st' k c, exec_op st (OAssign (full_scalar r) value') = Ok (st', EvAssign k c) /\
                            emb (areg_write s r v) st').
  { intros value' Hd'. cbn [exec_op]. rewrite Hd'. cbn [bind].
    eexists; eexists; eexists; split; [reflexivity|].
    destruct r as [n|n| | | |]; cbn [full_scalar areg_write areg_ok] in *; unfold skey_of;
      cbn [sname sssa sx s_xzr s_sp].
    - apply emb_set_x; assumption.
    - apply emb_set_x; assumption.
    - apply emb_set_free; [assumption|lia].
    - apply emb_set_free; [assumption|lia].
    - apply emb_set_sp; assumption.
    - apply emb_set_sp; assumption. }
  destruct Hw as [-> | ->].
  - change (64 <? 64) with false. change (64 =? 64) with true. cbv iota.
    destruct (Hfin value Hd) as (st' & k & c & H1 & H2). eauto 8.
  - change (64 <? 32) with false. change (32 =? 64) with false. cbv iota.
    rewrite mk_ext_ok by lia. cbn [unwrap bind].
    assert (Hd' : den (st_env st) (EExt Zext 64 value) = Ok (mkc 64 v)).
    { rewrite (den_ext _ _ _ _ _ Hd). reflexivity. }
    destruct (Hfin _ Hd') as (st' & k & c & H1 & H2). eauto 8.
Qed.

(* ------------------------------------------------------------------ fall-through *)
Lemma run_lifted_fall addr ops st st' : (length ops < 64)%nat -> run_ops ops st = OFall st' ->
  run_lifted (graph_of addr ops) [(addr + 4, None)] st = Ok (st', addr + 4).
Proof.
  intros Hl Hr. unfold run_lifted. rewrite run_graph_straight by assumption. rewrite Hr. reflexivity.
Qed.

Lemma run_ops_assign st op st' k c t : exec_op st op = Ok (st', EvAssign k c) ->
  run_ops (op :: t) st = run_ops t st'.
Proof. intros H. cbn [run_ops]. rewrite H. reflexivity. Qed.

Lemma apc_nextPC s : 0 <= apc s -> apc s + 4 < 2 ^ 64 -> apc (nextPC s) = apc s + 4.
Proof. intros. unfold nextPC, setPC. cbn [apc]. apply Z.mod_small. lia. Qed.
