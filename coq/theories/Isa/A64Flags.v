(* Isa/A64Flags.v -- ADDS / SUBS: the four flag expressions of the lifter (72-bit extension trick)
   against AddWithCarry, and the builder-level lemma.  [U] *)
From Coq Require Import ZArith List Bool NArith Lia ZifyBool.
From Falcon Require Import Base.Res IL.Const IL.ConstSpec IL.Expr IL.ExprSpec IL.Func IL.Loc Exec.Sem
     IL.ConstProofs IL.ExprProofs Isa.A64 Isa.A64Lift Isa.A64Run Isa.A64Proofs Isa.A64Sim Isa.A64Arith.
Import ListNotations.
Local Open Scope Z_scope.
Ltac Zify.zify_post_hook ::= Z.div_mod_to_equations.

(* ------------------------------------------------------------------ the flag values the lifter's expressions denote *)
Definition lf_n (w r : Z) : bool := 2 ^ (w - 1) <=? r.
Definition lf_z (r : Z) : bool := r =? 0.
Definition lf_c (a : arith) (r v1 v2 : Z) : bool :=
  match a with AAdd => negb (r =? v1 + v2) | ASub => v1 <? v2 end.      (* SUBS: "a borrow occurred" *)
Definition lf_v (a : arith) (w r v1 v2 : Z) : bool :=
  match a with AAdd => negb (S w r =? S w v1 + S w v2) | ASub => negb (S w r =? S w v1 - S w v2) end.

(* the signed reading without a case split (keeps lia's search small) *)
Lemma S64 a : 0 <= a < 2 ^ 64 -> S 64 a = a - 18446744073709551616 * (a / 9223372036854775808).
Proof. intros H. unfold S. change (2 ^ (64 - 1)) with 9223372036854775808. change (2 ^ 64) with 18446744073709551616 in *.
  destruct (Z.ltb_spec a 9223372036854775808); lia. Qed.
Lemma S32 a : 0 <= a < 2 ^ 32 -> S 32 a = a - 4294967296 * (a / 2147483648).
Proof. intros H. unfold S. change (2 ^ (32 - 1)) with 2147483648. change (2 ^ 32) with 4294967296 in *.
  destruct (Z.ltb_spec a 2147483648); lia. Qed.

(* bit-vector lemmas, one per flag, at the two concrete widths *)
Lemma S_zero32 : S 32 0 = 0. Proof. reflexivity. Qed.
Lemma S_zero64 : S 64 0 = 0. Proof. reflexivity. Qed.

Lemma flag_n_bv w r : (w = 64 \/ w = 32) -> 0 <= r < 2 ^ w -> s_cmplts w r (U w 0) = b2z (lf_n w r).
Proof.
  intros [-> | ->] Hr; unfold s_cmplts, lf_n, U, S; cbn [Z.sub Z.pos_sub Pos.pred_double] in *;
    change (0 mod 2 ^ 64) with 0; change (0 mod 2 ^ 32) with 0;
    change (2 ^ (64 - 1)) with 9223372036854775808; change (2 ^ (32 - 1)) with 2147483648;
    change (0 <? 9223372036854775808) with true; change (0 <? 2147483648) with true; cbv iota;
    match goal with |- context [r <? ?k] => destruct (Z.ltb_spec r k) end;
    match goal with |- context [?k <=? r] => destruct (Z.leb_spec k r) end;
    match goal with |- context [?x <? 0] => destruct (Z.ltb_spec x 0) end; cbn [b2z]; lia.
Qed.
Lemma flag_z_bv w r : 0 <= w -> s_cmpeq w r (U w 0) = b2z (lf_z r).
Proof.
  intros Hw. unfold s_cmpeq, lf_z, U. rewrite Z.mod_0_l by (pose proof (pow_pos w Hw); lia).
  destruct (r =? 0); reflexivity.
Qed.
Lemma flag_c_bv a w r v1 v2 : (w = 64 \/ w = 32) -> 0 <= v1 < 2 ^ w -> 0 <= v2 < 2 ^ w ->
  r = arith_val a w v1 v2 ->
  s_cmpneq 72 r (match a with AAdd => s_add 72 v1 v2 | ASub => s_sub 72 v1 v2 end) = b2z (lf_c a r v1 v2).
Proof.
  intros Hw H1 H2 ->. unfold s_cmpneq, lf_c, arith_val, s_add, s_sub, U.
  destruct a, Hw as [-> | ->];
    change (2 ^ 72) with 4722366482869645213696; change (2 ^ 64) with 18446744073709551616 in *;
    change (2 ^ 32) with 4294967296 in *;
    match goal with |- context [?x =? ?y] => destruct (Z.eqb_spec x y) end;
    try match goal with |- context [?x =? ?y] => destruct (Z.eqb_spec x y) end;
    try match goal with |- context [?x <? ?y] => destruct (Z.ltb_spec x y) end; cbn [b2z negb]; lia.
Qed.
Lemma flag_v_bv a w r v1 v2 : (w = 64 \/ w = 32) -> 0 <= v1 < 2 ^ w -> 0 <= v2 < 2 ^ w ->
  r = arith_val a w v1 v2 ->
  s_cmpneq 72 (s_sext 72 w r)
           (match a with AAdd => s_add 72 (s_sext 72 w v1) (s_sext 72 w v2) | ASub => s_sub 72 (s_sext 72 w v1) (s_sext 72 w v2) end)
  = b2z (lf_v a w r v1 v2).
Proof.
  intros Hw H1 H2 Hr.
  assert (R : 0 <= r < 2 ^ w) by (subst r; unfold arith_val, s_add, s_sub, U; destruct a; apply Z.mod_pos_bound; destruct Hw as [-> | ->]; lia).
  unfold s_cmpneq, lf_v, s_add, s_sub, s_sext, U.
  destruct Hw as [-> | ->]; [rewrite !S64 by assumption|rewrite !S32 by assumption];
    unfold arith_val, s_add, s_sub, U in Hr;
    change (2 ^ 72) with 4722366482869645213696; change (2 ^ 64) with 18446744073709551616 in *; change (2 ^ 32) with 4294967296 in *;
    destruct a;
    match goal with |- context [negb (?x =? ?y)] => destruct (Z.eqb_spec x y) end;
    match goal with |- context [?x =? ?y] => destruct (Z.eqb_spec x y) end; cbn [b2z negb]; lia.
Qed.

(* the specification's flags (AddWithCarry) in terms of the same quantities: identical for ADDS;
   for SUBS identical except C, which is the NEGATION of the lifter's c *)
Lemma addsub_flags N (sub : bool) x y : (N = 64 \/ N = 32) -> 0 <= x < 2 ^ N -> 0 <= y < 2 ^ N ->
  let a := if sub then ASub else AAdd in
  let r := arith_val a N x y in
  snd (addsub N sub x y) = (lf_n N r, lf_z r, (if sub then negb (lf_c a r x y) else lf_c a r x y), lf_v a N r x y).
Proof.
  intros HN Hx Hy. cbv zeta.
  unfold addsub, AddWithCarry, NOT, lf_n, lf_z, lf_c, lf_v, arith_val, s_add, s_sub, U.
  destruct sub, HN as [-> | ->]; cbn [snd];
    [rewrite !S64 by (change (2 ^ 64) with 18446744073709551616 in *; lia)
    |rewrite !S32 by (change (2 ^ 32) with 4294967296 in *; lia)
    |rewrite !S64 by (change (2 ^ 64) with 18446744073709551616 in *; lia)
    |rewrite !S32 by (change (2 ^ 32) with 4294967296 in *; lia)];
    change (2 ^ 64) with 18446744073709551616 in *; change (2 ^ 32) with 4294967296 in *;
    change (2 ^ (64 - 1)) with 9223372036854775808; change (2 ^ (32 - 1)) with 2147483648;
    (apply (f_equal2 pair); [apply (f_equal2 pair); [apply (f_equal2 pair)|]|]); lia.
Qed.

(* ------------------------------------------------------------------ the builder adds / subs *)
(* the flags do not matter for operand values: a state with the same registers *)
Definition same_regs (s s1 : a64state) : Prop :=
  wf s1 /\ xr s1 = xr s /\ asp s1 = asp s /\ amem s1 = amem s /\ abig s1 = abig s /\ apc s1 = apc s.
Lemma same_regs_refl s : wf s -> same_regs s s.
Proof. intros H. repeat split; try reflexivity; apply H. Qed.
Lemma same_regs_nzcv s s1 n z c v : same_regs s s1 -> same_regs s (setNZCV s1 n z c v).
Proof.
  intros (Hw & H1 & H2 & H3 & H4 & H5). unfold same_regs, setNZCV, wf in *. cbn [xr asp amem abig apc].
  repeat split; try assumption; apply Hw.
Qed.

Definition fe_result (a : arith) (e1 e2 : expr) : expr := EBin (arith_op a) e1 e2.
Definition fe_n (a : arith) (w : Z) (e1 e2 : expr) : expr := EBin Cmplts (fe_result a e1 e2) (expr_const 0 w).
Definition fe_z (a : arith) (w : Z) (e1 e2 : expr) : expr := EBin Cmpeq (fe_result a e1 e2) (expr_const 0 w).
Definition fe_c (a : arith) (e1 e2 : expr) : expr :=
  EBin Cmpneq (EExt Zext 72 (fe_result a e1 e2)) (EBin (arith_op a) (EExt Zext 72 e1) (EExt Zext 72 e2)).
Definition fe_v (a : arith) (e1 e2 : expr) : expr :=
  EBin Cmpneq (EExt Sext 72 (fe_result a e1 e2)) (EBin (arith_op a) (EExt Sext 72 e1) (EExt Sext 72 e2)).

Lemma b_addsubs_shape a rd o1 o2 e1 e2 st_op :
  operand_load o1 (reg_bits rd) = Ok e1 -> operand_load o2 (reg_bits rd) = Ok e2 ->
  e_bits e1 = reg_bits rd -> e_bits e2 = reg_bits rd ->
  reg_set rd (fe_result a e1 e2) = Ok st_op ->
  b_addsubs a [OReg rd; o1; o2] =
  Ok ([OAssign s_n (fe_n a (reg_bits rd) e1 e2); OAssign s_z (fe_z a (reg_bits rd) e1 e2);
       OAssign s_c (fe_c a e1 e2); OAssign s_v (fe_v a e1 e2); st_op], []).
Proof.
  intros L1 L2 B1 B2 Hs.
  assert (Hw : reg_bits rd = 64 \/ reg_bits rd = 32) by apply reg_bits_cases.
  unfold b_addsubs, nth_op. cbn [nth_error res_of_option bind operand_storing_width].
  rewrite L1, L2. cbn [bind].
  rewrite (mk_bin_ok (arith_op a) e1 e2) by congruence. cbn [unwrap bind].
  rewrite !mk_ext_ok by (destruct Hw; lia). cbn [unwrap bind].
  rewrite (mk_bin_ok (arith_op a) (EExt Zext 72 e1)) by reflexivity. cbn [unwrap bind].
  rewrite (mk_bin_ok (arith_op a) (EExt Sext 72 e1)) by reflexivity. cbn [unwrap bind].
  assert (Hrb : e_bits (EBin (arith_op a) e1 e2) = reg_bits rd) by (destruct a; exact B1).
  rewrite (mk_bin_ok Cmplts) by (rewrite Hrb; reflexivity). cbn [unwrap bind].
  rewrite (mk_bin_ok Cmpeq) by (rewrite Hrb; reflexivity). cbn [unwrap bind].
  rewrite !mk_ext_ok by (rewrite Hrb; destruct Hw; lia). cbn [unwrap bind].
  rewrite (mk_bin_ok Cmpneq (EExt Zext 72 _)) by (destruct a; reflexivity). cbn [unwrap bind].
  rewrite (mk_bin_ok Cmpneq (EExt Sext 72 _)) by (destruct a; reflexivity). cbn [unwrap bind operand_store].
  unfold fe_result in Hs. rewrite Hs. reflexivity.
Qed.

Lemma flags_den en a w e1 e2 v1 v2 :
  (w = 64 \/ w = 32) -> 0 <= v1 < 2 ^ w -> 0 <= v2 < 2 ^ w ->
  den en e1 = Ok (mkc w v1) -> den en e2 = Ok (mkc w v2) ->
  let r := arith_val a w v1 v2 in
  den en (fe_result a e1 e2) = Ok (mkc w r) /\
  den en (fe_n a w e1 e2) = Ok (mkc 1 (b2z (lf_n w r))) /\
  den en (fe_z a w e1 e2) = Ok (mkc 1 (b2z (lf_z r))) /\
  den en (fe_c a e1 e2) = Ok (mkc 1 (b2z (lf_c a r v1 v2))) /\
  den en (fe_v a e1 e2) = Ok (mkc 1 (b2z (lf_v a w r v1 v2))).
Proof.
  intros Hw H1 H2 D1 D2 r.
  assert (Dr : den en (fe_result a e1 e2) = Ok (mkc w r)).
  { unfold fe_result. rewrite (den_bin _ _ _ _ _ _ _ D1 D2). destruct a; reflexivity. }
  assert (Hr : 0 <= r < 2 ^ w).
  { unfold r, arith_val, s_add, s_sub, U. destruct a; apply Z.mod_pos_bound; destruct Hw as [-> | ->]; lia. }
  assert (W0 : 0 <= w) by (destruct Hw; lia).
  assert (Hlt : w <? 72 = true) by (destruct Hw as [-> | ->]; reflexivity).
  assert (Hle : 72 <=? w = false) by (destruct Hw as [-> | ->]; reflexivity).
  split; [exact Dr|]. split; [|split; [|split]].
  - unfold fe_n. rewrite (den_bin _ Cmplts _ _ w r (U w 0) Dr) by (apply den_const; assumption).
    cbn [sp_bin]. rewrite flag_n_bv by assumption. reflexivity.
  - unfold fe_z. rewrite (den_bin _ Cmpeq _ _ w r (U w 0) Dr) by (apply den_const; assumption).
    cbn [sp_bin]. rewrite flag_z_bv by assumption. reflexivity.
  - unfold fe_c.
    assert (Z1 : den en (EExt Zext 72 e1) = Ok (mkc 72 v1)) by (rewrite (den_ext _ _ _ _ _ D1); cbn [sp_ext cbits cval]; rewrite Hle; reflexivity).
    assert (Z2 : den en (EExt Zext 72 e2) = Ok (mkc 72 v2)) by (rewrite (den_ext _ _ _ _ _ D2); cbn [sp_ext cbits cval]; rewrite Hle; reflexivity).
    assert (Zr : den en (EExt Zext 72 (fe_result a e1 e2)) = Ok (mkc 72 r)) by (rewrite (den_ext _ _ _ _ _ Dr); cbn [sp_ext cbits cval]; rewrite Hle; reflexivity).
    assert (Zs : den en (EBin (arith_op a) (EExt Zext 72 e1) (EExt Zext 72 e2)) =
                 Ok (mkc 72 (match a with AAdd => s_add 72 v1 v2 | ASub => s_sub 72 v1 v2 end)))
      by (rewrite (den_bin _ _ _ _ _ _ _ Z1 Z2); destruct a; reflexivity).
    rewrite (den_bin _ Cmpneq _ _ _ _ _ Zr Zs). cbn [sp_bin]. rewrite (flag_c_bv a w r v1 v2) by (assumption || reflexivity). reflexivity.
  - unfold fe_v.
    assert (Z1 : den en (EExt Sext 72 e1) = Ok (mkc 72 (s_sext 72 w v1))) by (rewrite (den_ext _ _ _ _ _ D1); cbn [sp_ext cbits cval]; rewrite Hle; reflexivity).
    assert (Z2 : den en (EExt Sext 72 e2) = Ok (mkc 72 (s_sext 72 w v2))) by (rewrite (den_ext _ _ _ _ _ D2); cbn [sp_ext cbits cval]; rewrite Hle; reflexivity).
    assert (Zr : den en (EExt Sext 72 (fe_result a e1 e2)) = Ok (mkc 72 (s_sext 72 w r))) by (rewrite (den_ext _ _ _ _ _ Dr); cbn [sp_ext cbits cval]; rewrite Hle; reflexivity).
    assert (Zs : den en (EBin (arith_op a) (EExt Sext 72 e1) (EExt Sext 72 e2)) =
                 Ok (mkc 72 (match a with AAdd => s_add 72 (s_sext 72 w v1) (s_sext 72 w v2) | ASub => s_sub 72 (s_sext 72 w v1) (s_sext 72 w v2) end)))
      by (rewrite (den_bin _ _ _ _ _ _ _ Z1 Z2); destruct a; reflexivity).
    rewrite (den_bin _ Cmpneq _ _ _ _ _ Zr Zs). cbn [sp_bin]. rewrite (flag_v_bv a w r v1 v2) by (assumption || reflexivity). reflexivity.
Qed.

Lemma exec_assign st dst src c : den (st_env st) src = Ok c ->
  exec_op st (OAssign dst src) = Ok (mkst (env_set (st_env st) (skey_of dst) c) (st_mem st), EvAssign (skey_of dst) c).
Proof. intros H. cbn [exec_op]. rewrite H. reflexivity. Qed.

Lemma b_addsubs_sim a s st rd o1 o2 v1 v2 :
  wf s -> emb s st -> areg_ok rd ->
  (forall s1, same_regs s s1 -> loads s1 o1 (reg_bits rd) (reg_bits rd) v1) ->
  (forall s1, same_regs s s1 -> loads s1 o2 (reg_bits rd) (reg_bits rd) v2) ->
  0 <= v1 < 2 ^ reg_bits rd -> 0 <= v2 < 2 ^ reg_bits rd ->
  let w := reg_bits rd in
  let r := arith_val a w v1 v2 in
  exists ops st', b_addsubs a [OReg rd; o1; o2] = Ok (ops, []) /\ length ops = 5%nat /\
    run_ops ops st = OFall st' /\
    emb (areg_write (setNZCV s (lf_n w r) (lf_z r) (lf_c a r v1 v2) (lf_v a w r v1 v2)) rd r) st'.
Proof.
  intros Hw He Hr H1 H2 R1 R2 w r.
  assert (Hww : w = 64 \/ w = 32) by apply reg_bits_cases.
  destruct (H1 s (same_regs_refl s Hw) st He) as (e1 & L1 & B1 & _).
  destruct (H2 s (same_regs_refl s Hw) st He) as (e2 & L2 & B2 & _).
  (* the five denotations in any IL state representing a state with the same registers *)
  assert (Hden : forall s1 st1, same_regs s s1 -> emb s1 st1 ->
            den (st_env st1) (fe_result a e1 e2) = Ok (mkc w r) /\
            den (st_env st1) (fe_n a w e1 e2) = Ok (mkc 1 (b2z (lf_n w r))) /\
            den (st_env st1) (fe_z a w e1 e2) = Ok (mkc 1 (b2z (lf_z r))) /\
            den (st_env st1) (fe_c a e1 e2) = Ok (mkc 1 (b2z (lf_c a r v1 v2))) /\
            den (st_env st1) (fe_v a e1 e2) = Ok (mkc 1 (b2z (lf_v a w r v1 v2)))).
  { intros s1 st1 Hsr He1.
    destruct (H1 s1 Hsr st1 He1) as (e1' & L1' & _ & D1). rewrite L1 in L1'. inversion L1'; subst e1'.
    destruct (H2 s1 Hsr st1 He1) as (e2' & L2' & _ & D2). rewrite L2 in L2'. inversion L2'; subst e2'.
    apply flags_den; assumption. }
  set (bn := lf_n w r). set (bz := lf_z r). set (bc := lf_c a r v1 v2). set (bv := lf_v a w r v1 v2).
  (* n *)
  pose proof (same_regs_refl s Hw) as R0.
  destruct (Hden s st R0 He) as (_ & Dn & _).
  pose proof (exec_assign st s_n _ _ Dn) as En. change (skey_of s_n) with key_n in En.
  pose proof (emb_set_flag_n s st bn He) as He1. set (s1 := setNZCV s bn (fZ s) (fC s) (fV s)) in *.
  set (st1 := mkst (env_set (st_env st) key_n (mkc 1 (b2z bn))) (st_mem st)) in *.
  pose proof (same_regs_nzcv s s bn (fZ s) (fC s) (fV s) R0) as R1'. fold s1 in R1'.
  (* z *)
  destruct (Hden s1 st1 R1' He1) as (_ & _ & Dz & _).
  pose proof (exec_assign st1 s_z _ _ Dz) as Ez. change (skey_of s_z) with key_z in Ez.
  pose proof (emb_set_flag_z s1 st1 bz He1) as He2. set (s2 := setNZCV s1 (fN s1) bz (fC s1) (fV s1)) in *.
  set (st2 := mkst (env_set (st_env st1) key_z (mkc 1 (b2z bz))) (st_mem st1)) in *.
  pose proof (same_regs_nzcv s s1 (fN s1) bz (fC s1) (fV s1) R1') as R2'. fold s2 in R2'.
  (* c *)
  destruct (Hden s2 st2 R2' He2) as (_ & _ & _ & Dc & _).
  pose proof (exec_assign st2 s_c _ _ Dc) as Ec. change (skey_of s_c) with key_c in Ec.
  pose proof (emb_set_flag_c s2 st2 bc He2) as He3. set (s3 := setNZCV s2 (fN s2) (fZ s2) bc (fV s2)) in *.
  set (st3 := mkst (env_set (st_env st2) key_c (mkc 1 (b2z bc))) (st_mem st2)) in *.
  pose proof (same_regs_nzcv s s2 (fN s2) (fZ s2) bc (fV s2) R2') as R3'. fold s3 in R3'.
  (* v *)
  destruct (Hden s3 st3 R3' He3) as (_ & _ & _ & _ & Dv).
  pose proof (exec_assign st3 s_v _ _ Dv) as Ev. change (skey_of s_v) with key_v in Ev.
  pose proof (emb_set_flag_v s3 st3 bv He3) as He4. set (s4 := setNZCV s3 (fN s3) (fZ s3) (fC s3) bv) in *.
  set (st4 := mkst (env_set (st_env st3) key_v (mkc 1 (b2z bv))) (st_mem st3)) in *.
  pose proof (same_regs_nzcv s s3 (fN s3) (fZ s3) (fC s3) bv R3') as R4'. fold s4 in R4'.
  (* destination *)
  destruct (Hden s4 st4 R4' He4) as (Dres & _).
  assert (Hrb : e_bits (fe_result a e1 e2) = w) by (unfold fe_result; destruct a; exact B1).
  destruct (reg_set_sim s4 st4 rd _ _ _ He4 Hr Hww Hrb Dres) as (op & st' & k & c & S1 & S2 & S3).
  exists [OAssign s_n (fe_n a w e1 e2); OAssign s_z (fe_z a w e1 e2); OAssign s_c (fe_c a e1 e2); OAssign s_v (fe_v a e1 e2); op], st'.
  split; [apply b_addsubs_shape; assumption|]. split; [reflexivity|]. split.
  - rewrite (run_ops_assign _ _ _ _ _ _ En), (run_ops_assign _ _ _ _ _ _ Ez), (run_ops_assign _ _ _ _ _ _ Ec),
            (run_ops_assign _ _ _ _ _ _ Ev), (run_ops_assign _ _ _ _ _ _ S2). reflexivity.
  - exact S3.
Qed.
