(* Isa/X86SimCall.v -- round 8: call rel / call r|[m]: the return address addr + len is pushed, then the Branch. *)
From Coq Require Import ZArith List Bool NArith Lia ZifyBool.
From Falcon Require Import Base.Res IL.Const IL.ConstSpec IL.ConstProofs IL.Expr IL.ExprSpec IL.Func IL.Loc Exec.Sem.
From Falcon Require Import Isa.X86 Isa.X86Run Isa.X86Lift Isa.X86Mirror Isa.X86Proofs Isa.X86Sim Isa.C01Check Isa.X86Tie Isa.X86SimMem Isa.X86SimStack Isa.X86SimCarry Isa.X86SimMore Isa.X86SimXchg Isa.X86SimMul Isa.X86SimShift Isa.X86SimCtl.
Import ListNotations.
Local Open Scope Z_scope.
Ltac Zify.zify_post_hook ::= Z.div_mod_to_equations.

(* pushing a word-sized value: store at sp - n, then sp := sp - n *)
Lemma push_word_gen m s st rhs b xs :
  wf m s -> emb m s st -> e_bits rhs = wordsz m -> den (st_env st) rhs = Ok (mkc (wordsz m) b) ->
  push_no_wrap m (wordsz m) s -> push m (wordsz m) b s = Some xs ->
  let spe := EScalar (sp_scalar m) in let nspe := EBin Sub spe (expr_const (wordsz m / 8) (wordsz m)) in
  exists v st2, mk_bin Sub spe (expr_const (wordsz m / 8) (wordsz m)) = Ok nspe /\
    exec_ops st [OStore nspe rhs; OAssign (sp_scalar m) nspe] = Ok st2 /\ emb m xs st2 /\ wf m xs /\
    st_env st2 = env_set (st_env st) (gpr_name m X86.SP, None) v.
Proof.
  intros Hw He Br Dr Hnw Hpush spe nspe.
  destruct (wordsz_facts m) as (Ww & Wlt & W64 & Wp).
  assert (Hwd: width_ok (wordsz m)) by (destruct m; cbn; unfold width_ok; auto).
  pose proof (wf_rng _ _ Hw _ (sp_in_range m)) as Hsp.
  set (spv := rget (x_gpr s) X86.SP) in *. set (n := wordsz m / 8) in *.
  assert (Hn: 0 < n <= 8) by (unfold n; destruct m; cbn; lia).
  set (sp' := U (wordsz m) (spv - n)).
  assert (Hsp': 0 <= sp' < 2 ^ wordsz m) by (unfold sp', U; apply Z.mod_pos_bound; exact Wp).
  unfold push in Hpush.
  assert (Rsp: reg_read (wordsz m) X86.SP (x_gpr s) = spv) by (unfold reg_read; fold spv; apply Z.mod_small; exact Hsp).
  rewrite Rsp in Hpush. fold n sp' in Hpush.
  destruct (mem_wr (x_mem s) (wordsz m) sp' b (nbytes (wordsz m))) as [xm'|] eqn:Hmw; cbn [obind] in Hpush; [|discriminate].
  inversion Hpush; subst xs.
  assert (Mk: mk_bin Sub spe (expr_const n (wordsz m)) = Ok nspe).
  { unfold mk_bin. cbn [e_bits spe sp_scalar sbits expr_const new_big cbits]. rewrite Z.eqb_refl. reflexivity. }
  assert (P32: 2 ^ 32 <= 2 ^ wordsz m) by (apply Z.pow_le_mono_r; lia). change (2 ^ 32) with 4294967296 in P32.
  assert (Dn: forall en, regs_emb m s en -> den en nspe = Ok (mkc (wordsz m) sp')).
  { intros en Hg. unfold nspe. rewrite den_bin. unfold spe. rewrite (sp_den m s en Hg). cbn [bind]. unfold expr_const. rewrite new_big_spec by lia. cbn [den bind].
    unfold sp_bin_c. cbn [cbits cval]. rewrite Z.eqb_refl. cbn [negb sp_bin]. unfold s_sub, sp', U. fold spv. fold n.
    rewrite (Z.mod_small n) by lia. reflexivity. }
  destruct (mem_store_spec (x_mem s) (st_mem st) (wordsz m) (wordsz m) sp' b xm' (emb_mem _ _ _ He) (emb_le _ _ _ He) Hwd (proj1 Hsp') Hnw ltac:(lia) Hmw)
    as (bm' & Hst & Hag & Hle).
  assert (L64: sp' < 2 ^ 64) by lia.
  pose proof (exec_store st _ rhs (wordsz m) sp' (mkc (wordsz m) b) bm' Dr (Dn _ (emb_regs_of _ _ _ He)) L64 Hst) as Ex1.
  set (st1 := mkst (st_env st) bm').
  pose proof (exec_assign st1 (sp_scalar m) _ _ (Dn _ (emb_regs_of _ _ _ He))) as Ex2. rewrite sp_scalar_key in Ex2. cbn [st_env st_mem st1] in Ex2.
  assert (He1: emb m (set_mem s xm') st1).
  { constructor; cbn [set_mem x_gpr x_fl x_mem st_env st_mem st1];
      [apply (emb_gpr _ _ _ He)|apply (emb_cf _ _ _ He)|apply (emb_zf _ _ _ He)|apply (emb_sf _ _ _ He)|apply (emb_of _ _ _ He)|apply (emb_df _ _ _ He)|exact Hag|exact Hle]. }
  assert (Hw1: wf m (set_mem s xm')).
  { constructor; cbn [set_mem x_gpr x_mem]; [apply (wf_len _ _ Hw)|apply (wf_rng _ _ Hw)|apply (wr_bytes_ok _ _ _ _ _ _ (wf_bytes _ _ Hw) Hmw)]. }
  destruct (emb_set_full m (set_mem s xm') st1 X86.SP sp' Hw1 He1 (sp_in_range m) Hsp') as (Hemb & Hwf).
  cbn [set_mem x_gpr st_env st_mem st1] in Hemb, Hwf.
  assert (Eq: set_mem (set_gpr s (reg_write (wordsz m) X86.SP sp' (x_gpr s))) xm' = set_gpr (set_mem s xm') (rset (x_gpr s) X86.SP sp')).
  { unfold set_mem, set_gpr, reg_write. cbn [x_gpr x_ugpr x_xmm x_fl x_mem]. rewrite Wlt. reflexivity. }
  rewrite Eq.
  exists (mkc (wordsz m) sp'). eexists. split; [exact Mk|]. split.
  { cbn [exec_ops]. fold n. rewrite Ex1. cbn [bind fst]. fold st1. rewrite Ex2. reflexivity. }
  split; [exact Hemb|]. split; [exact Hwf|reflexivity].
Qed.

(* the whole call, for a target expression that does not mention the stack pointer scalar *)
Lemma call_gen m addr next succ s st pre st1 te t xs :
  wf m s -> emb m s st -> nobranch pre = true -> (length pre <= 1)%nat -> exec_ops st pre = Ok st1 -> emb m s st1 ->
  den (st_env st1) te = Ok (mkc (wordsz m) t) -> 0 <= t < 2 ^ wordsz m -> mentions (gpr_name m X86.SP, None) te = false ->
  0 <= next < 2 ^ wordsz m -> push_no_wrap m (wordsz m) s -> push m (wordsz m) next s = Some xs ->
  exists ops st', lift_call m next (Ok (pre, te)) false = Ok ops /\
    run_instr 600 (one_block addr ops) succ addr st = RunOk st' (Some t) /\ emb m xs st' /\ wf m xs.
Proof.
  intros Hw He Nb Ln Ex1 He1 Dt Ht Mt Hnx Hnw Hpush.
  destruct (wordsz_facts m) as (Ww & Wlt & W64 & Wp).
  assert (Dr: den (st_env st1) (expr_const next (wordsz m)) = Ok (mkc (wordsz m) next)) by (apply const_den; lia).
  destruct (push_word_gen m s st1 (expr_const next (wordsz m)) next xs Hw He1 eq_refl Dr Hnw Hpush) as (v & st2 & Mk & Ex2 & Hemb & Hwf & Env).
  set (nspe := EBin Sub (EScalar (sp_scalar m)) (expr_const (wordsz m / 8) (wordsz m))) in *.
  assert (Dt2: den (st_env st2) te = Ok (mkc (wordsz m) t)) by (rewrite Env, den_env_set by exact Mt; exact Dt).
  exists (pre ++ [] ++ [OStore nspe (expr_const next (wordsz m)); OAssign (sp_scalar m) nspe; OBranch te]), st2.
  split; [unfold lift_call; cbn [bind fst snd]; rewrite Mk; reflexivity|]. split; [|split; [exact Hemb|exact Hwf]].
  cbn [app].
  change (pre ++ [OStore nspe (expr_const next (wordsz m)); OAssign (sp_scalar m) nspe; OBranch te])
    with (pre ++ ([OStore nspe (expr_const next (wordsz m)); OAssign (sp_scalar m) nspe] ++ [OBranch te])).
  rewrite app_assoc. apply run_block_goto.
  - unfold nobranch in *. rewrite forallb_app, Nb. reflexivity.
  - rewrite app_length. cbn [length]. lia.
  - rewrite (exec_ops_app pre _ st st1 Ex1). exact Ex2.
  - apply (exec_branch st2 te (wordsz m) t Dt2). lia.
Qed.

(* call rel *)
Theorem call_rel_sim m addr len t :
  0 <= t < 2 ^ wordsz m -> 0 <= addr + len < 2 ^ wordsz m ->
  sim_when (push_no_wrap m (wordsz m)) m addr len (ICallRel t).
Proof.
  intros Ht Hnx s st s' ip Hw He Hnw Hstep. unfold step in Hstep.
  destruct (push m (wordsz m) (addr + len) s) as [xs|] eqn:Hpush; cbn [option_map of_opt] in Hstep; [|discriminate]. inversion Hstep; subst s' ip.
  destruct (wordsz_facts m) as (Ww & _ & _ & _).
  assert (Dt: den (st_env st) (expr_const t (wordsz m)) = Ok (mkc (wordsz m) t)) by (apply const_den; lia).
  destruct (call_gen m addr (addr + len) (mirror_succ m addr len (ICallRel t)) s st [] st (expr_const t (wordsz m)) t xs Hw He eq_refl ltac:(cbn; lia) eq_refl He Dt Ht eq_refl Hnx Hnw Hpush)
    as (ops & st' & Hl & Hrun & Hemb & Hwf).
  exists (one_block addr ops). split; [unfold mirror_instr; rewrite Hl; reflexivity|]. exists st'. auto.
Qed.

(* call r | [m]  (register other than the stack pointer) *)
Theorem call_ind_sim m addr len src :
  opnd_ok m (wordsz m) src -> isreg src = true \/ is_mem src = true -> src <> OReg 4 -> 0 <= addr + len < 2 ^ wordsz m ->
  sim_when (fun s => opnd_nw (wordsz m) src s /\ push_no_wrap m (wordsz m) s) m addr len (ICallInd src).
Proof.
  intros Hos Hk Hnsp Hnx s st s' ip Hw He (Hnw & Hpnw) Hstep.
  destruct (wordsz_facts m) as (Ww & Wlt & W64 & Wp).
  assert (Hww: width_ok (wordsz m)) by (destruct m; cbn; unfold width_ok; auto).
  unfold step in Hstep. destruct (rd_op (wordsz m) src s) as [t|] eqn:Hrd; cbn [obind of_opt] in Hstep; [|discriminate].
  destruct (push m (wordsz m) (addr + len) s) as [xs|] eqn:Hpush; cbn [option_map of_opt] in Hstep; [|discriminate]. inversion Hstep; subst s' ip.
  assert (H0: opnd_ok m (wordsz m) (OImm 0)) by (split; [lia|exact Hww]).
  assert (Hone: is_mem src = false \/ is_mem (OImm 0) = false) by (right; reflexivity).
  destruct (read2 m (wordsz m) (wordsz m) src (OImm 0) s st t 0 Hw He Hos H0 Hone Hww Hww Hnw I Hrd eq_refl)
    as (pa & ea & pb & eb & st1 & Oa & Ob & Ma & _ & Nb & Ln & Ex1 & He1 & (Ba & Ht & Da & _) & _).
  assert (Pb: pb = []) by (cbn in Ob; inversion Ob; reflexivity). subst pb. rewrite app_nil_r in *.
  assert (Mt: mentions (gpr_name m X86.SP, None) ea = false).
  { destruct src as [r0|r0|b0 i0 d0 a0|v0]; try (destruct Hk as [Hk|Hk]; discriminate Hk).
    - assert (Hro: reg_operand_ok m (wordsz m) (OReg r0)) by exact Hos.
      destruct (reg_operand_shape m _ _ Hro) as (sd0 & Hs0 & Hr0 & _). destruct (operand_shape_xreg _ _ _ _ _ Hs0) as (X0 & V0 & _).
      rewrite (opl_nonmem m _ (OReg r0) eq_refl) in Oa. unfold opv in Oa. rewrite X0 in Oa.
      destruct (reg_get (xreg_of (gpr_name m (oreg (OReg r0))) (wordsz m) sd0)) as [e0| |] eqn:G; cbn [bind] in Oa; try discriminate. inversion Oa; subst e0.
      apply (reg_get_mentions _ _ _ _ V0 G). cbn [fst oreg]. intros E. apply gpr_name_inj in E; [|exact Hr0|apply sp_in_range]. unfold X86.SP in E. congruence.
    - assert (Hro: reg_operand_ok m (wordsz m) (ORegH r0)) by exact Hos. destruct Hro as (_ & E8). destruct m; cbn in E8; discriminate.
    - unfold opl in Oa. destruct (addr_expr m (OMem b0 i0 d0 a0)) as [[ae| |]|]; cbn [bind] in Oa; try discriminate. inversion Oa; subst ea. cbn [mentions].
      destruct (skey_eqb (skey_of (temp_main (wordsz m))) (gpr_name m X86.SP, None)) eqn:Q; [|reflexivity].
      apply skey_eqb_eq in Q. exfalso. apply (kTM_not_reg _ (gpr_name_ok m _ (sp_in_range m))). symmetry. exact Q. }
  destruct (call_gen m addr (addr + len) (mirror_succ m addr len (ICallInd src)) s st pa st1 ea t xs Hw He Nb Ln Ex1 He1 Da Ht Mt Hnx Hpnw Hpush)
    as (ops & st' & Hl & Hrun & Hemb & Hwf).
  exists (one_block addr ops). split.
  - unfold mirror_instr. rewrite Ma. assert (Q: match src with OReg 4 => true | _ => false end = false).
    { destruct src as [r0| | |]; try reflexivity. destruct r0 as [|p|p]; try reflexivity. do 3 (destruct p; try reflexivity). congruence. }
    rewrite Q, Oa. destruct Hk as [Hk|Hk]; rewrite Hk; [|rewrite orb_true_r]; cbn [orb andb]; rewrite Hl; reflexivity.
  - exists st'. auto.
Qed.
