(* Isa/A64Decode.v -- (1) every word that decodes has its fields in range (the hypotheses of the per-form
   theorems); (2) [sim_all]: every decoded form satisfies [sim] (SUBS: [sim_c true]), forms the lifter rejects
   vacuously; (3) the end-to-end statement for the IL the REAL lifter dumped.  [U] *)
From Coq Require Import ZArith List Bool NArith Lia ZifyBool.
From Falcon Require Import Base.Res IL.Const IL.ConstSpec IL.Expr IL.ExprSpec IL.Func IL.Loc Exec.Sem
     IL.ConstProofs IL.ExprProofs Isa.A64 Isa.A64Lift Isa.A64Run Isa.A64Proofs Isa.A64Sim Isa.A64Arith
     Isa.A64Arith2 Isa.A64Flags Isa.A64Flags2 Isa.A64Branch Isa.A64Branch2 Isa.A64Mem Isa.A64Load Isa.A64Store
     Isa.A64Pair Isa.A64Pair2 Isa.A64Pair3 Isa.A64Wb Isa.A64RegOff Isa.A64Shift Isa.A64Ext Isa.C03Check Isa.A64Tie.
Import ListNotations.
Local Open Scope Z_scope.
Ltac Zify.zify_post_hook ::= Z.div_mod_to_equations.

(* ------------------------------------------------------------------ 1. field ranges *)
Definition r32 (x : Z) : Prop := 0 <= x < 32.

Definition fields_ok (i : instr) : Prop :=
  match i with
  | IAddSubImm _ _ _ _ imm12 rn rd => 0 <= imm12 < 4096 /\ r32 rn /\ r32 rd
  | IAddSubShift sf _ _ _ rm imm6 rn rd => 0 <= imm6 < dsize sf /\ r32 rm /\ r32 rn /\ r32 rd
  | IAddSubExt _ _ _ _ rm imm3 rn rd => 0 <= imm3 <= 4 /\ r32 rm /\ r32 rn /\ r32 rd
  | IOrrShift sf _ rm imm6 rn rd => 0 <= imm6 < dsize sf /\ r32 rm /\ r32 rn /\ r32 rd
  | IMovWide sf opc hw imm16 rd =>
      (opc = 0 \/ opc = 2 \/ opc = 3) /\ 0 <= hw < (if sf then 4 else 2) /\ 0 <= imm16 < 65536 /\ r32 rd
  | ILdStImm size opc _ _ _ rn rt => 0 <= size < 4 /\ 0 <= opc < 4 /\ decode_ldst_opc_ok size opc = true /\ r32 rn /\ r32 rt
  | ILdStReg size opc rm option _ rn rt =>
      0 <= size < 4 /\ 0 <= opc < 4 /\ decode_ldst_opc_ok size opc = true /\
      (option = 2 \/ option = 3 \/ option = 6 \/ option = 7) /\ r32 rm /\ r32 rn /\ r32 rt
  | ILdLit _ _ _ => True
  | ILdStPair opc mode load _ rt2 rn rt =>
      (opc = 0 \/ opc = 2 \/ (opc = 1 /\ load = true /\ mode <> PNoAlloc)) /\ r32 rt2 /\ r32 rn /\ r32 rt
  | ILdStOrd size _ _ rn rt => 0 <= size < 4 /\ r32 rn /\ r32 rt
  | ILdStOrdU _ _ _ _ _ => True
  | IOrrImm sf n immr imms rn rd => bitmask_valid sf n imms = true /\ r32 rn /\ r32 rd
  | INop => True
  | IVLdStImm _ _ _ _ _ _ _ | IVLdStReg _ _ _ _ _ _ _ | IVLdStPair _ _ _ _ _ _ _ => True
  | IVIns _ _ _ _ _ | IVInsG _ _ _ _ | IVUmov _ _ _ _ | IVDupS _ _ _ _ | IVMovV _ _ _ | IVAddSubD _ _ _ _ => True
  | IBImm _ _ => True
  | IBReg opc rn => (opc = 0 \/ opc = 1 \/ opc = 2) /\ r32 rn
  | IBCond cond _ => 0 <= cond < 16
  | ICB _ _ _ rt => r32 rt
  | ITB _ _ b40 _ rt => 0 <= b40 < 32 /\ r32 rt
  end.

Lemma bits_lt w hi lo n : 0 <= lo <= hi -> 2 ^ (hi - lo + 1) = n -> 0 <= bits w hi lo < n.
Proof. intros H <-. unfold bits. apply Z.mod_pos_bound. apply pow_pos. lia. Qed.

(* bit 14 of the word against the 3-bit field 15:13 *)
Lemma option_bit1 w : bitb w 14 = true ->
  bits w 15 13 = 2 \/ bits w 15 13 = 3 \/ bits w 15 13 = 6 \/ bits w 15 13 = 7.
Proof.
  unfold bitb, bits. change (2 ^ (14 - 14 + 1)) with 2. change (2 ^ (15 - 13 + 1)) with 8.
  change (2 ^ 14) with 16384. change (2 ^ 13) with 8192. intros H. apply Z.eqb_eq in H. lia.
Qed.

Ltac bl := apply bits_lt; [lia|reflexivity].
Ltac blh h l := match goal with w : Z |- _ => pose proof (bits_lt w h l _ ltac:(lia) eq_refl) end.

Lemma decode_simd_fields w i : decode_simd w = Some i -> fields_ok i.
Proof.
  unfold decode_simd. cbv zeta. intros H.
  repeat match type of H with
         | context [if ?c then _ else _] => let E := fresh "E" in destruct c eqn:E
         | context [match imm5_size ?x with _ => _ end] => let E := fresh "E" in destruct (imm5_size x) eqn:E
         end; try discriminate H; inversion H; subst i; exact I.
Qed.

Theorem decode_fields w i : decode w = Some i -> fields_ok i.
Proof.
  unfold decode. destruct (decode_simd w) as [i'|] eqn:Es.
  { intros H. inversion H; subst i'. apply (decode_simd_fields w); exact Es. }
  clear Es. unfold decode_int. cbv zeta. intros H.
  repeat match type of H with
         | context [if ?c then _ else _] => let E := fresh "E" in destruct c eqn:E
         | context [match imm5_size ?x with _ => _ end] => let E := fresh "E" in destruct (imm5_size x) eqn:E
         end; try discriminate H; inversion H; subst i; clear H; cbn [fields_ok]; unfold r32;
    repeat match goal with |- _ /\ _ => split end; try bl; try exact I;
    try (eapply proj1; bl); try (eapply proj2; bl).
  all: try (apply negb_false_iff; assumption).
  all: try assumption.
  all: try reflexivity.
  all: try lia.
  all: try match goal with H : (_ && bitb _ 14) = true |- _ => apply andb_prop in H; destruct H as [_ H]; apply option_bit1; exact H end.
  all: try (blh 15 10; match goal with w : Z |- _ => destruct (bitb w 31) end; cbn [dsize negb andb] in *; lia).
  all: try (blh 12 10; lia).
  all: try (blh 30 29; blh 22 21; match goal with w : Z |- _ => destruct (bitb w 31) end; cbn [negb andb] in *; lia).
  all: try (blh 31 30; blh 25 23; lia).
  all: try (blh 24 21; lia).
  all: try (blh 31 30; blh 25 23; match goal with w : Z |- _ => destruct (bitb w 22) end; cbn [negb andb] in *;
            first [lia | (right; right; split; [lia|split; [reflexivity|discriminate]]) ]).
  all: match goal with w : Z |- _ =>
         blh 31 30;
         assert (Hc : bits w 31 30 = 0 \/ bits w 31 30 = 1 \/ bits w 31 30 = 2 \/ bits w 31 30 = 3) by lia;
         destruct Hc as [Hc | [Hc | [Hc | Hc]]]; rewrite Hc in *;
         [left; reflexivity
         |right; right; (split; [reflexivity|split; [|discriminate]]);
          destruct (bitb w 22); [reflexivity|cbn [Z.eqb Pos.eqb orb andb negb] in *; discriminate]
         |right; left; reflexivity
         |cbn [Z.eqb Pos.eqb orb andb negb] in *; discriminate]
       end.
Qed.

(* ------------------------------------------------------------------ 2. every decoded form *)
Definition is_subs (i : instr) : bool :=
  match i with
  | IAddSubImm _ sub setflags _ _ _ _ | IAddSubShift _ sub setflags _ _ _ _ _ | IAddSubExt _ sub setflags _ _ _ _ _ => sub && setflags
  | _ => false
  end.

(* SIMD&FP register loads/stores, AdvSIMD element moves and the scalar D add/sub: specified (Isa/A64.v), mirrored, tied and compared on sampled states per run,
   but outside [sim_all]: the embedding [emb] of the theorems does not speak about V0..V31 *)
Definition is_vector (i : instr) : bool :=
  match i with
  | IVLdStImm _ _ _ _ _ _ _ | IVLdStReg _ _ _ _ _ _ _ | IVLdStPair _ _ _ _ _ _ _
  | IVIns _ _ _ _ _ | IVInsG _ _ _ _ | IVUmov _ _ _ _ | IVDupS _ _ _ _ | IVMovV _ _ _ | IVAddSubD _ _ _ _ => true
  | _ => false
  end.

(* a form the lifter rejects satisfies [sim] vacuously *)
Lemma sim_rejected addr i e : lift addr i = Err e -> sim addr i.
Proof. intros H s st ops succs s' _ _ _ _ _ Hl _. rewrite H in Hl. discriminate. Qed.

(* C6.2.229 NOP / PRFM / PRFUM *)
Theorem nop_sim addr : sim addr INop.
Proof.
  intros s st ops succs s' Hw Hpc Ha He _ Hl Hs. inversion Hs; subst s'; clear Hs.
  unfold lift in Hl. cbn [operands_of dispatch terminating bind fst snd] in Hl. inversion Hl; subst ops succs; clear Hl.
  apply (finish_fall addr s st s (ONop None) st); try assumption; reflexivity.
Qed.

(* the specification's bitmask immediate is a value of the operation's width *)
Lemma decode_bit_mask_range N n immr imms : (N = 64 \/ N = 32) -> 0 <= decode_bit_mask N n immr imms < 2 ^ N.
Proof. intros HN. unfold decode_bit_mask. apply Z.mod_pos_bound. destruct HN as [-> | ->]; lia. Qed.

(* C6.2.239 ORR (immediate): only MOV (bitmask immediate) is accepted *)
Theorem orr_imm_sim addr sf n immr imms rn rd : 0 <= rn < 32 -> 0 <= rd < 32 -> sim addr (IOrrImm sf n immr imms rn rd).
Proof.
  intros Hn Hd.
  destruct ((rn =? 31) && negb (move_wide_preferred sf n imms immr)) eqn:E.
  2: { apply (sim_rejected addr _ ECustom). unfold lift. cbn [operands_of]. rewrite E. reflexivity. }
  apply andb_prop in E as [E1 E2]. apply Z.eqb_eq in E1. subst rn.
  intros s st ops succs s' Hw Hpc Ha He _ Hl Hs.
  destruct (xzr_xsp_range sf rd Hd) as [_ Hrd].
  assert (HN : dsize sf = 64 \/ dsize sf = 32) by (destruct sf; cbn; auto).
  pose proof (decode_bit_mask_range (dsize sf) n immr imms HN) as Hr.
  assert (Hz : Xw s 31 (dsize sf) = 0) by (unfold Xw, X; change (31 =? 31) with true; cbv iota; apply Z.mod_0_l; destruct sf; cbn; lia).
  cbn [a64step] in Hs. rewrite Hz, Z.lor_0_l in Hs. inversion Hs; subst s'; clear Hs.
  unfold lift in Hl. cbn [operands_of] in Hl. change (31 =? 31) with true in Hl. rewrite E2 in Hl. cbn [andb dispatch terminating] in Hl.
  assert (L1 : loads s (imm_opnd sf (decode_bit_mask (dsize sf) n immr imms) None)
                     (reg_bits (xreg_sp sf rd)) (reg_bits (xreg_sp sf rd)) (decode_bit_mask (dsize sf) n immr imms)).
  { rewrite reg_bits_sp. unfold imm_opnd. destruct sf; cbn [dsize] in *.
    - replace (decode_bit_mask 64 n immr imms) with (U 64 (decode_bit_mask 64 n immr imms)) at 2 by (unfold U; apply Z.mod_small; lia).
      apply loads_imm64.
    - replace (decode_bit_mask 32 n immr imms) with (U 32 (decode_bit_mask 32 n immr imms)) at 2 by (unfold U; apply Z.mod_small; lia).
      apply loads_imm32. }
  destruct (b_mov_sim s st _ _ _ Hw He Hrd L1) as (op & st' & B1 & B2 & B3).
  rewrite B1 in Hl. cbn [bind fst snd] in Hl. inversion Hl; subst ops succs; clear Hl.
  rewrite areg_write_sp in B3.
  apply (finish_fall addr s st _ op st'); try assumption. apply apc_setSPorX.
Qed.

Theorem sim_all addr i : fields_ok i -> is_vector i = false -> sim_c (is_subs i) addr i.
Proof.
  destruct i as [sf sub setflags sh imm12 rn rd|sf sub setflags k rm imm6 rn rd|sf sub setflags k rm imm3 rn rd
                |sf k rm imm6 rn rd|sf opc hw imm16 rd|size opc mode scaled imm rn rt|size opc rm option sb rn rt
                |opc imm19 rt|opc mode load imm7 rt2 rn rt|size load o0 rn rt|size load o0 rn rt|sf n immr imms rn rd| |scale load mode scaled imm rn rt|scale load rm option sb rn rt|opc mode load imm7 rt2 rn rt|size dst src rn rd|size idx rn rd|size idx rn rd|size idx rn rd|q rn rd|sub rm rn rd|link imm26|opc rn|cond imm19|sf nz imm19 rt|b5 nz b40 imm14 rt];
    cbn [fields_ok is_subs is_vector]; unfold r32; intros Hf Hv; try discriminate Hv; revert Hf.
  - intros (H1 & H2 & H3). destruct setflags.
    + rewrite andb_true_r. apply addsubs_imm_simc; assumption.
    + rewrite andb_false_r. apply addsub_imm_sim; assumption.
  - intros (H1 & H2 & H3 & H4). destruct setflags.
    + rewrite andb_true_r. apply addsubs_shift_simc_all; assumption.
    + rewrite andb_false_r. apply addsub_shift_sim_all; assumption.
  - intros (H1 & H2 & H3 & H4). destruct setflags.
    + rewrite andb_true_r. apply addsubs_ext_simc; assumption.
    + rewrite andb_false_r. apply addsub_ext_sim; assumption.
  - (* ORR (shifted register): only the MOV alias is accepted *)
    intros (H1 & H2 & H3 & H4).
    destruct k; try (apply (sim_rejected addr _ ECustom); reflexivity).
    destruct ((imm6 =? 0) && (rn =? 31)) eqn:E.
    + apply andb_prop in E as [E1 E2]. apply Z.eqb_eq in E1. apply Z.eqb_eq in E2. subst imm6 rn. apply mov_reg_sim; assumption.
    + apply (sim_rejected addr _ ECustom). unfold lift. cbn [operands_of]. rewrite E. reflexivity.
  - (* move wide: MOVK is not accepted *)
    intros (H1 & H2 & H3 & H4). destruct H1 as [-> | [-> | ->]].
    + apply mov_wide_sim; auto.
    + apply mov_wide_sim; auto.
    + apply (sim_rejected addr _ ECustom). reflexivity.
  - intros (H1 & H2 & H3 & H4 & H5). apply ldst_imm_sim; assumption.
  - intros (H1 & H2 & H3 & H4 & H5 & H6 & H7). apply ldst_reg_sim; assumption.
  - (* LDR (literal): mem_operand_address answers unsupported for the label *)
    intros _. apply (sim_rejected addr _ ECustom). unfold lift. cbn [operands_of].
    destruct (Z.eqb_spec opc 2) as [-> | N2]; cbn [dispatch]; unfold b_ldr, b_ldrs, nth_op; cbn [nth_error res_of_option bind operand_storing_width mem_operand_address].
    + change (negb (2 =? 0)) with true. rewrite reg_bits_zr. reflexivity.
    + reflexivity.
  - intros (H1 & H2 & H3 & H4). destruct H1 as [-> | [-> | (-> & -> & Hm)]].
    + destruct load; [apply ldp_sim|apply stp_sim]; auto.
    + destruct load; [apply ldp_sim|apply stp_sim]; auto.
    + apply ldpsw_sim; assumption.
  - intros (H1 & H2 & H3). apply ldst_ord_sim; assumption.
  - (* (1) fields not all ones: CONSTRAINED UNPREDICTABLE, nothing to compare *)
    intros _ s st ops succs s' _ _ _ _ _ _ Hs. discriminate Hs.
  - intros (H1 & H2 & H3). apply orr_imm_sim; assumption.
  - intros _. apply nop_sim.
  - intros _. destruct link; [apply bl_sim|apply b_sim].
  - intros (H1 & H2). destruct H1 as [-> | [-> | ->]]; [apply br_sim|apply blr_sim|apply ret_sim]; assumption.
  - intros H. apply bcond_sim; assumption.
  - intros H. apply cb_sim; assumption.
  - intros (H1 & H2). apply tb_sim; assumption.
Qed.

(* ------------------------------------------------------------------ 3. end to end *)
(* For EVERY word that decodes (the classes of Isa/A64.v): if the checker's syntactic tie holds for the IL the
   real lifter dumped for that word at that address, then from every well-formed machine state and every IL
   state representing it (mapping the accessed bytes), whenever the architecture defines the outcome, running
   the DUMPED IL in Exec/Sem.v reaches an IL state representing the architecture's result state at the
   architecture's next pc -- for SUBS with the carry flag inverted (known finding). *)
Theorem c03_end_to_end w i addr g succs :
  decode w = Some i -> is_vector i = false -> syntactic_tie addr i g succs = true ->
  forall s st s', wf s -> apc s = addr -> addr + 4 < 2 ^ 64 -> emb s st -> mapped st (footprint i s) ->
    a64step i s = Done s' ->
    exists st', run_lifted g succs st = Ok (st', apc s') /\ emb (if is_subs i then flipC s' else s') st'.
Proof.
  intros Hd Hv Ht s st s' Hw Hpc Ha He Hm Hs.
  destruct (syntactic_tie_sound _ _ _ _ Ht) as (ops & Hl & ->).
  exact (sim_all addr i (decode_fields w i Hd) Hv s st ops succs s' Hw Hpc Ha He Hm Hl Hs).
Qed.
