(* Isa/A64Tie.v -- the syntactic tie transfers a per-form theorem to an enumerated encoding:
   if the checker's [syntactic_tie] holds for the IL the real lifter dumped for a word, the [sim]
   theorem of the decoded form speaks about that dumped IL, for all states. *)
From Coq Require Import ZArith List Bool NArith Lia.
From Falcon Require Import Base.Res IL.Const IL.ConstSpec IL.Expr IL.Func IL.Loc Exec.Sem
     Isa.A64 Isa.A64Lift Isa.A64Run Isa.A64Proofs Isa.A64Sim Isa.C03Check.
Import ListNotations.
Local Open Scope Z_scope.

Lemma optN_eqb_eq a b : optN_eqb a b = true -> a = b.
Proof. destruct a, b; cbn; intros H; try discriminate; [apply N.eqb_eq in H; congruence|reflexivity]. Qed.
Lemma scalar_eqb_eq a b : scalar_eqb a b = true -> a = b.
Proof.
  destruct a as [n w v], b as [n' w' v']. unfold scalar_eqb. cbn [sname sbits sssa]. intros H.
  apply andb_prop in H as [H H3]. apply andb_prop in H as [H1 H2].
  apply N.eqb_eq in H1. apply Z.eqb_eq in H2. apply optN_eqb_eq in H3. congruence.
Qed.
Lemma const_eqb_eq a b : const_eqb a b = true -> a = b.
Proof.
  destruct a as [w v], b as [w' v']. unfold const_eqb. cbn [cbits cval]. intros H. apply andb_prop in H as [H1 H2].
  apply Z.eqb_eq in H1. apply Z.eqb_eq in H2. congruence.
Qed.
Lemma binop_eqb_eq a b : binop_eqb a b = true -> a = b.
Proof. destruct a, b; cbn; intros; congruence. Qed.
Lemma extop_eqb_eq a b : extop_eqb a b = true -> a = b.
Proof. destruct a, b; cbn; intros; congruence. Qed.

Lemma expr_eqb_eq : forall a b, expr_eqb a b = true -> a = b.
Proof.
  induction a as [s|c|o l IHl r IHr|o n x IHx|c IHc t IHt f IHf]; destruct b; cbn [expr_eqb]; intros H; try discriminate.
  - apply scalar_eqb_eq in H. congruence.
  - apply const_eqb_eq in H. congruence.
  - apply andb_prop in H as [H H3]. apply andb_prop in H as [H1 H2].
    apply binop_eqb_eq in H1. apply IHl in H2. apply IHr in H3. congruence.
  - apply andb_prop in H as [H H3]. apply andb_prop in H as [H1 H2].
    apply extop_eqb_eq in H1. apply Z.eqb_eq in H2. apply IHx in H3. congruence.
  - apply andb_prop in H as [H H3]. apply andb_prop in H as [H1 H2].
    apply IHc in H1. apply IHt in H2. apply IHf in H3. congruence.
Qed.

Lemma op_eqb_eq a b : op_eqb a b = true -> a = b.
Proof.
  destruct a as [d s|i s|d i|t|i|[p|]], b as [d' s'|i' s'|d' i'|t'|i'|[p'|]]; cbn [op_eqb]; intros H; try discriminate.
  - apply andb_prop in H as [H1 H2]. apply scalar_eqb_eq in H1. apply expr_eqb_eq in H2. congruence.
  - apply andb_prop in H as [H1 H2]. apply expr_eqb_eq in H1. apply expr_eqb_eq in H2. congruence.
  - apply andb_prop in H as [H1 H2]. apply scalar_eqb_eq in H1. apply expr_eqb_eq in H2. congruence.
  - apply expr_eqb_eq in H. congruence.
  - reflexivity.
Qed.

Lemma list_eqb_eq {A} (eqb : A -> A -> bool) : (forall a b, eqb a b = true -> a = b) ->
  forall l m, list_eqb eqb l m = true -> l = m.
Proof.
  intros He. induction l as [|x t IH]; destruct m as [|y u]; cbn [list_eqb]; intros H; try discriminate; [reflexivity|].
  apply andb_prop in H as [H1 H2]. apply He in H1. apply IH in H2. congruence.
Qed.
Lemma optZ_eqb_eq a b : optZ_eqb a b = true -> a = b.
Proof. destruct a, b; cbn; intros H; try discriminate; [apply Z.eqb_eq in H; congruence|reflexivity]. Qed.

Lemma instr_eqb_eq a b : instr_eqb a b = true -> a = b.
Proof.
  destruct a as [k o ad], b as [k' o' ad']. unfold instr_eqb. cbn [i_index i_op i_addr]. intros H.
  apply andb_prop in H as [H H3]. apply andb_prop in H as [H1 H2].
  apply Z.eqb_eq in H1. apply op_eqb_eq in H2. apply optZ_eqb_eq in H3. congruence.
Qed.
Lemma block_eqb_eq a b : block_eqb a b = true -> a = b.
Proof.
  destruct a as [i n l p], b as [i' n' l' p']. unfold block_eqb. cbn [b_index b_next b_instrs b_phis]. intros H.
  apply andb_prop in H as [H H4]. apply andb_prop in H as [H H3]. apply andb_prop in H as [H1 H2].
  apply Z.eqb_eq in H1. apply Z.eqb_eq in H2. apply (list_eqb_eq _ instr_eqb_eq) in H3.
  destruct p, p'; try discriminate. congruence.
Qed.
Lemma cfg_eqb_eq a b : cfg_eqb a b = true -> a = b.
Proof.
  destruct a as [bl ed nx en ex], b as [bl' ed' nx' en' ex']. unfold cfg_eqb.
  cbn [g_blocks g_edges g_next_index g_entry g_exit]. intros H.
  apply andb_prop in H as [H H5]. apply andb_prop in H as [H H4]. apply andb_prop in H as [H H3].
  apply andb_prop in H as [H1 H2].
  apply (list_eqb_eq _ block_eqb_eq) in H1. destruct ed, ed'; try discriminate.
  apply Z.eqb_eq in H3. apply optZ_eqb_eq in H4. apply optZ_eqb_eq in H5. congruence.
Qed.
Lemma succs_eqb_eq a b : succs_eqb a b = true -> a = b.
Proof.
  unfold succs_eqb. apply list_eqb_eq. intros [x c] [y d]. cbn [fst snd]. intros H.
  apply andb_prop in H as [H1 H2]. apply Z.eqb_eq in H1.
  destruct c, d; cbn [opt_expr_eqb] in H2; try discriminate; [apply expr_eqb_eq in H2; congruence|congruence].
Qed.

(* what the checker's tie establishes about a dumped graph *)
Lemma syntactic_tie_sound addr i g succs : syntactic_tie addr i g succs = true ->
  exists ops, lift addr i = Ok (ops, succs) /\ g = graph_of addr ops.
Proof.
  unfold syntactic_tie. destruct (lift addr i) as [[ops ss]| |]; intros H; try discriminate H.
  apply andb_prop in H as [H1 H2]. apply cfg_eqb_eq in H1. apply succs_eqb_eq in H2.
  subst g ss. exists ops. split; reflexivity.
Qed.

(* THE TRANSFER: a per-form theorem + the tie checked for one dumped encoding = correctness of the
   REAL lifter's output for that encoding, from every state *)
Theorem tie_transfers addr i g succs :
  syntactic_tie addr i g succs = true -> sim addr i ->
  forall s st s', wf s -> apc s = addr -> addr + 4 < 2 ^ 64 -> emb s st -> mapped st (footprint i s) ->
    a64step i s = Done s' ->
    exists st', run_lifted g succs st = Ok (st', apc s') /\ emb s' st'.
Proof.
  intros Ht Hsim s st s' Hw Hpc Ha He Hm Hs.
  destruct (syntactic_tie_sound _ _ _ _ Ht) as (ops & Hl & ->).
  exact (Hsim s st ops succs s' Hw Hpc Ha He Hm Hl Hs).
Qed.

(* the oracle's embedding represents the state: the hypotheses of [sim] are satisfiable *)
Lemma bytes_get_map (f : Z -> Z) : forall l a b, bytes_get (map (fun a => (a, f a)) l) a = Some b -> b = f a.
Proof.
  induction l as [|x t IH]; intros a b H; cbn [map bytes_get] in H; [discriminate|].
  destruct (Z.eqb_spec x a) as [->|N]; [congruence|apply IH; assumption].
Qed.

Lemma emb_embed s l : emb s (embed s l).
Proof.
  constructor; try reflexivity.
  - intros n Hn. unfold embed. cbn [st_env].
    assert (H : n = 0 \/ n = 1 \/ n = 2 \/ n = 3 \/ n = 4 \/ n = 5 \/ n = 6 \/ n = 7 \/ n = 8 \/ n = 9 \/ n = 10 \/
                n = 11 \/ n = 12 \/ n = 13 \/ n = 14 \/ n = 15 \/ n = 16 \/ n = 17 \/ n = 18 \/ n = 19 \/ n = 20 \/
                n = 21 \/ n = 22 \/ n = 23 \/ n = 24 \/ n = 25 \/ n = 26 \/ n = 27 \/ n = 28 \/ n = 29 \/ n = 30) by lia.
    repeat (destruct H as [-> | H]; [reflexivity|]). subst n. reflexivity.
  - intros a b H. unfold embed, bm_get in H. cbn [st_mem bm_bytes] in H. apply (bytes_get_map (amem s)) in H. exact H.
Qed.
