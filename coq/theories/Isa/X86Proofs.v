(* Isa/X86Proofs.v -- proofs about the mirror of the x86 lifter's helper layer (Isa/X86Lift.v) against the
   ISA specification (Isa/X86.v), in the reference IL semantics (Exec/Sem.v: den). *)
From Coq Require Import ZArith List Bool NArith Lia ZifyBool.
From Falcon Require Import Base.Res IL.Const IL.ConstSpec IL.Expr IL.ExprSpec IL.Func Exec.Sem Isa.X86 Isa.X86Lift.
Import ListNotations.
Local Open Scope Z_scope.
Ltac Zify.zify_post_hook ::= Z.div_mod_to_equations.

(* ---------- bit-field lemmas ---------- *)
Lemma testbit_high x w n : 0 <= x < 2 ^ w -> 0 <= w -> w <= n -> Z.testbit x n = false.
Proof.
  intros Hx Hw Hn. rewrite <- (Z.mod_small x (2 ^ w)) by lia. apply Z.mod_pow2_bits_high. lia.
Qed.

Lemma bool_range o b n : o <= n -> (0 <=? n - o) && (n - o <? b) = (n <? o + b).
Proof. intros H. destruct (Z.leb_spec 0 (n - o)), (Z.ltb_spec (n - o) b), (Z.ltb_spec n (o + b)); cbn; try reflexivity; exfalso; lia. Qed.

Definition field (b o : Z) : Z := Z.shiftl (Z.ones b) o.

Lemma testbit_field b o n : 0 <= b -> 0 <= o -> 0 <= n ->
  Z.testbit (field b o) n = (o <=? n) && (n <? o + b).
Proof.
  intros Hb Ho Hn. unfold field. rewrite Z.shiftl_spec by lia.
  destruct (Z.leb_spec o n) as [H|H].
  - rewrite Z.testbit_ones by lia. rewrite bool_range by lia. reflexivity.
  - rewrite (Z.testbit_neg_r _ (n - o)) by lia. reflexivity.
Qed.

Lemma land_field x b o : 0 <= x -> 0 <= b -> 0 <= o ->
  Z.land x (field b o) = ((x / 2 ^ o) mod 2 ^ b) * 2 ^ o.
Proof.
  intros Hx Hb Ho.
  rewrite <- Z.land_ones by lia. rewrite <- Z.shiftr_div_pow2 by lia. rewrite <- Z.shiftl_mul_pow2 by lia.
  apply Z.bits_inj'. intros n Hn.
  rewrite Z.land_spec, testbit_field by lia.
  rewrite Z.shiftl_spec by lia.
  destruct (Z.leb_spec o n) as [H|H].
  - rewrite Z.land_spec, Z.shiftr_spec by lia. rewrite Z.testbit_ones by lia.
    replace (n - o + o) with n by lia. rewrite bool_range by lia. cbn [andb]. reflexivity.
  - rewrite (Z.testbit_neg_r _ (n - o)) by lia. cbn. apply andb_false_r.
Qed.

Lemma land_clear_field x w b o : 0 <= x < 2 ^ w -> 0 <= b -> 0 <= o -> o + b <= w ->
  Z.land x (Z.ldiff (Z.ones w) (field b o)) = x - ((x / 2 ^ o) mod 2 ^ b) * 2 ^ o.
Proof.
  intros Hx Hb Ho Hw.
  rewrite <- land_field by lia.
  assert (E: Z.ldiff (Z.land x (field b o)) x = 0).
  { apply Z.bits_inj'. intros n Hn. rewrite Z.ldiff_spec, Z.land_spec, Z.bits_0.
    destruct (Z.testbit x n); cbn; [apply andb_false_r|reflexivity]. }
  rewrite (Z.sub_nocarry_ldiff _ _ E).
  apply Z.bits_inj'. intros n Hn.
  rewrite Z.land_spec, !Z.ldiff_spec, Z.land_spec.
  destruct (Z.ltb_spec n w) as [H|H].
  - rewrite Z.testbit_ones by lia.
    replace ((0 <=? n) && (n <? w)) with true by (symmetry; apply andb_true_intro; split; [apply Z.leb_le|apply Z.ltb_lt]; lia).
    destruct (Z.testbit x n), (Z.testbit (field b o) n); reflexivity.
  - rewrite (testbit_high x w n) by lia. reflexivity.
Qed.

Lemma lor_disjoint_field x y w b o : 0 <= x < 2 ^ w -> 0 <= y < 2 ^ b -> 0 <= b -> 0 <= o -> o + b <= w ->
  Z.lor (x - ((x / 2 ^ o) mod 2 ^ b) * 2 ^ o) (y * 2 ^ o) = x - ((x / 2 ^ o) mod 2 ^ b) * 2 ^ o + y * 2 ^ o.
Proof.
  intros Hx Hy Hb Ho Hw.
  rewrite <- (land_clear_field x w b o) by lia.
  set (a := Z.land x (Z.ldiff (Z.ones w) (field b o))).
  assert (D: Z.land a (y * 2 ^ o) = 0).
  { subst a. apply Z.bits_inj'. intros n Hn.
    rewrite !Z.land_spec, Z.ldiff_spec, Z.bits_0, testbit_field by lia.
    rewrite <- Z.shiftl_mul_pow2 by lia. rewrite Z.shiftl_spec by lia.
    destruct (Z.leb_spec o n) as [H|H].
    - destruct (Z.ltb_spec n (o + b)) as [H2|H2]; cbn [andb negb].
      + rewrite andb_false_r. rewrite andb_false_r. reflexivity.
      + rewrite (testbit_high y b (n - o)) by lia. apply andb_false_r.
    - rewrite (Z.testbit_neg_r _ (n - o)) by lia. apply andb_false_r. }
  rewrite (Z.add_nocarry_lxor _ _ D). symmetry. apply Z.lxor_lor. exact D.
Qed.
