(* Isa/X86Proofs.v -- proofs about the mirror of the x86 lifter's helper layer (Isa/X86Lift.v) against the
   ISA specification (Isa/X86.v), in the reference IL semantics (Exec/Sem.v: den). *)
From Coq Require Import ZArith List Bool NArith Lia ZifyBool.
From Falcon Require Import Base.Res IL.Const IL.ConstSpec IL.Expr IL.ExprSpec IL.Func Exec.Sem Isa.X86 Isa.X86Lift.
Import ListNotations.
Local Open Scope Z_scope.
Ltac Zify.zify_post_hook ::= Z.div_mod_to_equations.

(* ---------- bit-field lemmas ---------- *)
Lemma testbit_high x w n : 0 <= x < 2 ^ w -> 0 <= w -> w <= n -> Z.testbit x n = false.
Proof.
  intros Hx Hw Hn. rewrite <- (Z.mod_small x (2 ^ w)) by lia. apply Z.mod_pow2_bits_high. lia.
Qed.

Lemma bool_range o b n : o <= n -> (0 <=? n - o) && (n - o <? b) = (n <? o + b).
Proof. intros H. destruct (Z.leb_spec 0 (n - o)), (Z.ltb_spec (n - o) b), (Z.ltb_spec n (o + b)); cbn; try reflexivity; exfalso; lia. Qed.

Definition field (b o : Z) : Z := Z.shiftl (Z.ones b) o.

Lemma testbit_field b o n : 0 <= b -> 0 <= o -> 0 <= n ->
  Z.testbit (field b o) n = (o <=? n) && (n <? o + b).
Proof.
  intros Hb Ho Hn. unfold field. rewrite Z.shiftl_spec by lia.
  destruct (Z.leb_spec o n) as [H|H].
  - rewrite Z.testbit_ones by lia. rewrite bool_range by lia. reflexivity.
  - rewrite (Z.testbit_neg_r _ (n - o)) by lia. reflexivity.
Qed.

Lemma land_field x b o : 0 <= x -> 0 <= b -> 0 <= o ->
  Z.land x (field b o) = ((x / 2 ^ o) mod 2 ^ b) * 2 ^ o.
Proof.
  intros Hx Hb Ho.
  rewrite <- Z.land_ones by lia. rewrite <- Z.shiftr_div_pow2 by lia. rewrite <- Z.shiftl_mul_pow2 by lia.
  apply Z.bits_inj'. intros n Hn.
  rewrite Z.land_spec, testbit_field by lia.
  rewrite Z.shiftl_spec by lia.
  destruct (Z.leb_spec o n) as [H|H].
  - rewrite Z.land_spec, Z.shiftr_spec by lia. rewrite Z.testbit_ones by lia.
    replace (n - o + o) with n by lia. rewrite bool_range by lia. cbn [andb]. reflexivity.
  - rewrite (Z.testbit_neg_r _ (n - o)) by lia. cbn. apply andb_false_r.
Qed.

Lemma land_clear_field x w b o : 0 <= x < 2 ^ w -> 0 <= b -> 0 <= o -> o + b <= w ->
  Z.land x (Z.ldiff (Z.ones w) (field b o)) = x - ((x / 2 ^ o) mod 2 ^ b) * 2 ^ o.
Proof.
  intros Hx Hb Ho Hw.
  rewrite <- land_field by lia.
  assert (E: Z.ldiff (Z.land x (field b o)) x = 0).
  { apply Z.bits_inj'. intros n Hn. rewrite Z.ldiff_spec, Z.land_spec, Z.bits_0.
    destruct (Z.testbit x n); cbn; [apply andb_false_r|reflexivity]. }
  rewrite (Z.sub_nocarry_ldiff _ _ E).
  apply Z.bits_inj'. intros n Hn.
  rewrite Z.land_spec, !Z.ldiff_spec, Z.land_spec.
  destruct (Z.ltb_spec n w) as [H|H].
  - rewrite Z.testbit_ones by lia.
    replace ((0 <=? n) && (n <? w)) with true by (symmetry; apply andb_true_intro; split; [apply Z.leb_le|apply Z.ltb_lt]; lia).
    destruct (Z.testbit x n), (Z.testbit (field b o) n); reflexivity.
  - rewrite (testbit_high x w n) by lia. reflexivity.
Qed.

Lemma lor_disjoint_field x y w b o : 0 <= x < 2 ^ w -> 0 <= y < 2 ^ b -> 0 <= b -> 0 <= o -> o + b <= w ->
  Z.lor (x - ((x / 2 ^ o) mod 2 ^ b) * 2 ^ o) (y * 2 ^ o) = x - ((x / 2 ^ o) mod 2 ^ b) * 2 ^ o + y * 2 ^ o.
Proof.
  intros Hx Hy Hb Ho Hw.
  rewrite <- (land_clear_field x w b o) by lia.
  set (a := Z.land x (Z.ldiff (Z.ones w) (field b o))).
  assert (D: Z.land a (y * 2 ^ o) = 0).
  { subst a. apply Z.bits_inj'. intros n Hn.
    rewrite !Z.land_spec, Z.ldiff_spec, Z.bits_0, testbit_field by lia.
    rewrite <- Z.shiftl_mul_pow2 by lia. rewrite Z.shiftl_spec by lia.
    destruct (Z.leb_spec o n) as [H|H].
    - destruct (Z.ltb_spec n (o + b)) as [H2|H2]; cbn [andb negb].
      + rewrite andb_false_r. rewrite andb_false_r. reflexivity.
      + rewrite (testbit_high y b (n - o)) by lia. apply andb_false_r.
    - rewrite (Z.testbit_neg_r _ (n - o)) by lia. apply andb_false_r. }
  rewrite (Z.add_nocarry_lxor _ _ D). symmetry. apply Z.lxor_lor. exact D.
Qed.

(* ---------- the register access layer ---------- *)
Inductive shape := ShFull | ShLow8 | ShLow16 | ShLow32 | ShHigh8.
Definition shape_bits (fbits : Z) (s : shape) : Z :=
  match s with ShFull => fbits | ShLow8 | ShHigh8 => 8 | ShLow16 => 16 | ShLow32 => 32 end.
Definition shape_offset (s : shape) : Z := match s with ShHigh8 => 8 | _ => 0 end.
(* eax is a sub-register only in the amd64 table *)
Definition shape_valid (fbits : Z) (s : shape) : Prop :=
  (fbits = 32 \/ fbits = 64) /\ (s = ShLow32 -> fbits = 64).
Definition xreg_of (n : N) (fbits : Z) (s : shape) : xreg :=
  mkreg n fbits (shape_offset s) (shape_bits fbits s) (match s with ShFull => true | _ => false end).

Lemma xreg_of_shape_ok n fbits s : shape_valid fbits s -> reg_shape_ok (xreg_of n fbits s) = true.
Proof. intros [[->| ->] H]; destruct s; try reflexivity; specialize (H eq_refl); discriminate. Qed.

(* what the architecture says a read / a write of the sub-register does to the full register value x *)
Definition arch_read (s : shape) (fbits x : Z) : Z :=
  match s with ShHigh8 => X86.regh_read 0 [x] | _ => X86.reg_read (shape_bits fbits s) 0 [x] end.
Definition arch_write (s : shape) (fbits x y : Z) : Z :=
  match s with
  | ShHigh8 => X86.rget (X86.regh_write 0 y [x]) 0
  | _ => X86.rget (X86.reg_write (shape_bits fbits s) 0 y [x]) 0
  end.

Lemma den_full en n fbits x :
  env_get en (n, None) = Some (mkc fbits x) ->
  den en (EScalar (mks n fbits None)) = Ok (mkc fbits x).
Proof. intros H. cbn. unfold skey_of. cbn. rewrite H. cbn. rewrite Z.eqb_refl. reflexivity. Qed.

Theorem reg_get_correct en n fbits s x :
  shape_valid fbits s -> 0 <= x < 2 ^ fbits ->
  env_get en (n, None) = Some (mkc fbits x) ->
  exists e, reg_get (xreg_of n fbits s) = Ok e /\
            den en e = Ok (mkc (shape_bits fbits s) (arch_read s fbits x)).
Proof.
  intros [[->| ->] Hs] Hx He; destruct s; try (specialize (Hs eq_refl); discriminate);
    (eexists; split; [reflexivity|]);
    cbv [full_scalar xreg_of xr_full xr_fbits shape_offset shape_bits]; cbn [den bind]; unfold skey_of; cbn [sname sssa sbits]; rewrite He; cbn [cbits bind]; rewrite ?Z.eqb_refl; cbn [bind];
    unfold arch_read, X86.reg_read, X86.regh_read, X86.rget; cbn [shape_bits Z.to_nat nth];
    try reflexivity.
  all: cbn; f_equal; f_equal; unfold U; try rewrite Z.mod_small by lia; try reflexivity.
  all: idtac.
Qed.

Lemma set_low x y w b M : M = Z.ldiff (Z.ones w) (field b 0) -> 0 <= x < 2 ^ w -> 0 <= y < 2 ^ b -> 0 <= b <= w ->
  Z.lor (Z.land x M) y = x - x mod 2 ^ b + y.
Proof.
  intros -> Hx Hy Hb.
  rewrite land_clear_field by lia.
  pose proof (lor_disjoint_field x y w b 0 Hx Hy) as L.
  rewrite Z.pow_0_r, Z.div_1_r, !Z.mul_1_r in *. apply L; lia.
Qed.
Lemma set_high x y w M : M = Z.ldiff (Z.ones w) (field 8 8) -> 0 <= x < 2 ^ w -> 0 <= y < 256 -> 16 <= w ->
  Z.lor (Z.land x M) (y * 256) = x - ((x / 256) mod 256) * 256 + y * 256.
Proof.
  intros -> Hx Hy Hw.
  rewrite land_clear_field by lia.
  apply (lor_disjoint_field x y w 8 8); lia.
Qed.

Theorem reg_set_correct en n fbits s x v y :
  shape_valid fbits s -> 0 <= x < 2 ^ fbits -> 0 <= y < 2 ^ shape_bits fbits s ->
  env_get en (n, None) = Some (mkc fbits x) ->
  e_bits v = shape_bits fbits s -> den en v = Ok (mkc (shape_bits fbits s) y) ->
  exists e, reg_set (xreg_of n fbits s) v = Ok [OAssign (mks n fbits None) e] /\
            den en e = Ok (mkc fbits (arch_write s fbits x y)).
Proof.
  intros [[->| ->] Hs] Hx Hy He Hb Hv; destruct s; try (specialize (Hs eq_refl); discriminate);
    cbn [shape_bits] in *;
    unfold reg_set, xreg_of, full_scalar, mk_ext, mk_bin;
    cbn [xr_is_full xr_offset xr_bits xr_fbits xr_full shape_offset shape_bits e_bits sbits expr_const new_big cbits];
    rewrite ?Hb; cbn [Z.eqb Z.ltb Z.leb Z.compare Pos.compare Pos.compare_cont orb negb bind is_cmp];
    (eexists; split; [reflexivity|]);
    cbn [den bind]; unfold skey_of; cbn [sname sssa sbits]; rewrite ?He, ?Hv; cbn [cbits bind]; rewrite ?Z.eqb_refl; cbn [bind].
  all: unfold arch_write, X86.reg_write, X86.regh_write, X86.rget, X86.rset; cbn [shape_bits Z.to_nat nth X86.lset].
  all: try reflexivity.
  all: cbn; f_equal; f_equal.
  all: unfold s_or, s_and, U.
  all: try (first [apply (set_low x y 32 8); [reflexivity|lia..]|apply (set_low x y 32 16); [reflexivity|lia..]|apply (set_low x y 64 8); [reflexivity|lia..]|apply (set_low x y 64 16); [reflexivity|lia..]]).
  all: rewrite (Z.mod_small (y * 256)) by lia; first [apply (set_high x y 32); [reflexivity|lia..]|apply (set_high x y 64); [reflexivity|lia..]].
Qed.

Theorem reg_get_set_correct en n fbits s x :
  shape_valid fbits s -> 0 <= x < 2 ^ fbits -> env_get en (n, None) = Some (mkc fbits x) ->
  (exists e, reg_get (xreg_of n fbits s) = Ok e /\
             den en e = Ok (mkc (shape_bits fbits s) (arch_read s fbits x))) /\
  (forall v y, 0 <= y < 2 ^ shape_bits fbits s -> e_bits v = shape_bits fbits s ->
               den en v = Ok (mkc (shape_bits fbits s) y) ->
     exists e, reg_set (xreg_of n fbits s) v = Ok [OAssign (mks n fbits None) e] /\
               den en e = Ok (mkc fbits (arch_write s fbits x y))).
Proof.
  intros Hs Hx He. split.
  - apply reg_get_correct; assumption.
  - intros v y Hy Hb Hv. apply reg_set_correct; assumption.
Qed.

(* the code before the fix: writing ah keeps only the old ah and clears everything else *)
Lemma reg_set_prefix_refuted :
  let en := [((0%N, None), mkc 64 1311768467463790320)] in      (* rax = 0x1234_5678_9abc_def0 *)
  let v := EConst (mkc 8 85) in                                 (* mov ah, 0x55 *)
  exists e, reg_set_prefix (xreg_of 0%N 64 ShHigh8) v = Ok [OAssign (mks 0%N 64 None) e] /\
            den en e = Ok (mkc 64 57088) /\                    (* 0xde00 | 0x5500 = 0xdf00.. : not the architecture's *)
            arch_write ShHigh8 64 1311768467463790320 85 = 1311768467463755248.
Proof. cbv zeta. eexists. split; [reflexivity|]. split; vm_compute; reflexivity. Qed.

(* ---------- flag helpers ---------- *)
Lemma msb_testbit a w : 1 <= w -> 0 <= a < 2 ^ w -> Z.testbit a (w - 1) = (2 ^ (w - 1) <=? a).
Proof.
  intros Hw Ha.
  assert (P: 2 ^ w = 2 * 2 ^ (w - 1)) by (rewrite <- Z.pow_succ_r by lia; f_equal; lia).
  assert (Q: 0 < 2 ^ (w - 1)) by (apply Z.pow_pos_nonneg; lia).
  rewrite Z.testbit_odd, Z.shiftr_div_pow2 by lia.
  destruct (Z.leb_spec (2 ^ (w - 1)) a) as [H|H].
  - replace (a / 2 ^ (w - 1)) with 1; [reflexivity|]. apply Z.div_unique with (a - 2 ^ (w - 1)); lia.
  - rewrite Z.div_small by lia. reflexivity.
Qed.

Definition width_ok (w : Z) : Prop := w = 8 \/ w = 16 \/ w = 32 \/ w = 64.

Lemma bit_of_msb x w : 1 <= w -> 0 <= x < 2 ^ w -> (x / 2 ^ (w - 1)) mod 2 = Z.b2z (Z.testbit x (w - 1)).
Proof. intros Hw Hx. symmetry. apply Z.testbit_spec'. lia. Qed.

Lemma land_range a b w : 0 <= w -> 0 <= a < 2 ^ w -> 0 <= b -> 0 <= Z.land a b < 2 ^ w.
Proof.
  intros Hw Ha Hb. split; [apply Z.land_nonneg; lia|].
  destruct (Z.eq_dec (Z.land a b) 0) as [->|N]; [apply Z.pow_pos_nonneg; lia|].
  apply Z.log2_lt_pow2; [pose proof (Z.land_nonneg a b); lia|].
  eapply Z.le_lt_trans; [apply Z.log2_land; lia|].
  destruct (Z.eq_dec a 0) as [->|Na]; [rewrite Z.land_0_l in N; contradiction|].
  apply Z.min_lt_iff. left. apply Z.log2_lt_pow2; lia.
Qed.
Lemma lxor_range a b w : 0 <= w -> 0 <= a < 2 ^ w -> 0 <= b < 2 ^ w -> 0 <= Z.lxor a b < 2 ^ w.
Proof.
  intros Hw Ha Hb. assert (NN: 0 <= Z.lxor a b) by (apply Z.lxor_nonneg; lia). split; [exact NN|].
  destruct (Z.eq_dec (Z.lxor a b) 0) as [->|N]; [apply Z.pow_pos_nonneg; lia|].
  assert (Wp: 0 < w).
  { destruct (Z.eq_dec w 0) as [->|]; [|lia]. change (2 ^ 0) with 1 in *.
    assert (a = 0) by lia. assert (b = 0) by lia. subst. cbn in N. contradiction. }
  apply Z.log2_lt_pow2; [lia|].
  eapply Z.le_lt_trans; [apply Z.log2_lxor; lia|].
  apply Z.max_lub_lt.
  - destruct (Z.eq_dec a 0) as [->|Na]; [cbn; lia|apply Z.log2_lt_pow2; lia].
  - destruct (Z.eq_dec b 0) as [->|Nb]; [cbn; lia|apply Z.log2_lt_pow2; lia].
Qed.

(* the value computed by set_of(result, lhs, rhs, subtract) *)
Definition of_value (w a b r : Z) (subtract : bool) : Z :=
  let e0 := Z.lxor a b in
  let e0 := if subtract then e0 else Z.lxor e0 (2 ^ w - 1) in
  (Z.land e0 (Z.lxor a r) / 2 ^ (w - 1)) mod 2.

Lemma of_value_bits w a b r sub : 1 <= w -> 0 <= a < 2 ^ w -> 0 <= b < 2 ^ w -> 0 <= r < 2 ^ w ->
  of_value w a b r sub =
  Z.b2z ((if sub then xorb (2 ^ (w - 1) <=? a) (2 ^ (w - 1) <=? b)
          else negb (xorb (2 ^ (w - 1) <=? a) (2 ^ (w - 1) <=? b)))
         && xorb (2 ^ (w - 1) <=? a) (2 ^ (w - 1) <=? r)).
Proof.
  intros Hw Ha Hb Hr. unfold of_value.
  assert (Hm: 0 <= 2 ^ w - 1 < 2 ^ w) by (pose proof (Z.pow_pos_nonneg 2 w); lia).
  assert (Hab: 0 <= Z.lxor a b < 2 ^ w) by (apply lxor_range; lia).
  assert (Har: 0 <= Z.lxor a r < 2 ^ w) by (apply lxor_range; lia).
  assert (Tm: Z.testbit (2 ^ w - 1) (w - 1) = true).
  { replace (2 ^ w - 1) with (Z.ones w) by (rewrite Z.ones_equiv; lia). apply Z.ones_spec_low. lia. }
  destruct sub.
  - rewrite bit_of_msb by (try lia; apply land_range; lia).
    rewrite Z.land_spec, !Z.lxor_spec, !msb_testbit by lia. reflexivity.
  - assert (H2: 0 <= Z.lxor (Z.lxor a b) (2 ^ w - 1) < 2 ^ w) by (apply lxor_range; lia).
    rewrite bit_of_msb by (try lia; apply land_range; lia).
    rewrite Z.land_spec, !Z.lxor_spec, Tm, !msb_testbit by lia.
    destruct (xorb (2 ^ (w - 1) <=? a) (2 ^ (w - 1) <=? b)); reflexivity.
Qed.

Ltac pows :=
  repeat match goal with
         | |- context [Z.pow 2 ?n] => let v := eval vm_compute in (Z.pow 2 n) in change (Z.pow 2 n) with v
         | H : context [Z.pow 2 ?n] |- _ => let v := eval vm_compute in (Z.pow 2 n) in change (Z.pow 2 n) with v in H
         end.
Ltac split_ifs :=
  repeat match goal with
         | |- context [if ?c then _ else _] => destruct c eqn:?
         end.
Ltac flag_arith :=
  change X86.b2z with Z.b2z;
  unfold X86.sovf, X86.Sg, X86.msb, ConstSpec.S, U in *; pows; split_ifs; cbn [Z.b2z xorb negb andb orb]; lia.

(* set_of's formula is the architectural overflow flag, for all operand values at the four widths *)
Theorem of_add_correct w a b : width_ok w -> 0 <= a < 2 ^ w -> 0 <= b < 2 ^ w ->
  of_value w a b (U w (a + b)) false = X86.b2z (X86.sovf w (X86.Sg w a + X86.Sg w b)).
Proof.
  intros Hw Ha Hb.
  destruct Hw as [->|[->|[->| ->]]];
    (rewrite of_value_bits by (try lia; try assumption; unfold U; apply Z.mod_pos_bound; reflexivity));
    flag_arith.
Qed.

Theorem of_sub_correct w a b : width_ok w -> 0 <= a < 2 ^ w -> 0 <= b < 2 ^ w ->
  of_value w a b (U w (a - b)) true = X86.b2z (X86.sovf w (X86.Sg w a - X86.Sg w b)).
Proof.
  intros Hw Ha Hb.
  destruct Hw as [->|[->|[->| ->]]];
    (rewrite of_value_bits by (try lia; try assumption; unfold U; apply Z.mod_pos_bound; reflexivity));
    flag_arith.
Qed.

(* set_cf (borrow form, used by sub/cmp/neg-likes): lhs <u result;  add: result <u lhs *)
Theorem cf_sub_correct w a b : width_ok w -> 0 <= a < 2 ^ w -> 0 <= b < 2 ^ w ->
  (a <? U w (a - b)) = (a <? b).
Proof. intros Hw Ha Hb. destruct Hw as [->|[->|[->| ->]]]; unfold U in *; pows; lia. Qed.
Theorem cf_add_correct w a b : width_ok w -> 0 <= a < 2 ^ w -> 0 <= b < 2 ^ w ->
  (U w (a + b) <? a) = (2 ^ w <=? a + b).
Proof. intros Hw Ha Hb. destruct Hw as [->|[->|[->| ->]]]; unfold U in *; pows; lia. Qed.
(* set_sf: bit (w-1) of the result;  set_zf: result == 0 *)
Theorem sf_correct w r : width_ok w -> 0 <= r < 2 ^ w ->
  (r / 2 ^ (w - 1)) mod 2 = X86.b2z (X86.msb w r).
Proof. intros Hw Hr. destruct Hw as [->|[->|[->| ->]]]; flag_arith. Qed.

(* ---------- the flag helpers as IL: what the assigned expression denotes ---------- *)
Section FlagHelpers.
Variable en : senv.
Variables (w a b r : Z) (lhs rhs result : expr).
Hypothesis Hw : width_ok w.
Hypothesis Ha : 0 <= a < 2 ^ w.
Hypothesis Hb : 0 <= b < 2 ^ w.
Hypothesis Hr : 0 <= r < 2 ^ w.
Hypothesis Bl : e_bits lhs = w.
Hypothesis Br : e_bits rhs = w.
Hypothesis Bres : e_bits result = w.
Hypothesis Dl : den en lhs = Ok (mkc w a).
Hypothesis Dr : den en rhs = Ok (mkc w b).
Hypothesis Dres : den en result = Ok (mkc w r).

Ltac widths := destruct Hw as [E|[E|[E|E]]]; rewrite E in *.

Lemma set_zf_den : exists e, set_zf result = Ok (OAssign (flag_scalar n_ZF) e) /\
  den en e = Ok (mkc 1 (X86.b2z (r =? 0))).
Proof.
  unfold set_zf, mk_bin. rewrite Bres. cbn [expr_const e_bits new_big cbits]. rewrite Z.eqb_refl. cbn [negb bind].
  eexists; split; [reflexivity|]. cbn [den bind]. rewrite Dres. cbn [bind den].
  unfold sp_bin_c, expr_const, new_big; cbn [den bind cbits cval].
  assert (T: trim 0 w = 0) by (unfold trim; apply Z.land_0_l). rewrite T.
  rewrite Z.eqb_refl. cbn [negb sp_bin]. unfold s_cmpeq. destruct (r =? 0); reflexivity.
Qed.

Lemma set_cf_den : exists e, set_cf result lhs = Ok (OAssign (flag_scalar n_CF) e) /\
  den en e = Ok (mkc 1 (X86.b2z (a <? r))).
Proof.
  unfold set_cf, mk_bin. rewrite Bl, Bres, Z.eqb_refl. cbn [negb bind].
  eexists; split; [reflexivity|]. cbn [den bind]. rewrite Dl, Dres. cbn [bind].
  unfold sp_bin_c; cbn [cbits cval]. rewrite Z.eqb_refl. cbn [negb sp_bin]. unfold s_cmpltu.
  destruct (a <? r); reflexivity.
Qed.

Ltac norm :=
  repeat progress (cbn [expr_const e_bits new_big cbits Z.eqb Z.leb Z.compare Pos.compare Pos.compare_cont negb orb bind is_cmp Pos.eqb];
                   rewrite ?Bl, ?Br, ?Bres).

Lemma set_sf_den : exists e, set_sf result = Ok (OAssign (flag_scalar n_SF) e) /\
  den en e = Ok (mkc 1 (X86.b2z (X86.msb w r))).
Proof.
  unfold set_sf, mk_bin, mk_ext.
  widths; norm; (eexists; split; [reflexivity|]); cbn [den bind]; rewrite Dres; cbn [bind];
    rewrite <- (sf_correct _ r) by (unfold width_ok; tauto || assumption);
    cbn; unfold s_shr, U; cbn; reflexivity.
Qed.

Lemma set_of_den sub : exists e, set_of result lhs rhs sub = Ok (OAssign (flag_scalar n_OF) e) /\
  den en e = Ok (mkc 1 (of_value w a b r sub)).
Proof.
  unfold set_of, mk_bin, mk_ext.
  widths; destruct sub; norm; (eexists; split; [reflexivity|]); cbn [den bind]; rewrite Dl, Dr, Dres; cbn [bind];
    cbn; unfold of_value, s_shr, s_and, s_xor, U; cbn; reflexivity.
Qed.
End FlagHelpers.
