(* Isa/X86Proofs.v -- proofs about the mirror of the x86 lifter's helper layer (Isa/X86Lift.v) against the
   ISA specification (Isa/X86.v), in the reference IL semantics (Exec/Sem.v: den). *)
From Coq Require Import ZArith List Bool NArith Lia ZifyBool.
From Falcon Require Import Base.Res IL.Const IL.ConstSpec IL.Expr IL.ExprSpec IL.Func Exec.Sem Isa.X86 Isa.X86Lift Isa.X86Mirror.
Import ListNotations.
Local Open Scope Z_scope.
Ltac Zify.zify_post_hook ::= Z.div_mod_to_equations.

(* ---------- bit-field lemmas ---------- *)
Lemma testbit_high x w n : 0 <= x < 2 ^ w -> 0 <= w -> w <= n -> Z.testbit x n = false.
Proof.
  intros Hx Hw Hn. rewrite <- (Z.mod_small x (2 ^ w)) by lia. apply Z.mod_pow2_bits_high. lia.
Qed.

Lemma bool_range o b n : o <= n -> (0 <=? n - o) && (n - o <? b) = (n <? o + b).
Proof. intros H. destruct (Z.leb_spec 0 (n - o)), (Z.ltb_spec (n - o) b), (Z.ltb_spec n (o + b)); cbn; try reflexivity; exfalso; lia. Qed.

Definition field (b o : Z) : Z := Z.shiftl (Z.ones b) o.

Lemma testbit_field b o n : 0 <= b -> 0 <= o -> 0 <= n ->
  Z.testbit (field b o) n = (o <=? n) && (n <? o + b).
Proof.
  intros Hb Ho Hn. unfold field. rewrite Z.shiftl_spec by lia.
  destruct (Z.leb_spec o n) as [H|H].
  - rewrite Z.testbit_ones by lia. rewrite bool_range by lia. reflexivity.
  - rewrite (Z.testbit_neg_r _ (n - o)) by lia. reflexivity.
Qed.

Lemma land_field x b o : 0 <= x -> 0 <= b -> 0 <= o ->
  Z.land x (field b o) = ((x / 2 ^ o) mod 2 ^ b) * 2 ^ o.
Proof.
  intros Hx Hb Ho.
  rewrite <- Z.land_ones by lia. rewrite <- Z.shiftr_div_pow2 by lia. rewrite <- Z.shiftl_mul_pow2 by lia.
  apply Z.bits_inj'. intros n Hn.
  rewrite Z.land_spec, testbit_field by lia.
  rewrite Z.shiftl_spec by lia.
  destruct (Z.leb_spec o n) as [H|H].
  - rewrite Z.land_spec, Z.shiftr_spec by lia. rewrite Z.testbit_ones by lia.
    replace (n - o + o) with n by lia. rewrite bool_range by lia. cbn [andb]. reflexivity.
  - rewrite (Z.testbit_neg_r _ (n - o)) by lia. cbn. apply andb_false_r.
Qed.

Lemma land_clear_field x w b o : 0 <= x < 2 ^ w -> 0 <= b -> 0 <= o -> o + b <= w ->
  Z.land x (Z.ldiff (Z.ones w) (field b o)) = x - ((x / 2 ^ o) mod 2 ^ b) * 2 ^ o.
Proof.
  intros Hx Hb Ho Hw.
  rewrite <- land_field by lia.
  assert (E: Z.ldiff (Z.land x (field b o)) x = 0).
  { apply Z.bits_inj'. intros n Hn. rewrite Z.ldiff_spec, Z.land_spec, Z.bits_0.
    destruct (Z.testbit x n); cbn; [apply andb_false_r|reflexivity]. }
  rewrite (Z.sub_nocarry_ldiff _ _ E).
  apply Z.bits_inj'. intros n Hn.
  rewrite Z.land_spec, !Z.ldiff_spec, Z.land_spec.
  destruct (Z.ltb_spec n w) as [H|H].
  - rewrite Z.testbit_ones by lia.
    replace ((0 <=? n) && (n <? w)) with true by (symmetry; apply andb_true_intro; split; [apply Z.leb_le|apply Z.ltb_lt]; lia).
    destruct (Z.testbit x n), (Z.testbit (field b o) n); reflexivity.
  - rewrite (testbit_high x w n) by lia. reflexivity.
Qed.

Lemma lor_disjoint_field x y w b o : 0 <= x < 2 ^ w -> 0 <= y < 2 ^ b -> 0 <= b -> 0 <= o -> o + b <= w ->
  Z.lor (x - ((x / 2 ^ o) mod 2 ^ b) * 2 ^ o) (y * 2 ^ o) = x - ((x / 2 ^ o) mod 2 ^ b) * 2 ^ o + y * 2 ^ o.
Proof.
  intros Hx Hy Hb Ho Hw.
  rewrite <- (land_clear_field x w b o) by lia.
  set (a := Z.land x (Z.ldiff (Z.ones w) (field b o))).
  assert (D: Z.land a (y * 2 ^ o) = 0).
  { subst a. apply Z.bits_inj'. intros n Hn.
    rewrite !Z.land_spec, Z.ldiff_spec, Z.bits_0, testbit_field by lia.
    rewrite <- Z.shiftl_mul_pow2 by lia. rewrite Z.shiftl_spec by lia.
    destruct (Z.leb_spec o n) as [H|H].
    - destruct (Z.ltb_spec n (o + b)) as [H2|H2]; cbn [andb negb].
      + rewrite andb_false_r. rewrite andb_false_r. reflexivity.
      + rewrite (testbit_high y b (n - o)) by lia. apply andb_false_r.
    - rewrite (Z.testbit_neg_r _ (n - o)) by lia. apply andb_false_r. }
  rewrite (Z.add_nocarry_lxor _ _ D). symmetry. apply Z.lxor_lor. exact D.
Qed.

(* ---------- the register access layer ---------- *)
Inductive shape := ShFull | ShLow8 | ShLow16 | ShLow32 | ShHigh8.
Definition shape_bits (fbits : Z) (s : shape) : Z :=
  match s with ShFull => fbits | ShLow8 | ShHigh8 => 8 | ShLow16 => 16 | ShLow32 => 32 end.
Definition shape_offset (s : shape) : Z := match s with ShHigh8 => 8 | _ => 0 end.
(* eax is a sub-register only in the amd64 table *)
Definition shape_valid (fbits : Z) (s : shape) : Prop :=
  (fbits = 32 \/ fbits = 64) /\ (s = ShLow32 -> fbits = 64).
Definition xreg_of (n : N) (fbits : Z) (s : shape) : xreg :=
  mkreg n fbits (shape_offset s) (shape_bits fbits s) (match s with ShFull => true | _ => false end).

Lemma xreg_of_shape_ok n fbits s : shape_valid fbits s -> reg_shape_ok (xreg_of n fbits s) = true.
Proof. intros [[->| ->] H]; destruct s; try reflexivity; specialize (H eq_refl); discriminate. Qed.

(* what the architecture says a read / a write of the sub-register does to the full register value x *)
Definition arch_read (s : shape) (fbits x : Z) : Z :=
  match s with ShHigh8 => X86.regh_read 0 [x] | _ => X86.reg_read (shape_bits fbits s) 0 [x] end.
Definition arch_write (s : shape) (fbits x y : Z) : Z :=
  match s with
  | ShHigh8 => X86.rget (X86.regh_write 0 y [x]) 0
  | _ => X86.rget (X86.reg_write (shape_bits fbits s) 0 y [x]) 0
  end.

Lemma den_full en n fbits x :
  env_get en (n, None) = Some (mkc fbits x) ->
  den en (EScalar (mks n fbits None)) = Ok (mkc fbits x).
Proof. intros H. cbn. unfold skey_of. cbn. rewrite H. cbn. rewrite Z.eqb_refl. reflexivity. Qed.

Theorem reg_get_correct en n fbits s x :
  shape_valid fbits s -> 0 <= x < 2 ^ fbits ->
  env_get en (n, None) = Some (mkc fbits x) ->
  exists e, reg_get (xreg_of n fbits s) = Ok e /\
            den en e = Ok (mkc (shape_bits fbits s) (arch_read s fbits x)).
Proof.
  intros [[->| ->] Hs] Hx He; destruct s; try (specialize (Hs eq_refl); discriminate);
    (eexists; split; [reflexivity|]);
    cbv [full_scalar xreg_of xr_full xr_fbits shape_offset shape_bits]; cbn [den bind]; unfold skey_of; cbn [sname sssa sbits]; rewrite He; cbn [cbits bind]; rewrite ?Z.eqb_refl; cbn [bind];
    unfold arch_read, X86.reg_read, X86.regh_read, X86.rget; cbn [shape_bits Z.to_nat nth];
    try reflexivity.
  all: cbn; f_equal; f_equal; unfold U; try rewrite Z.mod_small by lia; try reflexivity.
  all: idtac.
Qed.

Lemma set_low x y w b M : M = Z.ldiff (Z.ones w) (field b 0) -> 0 <= x < 2 ^ w -> 0 <= y < 2 ^ b -> 0 <= b <= w ->
  Z.lor (Z.land x M) y = x - x mod 2 ^ b + y.
Proof.
  intros -> Hx Hy Hb.
  rewrite land_clear_field by lia.
  pose proof (lor_disjoint_field x y w b 0 Hx Hy) as L.
  rewrite Z.pow_0_r, Z.div_1_r, !Z.mul_1_r in *. apply L; lia.
Qed.
Lemma set_high x y w M : M = Z.ldiff (Z.ones w) (field 8 8) -> 0 <= x < 2 ^ w -> 0 <= y < 256 -> 16 <= w ->
  Z.lor (Z.land x M) (y * 256) = x - ((x / 256) mod 256) * 256 + y * 256.
Proof.
  intros -> Hx Hy Hw.
  rewrite land_clear_field by lia.
  apply (lor_disjoint_field x y w 8 8); lia.
Qed.

Theorem reg_set_correct en n fbits s x v y :
  shape_valid fbits s -> 0 <= x < 2 ^ fbits -> 0 <= y < 2 ^ shape_bits fbits s ->
  env_get en (n, None) = Some (mkc fbits x) ->
  e_bits v = shape_bits fbits s -> den en v = Ok (mkc (shape_bits fbits s) y) ->
  exists e, reg_set (xreg_of n fbits s) v = Ok [OAssign (mks n fbits None) e] /\
            den en e = Ok (mkc fbits (arch_write s fbits x y)).
Proof.
  intros [[->| ->] Hs] Hx Hy He Hb Hv; destruct s; try (specialize (Hs eq_refl); discriminate);
    cbn [shape_bits] in *;
    unfold reg_set, xreg_of, full_scalar, mk_ext, mk_bin;
    cbn [xr_is_full xr_offset xr_bits xr_fbits xr_full shape_offset shape_bits e_bits sbits expr_const new_big cbits];
    rewrite ?Hb; cbn [Z.eqb Z.ltb Z.leb Z.compare Pos.compare Pos.compare_cont orb negb bind is_cmp];
    (eexists; split; [reflexivity|]);
    cbn [den bind]; unfold skey_of; cbn [sname sssa sbits]; rewrite ?He, ?Hv; cbn [cbits bind]; rewrite ?Z.eqb_refl; cbn [bind].
  all: unfold arch_write, X86.reg_write, X86.regh_write, X86.rget, X86.rset; cbn [shape_bits Z.to_nat nth X86.lset].
  all: try reflexivity.
  all: cbn; f_equal; f_equal.
  all: unfold s_or, s_and, U.
  all: try (first [apply (set_low x y 32 8); [reflexivity|lia..]|apply (set_low x y 32 16); [reflexivity|lia..]|apply (set_low x y 64 8); [reflexivity|lia..]|apply (set_low x y 64 16); [reflexivity|lia..]]).
  all: rewrite (Z.mod_small (y * 256)) by lia; first [apply (set_high x y 32); [reflexivity|lia..]|apply (set_high x y 64); [reflexivity|lia..]].
Qed.

Theorem reg_get_set_correct en n fbits s x :
  shape_valid fbits s -> 0 <= x < 2 ^ fbits -> env_get en (n, None) = Some (mkc fbits x) ->
  (exists e, reg_get (xreg_of n fbits s) = Ok e /\
             den en e = Ok (mkc (shape_bits fbits s) (arch_read s fbits x))) /\
  (forall v y, 0 <= y < 2 ^ shape_bits fbits s -> e_bits v = shape_bits fbits s ->
               den en v = Ok (mkc (shape_bits fbits s) y) ->
     exists e, reg_set (xreg_of n fbits s) v = Ok [OAssign (mks n fbits None) e] /\
               den en e = Ok (mkc fbits (arch_write s fbits x y))).
Proof.
  intros Hs Hx He. split.
  - apply reg_get_correct; assumption.
  - intros v y Hy Hb Hv. apply reg_set_correct; assumption.
Qed.

(* the code before the fix: writing ah keeps only the old ah and clears everything else *)
Lemma reg_set_prefix_refuted :
  let en := [((0%N, None), mkc 64 1311768467463790320)] in      (* rax = 0x1234_5678_9abc_def0 *)
  let v := EConst (mkc 8 85) in                                 (* mov ah, 0x55 *)
  exists e, reg_set_prefix (xreg_of 0%N 64 ShHigh8) v = Ok [OAssign (mks 0%N 64 None) e] /\
            den en e = Ok (mkc 64 57088) /\                    (* 0xde00 | 0x5500 = 0xdf00.. : not the architecture's *)
            arch_write ShHigh8 64 1311768467463790320 85 = 1311768467463755248.
Proof. cbv zeta. eexists. split; [reflexivity|]. split; vm_compute; reflexivity. Qed.

(* ---------- flag helpers ---------- *)
Lemma msb_testbit a w : 1 <= w -> 0 <= a < 2 ^ w -> Z.testbit a (w - 1) = (2 ^ (w - 1) <=? a).
Proof.
  intros Hw Ha.
  assert (P: 2 ^ w = 2 * 2 ^ (w - 1)) by (rewrite <- Z.pow_succ_r by lia; f_equal; lia).
  assert (Q: 0 < 2 ^ (w - 1)) by (apply Z.pow_pos_nonneg; lia).
  rewrite Z.testbit_odd, Z.shiftr_div_pow2 by lia.
  destruct (Z.leb_spec (2 ^ (w - 1)) a) as [H|H].
  - replace (a / 2 ^ (w - 1)) with 1; [reflexivity|]. apply Z.div_unique with (a - 2 ^ (w - 1)); lia.
  - rewrite Z.div_small by lia. reflexivity.
Qed.

Definition width_ok (w : Z) : Prop := w = 8 \/ w = 16 \/ w = 32 \/ w = 64.

Lemma bit_of_msb x w : 1 <= w -> 0 <= x < 2 ^ w -> (x / 2 ^ (w - 1)) mod 2 = Z.b2z (Z.testbit x (w - 1)).
Proof. intros Hw Hx. symmetry. apply Z.testbit_spec'. lia. Qed.

Lemma land_range a b w : 0 <= w -> 0 <= a < 2 ^ w -> 0 <= b -> 0 <= Z.land a b < 2 ^ w.
Proof.
  intros Hw Ha Hb. split; [apply Z.land_nonneg; lia|].
  destruct (Z.eq_dec (Z.land a b) 0) as [->|N]; [apply Z.pow_pos_nonneg; lia|].
  apply Z.log2_lt_pow2; [pose proof (Z.land_nonneg a b); lia|].
  eapply Z.le_lt_trans; [apply Z.log2_land; lia|].
  destruct (Z.eq_dec a 0) as [->|Na]; [rewrite Z.land_0_l in N; contradiction|].
  apply Z.min_lt_iff. left. apply Z.log2_lt_pow2; lia.
Qed.
Lemma lxor_range a b w : 0 <= w -> 0 <= a < 2 ^ w -> 0 <= b < 2 ^ w -> 0 <= Z.lxor a b < 2 ^ w.
Proof.
  intros Hw Ha Hb. assert (NN: 0 <= Z.lxor a b) by (apply Z.lxor_nonneg; lia). split; [exact NN|].
  destruct (Z.eq_dec (Z.lxor a b) 0) as [->|N]; [apply Z.pow_pos_nonneg; lia|].
  assert (Wp: 0 < w).
  { destruct (Z.eq_dec w 0) as [->|]; [|lia]. change (2 ^ 0) with 1 in *.
    assert (a = 0) by lia. assert (b = 0) by lia. subst. cbn in N. contradiction. }
  apply Z.log2_lt_pow2; [lia|].
  eapply Z.le_lt_trans; [apply Z.log2_lxor; lia|].
  apply Z.max_lub_lt.
  - destruct (Z.eq_dec a 0) as [->|Na]; [cbn; lia|apply Z.log2_lt_pow2; lia].
  - destruct (Z.eq_dec b 0) as [->|Nb]; [cbn; lia|apply Z.log2_lt_pow2; lia].
Qed.

(* the value computed by set_of(result, lhs, rhs, subtract) *)
Definition of_value (w a b r : Z) (subtract : bool) : Z :=
  let e0 := Z.lxor a b in
  let e0 := if subtract then e0 else Z.lxor e0 (2 ^ w - 1) in
  (Z.land e0 (Z.lxor a r) / 2 ^ (w - 1)) mod 2.

Lemma of_value_bits w a b r sub : 1 <= w -> 0 <= a < 2 ^ w -> 0 <= b < 2 ^ w -> 0 <= r < 2 ^ w ->
  of_value w a b r sub =
  Z.b2z ((if sub then xorb (2 ^ (w - 1) <=? a) (2 ^ (w - 1) <=? b)
          else negb (xorb (2 ^ (w - 1) <=? a) (2 ^ (w - 1) <=? b)))
         && xorb (2 ^ (w - 1) <=? a) (2 ^ (w - 1) <=? r)).
Proof.
  intros Hw Ha Hb Hr. unfold of_value.
  assert (Hm: 0 <= 2 ^ w - 1 < 2 ^ w) by (pose proof (Z.pow_pos_nonneg 2 w); lia).
  assert (Hab: 0 <= Z.lxor a b < 2 ^ w) by (apply lxor_range; lia).
  assert (Har: 0 <= Z.lxor a r < 2 ^ w) by (apply lxor_range; lia).
  assert (Tm: Z.testbit (2 ^ w - 1) (w - 1) = true).
  { replace (2 ^ w - 1) with (Z.ones w) by (rewrite Z.ones_equiv; lia). apply Z.ones_spec_low. lia. }
  destruct sub.
  - rewrite bit_of_msb by (try lia; apply land_range; lia).
    rewrite Z.land_spec, !Z.lxor_spec, !msb_testbit by lia. reflexivity.
  - assert (H2: 0 <= Z.lxor (Z.lxor a b) (2 ^ w - 1) < 2 ^ w) by (apply lxor_range; lia).
    rewrite bit_of_msb by (try lia; apply land_range; lia).
    rewrite Z.land_spec, !Z.lxor_spec, Tm, !msb_testbit by lia.
    destruct (xorb (2 ^ (w - 1) <=? a) (2 ^ (w - 1) <=? b)); reflexivity.
Qed.

Ltac pows :=
  repeat match goal with
         | |- context [Z.pow 2 ?n] => let v := eval vm_compute in (Z.pow 2 n) in change (Z.pow 2 n) with v
         | H : context [Z.pow 2 ?n] |- _ => let v := eval vm_compute in (Z.pow 2 n) in change (Z.pow 2 n) with v in H
         end.
Ltac split_ifs :=
  repeat match goal with
         | |- context [if ?c then _ else _] => destruct c eqn:?
         end.
Ltac flag_arith :=
  change X86.b2z with Z.b2z;
  unfold X86.sovf, X86.Sg, X86.msb, ConstSpec.S, U in *; pows; split_ifs; cbn [Z.b2z xorb negb andb orb]; lia.

(* set_of's formula is the architectural overflow flag, for all operand values at the four widths *)
Theorem of_add_correct w a b : width_ok w -> 0 <= a < 2 ^ w -> 0 <= b < 2 ^ w ->
  of_value w a b (U w (a + b)) false = X86.b2z (X86.sovf w (X86.Sg w a + X86.Sg w b)).
Proof.
  intros Hw Ha Hb.
  destruct Hw as [->|[->|[->| ->]]];
    (rewrite of_value_bits by (try lia; try assumption; unfold U; apply Z.mod_pos_bound; reflexivity));
    flag_arith.
Qed.

Theorem of_sub_correct w a b : width_ok w -> 0 <= a < 2 ^ w -> 0 <= b < 2 ^ w ->
  of_value w a b (U w (a - b)) true = X86.b2z (X86.sovf w (X86.Sg w a - X86.Sg w b)).
Proof.
  intros Hw Ha Hb.
  destruct Hw as [->|[->|[->| ->]]];
    (rewrite of_value_bits by (try lia; try assumption; unfold U; apply Z.mod_pos_bound; reflexivity));
    flag_arith.
Qed.

(* set_cf (borrow form, used by sub/cmp/neg-likes): lhs <u result;  add: result <u lhs *)
Theorem cf_sub_correct w a b : width_ok w -> 0 <= a < 2 ^ w -> 0 <= b < 2 ^ w ->
  (a <? U w (a - b)) = (a <? b).
Proof. intros Hw Ha Hb. destruct Hw as [->|[->|[->| ->]]]; unfold U in *; pows; lia. Qed.
Theorem cf_add_correct w a b : width_ok w -> 0 <= a < 2 ^ w -> 0 <= b < 2 ^ w ->
  (U w (a + b) <? a) = (2 ^ w <=? a + b).
Proof. intros Hw Ha Hb. destruct Hw as [->|[->|[->| ->]]]; unfold U in *; pows; lia. Qed.
(* set_sf: bit (w-1) of the result;  set_zf: result == 0 *)
Theorem sf_correct w r : width_ok w -> 0 <= r < 2 ^ w ->
  (r / 2 ^ (w - 1)) mod 2 = X86.b2z (X86.msb w r).
Proof. intros Hw Hr. destruct Hw as [->|[->|[->| ->]]]; flag_arith. Qed.

(* ---------- the flag helpers as IL: what the assigned expression denotes ---------- *)
Section FlagHelpers.
Variable en : senv.
Variables (w a b r : Z) (lhs rhs result : expr).
Hypothesis Hw : width_ok w.
Hypothesis Ha : 0 <= a < 2 ^ w.
Hypothesis Hb : 0 <= b < 2 ^ w.
Hypothesis Hr : 0 <= r < 2 ^ w.
Hypothesis Bl : e_bits lhs = w.
Hypothesis Br : e_bits rhs = w.
Hypothesis Bres : e_bits result = w.
Hypothesis Dl : den en lhs = Ok (mkc w a).
Hypothesis Dr : den en rhs = Ok (mkc w b).
Hypothesis Dres : den en result = Ok (mkc w r).

Ltac widths := destruct Hw as [E|[E|[E|E]]]; rewrite E in *.

Lemma set_zf_den : exists e, set_zf result = Ok (OAssign (flag_scalar n_ZF) e) /\
  den en e = Ok (mkc 1 (X86.b2z (r =? 0))).
Proof.
  unfold set_zf, mk_bin. rewrite Bres. cbn [expr_const e_bits new_big cbits]. rewrite Z.eqb_refl. cbn [negb bind].
  eexists; split; [reflexivity|]. cbn [den bind]. rewrite Dres. cbn [bind den].
  unfold sp_bin_c, expr_const, new_big; cbn [den bind cbits cval].
  assert (T: trim 0 w = 0) by (unfold trim; apply Z.land_0_l). rewrite T.
  rewrite Z.eqb_refl. cbn [negb sp_bin]. unfold s_cmpeq. destruct (r =? 0); reflexivity.
Qed.

Lemma set_cf_den : exists e, set_cf result lhs = Ok (OAssign (flag_scalar n_CF) e) /\
  den en e = Ok (mkc 1 (X86.b2z (a <? r))).
Proof.
  unfold set_cf, mk_bin. rewrite Bl, Bres, Z.eqb_refl. cbn [negb bind].
  eexists; split; [reflexivity|]. cbn [den bind]. rewrite Dl, Dres. cbn [bind].
  unfold sp_bin_c; cbn [cbits cval]. rewrite Z.eqb_refl. cbn [negb sp_bin]. unfold s_cmpltu.
  destruct (a <? r); reflexivity.
Qed.

Ltac norm :=
  repeat progress (cbn [expr_const e_bits new_big cbits Z.eqb Z.leb Z.compare Pos.compare Pos.compare_cont negb orb bind is_cmp Pos.eqb];
                   rewrite ?Bl, ?Br, ?Bres).

Lemma set_sf_den : exists e, set_sf result = Ok (OAssign (flag_scalar n_SF) e) /\
  den en e = Ok (mkc 1 (X86.b2z (X86.msb w r))).
Proof.
  unfold set_sf, mk_bin, mk_ext.
  widths; norm; (eexists; split; [reflexivity|]); cbn [den bind]; rewrite Dres; cbn [bind];
    rewrite <- (sf_correct _ r) by (unfold width_ok; tauto || assumption);
    cbn; unfold s_shr, U; cbn; reflexivity.
Qed.

Lemma set_of_den sub : exists e, set_of result lhs rhs sub = Ok (OAssign (flag_scalar n_OF) e) /\
  den en e = Ok (mkc 1 (of_value w a b r sub)).
Proof.
  unfold set_of, mk_bin, mk_ext.
  widths; destruct sub; norm; (eexists; split; [reflexivity|]); cbn [den bind]; rewrite Dl, Dr, Dres; cbn [bind];
    cbn; unfold of_value, s_shr, s_and, s_xor, U; cbn; reflexivity.
Qed.
End FlagHelpers.

(* ---------- one form end to end at the level of the emitted operation: mov r, r ---------- *)
Lemma arch_read_range s fbits x : shape_valid fbits s -> 0 <= x < 2 ^ fbits ->
  0 <= arch_read s fbits x < 2 ^ shape_bits fbits s.
Proof.
  intros [[->| ->] Hs] Hx; destruct s; try (specialize (Hs eq_refl); discriminate);
    unfold arch_read, X86.reg_read, X86.regh_read, X86.rget; cbn [shape_bits Z.to_nat nth];
    try (apply Z.mod_pos_bound; reflexivity).
Qed.

Lemma reg_get_bits n fbits s e : shape_valid fbits s -> reg_get (xreg_of n fbits s) = Ok e -> e_bits e = shape_bits fbits s.
Proof.
  intros [[->| ->] Hs] H; destruct s; try (specialize (Hs eq_refl); discriminate); cbv in H; inversion H; reflexivity.
Qed.

(* mov dst, src between (sub-)registers of equal size: the single assignment the builder emits gives the
   destination's full register exactly the architectural value, for all register contents; dst = src and
   dst/src in the same full register (mov ah, al) included *)
Theorem mov_reg_reg_correct en nd ns fbits sd ss xd xs :
  shape_valid fbits sd -> shape_valid fbits ss -> shape_bits fbits sd = shape_bits fbits ss ->
  0 <= xd < 2 ^ fbits -> 0 <= xs < 2 ^ fbits ->
  env_get en (nd, None) = Some (mkc fbits xd) -> env_get en (ns, None) = Some (mkc fbits xs) ->
  exists ev e,
    reg_get (xreg_of ns fbits ss) = Ok ev /\
    reg_set (xreg_of nd fbits sd) ev = Ok [OAssign (mks nd fbits None) e] /\
    exec_op (mkst en (mkbmem false [])) (OAssign (mks nd fbits None) e) =
      Ok (mkst (env_set en (nd, None) (mkc fbits (arch_write sd fbits xd (arch_read ss fbits xs)))) (mkbmem false []),
          EvAssign (nd, None) (mkc fbits (arch_write sd fbits xd (arch_read ss fbits xs)))).
Proof.
  intros Hd Hs Hb Hxd Hxs Ed Es.
  destruct (reg_get_correct en ns fbits ss xs Hs Hxs Es) as (ev & Gv & Dv).
  assert (Bv: e_bits ev = shape_bits fbits sd) by (rewrite Hb; eapply reg_get_bits; eassumption).
  pose proof (arch_read_range ss fbits xs Hs Hxs) as Rv. rewrite <- Hb in Rv, Dv.
  destruct (reg_set_correct en nd fbits sd xd ev _ Hd Hxd Rv Ed Bv Dv) as (e & Se & De).
  exists ev, e. split; [exact Gv|]. split; [exact Se|].
  unfold exec_op. cbn [st_env st_mem]. rewrite De. cbn [bind]. unfold skey_of. cbn [sname sssa]. reflexivity.
Qed.

(* the same statement for the mirrored builder [X86Mirror.lift_mov] (the graph it returns is tied
   syntactically to the real lifter's output on every run) *)
Definition size_shape (m : mode) (sz : Z) : option shape :=
  if sz =? wordsz m then Some ShFull
  else if sz =? 8 then Some ShLow8 else if sz =? 16 then Some ShLow16
  else if (sz =? 32) && (wordsz m =? 64) then Some ShLow32 else None.
Definition operand_shape (m : mode) (sz : Z) (o : operand) : option (N * shape) :=
  match o with
  | OReg r => option_map (fun s => (full_name m r, s)) (size_shape m sz)
  | ORegH r => if sz =? 8 then Some (full_name m r, ShHigh8) else None
  | _ => None
  end.
Lemma operand_shape_xreg m sz o n s : operand_shape m sz o = Some (n, s) ->
  xreg_for m sz o = Some (xreg_of n (wordsz m) s) /\ shape_valid (wordsz m) s /\ shape_bits (wordsz m) s = sz.
Proof.
  destruct o as [r|r| | ]; cbn [operand_shape]; try discriminate.
  - unfold size_shape.
    assert (V: forall s0, shape_valid (wordsz m) s0 <-> (s0 = ShLow32 -> wordsz m = 64)) by (intros s0; unfold shape_valid; destruct m; cbn; tauto).
    destruct (Z.eqb_spec sz (wordsz m)) as [E|NE].
    { intros H; inversion H; subst n s. rewrite E. split; [|split; [apply V; discriminate|reflexivity]].
      unfold xreg_for, xreg_of. cbn [shape_offset shape_bits]. rewrite Z.eqb_refl. reflexivity. }
    destruct (Z.eqb_spec sz 8) as [E8|N8].
    { intros H; inversion H; subst n s sz. split; [|split; [apply V; discriminate|reflexivity]].
      unfold xreg_for, xreg_of. cbn [shape_offset shape_bits]. destruct m; reflexivity. }
    destruct (Z.eqb_spec sz 16) as [E16|N16].
    { intros H; inversion H; subst n s sz. split; [|split; [apply V; discriminate|reflexivity]].
      unfold xreg_for, xreg_of. cbn [shape_offset shape_bits]. destruct m; reflexivity. }
    destruct (Z.eqb_spec sz 32) as [E32|N32]; cbn [andb]; [|discriminate].
    destruct (Z.eqb_spec (wordsz m) 64) as [E64|N64]; [|discriminate].
    intros H; inversion H; subst n s sz. split; [|split; [apply V; intros _; exact E64|reflexivity]].
    unfold xreg_for, xreg_of. cbn [shape_offset shape_bits]. destruct m; [discriminate|reflexivity].
  - destruct (Z.eqb_spec sz 8); [|discriminate]. subst. intros H; inversion H; subst.
    split; [reflexivity|]. split; [|reflexivity]. split; [destruct m; cbn; tauto|discriminate].
Qed.

Theorem lift_mov_reg_reg_correct m sz dst src en nd ns sd ss xd xs :
  operand_shape m sz dst = Some (nd, sd) -> operand_shape m sz src = Some (ns, ss) ->
  0 <= xd < 2 ^ wordsz m -> 0 <= xs < 2 ^ wordsz m ->
  env_get en (nd, None) = Some (mkc (wordsz m) xd) -> env_get en (ns, None) = Some (mkc (wordsz m) xs) ->
  exists e,
    lift_mov m sz dst src = Ok [OAssign (mks nd (wordsz m) None) e] /\
    exec_op (mkst en (mkbmem false [])) (OAssign (mks nd (wordsz m) None) e) =
      Ok (mkst (env_set en (nd, None) (mkc (wordsz m) (arch_write sd (wordsz m) xd (arch_read ss (wordsz m) xs)))) (mkbmem false []),
          EvAssign (nd, None) (mkc (wordsz m) (arch_write sd (wordsz m) xd (arch_read ss (wordsz m) xs)))).
Proof.
  intros Od Os Hxd Hxs Ed Es.
  destruct (operand_shape_xreg _ _ _ _ _ Od) as (Xd & Vd & Bd).
  destruct (operand_shape_xreg _ _ _ _ _ Os) as (Xs & Vs & Bs).
  destruct (mov_reg_reg_correct en nd ns (wordsz m) sd ss xd xs Vd Vs (eq_trans Bd (eq_sym Bs)) Hxd Hxs Ed Es)
    as (ev & e & Gv & Se & Ex).
  exists e. split; [|exact Ex].
  unfold lift_mov, opv, ops_store. rewrite Xd.
  destruct src as [r|r| |v]; cbn [operand_shape] in Os; try discriminate; rewrite Xs, Gv; cbn [bind]; exact Se.
Qed.

(* ---------- straight-line execution and environment lemmas ---------- *)
Fixpoint exec_ops (st : sstate) (ops : list operation) : res sstate :=
  match ops with
  | [] => Ok st
  | o :: t => r <- exec_op st o ;; exec_ops (fst r) t
  end.

Lemma skey_eqb_eq a b : skey_eqb a b = true <-> a = b.
Proof.
  destruct a as [n s], b as [n' s']. unfold skey_eqb. cbn [fst snd]. rewrite andb_true_iff, N.eqb_eq.
  destruct s as [x|], s' as [y|]; cbn; rewrite ?N.eqb_eq; split; intros H; try (destruct H; congruence); try (inversion H; subst; split; reflexivity).
Qed.
Lemma env_get_set_same en k v : env_get (env_set en k v) k = Some v.
Proof.
  induction en as [|[k' v'] t IH]; cbn.
  - assert (E: skey_eqb k k = true) by (apply skey_eqb_eq; reflexivity). rewrite E. reflexivity.
  - destruct (skey_eqb k' k) eqn:E; cbn.
    + assert (E2: skey_eqb k k = true) by (apply skey_eqb_eq; reflexivity). rewrite E2. reflexivity.
    + rewrite E. exact IH.
Qed.
Lemma env_get_set_other en k k' v : k' <> k -> env_get (env_set en k v) k' = env_get en k'.
Proof.
  intros N. induction en as [|[k0 v0] t IH]; cbn.
  - destruct (skey_eqb k k') eqn:E; [apply skey_eqb_eq in E; congruence|reflexivity].
  - destruct (skey_eqb k0 k) eqn:E; cbn.
    + apply skey_eqb_eq in E. subst k0.
      destruct (skey_eqb k k') eqn:E2; [apply skey_eqb_eq in E2; congruence|reflexivity].
    + destruct (skey_eqb k0 k'); [reflexivity|exact IH].
Qed.

(* an assignment to a scalar the expression does not mention leaves its denotation unchanged *)
Fixpoint mentions (k : skey) (e : expr) : bool :=
  match e with
  | EScalar s => skey_eqb (skey_of s) k
  | EConst _ => false
  | EBin _ l r => mentions k l || mentions k r
  | EExt _ _ x => mentions k x
  | EIte c t f => mentions k c || mentions k t || mentions k f
  end.
Lemma den_env_set en k v e : mentions k e = false -> den (env_set en k v) e = den en e.
Proof.
  induction e as [s|c|o l IHl r IHr|o bits x IHx|c IHc t IHt f IHf]; cbn [mentions den]; intros H.
  - rewrite env_get_set_other; [reflexivity|]. intros E. rewrite E in H.
    assert (T: skey_eqb k k = true) by (apply skey_eqb_eq; reflexivity). congruence.
  - reflexivity.
  - apply orb_false_iff in H. destruct H as [Hl Hr]. rewrite IHl, IHr by assumption. reflexivity.
  - rewrite IHx by assumption. reflexivity.
  - apply orb_false_iff in H. destruct H as [H Hf]. apply orb_false_iff in H. destruct H as [Hc Ht].
    rewrite IHc, IHt, IHf by assumption. reflexivity.
Qed.

Lemma exec_assign st s e v : den (st_env st) e = Ok v ->
  exec_op st (OAssign s e) = Ok (mkst (env_set (st_env st) (skey_of s) v) (st_mem st), EvAssign (skey_of s) v).
Proof. intros H. unfold exec_op. rewrite H. reflexivity. Qed.

(* names of architectural registers as interned by the harness: never a flag or a temporary *)
Definition reg_name_ok (n : N) : bool := (n <? 32)%N || ((37 <? n)%N && (n <? 52)%N).

Definition kT0 : skey := (53%N, None).
Definition kZF : skey := (X86Lift.n_ZF, None). Definition kSF : skey := (X86Lift.n_SF, None).
Definition kOF : skey := (X86Lift.n_OF, None). Definition kCF : skey := (X86Lift.n_CF, None).
Definition clean (e : expr) : bool :=
  negb (mentions kT0 e || mentions kZF e || mentions kSF e || mentions kOF e || mentions kCF e).

(* add dst, src with a register destination (any sub-register kind) and any source expression that does not
   mention flags/temporaries (register or immediate operand): the seven operations of the builder, run in
   sequence, leave exactly the architectural result and flags (X86.alu AAdd). *)
Theorem add_reg_ops_correct st m sz dst nd sd xd lhs rhs b :
  operand_shape m sz dst = Some (nd, sd) -> reg_name_ok nd = true -> width_ok sz ->
  0 <= xd < 2 ^ wordsz m -> env_get (st_env st) (nd, None) = Some (mkc (wordsz m) xd) ->
  opv m sz dst = Ok lhs ->
  e_bits rhs = sz -> 0 <= b < 2 ^ sz -> den (st_env st) rhs = Ok (mkc sz b) -> clean rhs = true ->
  let a := arch_read sd (wordsz m) xd in
  let r := U sz (a + b) in
  exists ops st',
    lift_alu m AAdd sz dst (OImm 0) <> None /\
    (e <- mk_bin Add lhs rhs ;; zf <- set_zf (EScalar (temp_k 0 sz)) ;; sf <- set_sf (EScalar (temp_k 0 sz)) ;;
     of <- set_of (EScalar (temp_k 0 sz)) lhs rhs false ;; c <- mk_bin Cmpltu (EScalar (temp_k 0 sz)) lhs ;;
     s <- ops_store m sz dst (EScalar (temp_k 0 sz)) ;;
     Ok ([OAssign (temp_k 0 sz) e; zf; sf; of; assign_flag X86Lift.n_CF c] ++ s)) = Ok ops /\
    forallb is_assign ops = true /\
    (0 < length ops <= 16)%nat /\
    exec_ops st ops = Ok st' /\
    (forall k, k <> (nd, None) -> k <> kT0 -> k <> kZF -> k <> kSF -> k <> kOF -> k <> kCF ->
       env_get (st_env st') k = env_get (st_env st) k) /\
    st_mem st' = st_mem st /\
    env_get (st_env st') (nd, None) = Some (mkc (wordsz m) (arch_write sd (wordsz m) xd r)) /\
    env_get (st_env st') kZF = Some (mkc 1 (X86.b2z (r =? 0))) /\
    env_get (st_env st') kSF = Some (mkc 1 (X86.b2z (X86.msb sz r))) /\
    env_get (st_env st') kOF = Some (mkc 1 (X86.b2z (X86.sovf sz (X86.Sg sz a + X86.Sg sz b)))) /\
    env_get (st_env st') kCF = Some (mkc 1 (X86.b2z (2 ^ sz <=? a + b))).
Proof.
  intros Od Nok Hw Hxd Ed Ol Br Hb Dr Cr a r.
  destruct (operand_shape_xreg _ _ _ _ _ Od) as (Xd & Vd & Bd).
  set (en := st_env st) in *.
  (* the destination read *)
  assert (Gl: reg_get (xreg_of nd (wordsz m) sd) = Ok lhs).
  { unfold opv in Ol. rewrite Xd in Ol. destruct dst; cbn [operand_shape] in Od; try discriminate; exact Ol. }
  destruct (reg_get_correct en nd (wordsz m) sd xd Vd Hxd Ed) as (lhs' & Gl' & Dl). rewrite Gl in Gl'. inversion Gl'; subst lhs'. clear Gl'.
  rewrite Bd in Dl. fold a in Dl.
  assert (Bl: e_bits lhs = sz) by (rewrite <- Bd; eapply reg_get_bits; eassumption).
  assert (Ha: 0 <= a < 2 ^ sz) by (unfold a; rewrite <- Bd; apply arch_read_range; assumption).
  assert (Hr: 0 <= r < 2 ^ sz) by (unfold r, U; apply Z.mod_pos_bound; destruct Hw as [->|[->|[->| ->]]]; reflexivity).
  (* lhs mentions only the register nd *)
  assert (Ml: forall k, nd <> fst k -> mentions k lhs = false).
  { intros k Hk. clear - Gl Hk Vd. destruct Vd as [[E|E] Hs]; rewrite E in Gl; destruct sd; try (specialize (Hs eq_refl); congruence);
      cbv in Gl; inversion Gl; subst lhs; cbn [mentions]; unfold skey_of; cbn [sname sssa];
      destruct (skey_eqb (nd, None) k) eqn:Q; try reflexivity; apply skey_eqb_eq in Q; subst k; cbn in Hk; congruence. }
  assert (Nn: nd <> 53%N /\ nd <> X86Lift.n_ZF /\ nd <> X86Lift.n_SF /\ nd <> X86Lift.n_OF /\ nd <> X86Lift.n_CF).
  { unfold reg_name_ok in Nok. unfold X86Lift.n_ZF, X86Lift.n_SF, X86Lift.n_OF, X86Lift.n_CF.
    repeat split; intros ->; cbn in Nok; discriminate. }
  destruct Nn as (N0 & N1 & N2 & N3 & N4).
  unfold clean in Cr. apply negb_true_iff in Cr. repeat (apply orb_false_iff in Cr; destruct Cr as [Cr ?]).
  (* 1. t0 := lhs + rhs *)
  set (t0 := temp_k 0 sz). set (T := EScalar t0).
  assert (E1: mk_bin Add lhs rhs = Ok (EBin Add lhs rhs)) by (unfold mk_bin; rewrite Bl, Br, Z.eqb_refl; reflexivity).
  assert (D1: den en (EBin Add lhs rhs) = Ok (mkc sz r)).
  { cbn [den]. rewrite Dl, Dr. cbn [bind]. unfold sp_bin_c. cbn [cbits cval]. rewrite Z.eqb_refl. reflexivity. }
  set (e1 := env_set en kT0 (mkc sz r)).
  assert (KT: skey_of t0 = kT0) by reflexivity.
  assert (BT: e_bits T = sz) by reflexivity.
  assert (DT: forall en', env_get en' kT0 = Some (mkc sz r) -> den en' T = Ok (mkc sz r)).
  { intros en' G. cbn [den T]. rewrite KT, G. cbn [cbits t0 temp_k sbits]. rewrite Z.eqb_refl. reflexivity. }
  assert (G1: env_get e1 kT0 = Some (mkc sz r)) by apply env_get_set_same.
  assert (L1: den e1 lhs = Ok (mkc sz a)) by (unfold e1; rewrite den_env_set; [exact Dl|apply Ml; exact N0]).
  assert (R1: den e1 rhs = Ok (mkc sz b)) by (unfold e1; rewrite den_env_set; assumption).
  (* 2. ZF *)
  destruct (set_zf_den e1 sz r T BT (DT e1 G1)) as (zfe & Zf & Dz).
  set (e2 := env_set e1 kZF (mkc 1 (X86.b2z (r =? 0)))).
  assert (G2: env_get e2 kT0 = Some (mkc sz r)) by (unfold e2; rewrite env_get_set_other; [exact G1|discriminate]).
  assert (L2: den e2 lhs = Ok (mkc sz a)) by (unfold e2; rewrite den_env_set; [exact L1|apply Ml; exact N1]).
  assert (R2: den e2 rhs = Ok (mkc sz b)) by (unfold e2; rewrite den_env_set; assumption).
  (* 3. SF *)
  destruct (set_sf_den e2 sz a b r lhs rhs T Hw Ha Hb Hr Bl Br BT L2 R2 (DT e2 G2)) as (sfe & Sf & Ds).
  set (e3 := env_set e2 kSF (mkc 1 (X86.b2z (X86.msb sz r)))).
  assert (G3: env_get e3 kT0 = Some (mkc sz r)) by (unfold e3; rewrite env_get_set_other; [exact G2|discriminate]).
  assert (L3: den e3 lhs = Ok (mkc sz a)) by (unfold e3; rewrite den_env_set; [exact L2|apply Ml; exact N2]).
  assert (R3: den e3 rhs = Ok (mkc sz b)) by (unfold e3; rewrite den_env_set; assumption).
  (* 4. OF *)
  destruct (set_of_den e3 sz a b r lhs rhs T Hw Ha Hb Hr Bl Br BT L3 R3 (DT e3 G3) false) as (ofe & Of & Do).
  pose proof (of_add_correct sz a b Hw Ha Hb) as OA. fold r in OA. rewrite OA in Do.
  set (e4 := env_set e3 kOF (mkc 1 (X86.b2z (X86.sovf sz (X86.Sg sz a + X86.Sg sz b))))).
  assert (G4: env_get e4 kT0 = Some (mkc sz r)) by (unfold e4; rewrite env_get_set_other; [exact G3|discriminate]).
  assert (L4: den e4 lhs = Ok (mkc sz a)) by (unfold e4; rewrite den_env_set; [exact L3|apply Ml; exact N3]).
  (* 5. CF := t0 <u lhs *)
  assert (E5: mk_bin Cmpltu T lhs = Ok (EBin Cmpltu T lhs)) by (unfold mk_bin; rewrite BT, Bl, Z.eqb_refl; reflexivity).
  assert (D5: den e4 (EBin Cmpltu T lhs) = Ok (mkc 1 (X86.b2z (2 ^ sz <=? a + b)))).
  { cbn [den]. rewrite (DT e4 G4), L4. cbn [bind]. unfold sp_bin_c. cbn [cbits cval]. rewrite Z.eqb_refl. cbn [negb sp_bin].
    unfold s_cmpltu. pose proof (cf_add_correct sz a b Hw Ha Hb) as CA. fold r in CA. rewrite CA. destruct (2 ^ sz <=? a + b); reflexivity. }
  set (e5 := env_set e4 kCF (mkc 1 (X86.b2z (2 ^ sz <=? a + b)))).
  assert (G5: env_get e5 kT0 = Some (mkc sz r)) by (unfold e5; rewrite env_get_set_other; [exact G4|discriminate]).
  (* 6. the destination write *)
  assert (Ed5: env_get e5 (nd, None) = Some (mkc (wordsz m) xd)).
  { unfold e5, e4, e3, e2, e1. rewrite !env_get_set_other; [exact Ed| | | | |]; unfold kT0, kZF, kSF, kOF, kCF, X86Lift.n_ZF, X86Lift.n_SF, X86Lift.n_OF, X86Lift.n_CF in *; congruence. }
  assert (Hr': 0 <= r < 2 ^ shape_bits (wordsz m) sd) by (rewrite Bd; exact Hr).
  assert (BT': e_bits T = shape_bits (wordsz m) sd) by (rewrite Bd; exact BT).
  assert (DT5: den e5 T = Ok (mkc (shape_bits (wordsz m) sd) r)) by (rewrite Bd; exact (DT e5 G5)).
  destruct (reg_set_correct e5 nd (wordsz m) sd xd T r Vd Hxd Hr' Ed5 BT' DT5) as (we & Se & Dw).
  set (e6 := env_set e5 (nd, None) (mkc (wordsz m) (arch_write sd (wordsz m) xd r))).
  eexists. exists (mkst e6 (st_mem st)).
  split; [cbn; discriminate|].
  split.
  { fold t0 T. rewrite E1. cbn [bind]. rewrite Zf. cbn [bind]. rewrite Sf. cbn [bind]. rewrite Of. cbn [bind].
    rewrite E5. cbn [bind]. unfold ops_store. rewrite Xd, Se. cbn [bind]. reflexivity. }
  split; [reflexivity|].
  split; [cbn; lia|].
  split.
  { cbn [exec_ops app].
    rewrite (exec_assign st t0 _ _ D1). cbn [bind fst st_env st_mem]. fold en. rewrite KT. fold e1.
    rewrite (exec_assign (mkst e1 _) _ _ _ Dz). cbn [bind fst st_env st_mem]. change (skey_of (flag_scalar X86Lift.n_ZF)) with kZF. fold e2.
    rewrite (exec_assign (mkst e2 _) _ _ _ Ds). cbn [bind fst st_env st_mem]. change (skey_of (flag_scalar X86Lift.n_SF)) with kSF. fold e3.
    rewrite (exec_assign (mkst e3 _) _ _ _ Do). cbn [bind fst st_env st_mem]. change (skey_of (flag_scalar X86Lift.n_OF)) with kOF. fold e4.
    unfold assign_flag. rewrite (exec_assign (mkst e4 _) _ _ _ D5). cbn [bind fst st_env st_mem]. change (skey_of (flag_scalar X86Lift.n_CF)) with kCF. fold e5.
    rewrite (exec_assign (mkst e5 _) _ _ _ Dw). cbn [bind fst st_env st_mem]. reflexivity. }
  split.
  { intros k K0 K1 K2 K3 K4 K5. cbn [st_env]. unfold e6, e5, e4, e3, e2, e1. rewrite !env_get_set_other by assumption. reflexivity. }
  split; [reflexivity|]. cbn [st_env].
  split; [apply env_get_set_same|].
  unfold e6, e5, e4, e3, e2.
  split; [rewrite !env_get_set_other by (unfold kT0, kZF, kSF, kOF, kCF, X86Lift.n_ZF, X86Lift.n_SF, X86Lift.n_OF, X86Lift.n_CF in *; congruence); apply env_get_set_same|].
  split; [rewrite !env_get_set_other by (unfold kT0, kZF, kSF, kOF, kCF, X86Lift.n_ZF, X86Lift.n_SF, X86Lift.n_OF, X86Lift.n_CF in *; congruence); apply env_get_set_same|].
  split; [rewrite !env_get_set_other by (unfold kT0, kZF, kSF, kOF, kCF, X86Lift.n_ZF, X86Lift.n_SF, X86Lift.n_OF, X86Lift.n_CF in *; congruence); apply env_get_set_same|].
  rewrite !env_get_set_other by (unfold kT0, kZF, kSF, kOF, kCF, X86Lift.n_ZF, X86Lift.n_SF, X86Lift.n_OF, X86Lift.n_CF in *; congruence). apply env_get_set_same.
Qed.

(* sub dst, src: same statement for the subtraction builder (borrow form of CF via set_cf); source expression does not
   mention flags/temporaries (register or immediate operand): the seven operations of the builder, run in
   sequence, leave exactly the architectural result and flags (X86.alu AAdd). *)
Theorem sub_reg_ops_correct st m sz dst nd sd xd lhs rhs b :
  operand_shape m sz dst = Some (nd, sd) -> reg_name_ok nd = true -> width_ok sz ->
  0 <= xd < 2 ^ wordsz m -> env_get (st_env st) (nd, None) = Some (mkc (wordsz m) xd) ->
  opv m sz dst = Ok lhs ->
  e_bits rhs = sz -> 0 <= b < 2 ^ sz -> den (st_env st) rhs = Ok (mkc sz b) -> clean rhs = true ->
  let a := arch_read sd (wordsz m) xd in
  let r := U sz (a - b) in
  exists ops st',
    lift_alu m ASub sz dst (OImm 0) <> None /\
    (e <- mk_bin Sub lhs rhs ;; zf <- set_zf (EScalar (temp_k 0 sz)) ;; sf <- set_sf (EScalar (temp_k 0 sz)) ;;
     of <- set_of (EScalar (temp_k 0 sz)) lhs rhs true ;; c <- set_cf (EScalar (temp_k 0 sz)) lhs ;;
     s <- ops_store m sz dst (EScalar (temp_k 0 sz)) ;;
     Ok ([OAssign (temp_k 0 sz) e; zf; sf; of; c] ++ s)) = Ok ops /\
    forallb is_assign ops = true /\
    (0 < length ops <= 16)%nat /\
    exec_ops st ops = Ok st' /\
    (forall k, k <> (nd, None) -> k <> kT0 -> k <> kZF -> k <> kSF -> k <> kOF -> k <> kCF ->
       env_get (st_env st') k = env_get (st_env st) k) /\
    st_mem st' = st_mem st /\
    env_get (st_env st') (nd, None) = Some (mkc (wordsz m) (arch_write sd (wordsz m) xd r)) /\
    env_get (st_env st') kZF = Some (mkc 1 (X86.b2z (r =? 0))) /\
    env_get (st_env st') kSF = Some (mkc 1 (X86.b2z (X86.msb sz r))) /\
    env_get (st_env st') kOF = Some (mkc 1 (X86.b2z (X86.sovf sz (X86.Sg sz a - X86.Sg sz b)))) /\
    env_get (st_env st') kCF = Some (mkc 1 (X86.b2z (a <? b))).
Proof.
  intros Od Nok Hw Hxd Ed Ol Br Hb Dr Cr a r.
  destruct (operand_shape_xreg _ _ _ _ _ Od) as (Xd & Vd & Bd).
  set (en := st_env st) in *.
  (* the destination read *)
  assert (Gl: reg_get (xreg_of nd (wordsz m) sd) = Ok lhs).
  { unfold opv in Ol. rewrite Xd in Ol. destruct dst; cbn [operand_shape] in Od; try discriminate; exact Ol. }
  destruct (reg_get_correct en nd (wordsz m) sd xd Vd Hxd Ed) as (lhs' & Gl' & Dl). rewrite Gl in Gl'. inversion Gl'; subst lhs'. clear Gl'.
  rewrite Bd in Dl. fold a in Dl.
  assert (Bl: e_bits lhs = sz) by (rewrite <- Bd; eapply reg_get_bits; eassumption).
  assert (Ha: 0 <= a < 2 ^ sz) by (unfold a; rewrite <- Bd; apply arch_read_range; assumption).
  assert (Hr: 0 <= r < 2 ^ sz) by (unfold r, U; apply Z.mod_pos_bound; destruct Hw as [->|[->|[->| ->]]]; reflexivity).
  (* lhs mentions only the register nd *)
  assert (Ml: forall k, nd <> fst k -> mentions k lhs = false).
  { intros k Hk. clear - Gl Hk Vd. destruct Vd as [[E|E] Hs]; rewrite E in Gl; destruct sd; try (specialize (Hs eq_refl); congruence);
      cbv in Gl; inversion Gl; subst lhs; cbn [mentions]; unfold skey_of; cbn [sname sssa];
      destruct (skey_eqb (nd, None) k) eqn:Q; try reflexivity; apply skey_eqb_eq in Q; subst k; cbn in Hk; congruence. }
  assert (Nn: nd <> 53%N /\ nd <> X86Lift.n_ZF /\ nd <> X86Lift.n_SF /\ nd <> X86Lift.n_OF /\ nd <> X86Lift.n_CF).
  { unfold reg_name_ok in Nok. unfold X86Lift.n_ZF, X86Lift.n_SF, X86Lift.n_OF, X86Lift.n_CF.
    repeat split; intros ->; cbn in Nok; discriminate. }
  destruct Nn as (N0 & N1 & N2 & N3 & N4).
  unfold clean in Cr. apply negb_true_iff in Cr. repeat (apply orb_false_iff in Cr; destruct Cr as [Cr ?]).
  (* 1. t0 := lhs + rhs *)
  set (t0 := temp_k 0 sz). set (T := EScalar t0).
  assert (E1: mk_bin Sub lhs rhs = Ok (EBin Sub lhs rhs)) by (unfold mk_bin; rewrite Bl, Br, Z.eqb_refl; reflexivity).
  assert (D1: den en (EBin Sub lhs rhs) = Ok (mkc sz r)).
  { cbn [den]. rewrite Dl, Dr. cbn [bind]. unfold sp_bin_c. cbn [cbits cval]. rewrite Z.eqb_refl. reflexivity. }
  set (e1 := env_set en kT0 (mkc sz r)).
  assert (KT: skey_of t0 = kT0) by reflexivity.
  assert (BT: e_bits T = sz) by reflexivity.
  assert (DT: forall en', env_get en' kT0 = Some (mkc sz r) -> den en' T = Ok (mkc sz r)).
  { intros en' G. cbn [den T]. rewrite KT, G. cbn [cbits t0 temp_k sbits]. rewrite Z.eqb_refl. reflexivity. }
  assert (G1: env_get e1 kT0 = Some (mkc sz r)) by apply env_get_set_same.
  assert (L1: den e1 lhs = Ok (mkc sz a)) by (unfold e1; rewrite den_env_set; [exact Dl|apply Ml; exact N0]).
  assert (R1: den e1 rhs = Ok (mkc sz b)) by (unfold e1; rewrite den_env_set; assumption).
  (* 2. ZF *)
  destruct (set_zf_den e1 sz r T BT (DT e1 G1)) as (zfe & Zf & Dz).
  set (e2 := env_set e1 kZF (mkc 1 (X86.b2z (r =? 0)))).
  assert (G2: env_get e2 kT0 = Some (mkc sz r)) by (unfold e2; rewrite env_get_set_other; [exact G1|discriminate]).
  assert (L2: den e2 lhs = Ok (mkc sz a)) by (unfold e2; rewrite den_env_set; [exact L1|apply Ml; exact N1]).
  assert (R2: den e2 rhs = Ok (mkc sz b)) by (unfold e2; rewrite den_env_set; assumption).
  (* 3. SF *)
  destruct (set_sf_den e2 sz a b r lhs rhs T Hw Ha Hb Hr Bl Br BT L2 R2 (DT e2 G2)) as (sfe & Sf & Ds).
  set (e3 := env_set e2 kSF (mkc 1 (X86.b2z (X86.msb sz r)))).
  assert (G3: env_get e3 kT0 = Some (mkc sz r)) by (unfold e3; rewrite env_get_set_other; [exact G2|discriminate]).
  assert (L3: den e3 lhs = Ok (mkc sz a)) by (unfold e3; rewrite den_env_set; [exact L2|apply Ml; exact N2]).
  assert (R3: den e3 rhs = Ok (mkc sz b)) by (unfold e3; rewrite den_env_set; assumption).
  (* 4. OF *)
  destruct (set_of_den e3 sz a b r lhs rhs T Hw Ha Hb Hr Bl Br BT L3 R3 (DT e3 G3) true) as (ofe & Of & Do).
  pose proof (of_sub_correct sz a b Hw Ha Hb) as OA. fold r in OA. rewrite OA in Do.
  set (e4 := env_set e3 kOF (mkc 1 (X86.b2z (X86.sovf sz (X86.Sg sz a - X86.Sg sz b))))).
  assert (G4: env_get e4 kT0 = Some (mkc sz r)) by (unfold e4; rewrite env_get_set_other; [exact G3|discriminate]).
  assert (L4: den e4 lhs = Ok (mkc sz a)) by (unfold e4; rewrite den_env_set; [exact L3|apply Ml; exact N3]).
  (* 5. CF := lhs <u t0 (set_cf) *)
  destruct (set_cf_den e4 sz a r lhs T Bl BT L4 (DT e4 G4)) as (cfe & Cf & D5).
  pose proof (cf_sub_correct sz a b Hw Ha Hb) as CA. fold r in CA. rewrite CA in D5.
  set (e5 := env_set e4 kCF (mkc 1 (X86.b2z (a <? b)))).
  assert (G5: env_get e5 kT0 = Some (mkc sz r)) by (unfold e5; rewrite env_get_set_other; [exact G4|discriminate]).
  (* 6. the destination write *)
  assert (Ed5: env_get e5 (nd, None) = Some (mkc (wordsz m) xd)).
  { unfold e5, e4, e3, e2, e1. rewrite !env_get_set_other; [exact Ed| | | | |]; unfold kT0, kZF, kSF, kOF, kCF, X86Lift.n_ZF, X86Lift.n_SF, X86Lift.n_OF, X86Lift.n_CF in *; congruence. }
  assert (Hr': 0 <= r < 2 ^ shape_bits (wordsz m) sd) by (rewrite Bd; exact Hr).
  assert (BT': e_bits T = shape_bits (wordsz m) sd) by (rewrite Bd; exact BT).
  assert (DT5: den e5 T = Ok (mkc (shape_bits (wordsz m) sd) r)) by (rewrite Bd; exact (DT e5 G5)).
  destruct (reg_set_correct e5 nd (wordsz m) sd xd T r Vd Hxd Hr' Ed5 BT' DT5) as (we & Se & Dw).
  set (e6 := env_set e5 (nd, None) (mkc (wordsz m) (arch_write sd (wordsz m) xd r))).
  eexists. exists (mkst e6 (st_mem st)).
  split; [cbn; discriminate|].
  split.
  { fold t0 T. rewrite E1. cbn [bind]. rewrite Zf. cbn [bind]. rewrite Sf. cbn [bind]. rewrite Of. cbn [bind].
    rewrite Cf. cbn [bind]. unfold ops_store. rewrite Xd, Se. cbn [bind]. reflexivity. }
  split; [reflexivity|].
  split; [cbn; lia|].
  split.
  { cbn [exec_ops app].
    rewrite (exec_assign st t0 _ _ D1). cbn [bind fst st_env st_mem]. fold en. rewrite KT. fold e1.
    rewrite (exec_assign (mkst e1 _) _ _ _ Dz). cbn [bind fst st_env st_mem]. change (skey_of (flag_scalar X86Lift.n_ZF)) with kZF. fold e2.
    rewrite (exec_assign (mkst e2 _) _ _ _ Ds). cbn [bind fst st_env st_mem]. change (skey_of (flag_scalar X86Lift.n_SF)) with kSF. fold e3.
    rewrite (exec_assign (mkst e3 _) _ _ _ Do). cbn [bind fst st_env st_mem]. change (skey_of (flag_scalar X86Lift.n_OF)) with kOF. fold e4.
    rewrite (exec_assign (mkst e4 _) _ _ _ D5). cbn [bind fst st_env st_mem]. change (skey_of (flag_scalar X86Lift.n_CF)) with kCF. fold e5.
    rewrite (exec_assign (mkst e5 _) _ _ _ Dw). cbn [bind fst st_env st_mem]. reflexivity. }
  split.
  { intros k K0 K1 K2 K3 K4 K5. cbn [st_env]. unfold e6, e5, e4, e3, e2, e1. rewrite !env_get_set_other by assumption. reflexivity. }
  split; [reflexivity|]. cbn [st_env].
  split; [apply env_get_set_same|].
  unfold e6, e5, e4, e3, e2.
  split; [rewrite !env_get_set_other by (unfold kT0, kZF, kSF, kOF, kCF, X86Lift.n_ZF, X86Lift.n_SF, X86Lift.n_OF, X86Lift.n_CF in *; congruence); apply env_get_set_same|].
  split; [rewrite !env_get_set_other by (unfold kT0, kZF, kSF, kOF, kCF, X86Lift.n_ZF, X86Lift.n_SF, X86Lift.n_OF, X86Lift.n_CF in *; congruence); apply env_get_set_same|].
  split; [rewrite !env_get_set_other by (unfold kT0, kZF, kSF, kOF, kCF, X86Lift.n_ZF, X86Lift.n_SF, X86Lift.n_OF, X86Lift.n_CF in *; congruence); apply env_get_set_same|].
  rewrite !env_get_set_other by (unfold kT0, kZF, kSF, kOF, kCF, X86Lift.n_ZF, X86Lift.n_SF, X86Lift.n_OF, X86Lift.n_CF in *; congruence). apply env_get_set_same.
Qed.

(* cmp dst, src: flags of the subtraction, nothing else changes *)
Theorem cmp_reg_ops_correct st m sz dst nd sd xd lhs rhs b :
  operand_shape m sz dst = Some (nd, sd) -> reg_name_ok nd = true -> width_ok sz ->
  0 <= xd < 2 ^ wordsz m -> env_get (st_env st) (nd, None) = Some (mkc (wordsz m) xd) ->
  opv m sz dst = Ok lhs ->
  e_bits rhs = sz -> 0 <= b < 2 ^ sz -> den (st_env st) rhs = Ok (mkc sz b) -> clean rhs = true ->
  let a := arch_read sd (wordsz m) xd in
  let r := U sz (a - b) in
  exists ops st',
    lift_alu m ACmp sz dst (OImm 0) <> None /\
    (e <- mk_bin Sub lhs rhs ;; zf <- set_zf e ;; sf <- set_sf e ;; of <- set_of e lhs rhs true ;; cf <- set_cf e lhs ;;
     Ok [zf; sf; of; cf]) = Ok ops /\
    forallb is_assign ops = true /\
    (0 < length ops <= 16)%nat /\
    exec_ops st ops = Ok st' /\
    (forall k, k <> (nd, None) -> k <> kT0 -> k <> kZF -> k <> kSF -> k <> kOF -> k <> kCF ->
       env_get (st_env st') k = env_get (st_env st) k) /\
    st_mem st' = st_mem st /\
    env_get (st_env st') (nd, None) = Some (mkc (wordsz m) xd) /\
    env_get (st_env st') kZF = Some (mkc 1 (X86.b2z (r =? 0))) /\
    env_get (st_env st') kSF = Some (mkc 1 (X86.b2z (X86.msb sz r))) /\
    env_get (st_env st') kOF = Some (mkc 1 (X86.b2z (X86.sovf sz (X86.Sg sz a - X86.Sg sz b)))) /\
    env_get (st_env st') kCF = Some (mkc 1 (X86.b2z (a <? b))).
Proof.
  intros Od Nok Hw Hxd Ed Ol Br Hb Dr Cr a r.
  destruct (operand_shape_xreg _ _ _ _ _ Od) as (Xd & Vd & Bd).
  set (en := st_env st) in *.
  assert (Gl: reg_get (xreg_of nd (wordsz m) sd) = Ok lhs).
  { unfold opv in Ol. rewrite Xd in Ol. destruct dst; cbn [operand_shape] in Od; try discriminate; exact Ol. }
  destruct (reg_get_correct en nd (wordsz m) sd xd Vd Hxd Ed) as (lhs' & Gl' & Dl). rewrite Gl in Gl'. inversion Gl'; subst lhs'. clear Gl'.
  rewrite Bd in Dl. fold a in Dl.
  assert (Bl: e_bits lhs = sz) by (rewrite <- Bd; eapply reg_get_bits; eassumption).
  assert (Ha: 0 <= a < 2 ^ sz) by (unfold a; rewrite <- Bd; apply arch_read_range; assumption).
  assert (Hr: 0 <= r < 2 ^ sz) by (unfold r, U; apply Z.mod_pos_bound; destruct Hw as [->|[->|[->| ->]]]; reflexivity).
  assert (Ml: forall k, nd <> fst k -> mentions k lhs = false).
  { intros k Hk. clear - Gl Hk Vd. destruct Vd as [[E|E] Hs]; rewrite E in Gl; destruct sd; try (specialize (Hs eq_refl); congruence);
      cbv in Gl; inversion Gl; subst lhs; cbn [mentions]; unfold skey_of; cbn [sname sssa];
      destruct (skey_eqb (nd, None) k) eqn:Q; try reflexivity; apply skey_eqb_eq in Q; subst k; cbn in Hk; congruence. }
  assert (Nn: nd <> 53%N /\ nd <> X86Lift.n_ZF /\ nd <> X86Lift.n_SF /\ nd <> X86Lift.n_OF /\ nd <> X86Lift.n_CF).
  { unfold reg_name_ok in Nok. unfold X86Lift.n_ZF, X86Lift.n_SF, X86Lift.n_OF, X86Lift.n_CF.
    repeat split; intros ->; cbn in Nok; discriminate. }
  destruct Nn as (N0 & N1 & N2 & N3 & N4).
  unfold clean in Cr. apply negb_true_iff in Cr. repeat (apply orb_false_iff in Cr; destruct Cr as [Cr ?]).
  set (T := EBin Sub lhs rhs).
  assert (E1: mk_bin Sub lhs rhs = Ok T) by (unfold mk_bin; rewrite Bl, Br, Z.eqb_refl; reflexivity).
  assert (BT: e_bits T = sz) by (unfold T; cbn [e_bits is_cmp]; exact Bl).
  assert (DT: forall en', den en' lhs = Ok (mkc sz a) -> den en' rhs = Ok (mkc sz b) -> den en' T = Ok (mkc sz r)).
  { intros en' A B. unfold T. cbn [den]. rewrite A, B. cbn [bind]. unfold sp_bin_c. cbn [cbits cval]. rewrite Z.eqb_refl. reflexivity. }
  destruct (set_zf_den en sz r T BT (DT en Dl Dr)) as (zfe & Zf & Dz).
  set (e2 := env_set en kZF (mkc 1 (X86.b2z (r =? 0)))).
  assert (L2: den e2 lhs = Ok (mkc sz a)) by (unfold e2; rewrite den_env_set; [exact Dl|apply Ml; exact N1]).
  assert (R2: den e2 rhs = Ok (mkc sz b)) by (unfold e2; rewrite den_env_set; assumption).
  destruct (set_sf_den e2 sz a b r lhs rhs T Hw Ha Hb Hr Bl Br BT L2 R2 (DT e2 L2 R2)) as (sfe & Sf & Ds).
  set (e3 := env_set e2 kSF (mkc 1 (X86.b2z (X86.msb sz r)))).
  assert (L3: den e3 lhs = Ok (mkc sz a)) by (unfold e3; rewrite den_env_set; [exact L2|apply Ml; exact N2]).
  assert (R3: den e3 rhs = Ok (mkc sz b)) by (unfold e3; rewrite den_env_set; assumption).
  destruct (set_of_den e3 sz a b r lhs rhs T Hw Ha Hb Hr Bl Br BT L3 R3 (DT e3 L3 R3) true) as (ofe & Of & Do).
  pose proof (of_sub_correct sz a b Hw Ha Hb) as OA. fold r in OA. rewrite OA in Do.
  set (e4 := env_set e3 kOF (mkc 1 (X86.b2z (X86.sovf sz (X86.Sg sz a - X86.Sg sz b))))).
  assert (L4: den e4 lhs = Ok (mkc sz a)) by (unfold e4; rewrite den_env_set; [exact L3|apply Ml; exact N3]).
  assert (R4: den e4 rhs = Ok (mkc sz b)) by (unfold e4; rewrite den_env_set; assumption).
  destruct (set_cf_den e4 sz a r lhs T Bl BT L4 (DT e4 L4 R4)) as (cfe & Cf & D5).
  pose proof (cf_sub_correct sz a b Hw Ha Hb) as CA. fold r in CA. rewrite CA in D5.
  set (e5 := env_set e4 kCF (mkc 1 (X86.b2z (a <? b)))).
  eexists. exists (mkst e5 (st_mem st)).
  split; [cbn; discriminate|].
  split.
  { rewrite E1. cbn [bind]. rewrite Zf. cbn [bind]. rewrite Sf. cbn [bind]. rewrite Of. cbn [bind]. rewrite Cf. cbn [bind]. reflexivity. }
  split; [reflexivity|].
  split; [cbn; lia|].
  split.
  { cbn [exec_ops].
    rewrite (exec_assign st _ _ _ Dz). cbn [bind fst st_env st_mem]. fold en. change (skey_of (flag_scalar X86Lift.n_ZF)) with kZF. fold e2.
    rewrite (exec_assign (mkst e2 _) _ _ _ Ds). cbn [bind fst st_env st_mem]. change (skey_of (flag_scalar X86Lift.n_SF)) with kSF. fold e3.
    rewrite (exec_assign (mkst e3 _) _ _ _ Do). cbn [bind fst st_env st_mem]. change (skey_of (flag_scalar X86Lift.n_OF)) with kOF. fold e4.
    rewrite (exec_assign (mkst e4 _) _ _ _ D5). cbn [bind fst st_env st_mem]. change (skey_of (flag_scalar X86Lift.n_CF)) with kCF. fold e5.
    reflexivity. }
  split.
  { intros k K0 K1 K2 K3 K4 K5. cbn [st_env]. unfold e5, e4, e3, e2. rewrite !env_get_set_other by assumption. reflexivity. }
  split; [reflexivity|]. cbn [st_env]. unfold e5, e4, e3, e2.
  split; [rewrite !env_get_set_other by (unfold kT0, kZF, kSF, kOF, kCF, X86Lift.n_ZF, X86Lift.n_SF, X86Lift.n_OF, X86Lift.n_CF in *; congruence); exact Ed|].
  split; [rewrite !env_get_set_other by (unfold kT0, kZF, kSF, kOF, kCF, X86Lift.n_ZF, X86Lift.n_SF, X86Lift.n_OF, X86Lift.n_CF in *; congruence); apply env_get_set_same|].
  split; [rewrite !env_get_set_other by (unfold kT0, kZF, kSF, kOF, kCF, X86Lift.n_ZF, X86Lift.n_SF, X86Lift.n_OF, X86Lift.n_CF in *; congruence); apply env_get_set_same|].
  split; [rewrite !env_get_set_other by (unfold kT0, kZF, kSF, kOF, kCF, X86Lift.n_ZF, X86Lift.n_SF, X86Lift.n_OF, X86Lift.n_CF in *; congruence); apply env_get_set_same|].
  apply env_get_set_same.
Qed.

Lemma lor_range a b w : 0 <= w -> 0 <= a < 2 ^ w -> 0 <= b < 2 ^ w -> 0 <= Z.lor a b < 2 ^ w.
Proof.
  intros Hw Ha Hb. assert (NN: 0 <= Z.lor a b) by (apply Z.lor_nonneg; lia). split; [exact NN|].
  destruct (Z.eq_dec (Z.lor a b) 0) as [->|N]; [apply Z.pow_pos_nonneg; lia|].
  assert (Wp: 0 < w).
  { destruct (Z.eq_dec w 0) as [->|]; [|lia]. change (2 ^ 0) with 1 in *.
    assert (a = 0) by lia. assert (b = 0) by lia. subst. cbn in N. contradiction. }
  apply Z.log2_lt_pow2; [lia|]. rewrite Z.log2_lor by lia.
  apply Z.max_lub_lt.
  - destruct (Z.eq_dec a 0) as [->|Na]; [cbn; lia|apply Z.log2_lt_pow2; lia].
  - destruct (Z.eq_dec b 0) as [->|Nb]; [cbn; lia|apply Z.log2_lt_pow2; lia].
Qed.

Definition logic_fun (op : binop) : option (Z -> Z -> Z) :=
  match op with And => Some Z.land | Or => Some Z.lor | Xor => Some Z.lxor | _ => None end.

(* and / or / xor dst, src (for xor: operand expressions not syntactically identical; `xor r, r` is lifted to
   the constant 0): result, ZF, SF from the result, CF = OF = 0 *)
Theorem logic_reg_ops_correct st m op f sz dst nd sd xd lhs rhs b :
  logic_fun op = Some f ->
  operand_shape m sz dst = Some (nd, sd) -> reg_name_ok nd = true -> width_ok sz ->
  0 <= xd < 2 ^ wordsz m -> env_get (st_env st) (nd, None) = Some (mkc (wordsz m) xd) ->
  opv m sz dst = Ok lhs ->
  e_bits rhs = sz -> 0 <= b < 2 ^ sz -> den (st_env st) rhs = Ok (mkc sz b) -> clean rhs = true ->
  let a := arch_read sd (wordsz m) xd in
  let r := f a b in
  exists ops st',
    (e <- mk_bin op lhs rhs ;; zf <- set_zf (EScalar (temp_k 0 sz)) ;; sf <- set_sf (EScalar (temp_k 0 sz)) ;;
     s <- ops_store m sz dst (EScalar (temp_k 0 sz)) ;;
     Ok ([OAssign (temp_k 0 sz) e; zf; sf; assign_flag X86Lift.n_CF (expr_const 0 1); assign_flag X86Lift.n_OF (expr_const 0 1)] ++ s)) = Ok ops /\
    forallb is_assign ops = true /\
    (0 < length ops <= 16)%nat /\
    exec_ops st ops = Ok st' /\
    (forall k, k <> (nd, None) -> k <> kT0 -> k <> kZF -> k <> kSF -> k <> kOF -> k <> kCF ->
       env_get (st_env st') k = env_get (st_env st) k) /\
    st_mem st' = st_mem st /\
    env_get (st_env st') (nd, None) = Some (mkc (wordsz m) (arch_write sd (wordsz m) xd r)) /\
    env_get (st_env st') kZF = Some (mkc 1 (X86.b2z (r =? 0))) /\
    env_get (st_env st') kSF = Some (mkc 1 (X86.b2z (X86.msb sz r))) /\
    env_get (st_env st') kOF = Some (mkc 1 0) /\
    env_get (st_env st') kCF = Some (mkc 1 0).
Proof.
  intros Hf Od Nok Hw Hxd Ed Ol Br Hb Dr Cr a r.
  destruct (operand_shape_xreg _ _ _ _ _ Od) as (Xd & Vd & Bd).
  set (en := st_env st) in *.
  assert (Gl: reg_get (xreg_of nd (wordsz m) sd) = Ok lhs).
  { unfold opv in Ol. rewrite Xd in Ol. destruct dst; cbn [operand_shape] in Od; try discriminate; exact Ol. }
  destruct (reg_get_correct en nd (wordsz m) sd xd Vd Hxd Ed) as (lhs' & Gl' & Dl). rewrite Gl in Gl'. inversion Gl'; subst lhs'. clear Gl'.
  rewrite Bd in Dl. fold a in Dl.
  assert (Bl: e_bits lhs = sz) by (rewrite <- Bd; eapply reg_get_bits; eassumption).
  assert (Ha: 0 <= a < 2 ^ sz) by (unfold a; rewrite <- Bd; apply arch_read_range; assumption).
  assert (W0: 0 <= sz) by (destruct Hw as [->|[->|[->| ->]]]; lia).
  assert (Hr: 0 <= r < 2 ^ sz).
  { unfold r. destruct op; try discriminate; inversion Hf; subst f;
      [apply land_range; lia|apply lor_range; lia|apply lxor_range; lia]. }
  assert (Ml: forall k, nd <> fst k -> mentions k lhs = false).
  { intros k Hk. clear - Gl Hk Vd. destruct Vd as [[E|E] Hs]; rewrite E in Gl; destruct sd; try (specialize (Hs eq_refl); congruence);
      cbv in Gl; inversion Gl; subst lhs; cbn [mentions]; unfold skey_of; cbn [sname sssa];
      destruct (skey_eqb (nd, None) k) eqn:Q; try reflexivity; apply skey_eqb_eq in Q; subst k; cbn in Hk; congruence. }
  assert (Nn: nd <> 53%N /\ nd <> X86Lift.n_ZF /\ nd <> X86Lift.n_SF /\ nd <> X86Lift.n_OF /\ nd <> X86Lift.n_CF).
  { unfold reg_name_ok in Nok. unfold X86Lift.n_ZF, X86Lift.n_SF, X86Lift.n_OF, X86Lift.n_CF.
    repeat split; intros ->; cbn in Nok; discriminate. }
  destruct Nn as (N0 & N1 & N2 & N3 & N4).
  unfold clean in Cr. apply negb_true_iff in Cr. repeat (apply orb_false_iff in Cr; destruct Cr as [Cr ?]).
  set (t0 := temp_k 0 sz). set (T := EScalar t0).
  assert (E1: mk_bin op lhs rhs = Ok (EBin op lhs rhs)) by (unfold mk_bin; rewrite Bl, Br, Z.eqb_refl; reflexivity).
  assert (D1: den en (EBin op lhs rhs) = Ok (mkc sz r)).
  { cbn [den]. rewrite Dl, Dr. cbn [bind]. unfold sp_bin_c. cbn [cbits cval]. rewrite Z.eqb_refl. cbn [negb].
    unfold r. destruct op; try discriminate; inversion Hf; subst f; reflexivity. }
  set (e1 := env_set en kT0 (mkc sz r)).
  assert (KT: skey_of t0 = kT0) by reflexivity.
  assert (BT: e_bits T = sz) by reflexivity.
  assert (DT: forall en', env_get en' kT0 = Some (mkc sz r) -> den en' T = Ok (mkc sz r)).
  { intros en' G. cbn [den T]. rewrite KT, G. cbn [cbits t0 temp_k sbits]. rewrite Z.eqb_refl. reflexivity. }
  assert (G1: env_get e1 kT0 = Some (mkc sz r)) by apply env_get_set_same.
  assert (L1: den e1 lhs = Ok (mkc sz a)) by (unfold e1; rewrite den_env_set; [exact Dl|apply Ml; exact N0]).
  assert (R1: den e1 rhs = Ok (mkc sz b)) by (unfold e1; rewrite den_env_set; assumption).
  destruct (set_zf_den e1 sz r T BT (DT e1 G1)) as (zfe & Zf & Dz).
  set (e2 := env_set e1 kZF (mkc 1 (X86.b2z (r =? 0)))).
  assert (G2: env_get e2 kT0 = Some (mkc sz r)) by (unfold e2; rewrite env_get_set_other; [exact G1|discriminate]).
  assert (L2: den e2 lhs = Ok (mkc sz a)) by (unfold e2; rewrite den_env_set; [exact L1|apply Ml; exact N1]).
  assert (R2: den e2 rhs = Ok (mkc sz b)) by (unfold e2; rewrite den_env_set; assumption).
  destruct (set_sf_den e2 sz a b r lhs rhs T Hw Ha Hb Hr Bl Br BT L2 R2 (DT e2 G2)) as (sfe & Sf & Ds).
  set (e3 := env_set e2 kSF (mkc 1 (X86.b2z (X86.msb sz r)))).
  set (e4 := env_set e3 kCF (mkc 1 0)).
  set (e5 := env_set e4 kOF (mkc 1 0)).
  assert (G5: env_get e5 kT0 = Some (mkc sz r)).
  { unfold e5, e4, e3. rewrite !env_get_set_other by discriminate. exact G2. }
  assert (Ed5: env_get e5 (nd, None) = Some (mkc (wordsz m) xd)).
  { unfold e5, e4, e3, e2, e1. rewrite !env_get_set_other; [exact Ed| | | | |]; unfold kT0, kZF, kSF, kOF, kCF, X86Lift.n_ZF, X86Lift.n_SF, X86Lift.n_OF, X86Lift.n_CF in *; congruence. }
  assert (Hr': 0 <= r < 2 ^ shape_bits (wordsz m) sd) by (rewrite Bd; exact Hr).
  assert (BT': e_bits T = shape_bits (wordsz m) sd) by (rewrite Bd; exact BT).
  assert (DT5: den e5 T = Ok (mkc (shape_bits (wordsz m) sd) r)) by (rewrite Bd; exact (DT e5 G5)).
  destruct (reg_set_correct e5 nd (wordsz m) sd xd T r Vd Hxd Hr' Ed5 BT' DT5) as (we & Se & Dw).
  set (e6 := env_set e5 (nd, None) (mkc (wordsz m) (arch_write sd (wordsz m) xd r))).
  assert (DC: forall en', den en' (expr_const 0 1) = Ok (mkc 1 0)) by (intros; reflexivity).
  eexists. exists (mkst e6 (st_mem st)).
  split.
  { fold t0 T. rewrite E1. cbn [bind]. rewrite Zf. cbn [bind]. rewrite Sf. cbn [bind].
    unfold ops_store. rewrite Xd, Se. cbn [bind]. reflexivity. }
  split; [reflexivity|].
  split; [cbn; lia|].
  split.
  { cbn [exec_ops app].
    rewrite (exec_assign st t0 _ _ D1). cbn [bind fst st_env st_mem]. fold en. rewrite KT. fold e1.
    rewrite (exec_assign (mkst e1 _) _ _ _ Dz). cbn [bind fst st_env st_mem]. change (skey_of (flag_scalar X86Lift.n_ZF)) with kZF. fold e2.
    rewrite (exec_assign (mkst e2 _) _ _ _ Ds). cbn [bind fst st_env st_mem]. change (skey_of (flag_scalar X86Lift.n_SF)) with kSF. fold e3.
    unfold assign_flag.
    rewrite (exec_assign (mkst e3 _) _ _ _ (DC e3)). cbn [bind fst st_env st_mem]. change (skey_of (flag_scalar X86Lift.n_CF)) with kCF. fold e4.
    rewrite (exec_assign (mkst e4 _) _ _ _ (DC e4)). cbn [bind fst st_env st_mem]. change (skey_of (flag_scalar X86Lift.n_OF)) with kOF. fold e5.
    rewrite (exec_assign (mkst e5 _) _ _ _ Dw). cbn [bind fst st_env st_mem]. reflexivity. }
  split.
  { intros k K0 K1 K2 K3 K4 K5. cbn [st_env]. unfold e6, e5, e4, e3, e2, e1. rewrite !env_get_set_other by assumption. reflexivity. }
  split; [reflexivity|]. cbn [st_env].
  split; [apply env_get_set_same|].
  unfold e6, e5, e4, e3, e2.
  split; [rewrite !env_get_set_other by (unfold kT0, kZF, kSF, kOF, kCF, X86Lift.n_ZF, X86Lift.n_SF, X86Lift.n_OF, X86Lift.n_CF in *; congruence); apply env_get_set_same|].
  split; [rewrite !env_get_set_other by (unfold kT0, kZF, kSF, kOF, kCF, X86Lift.n_ZF, X86Lift.n_SF, X86Lift.n_OF, X86Lift.n_CF in *; congruence); apply env_get_set_same|].
  split; [rewrite !env_get_set_other by (unfold kT0, kZF, kSF, kOF, kCF, X86Lift.n_ZF, X86Lift.n_SF, X86Lift.n_OF, X86Lift.n_CF in *; congruence); apply env_get_set_same|].
  rewrite !env_get_set_other by (unfold kT0, kZF, kSF, kOF, kCF, X86Lift.n_ZF, X86Lift.n_SF, X86Lift.n_OF, X86Lift.n_CF in *; congruence). apply env_get_set_same.
Qed.

(* inc / dec dst: result, ZF, SF, OF as for add / sub with 1; CF is not assigned *)
Theorem incdec_reg_ops_correct st m (sub : bool) sz dst nd sd xd lhs :
  operand_shape m sz dst = Some (nd, sd) -> reg_name_ok nd = true -> width_ok sz ->
  0 <= xd < 2 ^ wordsz m -> env_get (st_env st) (nd, None) = Some (mkc (wordsz m) xd) ->
  opv m sz dst = Ok lhs ->
  let a := arch_read sd (wordsz m) xd in
  let r := if sub then U sz (a - 1) else U sz (a + 1) in
  let op := if sub then Sub else Add in
  exists ops st',
    lift_un m (if sub then UDec else UInc) sz dst <> None /\
    (e <- mk_bin op lhs (expr_const 1 (e_bits lhs)) ;;
     zf <- set_zf e ;; sf <- set_sf e ;; of <- set_of e lhs (expr_const 1 (e_bits lhs)) sub ;;
     s <- ops_store m sz dst e ;; Ok ([zf; sf; of] ++ s)) = Ok ops /\
    forallb is_assign ops = true /\
    (0 < length ops <= 16)%nat /\
    exec_ops st ops = Ok st' /\
    (forall k, k <> (nd, None) -> k <> kT0 -> k <> kZF -> k <> kSF -> k <> kOF -> k <> kCF ->
       env_get (st_env st') k = env_get (st_env st) k) /\
    st_mem st' = st_mem st /\
    env_get (st_env st') (nd, None) = Some (mkc (wordsz m) (arch_write sd (wordsz m) xd r)) /\
    env_get (st_env st') kZF = Some (mkc 1 (X86.b2z (r =? 0))) /\
    env_get (st_env st') kSF = Some (mkc 1 (X86.b2z (X86.msb sz r))) /\
    env_get (st_env st') kOF =
      Some (mkc 1 (X86.b2z (X86.sovf sz (if sub then X86.Sg sz a - X86.Sg sz 1 else X86.Sg sz a + X86.Sg sz 1)))) /\
    env_get (st_env st') kCF = env_get (st_env st) kCF.
Proof.
  intros Od Nok Hw Hxd Ed Ol a r op.
  destruct (operand_shape_xreg _ _ _ _ _ Od) as (Xd & Vd & Bd).
  set (en := st_env st) in *.
  assert (Gl: reg_get (xreg_of nd (wordsz m) sd) = Ok lhs).
  { unfold opv in Ol. rewrite Xd in Ol. destruct dst; cbn [operand_shape] in Od; try discriminate; exact Ol. }
  destruct (reg_get_correct en nd (wordsz m) sd xd Vd Hxd Ed) as (lhs' & Gl' & Dl). rewrite Gl in Gl'. inversion Gl'; subst lhs'. clear Gl'.
  rewrite Bd in Dl. fold a in Dl.
  assert (Bl: e_bits lhs = sz) by (rewrite <- Bd; eapply reg_get_bits; eassumption).
  rewrite Bl.
  assert (Ha: 0 <= a < 2 ^ sz) by (unfold a; rewrite <- Bd; apply arch_read_range; assumption).
  assert (Hb: 0 <= 1 < 2 ^ sz) by (destruct Hw as [->|[->|[->| ->]]]; pows; lia).
  assert (Hr: 0 <= r < 2 ^ sz) by (unfold r, U; destruct sub; apply Z.mod_pos_bound; destruct Hw as [->|[->|[->| ->]]]; reflexivity).
  set (one := expr_const 1 sz).
  assert (Bo: e_bits one = sz) by reflexivity.
  assert (Do1: forall en', den en' one = Ok (mkc sz 1)).
  { intros en'. unfold one, expr_const, new_big. cbn [den]. f_equal. f_equal. destruct Hw as [->|[->|[->| ->]]]; reflexivity. }
  assert (Ml: forall k, nd <> fst k -> mentions k lhs = false).
  { intros k Hk. clear - Gl Hk Vd. destruct Vd as [[E|E] Hs]; rewrite E in Gl; destruct sd; try (specialize (Hs eq_refl); congruence);
      cbv in Gl; inversion Gl; subst lhs; cbn [mentions]; unfold skey_of; cbn [sname sssa];
      destruct (skey_eqb (nd, None) k) eqn:Q; try reflexivity; apply skey_eqb_eq in Q; subst k; cbn in Hk; congruence. }
  assert (Nn: nd <> X86Lift.n_ZF /\ nd <> X86Lift.n_SF /\ nd <> X86Lift.n_OF /\ nd <> X86Lift.n_CF).
  { unfold reg_name_ok in Nok. unfold X86Lift.n_ZF, X86Lift.n_SF, X86Lift.n_OF, X86Lift.n_CF.
    repeat split; intros ->; cbn in Nok; discriminate. }
  destruct Nn as (N1 & N2 & N3 & N4).
  set (T := EBin op lhs one).
  assert (E1: mk_bin op lhs one = Ok T) by (unfold mk_bin; rewrite Bl, Bo, Z.eqb_refl; reflexivity).
  assert (BT: e_bits T = sz) by (unfold T, op; destruct sub; cbn [e_bits is_cmp]; exact Bl).
  assert (DT: forall en', den en' lhs = Ok (mkc sz a) -> den en' T = Ok (mkc sz r)).
  { intros en' A. unfold T. cbn [den]. rewrite A, (Do1 en'). cbn [bind]. unfold sp_bin_c. cbn [cbits cval]. rewrite Z.eqb_refl.
    unfold op, r. destruct sub; reflexivity. }
  destruct (set_zf_den en sz r T BT (DT en Dl)) as (zfe & Zf & Dz).
  set (e2 := env_set en kZF (mkc 1 (X86.b2z (r =? 0)))).
  assert (L2: den e2 lhs = Ok (mkc sz a)) by (unfold e2; rewrite den_env_set; [exact Dl|apply Ml; exact N1]).
  destruct (set_sf_den e2 sz a 1 r lhs one T Hw Ha Hb Hr Bl Bo BT L2 (Do1 e2) (DT e2 L2)) as (sfe & Sf & Ds).
  set (e3 := env_set e2 kSF (mkc 1 (X86.b2z (X86.msb sz r)))).
  assert (L3: den e3 lhs = Ok (mkc sz a)) by (unfold e3; rewrite den_env_set; [exact L2|apply Ml; exact N2]).
  destruct (set_of_den e3 sz a 1 r lhs one T Hw Ha Hb Hr Bl Bo BT L3 (Do1 e3) (DT e3 L3) sub) as (ofe & Of & Do).
  assert (OV: of_value sz a 1 r sub = X86.b2z (X86.sovf sz (if sub then X86.Sg sz a - X86.Sg sz 1 else X86.Sg sz a + X86.Sg sz 1))).
  { unfold r. destruct sub; [apply of_sub_correct|apply of_add_correct]; assumption. }
  rewrite OV in Do.
  set (e4 := env_set e3 kOF (mkc 1 (X86.b2z (X86.sovf sz (if sub then X86.Sg sz a - X86.Sg sz 1 else X86.Sg sz a + X86.Sg sz 1))))).
  assert (L4: den e4 lhs = Ok (mkc sz a)) by (unfold e4; rewrite den_env_set; [exact L3|apply Ml; exact N3]).
  assert (Ed4: env_get e4 (nd, None) = Some (mkc (wordsz m) xd)).
  { unfold e4, e3, e2. rewrite !env_get_set_other; [exact Ed| | |]; unfold kZF, kSF, kOF, X86Lift.n_ZF, X86Lift.n_SF, X86Lift.n_OF in *; congruence. }
  assert (Hr': 0 <= r < 2 ^ shape_bits (wordsz m) sd) by (rewrite Bd; exact Hr).
  assert (BT': e_bits T = shape_bits (wordsz m) sd) by (rewrite Bd; exact BT).
  assert (DT4: den e4 T = Ok (mkc (shape_bits (wordsz m) sd) r)) by (rewrite Bd; exact (DT e4 L4)).
  destruct (reg_set_correct e4 nd (wordsz m) sd xd T r Vd Hxd Hr' Ed4 BT' DT4) as (we & Se & Dw).
  set (e5 := env_set e4 (nd, None) (mkc (wordsz m) (arch_write sd (wordsz m) xd r))).
  eexists. exists (mkst e5 (st_mem st)).
  split; [destruct sub; cbn; discriminate|].
  split.
  { fold one. rewrite E1. cbn [bind]. rewrite Zf. cbn [bind]. rewrite Sf. cbn [bind]. rewrite Of. cbn [bind].
    unfold ops_store. rewrite Xd, Se. cbn [bind]. reflexivity. }
  split; [reflexivity|].
  split; [cbn; lia|].
  split.
  { cbn [exec_ops app].
    rewrite (exec_assign st _ _ _ Dz). cbn [bind fst st_env st_mem]. fold en. change (skey_of (flag_scalar X86Lift.n_ZF)) with kZF. fold e2.
    rewrite (exec_assign (mkst e2 _) _ _ _ Ds). cbn [bind fst st_env st_mem]. change (skey_of (flag_scalar X86Lift.n_SF)) with kSF. fold e3.
    rewrite (exec_assign (mkst e3 _) _ _ _ Do). cbn [bind fst st_env st_mem]. change (skey_of (flag_scalar X86Lift.n_OF)) with kOF. fold e4.
    rewrite (exec_assign (mkst e4 _) _ _ _ Dw). cbn [bind fst st_env st_mem]. reflexivity. }
  split.
  { intros k K0 K1 K2 K3 K4 K5. cbn [st_env]. unfold e5, e4, e3, e2. rewrite !env_get_set_other by assumption. reflexivity. }
  split; [reflexivity|]. cbn [st_env].
  split; [apply env_get_set_same|].
  unfold e5, e4, e3, e2.
  split; [rewrite !env_get_set_other by (unfold kZF, kSF, kOF, kCF, X86Lift.n_ZF, X86Lift.n_SF, X86Lift.n_OF, X86Lift.n_CF in *; congruence); apply env_get_set_same|].
  split; [rewrite !env_get_set_other by (unfold kZF, kSF, kOF, kCF, X86Lift.n_ZF, X86Lift.n_SF, X86Lift.n_OF, X86Lift.n_CF in *; congruence); apply env_get_set_same|].
  split; [rewrite !env_get_set_other by (unfold kZF, kSF, kOF, kCF, X86Lift.n_ZF, X86Lift.n_SF, X86Lift.n_OF, X86Lift.n_CF in *; congruence); apply env_get_set_same|].
  rewrite !env_get_set_other by (unfold kZF, kSF, kOF, kCF, X86Lift.n_ZF, X86Lift.n_SF, X86Lift.n_OF, X86Lift.n_CF in *; congruence). reflexivity.
Qed.

(* ---------- glue: a one-block instruction graph run by the Sem-based runner = the operation list run in sequence ---------- *)
From Falcon Require Import IL.Loc Isa.X86Run.

Lemma find_instr_number addr k l j o :
  nth_error l j = Some o ->
  find_instr (number_ops addr k l) (k + Z.of_nat j) = Some (mkinstr (k + Z.of_nat j) o (Some addr)).
Proof.
  revert k j. induction l as [|x t IH]; intros k j H; [destruct j; discriminate|].
  destruct j as [|j]; cbn [nth_error] in H.
  - inversion H; subst. cbn [number_ops find_instr i_index]. replace (k + Z.of_nat 0) with k by lia.
    rewrite Z.eqb_refl. reflexivity.
  - cbn [number_ops find_instr i_index].
    destruct (Z.eqb_spec k (k + Z.of_nat (Datatypes.S j))) as [E|_]; [lia|].
    replace (k + Z.of_nat (Datatypes.S j)) with ((k + 1) + Z.of_nat j) by lia. apply IH. exact H.
Qed.

Lemma forward_scan_number f addr k l j o :
  nth_error l j = Some o ->
  instr_forward_scan f 0 (number_ops addr k l) (k + Z.of_nat j) =
    match nth_error l (Datatypes.S j) with
    | Some _ => Ok [LInstr 0 (k + Z.of_nat j + 1)]
    | None => es <- cfg_edges_out (f_cfg f) 0 ;; Ok (edge_locs es)
    end.
Proof.
  revert k j. induction l as [|x t IH]; intros k j H; [destruct j; discriminate|].
  destruct j as [|j]; cbn [nth_error] in H.
  - cbn [number_ops instr_forward_scan i_index]. replace (k + Z.of_nat 0) with k by lia. rewrite Z.eqb_refl.
    destruct t as [|y t']; cbn [number_ops nth_error i_index]; reflexivity.
  - cbn [number_ops instr_forward_scan i_index].
    destruct (Z.eqb_spec k (k + Z.of_nat (Datatypes.S j))) as [E|_]; [lia|].
    replace (k + Z.of_nat (Datatypes.S j)) with ((k + 1) + Z.of_nat j) by lia. rewrite (IH (k + 1) j H).
    cbn [nth_error]. destruct (nth_error t (Datatypes.S j)); [first [reflexivity|repeat f_equal; lia]|reflexivity].
Qed.

Lemma exec_op_not_branch st o st' ev : is_branch o = false -> exec_op st o = Ok (st', ev) ->
  match ev with EvBranch _ => False | _ => True end.
Proof.
  intros Nb H. destruct o; cbn [is_branch] in Nb; try discriminate; unfold exec_op in H;
    repeat match type of H with
           | context [bind ?x _] => destruct x as [?|?|] eqn:?; cbn [bind] in H; try discriminate
           end; inversion H; subst; exact I.
Qed.

Theorem il_run_one_block addr ops :
  (forall o, In o ops -> is_branch o = false) ->
  forall suf pre st st' fuel,
    ops = pre ++ suf -> suf <> [] -> exec_ops st suf = Ok st' -> (length suf <= fuel)%nat ->
    il_run fuel (mkfunc addr (one_block addr ops) None) (LInstr 0 (Z.of_nat (length pre))) st = ILFin st' None.
Proof.
  intros Nb. induction suf as [|o t IH]; intros pre st st' fuel E Ne Ex Hf; [congruence|].
  destruct fuel as [|fuel]; [cbn in Hf; lia|].
  cbn [exec_ops] in Ex. destruct (exec_op st o) as [[st1 ev]|?|] eqn:Eo; cbn [bind fst] in Ex; try discriminate.
  assert (Nth: nth_error ops (length pre) = Some o).
  { rewrite E. rewrite nth_error_app2 by lia. rewrite Nat.sub_diag. reflexivity. }
  assert (Bo: is_branch o = false) by (apply Nb; rewrite E; apply in_or_app; right; left; reflexivity).
  pose proof (exec_op_not_branch _ _ _ _ Bo Eo) as Nev.
  cbn [il_run]. unfold sem_step.
  unfold loc_instruction, f_blocks, f_cfg, one_block. cbn [g_blocks find_block b_index Z.eqb block_instruction b_instrs].
  unfold block_instruction. cbn [b_instrs].
  pose proof (find_instr_number addr 0 ops (length pre) o Nth) as FI. cbn [Z.add] in FI. rewrite FI. cbn [i_op].
  rewrite Eo.
  assert (FW: forward (mkfunc addr (one_block addr ops) None) (LInstr 0 (Z.of_nat (length pre))) =
              match nth_error ops (Datatypes.S (length pre)) with
              | Some _ => Ok [LInstr 0 (Z.of_nat (length pre) + 1)]
              | None => Ok []
              end).
  { unfold forward, f_blocks, f_cfg, one_block. cbn [g_blocks find_block b_index Z.eqb b_instrs].
    pose proof (forward_scan_number (mkfunc addr (one_block addr ops) None) addr 0 ops (length pre) o Nth) as FS.
    cbn [Z.add] in FS. unfold one_block in FS. rewrite FS. destruct (nth_error ops (Datatypes.S (length pre))); reflexivity. }
  fold (one_block addr ops). rewrite FW.
  destruct t as [|o2 t2].
  - (* last operation: the block has no successor *)
    assert (N2: nth_error ops (Datatypes.S (length pre)) = None).
    { apply nth_error_None. rewrite E, app_length. cbn. lia. }
    rewrite N2. cbn [exec_ops] in Ex. inversion Ex; subst st1.
    destruct ev; try contradiction; reflexivity.
  - assert (N2: nth_error ops (Datatypes.S (length pre)) = Some o2).
    { rewrite E. rewrite nth_error_app2 by lia. replace (Datatypes.S (length pre) - length pre)%nat with 1%nat by lia. reflexivity. }
    rewrite N2.
    assert (CH: forall ev',
                choose (mkfunc addr (one_block addr ops) None) st1 ev' [LInstr 0 (Z.of_nat (length pre) + 1)] =
                Next (LInstr 0 (Z.of_nat (length pre) + 1)) st1 ev').
    { intros ev'. unfold choose, enabled_locs, edge_enabled, loc_edge. cbn [bind]. reflexivity. }
    assert (IHa: il_run fuel (mkfunc addr (one_block addr ops) None) (LInstr 0 (Z.of_nat (length (pre ++ [o])))) st1 = ILFin st' None).
    { apply (IH (pre ++ [o]) st1 st' fuel); [rewrite <- app_assoc; exact E|discriminate|exact Ex|cbn in Hf |- *; lia]. }
    rewrite app_length in IHa. cbn [length] in IHa. rewrite Nat2Z.inj_add in IHa. cbn [Z.of_nat Pos.of_succ_nat] in IHa.
    destruct ev; try contradiction; rewrite CH; exact IHa.
Qed.
