(* Isa/X86Tie.v -- the syntactic tie transfers a [sim] theorem to an enumerated encoding: if the checker's
   [syntactic_tie] holds for the IL the REAL lifter dumped for the bytes of a decoded form, the per-form theorem
   speaks about that dumped IL, for all states. *)
From Coq Require Import ZArith List Bool NArith Lia.
From Falcon Require Import Base.Res IL.Const IL.Expr IL.Func IL.Loc Exec.Sem.
From Falcon Require Import Isa.X86 Isa.X86Run Isa.X86Mirror Isa.X86Proofs Isa.X86Sim Isa.C01Check.
Import ListNotations.
Local Open Scope Z_scope.

Lemma optN_eqb_eq a b : optN_eqb a b = true -> a = b.
Proof. destruct a, b; cbn; intros H; try discriminate; [apply N.eqb_eq in H; congruence|reflexivity]. Qed.
Lemma scalar_eqb_eq a b : scalar_eqb a b = true -> a = b.
Proof.
  destruct a as [n w v], b as [n' w' v']. unfold scalar_eqb. cbn [sname sbits sssa]. intros H.
  apply andb_prop in H as [H H3]. apply andb_prop in H as [H1 H2].
  apply N.eqb_eq in H1. apply Z.eqb_eq in H2. apply optN_eqb_eq in H3. congruence.
Qed.
Lemma const_eqb_eq a b : const_eqb a b = true -> a = b.
Proof.
  destruct a as [w v], b as [w' v']. unfold const_eqb. cbn [cbits cval]. intros H. apply andb_prop in H as [H1 H2].
  apply Z.eqb_eq in H1. apply Z.eqb_eq in H2. congruence.
Qed.
Lemma binop_eqb_eq a b : binop_eqb a b = true -> a = b.
Proof. destruct a, b; cbn; intros; congruence. Qed.
Lemma extop_eqb_eq a b : extop_eqb a b = true -> a = b.
Proof. destruct a, b; cbn; intros; congruence. Qed.
Lemma expr_eqb_eq : forall a b, expr_eqb a b = true -> a = b.
Proof.
  induction a as [s|c|o l IHl r IHr|o n x IHx|c IHc t IHt f IHf]; destruct b; cbn [expr_eqb]; intros H; try discriminate.
  - apply scalar_eqb_eq in H. congruence.
  - apply const_eqb_eq in H. congruence.
  - apply andb_prop in H as [H H3]. apply andb_prop in H as [H1 H2].
    apply binop_eqb_eq in H1. apply IHl in H2. apply IHr in H3. congruence.
  - apply andb_prop in H as [H H3]. apply andb_prop in H as [H1 H2].
    apply extop_eqb_eq in H1. apply Z.eqb_eq in H2. apply IHx in H3. congruence.
  - apply andb_prop in H as [H H3]. apply andb_prop in H as [H1 H2].
    apply IHc in H1. apply IHt in H2. apply IHf in H3. congruence.
Qed.
Lemma op_eqb_eq a b : op_eqb a b = true -> a = b.
Proof.
  destruct a as [d s|i s|d i|t|i|[[d0 s0|i0 s0|d0 i0|t0|i0|o0]|]], b as [d' s'|i' s'|d' i'|t'|i'|[[d0' s0'|i0' s0'|d0' i0'|t0'|i0'|o0']|]]; cbn [op_eqb]; intros H; try discriminate.
  - apply andb_prop in H as [H1 H2]. apply scalar_eqb_eq in H1. apply expr_eqb_eq in H2. congruence.
  - apply andb_prop in H as [H1 H2]. apply expr_eqb_eq in H1. apply expr_eqb_eq in H2. congruence.
  - apply andb_prop in H as [H1 H2]. apply scalar_eqb_eq in H1. apply expr_eqb_eq in H2. congruence.
  - apply expr_eqb_eq in H. congruence.
  - apply expr_eqb_eq in H. congruence.
  - reflexivity.
Qed.
Lemma list_eqb_eq {A} (eqb : A -> A -> bool) : (forall a b, eqb a b = true -> a = b) ->
  forall l m, list_eqb eqb l m = true -> l = m.
Proof.
  intros He. induction l as [|x t IH]; destruct m as [|y u]; cbn [list_eqb]; intros H; try discriminate; [reflexivity|].
  apply andb_prop in H as [H1 H2]. apply He in H1. apply IH in H2. congruence.
Qed.
Lemma optZ_eqb_eq a b : X86Run.optZ_eqb a b = true -> a = b.
Proof. destruct a, b; cbn; intros H; try discriminate; [apply Z.eqb_eq in H; congruence|reflexivity]. Qed.
Lemma optexpr_eqb_eq a b : optexpr_eqb a b = true -> a = b.
Proof. destruct a, b; cbn; intros H; try discriminate; [apply expr_eqb_eq in H; congruence|reflexivity]. Qed.
Lemma instr_eqb_eq a b : instr_eqb a b = true -> a = b.
Proof.
  destruct a as [k o ad], b as [k' o' ad']. unfold instr_eqb. cbn [i_index i_op i_addr]. intros H.
  apply andb_prop in H as [H H3]. apply andb_prop in H as [H1 H2].
  apply Z.eqb_eq in H1. apply op_eqb_eq in H2. apply optZ_eqb_eq in H3. congruence.
Qed.
Lemma block_eqb_eq a b : block_eqb a b = true -> a = b.
Proof.
  destruct a as [i n l p], b as [i' n' l' p']. unfold block_eqb. cbn [b_index b_next b_instrs b_phis]. intros H.
  apply andb_prop in H as [H H4]. apply andb_prop in H as [H H3]. apply andb_prop in H as [H1 H2].
  apply Z.eqb_eq in H1. apply Z.eqb_eq in H2. apply (list_eqb_eq _ instr_eqb_eq) in H3.
  destruct p, p'; try discriminate. congruence.
Qed.
Lemma edge_eqb_eq a b : edge_eqb a b = true -> a = b.
Proof.
  destruct a as [h t c], b as [h' t' c']. unfold edge_eqb. cbn [e_head e_tail e_cond]. intros H.
  apply andb_prop in H as [H H3]. apply andb_prop in H as [H1 H2].
  apply Z.eqb_eq in H1. apply Z.eqb_eq in H2. apply optexpr_eqb_eq in H3. congruence.
Qed.
Lemma cfg_eqb_eq a b : cfg_eqb a b = true -> a = b.
Proof.
  destruct a as [bl ed nx en ex], b as [bl' ed' nx' en' ex']. unfold cfg_eqb.
  cbn [g_blocks g_edges g_next_index g_entry g_exit]. intros H.
  apply andb_prop in H as [H H5]. apply andb_prop in H as [H H4]. apply andb_prop in H as [H H3].
  apply andb_prop in H as [H1 H2].
  apply (list_eqb_eq _ block_eqb_eq) in H1. apply (list_eqb_eq _ edge_eqb_eq) in H2.
  apply Z.eqb_eq in H3. apply optZ_eqb_eq in H4. apply optZ_eqb_eq in H5. congruence.
Qed.
Lemma succ_eqb_eq a b : succ_eqb a b = true -> a = b.
Proof.
  destruct a as [x c], b as [y d]. unfold succ_eqb. cbn [fst snd]. intros H. apply andb_prop in H as [H1 H2].
  apply Z.eqb_eq in H1. apply optexpr_eqb_eq in H2. congruence.
Qed.

(* what the checker's tie establishes about a dumped graph *)
Lemma syntactic_tie_sound m addr len i g succ : syntactic_tie m addr len i g succ = true ->
  mirror_instr m addr len i = Some (Ok g) /\ succ = mirror_succ m addr len i.
Proof.
  unfold syntactic_tie. destruct (mirror_instr m addr len i) as [[g'| |]|]; intros H; try discriminate.
  apply andb_prop in H as [H1 H2]. apply cfg_eqb_eq in H1. apply (list_eqb_eq _ succ_eqb_eq) in H2. subst. auto.
Qed.

(* THE TRANSFER: a per-form theorem + the tie checked for one dumped encoding = correctness of the REAL lifter's
   output for that encoding, from every well-formed machine state and every IL state that embeds it *)
Theorem tie_transfers m addr len i g succ :
  syntactic_tie m addr len i g succ = true -> sim m addr len i ->
  forall s st s' ip, wf m s -> emb m s st -> step m (addr + len) i s = XNext s' ip ->
    exists st', run_instr 600 g succ addr st = RunOk st' (Some ip) /\ emb m s' st' /\ wf m s'.
Proof.
  intros Ht Hsim s st s' ip Hw He Hs.
  destruct (syntactic_tie_sound _ _ _ _ _ _ Ht) as (Hm & ->).
  destruct (Hsim s st s' ip Hw He Hs) as (g' & Hm' & st' & R). rewrite Hm in Hm'. inversion Hm'; subst g'.
  exists st'. exact R.
Qed.

(* the checker's tie component for a mirrored case is exactly [syntactic_tie] *)
Lemma ck_tie_is_syntactic_tie c g succ :
  tc_lift c = LOk g succ -> tc_mirror c = mirror_instr (tc_mode c) (tc_addr c) (tc_len c) (tc_ins c) ->
  (exists r, tc_mirror c = Some r) -> fst (ck c) = true ->
  syntactic_tie (tc_mode c) (tc_addr c) (tc_len c) (tc_ins c) g succ = true.
Proof.
  intros Hl Hm [r Hr] Hc. unfold ck in Hc. cbn [fst] in Hc. rewrite Hl in Hc. unfold syntactic_tie. rewrite <- Hm.
  rewrite Hr in *. destruct r as [g'| |]; try discriminate; exact Hc.
Qed.
