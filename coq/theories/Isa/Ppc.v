(* Isa/Ppc.v -- 32-bit PowerPC ISA SPECIFICATION (TRUSTED), for the instruction forms the lifter accepts.

   Transcribed from "PowerPC User Instruction Set Architecture, Book I" (v2.02), each instruction
   citing its section / mnemonic and following the RTL given there, over Z with the bit-vector operators
   of IL/ConstSpec.v.  Bits are numbered the IBM way in the manual (bit 0 = most significant); the
   transcription converts to arithmetic on values.  32-bit implementation: registers are 32 bits wide,
   big-endian memory.

   Only the record forms with Rc = 0 and OE = 0 are decoded (the lifter ignores both bits: the Rc = 1 /
   OE = 1 encodings are outside this specification and the check does not judge them).
   Invalid forms and boundedly-undefined results are `PUnpred` (nothing compared). *)
From Coq Require Import ZArith List Bool.
From Falcon Require Import IL.ConstSpec.
Import ListNotations.
Local Open Scope Z_scope.

Inductive pinstr :=
| PAdd (rt ra rb : Z)                 (* add *)
| PSubf (rt ra rb : Z)                (* subf *)
| PAddze (rt ra : Z)                  (* addze *)
| PAddi (rt ra si : Z)                (* addi (li when RA = 0) *)
| PAddis (rt ra si : Z)               (* addis (lis when RA = 0) *)
| PCmpwi (bf ra si : Z)               (* cmpi, L = 0 *)
| PCmplwi (bf ra ui : Z)              (* cmpli, L = 0 *)
| PLbz (rt ra d : Z) | PLwz (rt ra d : Z) | PLwzu (rt ra d : Z)
| PStw (rs ra d : Z) | PStwu (rs ra d : Z) | PStmw (rs ra d : Z)
| POr (ra rs rb : Z)                  (* or (mr when RS = RB) *)
| POri (ra rs ui : Z)                 (* ori (nop when all fields are 0) *)
| PRlwinm (ra rs sh mb me : Z)        (* rlwinm (slwi, srwi, clrlwi ... are extended mnemonics) *)
| PSrawi (ra rs sh : Z)
| PMtspr (spr rs : Z) | PMfspr (rt spr : Z)    (* spr 8 = LR, 9 = CTR *)
| PB (li aa lk : Z)                   (* b ba bl bla *)
| PBc (bo bi bd aa lk : Z)            (* bc and its extended mnemonics *)
| PBclr (bo bi lk : Z)                (* bclr (blr = bclr 20, 0) *)
| PBcctr (bo bi lk : Z).              (* bcctr (bctr = bcctr 20, 0) *)

Definition fld (w lo n : Z) : Z := (w / 2 ^ lo) mod 2 ^ n.

Definition decode (w : Z) : option pinstr :=
  let z (b : bool) (i : pinstr) := if b then Some i else None in
  if (w <? 0) || (2 ^ 32 <=? w) then None else
  let op := fld w 26 6 in let rt := fld w 21 5 in let ra := fld w 16 5 in let rb := fld w 11 5 in
  let xo := fld w 1 10 in let xo9 := fld w 1 9 in let rc := fld w 0 1 in let oe := fld w 10 1 in
  let d := fld w 0 16 in
  match op with
  | 10 => z (fld w 21 2 =? 0) (PCmplwi (fld w 23 3) ra d)        (* cmpli BF,L,RA,UI with L = 0, reserved bit 0 *)
  | 11 => z (fld w 21 2 =? 0) (PCmpwi (fld w 23 3) ra d)         (* cmpi *)
  | 14 => Some (PAddi rt ra d)
  | 15 => Some (PAddis rt ra d)
  | 16 => Some (PBc rt ra (fld w 2 14) (fld w 1 1) rc)           (* BO BI BD AA LK *)
  | 18 => Some (PB (fld w 2 24) (fld w 1 1) rc)                  (* LI AA LK *)
  | 19 => match xo with
          | 16 => z (fld w 13 3 =? 0) (PBclr rt ra rc)           (* bclr BO,BI,BH with BH = 0 *)
          | 528 => z (fld w 13 3 =? 0) (PBcctr rt ra rc)
          | _ => None
          end
  | 21 => z (rc =? 0) (PRlwinm ra rt rb (fld w 6 5) (fld w 1 5)) (* rlwinm RA,RS,SH,MB,ME *)
  | 24 => Some (POri ra rt d)
  | 31 => match xo with
          | 444 => z (rc =? 0) (POr ra rt rb)
          | 824 => z (rc =? 0) (PSrawi ra rt rb)
          | 467 => z (rc =? 0) (PMtspr (rb * 32 + ra) rt)        (* spr field = spr[5:9] || spr[0:4] *)
          | 339 => z (rc =? 0) (PMfspr rt (rb * 32 + ra))
          | _ => match xo9 with
                 | 266 => z ((rc =? 0) && (oe =? 0)) (PAdd rt ra rb)
                 | 40 => z ((rc =? 0) && (oe =? 0)) (PSubf rt ra rb)
                 | 202 => z ((rc =? 0) && (oe =? 0) && (rb =? 0)) (PAddze rt ra)
                 | _ => None
                 end
          end
  | 32 => Some (PLwz rt ra d)
  | 33 => Some (PLwzu rt ra d)
  | 34 => Some (PLbz rt ra d)
  | 36 => Some (PStw rt ra d)
  | 37 => Some (PStwu rt ra d)
  | 47 => Some (PStmw rt ra d)
  | _ => None
  end.

(* ------------------------------------------------------------------ machine state *)
Record pstate := mkp {
  pgpr : Z -> Z;
  plr : Z; pctr : Z;
  pcr : Z -> Z;          (* CR bit i (0 = cr0.lt ... 31 = cr7.so), value 0 / 1 *)
  pca : Z;               (* XER[CA] *)
  pso : Z;               (* XER[SO] *)
  ppc : Z;               (* CIA *)
  pmem : Z -> Z }.

Definition W : Z := 2 ^ 32.
Definition a32 (a : Z) : Z := a mod W.

Definition setg (s : pstate) (r v : Z) : pstate :=
  mkp (fun k => if k =? r then v else pgpr s k) (plr s) (pctr s) (pcr s) (pca s) (pso s) (ppc s) (pmem s).
Definition set_lr (s : pstate) (v : Z) := mkp (pgpr s) v (pctr s) (pcr s) (pca s) (pso s) (ppc s) (pmem s).
Definition set_ctr (s : pstate) (v : Z) := mkp (pgpr s) (plr s) v (pcr s) (pca s) (pso s) (ppc s) (pmem s).
Definition set_cr (s : pstate) (f : Z -> Z) := mkp (pgpr s) (plr s) (pctr s) f (pca s) (pso s) (ppc s) (pmem s).
Definition set_ca (s : pstate) (v : Z) := mkp (pgpr s) (plr s) (pctr s) (pcr s) v (pso s) (ppc s) (pmem s).
Definition set_pc (s : pstate) (v : Z) := mkp (pgpr s) (plr s) (pctr s) (pcr s) (pca s) (pso s) v (pmem s).
Definition set_mem (s : pstate) (m : Z -> Z) := mkp (pgpr s) (plr s) (pctr s) (pcr s) (pca s) (pso s) (ppc s) m.

Definition mb_ (s : pstate) (a : Z) : Z := pmem s (a32 a).
Definition ld1 (s : pstate) (a : Z) : Z := mb_ s a.
Definition ld4 (s : pstate) (a : Z) : Z :=            (* big-endian *)
  ((mb_ s a * 256 + mb_ s (a + 1)) * 256 + mb_ s (a + 2)) * 256 + mb_ s (a + 3).
Definition wr (m : Z -> Z) (a v : Z) : Z -> Z := fun k => if k =? a32 a then v mod 256 else m k.
Definition st4m (m : Z -> Z) (a v : Z) : Z -> Z :=
  wr (wr (wr (wr m a (v / 2 ^ 24)) (a + 1) (v / 2 ^ 16)) (a + 2) (v / 2 ^ 8)) (a + 3) v.

Inductive presult := POk (s : pstate) | PUnpred.

Definition exts16 (x : Z) : Z := if x <? 2 ^ 15 then x else x - 2 ^ 16.
Definition ra0 (s : pstate) (ra : Z) : Z := if ra =? 0 then 0 else pgpr s ra.       (* (RA|0) *)

(* MASK(MB+32, ME+32) as a 32-bit value *)
Definition mask32 (mb me : Z) : Z :=
  if mb <=? me then 2 ^ (32 - mb) - 2 ^ (31 - me)
  else W - 1 - (2 ^ (31 - me) - 2 ^ (32 - mb)).
Definition rotl32 (x n : Z) : Z := U 32 (x * 2 ^ n) + x / 2 ^ (32 - n).           (* 0 <= n < 32 *)

(* CR field BF <- c || XER[SO] *)
Definition set_crf (s : pstate) (bf lt gt eq : Z) : pstate :=
  set_cr s (fun i => if i =? 4 * bf then lt else if i =? 4 * bf + 1 then gt else if i =? 4 * bf + 2 then eq
                     else if i =? 4 * bf + 3 then pso s else pcr s i).
Definition b2z (b : bool) : Z := if b then 1 else 0.

(* stmw: registers RS..31 to consecutive words *)
Fixpoint stmw_loop (n : nat) (s : pstate) (m : Z -> Z) (r ea : Z) : Z -> Z :=
  match n with
  | O => m
  | Datatypes.S n => if 31 <? r then m else stmw_loop n s (st4m m ea (pgpr s r)) (r + 1) (ea + 4)
  end.

(* the BO field: BO[0] is the most significant of its five bits *)
Definition bo_bit (bo i : Z) : bool := Z.odd (bo / 2 ^ (4 - i)).

(* branch conditional common part: returns (state with CTR updated, taken) *)
Definition bc_cond (s : pstate) (bo bi : Z) : pstate * bool :=
  let s1 := if bo_bit bo 2 then s else set_ctr s (U 32 (pctr s - 1)) in               (* if not BO[2] then CTR <- CTR - 1 *)
  let ctr_ok := bo_bit bo 2 || xorb (negb (pctr s1 =? 0)) (bo_bit bo 3) in           (* BO[2] | ((CTR <> 0) xor BO[3]) *)
  let cond_ok := bo_bit bo 0 || Bool.eqb (pcr s bi =? 1) (bo_bit bo 1) in            (* BO[0] | (CR[BI] = BO[1]) *)
  (s1, ctr_ok && cond_ok).

Definition next (s : pstate) : presult := POk (set_pc s (a32 (ppc s + 4))).

Definition pstep (i : pinstr) (s : pstate) : presult :=
  match i with
  | PAdd rt ra rb => next (setg s rt (U 32 (pgpr s ra + pgpr s rb)))
  | PSubf rt ra rb => next (setg s rt (U 32 (W - 1 - pgpr s ra + pgpr s rb + 1)))       (* not(RA) + (RB) + 1 *)
  | PAddze rt ra =>                                                                     (* RT <- (RA) + CA; CA <- carry *)
      let t := pgpr s ra + pca s in next (set_ca (setg s rt (U 32 t)) (b2z (W <=? t)))
  | PAddi rt ra si => next (setg s rt (U 32 (ra0 s ra + exts16 si)))
  | PAddis rt ra si => next (setg s rt (U 32 (ra0 s ra + exts16 si * 2 ^ 16)))
  | PCmpwi bf ra si =>
      let a := S 32 (pgpr s ra) in let b := exts16 si in
      next (set_crf s bf (b2z (a <? b)) (b2z (b <? a)) (b2z (a =? b)))
  | PCmplwi bf ra ui =>
      let a := pgpr s ra in
      next (set_crf s bf (b2z (a <? ui)) (b2z (ui <? a)) (b2z (a =? ui)))
  | PLbz rt ra d => next (setg s rt (ld1 s (a32 (ra0 s ra + exts16 d))))
  | PLwz rt ra d =>
      let ea := a32 (ra0 s ra + exts16 d) in
      if W <? ea + 4 then PUnpred else next (setg s rt (ld4 s ea))              (* operand wrapping past 2^32 - 1: not judged *)
  | PLwzu rt ra d =>                                                                    (* RA = 0 or RA = RT: invalid form *)
      if (ra =? 0) || (ra =? rt) then PUnpred
      else let ea := a32 (pgpr s ra + exts16 d) in
           if W <? ea + 4 then PUnpred else next (setg (setg s rt (ld4 s ea)) ra ea)
  | PStw rs ra d =>
      let ea := a32 (ra0 s ra + exts16 d) in
      if W <? ea + 4 then PUnpred else next (set_mem s (st4m (pmem s) ea (pgpr s rs)))
  | PStwu rs ra d =>
      if ra =? 0 then PUnpred
      else let ea := a32 (pgpr s ra + exts16 d) in
           if W <? ea + 4 then PUnpred else next (setg (set_mem s (st4m (pmem s) ea (pgpr s rs))) ra ea)
  | PStmw rs ra d =>
      let ea := a32 (ra0 s ra + exts16 d) in
      if negb (ea mod 4 =? 0) || (W <? ea + 4 * (32 - rs)) then PUnpred                (* alignment: boundedly undefined; wrap: not judged *)
      else next (set_mem s (stmw_loop 32 s (pmem s) rs ea))
  | POr ra rs rb => next (setg s ra (Z.lor (pgpr s rs) (pgpr s rb)))
  | POri ra rs ui => next (setg s ra (Z.lor (pgpr s rs) ui))
  | PRlwinm ra rs sh mb me => next (setg s ra (Z.land (rotl32 (pgpr s rs) sh) (mask32 mb me)))
  | PSrawi ra rs sh =>
      let v := pgpr s rs in
      next (set_ca (setg s ra (U 32 (S 32 v / 2 ^ sh))) (b2z ((S 32 v <? 0) && negb (v mod 2 ^ sh =? 0))))
  | PMtspr spr rs =>
      if spr =? 8 then next (set_lr s (pgpr s rs)) else if spr =? 9 then next (set_ctr s (pgpr s rs)) else PUnpred
  | PMfspr rt spr =>
      if spr =? 8 then next (setg s rt (plr s)) else if spr =? 9 then next (setg s rt (pctr s)) else PUnpred
  | PB li aa lk =>
      let off := (if li <? 2 ^ 23 then li else li - 2 ^ 24) * 4 in
      let nia := if aa =? 1 then a32 off else a32 (ppc s + off) in
      let s1 := if lk =? 1 then set_lr s (a32 (ppc s + 4)) else s in
      POk (set_pc s1 nia)
  | PBc bo bi bd aa lk =>
      let (s1, taken) := bc_cond s bo bi in
      let off := (if bd <? 2 ^ 13 then bd else bd - 2 ^ 14) * 4 in
      let nia := if taken then (if aa =? 1 then a32 off else a32 (ppc s + off)) else a32 (ppc s + 4) in
      let s2 := if lk =? 1 then set_lr s1 (a32 (ppc s + 4)) else s1 in
      POk (set_pc s2 nia)
  | PBclr bo bi lk =>
      let (s1, taken) := bc_cond s bo bi in
      let nia := if taken then plr s / 4 * 4 else a32 (ppc s + 4) in                 (* LR[0:61] || 0b00 *)
      let s2 := if lk =? 1 then set_lr s1 (a32 (ppc s + 4)) else s1 in
      POk (set_pc s2 nia)
  | PBcctr bo bi lk =>
      if negb (bo_bit bo 2) then PUnpred                                               (* "decrement and test CTR" option: invalid form *)
      else
      let taken := bo_bit bo 0 || Bool.eqb (pcr s bi =? 1) (bo_bit bo 1) in
      let nia := if taken then pctr s / 4 * 4 else a32 (ppc s + 4) in
      let s2 := if lk =? 1 then set_lr s (a32 (ppc s + 4)) else s in
      POk (set_pc s2 nia)
  end.

Definition prun (w : Z) (s : pstate) : presult :=
  match decode w with Some i => pstep i s | None => PUnpred end.
