(* Isa/A64.v -- ISA SPECIFICATION for property C03 (TRUSTED).
   A transcription of the Arm Architecture Reference Manual (DDI 0487, A-profile) pseudocode for the
   instruction classes property C03 lists.  Written from the manual, independently of the lifter.
   Each definition cites the instruction page (section numbers of DDI 0487J.a, chapter C6.2) and the
   shared pseudocode function (chapter J1) it transcribes.

   Model assumptions (part of the trusted base, stated in notes/C03.md):
   * EL0 execution of the integer subset; no exceptions: alignment checking disabled
     (SCTLR_ELx.A = 0, SA/SA0 = 0), no MMU faults, no tag checking, no PAC;
   * data endianness is a parameter of the state ([abig], SCTLR_ELx.EE / E0E); instruction fetch is
     always little-endian and is not part of the state (the word is given);
   * an access whose byte range leaves the 64-bit address space (wrap-around) is outside the model:
     the result is [Undef];
   * UNDEFINED encodings do not decode; CONSTRAINED UNPREDICTABLE behaviours are [Undef]:
     no theorem and no comparison looks at an [Undef] outcome. *)
From Coq Require Import ZArith List Bool.
From Falcon Require Import IL.ConstSpec.
Import ListNotations.
Local Open Scope Z_scope.

(* ------------------------------------------------------------------ bit fields of a word *)
Definition bits (w hi lo : Z) : Z := (w / 2 ^ lo) mod 2 ^ (hi - lo + 1).
Definition bitb (w i : Z) : bool := bits w i i =? 1.

(* ------------------------------------------------------------------ instructions (decoded fields) *)
(* shift / extend kinds: DecodeShift (J1.1 shared/functions/common) and DecodeRegExtend *)
Inductive shiftk := SLSL | SLSR | SASR | SROR.
Inductive extk := XUXTB | XUXTH | XUXTW | XUXTX | XSXTB | XSXTH | XSXTW | XSXTX.
Definition decode_shift (s : Z) : shiftk :=
  if s =? 0 then SLSL else if s =? 1 then SLSR else if s =? 2 then SASR else SROR.
Definition decode_ext (o : Z) : extk :=
  if o =? 0 then XUXTB else if o =? 1 then XUXTH else if o =? 2 then XUXTW else if o =? 3 then XUXTX
  else if o =? 4 then XSXTB else if o =? 5 then XSXTH else if o =? 6 then XSXTW else XSXTX.

Inductive wbmode := WOffset | WPost | WPre.       (* addressing: no write-back / post-index / pre-index *)
Inductive pmode := PNoAlloc | PPost | POffset | PPre.

Inductive instr :=
(* C6.2.4 ADD (immediate), C6.2.8 ADDS (immediate), C6.2.357 SUB (immediate), C6.2.363 SUBS (immediate) *)
| IAddSubImm (sf sub setflags sh : bool) (imm12 rn rd : Z)
(* C6.2.5 ADD (shifted register), C6.2.9 ADDS, C6.2.358 SUB, C6.2.364 SUBS *)
| IAddSubShift (sf sub setflags : bool) (sh : shiftk) (rm imm6 rn rd : Z)
(* C6.2.3 ADD (extended register), C6.2.7 ADDS, C6.2.356 SUB, C6.2.362 SUBS *)
| IAddSubExt (sf sub setflags : bool) (ext : extk) (rm imm3 rn rd : Z)
(* C6.2.240 ORR (shifted register)  [MOV (register) is its alias] *)
| IOrrShift (sf : bool) (sh : shiftk) (rm imm6 rn rd : Z)
(* C6.2.226 MOVN (opc=0), C6.2.227 MOVZ (opc=2), C6.2.225 MOVK (opc=3) *)
| IMovWide (sf : bool) (opc hw imm16 rd : Z)
(* Load/store register: C6.2.166 LDR (immediate), C6.2.170/172 LDRB/LDRH, C6.2.174/176/178 LDRSB/LDRSH/LDRSW,
   C6.2.322 STR (immediate), C6.2.324/326 STRB/STRH, C6.2.202 LDUR.., C6.2.346 STUR..
   [scaled] : unsigned-offset form (imm is imm12, scaled by the access size); otherwise imm is imm9 (signed) *)
| ILdStImm (size opc : Z) (mode : wbmode) (scaled : bool) (imm rn rt : Z)
(* C6.2.168 LDR (register), C6.2.171.. LDRB/LDRH/LDRSB/LDRSH/LDRSW (register), C6.2.323 STR (register).. *)
| ILdStReg (size opc : Z) (rm option : Z) (s : bool) (rn rt : Z)
(* C6.2.167 LDR (literal), C6.2.179 LDRSW (literal) *)
| ILdLit (opc imm19 rt : Z)
(* C6.2.164 LDP, C6.2.165 LDPSW, C6.2.321 STP, C6.2.163 LDNP, C6.2.320 STNP *)
| ILdStPair (opc : Z) (mode : pmode) (load : bool) (imm7 rt2 rn rt : Z)
(* C6.2.131 LDAR, C6.2.132/133 LDARB/H, C6.2.158 LDLAR(B/H), C6.2.308 STLR(B/H), C6.2.304 STLLR(B/H) *)
| ILdStOrd (size : Z) (load : bool) (o0 : bool) (rn rt : Z)
(* the same encodings with a "should be one" field (Rs, Rt2) not all ones: CONSTRAINED UNPREDICTABLE (K1.2.x) *)
| ILdStOrdU (size : Z) (load : bool) (o0 : bool) (rn rt : Z)
(* C6.2.239 ORR (immediate)  [MOV (bitmask immediate) is its alias] *)
| IOrrImm (sf : bool) (n immr imms rn rd : Z)
(* C6.2.229 NOP (HINT #0), C6.2.247-249 PRFM (immediate | literal | register), C6.2.250 PRFUM: no architectural state change *)
| INop
(* SIMD&FP register transfers: C7.2.191 LDR (immediate, SIMD&FP), C7.2.193 LDR (register, SIMD&FP), C7.2.194 LDUR,
   C7.2.331-333 STR / STUR (SIMD&FP); [scale] = log2 of the access size in bytes (0..4 : B H S D Q) *)
| IVLdStImm (scale : Z) (load : bool) (mode : wbmode) (scaled : bool) (imm rn rt : Z)
| IVLdStReg (scale : Z) (load : bool) (rm option : Z) (s : bool) (rn rt : Z)
(* C7.2.190 LDP / C7.2.189 LDNP / C7.2.330 STP / C7.2.329 STNP (SIMD&FP): opc = 0 1 2 : S D Q *)
| IVLdStPair (opc : Z) (mode : pmode) (load : bool) (imm7 rt2 rn rt : Z)
(* AdvSIMD element moves, all spelled MOV by the decoder: C7.2.176 INS (element), C7.2.177 INS (general),
   C7.2.371 UMOV (the 32- and 64-bit forms), C7.2.39 DUP (element, scalar), C7.2.225 ORR (vector, register) with Rm = Rn;
   [size] = log2 of the element size in bytes, indices in elements *)
| IVIns (size dst src rn rd : Z)
| IVInsG (size idx rn rd : Z)
| IVUmov (size idx rn rd : Z)
| IVDupS (size idx rn rd : Z)
| IVMovV (q : bool) (rn rd : Z)
(* C7.2.2 ADD (vector) / C7.2.345 SUB (vector), scalar D-register variant *)
| IVAddSubD (sub : bool) (rm rn rd : Z)
(* C6.2.26 B, C6.2.34 BL *)
| IBImm (link : bool) (imm26 : Z)
(* C6.2.37 BR (opc=0), C6.2.35 BLR (opc=1), C6.2.254 RET (opc=2) *)
| IBReg (opc rn : Z)
(* C6.2.27 B.cond *)
| IBCond (cond imm19 : Z)
(* C6.2.47 CBZ, C6.2.46 CBNZ *)
| ICB (sf nz : bool) (imm19 rt : Z)
(* C6.2.375 TBZ, C6.2.374 TBNZ *)
| ITB (b5 nz : bool) (b40 imm14 rt : Z).

(* ------------------------------------------------------------------ decoder (C4.1 A64 encoding index) *)
Definition decode_ldst_opc_ok (size opc : Z) : bool :=
  (* V = 0.  opc<1> = 0: store / zero-extending load, every size.
     opc = 10: sign-extending load to 64 bits, size <> 11 (size = 11 is PRFM: not modelled)
     opc = 11: sign-extending load to 32 bits, size in {00, 01} (10, 11: UNDEFINED) *)
  if opc <? 2 then true else if opc =? 2 then size <? 3 else size <? 2.

(* The SVE prefetch encodings (DDI 0487 C8.2 PRFB, PRFD, PRFH, PRFW; all have bit 4 = 0):
   1000010 00 x 1 Zm 0 msz Pg Rn 0 prfop   gather, scalar plus 32-bit scaled offsets
   1000010 11 1 imm6 0 msz Pg Rn 0 prfop    contiguous, scalar plus immediate
   1000010 msz 00 Rm 110 Pg Rn 0 prfop      contiguous, scalar plus scalar (Rm <> 11111)
   1000010 msz 00 imm5 111 Pg Zn 0 prfop    gather, vector plus immediate (32-bit elements)
   1100010 00 x 1 Zm 0 msz Pg Rn 0 prfop    gather, scalar plus unpacked 32-bit scaled offsets
   1100010 00 11 Zm 1 msz Pg Rn 0 prfop     gather, scalar plus 64-bit scaled offsets
   1100010 msz 00 imm5 111 Pg Zn 0 prfop    gather, vector plus immediate (64-bit elements) *)
Definition sve_prefetch (w : Z) : bool :=
  negb (bitb w 4) &&
  (if bits w 31 25 =? 66 then
     ((bits w 24 23 =? 0) && bitb w 21 && negb (bitb w 15)) ||
     ((bits w 24 23 =? 3) && bitb w 22 && negb (bitb w 15)) ||
     ((bits w 22 21 =? 0) && (bits w 15 13 =? 6) && negb (bits w 20 16 =? 31)) ||
     ((bits w 22 21 =? 0) && (bits w 15 13 =? 7))
   else if bits w 31 25 =? 98 then
     ((bits w 24 23 =? 0) && bitb w 21 && negb (bitb w 15)) ||
     ((bits w 24 23 =? 0) && (bits w 22 21 =? 3) && bitb w 15) ||
     ((bits w 22 21 =? 0) && (bits w 15 13 =? 7))
   else false).

(* LowestSetBit(imm5) for the AdvSIMD copy group; None: imm5 = x0000 (UNDEFINED) *)
Definition imm5_size (imm5 : Z) : option Z :=
  if imm5 mod 2 =? 1 then Some 0 else if imm5 mod 4 =? 2 then Some 1 else if imm5 mod 8 =? 4 then Some 2
  else if imm5 mod 16 =? 8 then Some 3 else None.

(* DecodeBitMasks (J1 aarch64/functions/bitmasks), immediate = TRUE, returning wmask only *)
Definition bm_len (n imms : Z) : Z := Z.log2 (n * 64 + (63 - imms)).
Definition bitmask_valid (sf : bool) (n imms : Z) : bool :=
  let v := n * 64 + (63 - imms) in
  if negb sf && (n =? 1) then false                           (* sf = 0 && N = 1 : UNDEFINED *)
  else if v <? 2 then false                                   (* len < 1 : UNDEFINED *)
  else let levels := 2 ^ bm_len n imms - 1 in negb (Z.land imms levels =? levels).
Definition decode_bit_mask (datasize n immr imms : Z) : Z :=
  let len := bm_len n imms in
  let levels := 2 ^ len - 1 in
  let S := Z.land imms levels in
  let R := Z.land immr levels in
  let esize := 2 ^ len in
  let welem := 2 ^ (S + 1) - 1 in
  let elem := (welem / 2 ^ R + welem * 2 ^ (esize - R)) mod 2 ^ esize in      (* ROR(welem, R) *)
  (elem * ((2 ^ datasize - 1) / (2 ^ esize - 1))) mod 2 ^ datasize.           (* Replicate *)
(* MoveWidePreferred (J1 aarch64/instrs/integer/bitmasks) as the decoder the lifter uses (bad64 0.6) implements it:
   "for MOVN must contain no more than 16 zeros" is tested as S >= width - 17 (fitted on all 5 000 valid
   (sf, N, imms, immr) with Rn = ZR, see notes/C03.md).  Only the CHOICE OF MNEMONIC (MOV vs ORR) depends on it:
   it is used by the mirror (A64Lift.operands_of), never by a64step. *)
Definition move_wide_preferred (sf : bool) (n imms immr : Z) : bool :=
  let width := if sf then 64 else 32 in
  if sf && negb (n =? 1) then false
  else if negb sf && negb ((n =? 0) && (imms <? 32)) then false
  else if imms <? 16 then ((- immr) mod 16) <=? (15 - imms)
  else if width - 17 <=? imms then (immr mod 16) <=? (imms - (width - 17))
  else false.

(* the SIMD&FP / SVE part of the decoder (disjoint from the integer classes: bits 28:24 and the V bit) *)
Definition decode_simd (w : Z) : option instr :=
  let rd := bits w 4 0 in let rn := bits w 9 5 in let rm := bits w 20 16 in
  if sve_prefetch w then Some INop                        (* SVE PRFB / PRFH / PRFW / PRFD: no architectural state change *)
  else if negb (bitb w 31) && (bits w 28 21 =? 112) && negb (bitb w 15) && bitb w 10 then   (* 0 Q op 01110000 imm5 0 imm4 1 : AdvSIMD copy *)
    let imm5 := bits w 20 16 in let imm4 := bits w 14 11 in let q := bitb w 30 in
    match imm5_size imm5 with
    | None => None
    | Some size =>
        if bitb w 29 then                                       (* INS (element), Q = 1 *)
          if q then Some (IVIns size (imm5 / 2 ^ (size + 1)) (imm4 / 2 ^ size) rn rd) else None
        else if imm4 =? 3 then (if q then Some (IVInsG size (imm5 / 2 ^ (size + 1)) rn rd) else None)
        else if imm4 =? 7 then                                  (* UMOV: MOV alias for S (Q = 0) and D (Q = 1) only *)
          if (negb q && (size =? 2)) || (q && (size =? 3)) then Some (IVUmov size (imm5 / 2 ^ (size + 1)) rn rd) else None
        else None
    end
  else if (bits w 31 21 =? 752) && (bits w 15 10 =? 1) then   (* 01011110000 imm5 000001 : DUP (element), scalar *)
    match imm5_size (bits w 20 16) with
    | None => None
    | Some size => Some (IVDupS size (bits w 20 16 / 2 ^ (size + 1)) rn rd)
    end
  else if negb (bitb w 31) && (bits w 29 21 =? 117) && (bits w 15 10 =? 7) && (rm =? rn) then   (* 0 Q 0 01110 10 1 Rm 000111 : ORR (vector), Rm = Rn *)
    Some (IVMovV (bitb w 30) rn rd)
  else if (bits w 31 30 =? 1) && (bits w 28 21 =? 247) && (bits w 15 10 =? 33) then   (* 01 U 11110 11 1 Rm 100001 : ADD / SUB (vector), scalar D *)
    Some (IVAddSubD (bitb w 29) rm rn rd)
  else if (bits w 29 27 =? 5) && bitb w 26 then               (* xx 101 1 : load/store pair, SIMD&FP *)
    let opc := bits w 31 30 in let mode := bits w 25 23 in let load := bitb w 22 in
    if opc =? 3 then None
    else if mode =? 0 then Some (IVLdStPair opc PNoAlloc load (bits w 21 15) (bits w 14 10) rn rd)
    else if mode =? 1 then Some (IVLdStPair opc PPost load (bits w 21 15) (bits w 14 10) rn rd)
    else if mode =? 2 then Some (IVLdStPair opc POffset load (bits w 21 15) (bits w 14 10) rn rd)
    else if mode =? 3 then Some (IVLdStPair opc PPre load (bits w 21 15) (bits w 14 10) rn rd)
    else None
  else if (bits w 29 27 =? 7) && bitb w 26 then               (* xx 111 1 : load/store register, SIMD&FP *)
    let size := bits w 31 30 in let opc := bits w 23 22 in
    (* opc<1> = 1 : the 128-bit forms, size must be 00; otherwise scale = size *)
    if (2 <=? opc) && negb (size =? 0) then None
    else
      let scale := if 2 <=? opc then 4 else size in
      let load := bitb w 22 in
      if bits w 25 24 =? 1 then Some (IVLdStImm scale load WOffset true (bits w 21 10) rn rd)
      else if bits w 25 24 =? 0 then
        if negb (bitb w 21) then
          let k := bits w 11 10 in
          if k =? 0 then Some (IVLdStImm scale load WOffset false (bits w 20 12) rn rd)
          else if k =? 1 then Some (IVLdStImm scale load WPost false (bits w 20 12) rn rd)
          else if k =? 3 then Some (IVLdStImm scale load WPre false (bits w 20 12) rn rd)
          else None
        else
          if (bits w 11 10 =? 2) && bitb w 14
          then Some (IVLdStReg scale load rm (bits w 15 13) (bitb w 12) rn rd)
          else None
      else None
  else None.

Definition decode_int (w : Z) : option instr :=
  let sf := bitb w 31 in
  let rd := bits w 4 0 in let rn := bits w 9 5 in let rm := bits w 20 16 in
  if bits w 28 23 =? 34 then                                  (* 100010 : add/sub (immediate) *)
    Some (IAddSubImm sf (bitb w 30) (bitb w 29) (bitb w 22) (bits w 21 10) rn rd)
  else if bits w 28 24 =? 11 then                             (* 01011 : add/sub shifted / extended register *)
    if negb (bitb w 21) then
      let sh := bits w 23 22 in let imm6 := bits w 15 10 in
      if (sh =? 3) || (negb sf && (32 <=? imm6)) then None    (* UNDEFINED *)
      else Some (IAddSubShift sf (bitb w 30) (bitb w 29) (decode_shift sh) rm imm6 rn rd)
    else
      if negb (bits w 23 22 =? 0) || (4 <? bits w 12 10) then None
      else Some (IAddSubExt sf (bitb w 30) (bitb w 29) (decode_ext (bits w 15 13)) rm (bits w 12 10) rn rd)
  else if (bits w 28 24 =? 10) && (bits w 30 29 =? 1) && negb (bitb w 21) then   (* 01010, opc=01, N=0 : ORR (shifted register) *)
    let imm6 := bits w 15 10 in
    if negb sf && (32 <=? imm6) then None
    else Some (IOrrShift sf (decode_shift (bits w 23 22)) rm imm6 rn rd)
  else if (bits w 28 23 =? 36) && (bits w 30 29 =? 1) then    (* 100100, opc = 01 : ORR (immediate) *)
    if bitmask_valid sf (bits w 22 22) (bits w 15 10) then Some (IOrrImm sf (bits w 22 22) (bits w 21 16) (bits w 15 10) rn rd)
    else None
  else if w =? 3573751839 then Some INop                      (* d503201f : NOP *)
  else if bits w 28 23 =? 37 then                             (* 100101 : move wide (immediate) *)
    let opc := bits w 30 29 in let hw := bits w 22 21 in
    if (opc =? 1) || (negb sf && (2 <=? hw)) then None
    else Some (IMovWide sf opc hw (bits w 20 5) rd)
  else if bits w 30 26 =? 5 then                              (* x00101 : B / BL *)
    Some (IBImm (bitb w 31) (bits w 25 0))
  else if (bits w 31 24 =? 84) && negb (bitb w 4) then        (* 01010100 .... 0 cond : B.cond *)
    Some (IBCond (bits w 3 0) (bits w 23 5))
  else if bits w 30 25 =? 26 then                             (* x011010 : CBZ / CBNZ *)
    Some (ICB sf (bitb w 24) (bits w 23 5) rd)
  else if bits w 30 25 =? 27 then                             (* x011011 : TBZ / TBNZ *)
    Some (ITB sf (bitb w 24) (bits w 23 19) (bits w 18 5) rd)
  else if (bits w 31 25 =? 107) && (bits w 24 21 <? 3) && (bits w 20 16 =? 31)
          && (bits w 15 10 =? 0) && (bits w 4 0 =? 0) then    (* 1101011 0 0xx 11111 000000 Rn 00000 : BR / BLR / RET *)
    Some (IBReg (bits w 24 21) rn)
  else if (bits w 29 27 =? 5) && negb (bitb w 26) then        (* x0 101 0 : load/store pair, V = 0 *)
    let opc := bits w 31 30 in let mode := bits w 25 23 in let load := bitb w 22 in
    if (opc =? 3) || ((opc =? 1) && negb load) then None      (* UNDEFINED / STGP *)
    else if mode =? 0 then (if opc =? 1 then None else Some (ILdStPair opc PNoAlloc load (bits w 21 15) (bits w 14 10) rn rd))
    else if mode =? 1 then Some (ILdStPair opc PPost load (bits w 21 15) (bits w 14 10) rn rd)
    else if mode =? 2 then Some (ILdStPair opc POffset load (bits w 21 15) (bits w 14 10) rn rd)
    else if mode =? 3 then Some (ILdStPair opc PPre load (bits w 21 15) (bits w 14 10) rn rd)
    else None
  else if (bits w 29 27 =? 7) && negb (bitb w 26) then        (* xx 111 0 : load/store register, V = 0 *)
    let size := bits w 31 30 in let opc := bits w 23 22 in
    if (size =? 3) && (opc =? 2) then                         (* PRFM (immediate | register), PRFUM *)
      if bits w 25 24 =? 1 then Some INop
      else if (bits w 25 24 =? 0) && negb (bitb w 21) && (bits w 11 10 =? 0) then Some INop
      else if (bits w 25 24 =? 0) && bitb w 21 && (bits w 11 10 =? 2) && bitb w 14 then Some INop
      else None
    else if negb (decode_ldst_opc_ok size opc) then None
    else if bits w 25 24 =? 1 then Some (ILdStImm size opc WOffset true (bits w 21 10) rn rd)
    else if bits w 25 24 =? 0 then
      if negb (bitb w 21) then
        let k := bits w 11 10 in
        if k =? 0 then Some (ILdStImm size opc WOffset false (bits w 20 12) rn rd)
        else if k =? 1 then Some (ILdStImm size opc WPost false (bits w 20 12) rn rd)
        else if k =? 3 then Some (ILdStImm size opc WPre false (bits w 20 12) rn rd)
        else None                                             (* unprivileged: not accepted by the lifter *)
      else
        if (bits w 11 10 =? 2) && bitb w 14                   (* option<1> = 0 is UNDEFINED *)
        then Some (ILdStReg size opc rm (bits w 15 13) (bitb w 12) rn rd)
        else None
    else None
  else if (bits w 29 27 =? 3) && negb (bitb w 26) && (bits w 25 24 =? 0) then  (* xx 011 0 00 : load register (literal) *)
    if bits w 31 30 =? 3 then Some INop                       (* PRFM (literal) *)
    else Some (ILdLit (bits w 31 30) (bits w 23 5) rd)
  else if (bits w 29 24 =? 8) && bitb w 23 && negb (bitb w 21) then   (* xx 001000 1 L 0 (Rs) o0 (Rt2) : LDAR/STLR/LDLAR/STLLR *)
    if (bits w 20 16 =? 31) && (bits w 14 10 =? 31)
    then Some (ILdStOrd (bits w 31 30) (bitb w 22) (bitb w 15) rn rd)
    else Some (ILdStOrdU (bits w 31 30) (bitb w 22) (bitb w 15) rn rd)
  else if (bits w 29 24 =? 25) && (bits w 23 21 =? 0) && (bits w 11 10 =? 0) then   (* xx 011001 00 0 imm9 00 : STLUR(B/H): as STUR *)
    Some (ILdStImm (bits w 31 30) 0 WOffset false (bits w 20 12) rn rd)
  else None.

Definition decode (w : Z) : option instr :=
  match decode_simd w with Some i => Some i | None => decode_int w end.

(* ------------------------------------------------------------------ machine state *)
Record a64state := mkA {
  xr : Z -> Z;            (* X0..X30 *)
  vr : Z -> Z;            (* V0..V31, 128-bit SIMD&FP registers *)
  asp : Z;                (* SP *)
  fN : bool; fZ : bool; fC : bool; fV : bool;
  amem : Z -> Z;          (* byte memory *)
  apc : Z;
  abig : bool }.          (* data endianness: true = big-endian *)

Inductive a64res := Done (s : a64state) | Undef.

(* X[n] (J1 aarch64/functions/registers/X): register 31 reads as zero *)
Definition X (s : a64state) (n : Z) : Z := if n =? 31 then 0 else xr s n.
Definition Xw (s : a64state) (n : Z) (N : Z) : Z := X s n mod 2 ^ N.           (* X[n, N] *)
Definition SPorX (s : a64state) (n : Z) : Z := if n =? 31 then asp s else xr s n.
Definition upd (f : Z -> Z) (k v : Z) : Z -> Z := fun i => if i =? k then v else f i.
(* X[d] = v : a write to register 31 is discarded; a 32-bit write zero-extends (v already < 2^32) *)
Definition setX (s : a64state) (d v : Z) : a64state :=
  if d =? 31 then s else mkA (upd (xr s) d v) (vr s) (asp s) (fN s) (fZ s) (fC s) (fV s) (amem s) (apc s) (abig s).
Definition setSP (s : a64state) (v : Z) : a64state :=
  mkA (xr s) (vr s) v (fN s) (fZ s) (fC s) (fV s) (amem s) (apc s) (abig s).
Definition setSPorX (s : a64state) (d v : Z) : a64state := if d =? 31 then setSP s v else setX s d v.
Definition setNZCV (s : a64state) (n z c v : bool) : a64state :=
  mkA (xr s) (vr s) (asp s) n z c v (amem s) (apc s) (abig s).
Definition setMem (s : a64state) (m : Z -> Z) : a64state :=
  mkA (xr s) (vr s) (asp s) (fN s) (fZ s) (fC s) (fV s) m (apc s) (abig s).
Definition setPC (s : a64state) (a : Z) : a64state :=
  mkA (xr s) (vr s) (asp s) (fN s) (fZ s) (fC s) (fV s) (amem s) (a mod 2 ^ 64) (abig s).
(* V[t] = v : the whole 128-bit register (a narrower scalar write has already been zero-extended) *)
Definition setV (s : a64state) (t v : Z) : a64state :=
  mkA (xr s) (upd (vr s) t v) (asp s) (fN s) (fZ s) (fC s) (fV s) (amem s) (apc s) (abig s).
Definition nextPC (s : a64state) : a64state := setPC s (apc s + 4).

(* ------------------------------------------------------------------ shared pseudocode *)
(* AddWithCarry (J1 shared/functions/integer/AddWithCarry):
     unsigned_sum = UInt(x) + UInt(y) + UInt(carry_in);  signed_sum = SInt(x) + SInt(y) + UInt(carry_in);
     result = unsigned_sum<N-1:0>;  n = result<N-1>;  z = IsZero(result);
     c = if UInt(result) == unsigned_sum then '0' else '1';  v = if SInt(result) == signed_sum then '0' else '1' *)
Definition AddWithCarry (N x y cin : Z) : Z * (bool * bool * bool * bool) :=
  let usum := x + y + cin in
  let ssum := S N x + S N y + cin in
  let r := usum mod 2 ^ N in
  (r, (2 ^ (N - 1) <=? r, r =? 0, negb (r =? usum), negb (S N r =? ssum))).

Definition NOT (N x : Z) : Z := 2 ^ N - 1 - x.

(* ShiftReg (J1 aarch64/functions/shiftreg): LSL / LSR / ASR / ROR of an N-bit value, 0 <= amount < N *)
Definition shift_val (N : Z) (k : shiftk) (x amount : Z) : Z :=
  match k with
  | SLSL => (x * 2 ^ amount) mod 2 ^ N
  | SLSR => x / 2 ^ amount
  | SASR => (S N x / 2 ^ amount) mod 2 ^ N
  | SROR => (x / 2 ^ amount + x * 2 ^ (N - amount)) mod 2 ^ N
  end.

(* ExtendReg (J1 aarch64/functions/extendreg):
     val = X[reg, N]; (unsigned, len) from the extend type; len = Min(len, N - shift);
     return Extend(val<len-1:0> : Zeros(shift), N, unsigned) *)
Definition ext_unsigned (k : extk) : bool :=
  match k with XUXTB | XUXTH | XUXTW | XUXTX => true | _ => false end.
Definition ext_len (k : extk) : Z :=
  match k with XUXTB | XSXTB => 8 | XUXTH | XSXTH => 16 | XUXTW | XSXTW => 32 | XUXTX | XSXTX => 64 end.
Definition ExtendReg (s : a64state) (N m : Z) (k : extk) (shift : Z) : Z :=
  let val := Xw s m N in
  let len := Z.min (ext_len k) (N - shift) in
  let low := val mod 2 ^ len in
  let e := if ext_unsigned k then low else S len low in
  (e * 2 ^ shift) mod 2 ^ N.

(* ConditionHolds (J1 shared/functions/system/ConditionHolds) *)
Definition ConditionHolds (s : a64state) (cond : Z) : bool :=
  let c31 := cond / 2 in
  let r := if c31 =? 0 then fZ s
           else if c31 =? 1 then fC s
           else if c31 =? 2 then fN s
           else if c31 =? 3 then fV s
           else if c31 =? 4 then fC s && negb (fZ s)
           else if c31 =? 5 then Bool.eqb (fN s) (fV s)
           else if c31 =? 6 then Bool.eqb (fN s) (fV s) && negb (fZ s)
           else true in
  if (cond mod 2 =? 1) && negb (cond =? 15) then negb r else r.

(* Mem[address, size] (J1 aarch64/functions/memory/Mem): [n] bytes, little-endian value of the byte
   string, byte-reversed when the data endianness is big.  None: the range leaves the address space. *)
Fixpoint rd_le (m : Z -> Z) (a : Z) (n : nat) : Z :=
  match n with O => 0 | Datatypes.S n => m a + 256 * rd_le m (a + 1) n end.
Fixpoint rd_be (m : Z -> Z) (a : Z) (n : nat) (acc : Z) : Z :=
  match n with O => acc | Datatypes.S n => rd_be m (a + 1) n (acc * 256 + m a) end.
Definition mem_rd (s : a64state) (a : Z) (n : nat) : option Z :=
  if 2 ^ 64 <? a + Z.of_nat n then None
  else Some (if abig s then rd_be (amem s) a n 0 else rd_le (amem s) a n).
Fixpoint wr_le (m : Z -> Z) (a : Z) (n : nat) (v : Z) : Z -> Z :=
  match n with O => m | Datatypes.S n => wr_le (upd m a (v mod 256)) (a + 1) n (v / 256) end.
Fixpoint wr_be (m : Z -> Z) (a : Z) (n : nat) (v : Z) : Z -> Z :=
  match n with O => m | Datatypes.S n => upd (wr_be m a n (v / 256)) (a + Z.of_nat n) (v mod 256) end.
Definition mem_wr (s : a64state) (a : Z) (n : nat) (v : Z) : option a64state :=
  if 2 ^ 64 <? a + Z.of_nat n then None
  else Some (setMem s (if abig s then wr_be (amem s) a n v else wr_le (amem s) a n v)).

Definition sext_imm (bitsn v : Z) : Z := S bitsn v.            (* SignExtend(imm, 64) as an integer *)
Definition wrap64 (a : Z) : Z := a mod 2 ^ 64.

(* ------------------------------------------------------------------ per-class execution *)
Definition dsize (sf : bool) : Z := if sf then 64 else 32.

(* the common tail of the add/sub pages:
     if sub_op then operand2 = NOT(operand2); carry_in = '1' else carry_in = '0';
     (result, nzcv) = AddWithCarry(operand1, operand2, carry_in); if setflags then PSTATE.<N,Z,C,V> = nzcv *)
Definition addsub (N : Z) (sub : bool) (op1 op2 : Z) : Z * (bool * bool * bool * bool) :=
  if sub then AddWithCarry N op1 (NOT N op2) 1 else AddWithCarry N op1 op2 0.

Definition finish_addsub (s : a64state) (setflags sp_dest : bool) (d : Z)
           (r : Z * (bool * bool * bool * bool)) : a64res :=
  let '(res, (n, z, c, v)) := r in
  let s1 := if setflags then setNZCV s n z c v else s in
  (* if d == 31 && !setflags then SP[] = ZeroExtend(result, 64) else X[d] = result  (when the page allows SP) *)
  let s2 := if sp_dest && negb setflags then setSPorX s1 d res else setX s1 d res in
  Done (nextPC s2).

Definition ldst_regsize_signed (size opc : Z) : Z * bool * bool :=
  (* (regsize, signed, is_load) *)
  if opc <? 2 then (if size =? 3 then 64 else 32, false, opc =? 1)
  else (if opc =? 3 then 32 else 64, true, true).

(* one single-register load/store at [address] of 2^size bytes *)
Definition ldst_access (s : a64state) (size opc t address : Z) : option a64state :=
  let nbytes := Z.to_nat (2 ^ size) in
  let '(regsize, signed, isload) := ldst_regsize_signed size opc in
  if isload then
    match mem_rd s address nbytes with
    | None => None
    | Some data => Some (setX s t (if signed then U regsize (S (8 * 2 ^ size) data) else data))
    end
  else mem_wr s address nbytes (X s t mod 2 ^ (8 * 2 ^ size)).

(* Elem[v, index, esize] and its assignment, on a 128-bit register value *)
Definition elem (v idx es : Z) : Z := (v / 2 ^ (idx * es)) mod 2 ^ es.
Definition set_elem (v idx es x : Z) : Z := v - elem v idx es * 2 ^ (idx * es) + x * 2 ^ (idx * es).

(* one SIMD&FP register transfer of 2^scale bytes: a load writes the zero-extended datum to the whole V register *)
Definition v_access (s : a64state) (scale : Z) (load : bool) (t address : Z) : option a64state :=
  let nbytes := Z.to_nat (2 ^ scale) in
  if load then
    match mem_rd s address nbytes with
    | None => None
    | Some data => Some (setV s t data)
    end
  else mem_wr s address nbytes (vr s t mod 2 ^ (8 * 2 ^ scale)).

Definition a64step (i : instr) (s : a64state) : a64res :=
  match i with
  | IAddSubImm sf sub setflags sh imm12 rn rd =>
      let N := dsize sf in
      let imm := if sh then imm12 * 4096 else imm12 in
      let op1 := SPorX s rn mod 2 ^ N in
      finish_addsub s setflags true rd (addsub N sub op1 imm)
  | IAddSubShift sf sub setflags sh rm imm6 rn rd =>
      let N := dsize sf in
      let op1 := Xw s rn N in
      let op2 := shift_val N sh (Xw s rm N) imm6 in
      finish_addsub s setflags false rd (addsub N sub op1 op2)
  | IAddSubExt sf sub setflags ext rm imm3 rn rd =>
      let N := dsize sf in
      let op1 := SPorX s rn mod 2 ^ N in
      let op2 := ExtendReg s N rm ext imm3 in
      finish_addsub s setflags true rd (addsub N sub op1 op2)
  | IOrrShift sf sh rm imm6 rn rd =>
      let N := dsize sf in
      Done (nextPC (setX s rd (Z.lor (Xw s rn N) (shift_val N sh (Xw s rm N) imm6))))
  | IMovWide sf opc hw imm16 rd =>
      let N := dsize sf in
      let pos := hw * 16 in
      let res :=
        if opc =? 3 then                                    (* MOVK: result = X[d]; result<pos+15:pos> = imm *)
          let old := Xw s rd N in
          old - ((old / 2 ^ pos) mod 65536) * 2 ^ pos + imm16 * 2 ^ pos
        else if opc =? 0 then NOT N (imm16 * 2 ^ pos)       (* MOVN *)
        else imm16 * 2 ^ pos in                             (* MOVZ *)
      Done (nextPC (setX s rd res))
  | ILdStImm size opc mode scaled imm rn rt =>
      let '(_, _, isload) := ldst_regsize_signed size opc in
      let wback := match mode with WOffset => false | _ => true end in
      let postindex := match mode with WPost => true | _ => false end in
      (* CONSTRAINED UNPREDICTABLE: write-back with the transfer register as base (n == t && n != 31) *)
      if wback && (rn =? rt) && negb (rn =? 31) then Undef
      else
        let offset := if scaled then imm * 2 ^ size else sext_imm 9 imm in
        let base := SPorX s rn in
        let address := if postindex then base else wrap64 (base + offset) in
        match ldst_access s size opc rt address with
        | None => Undef
        | Some s1 =>
            let s2 := if wback then setSPorX s1 rn (wrap64 (base + offset)) else s1 in
            Done (nextPC s2)
        end
  | ILdStReg size opc rm option sbit rn rt =>
      let shift := if sbit then size else 0 in
      let offset := ExtendReg s 64 rm (decode_ext option) shift in
      let address := wrap64 (SPorX s rn + offset) in
      match ldst_access s size opc rt address with
      | None => Undef
      | Some s1 => Done (nextPC s1)
      end
  | ILdLit opc imm19 rt =>
      let address := wrap64 (apc s + sext_imm 21 (imm19 * 4)) in
      let nbytes := if opc =? 1 then 8%nat else 4%nat in
      match mem_rd s address nbytes with
      | None => Undef
      | Some data => Done (nextPC (setX s rt (if opc =? 2 then U 64 (S 32 data) else data)))
      end
  | ILdStPair opc mode load imm7 rt2 rn rt =>
      let wback := match mode with PPost | PPre => true | _ => false end in
      let postindex := match mode with PPost => true | _ => false end in
      let signed := opc =? 1 in
      let scale := 2 + opc / 2 in
      let dbytes := 2 ^ scale in
      let offset := sext_imm 7 imm7 * dbytes in
      if wback && ((rt =? rn) || (rt2 =? rn)) && negb (rn =? 31) then Undef      (* CONSTRAINED UNPREDICTABLE *)
      else if load && (rt =? rt2) then Undef                                       (* CONSTRAINED UNPREDICTABLE *)
      else
        let base := SPorX s rn in
        let address := if postindex then base else wrap64 (base + offset) in
        let address2 := address + dbytes in
        let n := Z.to_nat dbytes in
        if 2 ^ 64 <? address2 + dbytes then Undef
        else
          let r :=
            if load then
              match mem_rd s address n, mem_rd s address2 n with
              | Some d1, Some d2 =>
                  let e := fun d => if signed then U 64 (S 32 d) else d in
                  Some (setX (setX s rt (e d1)) rt2 (e d2))
              | _, _ => None
              end
            else
              match mem_wr s address n (X s rt mod 2 ^ (8 * dbytes)) with
              | Some s1 => mem_wr s1 address2 n (X s rt2 mod 2 ^ (8 * dbytes))
              | None => None
              end in
          match r with
          | None => Undef
          | Some s1 =>
              let s2 := if wback then setSPorX s1 rn (wrap64 (base + offset)) else s1 in
              Done (nextPC s2)
          end
  | ILdStOrd size load o0 rn rt =>
      match ldst_access s size (if load then 1 else 0) rt (SPorX s rn) with
      | None => Undef
      | Some s1 => Done (nextPC s1)
      end
  | IVLdStImm scale load mode scaled imm rn rt =>
      let wback := match mode with WOffset => false | _ => true end in
      let postindex := match mode with WPost => true | _ => false end in
      let offset := if scaled then imm * 2 ^ scale else sext_imm 9 imm in
      let base := SPorX s rn in
      let address := if postindex then base else wrap64 (base + offset) in
      match v_access s scale load rt address with
      | None => Undef
      | Some s1 => Done (nextPC (if wback then setSPorX s1 rn (wrap64 (base + offset)) else s1))
      end
  | IVLdStReg scale load rm option sbit rn rt =>
      let offset := ExtendReg s 64 rm (decode_ext option) (if sbit then scale else 0) in
      match v_access s scale load rt (wrap64 (SPorX s rn + offset)) with
      | None => Undef
      | Some s1 => Done (nextPC s1)
      end
  | IVLdStPair opc mode load imm7 rt2 rn rt =>
      let wback := match mode with PPost | PPre => true | _ => false end in
      let postindex := match mode with PPost => true | _ => false end in
      let scale := 2 + opc in
      let dbytes := 2 ^ scale in
      let offset := sext_imm 7 imm7 * dbytes in
      if load && (rt =? rt2) then Undef                                        (* CONSTRAINED UNPREDICTABLE *)
      else
        let base := SPorX s rn in
        let address := if postindex then base else wrap64 (base + offset) in
        match v_access s scale load rt address with
        | None => Undef
        | Some s1 =>
            match v_access s1 scale load rt2 (address + dbytes) with
            | None => Undef
            | Some s2 => Done (nextPC (if wback then setSPorX s2 rn (wrap64 (base + offset)) else s2))
            end
        end
  | IVIns size dst src rn rd =>
      let es := 8 * 2 ^ size in
      Done (nextPC (setV s rd (set_elem (vr s rd) dst es (elem (vr s rn) src es))))
  | IVInsG size idx rn rd =>
      let es := 8 * 2 ^ size in
      Done (nextPC (setV s rd (set_elem (vr s rd) idx es (X s rn mod 2 ^ es))))
  | IVUmov size idx rn rd =>
      Done (nextPC (setX s rd (elem (vr s rn) idx (8 * 2 ^ size))))
  | IVDupS size idx rn rd =>
      Done (nextPC (setV s rd (elem (vr s rn) idx (8 * 2 ^ size))))
  | IVMovV q rn rd =>
      Done (nextPC (setV s rd (vr s rn mod 2 ^ (if q then 128 else 64))))
  | IVAddSubD sub rm rn rd =>
      let a := vr s rn mod 2 ^ 64 in let b := vr s rm mod 2 ^ 64 in
      Done (nextPC (setV s rd ((if sub then a - b else a + b) mod 2 ^ 64)))
  | ILdStOrdU _ _ _ _ _ => Undef
  | IOrrImm sf n immr imms rn rd =>
      (* result = operand1 OR imm; if d == 31 then SP[] = result else X[d] = result *)
      let N := dsize sf in
      Done (nextPC (setSPorX s rd (Z.lor (Xw s rn N) (decode_bit_mask N n immr imms))))
  | INop => Done (nextPC s)
  | IBImm link imm26 =>
      (* if branch_type == BranchType_DIRCALL then X[30] = PC[] + 4;  BranchTo(PC[] + offset) *)
      let s1 := if link then setX s 30 (wrap64 (apc s + 4)) else s in
      Done (setPC s1 (apc s + sext_imm 28 (imm26 * 4)))
  | IBReg opc rn =>
      (* target = X[n]; if BLR then X[30] = PC[] + 4;  BranchTo(target) *)
      let target := X s rn in
      let s1 := if opc =? 1 then setX s 30 (wrap64 (apc s + 4)) else s in
      Done (setPC s1 target)
  | IBCond cond imm19 =>
      if ConditionHolds s cond then Done (setPC s (apc s + sext_imm 21 (imm19 * 4))) else Done (nextPC s)
  | ICB sf nz imm19 rt =>
      let operand := Xw s rt (dsize sf) in
      (* if IsZero(operand1) == iszero then BranchTo(PC[] + offset)   [iszero = (op == '0')] *)
      if Bool.eqb (operand =? 0) (negb nz) then Done (setPC s (apc s + sext_imm 21 (imm19 * 4)))
      else Done (nextPC s)
  | ITB b5 nz b40 imm14 rt =>
      let bit_pos := (if b5 then 32 else 0) + b40 in
      let operand := Xw s rt (dsize b5) in
      (* if operand<bit_pos> == op then BranchTo(PC[] + offset) *)
      if Bool.eqb (Z.testbit operand bit_pos) nz then Done (setPC s (apc s + sext_imm 16 (imm14 * 4)))
      else Done (nextPC s)
  end.

(* ------------------------------------------------------------------ memory footprint (for the oracle)
   the byte addresses an instruction reads or writes in state [s] (empty when the outcome is Undef) *)
Fixpoint addr_range (a : Z) (n : nat) : list Z :=
  match n with O => [] | Datatypes.S n => a :: addr_range (a + 1) n end.
Definition footprint (i : instr) (s : a64state) : list Z :=
  match i with
  | ILdStImm size _ mode scaled imm rn _ =>
      let offset := if scaled then imm * 2 ^ size else sext_imm 9 imm in
      let address := match mode with WPost => SPorX s rn | _ => wrap64 (SPorX s rn + offset) end in
      addr_range address (Z.to_nat (2 ^ size))
  | ILdStReg size _ rm option sbit rn _ =>
      addr_range (wrap64 (SPorX s rn + ExtendReg s 64 rm (decode_ext option) (if sbit then size else 0))) (Z.to_nat (2 ^ size))
  | ILdLit opc imm19 _ =>
      addr_range (wrap64 (apc s + sext_imm 21 (imm19 * 4))) (if opc =? 1 then 8%nat else 4%nat)
  | ILdStPair opc mode _ imm7 _ rn _ =>
      let dbytes := 2 ^ (2 + opc / 2) in
      let offset := sext_imm 7 imm7 * dbytes in
      let address := match mode with PPost => SPorX s rn | _ => wrap64 (SPorX s rn + offset) end in
      addr_range address (Z.to_nat (2 * dbytes))
  | ILdStOrd size _ _ rn _ => addr_range (SPorX s rn) (Z.to_nat (2 ^ size))
  | IVLdStImm scale _ mode scaled imm rn _ =>
      let offset := if scaled then imm * 2 ^ scale else sext_imm 9 imm in
      let address := match mode with WPost => SPorX s rn | _ => wrap64 (SPorX s rn + offset) end in
      addr_range address (Z.to_nat (2 ^ scale))
  | IVLdStReg scale _ rm option sbit rn _ =>
      addr_range (wrap64 (SPorX s rn + ExtendReg s 64 rm (decode_ext option) (if sbit then scale else 0))) (Z.to_nat (2 ^ scale))
  | IVLdStPair opc mode _ imm7 _ rn _ =>
      let dbytes := 2 ^ (2 + opc) in
      let offset := sext_imm 7 imm7 * dbytes in
      let address := match mode with PPost => SPorX s rn | _ => wrap64 (SPorX s rn + offset) end in
      addr_range address (Z.to_nat (2 * dbytes))
  | _ => []
  end.
