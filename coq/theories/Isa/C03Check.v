(* Isa/C03Check.v -- the per-case checker evaluated in the kernel by the C03 case files.
   A case = one instruction word at one address, what the REAL lifter returned for it
   (translate_block on the four bytes: instruction graph + successors, or error / panic), and
   sampled machine states.
     fst (tie)    = the mirror applied to the decoded word yields exactly the dumped IL (syntactic tie:
                    transfers the per-form theorems of Props/C03.v to this encoding, for all states),
                    and the dumped IL runs (Exec/Sem.v) without getting stuck from every sampled state
                    in which the architecture defines the outcome;
     snd (oracle) = from every sampled state in which the architecture defines the outcome, running
                    the dumped IL yields the X0..X30, SP, N Z C V, memory bytes and next pc of [a64step].
   Words the lifter rejects (error or panic) and words outside the modelled classes satisfy both
   vacuously (the property quantifies over accepted instructions of the listed classes). *)
From Coq Require Import ZArith List Bool NArith.
From Falcon Require Import Base.Res IL.Const IL.ConstSpec IL.Expr IL.Func IL.Loc Exec.Sem
     Isa.A64 Isa.A64Lift Isa.A64Run.
Import ListNotations.
Local Open Scope Z_scope.

Inductive lifted :=
| LOk (g : cfg) (succs : list (Z * option expr))     (* one instruction graph + block successors *)
| LErr | LPanic
| LOther.                                            (* Ok with an unexpected shape (several graphs) *)

(* a sampled state: explicit values for some registers (index 31 = SP), NZCV as a 4-bit number
   (N = bit 3 .. V = bit 0), and a salt from which every other register and every memory byte is derived *)
Record sample := mksample { s_ovr : list (Z * Z); s_nzcv : Z; s_salt : Z }.

(* [outside] : the harness enumerated this word on purpose as one the lifter accepts although it is outside the
   classes of Isa/A64.v (reported per run; target: none) *)
Inductive case := K (word addr : Z) (big : bool) (outside : bool) (obs : lifted) (samples : list sample).

Fixpoint assocZ (l : list (Z * Z)) (k : Z) : option Z :=
  match l with [] => None | (a, v) :: t => if a =? k then Some v else assocZ t k end.

(* Z.land / Z.shiftr instead of mod / div: Z division is bit-serial and dominates the evaluation otherwise *)
Definition default_reg (salt r : Z) : Z := Z.land ((salt + r + 1) * 11400714819323198485) 18446744073709551615.
Definition default_byte (salt a : Z) : Z := Z.land (a * 167 + Z.shiftr a 8 * 13 + salt) 255.

Definition mk_state (addr : Z) (big : bool) (sm : sample) : a64state :=
  let reg := fun r => match assocZ (s_ovr sm) r with Some v => Z.land v 18446744073709551615 | None => default_reg (s_salt sm) r end in
  mkA reg (fun n => Z.land ((s_salt sm + n + 77) * 272225893536750770770699646362995969) 340282366920938463463374607431768211455) (reg 31)
      (Z.testbit (s_nzcv sm) 3) (Z.testbit (s_nzcv sm) 2) (Z.testbit (s_nzcv sm) 1) (Z.testbit (s_nzcv sm) 0)
      (default_byte (s_salt sm)) addr big.

(* ------------------------------------------------------------------ syntactic equality of graphs *)
Definition op_eqb (a b : operation) : bool :=
  match a, b with
  | OAssign d s, OAssign d' s' => scalar_eqb d d' && expr_eqb s s'
  | OStore i s, OStore i' s' => expr_eqb i i' && expr_eqb s s'
  | OLoad d i, OLoad d' i' => scalar_eqb d d' && expr_eqb i i'
  | OBranch t, OBranch t' => expr_eqb t t'
  | ONop None, ONop None => true
  | _, _ => false
  end.
Fixpoint list_eqb {A} (eqb : A -> A -> bool) (a b : list A) : bool :=
  match a, b with
  | [], [] => true
  | x :: t, y :: u => eqb x y && list_eqb eqb t u
  | _, _ => false
  end.
Definition instr_eqb (a b : instruction) : bool :=
  (i_index a =? i_index b) && op_eqb (i_op a) (i_op b) && optZ_eqb (i_addr a) (i_addr b).
Definition block_eqb (a b : block) : bool :=
  (b_index a =? b_index b) && (b_next a =? b_next b) && list_eqb instr_eqb (b_instrs a) (b_instrs b)
  && match b_phis a, b_phis b with [], [] => true | _, _ => false end.
Definition cfg_eqb (a b : cfg) : bool :=
  list_eqb block_eqb (g_blocks a) (g_blocks b)
  && match g_edges a, g_edges b with [], [] => true | _, _ => false end
  && (g_next_index a =? g_next_index b) && optZ_eqb (g_entry a) (g_entry b) && optZ_eqb (g_exit a) (g_exit b).
Definition opt_expr_eqb (a b : option expr) : bool :=
  match a, b with Some x, Some y => expr_eqb x y | None, None => true | _, _ => false end.
Definition succs_eqb (a b : list (Z * option expr)) : bool :=
  list_eqb (fun x y => (fst x =? fst y) && opt_expr_eqb (snd x) (snd y)) a b.

(* mirror (decoded word) = dumped IL *)
Definition syntactic_tie (addr : Z) (i : instr) (g : cfg) (succs : list (Z * option expr)) : bool :=
  match lift addr i with
  | Ok (ops, ss) => cfg_eqb (graph_of addr ops) g && succs_eqb ss succs
  | _ => false
  end.

(* one sampled state: (the IL ran, the results agree) *)
Definition run_sample (i : instr) (addr : Z) (big : bool) (g : cfg) (succs : list (Z * option expr)) (sm : sample) : bool * bool :=
  let s := mk_state addr big sm in
  match a64step i s with
  | Undef => (true, true)
  | Done s' =>
      let fp := footprint i s in
      match run_lifted g succs (embed s fp) with
      | Ok (st', pc') => (true, agree s' st' fp && (pc' =? apc s'))
      | _ => (false, false)
      end
  end.

(* ACCEPTANCE clause: the specification's decoder + the mirror and the real lifter (bad64 + dispatch) must agree
   on which words are accepted: a word the lifter accepts that [decode] rejects (unless enumerated as [outside]),
   and a word [decode] + [lift] accept that the lifter rejects, both fail the check. *)
Definition ck (k : case) : bool * bool :=
  match k with
  | K word addr big outside obs samples =>
      match decode word, obs with
      | Some i, LOk g succs =>
          let rs := map (run_sample i addr big g succs) samples in
          (syntactic_tie addr i g succs && forallb fst rs, forallb snd rs)
      | Some i, LErr | Some i, LPanic =>
          let rejected := match lift addr i with Ok _ => false | _ => true end in (true, rejected)
      | None, LOk _ _ => (true, outside)
      | _, LOther => (false, false)
      | None, _ => (true, true)
      end
  end.

(* ------------------------------------------------------------------ diagnostics (not used by ck) *)
Definition explain (k : case) :=
  match k with
  | K word addr big _ obs samples =>
      match decode word, obs with
      | Some i, LOk g succs =>
          Some (i, lift addr i, syntactic_tie addr i g succs, map (run_sample i addr big g succs) samples)
      | _, _ => None
      end
  end.
(* is the case one the property speaks about (decoded, accepted) and with at least one defined sample *)
Definition covered (k : case) : bool :=
  match k with
  | K word addr big _ obs samples =>
      match decode word, obs with
      | Some i, LOk _ _ => existsb (fun sm => match a64step i (mk_state addr big sm) with Done _ => true | Undef => false end) samples
      | _, _ => false
      end
  end.
