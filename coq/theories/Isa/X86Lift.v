(* Isa/X86Lift.v -- Gallina mirror of the shared helper layer of the x86 lifter:
     lib/translator/x86/x86register.rs   X86Register::get / X86Register::set   (all sub-register kinds)
     lib/translator/x86/semantics.rs     set_zf / set_sf / set_of / set_cf
   built through the checked constructors of IL/Expr.v (a sort error in the Rust builder is a sort error
   here).  The register layer follows the code AFTER the `fix:` commit that inverts the high-byte mask; the
   defective original is kept as [reg_set_prefix] for the refutation lemma. *)
From Coq Require Import ZArith List Bool NArith.
From Falcon Require Import Base.Res IL.Const IL.Expr IL.Func.
Import ListNotations.
Local Open Scope Z_scope.

(* an entry of X86REGISTERS / AMD64REGISTERS: the scalar of the full register, and the slice *)
Record xreg := mkreg {
  xr_full : N;        (* interned name of the full register's scalar *)
  xr_fbits : Z;       (* its width: 32 (x86) or 64 (amd64) *)
  xr_offset : Z;      (* 0, or 8 for ah/bh/ch/dh *)
  xr_bits : Z;        (* 8 / 16 / 32 / 64 *)
  xr_is_full : bool }.

Definition full_scalar (r : xreg) : scalar := mks (xr_full r) (xr_fbits r) None.

(* X86Register::get *)
Definition reg_get (r : xreg) : res expr :=
  if xr_is_full r then Ok (EScalar (full_scalar r))
  else if xr_offset r =? 0 then mk_ext Trun (xr_bits r) (EScalar (full_scalar r))
  else e <- mk_bin Shr (EScalar (full_scalar r)) (expr_const (xr_offset r) (xr_fbits r)) ;;
       mk_ext Trun (xr_bits r) e.

Definition U64MAX : Z := 18446744073709551615.
(* `!0 << bits` and `!(((1 << bits) - 1) << offset)` on u64 *)
Definition mask_low (bits : Z) : Z := Z.land (U64MAX * 2 ^ bits) U64MAX.
Definition mask_field (bits offset : Z) : Z := Z.lxor U64MAX ((2 ^ bits - 1) * 2 ^ offset).

(* X86Register::set: the operations appended to the block (block.assign never fails) *)
Definition reg_set (r : xreg) (value : expr) : res (list operation) :=
  let full := EScalar (full_scalar r) in
  if xr_is_full r then Ok [OAssign (full_scalar r) value]
  else if xr_offset r =? 0 then
    if xr_bits r <? 32 then
      a <- mk_bin And full (expr_const (mask_low (xr_bits r)) (xr_fbits r)) ;;
      z <- mk_ext Zext (xr_fbits r) value ;;
      e <- mk_bin Or a z ;;
      Ok [OAssign (full_scalar r) e]
    else
      z <- mk_ext Zext (xr_fbits r) value ;; Ok [OAssign (full_scalar r) z]
  else
    a <- mk_bin And full (expr_const (mask_field (xr_bits r) (xr_offset r)) (xr_fbits r)) ;;
    z <- mk_ext Zext (xr_fbits r) value ;;
    s <- mk_bin Shl z (expr_const (xr_offset r) (xr_fbits r)) ;;
    e <- mk_bin Or a s ;;
    Ok [OAssign (full_scalar r) e].

(* the code before the fix: the field mask was not inverted *)
Definition reg_set_prefix (r : xreg) (value : expr) : res (list operation) :=
  let full := EScalar (full_scalar r) in
  if xr_is_full r || (xr_offset r =? 0) then reg_set r value
  else
    a <- mk_bin And full (expr_const ((2 ^ xr_bits r - 1) * 2 ^ xr_offset r) (xr_fbits r)) ;;
    z <- mk_ext Zext (xr_fbits r) value ;;
    s <- mk_bin Shl z (expr_const (xr_offset r) (xr_fbits r)) ;;
    e <- mk_bin Or a s ;;
    Ok [OAssign (full_scalar r) e].

(* the shapes that occur in the two register tables *)
Definition reg_shape_ok (r : xreg) : bool :=
  ((xr_fbits r =? 32) || (xr_fbits r =? 64)) &&
  (if xr_is_full r then (xr_offset r =? 0) && (xr_bits r =? xr_fbits r)
   else ((xr_offset r =? 0) && ((xr_bits r =? 8) || (xr_bits r =? 16) || ((xr_bits r =? 32) && (xr_fbits r =? 64))))
        || ((xr_offset r =? 8) && (xr_bits r =? 8))).

(* ---- flag helpers of semantics.rs ---- *)
Definition n_ZF : N := 34%N. Definition n_SF : N := 35%N. Definition n_OF : N := 36%N. Definition n_CF : N := 32%N.
Definition flag_scalar (n : N) : scalar := mks n 1 None.

Definition set_zf (result : expr) : res operation :=
  e <- mk_bin Cmpeq result (expr_const 0 (e_bits result)) ;; Ok (OAssign (flag_scalar n_ZF) e).
Definition set_sf (result : expr) : res operation :=
  e <- mk_bin Shr result (expr_const (e_bits result - 1) (e_bits result)) ;;
  t <- mk_ext Trun 1 e ;; Ok (OAssign (flag_scalar n_SF) t).
Definition set_of (result lhs rhs : expr) (subtract : bool) : res operation :=
  e0 <- mk_bin Xor lhs rhs ;;
  e0 <- (if subtract then Ok e0 else mk_bin Xor e0 (expr_const U64MAX (e_bits lhs))) ;;
  e1 <- mk_bin Xor lhs result ;;
  e <- mk_bin And e0 e1 ;;
  s <- mk_bin Shr e (expr_const (e_bits e - 1) (e_bits e)) ;;
  t <- mk_ext Trun 1 s ;; Ok (OAssign (flag_scalar n_OF) t).
Definition set_cf (result lhs : expr) : res operation :=
  e <- mk_bin Cmpltu lhs result ;; Ok (OAssign (flag_scalar n_CF) e).
