(* Isa/A64Pair.v -- the three immediate addressing modes with their write-back side effect
   (signed offset, pre-index, post-index) and per-form correctness of STP / STNP (32- and 64-bit).  [U] *)
From Coq Require Import ZArith List Bool NArith Lia ZifyBool.
From Falcon Require Import Base.Res IL.Const IL.ConstSpec IL.Expr IL.ExprSpec IL.Func IL.Loc Exec.Sem
     IL.ConstProofs IL.ExprProofs Isa.A64 Isa.A64Lift Isa.A64Run Isa.A64Proofs Isa.A64Sim Isa.A64Arith
     Isa.A64Mem Isa.A64Load Isa.A64Store.
Import ListNotations.
Local Open Scope Z_scope.
Ltac Zify.zify_post_hook ::= Z.div_mod_to_equations.

Inductive mkind := KOffset | KPre | KPost.
Definition mem_opnd (k : mkind) (base : areg) (off : Z) : opnd :=
  match k with KOffset => OMemOffset base off | KPre => OMemPreIdx base off | KPost => OMemPostIdxImm base off end.

(* mem_operand_address on the three immediate modes: syntactic result *)
Lemma mem_opnd_address k base off : areg_ok base -> reg_bits base = 64 ->
  exists be, reg_get base = Ok be /\ e_bits be = 64 /\
    mem_operand_address (mem_opnd k base off) =
    Ok (match k with KPost => be | _ => EBin Add be (expr_const off 64) end,
        match k with KOffset => None | _ => Some (base, EBin Add be (expr_const off 64)) end).
Proof.
  intros Hr Hb. destruct base as [n|n| | | |]; cbn [reg_bits] in Hb; try discriminate;
    (eexists; split; [reflexivity|]; split; [reflexivity|]);
    destruct k; cbn [mem_opnd mem_operand_address reg_get bind]; rewrite ?mk_bin_ok by reflexivity; reflexivity.
Qed.

(* reg_get_den does not need well-formedness *)
Lemma reg_get_den_nowf s st r : emb s st -> areg_ok r ->
  exists e, reg_get r = Ok e /\ e_bits e = reg_bits r /\
            den (st_env st) e = Ok (mkc (reg_bits r) (areg_val s r)).
Proof.
  intros He Hr. destruct r as [n|n| | | |]; cbn [reg_get reg_bits areg_val full_scalar areg_ok] in *.
  - eexists; split; [reflexivity|]. split; [reflexivity|].
    unfold sx. apply den_scalar_get; [apply (emb_x _ _ He); assumption|reflexivity].
  - unfold sx, mk_ext. cbn [e_bits sbits]. cbn [Z.leb Z.eqb orb unwrap]. change (32 <=? 32) with true.
    eexists; split; [reflexivity|]. split; [reflexivity|].
    cbn [den]. unfold skey_of. cbn [sname sssa sbits]. fold (key_x n). rewrite (emb_x _ _ He n Hr).
    cbn [cbits bind sp_ext]. reflexivity.
  - eexists; split; [reflexivity|]. split; [reflexivity|]. reflexivity.
  - eexists; split; [reflexivity|]. split; [reflexivity|]. reflexivity.
  - eexists; split; [reflexivity|]. split; [reflexivity|].
    apply den_scalar_get; [apply (emb_sp _ _ He)|reflexivity].
  - unfold s_sp, mk_ext. cbn [e_bits sbits unwrap].
    eexists; split; [reflexivity|]. split; [reflexivity|].
    cbn [den]. unfold skey_of. cbn [sname sssa sbits]. fold key_sp. rewrite (emb_sp _ _ He).
    cbn [cbits bind sp_ext]. reflexivity.
Qed.

(* ... and the values: in EVERY IL state representing a machine state with the same base value *)
Lemma base_den s st base be : emb s st -> areg_ok base -> reg_bits base = 64 -> reg_get base = Ok be ->
  den (st_env st) be = Ok (mkc 64 (areg_val s base)) /\
  forall off, den (st_env st) (EBin Add be (expr_const off 64)) = Ok (mkc 64 (wrap64 (areg_val s base + off))).
Proof.
  intros He Hr Hb G. destruct (reg_get_den_nowf s st base He Hr) as (e & G' & B & D). rewrite G in G'. inversion G'; subst e.
  rewrite Hb in D. split; [exact D|]. intros off.
  rewrite (den_bin _ Add _ _ 64 _ (U 64 off) D) by (apply den_const; lia). cbn [sp_bin]. unfold s_add.
  rewrite wrap_add_U. reflexivity.
Qed.

(* reg_set is one assignment to the full register's scalar: it leaves every temporary alone *)
Lemma reg_set_is_assign r v op : reg_set r v = Ok op -> exists e, op = OAssign (full_scalar r) e.
Proof.
  unfold reg_set. destruct (64 <? e_bits v); [discriminate|]. destruct (e_bits v =? 64).
  - intros H. inversion H. eauto.
  - destruct (unwrap (mk_ext Zext 64 v)) as [e| |]; cbn [bind]; intros H; inversion H. eauto.
Qed.
Lemma exec_assign_frame st d e st' ev : exec_op st (OAssign d e) = Ok (st', ev) ->
  st_mem st' = st_mem st /\ forall k, k <> skey_of d -> env_get (st_env st') k = env_get (st_env st) k.
Proof.
  cbn [exec_op]. destruct (den (st_env st) e) as [v| |]; cbn [bind]; intros H; inversion H; subst.
  split; [reflexivity|]. intros k Hk. cbn [st_env]. apply env_get_set_other. congruence.
Qed.
Lemma full_scalar_key r : exists n, skey_of (full_scalar r) = (n, None) /\ (areg_ok r -> (n <= 36)%N).
Proof.
  destruct r as [n|n| | | |]; cbn [full_scalar]; unfold skey_of, sx, s_xzr, s_sp; cbn [sname sssa];
    eexists; (split; [reflexivity|]); cbn [areg_ok]; intros; lia.
Qed.

(* the write-back side effect: base := base + off, evaluated in a later state with the same base value *)
Lemma sideeffect_sim s k base off be s2 st2 :
  areg_ok base -> reg_bits base = 64 -> reg_get base = Ok be -> e_bits be = 64 ->
  emb s2 st2 -> areg_val s2 base = areg_val s base ->
  exists ops st3, sideeffect (match k with KOffset => None | _ => Some (base, EBin Add be (expr_const off 64)) end) = Ok ops /\
    (length ops <= 1)%nat /\ run_ops ops st2 = OFall st3 /\
    emb (match k with KOffset => s2 | _ => areg_write s2 base (wrap64 (areg_val s base + off)) end) st3.
Proof.
  intros Hr Hb G Hbe He2 Hv. destruct k; cbn [sideeffect].
  - exists [], st2. split; [reflexivity|]. split; [cbn; lia|]. split; [reflexivity|exact He2].
  - destruct (base_den s2 st2 base be He2 Hr Hb G) as [_ Dw]. specialize (Dw off). rewrite Hv in Dw.
    destruct (reg_set_sim s2 st2 base (EBin Add be (expr_const off 64)) 64 _ He2 Hr (or_introl eq_refl) Hbe Dw) as (op & st3 & kk & c & S1 & S2 & S3).
    rewrite S1. cbn [bind]. exists [op], st3. split; [reflexivity|]. split; [cbn; lia|]. split; [|exact S3].
    rewrite (run_ops_assign _ _ _ _ _ _ S2). reflexivity.
  - destruct (base_den s2 st2 base be He2 Hr Hb G) as [_ Dw]. specialize (Dw off). rewrite Hv in Dw.
    destruct (reg_set_sim s2 st2 base (EBin Add be (expr_const off 64)) 64 _ He2 Hr (or_introl eq_refl) Hbe Dw) as (op & st3 & kk & c & S1 & S2 & S3).
    rewrite S1. cbn [bind]. exists [op], st3. split; [reflexivity|]. split; [cbn; lia|]. split; [|exact S3].
    rewrite (run_ops_assign _ _ _ _ _ _ S2). reflexivity.
Qed.

Lemma run_ops_app l1 : forall l2 st st1, run_ops l1 st = OFall st1 -> run_ops (l1 ++ l2) st = run_ops l2 st1.
Proof.
  induction l1 as [|o t IH]; intros l2 st st1 H; cbn [run_ops app] in *; [inversion H; reflexivity|].
  destruct (exec_op st o) as [[st' ev]|e|]; try discriminate. destruct ev; try discriminate; apply IH; exact H.
Qed.

Lemma wf_setMem s m : wf s -> (forall a, 0 <= m a < 256) -> wf (setMem s m).
Proof. intros (H1 & H2 & H3 & H4) Hm. unfold wf, setMem. cbn [xr asp amem apc]. auto. Qed.

Lemma mem_wr_facts s a n v s1 : wf s -> mem_wr s a n v = Some s1 ->
  wf s1 /\ xr s1 = xr s /\ asp s1 = asp s /\ apc s1 = apc s /\ abig s1 = abig s.
Proof.
  intros Hw H. unfold mem_wr in H. destruct (2 ^ 64 <? a + Z.of_nat n); [discriminate|]. inversion H; subst s1; clear H.
  split; [|repeat split; reflexivity].
  apply wf_setMem; [exact Hw|]. destruct Hw as (_ & _ & Hm & _).
  assert (Hle : forall n m a v, (forall x, 0 <= m x < 256) -> forall x, 0 <= wr_le m a n v x < 256).
  { induction n0 as [|n0 IH]; intros m a0 v0 Hm0 x; cbn [wr_le]; [apply Hm0|]. apply IH. intros y. unfold upd.
    destruct (y =? a0); [apply Z.mod_pos_bound; lia|apply Hm0]. }
  assert (Hbe : forall n m a v, (forall x, 0 <= m x < 256) -> forall x, 0 <= wr_be m a n v x < 256).
  { induction n0 as [|n0 IH]; intros m a0 v0 Hm0 x; cbn [wr_be]; [apply Hm0|]. unfold upd.
    destruct (x =? a0 + Z.of_nat n0); [apply Z.mod_pos_bound; lia|apply IH; exact Hm0]. }
  destruct (abig s); [apply Hbe|apply Hle]; exact Hm.
Qed.

Lemma areg_val_same s s1 r : xr s1 = xr s -> asp s1 = asp s -> areg_val s1 r = areg_val s r.
Proof. intros H1 H2. destruct r; cbn [areg_val]; rewrite ?H1, ?H2; reflexivity. Qed.

(* fn stp on [Reg rt; Reg rt2; mem], 32- or 64-bit *)
Lemma b_stp_sim s st k rt' rt2' base off n s1 s2 :
  wf s -> emb s st -> areg_ok rt' -> areg_ok rt2' -> areg_ok base -> reg_bits base = 64 ->
  reg_bits rt' = 8 * Z.of_nat n -> reg_bits rt2' = 8 * Z.of_nat n -> (n = 4 \/ n = 8)%nat ->
  let B := areg_val s base in
  let A := match k with KPost => B | _ => wrap64 (B + off) end in
  A + 2 * Z.of_nat n <= 2 ^ 64 ->
  mem_wr s A n (areg_val s rt') = Some s1 ->
  mem_wr s1 (A + Z.of_nat n) n (areg_val s rt2') = Some s2 ->
  exists ops st', b_stp [OReg rt'; OReg rt2'; mem_opnd k base off] = Ok (ops, []) /\ (length ops <= 3)%nat /\
    run_ops ops st = OFall st' /\
    emb (match k with KOffset => s2 | _ => areg_write s2 base (wrap64 (B + off)) end) st'.
Proof.
  intros Hw He Hrt Hrt2 Hbase Hb64 Hb1 Hb2 Hn B A Hov W1 W2.
  destruct (mem_opnd_address k base off Hbase Hb64) as (be & G & Bb & MA).
  destruct (reg_get_den s st rt' Hw He Hrt) as (e1 & G1 & B1 & D1).
  destruct (reg_get_den s st rt2' Hw He Hrt2) as (e2 & G2 & B2 & _).
  destruct (base_den s st base be He Hbase Hb64 G) as [Db Da].
  set (a_e := match k with KPost => be | _ => EBin Add be (expr_const off 64) end) in *.
  assert (Hae : e_bits a_e = 64) by (unfold a_e; destruct k; cbn [e_bits is_cmp]; assumption).
  assert (DA : forall s' st', wf s' -> emb s' st' -> areg_val s' base = B -> den (st_env st') a_e = Ok (mkc 64 A)).
  { intros s' st' Hw' He' Hv. destruct (base_den s' st' base be He' Hbase Hb64 G) as [Db' Da']. rewrite Hv in Db', Da'.
    unfold a_e, A. destruct k; [apply Da'|apply Da'|exact Db']. }
  assert (HA : 0 <= A < 2 ^ 64).
  { unfold A. destruct k; try apply wrap64_range. unfold B. pose proof (areg_val_range s base Hw). rewrite Hb64 in H. exact H. }
  unfold b_stp, nth_op. cbn [nth_error res_of_option bind operand_storing_width operand_load].
  rewrite G1, G2. cbn [bind]. rewrite MA. cbn [bind fst snd].
  rewrite mk_bin_ok by (rewrite Hae; reflexivity). cbn [unwrap bind].
  (* first store *)
  rewrite Hb1 in D1.
  destruct (exec_store s st a_e e1 A n _ s1 He ltac:(lia) (DA s st Hw He eq_refl) HA D1 W1) as (st1 & E1 & He1).
  destruct (mem_wr_facts s A n _ s1 Hw W1) as (Hw1 & Hx1 & Hsp1 & Hpc1 & Hbg1).
  (* second store, in the state after the first *)
  destruct (reg_get_den s1 st1 rt2' Hw1 He1 Hrt2) as (e2' & G2' & _ & D2). rewrite G2 in G2'. inversion G2'; subst e2'.
  rewrite (areg_val_same s s1 rt2' Hx1 Hsp1), Hb2 in D2.
  assert (DA2 : den (st_env st1) (EBin Add a_e (expr_const (reg_bits rt' / 8) 64)) = Ok (mkc 64 (A + Z.of_nat n))).
  { rewrite (den_bin _ Add _ _ 64 A (U 64 (reg_bits rt' / 8)) (DA s1 st1 Hw1 He1 (areg_val_same s s1 base Hx1 Hsp1)))
      by (apply den_const; lia).
    cbn [sp_bin]. unfold s_add, U. rewrite Hb1. replace (8 * Z.of_nat n / 8) with (Z.of_nat n) by (symmetry; rewrite Z.mul_comm; apply Z.div_mul; lia).
    f_equal. f_equal. rewrite (Z.mod_small (Z.of_nat n)) by lia. apply Z.mod_small. lia. }
  destruct (exec_store s1 st1 _ e2 (A + Z.of_nat n) n _ s2 He1 ltac:(lia) DA2 ltac:(lia) D2 W2) as (st2 & E2 & He2).
  destruct (mem_wr_facts s1 _ n _ s2 Hw1 W2) as (Hw2 & Hx2 & Hsp2 & Hpc2 & Hbg2).
  (* write-back *)
  assert (Hv2 : areg_val s2 base = areg_val s base).
  { rewrite (areg_val_same s1 s2 base Hx2 Hsp2). apply areg_val_same; assumption. }
  destruct (sideeffect_sim s k base off be s2 st2 Hbase Hb64 G Bb He2 Hv2) as (wops & st3 & SE & SL & SR & SEmb).
  rewrite SE. cbn [bind].
  eexists; exists st3. split; [reflexivity|]. split; [cbn [length app]; lia|]. split; [|exact SEmb].
  cbn [app]. rewrite (run_ops_step _ _ _ _ _ E1 I), (run_ops_step _ _ _ _ _ E2 I). exact SR.
Qed.

(* ------------------------------------------------------------------ C6.2.321 STP / C6.2.320 STNP, 32- and 64-bit, all four modes *)
Definition kind_of (m : pmode) : mkind := match m with PNoAlloc | POffset => KOffset | PPre => KPre | PPost => KPost end.

Theorem stp_sim addr opc mode imm7 rt2 rn rt :
  (opc = 0 \/ opc = 2) -> 0 <= rt < 32 -> 0 <= rt2 < 32 -> 0 <= rn < 32 ->
  sim addr (ILdStPair opc mode false imm7 rt2 rn rt).
Proof.
  intros Hopc Ht Ht2 Hn s st ops succs s' Hw Hpc Ha He _ Hl Hs.
  set (sf := negb (opc =? 0)).
  set (n := Z.to_nat (2 ^ (2 + opc / 2))).
  assert (Hn48 : (n = 4 \/ n = 8)%nat) by (unfold n; destruct Hopc as [-> | ->]; [left|right]; reflexivity).
  assert (Hdb : 2 ^ (2 + opc / 2) = Z.of_nat n) by (unfold n; destruct Hopc as [-> | ->]; reflexivity).
  assert (Hds : dsize sf = 8 * Z.of_nat n) by (unfold sf, n; destruct Hopc as [-> | ->]; reflexivity).
  destruct (xzr_xsp_range sf rt Ht) as [Hrt _]. destruct (xzr_xsp_range sf rt2 Ht2) as [Hrt2 _].
  destruct (xzr_xsp_range true rn Hn) as [_ Hbase].
  set (offset := sext_imm 7 imm7 * 2 ^ (2 + opc / 2)) in *.
  set (k := kind_of mode).
  set (B := SPorX s rn).
  set (A := match k with KPost => B | _ => wrap64 (B + offset) end).
  (* specification *)
  cbn [a64step] in Hs. fold offset in Hs. cbn [andb] in Hs. fold B in Hs.
  destruct ((match mode with PPost | PPre => true | _ => false end) && ((rt =? rn) || (rt2 =? rn)) && negb (rn =? 31)); [discriminate|].
  assert (HAeq : (if match mode with PPost => true | _ => false end then B else wrap64 (B + offset)) = A)
    by (unfold A, k; destruct mode; reflexivity).
  rewrite HAeq in Hs. rewrite Hdb in Hs.
  destruct (Z.ltb_spec (2 ^ 64) (A + Z.of_nat n + Z.of_nat n)) as [Hov|Hok]; [discriminate|].
  rewrite Nat2Z.id in Hs.
  replace (8 * Z.of_nat n) with (dsize sf) in Hs by exact Hds.
  destruct (mem_wr s A n (X s rt mod 2 ^ dsize sf)) as [s1|] eqn:W1; [|discriminate].
  destruct (mem_wr s1 (A + Z.of_nat n) n (X s rt2 mod 2 ^ dsize sf)) as [s2|] eqn:W2; [|discriminate].
  inversion Hs; subst s'; clear Hs.
  (* the lifter *)
  unfold lift in Hl. cbn [operands_of] in Hl. fold sf offset in Hl. cbn [dispatch terminating] in Hl.
  set (base := xreg_sp true rn) in *.
  assert (Hmem : (match mode with PNoAlloc | POffset => OMemOffset base (u64 offset) | PPre => OMemPreIdx base (u64 offset) | PPost => OMemPostIdxImm base (u64 offset) end)
                 = mem_opnd k base (u64 offset)) by (unfold k; destruct mode; reflexivity).
  rewrite Hmem in Hl.
  assert (HB : areg_val s base = B) by (apply areg_val_sp64; assumption).
  assert (Hw64 : wrap64 (B + u64 offset) = wrap64 (B + offset)) by apply wrap_u64.
  assert (W1' : mem_wr s (match k with KPost => areg_val s base | _ => wrap64 (areg_val s base + u64 offset) end) n (areg_val s (xreg_zr sf rt)) = Some s1).
  { rewrite HB, Hw64, areg_val_zr by assumption. exact W1. }
  assert (W2' : mem_wr s1 ((match k with KPost => areg_val s base | _ => wrap64 (areg_val s base + u64 offset) end) + Z.of_nat n) n (areg_val s (xreg_zr sf rt2)) = Some s2).
  { rewrite HB, Hw64, areg_val_zr by assumption. exact W2. }
  assert (Hov' : (match k with KPost => areg_val s base | _ => wrap64 (areg_val s base + u64 offset) end) + 2 * Z.of_nat n <= 2 ^ 64).
  { rewrite HB, Hw64. fold A. lia. }
  destruct (b_stp_sim s st k _ _ base (u64 offset) n s1 s2 Hw He Hrt Hrt2 Hbase (reg_bits_sp true rn)
              ltac:(rewrite reg_bits_zr; exact Hds) ltac:(rewrite reg_bits_zr; exact Hds) Hn48 Hov' W1' W2')
    as (ops' & st' & B1 & Blen & B2 & B3).
  rewrite B1 in Hl. cbn [bind fst snd] in Hl. inversion Hl; subst ops succs; clear Hl.
  rewrite HB, Hw64 in B3.
  destruct (mem_wr_facts s A n _ s1 Hw W1) as (Hw1 & Hx1 & Hsp1 & Hpc1 & _).
  destruct (mem_wr_facts s1 _ n _ s2 Hw1 W2) as (Hw2 & Hx2 & Hsp2 & Hpc2 & _).
  assert (Hst : (if match mode with PPost | PPre => true | _ => false end then setSPorX s2 rn (wrap64 (B + offset)) else s2) =
                match k with KOffset => s2 | _ => areg_write s2 base (wrap64 (B + offset)) end).
  { unfold k, base. destruct mode; cbn [kind_of]; try reflexivity; symmetry; apply areg_write_sp. }
  rewrite Hst.
  apply (finish_fall_ops' addr s st _ ops' st'); try assumption; [lia|].
  unfold base. destruct k; [|rewrite areg_write_sp, apc_setSPorX|rewrite areg_write_sp, apc_setSPorX]; congruence.
Qed.
