(* Isa/A64Run.v -- running one lifted instruction graph on top of Exec/Sem.v, the embedding of an
   A64 machine state into an IL state, and the comparison used by the C03 oracle.  Definitions only. *)
From Coq Require Import ZArith List Bool NArith.
From Falcon Require Import Base.Res IL.Const IL.ConstSpec IL.Expr IL.ExprSpec IL.Func IL.Loc Exec.Sem
     Isa.A64 Isa.A64Lift.
Import ListNotations.
Local Open Scope Z_scope.

(* ------------------------------------------------------------------ runner *)
Inductive outcome :=
| OFall (st : sstate)               (* the graph ran to the end of its exit block *)
| OGoto (a : Z) (st : sstate)       (* a Branch operation transferred control to address a *)
| OStuck (e : err).

(* generic: follow Sem.sem_step from the entry of the graph *)
Fixpoint run_from (fuel : nat) (f : func) (l : floc) (st : sstate) : outcome :=
  match fuel with
  | O => OStuck EMaxSteps
  | Datatypes.S fuel =>
      match sem_step f l st with
      | Next l' st' _ => run_from fuel f l' st'
      | Goto a st' => OGoto a st'
      | Exit st' _ => OFall st'
      | Stuck e => OStuck e
      end
  end.
Definition run_graph (g : cfg) (st : sstate) : outcome :=
  let f := mkfunc 0 g None in
  match g_entry g with
  | None => OStuck ENoEntry
  | Some e => match find_block (g_blocks g) e with
              | None => OStuck EGraphVertex
              | Some b => run_from 64 f (block_first_loc b) st
              end
  end.

(* straight-line: the operations of a single block, in order (Sem.exec_op) *)
Fixpoint run_ops (ops : list operation) (st : sstate) : outcome :=
  match ops with
  | [] => OFall st
  | o :: t => match exec_op st o with
              | Ok (st', EvBranch a) => OGoto a st'
              | Ok (st', _) => run_ops t st'
              | Err e => OStuck e
              | Panic => OStuck EOther
              end
  end.

(* the successor translate_block's list selects in the final state: exactly one enabled entry *)
Definition succ_enabled (en : senv) (s : Z * option expr) : res bool :=
  match snd s with
  | None => Ok true
  | Some c => v <- den en c ;; if negb (cbits v =? 1) then Err ESort else Ok (cval v =? 1)
  end.
Fixpoint enabled_succs (en : senv) (l : list (Z * option expr)) : res (list Z) :=
  match l with
  | [] => Ok []
  | s :: t => b <- succ_enabled en s ;; r <- enabled_succs en t ;; Ok (if b then fst s :: r else r)
  end.

(* result of executing one lifted instruction: final IL state and next program counter *)
Definition run_lifted (g : cfg) (succs : list (Z * option expr)) (st : sstate) : res (sstate * Z) :=
  match run_graph g st with
  | OGoto a st' => Ok (st', a)
  | OFall st' => match enabled_succs (st_env st') succs with
                 | Ok [a] => Ok (st', a)
                 | Ok _ => Err ENoLocation
                 | Err e => Err e
                 | Panic => Panic
                 end
  | OStuck e => Err e
  end.

(* ------------------------------------------------------------------ embedding *)
Definition key_x (n : Z) : skey := (Z.to_N n, None).
Definition key_sp : skey := (31%N, None).
Definition key_n : skey := (32%N, None).
Definition key_z : skey := (33%N, None).
Definition key_c : skey := (34%N, None).
Definition key_v : skey := (35%N, None).
Definition key_vr (n : Z) : skey := (Z.to_N (38 + n), None).
Definition b2z (b : bool) : Z := if b then 1 else 0.

Definition vregs : list Z := [0;1;2;3;4;5;6;7;8;9;10;11;12;13;14;15;16;17;18;19;20;21;22;23;24;25;26;27;28;29;30;31].
Definition xregs : list Z := [0;1;2;3;4;5;6;7;8;9;10;11;12;13;14;15;16;17;18;19;20;21;22;23;24;25;26;27;28;29;30].

(* the IL state the oracle starts from: every architectural scalar defined; memory holds exactly
   the bytes [mapped] (values from the machine memory) *)
Definition embed (s : a64state) (mapped : list Z) : sstate :=
  mkst (map (fun n => (key_x n, mkc 64 (xr s n))) xregs ++
        [(key_sp, mkc 64 (asp s)); (key_n, mkc 1 (b2z (fN s))); (key_z, mkc 1 (b2z (fZ s)));
         (key_c, mkc 1 (b2z (fC s))); (key_v, mkc 1 (b2z (fV s)))] ++
        map (fun n => (key_vr n, mkc 128 (vr s n))) vregs)
       (mkbmem (abig s) (map (fun a => (a, amem s a)) mapped)).

Definition const_is (o : option const) (w v : Z) : bool :=
  match o with Some c => (cbits c =? w) && (cval c =? v) | None => false end.

(* comparison of the final IL state with the machine state the specification yields:
   X0..X30, V0..V31, SP, N Z C V; every byte of [watch] ; no byte outside [watch] was written *)
Definition agree (s : a64state) (st : sstate) (watch : list Z) : bool :=
  forallb (fun n => const_is (env_get (st_env st) (key_x n)) 64 (xr s n)) xregs &&
  forallb (fun n => const_is (env_get (st_env st) (key_vr n)) 128 (vr s n)) vregs &&
  const_is (env_get (st_env st) key_sp) 64 (asp s) &&
  const_is (env_get (st_env st) key_n) 1 (b2z (fN s)) &&
  const_is (env_get (st_env st) key_z) 1 (b2z (fZ s)) &&
  const_is (env_get (st_env st) key_c) 1 (b2z (fC s)) &&
  const_is (env_get (st_env st) key_v) 1 (b2z (fV s)) &&
  forallb (fun a => match bm_get (st_mem st) a with Some b => b =? amem s a | None => false end) watch &&
  forallb (fun kv => existsb (Z.eqb (fst kv)) watch) (bm_bytes (st_mem st)).
