(* Isa/A64Pair3.v -- per-form correctness of LDPSW, all three addressing modes.  [U] *)
From Coq Require Import ZArith List Bool NArith Lia ZifyBool.
From Falcon Require Import Base.Res IL.Const IL.ConstSpec IL.Expr IL.ExprSpec IL.Func IL.Loc Exec.Sem
     IL.ConstProofs IL.ExprProofs Isa.A64 Isa.A64Lift Isa.A64Run Isa.A64Proofs Isa.A64Sim Isa.A64Arith
     Isa.A64Mem Isa.A64Load Isa.A64Store Isa.A64Pair Isa.A64Pair2.
Import ListNotations.
Local Open Scope Z_scope.
Ltac Zify.zify_post_hook ::= Z.div_mod_to_equations.

(* fn ldpsw on [Reg rt; Reg rt2; mem] (X destinations, two 32-bit elements sign-extended) *)
Lemma b_ldpsw_sim s st k rt' rt2' base off d1 d2 :
  wf s -> emb s st -> areg_ok rt' -> areg_ok rt2' -> areg_ok base -> reg_bits base = 64 ->
  reg_bits rt' = 64 -> reg_bits rt2' = 64 ->
  let B := areg_val s base in
  let A := match k with KPost => B | _ => wrap64 (B + off) end in
  A + 8 <= 2 ^ 64 ->
  mapped st (addr_range A 4) -> mapped st (addr_range (A + 4) 4) ->
  mem_rd s A 4 = Some d1 -> mem_rd s (A + 4) 4 = Some d2 ->
  let s2 := areg_write (areg_write s rt' (s_sext 64 32 d1)) rt2' (s_sext 64 32 d2) in
  (k = KOffset \/ areg_val s2 base = B) ->
  exists ops st', b_ldpsw [OReg rt'; OReg rt2'; mem_opnd k base off] = Ok (ops, []) /\ (length ops <= 5)%nat /\
    run_ops ops st = OFall st' /\
    emb (match k with KOffset => s2 | _ => areg_write s2 base (wrap64 (B + off)) end) st'.
Proof.
  intros Hw He Hrt Hrt2 Hbase Hb64 Hb1 Hb2 B A Hov M1 M2 R1 R2 s2 Hwb.
  destruct (mem_opnd_address k base off Hbase Hb64) as (be & G & Bb & MA).
  set (a_e := match k with KPost => be | _ => EBin Add be (expr_const off 64) end) in *.
  assert (Hae : e_bits a_e = 64) by (unfold a_e; destruct k; cbn [e_bits is_cmp]; assumption).
  assert (DA : forall st', emb s st' -> den (st_env st') a_e = Ok (mkc 64 A)).
  { intros st' He'. destruct (base_den s st' base be He' Hbase Hb64 G) as [Db' Da'].
    unfold a_e, A, B. destruct k; [apply Da'|apply Da'|exact Db']. }
  assert (HA : 0 <= A < 2 ^ 64).
  { unfold A. destruct k; try apply wrap64_range. unfold B. pose proof (areg_val_range s base Hw). rewrite Hb64 in H. exact H. }
  unfold b_ldpsw, nth_op. cbn [nth_error res_of_option bind].
  rewrite MA. cbn [bind fst snd]. rewrite mk_bin_ok by (rewrite Hae; reflexivity). cbn [unwrap bind].
  rewrite !mk_ext_ok by (cbn [e_bits s_temp0 s_temp1 sbits]; lia). cbn [unwrap bind operand_store].
  destruct (exec_load_frame s st 70%N 32 a_e A 4%nat d1 He ltac:(lia) ltac:(lia) eq_refl (DA st He) HA M1 R1)
    as (st1 & E1 & He1 & G1 & F1 & Mm1).
  assert (DA2 : den (st_env st1) (EBin Add a_e (expr_const 4 64)) = Ok (mkc 64 (A + 4))).
  { rewrite (den_bin _ Add _ _ 64 A (U 64 4) (DA st1 He1)) by (apply den_const; lia).
    cbn [sp_bin]. unfold s_add, U. f_equal. f_equal. change (4 mod 2 ^ 64) with 4. apply Z.mod_small. lia. }
  assert (M2' : forall x, In x (addr_range (A + 4) 4) -> bm_get (st_mem st1) x <> None) by (rewrite Mm1; exact M2).
  destruct (exec_load_frame s st1 71%N 32 _ (A + 4) 4%nat d2 He1 ltac:(lia) ltac:(lia) eq_refl DA2 ltac:(lia) M2' R2)
    as (st2 & E2 & He2 & G2 & F2 & Mm2).
  assert (G1' : env_get (st_env st2) (70%N, None) = Some (mkc 32 d1)) by (rewrite F2 by congruence; exact G1).
  assert (Dt0 : den (st_env st2) (EExt Sext 64 (EScalar (s_temp0 32))) = Ok (mkc 64 (s_sext 64 32 d1))).
  { rewrite (den_ext _ _ _ _ (mkc 32 d1)) by (apply den_scalar_get; [exact G1'|reflexivity]). reflexivity. }
  destruct (reg_set_frame s st2 rt' (EExt Sext 64 (EScalar (s_temp0 32))) 64 _ He2 Hrt ltac:(lia) eq_refl Dt0)
    as (op1 & st3 & k1 & c1 & S1 & X1 & He3 & F3).
  assert (Dt1 : den (st_env st3) (EExt Sext 64 (EScalar (s_temp1 32))) = Ok (mkc 64 (s_sext 64 32 d2))).
  { rewrite (den_ext _ _ _ _ (mkc 32 d2)) by (apply den_scalar_get; [rewrite F3 by lia; exact G2|reflexivity]). reflexivity. }
  destruct (reg_set_frame _ st3 rt2' (EExt Sext 64 (EScalar (s_temp1 32))) 64 _ He3 Hrt2 ltac:(lia) eq_refl Dt1)
    as (op2 & st4 & k2 & c2 & S2 & X2 & He4 & F4).
  fold s2 in He4.
  rewrite S1. cbn [bind]. rewrite S2. cbn [bind].
  destruct Hwb as [-> | Hv2].
  - cbn [sideeffect bind app]. eexists; exists st4. split; [reflexivity|]. split; [cbn; lia|]. split; [|exact He4].
    rewrite (run_ops_step _ _ _ _ _ E1 I), (run_ops_step _ _ _ _ _ E2 I), (run_ops_assign _ _ _ _ _ _ X1), (run_ops_assign _ _ _ _ _ _ X2).
    reflexivity.
  - destruct (sideeffect_sim s k base off be s2 st4 Hbase Hb64 G Bb He4 Hv2) as (wops & st5 & SE & SL & SR & SEmb).
    rewrite SE. cbn [bind]. eexists; exists st5. split; [reflexivity|]. split; [cbn [length app]; lia|]. split; [|exact SEmb].
    cbn [app]. rewrite (run_ops_step _ _ _ _ _ E1 I), (run_ops_step _ _ _ _ _ E2 I), (run_ops_assign _ _ _ _ _ _ X1), (run_ops_assign _ _ _ _ _ _ X2).
    exact SR.
Qed.

(* ------------------------------------------------------------------ C6.2.165 LDPSW (post-index, pre-index, signed offset) *)
Theorem ldpsw_sim addr mode imm7 rt2 rn rt :
  mode <> PNoAlloc -> 0 <= rt < 32 -> 0 <= rt2 < 32 -> 0 <= rn < 32 ->
  sim addr (ILdStPair 1 mode true imm7 rt2 rn rt).
Proof.
  intros Hmode Ht Ht2 Hn s st ops succs s' Hw Hpc Ha He Hm Hl Hs.
  destruct (xzr_xsp_range true rt Ht) as [Hrt _]. destruct (xzr_xsp_range true rt2 Ht2) as [Hrt2 _].
  destruct (xzr_xsp_range true rn Hn) as [_ Hbase].
  set (offset := sext_imm 7 imm7 * 2 ^ (2 + 1 / 2)) in *.
  set (k := kind_of mode).
  set (B := SPorX s rn).
  set (A := match k with KPost => B | _ => wrap64 (B + offset) end).
  assert (HAeq : (if match mode with PPost => true | _ => false end then B else wrap64 (B + offset)) = A)
    by (unfold A, k; destruct mode; reflexivity).
  cbn [footprint] in Hm. fold offset B in Hm.
  assert (HAeq' : match mode with PPost => B | _ => wrap64 (B + offset) end = A) by (unfold A, k; destruct mode; reflexivity).
  rewrite HAeq' in Hm. change (Z.to_nat (2 * 2 ^ (2 + 1 / 2))) with 8%nat in Hm.
  assert (M1 : mapped st (addr_range A 4)).
  { intros x Hx. apply Hm. apply In_addr_range. apply In_addr_range in Hx. lia. }
  assert (M2 : mapped st (addr_range (A + 4) 4)).
  { intros x Hx. apply Hm. apply In_addr_range. apply In_addr_range in Hx. lia. }
  cbn [a64step] in Hs. fold offset in Hs. fold B in Hs. change (1 =? 1) with true in Hs.
  destruct ((match mode with PPost | PPre => true | _ => false end) && ((rt =? rn) || (rt2 =? rn)) && negb (rn =? 31)) eqn:Eunp; [discriminate|].
  cbn [andb] in Hs. destruct (rt =? rt2) eqn:Ett; [discriminate|].
  rewrite HAeq in Hs. change (2 ^ (2 + 1 / 2)) with 4 in Hs.
  destruct (Z.ltb_spec (2 ^ 64) (A + 4 + 4)) as [Hov|Hok]; [discriminate|].
  change (Z.to_nat 4) with 4%nat in Hs.
  destruct (mem_rd s A 4) as [d1|] eqn:R1; [|discriminate].
  destruct (mem_rd s (A + 4) 4) as [d2|] eqn:R2; [|discriminate].
  inversion Hs; subst s'; clear Hs.
  unfold lift in Hl. cbn [operands_of] in Hl. fold offset in Hl. change (1 =? 1) with true in Hl. change (1 =? 0) with false in Hl.
  cbn [negb dispatch terminating] in Hl.
  set (base := xreg_sp true rn) in *.
  assert (Hmem : (match mode with PNoAlloc | POffset => OMemOffset base (u64 offset) | PPre => OMemPreIdx base (u64 offset) | PPost => OMemPostIdxImm base (u64 offset) end)
                 = mem_opnd k base (u64 offset)) by (unfold k; destruct mode; reflexivity).
  rewrite Hmem in Hl.
  assert (HB : areg_val s base = B) by (apply areg_val_sp64; assumption).
  assert (Hw64 : wrap64 (B + u64 offset) = wrap64 (B + offset)) by apply wrap_u64.
  assert (HAil : match k with KPost => areg_val s base | _ => wrap64 (areg_val s base + u64 offset) end = A)
    by (rewrite HB, Hw64; reflexivity).
  assert (Hc : k = KOffset \/ rn = 31 \/ (rt <> rn /\ rt2 <> rn)).
  { unfold k. destruct mode; cbn [kind_of]; try (left; reflexivity); right; cbn [andb] in Eunp;
      (destruct (Z.eqb_spec rn 31) as [E31|N31]; [left; exact E31|right]); cbn [negb] in Eunp; rewrite andb_true_r in Eunp;
      apply orb_false_iff in Eunp; destruct Eunp as [E1 E2]; apply Z.eqb_neq in E1; apply Z.eqb_neq in E2; split; assumption. }
  assert (Hwb : k = KOffset \/ areg_val (areg_write (areg_write s (xreg_zr true rt) (s_sext 64 32 d1)) (xreg_zr true rt2) (s_sext 64 32 d2)) base = areg_val s base).
  { destruct Hc as [Hk | Hc]; [left; exact Hk|right]. rewrite !areg_write_zr. unfold base.
    rewrite (base_after_write _ true rt2 _ rn Hn) by (destruct Hc as [Hc|[_ Hc]]; [left|right]; assumption).
    apply (base_after_write _ true rt _ rn Hn). destruct Hc as [Hc|[Hc _]]; [left|right]; assumption. }
  rewrite <- HAil in M1, M2, R1, R2, Hok.
  destruct (b_ldpsw_sim s st k _ _ base (u64 offset) d1 d2 Hw He Hrt Hrt2 Hbase (reg_bits_sp true rn)
              (reg_bits_zr true rt) (reg_bits_zr true rt2) ltac:(lia) M1 M2 R1 R2 Hwb)
    as (ops' & st' & B1 & Blen & B2 & B3).
  rewrite B1 in Hl. cbn [bind fst snd] in Hl. inversion Hl; subst ops succs; clear Hl.
  rewrite !areg_write_zr in B3. rewrite HB, Hw64 in B3.
  change (U 64 (S 32 d1)) with (s_sext 64 32 d1). change (U 64 (S 32 d2)) with (s_sext 64 32 d2).
  assert (Hst : (if match mode with PPost | PPre => true | _ => false end
                 then setSPorX (setX (setX s rt (s_sext 64 32 d1)) rt2 (s_sext 64 32 d2)) rn (wrap64 (B + offset))
                 else setX (setX s rt (s_sext 64 32 d1)) rt2 (s_sext 64 32 d2)) =
                match k with KOffset => setX (setX s rt (s_sext 64 32 d1)) rt2 (s_sext 64 32 d2)
                           | _ => areg_write (setX (setX s rt (s_sext 64 32 d1)) rt2 (s_sext 64 32 d2)) base (wrap64 (B + offset)) end).
  { unfold k, base. destruct mode; cbn [kind_of]; try reflexivity; symmetry; apply areg_write_sp. }
  rewrite Hst.
  apply (finish_fall_ops' addr s st _ ops' st'); try assumption; [lia|].
  unfold base. destruct k; [|rewrite areg_write_sp, apc_setSPorX|rewrite areg_write_sp, apc_setSPorX]; rewrite !apc_setX; reflexivity.
Qed.
