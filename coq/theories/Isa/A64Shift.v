(* Isa/A64Shift.v -- ASR and ROR shifted-register operands (Expression::sra and the lifter's `ror`),
   and ADD/SUB/ADDS/SUBS (shifted register) for ALL four shift kinds.  [U] *)
From Coq Require Import ZArith List Bool NArith Lia ZifyBool.
From Falcon Require Import Base.Res IL.Const IL.ConstSpec IL.Expr IL.ExprSpec IL.Func IL.Loc Exec.Sem
     IL.ConstProofs IL.ExprProofs Isa.A64 Isa.A64Lift Isa.A64Run Isa.A64Proofs Isa.A64Sim Isa.A64Arith
     Isa.A64Arith2 Isa.A64Flags Isa.A64Flags2.
Import ListNotations.
Local Open Scope Z_scope.
Ltac Zify.zify_post_hook ::= Z.div_mod_to_equations.

(* ------------------------------------------------------------------ Sem.den of an ite *)
Lemma den_ite en c t f b : den en c = Ok (mkc 1 (b2z b)) ->
  den en (EIte c t f) = if b then den en t else den en f.
Proof. intros H. cbn [den]. rewrite H. cbn [bind cbits cval]. destruct b; reflexivity. Qed.

(* ------------------------------------------------------------------ Expression::sra denotes the arithmetic shift *)
Lemma den_sra en l r w x b : (w = 64 \/ w = 32) -> e_bits l = w -> e_bits r = w ->
  den en l = Ok (mkc w x) -> den en r = Ok (mkc w b) -> inr w x -> inr w b ->
  exists e, sra l r = Ok e /\ e_bits e = w /\ den en e = Ok (mkc w (s_ashr w x b)).
Proof.
  intros Hw Bl Br.
  assert (W1 : 1 <= w <= 64) by (destruct Hw; lia).
  assert (Hww : inr w w) by (unfold inr; destruct Hw as [-> | ->]; lia).
  intros Dl Dr Hx Hb.
  unfold sra. rewrite Bl, Br, Z.eqb_refl. cbn [negb].
  rewrite allones_eq by lia. rewrite !expr_const_spec by lia. rewrite U_zero by lia. rewrite (U_small w w) by exact Hww.
  rewrite (mk_bin_ok Shr) by congruence. cbn [bind].
  rewrite (mk_bin_ok Sub) by (cbn [e_bits cbits]; congruence). cbn [bind].
  rewrite (mk_bin_ok Cmpltu) by (cbn [e_bits cbits]; congruence). cbn [bind].
  rewrite mk_ite_ok by (cbn [e_bits cbits is_cmp]; congruence). cbn [bind].
  rewrite (mk_bin_ok Shl) by reflexivity. cbn [bind].
  rewrite (mk_bin_ok Cmplts) by (cbn [e_bits cbits]; congruence). cbn [bind].
  rewrite mk_ite_ok by reflexivity. cbn [bind].
  rewrite (mk_bin_ok Or) by (cbn [e_bits is_cmp cbits]; congruence).
  eexists. split; [reflexivity|]. split; [cbn [e_bits is_cmp]; exact Bl|].
  (* the pieces *)
  assert (Dshr : den en (EBin Shr l r) = Ok (mkc w (s_shr w x b))) by (rewrite (den_bin _ _ _ _ _ _ _ Dl Dr); reflexivity).
  assert (Dneg : den en (EBin Cmplts l (EConst (mkc w 0))) = Ok (mkc 1 (b2z (s_cmplts w x 0 =? 1)))).
  { rewrite (den_bin en Cmplts l (EConst (mkc w 0)) w x 0 Dl eq_refl). cbn [sp_bin]. unfold s_cmplts. destruct (S w x <? S w 0); reflexivity. }
  assert (Dov : den en (EBin Cmpltu (EConst (mkc w w)) r) = Ok (mkc 1 (b2z (s_cmpltu w w b =? 1)))).
  { rewrite (den_bin en Cmpltu (EConst (mkc w w)) r w w b eq_refl Dr). cbn [sp_bin]. unfold s_cmpltu. destruct (w <? b); reflexivity. }
  assert (Dd : den en (EBin Sub (EConst (mkc w w)) r) = Ok (mkc w (s_sub w w b))) by (rewrite (den_bin en Sub (EConst (mkc w w)) r w w b eq_refl Dr); reflexivity).
  set (amt := if s_cmpltu w w b =? 1 then 0 else s_sub w w b).
  assert (Damt : den en (EIte (EBin Cmpltu (EConst (mkc w w)) r) (EConst (mkc w 0)) (EBin Sub (EConst (mkc w w)) r)) = Ok (mkc w amt)).
  { rewrite (den_ite _ _ _ _ _ Dov). unfold amt. destruct (s_cmpltu w w b =? 1); [reflexivity|exact Dd]. }
  assert (Dmask : den en (EBin Shl (EConst (mkc w (2 ^ w - 1))) (EIte (EBin Cmpltu (EConst (mkc w w)) r) (EConst (mkc w 0)) (EBin Sub (EConst (mkc w w)) r)))
                  = Ok (mkc w (s_shl w (2 ^ w - 1) amt))) by (rewrite (den_bin en Shl (EConst (mkc w (2 ^ w - 1))) _ w _ amt eq_refl Damt); reflexivity).
  set (sel := if s_cmplts w x 0 =? 1 then s_shl w (2 ^ w - 1) amt else 0).
  match goal with |- den en (EBin Or _ ?e) = _ => assert (Dsel : den en e = Ok (mkc w sel)) end.
  { rewrite (den_ite _ _ _ _ _ Dneg). unfold sel. destruct (s_cmplts w x 0 =? 1); [exact Dmask|reflexivity]. }
  rewrite (den_bin _ Or _ _ w _ sel Dshr Dsel). cbn [sp_bin]. f_equal. f_equal.
  unfold sel, amt. apply sra_arith; [lia|assumption|assumption].
Qed.

(* ------------------------------------------------------------------ the lifter's `ror` denotes the rotation *)
Lemma ror_arith w x a : 1 <= w -> inr w x -> 0 <= a < w ->
  Z.lor (s_shl w x (s_sub w w a)) (s_shr w x a) = (x / 2 ^ a + x * 2 ^ (w - a)) mod 2 ^ w.
Proof.
  intros Hw [X0 X1] Ha. unfold s_shl, s_sub, s_shr, U.
  pose proof (pow_pos w ltac:(lia)) as Pw. pose proof (lt_pow2 w ltac:(lia)) as Lw.
  destruct (Z.leb_spec w a); [lia|].
  destruct (Z.eq_dec a 0) as [-> | Na].
  - rewrite Z.sub_0_r, (Z.mod_small w) by lia. destruct (Z.leb_spec w w); [|lia].
    change (2 ^ 0) with 1. rewrite Z.div_1_r, Z.lor_0_l.
    rewrite Z.mod_add by lia. symmetry. apply Z.mod_small. lia.
  - rewrite (Z.mod_small (w - a)) by lia. destruct (Z.leb_spec w (w - a)); [lia|].
    pose proof (pow_pos a ltac:(lia)) as Pa. pose proof (pow_pos (w - a) ltac:(lia)) as Pwa.
    assert (Hsplit : 2 ^ w = 2 ^ a * 2 ^ (w - a)) by (rewrite <- Z.pow_add_r by lia; f_equal; lia).
    assert (Hhi : (x * 2 ^ (w - a)) mod 2 ^ w = (x mod 2 ^ a) * 2 ^ (w - a)).
    { rewrite Hsplit. rewrite Zmult_mod_distr_r. reflexivity. }
    rewrite Hhi.
    assert (Hlo : inr (w - a) (x / 2 ^ a)).
    { unfold inr. split; [apply Z.div_pos; lia|]. apply Z.div_lt_upper_bound; [lia|]. rewrite <- Hsplit. lia. }
    rewrite lor_hi_lo by (lia || exact Hlo).
    pose proof (Z.div_mod x (2 ^ a) ltac:(lia)) as Hdm. pose proof (Z.mod_pos_bound x (2 ^ a) ltac:(lia)) as Hr.
    set (q := x / 2 ^ a) in *. set (r := x mod 2 ^ a) in *.
    assert (Hx : x * 2 ^ (w - a) = q * 2 ^ w + r * 2 ^ (w - a)) by (rewrite Hdm, Hsplit; ring).
    rewrite Hx. replace (q + (q * 2 ^ w + r * 2 ^ (w - a))) with ((q + r * 2 ^ (w - a)) + q * 2 ^ w) by ring.
    rewrite Z.mod_add by lia. rewrite Z.mod_small; [lia|].
    destruct Hlo as [Q0 Q1]. split; [nia|]. rewrite Hsplit. nia.
Qed.

Lemma den_ror en l w x a : (w = 64 \/ w = 32) -> e_bits l = w -> den en l = Ok (mkc w x) -> inr w x -> 0 <= a < w ->
  exists e, ror_ l (expr_const a w) = Ok e /\ e_bits e = w /\
            den en e = Ok (mkc w ((x / 2 ^ a + x * 2 ^ (w - a)) mod 2 ^ w)).
Proof.
  intros Hw Bl Dl Hx Ha.
  assert (W1 : 1 <= w <= 64) by (clear Dl; destruct Hw; lia).
  assert (Hww : inr w w) by (clear Dl; unfold inr; destruct Hw as [-> | ->]; lia).
  assert (Haw : inr w a) by (clear Dl; unfold inr; destruct Hw as [-> | ->]; lia).
  unfold ror_. rewrite Bl. rewrite !expr_const_spec by lia. rewrite (U_small w w), (U_small w a) by assumption.
  rewrite (mk_bin_ok Sub) by reflexivity. cbn [unwrap bind].
  rewrite (mk_bin_ok Shl) by (cbn [e_bits is_cmp cbits]; congruence). cbn [unwrap bind].
  rewrite (mk_bin_ok Shr) by (cbn [e_bits cbits]; congruence). cbn [unwrap bind].
  rewrite (mk_bin_ok Or) by reflexivity. cbn [unwrap].
  eexists. split; [reflexivity|]. split; [cbn [e_bits is_cmp]; exact Bl|].
  assert (Dd : den en (EBin Sub (EConst (mkc w w)) (EConst (mkc w a))) = Ok (mkc w (s_sub w w a)))
    by (rewrite (den_bin en Sub (EConst (mkc w w)) (EConst (mkc w a)) w w a eq_refl eq_refl); reflexivity).
  assert (D1 : den en (EBin Shl l (EBin Sub (EConst (mkc w w)) (EConst (mkc w a)))) = Ok (mkc w (s_shl w x (s_sub w w a))))
    by (rewrite (den_bin _ Shl _ _ w x _ Dl Dd); reflexivity).
  assert (D2 : den en (EBin Shr l (EConst (mkc w a))) = Ok (mkc w (s_shr w x a)))
    by (rewrite (den_bin en Shr l (EConst (mkc w a)) w x a Dl eq_refl); reflexivity).
  rewrite (den_bin _ Or _ _ w _ _ D1 D2). cbn [sp_bin]. unfold s_or. rewrite ror_arith by (lia || assumption). reflexivity.
Qed.

(* ------------------------------------------------------------------ shifted-register operands, all four kinds *)
Lemma loads_shiftreg_asr s r a : wf s -> areg_ok r -> 0 <= a < reg_bits r ->
  loads s (OShiftReg r (BASR a)) (reg_bits r) (reg_bits r) (shift_val (reg_bits r) SASR (areg_val s r) a).
Proof.
  intros Hw Hr Ha st He. cbn [operand_load].
  destruct (reg_get_den s st r Hw He Hr) as (e & G & B & D). rewrite G. cbn [bind shift_]. unfold asr_.
  pose proof (reg_bits_cases r) as Hc. pose proof (areg_val_range s r Hw) as Hv.
  assert (Hai : inr (reg_bits r) a) by (unfold inr; destruct Hc as [E | E]; rewrite E in *; lia).
  assert (Dc : den (st_env st) (expr_const a (reg_bits r)) = Ok (mkc (reg_bits r) a))
    by (rewrite den_const by (destruct Hc; lia); rewrite U_small by exact Hai; reflexivity).
  destruct (den_sra (st_env st) e (expr_const a (reg_bits r)) (reg_bits r) _ a Hc B eq_refl D Dc Hv Hai) as (e' & S1 & S2 & S3).
  rewrite S1. cbn [unwrap]. exists e'. split; [reflexivity|]. split; [exact S2|]. rewrite S3. f_equal. f_equal.
  unfold s_ashr, shift_val. destruct (Z.leb_spec (reg_bits r) a); [lia|reflexivity].
Qed.
Lemma loads_shiftreg_ror s r a : wf s -> areg_ok r -> 0 <= a < reg_bits r ->
  loads s (OShiftReg r (BROR a)) (reg_bits r) (reg_bits r) (shift_val (reg_bits r) SROR (areg_val s r) a).
Proof.
  intros Hw Hr Ha st He. cbn [operand_load].
  destruct (reg_get_den s st r Hw He Hr) as (e & G & B & D). rewrite G. cbn [bind shift_].
  pose proof (reg_bits_cases r) as Hc. pose proof (areg_val_range s r Hw) as Hv.
  destruct (den_ror (st_env st) e (reg_bits r) _ a Hc B D Hv Ha) as (e' & S1 & S2 & S3).
  rewrite S1. exists e'. split; [reflexivity|]. split; [exact S2|exact S3].
Qed.

Lemma loads_shifted_reg_all s sf rm k a : wf s -> 0 <= rm < 32 -> 0 <= a < dsize sf ->
  loads s (shifted_reg sf rm k a) (dsize sf) (dsize sf) (shift_val (dsize sf) k (Xw s rm (dsize sf)) a).
Proof.
  intros Hw Hm Ha. destruct k.
  - apply loads_shifted_reg; auto. left; reflexivity.
  - apply loads_shifted_reg; auto. right; reflexivity.
  - destruct (xzr_xsp_range sf rm Hm) as [Hr _]. cbn [shifted_reg bshift_of].
    rewrite <- (areg_val_zr s sf rm Hw), <- (reg_bits_zr sf rm). apply loads_shiftreg_asr; try assumption. rewrite reg_bits_zr; assumption.
  - destruct (xzr_xsp_range sf rm Hm) as [Hr _]. cbn [shifted_reg bshift_of].
    rewrite <- (areg_val_zr s sf rm Hw), <- (reg_bits_zr sf rm). apply loads_shiftreg_ror; try assumption. rewrite reg_bits_zr; assumption.
Qed.

Lemma shift_val_range N k x a : (N = 64 \/ N = 32) -> 0 <= x < 2 ^ N -> 0 <= a < N ->
  0 <= shift_val N k x a < 2 ^ N.
Proof.
  intros HN Hx Ha. assert (P : 0 < 2 ^ N) by (apply pow_pos; destruct HN; lia).
  destruct k; cbn [shift_val]; try (apply Z.mod_pos_bound; lia).
  pose proof (pow_pos a ltac:(lia)). split; [apply Z.div_pos; lia|].
  apply Z.le_lt_trans with x; [|lia]. apply Z.div_le_upper_bound; [lia|nia].
Qed.

(* ------------------------------------------------------------------ ADD / SUB (shifted register), every shift kind *)
Theorem addsub_shift_sim_all addr sf sub k rm imm6 rn rd :
  0 <= imm6 < dsize sf -> 0 <= rm < 32 -> 0 <= rn < 32 -> 0 <= rd < 32 ->
  sim addr (IAddSubShift sf sub false k rm imm6 rn rd).
Proof.
  intros Hi Hm Hn Hd s st ops succs s' Hw Hpc Ha He _ Hl Hs.
  destruct (xzr_xsp_range sf rd Hd) as [Hrd _]. destruct (xzr_xsp_range sf rn Hn) as [Hrn _].
  assert (HN : dsize sf = 64 \/ dsize sf = 32) by (destruct sf; cbn; auto).
  cbn [a64step] in Hs. unfold finish_addsub in Hs.
  destruct (addsub (dsize sf) sub (Xw s rn (dsize sf)) (shift_val (dsize sf) k (Xw s rm (dsize sf)) imm6))
    as [res [[[fn_ fz_] fc_] fv_]] eqn:Eres.
  cbn [andb negb] in Hs. inversion Hs; subst s'; clear Hs.
  assert (Hop1 : 0 <= Xw s rn (dsize sf) < 2 ^ dsize sf) by (unfold Xw; apply Z.mod_pos_bound; destruct sf; cbn; lia).
  assert (Hopm : 0 <= Xw s rm (dsize sf) < 2 ^ dsize sf) by (unfold Xw; apply Z.mod_pos_bound; destruct sf; cbn; lia).
  pose proof (shift_val_range (dsize sf) k _ imm6 HN Hopm Hi) as Hop2.
  pose proof (addsub_result (dsize sf) sub _ _ HN Hop1 Hop2) as Hres. rewrite Eres in Hres. cbn [fst] in Hres.
  unfold lift in Hl. cbn [operands_of andb] in Hl. cbv iota in Hl.
  destruct (sub && (rn =? 31)) eqn:Eneg.
  - cbn [dispatch bind] in Hl. discriminate.
  - assert (L1 : loads s (OReg (xreg_zr sf rn)) (reg_bits (xreg_zr sf rd)) (reg_bits (xreg_zr sf rd)) (Xw s rn (dsize sf))).
    { rewrite <- areg_val_zr by assumption. rewrite (reg_bits_zr sf rd), <- (reg_bits_zr sf rn). apply loads_reg; assumption. }
    assert (L2 : loads s (shifted_reg sf rm k imm6) (reg_bits (xreg_zr sf rd)) (reg_bits (xreg_zr sf rd))
                       (shift_val (dsize sf) k (Xw s rm (dsize sf)) imm6)).
    { rewrite reg_bits_zr. apply loads_shifted_reg_all; assumption. }
    destruct (b_addsub_sim (if sub then ASub else AAdd) s st _ _ _ _ _ Hw He Hrd L1 L2) as (op & st' & B1 & B2 & B3).
    rewrite areg_write_zr, reg_bits_zr, <- Hres in B3.
    destruct sub; cbn [dispatch terminating fst snd bind] in Hl; rewrite B1 in Hl; cbn [bind fst snd] in Hl;
      inversion Hl; subst ops succs; clear Hl;
      (apply (finish_fall addr s st _ op st'); try assumption; apply apc_setX).
Qed.

(* ------------------------------------------------------------------ ADDS / SUBS (shifted register), every shift kind *)
Theorem addsubs_shift_simc_all addr (sf sub : bool) k rm imm6 rn rd :
  0 <= imm6 < dsize sf -> 0 <= rm < 32 -> 0 <= rn < 32 -> 0 <= rd < 32 ->
  sim_c sub addr (IAddSubShift sf sub true k rm imm6 rn rd).
Proof.
  intros Hi Hm Hn Hd s st ops succs s' Hw Hpc Ha He _ Hl Hs.
  destruct (xzr_xsp_range sf rn Hn) as [Hrn _].
  cbn [a64step] in Hs.
  assert (HN : dsize sf = 64 \/ dsize sf = 32) by (destruct sf; cbn; auto).
  assert (Hop1 : 0 <= Xw s rn (dsize sf) < 2 ^ dsize sf) by (unfold Xw; apply Z.mod_pos_bound; destruct sf; cbn; lia).
  assert (Hopm : 0 <= Xw s rm (dsize sf) < 2 ^ dsize sf) by (unfold Xw; apply Z.mod_pos_bound; destruct sf; cbn; lia).
  pose proof (shift_val_range (dsize sf) k _ imm6 HN Hopm Hi) as Hop2.
  unfold lift in Hl. cbn [operands_of andb] in Hl.
  destruct (rd =? 31) eqn:E31; [cbn [dispatch bind] in Hl; discriminate|].
  destruct (sub && (rn =? 31)) eqn:Eneg; [cbn [dispatch bind] in Hl; discriminate|].
  assert (L1 : forall s1, same_regs s s1 -> loads s1 (OReg (xreg_zr sf rn)) (dsize sf) (dsize sf) (Xw s rn (dsize sf))).
  { intros s1 Hsr. rewrite <- (same_regs_Xw s s1 rn _ Hsr). destruct Hsr as (Hw1 & _).
    rewrite <- areg_val_zr by assumption. rewrite <- (reg_bits_zr sf rn). apply loads_reg; assumption. }
  assert (L2 : forall s1, same_regs s s1 -> loads s1 (shifted_reg sf rm k imm6) (dsize sf) (dsize sf)
                       (shift_val (dsize sf) k (Xw s rm (dsize sf)) imm6)).
  { intros s1 Hsr. rewrite <- (same_regs_Xw s s1 rm _ Hsr). destruct Hsr as (Hw1 & _). apply loads_shifted_reg_all; assumption. }
  apply (addsubs_close addr sf sub s st rd _ _ ops succs s' _ _ Hw Hpc Ha He Hd Hop1 Hop2 L1 L2); [|exact Hs].
  destruct sub; cbn [dispatch terminating] in Hl; exact Hl.
Qed.
