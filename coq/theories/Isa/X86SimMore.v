(* Isa/X86SimMore.v -- round 6, step 1: test, neg, not (register and memory destinations). *)
From Coq Require Import ZArith List Bool NArith Lia ZifyBool.
From Falcon Require Import Base.Res IL.Const IL.ConstSpec IL.ConstProofs IL.Expr IL.ExprSpec IL.Func IL.Loc Exec.Sem.
From Falcon Require Import Isa.X86 Isa.X86Run Isa.X86Lift Isa.X86Mirror Isa.X86Proofs Isa.X86Sim Isa.C01Check Isa.X86Tie Isa.X86SimMem Isa.X86SimCarry.
Import ListNotations.
Local Open Scope Z_scope.
Ltac Zify.zify_post_hook ::= Z.div_mod_to_equations.

Lemma frame4_regs m (st2 st : sstate) :
  (forall k, k <> kZF -> k <> kSF -> k <> kOF -> k <> kCF -> env_get (st_env st2) k = env_get (st_env st) k) ->
  (forall r0, 0 <= r0 < ngpr m -> env_get (st_env st2) (gpr_name m r0, None) = env_get (st_env st) (gpr_name m r0, None)) /\
  env_get (st_env st2) kDF = env_get (st_env st) kDF /\ env_get (st_env st2) kTM = env_get (st_env st) kTM.
Proof. intros Fr. apply frame_regs. intros k _ _ K2 K3 K4 K5. apply Fr; assumption. Qed.

Lemma frame5_regs m (st2 st : sstate) :
  (forall k, k <> kT0 -> k <> kZF -> k <> kSF -> k <> kOF -> k <> kCF -> env_get (st_env st2) k = env_get (st_env st) k) ->
  (forall r0, 0 <= r0 < ngpr m -> env_get (st_env st2) (gpr_name m r0, None) = env_get (st_env st) (gpr_name m r0, None)) /\
  env_get (st_env st2) kDF = env_get (st_env st) kDF /\ env_get (st_env st2) kTM = env_get (st_env st) kTM.
Proof. intros Fr. apply frame_regs. intros k K0 _ K2 K3 K4 K5. apply Fr; assumption. Qed.

(* the frame of a state that differs from [st] only in the load temporary *)
Lemma frame_after_load m (st2 st : sstate) sz a :
  let st1 := mkst (env_set (st_env st) kTM (mkc sz a)) (st_mem st) in
  (forall r0, 0 <= r0 < ngpr m -> env_get (st_env st2) (gpr_name m r0, None) = env_get (st_env st1) (gpr_name m r0, None)) ->
  env_get (st_env st2) kDF = env_get (st_env st1) kDF ->
  (forall r0, 0 <= r0 < ngpr m -> env_get (st_env st2) (gpr_name m r0, None) = env_get (st_env st) (gpr_name m r0, None)) /\
  env_get (st_env st2) kDF = env_get (st_env st) kDF.
Proof.
  intros st1 Fr1 Fd1. split.
  - intros r0 Hr0. rewrite Fr1 by exact Hr0. unfold st1. cbn [st_env]. apply env_get_set_other.
    destruct (reg_key_facts m r0 Hr0) as (_ & _ & _ & _ & _ & K5 & _). exact K5.
  - rewrite Fd1. unfold st1. cbn [st_env]. apply env_get_set_other. unfold kDF, kTM. discriminate.
Qed.

Lemma nobranch_assigns ops : forallb is_assign ops = true -> nobranch ops = true.
Proof. apply assign_nobranch. Qed.

(* ---------- test: ZF, SF from lhs & rhs; CF := 0; OF := 0 ---------- *)
Lemma test_core st sz a b lhs rhs :
  width_ok sz -> e_bits lhs = sz -> e_bits rhs = sz -> 0 <= a < 2 ^ sz -> 0 <= b < 2 ^ sz ->
  den (st_env st) lhs = Ok (mkc sz a) -> den (st_env st) rhs = Ok (mkc sz b) -> clean lhs = true -> clean rhs = true ->
  let r := Z.land a b in
  let T := EBin And lhs rhs in
  exists zf sf st',
    mk_bin And lhs rhs = Ok T /\ set_zf T = Ok zf /\ set_sf T = Ok sf /\
    forallb is_assign [zf; sf; assign_flag X86Lift.n_CF (expr_const 0 1); assign_flag X86Lift.n_OF (expr_const 0 1)] = true /\
    exec_ops st [zf; sf; assign_flag X86Lift.n_CF (expr_const 0 1); assign_flag X86Lift.n_OF (expr_const 0 1)] = Ok st' /\
    (forall k, k <> kZF -> k <> kSF -> k <> kOF -> k <> kCF -> env_get (st_env st') k = env_get (st_env st) k) /\
    st_mem st' = st_mem st /\
    env_get (st_env st') kZF = Some (mkc 1 (X86.b2z (r =? 0))) /\
    env_get (st_env st') kSF = Some (mkc 1 (X86.b2z (X86.msb sz r))) /\
    env_get (st_env st') kOF = Some (mkc 1 0) /\
    env_get (st_env st') kCF = Some (mkc 1 0).
Proof.
  intros Hw Bl Br Ha Hb Dl Dr Cl Cr r T.
  destruct (clean_parts _ Cl) as (L0 & L1 & L2 & L3 & L4). destruct (clean_parts _ Cr) as (R0 & R1 & R2 & R3 & R4).
  assert (W0: 0 <= sz) by (destruct Hw as [->|[->|[->| ->]]]; lia).
  assert (Hr: 0 <= r < 2 ^ sz) by (unfold r; apply land_range; lia).
  set (en := st_env st) in *.
  assert (E1: mk_bin And lhs rhs = Ok T) by (unfold mk_bin; rewrite Bl, Br, Z.eqb_refl; reflexivity).
  assert (BT: e_bits T = sz) by (unfold T; cbn [e_bits is_cmp]; exact Bl).
  assert (DT: forall en', den en' lhs = Ok (mkc sz a) -> den en' rhs = Ok (mkc sz b) -> den en' T = Ok (mkc sz r)).
  { intros en' A B. unfold T. rewrite den_bin, A, B. cbn [bind]. unfold sp_bin_c. cbn [cbits cval]. rewrite Z.eqb_refl. reflexivity. }
  destruct (set_zf_den en sz r T BT (DT en Dl Dr)) as (zfe & Zf & Dz).
  set (e2 := env_set en kZF (mkc 1 (X86.b2z (r =? 0)))).
  assert (L2': den e2 lhs = Ok (mkc sz a)) by (unfold e2; rewrite den_env_set; assumption).
  assert (R2': den e2 rhs = Ok (mkc sz b)) by (unfold e2; rewrite den_env_set; assumption).
  destruct (set_sf_den e2 sz a b r lhs rhs T Hw Ha Hb Hr Bl Br BT L2' R2' (DT e2 L2' R2')) as (sfe & Sf & Ds).
  set (e3 := env_set e2 kSF (mkc 1 (X86.b2z (X86.msb sz r)))).
  set (e4 := env_set e3 kCF (mkc 1 0)).
  set (e5 := env_set e4 kOF (mkc 1 0)).
  assert (DC: forall en', den en' (expr_const 0 1) = Ok (mkc 1 0)) by (intros; reflexivity).
  exists (OAssign (flag_scalar X86Lift.n_ZF) zfe), (OAssign (flag_scalar X86Lift.n_SF) sfe), (mkst e5 (st_mem st)).
  split; [exact E1|]. split; [exact Zf|]. split; [exact Sf|]. split; [reflexivity|].
  split.
  { cbn [exec_ops]. unfold assign_flag.
    rewrite (exec_assign st _ _ _ Dz). cbn [bind fst st_env st_mem]. fold en. change (skey_of (flag_scalar X86Lift.n_ZF)) with kZF. fold e2.
    rewrite (exec_assign (mkst e2 _) _ _ _ Ds). cbn [bind fst st_env st_mem]. change (skey_of (flag_scalar X86Lift.n_SF)) with kSF. fold e3.
    rewrite (exec_assign (mkst e3 _) _ _ _ (DC e3)). cbn [bind fst st_env st_mem]. change (skey_of (flag_scalar X86Lift.n_CF)) with kCF. fold e4.
    rewrite (exec_assign (mkst e4 _) _ _ _ (DC e4)). cbn [bind fst st_env st_mem]. change (skey_of (flag_scalar X86Lift.n_OF)) with kOF. fold e5.
    reflexivity. }
  split.
  { intros k K1 K2 K3 K4. cbn [st_env]. unfold e5, e4, e3, e2. rewrite !env_get_set_other by assumption. reflexivity. }
  split; [reflexivity|]. cbn [st_env]. unfold e5, e4, e3, e2.
  split; [rewrite !env_get_set_other by discriminate; apply env_get_set_same|].
  split; [rewrite !env_get_set_other by discriminate; apply env_get_set_same|].
  split; [apply env_get_set_same|].
  rewrite env_get_set_other by discriminate. apply env_get_set_same.
Qed.

(* test r, r | imm *)
Theorem test_sim m addr len sz dst src :
  reg_operand_ok m sz dst -> src_operand_ok m sz src -> width_ok sz -> sim m addr len (IAlu ATest sz dst src).
Proof.
  intros Hd Hsrc Hwd s st s' ip Hw He Hstep.
  destruct (reg_operand_shape m sz dst Hd) as (sd & Hs & Hr & Hi).
  destruct (reg_expr_facts m sz dst s st sd Hw He Hd Hs) as (lhs & Ol & Bl & Cl & Ml & Ha & Dl).
  destruct (src_expr m sz src s st Hw He Hsrc) as (rhs & b & Os & Br & Hb & Dr & Cr & Rs).
  pose proof (rd_reg_operand m sz dst s sd Hi Hs) as Rd.
  set (a := arch_read sd (wordsz m) (rget (x_gpr s) (oreg dst))) in *.
  unfold step in Hstep. rewrite Rd, Rs in Hstep. cbn [alu_reads_cf alu alu_writes] in Hstep. inversion Hstep; subst s' ip.
  destruct (test_core st sz a b lhs rhs Hwd Bl Br Ha Hb Dl Dr Cl Cr)
    as (zf & sf & st2 & E1 & Zf & Sf & Hasg & Hex & Hfr & Hm & Gz & Gs & Go & Gc).
  destruct (frame4_regs m st2 st Hfr) as (Fr & Fd & _).
  destruct (emb_after_flags m s st st2 (fl_arith (x_fl s) (FB false) (FB false) sz (Z.land a b)) Hw He Fr Fd Hm eq_refl Gc Gz Gs Go) as (He2 & Hw2).
  exists (one_block addr [zf; sf; assign_flag X86Lift.n_CF (expr_const 0 1); assign_flag X86Lift.n_OF (expr_const 0 1)]). split.
  - unfold mirror_instr. rewrite Hi, (src_regimm _ _ _ Hsrc). cbn [andb]. unfold lift_alu, lift_alu_rhs. cbn [lift_alu_gen option_map].
    rewrite Ol, Os. cbn [bind]. rewrite E1. cbn [bind]. rewrite Zf. cbn [bind]. rewrite Sf. cbn [bind]. reflexivity.
  - exists st2. split; [|auto]. apply run_one_block; [exact Hasg|discriminate|cbn [length]; lia|exact Hex].
Qed.

(* test [m], r | imm *)
Theorem test_mem_sim m addr len sz dst src :
  mem_operand_ok m dst -> src_operand_ok m sz src -> width_ok sz ->
  sim_when (no_wrap sz dst) m addr len (IAlu ATest sz dst src).
Proof.
  intros Hd Hsrc Hwd s st s' ip Hw He Hnw Hstep.
  destruct (mem_operand_facts m dst s Hw Hd) as (Hea & A64 & P64 & Im). destruct (is_mem_not_reg _ Im) as (Ir & Irg).
  unfold step in Hstep. destruct (rd_op sz dst s) as [a|] eqn:Hrd; [|discriminate].
  destruct (load_step m sz dst s st a Hw He Hd Hwd Hnw Hrd) as (ae & ev & Ea & Ex1 & _ & Ha).
  set (st1 := mkst (env_set (st_env st) kTM (mkc sz a)) (st_mem st)) in *.
  pose proof (emb_set_temp m s st sz a He) as He1. fold st1 in He1.
  assert (Dl: den (st_env st1) (EScalar (temp_main sz)) = Ok (mkc sz a)) by (apply temp_main_den; unfold st1; cbn [st_env]; apply env_get_set_same).
  destruct (src_expr m sz src s st1 Hw He1 Hsrc) as (rhs & b & Os & Br & Hb & Dr & Cr & Rs).
  rewrite Rs in Hstep. cbn [alu_reads_cf alu_writes alu] in Hstep. inversion Hstep; subst s' ip.
  destruct (test_core st1 sz a b (EScalar (temp_main sz)) rhs Hwd eq_refl Br Ha Hb Dl Dr eq_refl Cr)
    as (zf & sf & st2 & E1 & Zf & Sf & Hasg & Hex & Hfr & Hm & Gz & Gs & Go & Gc).
  destruct (frame4_regs m st2 st1 Hfr) as (Fr & Fd & _).
  destruct (emb_after_flags m s st1 st2 (fl_arith (x_fl s) (FB false) (FB false) sz (Z.land a b)) Hw He1 Fr Fd Hm eq_refl Gc Gz Gs Go) as (He2 & Hw2).
  set (core := [zf; sf; assign_flag X86Lift.n_CF (expr_const 0 1); assign_flag X86Lift.n_OF (expr_const 0 1)]) in *.
  exists (one_block addr (OLoad (temp_main sz) ae :: core)). split.
  - unfold mirror_instr. rewrite Ir, Im, (src_regimm _ _ _ Hsrc). cbn [andb]. unfold lift_alu_rmw. rewrite Ea. cbn [lift_alu_gen bind].
    rewrite Os. cbn [bind]. rewrite E1. cbn [bind]. rewrite Zf. cbn [bind]. rewrite Sf. cbn [bind]. reflexivity.
  - exists st2. split; [|auto]. apply run_one_block_nb; [|discriminate|unfold core; cbn [length]; lia|].
    + cbn [nobranch forallb is_branch negb andb]. apply (nobranch_assigns core Hasg).
    + change (OLoad (temp_main sz) ae :: core) with ([OLoad (temp_main sz) ae] ++ core).
      rewrite (exec_ops_app [OLoad (temp_main sz) ae] _ st st1) by (cbn [exec_ops]; rewrite Ex1; reflexivity). exact Hex.
Qed.

(* ---------- neg: CF := d != 0; T0 := 0 - d; ZF, SF, OF(T0, 0, d) ---------- *)
Lemma neg_of w a : width_ok w -> 0 <= a < 2 ^ w ->
  of_value w 0 a (U w (0 - a)) true = X86.b2z (a =? 2 ^ (w - 1)).
Proof.
  intros Hw Ha.
  assert (H0: 0 <= 0 < 2 ^ w) by (destruct Hw as [->|[->|[->| ->]]]; pows; lia).
  rewrite (of_sub_correct w 0 a Hw H0 Ha). f_equal.
  destruct Hw as [->|[->|[->| ->]]]; unfold X86.sovf, X86.Sg, ConstSpec.S in *; pows; split_ifs; lia.
Qed.

Lemma zero_const_den en sz : den en (expr_const 0 sz) = Ok (mkc sz 0).
Proof. unfold expr_const, new_big, trim. rewrite Z.land_0_l. reflexivity. Qed.

Lemma neg_core st sz a d :
  width_ok sz -> e_bits d = sz -> 0 <= a < 2 ^ sz -> den (st_env st) d = Ok (mkc sz a) -> clean d = true ->
  let r := U sz (- a) in
  let z := expr_const 0 sz in
  exists zf sf of st',
    mk_bin Cmpneq d z = Ok (EBin Cmpneq d z) /\ mk_bin Sub z d = Ok (EBin Sub z d) /\
    set_zf (T0e sz) = Ok zf /\ set_sf (T0e sz) = Ok sf /\ set_of (T0e sz) z d true = Ok of /\
    forallb is_assign [assign_flag X86Lift.n_CF (EBin Cmpneq d z); OAssign (temp_k 0 sz) (EBin Sub z d); zf; sf; of] = true /\
    exec_ops st [assign_flag X86Lift.n_CF (EBin Cmpneq d z); OAssign (temp_k 0 sz) (EBin Sub z d); zf; sf; of] = Ok st' /\
    (forall k, k <> kT0 -> k <> kZF -> k <> kSF -> k <> kOF -> k <> kCF -> env_get (st_env st') k = env_get (st_env st) k) /\
    st_mem st' = st_mem st /\ 0 <= r < 2 ^ sz /\
    env_get (st_env st') kT0 = Some (mkc sz r) /\
    env_get (st_env st') kZF = Some (mkc 1 (X86.b2z (r =? 0))) /\
    env_get (st_env st') kSF = Some (mkc 1 (X86.b2z (X86.msb sz r))) /\
    env_get (st_env st') kOF = Some (mkc 1 (X86.b2z (a =? 2 ^ (sz - 1)))) /\
    env_get (st_env st') kCF = Some (mkc 1 (X86.b2z (negb (a =? 0)))).
Proof.
  intros Hw Bd Ha Dd Cd r z.
  destruct (clean_parts _ Cd) as (L0 & L1 & L2 & L3 & L4).
  assert (Hp: 0 < 2 ^ sz) by (destruct Hw as [->|[->|[->| ->]]]; reflexivity).
  assert (H0: 0 <= 0 < 2 ^ sz) by lia.
  assert (Hr: 0 <= r < 2 ^ sz) by (unfold r, U; apply Z.mod_pos_bound; exact Hp).
  assert (Bz: e_bits z = sz) by reflexivity.
  assert (Dz0: forall en', den en' z = Ok (mkc sz 0)) by (intros; apply zero_const_den).
  set (en := st_env st) in *.
  assert (Ec: mk_bin Cmpneq d z = Ok (EBin Cmpneq d z)) by (unfold mk_bin; rewrite Bd, Bz, Z.eqb_refl; reflexivity).
  assert (Es: mk_bin Sub z d = Ok (EBin Sub z d)) by (unfold mk_bin; rewrite Bd, Bz, Z.eqb_refl; reflexivity).
  assert (Dc: den en (EBin Cmpneq d z) = Ok (mkc 1 (X86.b2z (negb (a =? 0))))).
  { rewrite den_bin, Dd, (Dz0 en). cbn [bind]. unfold sp_bin_c. cbn [cbits cval]. rewrite Z.eqb_refl. cbn [negb sp_bin]. unfold s_cmpneq.
    destruct (a =? 0); reflexivity. }
  set (e1 := env_set en kCF (mkc 1 (X86.b2z (negb (a =? 0))))).
  assert (D1: den e1 d = Ok (mkc sz a)) by (unfold e1; rewrite den_env_set; assumption).
  assert (Ds0: den e1 (EBin Sub z d) = Ok (mkc sz r)).
  { rewrite den_bin, D1, (Dz0 e1). cbn [bind]. unfold sp_bin_c. cbn [cbits cval]. rewrite Z.eqb_refl. cbn [negb sp_bin]. unfold s_sub, r. reflexivity. }
  set (e2 := env_set e1 kT0 (mkc sz r)).
  assert (G2: env_get e2 kT0 = Some (mkc sz r)) by apply env_get_set_same.
  assert (D2: den e2 d = Ok (mkc sz a)) by (unfold e2; rewrite den_env_set; assumption).
  assert (BT: e_bits (T0e sz) = sz) by reflexivity.
  destruct (set_zf_den e2 sz r (T0e sz) BT (T0e_den e2 sz r G2)) as (zfe & Zf & Dz).
  set (e3 := env_set e2 kZF (mkc 1 (X86.b2z (r =? 0)))).
  assert (G3: env_get e3 kT0 = Some (mkc sz r)) by (unfold e3; rewrite env_get_set_other by discriminate; exact G2).
  assert (D3: den e3 d = Ok (mkc sz a)) by (unfold e3; rewrite den_env_set; assumption).
  destruct (set_sf_den e3 sz 0 a r z d (T0e sz) Hw H0 Ha Hr Bz Bd BT (Dz0 e3) D3 (T0e_den e3 sz r G3)) as (sfe & Sf & Ds).
  set (e4 := env_set e3 kSF (mkc 1 (X86.b2z (X86.msb sz r)))).
  assert (G4: env_get e4 kT0 = Some (mkc sz r)) by (unfold e4; rewrite env_get_set_other by discriminate; exact G3).
  assert (D4: den e4 d = Ok (mkc sz a)) by (unfold e4; rewrite den_env_set; assumption).
  destruct (set_of_den e4 sz 0 a r z d (T0e sz) Hw H0 Ha Hr Bz Bd BT (Dz0 e4) D4 (T0e_den e4 sz r G4) true) as (ofe & Of & Do).
  assert (OV: of_value sz 0 a r true = X86.b2z (a =? 2 ^ (sz - 1))) by (unfold r; apply (neg_of sz a Hw Ha)).
  rewrite OV in Do.
  set (e5 := env_set e4 kOF (mkc 1 (X86.b2z (a =? 2 ^ (sz - 1))))).
  exists (OAssign (flag_scalar X86Lift.n_ZF) zfe), (OAssign (flag_scalar X86Lift.n_SF) sfe), (OAssign (flag_scalar X86Lift.n_OF) ofe), (mkst e5 (st_mem st)).
  split; [exact Ec|]. split; [exact Es|]. split; [exact Zf|]. split; [exact Sf|]. split; [exact Of|]. split; [reflexivity|].
  split.
  { cbn [exec_ops]. unfold assign_flag.
    rewrite (exec_assign st _ _ _ Dc). cbn [bind fst st_env st_mem]. fold en. change (skey_of (flag_scalar X86Lift.n_CF)) with kCF. fold e1.
    rewrite (exec_assign (mkst e1 _) (temp_k 0 sz) _ _ Ds0). cbn [bind fst st_env st_mem]. change (skey_of (temp_k 0 sz)) with kT0. fold e2.
    rewrite (exec_assign (mkst e2 _) _ _ _ Dz). cbn [bind fst st_env st_mem]. change (skey_of (flag_scalar X86Lift.n_ZF)) with kZF. fold e3.
    rewrite (exec_assign (mkst e3 _) _ _ _ Ds). cbn [bind fst st_env st_mem]. change (skey_of (flag_scalar X86Lift.n_SF)) with kSF. fold e4.
    rewrite (exec_assign (mkst e4 _) _ _ _ Do). cbn [bind fst st_env st_mem]. change (skey_of (flag_scalar X86Lift.n_OF)) with kOF. fold e5.
    reflexivity. }
  split.
  { intros k K0 K1 K2 K3 K4. cbn [st_env]. unfold e5, e4, e3, e2, e1. rewrite !env_get_set_other by assumption. reflexivity. }
  split; [reflexivity|]. split; [exact Hr|]. cbn [st_env]. unfold e5, e4, e3.
  split; [rewrite !env_get_set_other by discriminate; exact G2|].
  split; [rewrite !env_get_set_other by discriminate; apply env_get_set_same|].
  split; [rewrite !env_get_set_other by discriminate; apply env_get_set_same|].
  split; [apply env_get_set_same|].
  unfold e2, e1. rewrite !env_get_set_other by discriminate. apply env_get_set_same.
Qed.

Lemma neg_un sz a f : un UNeg sz a f = (U sz (- a), fl_arith f (FB (negb (a =? 0))) (FB (a =? 2 ^ (sz - 1))) sz (U sz (- a))).
Proof. reflexivity. Qed.

(* neg r *)
Theorem neg_sim m addr len sz dst :
  reg_operand_ok m sz dst -> width_ok sz -> sim m addr len (IUn UNeg sz dst).
Proof.
  intros Hd Hwd s st s' ip Hw He Hstep.
  destruct (reg_operand_shape m sz dst Hd) as (sd & Hs & Hr & Hi).
  destruct (reg_expr_facts m sz dst s st sd Hw He Hd Hs) as (lhs & Ol & Bl & Cl & Ml & Ha & Dl).
  pose proof (rd_reg_operand m sz dst s sd Hi Hs) as Rd.
  set (a := arch_read sd (wordsz m) (rget (x_gpr s) (oreg dst))) in *.
  unfold step in Hstep. rewrite Rd in Hstep. rewrite neg_un in Hstep.
  destruct (neg_core st sz a lhs Hwd Bl Ha Dl Cl)
    as (zf & sf & of & st2 & Ec & Es & Zf & Sf & Of & Hasg & Hex & Hfr & Hm & Hr0 & G0 & Gz & Gs & Go & Gc).
  set (r := U sz (- a)) in *.
  destruct (frame5_regs m st2 st Hfr) as (Fr & Fd & _).
  set (fl' := fl_arith (x_fl s) (FB (negb (a =? 0))) (FB (a =? 2 ^ (sz - 1))) sz r) in *.
  destruct (finish_reg m s st st2 dst sz sd r (T0e sz) fl' Hw He Hr Hi Hs Hr0 eq_refl (T0e_den _ _ _ G0) Fr Fd Hm eq_refl Gc Gz Gs Go)
    as (o1 & st3 & s2 & Hops & Ia & Hex3 & Hwr & Hemb & Hwf).
  rewrite Hwr in Hstep. inversion Hstep; subst s' ip.
  set (z := expr_const 0 sz) in *.
  set (core := [assign_flag X86Lift.n_CF (EBin Cmpneq lhs z); OAssign (temp_k 0 sz) (EBin Sub z lhs); zf; sf; of]) in *.
  exists (one_block addr (core ++ [o1])). split.
  - unfold mirror_instr. rewrite Hi. unfold lift_un. cbn [lift_un_gen option_map]. rewrite Ol. cbn [bind]. rewrite Bl. fold z.
    rewrite Ec. cbn [bind]. rewrite Es. cbn [bind]. fold (T0e sz). rewrite Zf. cbn [bind]. rewrite Sf. cbn [bind]. rewrite Of. cbn [bind].
    rewrite Hops. cbn [bind]. reflexivity.
  - exists st3. split; [|auto]. apply run_one_block_nb; [|unfold core; discriminate|unfold core; cbn [length app]; lia|].
    + apply assign_nobranch. rewrite forallb_app. rewrite Hasg. cbn [forallb]. rewrite Ia. reflexivity.
    + rewrite (exec_ops_app _ _ _ _ Hex). exact Hex3.
Qed.

(* neg [m] *)
Theorem neg_rmw_sim m addr len sz dst :
  mem_operand_ok m dst -> width_ok sz -> sim_when (no_wrap sz dst) m addr len (IUn UNeg sz dst).
Proof.
  intros Hd Hwd s st s' ip Hw He Hnw Hstep.
  destruct (mem_operand_facts m dst s Hw Hd) as (Hea & A64 & P64 & Im). destruct (is_mem_not_reg _ Im) as (Ir & Irg).
  unfold step in Hstep. destruct (rd_op sz dst s) as [a|] eqn:Hrd; [|discriminate].
  destruct (load_step m sz dst s st a Hw He Hd Hwd Hnw Hrd) as (ae & ev & Ea & Ex1 & _ & Ha).
  set (st1 := mkst (env_set (st_env st) kTM (mkc sz a)) (st_mem st)) in *.
  pose proof (emb_set_temp m s st sz a He) as He1. fold st1 in He1.
  assert (Dl: den (st_env st1) (EScalar (temp_main sz)) = Ok (mkc sz a)) by (apply temp_main_den; unfold st1; cbn [st_env]; apply env_get_set_same).
  rewrite neg_un in Hstep.
  destruct (neg_core st1 sz a (EScalar (temp_main sz)) Hwd eq_refl Ha Dl eq_refl)
    as (zf & sf & of & st2 & Ec & Es & Zf & Sf & Of & Hasg & Hex & Hfr & Hm & Hr0 & G0 & Gz & Gs & Go & Gc).
  set (r := U sz (- a)) in *.
  destruct (frame5_regs m st2 st1 Hfr) as (Fr1 & Fd1 & _).
  destruct (frame_after_load m st2 st sz a Fr1 Fd1) as (Fr & Fd).
  assert (Hm2: st_mem st2 = st_mem st) by (rewrite Hm; reflexivity).
  set (fl' := fl_arith (x_fl s) (FB (negb (a =? 0))) (FB (a =? 2 ^ (sz - 1))) sz r) in *.
  destruct (option_map (fun s1 => set_fl s1 fl') (wr_op sz dst r s)) as [s2|] eqn:Hwr; [|discriminate].
  inversion Hstep; subst s' ip.
  destruct (finish_mem m s st st2 dst sz r ae (T0e sz) fl' Hw He Hd Hwd Hnw Ea Hr0 (T0e_den _ _ _ G0) Fr Fd Hm2 eq_refl Gc Gz Gs Go s2 Hwr)
    as (st3 & Hex3 & Hemb & Hwf).
  set (lhs := EScalar (temp_main sz)) in *. set (z := expr_const 0 sz) in *.
  set (core := [assign_flag X86Lift.n_CF (EBin Cmpneq lhs z); OAssign (temp_k 0 sz) (EBin Sub z lhs); zf; sf; of]) in *.
  exists (one_block addr (OLoad (temp_main sz) ae :: core ++ [OStore ae (T0e sz)])). split.
  - unfold mirror_instr. rewrite Ir, Im. unfold lift_un_rmw. rewrite Ea. cbn [lift_un_gen bind e_bits temp_main sbits]. fold lhs z.
    rewrite Ec. cbn [bind]. rewrite Es. cbn [bind]. fold (T0e sz). rewrite Zf. cbn [bind]. rewrite Sf. cbn [bind]. rewrite Of. cbn [bind app option_map]. reflexivity.
  - exists st3. split; [|auto]. apply run_one_block_nb; [|discriminate|unfold core; cbn [length app]; lia|].
    + cbn [nobranch forallb is_branch negb andb]. fold (nobranch (core ++ [OStore ae (T0e sz)])). unfold nobranch. rewrite forallb_app.
      pose proof (assign_nobranch _ Hasg) as Nb. unfold nobranch in Nb. rewrite Nb. reflexivity.
    + change (OLoad (temp_main sz) ae :: core ++ [OStore ae (T0e sz)]) with ([OLoad (temp_main sz) ae] ++ (core ++ [OStore ae (T0e sz)])).
      rewrite (exec_ops_app [OLoad (temp_main sz) ae] _ st st1) by (cbn [exec_ops]; rewrite Ex1; reflexivity).
      rewrite (exec_ops_app _ _ _ _ Hex). exact Hex3.
Qed.

(* ---------- not: dst := dst xor 11..1, flags untouched ---------- *)
Lemma lxor_ones a w : 0 <= w -> 0 <= a < 2 ^ w -> Z.lxor a (2 ^ w - 1) = 2 ^ w - 1 - a.
Proof.
  intros Hw Ha. replace (2 ^ w - 1) with (Z.ones w) by (rewrite Z.ones_equiv; lia).
  assert (Hi: forall i, w <= i -> Z.testbit a i = false).
  { intros i Hi. rewrite <- (Z.mod_small a (2 ^ w)) by lia. apply Z.mod_pow2_bits_high. lia. }
  assert (L: Z.ldiff a (Z.ones w) = 0).
  { apply Z.bits_inj'. intros i Hi0. rewrite Z.ldiff_spec, Z.bits_0. destruct (Z.ltb_spec i w).
    - rewrite Z.ones_spec_low by lia. apply andb_false_r.
    - rewrite Hi by lia. reflexivity. }
  rewrite (Z.sub_nocarry_ldiff (Z.ones w) a L).
  apply Z.bits_inj'. intros i Hi0. rewrite Z.lxor_spec, Z.ldiff_spec. destruct (Z.ltb_spec i w).
  - rewrite Z.ones_spec_low by lia. rewrite xorb_true_r. reflexivity.
  - rewrite Hi by lia. rewrite Z.ones_spec_high by lia. reflexivity.
Qed.

Lemma ones_const_den en sz : width_ok sz -> den en (expr_const (2 ^ sz - 1) sz) = Ok (mkc sz (2 ^ sz - 1)).
Proof.
  intros Hw. unfold expr_const. rewrite new_big_spec by (destruct Hw as [->|[->|[->| ->]]]; lia). cbn [den]. unfold U.
  rewrite Z.mod_small; [reflexivity|]. destruct Hw as [->|[->|[->| ->]]]; pows; lia.
Qed.

Lemma not_expr en sz a d : width_ok sz -> e_bits d = sz -> 0 <= a < 2 ^ sz -> den en d = Ok (mkc sz a) ->
  let e := EBin Xor d (expr_const (2 ^ sz - 1) sz) in
  mk_bin Xor d (expr_const (2 ^ sz - 1) sz) = Ok e /\ e_bits e = sz /\ 0 <= 2 ^ sz - 1 - a < 2 ^ sz /\
  den en e = Ok (mkc sz (2 ^ sz - 1 - a)).
Proof.
  intros Hw Bd Ha Dd e.
  assert (W0: 0 <= sz) by (destruct Hw as [->|[->|[->| ->]]]; lia).
  split; [unfold mk_bin; cbn [e_bits expr_const new_big cbits]; rewrite Bd, Z.eqb_refl; reflexivity|].
  split; [unfold e; cbn [e_bits is_cmp]; exact Bd|]. split; [lia|].
  unfold e. rewrite den_bin, Dd, (ones_const_den en sz Hw). cbn [bind]. unfold sp_bin_c. cbn [cbits cval]. rewrite Z.eqb_refl. cbn [negb sp_bin].
  unfold s_xor. rewrite (lxor_ones a sz W0 Ha). reflexivity.
Qed.

(* not r *)
Theorem not_sim m addr len sz dst :
  reg_operand_ok m sz dst -> width_ok sz -> sim m addr len (IUn UNot sz dst).
Proof.
  intros Hd Hwd s st s' ip Hw He Hstep.
  destruct (reg_operand_shape m sz dst Hd) as (sd & Hs & Hr & Hi).
  destruct (reg_expr_facts m sz dst s st sd Hw He Hd Hs) as (lhs & Ol & Bl & Cl & Ml & Ha & Dl).
  pose proof (rd_reg_operand m sz dst s sd Hi Hs) as Rd.
  set (a := arch_read sd (wordsz m) (rget (x_gpr s) (oreg dst))) in *.
  unfold step in Hstep. rewrite Rd in Hstep. cbn [un] in Hstep.
  destruct (not_expr (st_env st) sz a lhs Hwd Bl Ha Dl) as (Ex & Be & Hr0 & De).
  set (e := EBin Xor lhs (expr_const (2 ^ sz - 1) sz)) in *.
  destruct (finish_reg m s st st dst sz sd (2 ^ sz - 1 - a) e (x_fl s) Hw He Hr Hi Hs Hr0 Be De (fun _ _ => eq_refl) eq_refl eq_refl eq_refl
              (emb_cf _ _ _ He) (emb_zf _ _ _ He) (emb_sf _ _ _ He) (emb_of _ _ _ He))
    as (o1 & st3 & s2 & Hops & Ia & Hex3 & Hwr & Hemb & Hwf).
  rewrite Hwr in Hstep. inversion Hstep; subst s' ip.
  exists (one_block addr [o1]). split.
  - unfold mirror_instr. rewrite Hi. unfold lift_un. cbn [lift_un_gen option_map]. rewrite Ol. cbn [bind]. rewrite Bl. rewrite Ex. cbn [bind].
    rewrite Hops. reflexivity.
  - exists st3. split; [|auto]. apply run_one_block; [cbn [forallb]; rewrite Ia; reflexivity|discriminate|cbn [length]; lia|exact Hex3].
Qed.

(* not [m] *)
Theorem not_rmw_sim m addr len sz dst :
  mem_operand_ok m dst -> width_ok sz -> sim_when (no_wrap sz dst) m addr len (IUn UNot sz dst).
Proof.
  intros Hd Hwd s st s' ip Hw He Hnw Hstep.
  destruct (mem_operand_facts m dst s Hw Hd) as (Hea & A64 & P64 & Im). destruct (is_mem_not_reg _ Im) as (Ir & Irg).
  unfold step in Hstep. destruct (rd_op sz dst s) as [a|] eqn:Hrd; [|discriminate].
  destruct (load_step m sz dst s st a Hw He Hd Hwd Hnw Hrd) as (ae & ev & Ea & Ex1 & _ & Ha).
  set (st1 := mkst (env_set (st_env st) kTM (mkc sz a)) (st_mem st)) in *.
  pose proof (emb_set_temp m s st sz a He) as He1. fold st1 in He1.
  assert (Dl: den (st_env st1) (EScalar (temp_main sz)) = Ok (mkc sz a)) by (apply temp_main_den; unfold st1; cbn [st_env]; apply env_get_set_same).
  cbn [un] in Hstep.
  destruct (not_expr (st_env st1) sz a (EScalar (temp_main sz)) Hwd eq_refl Ha Dl) as (Ex & Be & Hr0 & De).
  set (e := EBin Xor (EScalar (temp_main sz)) (expr_const (2 ^ sz - 1) sz)) in *.
  destruct (option_map (fun s1 => set_fl s1 (x_fl s)) (wr_op sz dst (2 ^ sz - 1 - a) s)) as [s2|] eqn:Hwr; [|discriminate].
  inversion Hstep; subst s' ip.
  destruct (frame_after_load m st1 st sz a (fun _ _ => eq_refl) eq_refl) as (Fr & Fd).
  destruct (finish_mem m s st st1 dst sz (2 ^ sz - 1 - a) ae e (x_fl s) Hw He Hd Hwd Hnw Ea Hr0 De Fr Fd eq_refl eq_refl
              (emb_cf _ _ _ He1) (emb_zf _ _ _ He1) (emb_sf _ _ _ He1) (emb_of _ _ _ He1) s2 Hwr)
    as (st3 & Hex3 & Hemb & Hwf).
  exists (one_block addr [OLoad (temp_main sz) ae; OStore ae e]). split.
  - unfold mirror_instr. rewrite Ir, Im. unfold lift_un_rmw. rewrite Ea. cbn [lift_un_gen bind e_bits temp_main sbits]. fold (temp_main sz).
    rewrite Ex. cbn [bind option_map]. reflexivity.
  - exists st3. split; [|auto]. apply run_one_block_nb; [reflexivity|discriminate|cbn [length]; lia|].
    change [OLoad (temp_main sz) ae; OStore ae e] with ([OLoad (temp_main sz) ae] ++ [OStore ae e]).
    rewrite (exec_ops_app [OLoad (temp_main sz) ae] _ st st1) by (cbn [exec_ops]; rewrite Ex1; reflexivity). exact Hex3.
Qed.
