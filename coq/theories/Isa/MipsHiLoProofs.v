(* Isa/MipsHiLoProofs.v -- per-form theorems for mult multu madd maddu msub msubu div divu (HI / LO) and the
   counting loops clz / clo. *)
From Coq Require Import ZArith List Bool NArith Lia ZifyBool.
From Falcon Require Import Base.Res IL.Const IL.ConstSpec IL.Expr IL.ExprSpec IL.Func IL.Loc Exec.Sem
  Isa.ILRun Isa.Mips Isa.MipsLift Isa.MipsProofs Isa.MipsMemProofs.
Import ListNotations.
Local Open Scope Z_scope.
Ltac Zify.zify_post_hook ::= Z.div_mod_to_equations.

Lemma den_scalar en k bits v : env_get en (k, None) = Some (mkc bits v) ->
  den en (EScalar (mks k bits None)) = Ok (mkc bits v).
Proof. intros H. unfold den, skey_of. cbn [sname sssa]. rewrite H. cbn [cbits sbits]. rewrite Z.eqb_refl. reflexivity. Qed.

Lemma mk_ext_zext64 e : e_bits e = 32 -> mk_ext Zext 64 e = Ok (EExt Zext 64 e).
Proof. intros H. unfold mk_ext. rewrite H. reflexivity. Qed.

Lemma hi_lo_of_eq t : hi_lo_of (tmp t 64) =
  Ok [OAssign (sc R_HI 32) (EExt Trun 32 (EBin Shr (EScalar (tmp t 64)) (expr_const 32 64)));
      OAssign (sc R_LO 32) (EExt Trun 32 (EScalar (tmp t 64)))].
Proof. reflexivity. Qed.

Lemma hilo_val P : 0 <= P < 2 ^ 64 ->
  s_trun 32 64 (s_shr 64 P (32 mod 2 ^ 64)) = U 64 P / W /\ s_trun 32 64 P = U 64 P mod W.
Proof.
  intros H. unfold s_trun, s_shr, U, W. change (32 mod 2 ^ 64) with 32. change (64 <=? 32) with false. cbv iota.
  rewrite (Z.mod_small P (2 ^ 64)) by lia. split; [|reflexivity].
  apply Z.mod_small. change (2 ^ 64) with 18446744073709551616 in H. change (2 ^ 32) with 4294967296. lia.
Qed.

Lemma U64_range x : 0 <= U 64 x < 2 ^ 64.
Proof. unfold U. apply Z.mod_pos_bound. lia. Qed.

(* the tail `$hi = trun(t >> 32); $lo = trun(t)` from a state where temporary t0 holds P *)
Lemma run_hi_lo s st ad i t0 P (ts : list N) k :
  emb s st -> ~ arch_key (t0, None) -> (t0, None) <> kbc -> 0 <= P < 2 ^ 64 ->
  env_get (st_env st) (t0, None) = Some (mkc 64 P) ->
  env_get (st_env st) kbc = k ->
  exists st', run_instrs (number ad i [OAssign (sc R_HI 32) (EExt Trun 32 (EBin Shr (EScalar (tmp t0 64)) (expr_const 32 64)));
                                       OAssign (sc R_LO 32) (EExt Trun 32 (EScalar (tmp t0 64)))]) st = Fin st' /\
              emb (set_lo (set_hi s (U 64 P / W)) (U 64 P mod W)) st' /\ env_get (st_env st') kbc = k.
Proof.
  intros He Ta Tk HP Ht Hk. destruct (hilo_val P HP) as [Vh Vl]. cbn [number].
  assert (Nhi : (t0, None) <> kreg R_HI) by (intros E; apply Ta; exists R_HI; unfold R_HI; split; [lia|exact E]).
  erewrite run_assign.
  2: { eapply eq_trans; [eapply den_ext; eapply eq_trans; [eapply den_bin; [apply den_scalar; exact Ht|rewrite den_const, new_big_64; reflexivity]|reflexivity]|].
       cbn [sp_ext cbits cval Z.leb Z.compare Pos.compare Pos.compare_cont]. rewrite Vh. reflexivity. }
  erewrite run_assign.
  2: { eapply eq_trans; [eapply den_ext; apply den_scalar; unfold set_env; cbn [st_env]; rewrite skey_sc, env_get_set_other by (intros E; apply Nhi; symmetry; exact E); exact Ht|].
       cbn [sp_ext cbits cval Z.leb Z.compare Pos.compare Pos.compare_cont]. rewrite Vl. reflexivity. }
  cbn [run_instrs]. eexists. split; [reflexivity|]. split.
  - rewrite !skey_sc. apply emb_set_lo. apply emb_set_hi. assumption.
  - rewrite !skey_sc. unfold set_env. cbn [st_env].
    rewrite !env_get_set_other by (apply kbc_not_reg; unfold R_HI, R_LO; lia). assumption.
Qed.

Definition mult_prod (signed_ : bool) (a b : Z) : Z := if signed_ then S 32 a * S 32 b else a * b.

Lemma den_prod s st x rs rt : wf_m s -> emb s st -> reg_ok rs -> reg_ok rt -> (x = Sext \/ x = Zext) ->
  den (st_env st) (EBin Mul (EExt x 64 (reg_expr rs)) (EExt x 64 (reg_expr rt))) =
  Ok (mkc 64 (U 64 (mult_prod (match x with Sext => true | _ => false end) (gpr s rs) (gpr s rt)))).
Proof.
  intros Hw He Hs Ht Hx. pose proof (gpr_range s rs Hw). pose proof (gpr_range s rt Hw).
  destruct Hx as [-> | ->];
    (eapply eq_trans; [eapply den_bin; (eapply eq_trans; [eapply den_ext; den_tac|reflexivity])|]);
    cbn [sp_bin mult_prod]; unfold s_mul, s_sext, s_zext, U; f_equal; f_equal;
    try reflexivity; try (rewrite <- Z.mul_mod by lia; reflexivity).
Qed.

Theorem mult_correct bg o rs rt : (o = MMult \/ o = MMultu) -> reg_ok rs -> reg_ok rt ->
  plain_correct bg (MMulDiv o rs rt).
Proof.
  intros Ho Hs Ht a ts s st Hw Hb He Hts Hacc Htd.
  pose proof (tmp_not_arch ts 0 Hts) as Ta. pose proof (tmp_not_kbc ts 0 Hts) as Tk.
  set (x := match o with MMult => Sext | _ => Zext end).
  assert (Hx : x = Sext \/ x = Zext) by (destruct Ho as [-> | ->]; [left|right]; reflexivity).
  assert (G : match b_mult (Some a) x (nthN ts 0) rs rt with
              | Ok g => post (exec1 (MMulDiv o rs rt) s) st (run_graph g st) | _ => False end).
  { unfold b_mult. set (t := nthN ts 0) in *.
    assert (E1 : forall r, mk_ext x 64 (reg_expr r) = Ok (EExt x 64 (reg_expr r)))
      by (intros r; destruct Hx as [-> | ->]; [apply mk_ext_sext64|apply mk_ext_zext64]; apply e_bits_reg).
    rewrite !E1. cbn [bind]. rewrite mk_bin_ok by reflexivity. cbn [bind]. rewrite hi_lo_of_eq. cbn [bind].
    rewrite run_single. cbn [number].
    erewrite run_assign by (eapply den_prod; eassumption).
    set (P := U 64 (mult_prod (match x with Sext => true | _ => false end) (gpr s rs) (gpr s rt))).
    destruct (run_hi_lo s (set_env st (t, None) (mkc 64 P)) (Some a) (0 + 1) t P ts (env_get (st_env st) kbc))
      as (st' & Hrun & Hemb & Hfr);
      [apply emb_set_other; assumption|assumption|assumption|apply U64_range
      |unfold set_env; cbn [st_env]; apply env_get_set_same|apply frame_tmp; assumption|].
    change (skey_of (tmp t 64)) with (t, @None N). cbn [number] in Hrun. rewrite Hrun.
    assert (EP : U 64 P = P) by (apply U_small; apply U64_range). rewrite EP in Hemb.
    replace (exec1 (MMulDiv o rs rt) s) with (ok (set_lo (set_hi s (P / W)) (P mod W))).
    - apply post_fin_emb; assumption.
    - subst P x. destruct Ho as [-> | ->]; reflexivity. }
  destruct Ho as [-> | ->]; exact G.
Qed.

(* ------------------------------------------------------------------ madd maddu msub msubu *)
Lemma b_macc_eq ad x sub_ t0 t1 rs rt : (x = Sext \/ x = Zext) ->
  b_macc ad x sub_ t0 t1 rs rt =
  Ok (single ad
        [OAssign (tmp t0 64) (EBin Mul (EExt x 64 (reg_expr rs)) (EExt x 64 (reg_expr rt)));
         OAssign (tmp t1 64) (EBin Shl (EExt Zext 64 (EScalar (sc R_HI 32))) (expr_const 32 64));
         OAssign (tmp t1 64) (EBin Or (EScalar (tmp t1 64)) (EExt Zext 64 (EScalar (sc R_LO 32))));
         OAssign (tmp t0 64) (if sub_ then EBin Sub (EScalar (tmp t1 64)) (EScalar (tmp t0 64))
                              else EBin Add (EScalar (tmp t0 64)) (EScalar (tmp t1 64)));
         OAssign (sc R_HI 32) (EExt Trun 32 (EBin Shr (EScalar (tmp t0 64)) (expr_const 32 64)));
         OAssign (sc R_LO 32) (EExt Trun 32 (EScalar (tmp t0 64)))]).
Proof.
  intros Hx. unfold b_macc.
  assert (E1 : forall r, mk_ext x 64 (reg_expr r) = Ok (EExt x 64 (reg_expr r)))
    by (intros r; destruct Hx as [-> | ->]; [apply mk_ext_sext64|apply mk_ext_zext64]; apply e_bits_reg).
  rewrite !E1. cbn [bind]. rewrite mk_bin_ok by reflexivity. cbn [bind].
  destruct sub_; reflexivity.
Qed.

Lemma acc_val h l : 0 <= h < 2 ^ 32 -> 0 <= l < 2 ^ 32 ->
  s_or 64 (s_shl 64 (s_zext 64 32 h) (32 mod 2 ^ 64)) (s_zext 64 32 l) = h * W + l.
Proof.
  intros Hh Hl. unfold s_or, s_shl, s_zext, W. change (32 mod 2 ^ 64) with 32. change (64 <=? 32) with false. cbv iota.
  rewrite U_small.
  - apply lor_add_disjoint; lia.
  - change (2 ^ 64) with (2 ^ 32 * 2 ^ 32). nia.
Qed.

Theorem macc_correct bg o rs rt : (o = MMadd \/ o = MMaddu \/ o = MMsub \/ o = MMsubu) -> reg_ok rs -> reg_ok rt ->
  plain_correct bg (MMulDiv o rs rt).
Proof.
  intros Ho Hs Ht a ts s st Hw Hb He Hts Hacc Htd.
  pose proof (tmp_not_arch ts 0 Hts) as Ta0. pose proof (tmp_not_kbc ts 0 Hts) as Tk0.
  pose proof (tmp_not_arch ts 1 Hts) as Ta1. pose proof (tmp_not_kbc ts 1 Hts) as Tk1.
  assert (Hd : nthN ts 0 <> nthN ts 1) by (destruct Ho as [-> | [-> | [-> | ->]]]; exact Htd).
  set (t0 := nthN ts 0) in *. set (t1 := nthN ts 1) in *.
  assert (N01 : (t0, @None N) <> (t1, None)) by (intros E; inversion E; contradiction).
  assert (N10 : (t1, @None N) <> (t0, None)) by (intros E; inversion E; apply Hd; congruence).
  assert (Nh0 : (t0, @None N) <> kreg R_HI) by (apply tmp_not_reg; [assumption|unfold R_HI; lia]).
  assert (Nl0 : (t0, @None N) <> kreg R_LO) by (apply tmp_not_reg; [assumption|unfold R_LO; lia]).
  assert (Nl1 : (t1, @None N) <> kreg R_LO) by (apply tmp_not_reg; [assumption|unfold R_LO; lia]).
  assert (Whi : 0 <= hi s < 2 ^ 32) by (destruct Hw as (_ & _ & X & _); exact X).
  assert (Wlo : 0 <= lo s < 2 ^ 32) by (destruct Hw as (_ & _ & _ & X & _); exact X).
  set (x := match o with MMadd | MMsub => Sext | _ => Zext end).
  set (sb := match o with MMsub | MMsubu => true | _ => false end).
  assert (Hx : x = Sext \/ x = Zext) by (destruct Ho as [-> | [-> | [-> | ->]]]; auto).
  assert (G : match b_macc (Some a) x sb t0 t1 rs rt with
              | Ok g => post (exec1 (MMulDiv o rs rt) s) st (run_graph g st) | _ => False end).
  { rewrite b_macc_eq by assumption. rewrite run_single. cbn [number].
    set (P := U 64 (mult_prod (match x with Sext => true | _ => false end) (gpr s rs) (gpr s rt))).
    set (acc := hi s * W + lo s).
    set (R := if sb then s_sub 64 acc P else s_add 64 P acc).
    (* t0 := product *)
    erewrite run_assign by (eapply den_prod; eassumption). fold P. change (skey_of (tmp t0 64)) with (t0, @None N).
    (* t1 := zext(hi) << 32 *)
    erewrite run_assign.
    2: { eapply eq_trans; [eapply den_bin; [eapply eq_trans; [eapply den_ext; apply den_scalar; unfold set_env; cbn [st_env];
           rewrite env_get_set_other by exact Nh0; apply (emb_hi _ _ He)|reflexivity]|rewrite den_const, new_big_64; reflexivity]|reflexivity]. }
    change (skey_of (tmp t1 64)) with (t1, @None N).
    (* t1 := t1 | zext(lo) *)
    erewrite run_assign.
    2: { eapply eq_trans; [eapply den_bin; [apply den_scalar; unfold set_env; cbn [st_env]; apply env_get_set_same
           |eapply eq_trans; [eapply den_ext; apply den_scalar; unfold set_env; cbn [st_env];
              rewrite env_get_set_other by exact Nl1; rewrite env_get_set_other by exact Nl0; apply (emb_lo _ _ He)|reflexivity]]|].
         cbn [sp_bin cval cbits]. rewrite (acc_val (hi s) (lo s) Whi Wlo). fold acc. reflexivity. }
    change (skey_of (tmp t1 64)) with (t1, @None N).
    (* t0 := t0 + t1  |  t1 - t0 *)
    erewrite run_assign with (v := mkc 64 R).
    2: { subst R. destruct sb;
           (eapply eq_trans; [eapply den_bin; apply den_scalar; unfold set_env; cbn [st_env];
              repeat first [apply env_get_set_same | rewrite env_get_set_other by assumption]|reflexivity]). }
    change (skey_of (tmp t0 64)) with (t0, @None N).
    match goal with |- post _ _ (run_instrs _ ?stx) => set (st4 := stx) end.
    assert (R64 : 0 <= R < 2 ^ 64) by (subst R; destruct sb; unfold s_sub, s_add; apply U64_range).
    destruct (run_hi_lo s st4 (Some a) (0 + 1 + 1 + 1 + 1) t0 R ts (env_get (st_env st) kbc))
      as (st' & Hrun & Hemb & Hfr).
    - subst st4. repeat apply emb_set_other; assumption.
    - assumption.
    - assumption.
    - exact R64.
    - subst st4. unfold set_env. cbn [st_env]. apply env_get_set_same.
    - subst st4. rewrite !frame_tmp by assumption. reflexivity.
    - cbn [number] in Hrun. rewrite Hrun. rewrite (U_small 64 R R64) in Hemb.
      replace (exec1 (MMulDiv o rs rt) s) with (ok (set_lo (set_hi s (R / W)) (R mod W))).
      + apply post_fin_emb; assumption.
      + assert (EP : forall t, U 64 (U 64 t + acc) = U 64 (acc + t) /\ U 64 (acc - U 64 t) = U 64 (acc - t)).
        { intros t. unfold U. split; [rewrite Z.add_mod_idemp_l by lia; f_equal; lia|rewrite Zminus_mod_idemp_r; reflexivity]. }
        subst R P x sb acc. unfold s_add, s_sub.
        destruct Ho as [-> | [-> | [-> | ->]]]; cbn [exec1 exec_muldiv mult_prod];
          first [rewrite (proj1 (EP _))|rewrite (proj2 (EP _))]; reflexivity. }
  destruct Ho as [-> | [-> | [-> | ->]]]; exact G.
Qed.

(* ------------------------------------------------------------------ div divu (guarded) *)
Theorem div_correct bg o rs rt : (o = MDiv \/ o = MDivu) -> reg_ok rs -> reg_ok rt ->
  plain_correct bg (MMulDiv o rs rt).
Proof.
  intros Ho Hs Ht a ts s st Hw Hb He Hts Hacc Htd.
  assert (Z32 : 0 mod 2 ^ 32 = 0) by reflexivity.
  set (q := match o with MDiv => Divs | _ => Divu end). set (m := match o with MDiv => Mods | _ => Modu end).
  assert (G : match b_div (Some a) q m rs rt with
              | Ok g => post (exec1 (MMulDiv o rs rt) s) st (run_graph g st) | _ => False end).
  { unfold b_div. builder_ok.
    assert (Dc : den (st_env st) (EBin Cmpneq (reg_expr rt) (expr_const 0 32)) = Ok (mkc 1 (if gpr s rt =? 0 then 0 else 1))).
    { eapply eq_trans; [eapply den_bin; den_tac|]. cbn [sp_bin]. unfold s_cmpneq. rewrite Z32. reflexivity. }
    assert (Dn : den (st_env st) (EBin Cmpeq (reg_expr rt) (expr_const 0 32)) = Ok (mkc 1 (if gpr s rt =? 0 then 1 else 0))).
    { eapply eq_trans; [eapply den_bin; den_tac|]. cbn [sp_bin]. unfold s_cmpeq. rewrite Z32. reflexivity. }
    erewrite run_tri; [|exact Dc| |].
    2: { rewrite Dn. destruct (gpr s rt =? 0); reflexivity. }
    2: { destruct (gpr s rt =? 0); [left|right]; reflexivity. }
    destruct (Z.eqb_spec (gpr s rt) 0) as [E0|N0]; cbn [Z.eqb Pos.eqb].
    - (* zero divisor: HI / LO UNPREDICTABLE, the IL leaves them unchanged *)
      replace (exec1 (MMulDiv o rs rt) s) with (MOk s true true)
        by (destruct Ho as [-> | ->]; cbn [exec1 exec_muldiv]; rewrite E0; reflexivity).
      cbn [number run_instrs]. unfold post. exists st. split; [reflexivity|]. split; [apply emb_u_weaken; assumption|reflexivity].
    - apply Z.eqb_neq in N0. cbn [number].
      assert (He1 : forall v, emb (set_lo s v) (set_env st (kreg R_LO) (mkc 32 v))) by (intros v; apply emb_set_lo; assumption).
      assert (Hw1 : forall v, wf_m (set_lo s v) \/ True) by (intros; right; exact I).
      destruct Ho as [-> | ->]; subst q m; cbn [exec1 exec_muldiv]; rewrite N0.
      + erewrite run_assign.
        2: { eapply eq_trans; [eapply den_bin; den_tac|]. cbn [sp_bin]. rewrite N0. reflexivity. }
        rewrite skey_sc.
        erewrite run_assign.
        2: { eapply eq_trans; [eapply den_bin; (eapply (den_reg_u false false (set_lo s _)); [exact (gpr_zero s Hw)|apply emb_emb_u; apply He1|assumption])|].
             cbn [sp_bin set_lo gpr]. rewrite N0. reflexivity. }
        cbn [run_instrs]. rewrite skey_sc. apply post_fin_emb.
        * apply (emb_set_hi (set_lo s _)). apply He1.
        * unfold set_env. cbn [st_env]. rewrite !env_get_set_other by (apply kbc_not_reg; unfold R_HI, R_LO; lia). reflexivity.
      + erewrite run_assign.
        2: { eapply eq_trans; [eapply den_bin; den_tac|]. cbn [sp_bin]. rewrite N0. reflexivity. }
        rewrite skey_sc.
        erewrite run_assign.
        2: { eapply eq_trans; [eapply den_bin; (eapply (den_reg_u false false (set_lo s _)); [exact (gpr_zero s Hw)|apply emb_emb_u; apply He1|assumption])|].
             cbn [sp_bin set_lo gpr]. rewrite N0. reflexivity. }
        cbn [run_instrs]. rewrite skey_sc. apply post_fin_emb.
        * apply (emb_set_hi (set_lo s _)). apply He1.
        * unfold set_env. cbn [st_env]. rewrite !env_get_set_other by (apply kbc_not_reg; unfold R_HI, R_LO; lia). reflexivity. }
  destruct Ho as [-> | ->]; exact G.
Qed.

(* ------------------------------------------------------------------ clz clo: induction on the counter *)
Definition bit_of (x k : Z) : Z := (x / 2 ^ k) mod 2.

Lemma bit_of_01 x k : bit01 (bit_of x k).
Proof. unfold bit01, bit_of. pose proof (Z.mod_pos_bound (x / 2 ^ k) 2 ltac:(lia)). lia. Qed.

Lemma clz_found y c : 0 <= c <= 31 -> 0 <= y < 2 ^ (32 - c) -> bit_of y (31 - c) = 1 -> clz32 y = c.
Proof.
  intros Hc Hy Hb. unfold bit_of in Hb.
  assert (P : 0 < 2 ^ (31 - c)) by (apply Z.pow_pos_nonneg; lia).
  assert (E : 2 ^ (32 - c) = 2 * 2 ^ (31 - c)) by (rewrite <- Z.pow_succ_r by lia; f_equal; lia).
  assert (D : y / 2 ^ (31 - c) < 2) by (apply Z.div_lt_upper_bound; lia).
  assert (D0 : 0 <= y / 2 ^ (31 - c)) by (apply Z.div_pos; lia).
  assert (D1 : y / 2 ^ (31 - c) = 1) by (revert Hb D D0; generalize (y / 2 ^ (31 - c)); intros q; lia).
  assert (L : 2 ^ (31 - c) <= y).
  { pose proof (Z.mul_div_le y (2 ^ (31 - c)) P). rewrite D1 in H. lia. }
  unfold clz32. destruct (Z.eqb_spec y 0); [lia|].
  rewrite (Z.log2_unique y (31 - c)); [lia|lia|]. replace (Z.succ (31 - c)) with (32 - c) by lia. lia.
Qed.
Lemma clz_continue y c : 0 <= c <= 31 -> 0 <= y < 2 ^ (32 - c) -> bit_of y (31 - c) = 0 -> y < 2 ^ (31 - c).
Proof.
  intros Hc Hy Hb. unfold bit_of in Hb.
  assert (P : 0 < 2 ^ (31 - c)) by (apply Z.pow_pos_nonneg; lia).
  assert (E : 2 ^ (32 - c) = 2 * 2 ^ (31 - c)) by (rewrite <- Z.pow_succ_r by lia; f_equal; lia).
  assert (D : y / 2 ^ (31 - c) < 2) by (apply Z.div_lt_upper_bound; lia).
  assert (D0 : 0 <= y / 2 ^ (31 - c)) by (apply Z.div_pos; lia).
  assert (D1 : y / 2 ^ (31 - c) = 0) by (revert Hb D D0; generalize (y / 2 ^ (31 - c)); intros q; lia).
  apply Z.div_small_iff in D1; lia.
Qed.

Lemma bit_of_compl x k : 0 <= k < 32 -> 0 <= x < 2 ^ 32 -> bit_of (W - 1 - x) k = 1 - bit_of x k.
Proof.
  intros Hk Hx. unfold bit_of, W. change (2 ^ 32 - 1) with 4294967295.
  rewrite <- lxor_ones32 by assumption.
  rewrite <- !Z.testbit_spec' by lia. rewrite Z.lxor_spec.
  change 4294967295 with (Z.ones 32). rewrite Z.ones_spec_low by lia.
  destruct (Z.testbit x k); reflexivity.
Qed.

Section ClzLoop.
Variables (ones_ : bool) (ad : option Z) (count : N) (rd rs : Z) (s : mstate).
Hypothesis Hw : wf_m s.
Hypothesis Hd : reg_ok rd.
Hypothesis Hs : reg_ok rs.
Hypothesis Ta : ~ arch_key (count, None).
Hypothesis Tk : (count, @None N) <> kbc.

Let cnt : expr := EScalar (tmp count 32).
Let bit : expr := EExt Trun 1 (EBin Shr (reg_expr rs) (EBin Sub (expr_const 31 32) cnt)).
Let nbit : expr := EBin Cmpeq bit c0_1.
Let G : cfg :=
  mkcfg [blk 0 ad [OAssign (tmp count 32) (expr_const 0 32)]; blk 1 ad [];
         blk 2 ad [OAssign (tmp count 32) (EBin Add cnt (expr_const 1 32))]; blk 3 ad [OAssign (reg_scalar rd) cnt]]
        [edge_u 0 1; edge_c 1 2 (if ones_ then bit else nbit); edge_c 1 3 (if ones_ then nbit else bit);
         edge_c 2 1 (EBin Cmpneq cnt (expr_const 32 32)); edge_c 2 3 (EBin Cmpeq cnt (expr_const 32 32))] 4 (Some 0) (Some 3).
Let x : Z := gpr s rs.
Let y : Z := if ones_ then W - 1 - x else x.

Lemma y_range : 0 <= y < 2 ^ 32.
Proof. pose proof (gpr_range s rs Hw). subst y x. unfold W. destruct ones_; lia. Qed.

Lemma den_cnt st c : env_get (st_env st) (count, None) = Some (mkc 32 c) -> den (st_env st) cnt = Ok (mkc 32 c).
Proof. intros H. apply den_scalar. exact H. Qed.

Lemma den_bit st c : emb s st -> env_get (st_env st) (count, None) = Some (mkc 32 c) -> 0 <= c <= 31 ->
  den (st_env st) bit = Ok (mkc 1 (bit_of x (31 - c))).
Proof.
  intros He Hc Rc. subst bit.
  eapply eq_trans; [eapply den_ext; eapply eq_trans; [eapply den_bin; [eapply den_reg; eassumption
     |eapply eq_trans; [eapply den_bin; [rewrite den_const, new_big_32; reflexivity|apply den_cnt; exact Hc]|reflexivity]]|reflexivity]|].
  cbn [sp_ext cbits cval Z.leb Z.compare Pos.compare Pos.compare_cont]. unfold s_trun, s_shr, s_sub, U, bit_of.
  change (31 mod 2 ^ 32) with 31. rewrite (Z.mod_small (31 - c)) by (change (2 ^ 32) with 4294967296; lia).
  destruct (Z.leb_spec 32 (31 - c)); [lia|]. reflexivity.
Qed.

(* the guard of the edge 1 -> 2 (keep counting) denotes 1 iff the inspected bit of y is 0 *)
Lemma den_g12 st c : emb s st -> env_get (st_env st) (count, None) = Some (mkc 32 c) -> 0 <= c <= 31 ->
  den (st_env st) (if ones_ then bit else nbit) = Ok (mkc 1 (if bit_of y (31 - c) =? 0 then 1 else 0)).
Proof.
  intros He Hc Rc. pose proof (den_bit st c He Hc Rc) as Db. pose proof (gpr_range s rs Hw) as Rx. fold x in Rx.
  subst y. destruct ones_.
  - rewrite Db. rewrite bit_of_compl by lia. destruct (bit_of_01 x (31 - c)) as [-> | ->]; reflexivity.
  - subst nbit. rewrite (den_not1 _ _ _ Db). reflexivity.
Qed.
Lemma den_g13 st c : emb s st -> env_get (st_env st) (count, None) = Some (mkc 32 c) -> 0 <= c <= 31 ->
  den (st_env st) (if ones_ then nbit else bit) = Ok (mkc 1 (bit_of y (31 - c))).
Proof.
  intros He Hc Rc. pose proof (den_bit st c He Hc Rc) as Db. pose proof (gpr_range s rs Hw) as Rx. fold x in Rx.
  subst y. destruct ones_.
  - subst nbit. rewrite (den_not1 _ _ _ Db). rewrite bit_of_compl by lia. destruct (bit_of_01 x (31 - c)) as [-> | ->]; reflexivity.
  - exact Db.
Qed.

(* block 3: rd <- count, exit *)
Lemma clz_exit f st c : emb s st -> env_get (st_env st) (count, None) = Some (mkc 32 c) ->
  exists st', run_cfg (Datatypes.S f) G 3 st = Fin st' /\ emb (setr s rd c) st' /\
              env_get (st_env st') kbc = env_get (st_env st) kbc.
Proof.
  intros He Hc. erewrite run_cfg_step by reflexivity.
  change (b_instrs (blk 3 ad [OAssign (reg_scalar rd) cnt])) with (number ad 0 [OAssign (reg_scalar rd) cnt]).
  cbn [number]. erewrite run_assign by (apply den_cnt; exact Hc). cbn [run_instrs g_exit G optZ_eqb Z.eqb Pos.eqb].
  eexists. split; [reflexivity|]. split.
  - rewrite skey_reg. apply emb_setr; assumption.
  - rewrite skey_reg. unfold set_env. cbn [st_env]. apply env_get_set_other. apply kbc_not_reg. unfold reg_ok in Hd. lia.
Qed.

Lemma clz_loop : forall (n : nat) c f st, 0 <= c -> Z.of_nat (Datatypes.S n) = 32 - c -> (2 * Datatypes.S n + 1 <= f)%nat ->
  emb s st -> env_get (st_env st) (count, None) = Some (mkc 32 c) -> y < 2 ^ (32 - c) ->
  exists st', run_cfg f G 1 st = Fin st' /\ emb (setr s rd (clz32 y)) st' /\
              env_get (st_env st') kbc = env_get (st_env st) kbc.
Proof.
  induction n as [|n IH]; intros c f st Hc0 Hn Hf He Hc Hy;
    (assert (Rc : 0 <= c <= 31) by lia);
    (destruct f as [|f]; [lia|]); pose proof y_range as Ry;
    erewrite run_cfg_step by reflexivity;
    change (b_instrs (blk 1 ad [])) with (@nil instruction); cbn [run_instrs g_exit G optZ_eqb Z.eqb Pos.eqb];
    change (out_edges G 1) with [edge_c 1 2 (if ones_ then bit else nbit); edge_c 1 3 (if ones_ then nbit else bit)];
    cbn [enabled_edges e_cond edge_c guard_on];
    rewrite (den_g12 st c He Hc Rc), (den_g13 st c He Hc Rc);
    (destruct (bit_of_01 y (31 - c)) as [B | B]; rewrite B; cbn [bind cbits cval Z.eqb Pos.eqb negb e_tail edge_c]).
  - (* c = 31, bit 0: count becomes 32 *)
    assert (c = 31) by lia. subst c.
    destruct f as [|f]; [lia|]. erewrite run_cfg_step by reflexivity.
    change (b_instrs (blk 2 ad [OAssign (tmp count 32) (EBin Add cnt (expr_const 1 32))])) with (number ad 0 [OAssign (tmp count 32) (EBin Add cnt (expr_const 1 32))]).
    cbn [number]. erewrite run_assign.
    2: { eapply eq_trans; [eapply den_bin; [apply den_cnt; exact Hc|rewrite den_const, new_big_32; reflexivity]|reflexivity]. }
    cbn [run_instrs g_exit G optZ_eqb Z.eqb Pos.eqb]. change (skey_of (tmp count 32)) with (count, @None N).
    change (s_add 32 31 (1 mod 2 ^ 32)) with 32.
    set (st2 := set_env st (count, None) (mkc 32 32)).
    assert (He2 : emb s st2) by (apply emb_set_other; assumption).
    assert (Hc2 : env_get (st_env st2) (count, None) = Some (mkc 32 32)) by (unfold st2, set_env; cbn [st_env]; apply env_get_set_same).
    change (out_edges G 2) with [edge_c 2 1 (EBin Cmpneq cnt (expr_const 32 32)); edge_c 2 3 (EBin Cmpeq cnt (expr_const 32 32))].
    cbn [enabled_edges e_cond edge_c guard_on].
    erewrite !den_bin; [|apply den_cnt; exact Hc2|rewrite den_const, new_big_32; reflexivity|apply den_cnt; exact Hc2|rewrite den_const, new_big_32; reflexivity].
    cbn [sp_bin bind cbits cval Z.eqb Pos.eqb negb e_tail edge_c s_cmpeq s_cmpneq].
    change (32 mod 2 ^ 32) with 32. cbn [Z.eqb Pos.eqb e_tail edge_c].
    destruct f as [|f]; [lia|].
    destruct (clz_exit f st2 32 He2 Hc2) as (st' & Hr & Hemb & Hfr).
    exists st'. split; [exact Hr|]. split.
    + assert (Hy0 : y = 0) by (pose proof (clz_continue y 31 ltac:(lia) ltac:(lia) B) as Hlt; change (2 ^ (31 - 31)) with 1 in Hlt; lia).
      rewrite Hy0. exact Hemb.
    + rewrite Hfr. unfold st2. apply frame_tmp. assumption.
  - (* bit 1: found *)
    destruct f as [|f]; [lia|].
    destruct (clz_exit f st c He Hc) as (st' & Hr & Hemb & Hfr).
    exists st'. split; [exact Hr|]. split; [|exact Hfr].
    rewrite (clz_found y c Rc ltac:(lia) B). exact Hemb.
  - (* bit 0: increment, not yet 32, continue *)
    destruct f as [|f]; [lia|]. erewrite run_cfg_step by reflexivity.
    change (b_instrs (blk 2 ad [OAssign (tmp count 32) (EBin Add cnt (expr_const 1 32))])) with (number ad 0 [OAssign (tmp count 32) (EBin Add cnt (expr_const 1 32))]).
    cbn [number]. erewrite run_assign.
    2: { eapply eq_trans; [eapply den_bin; [apply den_cnt; exact Hc|rewrite den_const, new_big_32; reflexivity]|reflexivity]. }
    cbn [run_instrs g_exit G optZ_eqb Z.eqb Pos.eqb]. change (skey_of (tmp count 32)) with (count, @None N).
    assert (Ec : s_add 32 c (1 mod 2 ^ 32) = c + 1) by (unfold s_add; change (1 mod 2 ^ 32) with 1; apply U_small; change (2 ^ 32) with 4294967296; lia).
    rewrite Ec.
    set (st2 := set_env st (count, None) (mkc 32 (c + 1))).
    assert (He2 : emb s st2) by (apply emb_set_other; assumption).
    assert (Hc2 : env_get (st_env st2) (count, None) = Some (mkc 32 (c + 1))) by (unfold st2, set_env; cbn [st_env]; apply env_get_set_same).
    change (out_edges G 2) with [edge_c 2 1 (EBin Cmpneq cnt (expr_const 32 32)); edge_c 2 3 (EBin Cmpeq cnt (expr_const 32 32))].
    cbn [enabled_edges e_cond edge_c guard_on].
    erewrite !den_bin; [|apply den_cnt; exact Hc2|rewrite den_const, new_big_32; reflexivity|apply den_cnt; exact Hc2|rewrite den_const, new_big_32; reflexivity].
    cbn [sp_bin]. unfold s_cmpeq, s_cmpneq. change (32 mod 2 ^ 32) with 32.
    destruct (Z.eqb_spec (c + 1) 32) as [E32|N32]; [lia|]. cbn [bind cbits cval negb Z.eqb Pos.eqb e_tail edge_c].
    destruct (IH (c + 1) f st2 ltac:(lia) ltac:(lia) ltac:(lia) He2 Hc2) as (st' & Hr & Hemb & Hfr).
    { replace (32 - (c + 1)) with (31 - c) by lia. apply (clz_continue y c Rc ltac:(lia) B). }
    exists st'. split; [exact Hr|]. split; [exact Hemb|]. rewrite Hfr. unfold st2. apply frame_tmp. assumption.
  - (* bit 1: found *)
    destruct f as [|f]; [lia|].
    destruct (clz_exit f st c He Hc) as (st' & Hr & Hemb & Hfr).
    exists st'. split; [exact Hr|]. split; [|exact Hfr].
    rewrite (clz_found y c Rc ltac:(lia) B). exact Hemb.
Qed.

Lemma clz_graph st : emb s st ->
  exists st', run_graph G st = Fin st' /\ emb (setr s rd (clz32 y)) st' /\
              env_get (st_env st') kbc = env_get (st_env st) kbc.
Proof.
  intros He. unfold run_graph. cbn [g_entry g_exit G]. unfold FUEL.
  erewrite run_cfg_step by reflexivity.
  change (b_instrs (blk 0 ad [OAssign (tmp count 32) (expr_const 0 32)])) with (number ad 0 [OAssign (tmp count 32) (expr_const 0 32)]).
  cbn [number]. erewrite run_assign by (rewrite den_const, new_big_32; reflexivity).
  cbn [run_instrs g_exit G optZ_eqb Z.eqb]. change (skey_of (tmp count 32)) with (count, @None N). change (0 mod 2 ^ 32) with 0.
  change (out_edges G 0) with [edge_u 0 1]. cbn [enabled_edges e_cond edge_u guard_on bind e_tail].
  set (st1 := set_env st (count, None) (mkc 32 0)).
  destruct (clz_loop 31 0 199 st1) as (st' & Hr & Hemb & Hfr).
  - lia.
  - reflexivity.
  - lia.
  - apply emb_set_other; assumption.
  - unfold st1, set_env. cbn [st_env]. apply env_get_set_same.
  - pose proof y_range. change (32 - 0) with 32. lia.
  - exists st'. split; [exact Hr|]. split; [exact Hemb|]. rewrite Hfr. unfold st1. apply frame_tmp. assumption.
Qed.
End ClzLoop.

Lemma b_clzo_ok ad ones_ count rd rs :
  exists g, b_clzo ad ones_ count rd rs = Ok g /\
  g = mkcfg [blk 0 ad [OAssign (tmp count 32) (expr_const 0 32)]; blk 1 ad [];
             blk 2 ad [OAssign (tmp count 32) (EBin Add (EScalar (tmp count 32)) (expr_const 1 32))];
             blk 3 ad [OAssign (reg_scalar rd) (EScalar (tmp count 32))]]
        [edge_u 0 1;
         edge_c 1 2 (if ones_ then EExt Trun 1 (EBin Shr (reg_expr rs) (EBin Sub (expr_const 31 32) (EScalar (tmp count 32))))
                     else EBin Cmpeq (EExt Trun 1 (EBin Shr (reg_expr rs) (EBin Sub (expr_const 31 32) (EScalar (tmp count 32))))) c0_1);
         edge_c 1 3 (if ones_ then EBin Cmpeq (EExt Trun 1 (EBin Shr (reg_expr rs) (EBin Sub (expr_const 31 32) (EScalar (tmp count 32))))) c0_1
                     else EExt Trun 1 (EBin Shr (reg_expr rs) (EBin Sub (expr_const 31 32) (EScalar (tmp count 32)))));
         edge_c 2 1 (EBin Cmpneq (EScalar (tmp count 32)) (expr_const 32 32));
         edge_c 2 3 (EBin Cmpeq (EScalar (tmp count 32)) (expr_const 32 32))] 4 (Some 0) (Some 3).
Proof.
  unfold b_clzo, not1. rewrite mk_bin_ok by reflexivity. cbn [bind]. rewrite mk_bin_ok by reflexivity. cbn [bind].
  rewrite mk_bin_ok by (rewrite e_bits_reg; reflexivity). cbn [bind].
  unfold mk_ext. cbn [e_bits is_cmp]. rewrite e_bits_reg. cbn [Z.leb Z.eqb Z.compare Pos.compare Pos.compare_cont orb bind].
  rewrite mk_bin_ok by reflexivity. cbn [bind]. rewrite !mk_bin_ok by reflexivity. cbn [bind].
  eexists. split; reflexivity.
Qed.

Theorem clzo_correct bg rd rs : reg_ok rd -> reg_ok rs ->
  plain_correct bg (MClz rd rs) /\ plain_correct bg (MClo rd rs).
Proof.
  intros Hd Hs. split; intros a ts s st Hw Hb He Hts Hacc Htd;
    pose proof (tmp_not_arch ts 0 Hts) as Ta; pose proof (tmp_not_kbc ts 0 Hts) as Tk;
    cbn [lift_plain exec1].
  - destruct (b_clzo_ok (Some a) false (nthN ts 0) rd rs) as (g & Eg & ->). rewrite Eg.
    destruct (clz_graph false (Some a) (nthN ts 0) rd rs s Hw Hd Hs Ta Tk st He) as (st' & Hr & Hemb & Hfr).
    unfold ok, post. exists st'. split; [exact Hr|]. split; [apply emb_emb_u; exact Hemb|exact Hfr].
  - destruct (b_clzo_ok (Some a) true (nthN ts 0) rd rs) as (g & Eg & ->). rewrite Eg.
    destruct (clz_graph true (Some a) (nthN ts 0) rd rs s Hw Hd Hs Ta Tk st He) as (st' & Hr & Hemb & Hfr).
    unfold ok, post. exists st'. split; [exact Hr|]. split; [apply emb_emb_u; exact Hemb|exact Hfr].
Qed.
