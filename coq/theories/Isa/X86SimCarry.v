(* Isa/X86SimCarry.v -- generic finishers (register / memory / no destination) for builders that compute a result
   and flags, and adc / sbb on top of them. *)
From Coq Require Import ZArith List Bool NArith Lia ZifyBool.
From Falcon Require Import Base.Res IL.Const IL.ConstSpec IL.ConstProofs IL.Expr IL.ExprSpec IL.Func IL.Loc Exec.Sem.
From Falcon Require Import Isa.X86 Isa.X86Run Isa.X86Lift Isa.X86Mirror Isa.X86Proofs Isa.X86Sim Isa.C01Check Isa.X86Tie Isa.X86SimMem.
Import ListNotations.
Local Open Scope Z_scope.
Ltac Zify.zify_post_hook ::= Z.div_mod_to_equations.

(* the machine state with new flags is embedded in an IL state that kept the register scalars, DF and memory of an
   embedding of the old one and holds the new flags *)
Lemma emb_after_flags m s st st2 (fl' : flags) :
  wf m s -> emb m s st ->
  (forall r0, 0 <= r0 < ngpr m -> env_get (st_env st2) (gpr_name m r0, None) = env_get (st_env st) (gpr_name m r0, None)) ->
  env_get (st_env st2) kDF = env_get (st_env st) kDF -> st_mem st2 = st_mem st -> f_df fl' = f_df (x_fl s) ->
  emb_flag (f_cf fl') (st_env st2) kCF -> emb_flag (f_zf fl') (st_env st2) kZF ->
  emb_flag (f_sf fl') (st_env st2) kSF -> emb_flag (f_of fl') (st_env st2) kOF ->
  emb m (set_fl s fl') st2 /\ wf m (set_fl s fl').
Proof.
  intros Hw He Fr Fd Hm Hdf Ec Ez Es Eo. split.
  - constructor; cbn [set_fl x_gpr x_fl x_mem]; try assumption.
    + intros r0 Hr0. rewrite Fr by exact Hr0. apply (emb_gpr _ _ _ He). exact Hr0.
    + rewrite Hdf. pose proof (emb_df _ _ _ He) as D. unfold emb_flag in *.
      destruct (f_df (x_fl s)); [rewrite Fd; exact D|destruct D as [v0 D]; exists v0; rewrite Fd; exact D].
    + intros a0. rewrite Hm. apply (emb_mem _ _ _ He).
    + rewrite Hm. apply (emb_le _ _ _ He).
  - constructor; cbn [set_fl x_gpr x_mem]; [apply (wf_len _ _ Hw)|apply (wf_rng _ _ Hw)|apply (wf_bytes _ _ Hw)].
Qed.

Lemma wr_op_reg_fl sz dst r s fl' g' : isreg dst = true ->
  wr_op sz dst r (set_fl s fl') = Some (set_gpr (set_fl s fl') g') ->
  option_map (fun s1 => set_fl s1 fl') (wr_op sz dst r s) = Some (set_gpr (set_fl s fl') g').
Proof.
  intros Hi H. destruct dst; try discriminate Hi; unfold wr_op, wr_op_at in *; cbn [set_fl x_gpr] in *; inversion H as [E];
    cbn [option_map]; f_equal; unfold set_gpr, set_fl; cbn [x_gpr x_ugpr x_xmm x_fl x_mem]; rewrite E; reflexivity.
Qed.

(* finish with a register destination *)
Lemma finish_reg m s st st2 dst sz sd r ve (fl' : flags) :
  wf m s -> emb m s st -> 0 <= oreg dst < ngpr m -> isreg dst = true ->
  operand_shape m sz dst = Some (gpr_name m (oreg dst), sd) ->
  0 <= r < 2 ^ sz -> e_bits ve = sz -> den (st_env st2) ve = Ok (mkc sz r) ->
  (forall r0, 0 <= r0 < ngpr m -> env_get (st_env st2) (gpr_name m r0, None) = env_get (st_env st) (gpr_name m r0, None)) ->
  env_get (st_env st2) kDF = env_get (st_env st) kDF -> st_mem st2 = st_mem st -> f_df fl' = f_df (x_fl s) ->
  emb_flag (f_cf fl') (st_env st2) kCF -> emb_flag (f_zf fl') (st_env st2) kZF ->
  emb_flag (f_sf fl') (st_env st2) kSF -> emb_flag (f_of fl') (st_env st2) kOF ->
  exists o1 st3 s', ops_store m sz dst ve = Ok [o1] /\ is_assign o1 = true /\ exec_ops st2 [o1] = Ok st3 /\
    option_map (fun s1 => set_fl s1 fl') (wr_op sz dst r s) = Some s' /\ emb m s' st3 /\ wf m s'.
Proof.
  intros Hw He Hr Hi Hs Hres Bv Dv Fr Fd Hm Hdf Ec Ez Es Eo.
  destruct (emb_after_flags m s st st2 fl' Hw He Fr Fd Hm Hdf Ec Ez Es Eo) as (He2 & Hw2).
  destruct (assign_reg_exec m (set_fl s fl') st2 dst sz sd ve r Hw2 He2 Hr Hi Hs Bv Hres Dv)
    as (o1 & Hops & Ia & st3 & g' & Hex & Hwr & Hemb & Hwf).
  exists o1, st3, (set_gpr (set_fl s fl') g'). split; [exact Hops|]. split; [exact Ia|]. split; [exact Hex|].
  split; [apply wr_op_reg_fl; assumption|]. auto.
Qed.

(* finish with a memory destination *)
Lemma finish_mem m s st st2 dst sz r ae ve (fl' : flags) :
  wf m s -> emb m s st -> mem_operand_ok m dst -> width_ok sz -> no_wrap sz dst s ->
  addr_expr m dst = Some (Ok ae) -> 0 <= r < 2 ^ sz -> den (st_env st2) ve = Ok (mkc sz r) ->
  (forall r0, 0 <= r0 < ngpr m -> env_get (st_env st2) (gpr_name m r0, None) = env_get (st_env st) (gpr_name m r0, None)) ->
  env_get (st_env st2) kDF = env_get (st_env st) kDF -> st_mem st2 = st_mem st -> f_df fl' = f_df (x_fl s) ->
  emb_flag (f_cf fl') (st_env st2) kCF -> emb_flag (f_zf fl') (st_env st2) kZF ->
  emb_flag (f_sf fl') (st_env st2) kSF -> emb_flag (f_of fl') (st_env st2) kOF ->
  forall s', option_map (fun s1 => set_fl s1 fl') (wr_op sz dst r s) = Some s' ->
  exists st3, exec_ops st2 [OStore ae ve] = Ok st3 /\ emb m s' st3 /\ wf m s'.
Proof.
  intros Hw He Hd Hwd Hnw Ea Hr Dv Fr Fd Hm Hdf Ec Ez Es Eo s' Hs'.
  destruct (emb_after_flags m s st st2 fl' Hw He Fr Fd Hm Hdf Ec Ez Es Eo) as (He2 & Hw2).
  set (s2 := set_fl s fl') in *.
  destruct (mem_operand_facts m dst s2 Hw2 Hd) as (Hea & A64 & P64 & Im).
  destruct (addr_expr_correct m dst s2 st2 Hw2 He2 Hd) as (ae' & Ea' & _ & Da). rewrite Ea in Ea'. inversion Ea'; subst ae'.
  assert (Hwr: wr_op sz dst r s = option_map (set_mem s) (mem_wr (x_mem s) (op_asz dst) (ea (x_gpr s) dst) r (nbytes sz))).
  { destruct dst; try discriminate Im. unfold wr_op, wr_op_at. cbn [op_asz]. destruct (mem_wr (x_mem s) asz _ r (nbytes sz)); reflexivity. }
  rewrite Hwr in Hs'. destruct (mem_wr (x_mem s) (op_asz dst) (ea (x_gpr s) dst) r (nbytes sz)) as [xm'|] eqn:Hmw; cbn [option_map] in Hs'; [|discriminate].
  inversion Hs'; subst s'.
  assert (Hmw2: mem_wr (x_mem s2) (op_asz dst) (ea (x_gpr s2) dst) r (nbytes sz) = Some xm') by exact Hmw.
  assert (Hnw2: no_wrap sz dst s2) by exact Hnw.
  destruct (mem_store_spec (x_mem s2) (st_mem st2) (op_asz dst) sz (ea (x_gpr s2) dst) r xm' (emb_mem _ _ _ He2) (emb_le _ _ _ He2) Hwd (proj1 Hea) Hnw2 A64 Hmw2)
    as (bm' & Hst & Hag & Hle).
  assert (L64: ea (x_gpr s2) dst < 2 ^ 64) by lia.
  pose proof (exec_store st2 ae ve (wordsz m) (ea (x_gpr s2) dst) (mkc sz r) bm' Dv Da L64 Hst) as Ex.
  exists (mkst (st_env st2) bm'). split; [cbn [exec_ops]; rewrite Ex; reflexivity|].
  split.
  - constructor; cbn [set_fl set_mem x_gpr x_fl x_mem st_env st_mem];
      [apply (emb_gpr _ _ _ He2)|apply (emb_cf _ _ _ He2)|apply (emb_zf _ _ _ He2)|apply (emb_sf _ _ _ He2)|apply (emb_of _ _ _ He2)|apply (emb_df _ _ _ He2)|exact Hag|exact Hle].
  - constructor; cbn [set_fl set_mem x_gpr x_mem]; [apply (wf_len _ _ Hw)|apply (wf_rng _ _ Hw)|].
    apply (wr_bytes_ok _ _ _ _ _ _ (wf_bytes _ _ Hw) Hmw).
Qed.

(* ---------- value lemmas for add-with-carry / subtract-with-borrow ---------- *)
Lemma of_adc_correct w a b (cin : bool) : width_ok w -> 0 <= a < 2 ^ w -> 0 <= b < 2 ^ w ->
  of_value w a b (U w (a + b + X86.b2z cin)) false = X86.b2z (X86.sovf w (X86.Sg w a + X86.Sg w b + X86.b2z cin)).
Proof.
  intros Hw Ha Hb.
  destruct Hw as [->|[->|[->| ->]]];
    (rewrite of_value_bits by (try lia; try assumption; unfold U; apply Z.mod_pos_bound; reflexivity));
    destruct cin; cbn [X86.b2z]; flag_arith.
Qed.
Lemma of_sbb_correct w a b (cin : bool) : width_ok w -> 0 <= a < 2 ^ w -> 0 <= b < 2 ^ w ->
  of_value w a b (U w (a - b - X86.b2z cin)) true = X86.b2z (X86.sovf w (X86.Sg w a - X86.Sg w b - X86.b2z cin)).
Proof.
  intros Hw Ha Hb.
  destruct Hw as [->|[->|[->| ->]]];
    (rewrite of_value_bits by (try lia; try assumption; unfold U; apply Z.mod_pos_bound; reflexivity));
    destruct cin; cbn [X86.b2z]; flag_arith.
Qed.
Lemma cf_adc_correct w a b (cin : bool) : width_ok w -> 0 <= a < 2 ^ w -> 0 <= b < 2 ^ w ->
  Z.lor (if U w (a + b) <? a then 1 else 0) (if U w (U w (a + b) + X86.b2z cin) <? U w (a + b) then 1 else 0)
  = X86.b2z (2 ^ w <=? a + b + X86.b2z cin).
Proof.
  intros Hw Ha Hb. destruct Hw as [->|[->|[->| ->]]]; unfold U in *; pows; destruct cin; unfold X86.b2z;
    repeat match goal with |- context [if ?c then _ else _] => destruct c eqn:? end; cbn; try reflexivity; exfalso; lia.
Qed.
Lemma cf_sbb_correct w a b (cin : bool) : width_ok w -> 0 <= a < 2 ^ w -> 0 <= b < 2 ^ w ->
  Z.lor (if a <? b then 1 else 0) (if U w (a - b) <? X86.b2z cin then 1 else 0) = X86.b2z (a <? b + X86.b2z cin).
Proof.
  intros Hw Ha Hb. destruct Hw as [->|[->|[->| ->]]]; unfold U in *; pows; destruct cin; unfold X86.b2z;
    repeat match goal with |- context [if ?c then _ else _] => destruct c eqn:? end; cbn; try reflexivity; exfalso; lia.
Qed.
Lemma adc_result w a b (cin : bool) : width_ok w -> U w (U w (a + b) + X86.b2z cin) = U w (a + b + X86.b2z cin).
Proof. intros Hw. unfold U. rewrite Zplus_mod_idemp_l. reflexivity. Qed.
Lemma sbb_result w a b (cin : bool) : width_ok w -> U w (U w (a - b) - X86.b2z cin) = U w (a - b - X86.b2z cin).
Proof. intros Hw. unfold U. rewrite Zminus_mod_idemp_l. reflexivity. Qed.

Definition kT1 : skey := (54%N, None).
Definition T1e (sz : Z) : expr := EScalar (temp_k 1 sz).
Lemma T1e_den en sz r : env_get en kT1 = Some (mkc sz r) -> den en (T1e sz) = Ok (mkc sz r).
Proof. intros G. unfold T1e. cbn [den]. unfold skey_of, temp_k. cbn [sname sssa sbits]. change (Z.to_N (53 + 1), @None N) with kT1. rewrite G. cbn [cbits]. rewrite Z.eqb_refl. reflexivity. Qed.

(* ---------- the core of adc for arbitrary clean operand expressions ---------- *)
Lemma adc_core st sz a b (cin : bool) lhs rhs :
  width_ok sz -> e_bits lhs = sz -> e_bits rhs = sz -> 0 <= a < 2 ^ sz -> 0 <= b < 2 ^ sz ->
  den (st_env st) lhs = Ok (mkc sz a) -> den (st_env st) rhs = Ok (mkc sz b) ->
  clean lhs = true -> clean rhs = true -> mentions kT1 lhs = false -> mentions kT1 rhs = false ->
  env_get (st_env st) kCF = Some (mkc 1 (X86.b2z cin)) ->
  let r := U sz (a + b + X86.b2z cin) in
  exists zf sf of c st',
    mk_bin Add lhs rhs = Ok (EBin Add lhs rhs) /\
    mk_ext Zext sz (EScalar (flag_scalar X86Lift.n_CF)) = Ok (EExt Zext sz (EScalar (flag_scalar X86Lift.n_CF))) /\
    mk_bin Add (T1e sz) (EExt Zext sz (EScalar (flag_scalar X86Lift.n_CF))) = Ok (EBin Add (T1e sz) (EExt Zext sz (EScalar (flag_scalar X86Lift.n_CF)))) /\
    set_zf (T0e sz) = Ok zf /\ set_sf (T0e sz) = Ok sf /\ set_of (T0e sz) lhs rhs false = Ok of /\
    (c1 <- mk_bin Cmpltu (T1e sz) lhs ;; c2 <- mk_bin Cmpltu (T0e sz) (T1e sz) ;; mk_bin Or c1 c2) = Ok c /\
    forallb is_assign [OAssign (temp_k 1 sz) (EBin Add lhs rhs); OAssign (temp_k 0 sz) (EBin Add (T1e sz) (EExt Zext sz (EScalar (flag_scalar X86Lift.n_CF)))); zf; sf; of; assign_flag X86Lift.n_CF c] = true /\
    exec_ops st [OAssign (temp_k 1 sz) (EBin Add lhs rhs); OAssign (temp_k 0 sz) (EBin Add (T1e sz) (EExt Zext sz (EScalar (flag_scalar X86Lift.n_CF)))); zf; sf; of; assign_flag X86Lift.n_CF c] = Ok st' /\
    (forall k, k <> kT0 -> k <> kT1 -> k <> kZF -> k <> kSF -> k <> kOF -> k <> kCF -> env_get (st_env st') k = env_get (st_env st) k) /\
    st_mem st' = st_mem st /\ 0 <= r < 2 ^ sz /\
    env_get (st_env st') kT0 = Some (mkc sz r) /\
    env_get (st_env st') kZF = Some (mkc 1 (X86.b2z (r =? 0))) /\
    env_get (st_env st') kSF = Some (mkc 1 (X86.b2z (X86.msb sz r))) /\
    env_get (st_env st') kOF = Some (mkc 1 (X86.b2z (X86.sovf sz (X86.Sg sz a + X86.Sg sz b + X86.b2z cin)))) /\
    env_get (st_env st') kCF = Some (mkc 1 (X86.b2z (2 ^ sz <=? a + b + X86.b2z cin))).
Proof.
  intros Hw Bl Br Ha Hb Dl Dr Cl Cr Ml Mr Ecf r.
  destruct (clean_parts _ Cl) as (L0 & L1 & L2 & L3 & L4). destruct (clean_parts _ Cr) as (R0 & R1 & R2 & R3 & R4).
  assert (Hp: 0 < 2 ^ sz) by (destruct Hw as [->|[->|[->| ->]]]; reflexivity).
  assert (S8: 1 < sz) by (destruct Hw as [->|[->|[->| ->]]]; lia).
  set (s1v := U sz (a + b)).
  assert (Hs1: 0 <= s1v < 2 ^ sz) by (unfold s1v, U; apply Z.mod_pos_bound; exact Hp).
  assert (Hr: 0 <= r < 2 ^ sz) by (unfold r, U; apply Z.mod_pos_bound; exact Hp).
  assert (Rr: U sz (s1v + X86.b2z cin) = r) by (unfold s1v, r; apply adc_result; exact Hw).
  set (en := st_env st) in *.
  set (zc := EExt Zext sz (EScalar (flag_scalar X86Lift.n_CF))).
  assert (E1: mk_bin Add lhs rhs = Ok (EBin Add lhs rhs)) by (unfold mk_bin; rewrite Bl, Br, Z.eqb_refl; reflexivity).
  assert (Ez: mk_ext Zext sz (EScalar (flag_scalar X86Lift.n_CF)) = Ok zc).
  { unfold mk_ext. cbn [e_bits flag_scalar sbits]. assert (Q: (sz <=? 1) || (1 =? 0) = false) by (apply orb_false_iff; split; [apply Z.leb_gt; lia|reflexivity]). rewrite Q. reflexivity. }
  assert (Bz: e_bits zc = sz) by reflexivity.
  assert (E0: mk_bin Add (T1e sz) zc = Ok (EBin Add (T1e sz) zc)) by (unfold mk_bin; cbn [e_bits T1e temp_k sbits zc]; rewrite Z.eqb_refl; reflexivity).
  assert (D1: den en (EBin Add lhs rhs) = Ok (mkc sz s1v)) by (rewrite den_bin, Dl, Dr; cbn [bind]; unfold sp_bin_c; cbn [cbits cval]; rewrite Z.eqb_refl; reflexivity).
  set (e1 := env_set en kT1 (mkc sz s1v)).
  assert (G11: env_get e1 kT1 = Some (mkc sz s1v)) by apply env_get_set_same.
  assert (Dzc: forall en', env_get en' kCF = Some (mkc 1 (X86.b2z cin)) -> den en' zc = Ok (mkc sz (X86.b2z cin))).
  { intros en' G. unfold zc. cbn [den]. unfold skey_of, flag_scalar. cbn [sname sssa sbits]. change (X86Lift.n_CF, @None N) with kCF. rewrite G.
    cbn [cbits bind]. rewrite Z.eqb_refl. cbn [bind]. unfold sp_ext. cbn [cbits cval]. assert (Q: (sz <=? 1) = false) by (apply Z.leb_gt; lia). rewrite Q. reflexivity. }
  assert (C1e: env_get e1 kCF = Some (mkc 1 (X86.b2z cin))) by (unfold e1; rewrite env_get_set_other by discriminate; exact Ecf).
  assert (D0: den e1 (EBin Add (T1e sz) zc) = Ok (mkc sz r)).
  { rewrite den_bin, (T1e_den e1 sz s1v G11), (Dzc e1 C1e). cbn [bind]. unfold sp_bin_c. cbn [cbits cval]. rewrite Z.eqb_refl. cbn [negb sp_bin].
    unfold s_add. rewrite Rr. reflexivity. }
  set (e2 := env_set e1 kT0 (mkc sz r)).
  assert (G20: env_get e2 kT0 = Some (mkc sz r)) by apply env_get_set_same.
  assert (G21: env_get e2 kT1 = Some (mkc sz s1v)) by (unfold e2; rewrite env_get_set_other by discriminate; exact G11).
  assert (L2': den e2 lhs = Ok (mkc sz a)) by (unfold e2, e1; rewrite !den_env_set; assumption).
  assert (R2': den e2 rhs = Ok (mkc sz b)) by (unfold e2, e1; rewrite !den_env_set; assumption).
  assert (BT: e_bits (T0e sz) = sz) by reflexivity.
  destruct (set_zf_den e2 sz r (T0e sz) BT (T0e_den e2 sz r G20)) as (zfe & Zf & Dz).
  set (e3 := env_set e2 kZF (mkc 1 (X86.b2z (r =? 0)))).
  assert (G30: env_get e3 kT0 = Some (mkc sz r)) by (unfold e3; rewrite env_get_set_other by discriminate; exact G20).
  assert (L3': den e3 lhs = Ok (mkc sz a)) by (unfold e3; rewrite den_env_set; assumption).
  assert (R3': den e3 rhs = Ok (mkc sz b)) by (unfold e3; rewrite den_env_set; assumption).
  destruct (set_sf_den e3 sz a b r lhs rhs (T0e sz) Hw Ha Hb Hr Bl Br BT L3' R3' (T0e_den e3 sz r G30)) as (sfe & Sf & Ds).
  set (e4 := env_set e3 kSF (mkc 1 (X86.b2z (X86.msb sz r)))).
  assert (G40: env_get e4 kT0 = Some (mkc sz r)) by (unfold e4; rewrite env_get_set_other by discriminate; exact G30).
  assert (L4': den e4 lhs = Ok (mkc sz a)) by (unfold e4; rewrite den_env_set; assumption).
  assert (R4': den e4 rhs = Ok (mkc sz b)) by (unfold e4; rewrite den_env_set; assumption).
  destruct (set_of_den e4 sz a b r lhs rhs (T0e sz) Hw Ha Hb Hr Bl Br BT L4' R4' (T0e_den e4 sz r G40) false) as (ofe & Of & Do).
  pose proof (of_adc_correct sz a b cin Hw Ha Hb) as OA. fold r in OA. rewrite OA in Do.
  set (e5 := env_set e4 kOF (mkc 1 (X86.b2z (X86.sovf sz (X86.Sg sz a + X86.Sg sz b + X86.b2z cin))))).
  assert (G50: env_get e5 kT0 = Some (mkc sz r)) by (unfold e5; rewrite env_get_set_other by discriminate; exact G40).
  assert (G51: env_get e5 kT1 = Some (mkc sz s1v)) by (unfold e5, e4, e3; rewrite !env_get_set_other by discriminate; exact G21).
  assert (G5c: env_get e5 kCF = Some (mkc 1 (X86.b2z cin))) by (unfold e5, e4, e3, e2; rewrite !env_get_set_other by discriminate; exact C1e).
  assert (L5': den e5 lhs = Ok (mkc sz a)) by (unfold e5; rewrite den_env_set; assumption).
  assert (R5': den e5 rhs = Ok (mkc sz b)) by (unfold e5; rewrite den_env_set; assumption).
  set (cexp := EBin Or (EBin Cmpltu (T1e sz) lhs) (EBin Cmpltu (T0e sz) (T1e sz))).
  assert (Ec: (c1 <- mk_bin Cmpltu (T1e sz) lhs ;; c2 <- mk_bin Cmpltu (T0e sz) (T1e sz) ;; mk_bin Or c1 c2) = Ok cexp).
  { unfold mk_bin. cbn [e_bits T1e T0e temp_k sbits is_cmp]. rewrite Bl, !Z.eqb_refl. cbn [negb bind e_bits is_cmp Z.eqb]. reflexivity. }
  assert (Dc: den e5 cexp = Ok (mkc 1 (X86.b2z (2 ^ sz <=? a + b + X86.b2z cin)))).
  { unfold cexp. rewrite !den_bin, (T1e_den e5 sz s1v G51), (T0e_den e5 sz r G50), L5'. cbn [bind]. unfold sp_bin_c. cbn [cbits cval].
    rewrite !Z.eqb_refl. cbn [negb sp_bin bind cbits cval Z.eqb]. unfold s_or, s_cmpltu. cbn [Pos.eqb negb]. f_equal. f_equal. unfold s1v.
    rewrite <- Rr. apply cf_adc_correct; assumption. }
  set (e6 := env_set e5 kCF (mkc 1 (X86.b2z (2 ^ sz <=? a + b + X86.b2z cin)))).
  exists (OAssign (flag_scalar X86Lift.n_ZF) zfe), (OAssign (flag_scalar X86Lift.n_SF) sfe), (OAssign (flag_scalar X86Lift.n_OF) ofe), cexp, (mkst e6 (st_mem st)).
  split; [exact E1|]. split; [exact Ez|]. split; [exact E0|]. split; [exact Zf|]. split; [exact Sf|]. split; [exact Of|]. split; [exact Ec|].
  split; [reflexivity|].
  split.
  { cbn [exec_ops]. unfold assign_flag.
    rewrite (exec_assign st (temp_k 1 sz) _ _ D1). cbn [bind fst st_env st_mem]. fold en. change (skey_of (temp_k 1 sz)) with kT1. fold e1.
    rewrite (exec_assign (mkst e1 _) (temp_k 0 sz) _ _ D0). cbn [bind fst st_env st_mem]. change (skey_of (temp_k 0 sz)) with kT0. fold e2.
    rewrite (exec_assign (mkst e2 _) _ _ _ Dz). cbn [bind fst st_env st_mem]. change (skey_of (flag_scalar X86Lift.n_ZF)) with kZF. fold e3.
    rewrite (exec_assign (mkst e3 _) _ _ _ Ds). cbn [bind fst st_env st_mem]. change (skey_of (flag_scalar X86Lift.n_SF)) with kSF. fold e4.
    rewrite (exec_assign (mkst e4 _) _ _ _ Do). cbn [bind fst st_env st_mem]. change (skey_of (flag_scalar X86Lift.n_OF)) with kOF. fold e5.
    rewrite (exec_assign (mkst e5 _) _ _ _ Dc). cbn [bind fst st_env st_mem]. change (skey_of (flag_scalar X86Lift.n_CF)) with kCF. fold e6.
    reflexivity. }
  split.
  { intros k K0 K1 K2 K3 K4 K5. cbn [st_env]. unfold e6, e5, e4, e3, e2, e1. rewrite !env_get_set_other by assumption. reflexivity. }
  split; [reflexivity|]. split; [exact Hr|]. cbn [st_env]. unfold e6.
  split; [rewrite env_get_set_other by discriminate; exact G50|].
  unfold e5, e4, e3.
  split; [rewrite !env_get_set_other by discriminate; apply env_get_set_same|].
  split; [rewrite !env_get_set_other by discriminate; apply env_get_set_same|].
  split; [rewrite !env_get_set_other by discriminate; apply env_get_set_same|].
  apply env_get_set_same.
Qed.

(* ---------- the core of sbb for arbitrary clean operand expressions ---------- *)
Lemma sbb_core st sz a b (cin : bool) lhs rhs :
  width_ok sz -> e_bits lhs = sz -> e_bits rhs = sz -> 0 <= a < 2 ^ sz -> 0 <= b < 2 ^ sz ->
  den (st_env st) lhs = Ok (mkc sz a) -> den (st_env st) rhs = Ok (mkc sz b) ->
  clean lhs = true -> clean rhs = true -> mentions kT1 lhs = false -> mentions kT1 rhs = false ->
  env_get (st_env st) kCF = Some (mkc 1 (X86.b2z cin)) ->
  let r := U sz (a - b - X86.b2z cin) in
  exists zf sf of c st',
    mk_bin Sub lhs rhs = Ok (EBin Sub lhs rhs) /\
    mk_ext Zext sz (EScalar (flag_scalar X86Lift.n_CF)) = Ok (EExt Zext sz (EScalar (flag_scalar X86Lift.n_CF))) /\
    mk_bin Sub (T1e sz) (EExt Zext sz (EScalar (flag_scalar X86Lift.n_CF))) = Ok (EBin Sub (T1e sz) (EExt Zext sz (EScalar (flag_scalar X86Lift.n_CF)))) /\
    set_zf (T0e sz) = Ok zf /\ set_sf (T0e sz) = Ok sf /\ set_of (T0e sz) lhs rhs true = Ok of /\
    (c1 <- mk_bin Cmpltu lhs rhs ;; c2 <- mk_bin Cmpltu (T1e sz) (EExt Zext sz (EScalar (flag_scalar X86Lift.n_CF))) ;; mk_bin Or c1 c2) = Ok c /\
    forallb is_assign [OAssign (temp_k 1 sz) (EBin Sub lhs rhs); OAssign (temp_k 0 sz) (EBin Sub (T1e sz) (EExt Zext sz (EScalar (flag_scalar X86Lift.n_CF)))); zf; sf; of; assign_flag X86Lift.n_CF c] = true /\
    exec_ops st [OAssign (temp_k 1 sz) (EBin Sub lhs rhs); OAssign (temp_k 0 sz) (EBin Sub (T1e sz) (EExt Zext sz (EScalar (flag_scalar X86Lift.n_CF)))); zf; sf; of; assign_flag X86Lift.n_CF c] = Ok st' /\
    (forall k, k <> kT0 -> k <> kT1 -> k <> kZF -> k <> kSF -> k <> kOF -> k <> kCF -> env_get (st_env st') k = env_get (st_env st) k) /\
    st_mem st' = st_mem st /\ 0 <= r < 2 ^ sz /\
    env_get (st_env st') kT0 = Some (mkc sz r) /\
    env_get (st_env st') kZF = Some (mkc 1 (X86.b2z (r =? 0))) /\
    env_get (st_env st') kSF = Some (mkc 1 (X86.b2z (X86.msb sz r))) /\
    env_get (st_env st') kOF = Some (mkc 1 (X86.b2z (X86.sovf sz (X86.Sg sz a - X86.Sg sz b - X86.b2z cin)))) /\
    env_get (st_env st') kCF = Some (mkc 1 (X86.b2z (a <? b + X86.b2z cin))).
Proof.
  intros Hw Bl Br Ha Hb Dl Dr Cl Cr Ml Mr Ecf r.
  destruct (clean_parts _ Cl) as (L0 & L1 & L2 & L3 & L4). destruct (clean_parts _ Cr) as (R0 & R1 & R2 & R3 & R4).
  assert (Hp: 0 < 2 ^ sz) by (destruct Hw as [->|[->|[->| ->]]]; reflexivity).
  assert (S8: 1 < sz) by (destruct Hw as [->|[->|[->| ->]]]; lia).
  set (s1v := U sz (a - b)).
  assert (Hs1: 0 <= s1v < 2 ^ sz) by (unfold s1v, U; apply Z.mod_pos_bound; exact Hp).
  assert (Hr: 0 <= r < 2 ^ sz) by (unfold r, U; apply Z.mod_pos_bound; exact Hp).
  assert (Rr: U sz (s1v - X86.b2z cin) = r) by (unfold s1v, r; apply sbb_result; exact Hw).
  set (en := st_env st) in *.
  set (zc := EExt Zext sz (EScalar (flag_scalar X86Lift.n_CF))).
  assert (E1: mk_bin Sub lhs rhs = Ok (EBin Sub lhs rhs)) by (unfold mk_bin; rewrite Bl, Br, Z.eqb_refl; reflexivity).
  assert (Ez: mk_ext Zext sz (EScalar (flag_scalar X86Lift.n_CF)) = Ok zc).
  { unfold mk_ext. cbn [e_bits flag_scalar sbits]. assert (Q: (sz <=? 1) || (1 =? 0) = false) by (apply orb_false_iff; split; [apply Z.leb_gt; lia|reflexivity]). rewrite Q. reflexivity. }
  assert (Bz: e_bits zc = sz) by reflexivity.
  assert (E0: mk_bin Sub (T1e sz) zc = Ok (EBin Sub (T1e sz) zc)) by (unfold mk_bin; cbn [e_bits T1e temp_k sbits zc]; rewrite Z.eqb_refl; reflexivity).
  assert (D1: den en (EBin Sub lhs rhs) = Ok (mkc sz s1v)) by (rewrite den_bin, Dl, Dr; cbn [bind]; unfold sp_bin_c; cbn [cbits cval]; rewrite Z.eqb_refl; reflexivity).
  set (e1 := env_set en kT1 (mkc sz s1v)).
  assert (G11: env_get e1 kT1 = Some (mkc sz s1v)) by apply env_get_set_same.
  assert (Dzc: forall en', env_get en' kCF = Some (mkc 1 (X86.b2z cin)) -> den en' zc = Ok (mkc sz (X86.b2z cin))).
  { intros en' G. unfold zc. cbn [den]. unfold skey_of, flag_scalar. cbn [sname sssa sbits]. change (X86Lift.n_CF, @None N) with kCF. rewrite G.
    cbn [cbits bind]. rewrite Z.eqb_refl. cbn [bind]. unfold sp_ext. cbn [cbits cval]. assert (Q: (sz <=? 1) = false) by (apply Z.leb_gt; lia). rewrite Q. reflexivity. }
  assert (C1e: env_get e1 kCF = Some (mkc 1 (X86.b2z cin))) by (unfold e1; rewrite env_get_set_other by discriminate; exact Ecf).
  assert (D0: den e1 (EBin Sub (T1e sz) zc) = Ok (mkc sz r)).
  { rewrite den_bin, (T1e_den e1 sz s1v G11), (Dzc e1 C1e). cbn [bind]. unfold sp_bin_c. cbn [cbits cval]. rewrite Z.eqb_refl. cbn [negb sp_bin].
    unfold s_sub. rewrite Rr. reflexivity. }
  set (e2 := env_set e1 kT0 (mkc sz r)).
  assert (G20: env_get e2 kT0 = Some (mkc sz r)) by apply env_get_set_same.
  assert (G21: env_get e2 kT1 = Some (mkc sz s1v)) by (unfold e2; rewrite env_get_set_other by discriminate; exact G11).
  assert (L2': den e2 lhs = Ok (mkc sz a)) by (unfold e2, e1; rewrite !den_env_set; assumption).
  assert (R2': den e2 rhs = Ok (mkc sz b)) by (unfold e2, e1; rewrite !den_env_set; assumption).
  assert (BT: e_bits (T0e sz) = sz) by reflexivity.
  destruct (set_zf_den e2 sz r (T0e sz) BT (T0e_den e2 sz r G20)) as (zfe & Zf & Dz).
  set (e3 := env_set e2 kZF (mkc 1 (X86.b2z (r =? 0)))).
  assert (G30: env_get e3 kT0 = Some (mkc sz r)) by (unfold e3; rewrite env_get_set_other by discriminate; exact G20).
  assert (L3': den e3 lhs = Ok (mkc sz a)) by (unfold e3; rewrite den_env_set; assumption).
  assert (R3': den e3 rhs = Ok (mkc sz b)) by (unfold e3; rewrite den_env_set; assumption).
  destruct (set_sf_den e3 sz a b r lhs rhs (T0e sz) Hw Ha Hb Hr Bl Br BT L3' R3' (T0e_den e3 sz r G30)) as (sfe & Sf & Ds).
  set (e4 := env_set e3 kSF (mkc 1 (X86.b2z (X86.msb sz r)))).
  assert (G40: env_get e4 kT0 = Some (mkc sz r)) by (unfold e4; rewrite env_get_set_other by discriminate; exact G30).
  assert (L4': den e4 lhs = Ok (mkc sz a)) by (unfold e4; rewrite den_env_set; assumption).
  assert (R4': den e4 rhs = Ok (mkc sz b)) by (unfold e4; rewrite den_env_set; assumption).
  destruct (set_of_den e4 sz a b r lhs rhs (T0e sz) Hw Ha Hb Hr Bl Br BT L4' R4' (T0e_den e4 sz r G40) true) as (ofe & Of & Do).
  pose proof (of_sbb_correct sz a b cin Hw Ha Hb) as OA. fold r in OA. rewrite OA in Do.
  set (e5 := env_set e4 kOF (mkc 1 (X86.b2z (X86.sovf sz (X86.Sg sz a - X86.Sg sz b - X86.b2z cin))))).
  assert (G50: env_get e5 kT0 = Some (mkc sz r)) by (unfold e5; rewrite env_get_set_other by discriminate; exact G40).
  assert (G51: env_get e5 kT1 = Some (mkc sz s1v)) by (unfold e5, e4, e3; rewrite !env_get_set_other by discriminate; exact G21).
  assert (G5c: env_get e5 kCF = Some (mkc 1 (X86.b2z cin))) by (unfold e5, e4, e3, e2; rewrite !env_get_set_other by discriminate; exact C1e).
  assert (L5': den e5 lhs = Ok (mkc sz a)) by (unfold e5; rewrite den_env_set; assumption).
  assert (R5': den e5 rhs = Ok (mkc sz b)) by (unfold e5; rewrite den_env_set; assumption).
  set (cexp := EBin Or (EBin Cmpltu lhs rhs) (EBin Cmpltu (T1e sz) zc)).
  assert (Ec: (c1 <- mk_bin Cmpltu lhs rhs ;; c2 <- mk_bin Cmpltu (T1e sz) zc ;; mk_bin Or c1 c2) = Ok cexp).
  { unfold mk_bin. cbn [e_bits T1e temp_k sbits is_cmp zc]. rewrite Bl, Br, !Z.eqb_refl. cbn [negb bind e_bits is_cmp Z.eqb]. reflexivity. }
  assert (Dc: den e5 cexp = Ok (mkc 1 (X86.b2z (a <? b + X86.b2z cin)))).
  { unfold cexp. rewrite !den_bin, (T1e_den e5 sz s1v G51), (Dzc e5 G5c), L5', R5'. cbn [bind]. unfold sp_bin_c. cbn [cbits cval].
    rewrite !Z.eqb_refl. cbn [negb sp_bin bind cbits cval Z.eqb]. unfold s_or, s_cmpltu. cbn [Pos.eqb negb]. f_equal. f_equal. unfold s1v.
    apply cf_sbb_correct; assumption. }
  set (e6 := env_set e5 kCF (mkc 1 (X86.b2z (a <? b + X86.b2z cin)))).
  exists (OAssign (flag_scalar X86Lift.n_ZF) zfe), (OAssign (flag_scalar X86Lift.n_SF) sfe), (OAssign (flag_scalar X86Lift.n_OF) ofe), cexp, (mkst e6 (st_mem st)).
  split; [exact E1|]. split; [exact Ez|]. split; [exact E0|]. split; [exact Zf|]. split; [exact Sf|]. split; [exact Of|]. split; [exact Ec|].
  split; [reflexivity|].
  split.
  { cbn [exec_ops]. unfold assign_flag.
    rewrite (exec_assign st (temp_k 1 sz) _ _ D1). cbn [bind fst st_env st_mem]. fold en. change (skey_of (temp_k 1 sz)) with kT1. fold e1.
    rewrite (exec_assign (mkst e1 _) (temp_k 0 sz) _ _ D0). cbn [bind fst st_env st_mem]. change (skey_of (temp_k 0 sz)) with kT0. fold e2.
    rewrite (exec_assign (mkst e2 _) _ _ _ Dz). cbn [bind fst st_env st_mem]. change (skey_of (flag_scalar X86Lift.n_ZF)) with kZF. fold e3.
    rewrite (exec_assign (mkst e3 _) _ _ _ Ds). cbn [bind fst st_env st_mem]. change (skey_of (flag_scalar X86Lift.n_SF)) with kSF. fold e4.
    rewrite (exec_assign (mkst e4 _) _ _ _ Do). cbn [bind fst st_env st_mem]. change (skey_of (flag_scalar X86Lift.n_OF)) with kOF. fold e5.
    rewrite (exec_assign (mkst e5 _) _ _ _ Dc). cbn [bind fst st_env st_mem]. change (skey_of (flag_scalar X86Lift.n_CF)) with kCF. fold e6.
    reflexivity. }
  split.
  { intros k K0 K1 K2 K3 K4 K5. cbn [st_env]. unfold e6, e5, e4, e3, e2, e1. rewrite !env_get_set_other by assumption. reflexivity. }
  split; [reflexivity|]. split; [exact Hr|]. cbn [st_env]. unfold e6.
  split; [rewrite env_get_set_other by discriminate; exact G50|].
  unfold e5, e4, e3.
  split; [rewrite !env_get_set_other by discriminate; apply env_get_set_same|].
  split; [rewrite !env_get_set_other by discriminate; apply env_get_set_same|].
  split; [rewrite !env_get_set_other by discriminate; apply env_get_set_same|].
  apply env_get_set_same.
Qed.
