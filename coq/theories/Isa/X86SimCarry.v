(* Isa/X86SimCarry.v -- generic finishers (register / memory / no destination) for builders that compute a result
   and flags, and adc / sbb on top of them. *)
From Coq Require Import ZArith List Bool NArith Lia ZifyBool.
From Falcon Require Import Base.Res IL.Const IL.ConstSpec IL.ConstProofs IL.Expr IL.ExprSpec IL.Func IL.Loc Exec.Sem.
From Falcon Require Import Isa.X86 Isa.X86Run Isa.X86Lift Isa.X86Mirror Isa.X86Proofs Isa.X86Sim Isa.C01Check Isa.X86Tie Isa.X86SimMem.
Import ListNotations.
Local Open Scope Z_scope.
Ltac Zify.zify_post_hook ::= Z.div_mod_to_equations.

(* the machine state with new flags is embedded in an IL state that kept the register scalars, DF and memory of an
   embedding of the old one and holds the new flags *)
Lemma emb_after_flags m s st st2 (fl' : flags) :
  wf m s -> emb m s st ->
  (forall r0, 0 <= r0 < ngpr m -> env_get (st_env st2) (gpr_name m r0, None) = env_get (st_env st) (gpr_name m r0, None)) ->
  env_get (st_env st2) kDF = env_get (st_env st) kDF -> st_mem st2 = st_mem st -> f_df fl' = f_df (x_fl s) ->
  emb_flag (f_cf fl') (st_env st2) kCF -> emb_flag (f_zf fl') (st_env st2) kZF ->
  emb_flag (f_sf fl') (st_env st2) kSF -> emb_flag (f_of fl') (st_env st2) kOF ->
  emb m (set_fl s fl') st2 /\ wf m (set_fl s fl').
Proof.
  intros Hw He Fr Fd Hm Hdf Ec Ez Es Eo. split.
  - constructor; cbn [set_fl x_gpr x_fl x_mem]; try assumption.
    + intros r0 Hr0. rewrite Fr by exact Hr0. apply (emb_gpr _ _ _ He). exact Hr0.
    + rewrite Hdf. pose proof (emb_df _ _ _ He) as D. unfold emb_flag in *.
      destruct (f_df (x_fl s)); [rewrite Fd; exact D|destruct D as [v0 D]; exists v0; rewrite Fd; exact D].
    + intros a0. rewrite Hm. apply (emb_mem _ _ _ He).
    + rewrite Hm. apply (emb_le _ _ _ He).
  - constructor; cbn [set_fl x_gpr x_mem]; [apply (wf_len _ _ Hw)|apply (wf_rng _ _ Hw)|apply (wf_bytes _ _ Hw)].
Qed.

Lemma wr_op_reg_fl sz dst r s fl' g' : isreg dst = true ->
  wr_op sz dst r (set_fl s fl') = Some (set_gpr (set_fl s fl') g') ->
  option_map (fun s1 => set_fl s1 fl') (wr_op sz dst r s) = Some (set_gpr (set_fl s fl') g').
Proof.
  intros Hi H. destruct dst; try discriminate Hi; unfold wr_op, wr_op_at in *; cbn [set_fl x_gpr] in *; inversion H as [E];
    cbn [option_map]; f_equal; unfold set_gpr, set_fl; cbn [x_gpr x_ugpr x_xmm x_fl x_mem]; rewrite E; reflexivity.
Qed.

(* finish with a register destination *)
Lemma finish_reg m s st st2 dst sz sd r ve (fl' : flags) :
  wf m s -> emb m s st -> 0 <= oreg dst < ngpr m -> isreg dst = true ->
  operand_shape m sz dst = Some (gpr_name m (oreg dst), sd) ->
  0 <= r < 2 ^ sz -> e_bits ve = sz -> den (st_env st2) ve = Ok (mkc sz r) ->
  (forall r0, 0 <= r0 < ngpr m -> env_get (st_env st2) (gpr_name m r0, None) = env_get (st_env st) (gpr_name m r0, None)) ->
  env_get (st_env st2) kDF = env_get (st_env st) kDF -> st_mem st2 = st_mem st -> f_df fl' = f_df (x_fl s) ->
  emb_flag (f_cf fl') (st_env st2) kCF -> emb_flag (f_zf fl') (st_env st2) kZF ->
  emb_flag (f_sf fl') (st_env st2) kSF -> emb_flag (f_of fl') (st_env st2) kOF ->
  exists o1 st3 s', ops_store m sz dst ve = Ok [o1] /\ is_assign o1 = true /\ exec_ops st2 [o1] = Ok st3 /\
    option_map (fun s1 => set_fl s1 fl') (wr_op sz dst r s) = Some s' /\ emb m s' st3 /\ wf m s'.
Proof.
  intros Hw He Hr Hi Hs Hres Bv Dv Fr Fd Hm Hdf Ec Ez Es Eo.
  destruct (emb_after_flags m s st st2 fl' Hw He Fr Fd Hm Hdf Ec Ez Es Eo) as (He2 & Hw2).
  destruct (assign_reg_exec m (set_fl s fl') st2 dst sz sd ve r Hw2 He2 Hr Hi Hs Bv Hres Dv)
    as (o1 & Hops & Ia & st3 & g' & Hex & Hwr & Hemb & Hwf).
  exists o1, st3, (set_gpr (set_fl s fl') g'). split; [exact Hops|]. split; [exact Ia|]. split; [exact Hex|].
  split; [apply wr_op_reg_fl; assumption|]. auto.
Qed.

(* finish with a memory destination *)
Lemma finish_mem m s st st2 dst sz r ae ve (fl' : flags) :
  wf m s -> emb m s st -> mem_operand_ok m dst -> width_ok sz -> no_wrap sz dst s ->
  addr_expr m dst = Some (Ok ae) -> 0 <= r < 2 ^ sz -> den (st_env st2) ve = Ok (mkc sz r) ->
  (forall r0, 0 <= r0 < ngpr m -> env_get (st_env st2) (gpr_name m r0, None) = env_get (st_env st) (gpr_name m r0, None)) ->
  env_get (st_env st2) kDF = env_get (st_env st) kDF -> st_mem st2 = st_mem st -> f_df fl' = f_df (x_fl s) ->
  emb_flag (f_cf fl') (st_env st2) kCF -> emb_flag (f_zf fl') (st_env st2) kZF ->
  emb_flag (f_sf fl') (st_env st2) kSF -> emb_flag (f_of fl') (st_env st2) kOF ->
  forall s', option_map (fun s1 => set_fl s1 fl') (wr_op sz dst r s) = Some s' ->
  exists st3, exec_ops st2 [OStore ae ve] = Ok st3 /\ emb m s' st3 /\ wf m s'.
Proof.
  intros Hw He Hd Hwd Hnw Ea Hr Dv Fr Fd Hm Hdf Ec Ez Es Eo s' Hs'.
  destruct (emb_after_flags m s st st2 fl' Hw He Fr Fd Hm Hdf Ec Ez Es Eo) as (He2 & Hw2).
  set (s2 := set_fl s fl') in *.
  destruct (mem_operand_facts m dst s2 Hw2 Hd) as (Hea & A64 & P64 & Im).
  destruct (addr_expr_correct m dst s2 st2 Hw2 He2 Hd) as (ae' & Ea' & _ & Da). rewrite Ea in Ea'. inversion Ea'; subst ae'.
  assert (Hwr: wr_op sz dst r s = option_map (set_mem s) (mem_wr (x_mem s) (op_asz dst) (ea (x_gpr s) dst) r (nbytes sz))).
  { destruct dst; try discriminate Im. unfold wr_op, wr_op_at. cbn [op_asz]. destruct (mem_wr (x_mem s) asz _ r (nbytes sz)); reflexivity. }
  rewrite Hwr in Hs'. destruct (mem_wr (x_mem s) (op_asz dst) (ea (x_gpr s) dst) r (nbytes sz)) as [xm'|] eqn:Hmw; cbn [option_map] in Hs'; [|discriminate].
  inversion Hs'; subst s'.
  assert (Hmw2: mem_wr (x_mem s2) (op_asz dst) (ea (x_gpr s2) dst) r (nbytes sz) = Some xm') by exact Hmw.
  assert (Hnw2: no_wrap sz dst s2) by exact Hnw.
  destruct (mem_store_spec (x_mem s2) (st_mem st2) (op_asz dst) sz (ea (x_gpr s2) dst) r xm' (emb_mem _ _ _ He2) (emb_le _ _ _ He2) Hwd (proj1 Hea) Hnw2 A64 Hmw2)
    as (bm' & Hst & Hag & Hle).
  assert (L64: ea (x_gpr s2) dst < 2 ^ 64) by lia.
  pose proof (exec_store st2 ae ve (wordsz m) (ea (x_gpr s2) dst) (mkc sz r) bm' Dv Da L64 Hst) as Ex.
  exists (mkst (st_env st2) bm'). split; [cbn [exec_ops]; rewrite Ex; reflexivity|].
  split.
  - constructor; cbn [set_fl set_mem x_gpr x_fl x_mem st_env st_mem];
      [apply (emb_gpr _ _ _ He2)|apply (emb_cf _ _ _ He2)|apply (emb_zf _ _ _ He2)|apply (emb_sf _ _ _ He2)|apply (emb_of _ _ _ He2)|apply (emb_df _ _ _ He2)|exact Hag|exact Hle].
  - constructor; cbn [set_fl set_mem x_gpr x_mem]; [apply (wf_len _ _ Hw)|apply (wf_rng _ _ Hw)|].
    apply (wr_bytes_ok _ _ _ _ _ _ (wf_bytes _ _ Hw) Hmw).
Qed.

(* ---------- value lemmas for add-with-carry / subtract-with-borrow ---------- *)
Lemma of_adc_correct w a b (cin : bool) : width_ok w -> 0 <= a < 2 ^ w -> 0 <= b < 2 ^ w ->
  of_value w a b (U w (a + b + X86.b2z cin)) false = X86.b2z (X86.sovf w (X86.Sg w a + X86.Sg w b + X86.b2z cin)).
Proof.
  intros Hw Ha Hb.
  destruct Hw as [->|[->|[->| ->]]];
    (rewrite of_value_bits by (try lia; try assumption; unfold U; apply Z.mod_pos_bound; reflexivity));
    destruct cin; cbn [X86.b2z]; flag_arith.
Qed.
Lemma of_sbb_correct w a b (cin : bool) : width_ok w -> 0 <= a < 2 ^ w -> 0 <= b < 2 ^ w ->
  of_value w a b (U w (a - b - X86.b2z cin)) true = X86.b2z (X86.sovf w (X86.Sg w a - X86.Sg w b - X86.b2z cin)).
Proof.
  intros Hw Ha Hb.
  destruct Hw as [->|[->|[->| ->]]];
    (rewrite of_value_bits by (try lia; try assumption; unfold U; apply Z.mod_pos_bound; reflexivity));
    destruct cin; cbn [X86.b2z]; flag_arith.
Qed.
Lemma cf_adc_correct w a b (cin : bool) : width_ok w -> 0 <= a < 2 ^ w -> 0 <= b < 2 ^ w ->
  Z.lor (if U w (a + b) <? a then 1 else 0) (if U w (U w (a + b) + X86.b2z cin) <? U w (a + b) then 1 else 0)
  = X86.b2z (2 ^ w <=? a + b + X86.b2z cin).
Proof.
  intros Hw Ha Hb. destruct Hw as [->|[->|[->| ->]]]; unfold U in *; pows; destruct cin; unfold X86.b2z;
    repeat match goal with |- context [if ?c then _ else _] => destruct c eqn:? end; cbn; try reflexivity; exfalso; lia.
Qed.
Lemma cf_sbb_correct w a b (cin : bool) : width_ok w -> 0 <= a < 2 ^ w -> 0 <= b < 2 ^ w ->
  Z.lor (if a <? b then 1 else 0) (if U w (a - b) <? X86.b2z cin then 1 else 0) = X86.b2z (a <? b + X86.b2z cin).
Proof.
  intros Hw Ha Hb. destruct Hw as [->|[->|[->| ->]]]; unfold U in *; pows; destruct cin; unfold X86.b2z;
    repeat match goal with |- context [if ?c then _ else _] => destruct c eqn:? end; cbn; try reflexivity; exfalso; lia.
Qed.
Lemma adc_result w a b (cin : bool) : width_ok w -> U w (U w (a + b) + X86.b2z cin) = U w (a + b + X86.b2z cin).
Proof. intros Hw. unfold U. rewrite Zplus_mod_idemp_l. reflexivity. Qed.
Lemma sbb_result w a b (cin : bool) : width_ok w -> U w (U w (a - b) - X86.b2z cin) = U w (a - b - X86.b2z cin).
Proof. intros Hw. unfold U. rewrite Zminus_mod_idemp_l. reflexivity. Qed.

Definition kT1 : skey := (54%N, None).
Definition T1e (sz : Z) : expr := EScalar (temp_k 1 sz).
Lemma T1e_den en sz r : env_get en kT1 = Some (mkc sz r) -> den en (T1e sz) = Ok (mkc sz r).
Proof. intros G. unfold T1e. cbn [den]. unfold skey_of, temp_k. cbn [sname sssa sbits]. change (Z.to_N (53 + 1), @None N) with kT1. rewrite G. cbn [cbits]. rewrite Z.eqb_refl. reflexivity. Qed.

(* ---------- the core of adc for arbitrary clean operand expressions ---------- *)
Lemma adc_core st sz a b (cin : bool) lhs rhs :
  width_ok sz -> e_bits lhs = sz -> e_bits rhs = sz -> 0 <= a < 2 ^ sz -> 0 <= b < 2 ^ sz ->
  den (st_env st) lhs = Ok (mkc sz a) -> den (st_env st) rhs = Ok (mkc sz b) ->
  clean lhs = true -> clean rhs = true -> mentions kT1 lhs = false -> mentions kT1 rhs = false ->
  env_get (st_env st) kCF = Some (mkc 1 (X86.b2z cin)) ->
  let r := U sz (a + b + X86.b2z cin) in
  exists zf sf of c st',
    mk_bin Add lhs rhs = Ok (EBin Add lhs rhs) /\
    mk_ext Zext sz (EScalar (flag_scalar X86Lift.n_CF)) = Ok (EExt Zext sz (EScalar (flag_scalar X86Lift.n_CF))) /\
    mk_bin Add (T1e sz) (EExt Zext sz (EScalar (flag_scalar X86Lift.n_CF))) = Ok (EBin Add (T1e sz) (EExt Zext sz (EScalar (flag_scalar X86Lift.n_CF)))) /\
    set_zf (T0e sz) = Ok zf /\ set_sf (T0e sz) = Ok sf /\ set_of (T0e sz) lhs rhs false = Ok of /\
    (c1 <- mk_bin Cmpltu (T1e sz) lhs ;; c2 <- mk_bin Cmpltu (T0e sz) (T1e sz) ;; mk_bin Or c1 c2) = Ok c /\
    forallb is_assign [OAssign (temp_k 1 sz) (EBin Add lhs rhs); OAssign (temp_k 0 sz) (EBin Add (T1e sz) (EExt Zext sz (EScalar (flag_scalar X86Lift.n_CF)))); zf; sf; of; assign_flag X86Lift.n_CF c] = true /\
    exec_ops st [OAssign (temp_k 1 sz) (EBin Add lhs rhs); OAssign (temp_k 0 sz) (EBin Add (T1e sz) (EExt Zext sz (EScalar (flag_scalar X86Lift.n_CF)))); zf; sf; of; assign_flag X86Lift.n_CF c] = Ok st' /\
    (forall k, k <> kT0 -> k <> kT1 -> k <> kZF -> k <> kSF -> k <> kOF -> k <> kCF -> env_get (st_env st') k = env_get (st_env st) k) /\
    st_mem st' = st_mem st /\ 0 <= r < 2 ^ sz /\
    env_get (st_env st') kT0 = Some (mkc sz r) /\
    env_get (st_env st') kZF = Some (mkc 1 (X86.b2z (r =? 0))) /\
    env_get (st_env st') kSF = Some (mkc 1 (X86.b2z (X86.msb sz r))) /\
    env_get (st_env st') kOF = Some (mkc 1 (X86.b2z (X86.sovf sz (X86.Sg sz a + X86.Sg sz b + X86.b2z cin)))) /\
    env_get (st_env st') kCF = Some (mkc 1 (X86.b2z (2 ^ sz <=? a + b + X86.b2z cin))).
Proof.
  intros Hw Bl Br Ha Hb Dl Dr Cl Cr Ml Mr Ecf r.
  destruct (clean_parts _ Cl) as (L0 & L1 & L2 & L3 & L4). destruct (clean_parts _ Cr) as (R0 & R1 & R2 & R3 & R4).
  assert (Hp: 0 < 2 ^ sz) by (destruct Hw as [->|[->|[->| ->]]]; reflexivity).
  assert (S8: 1 < sz) by (destruct Hw as [->|[->|[->| ->]]]; lia).
  set (s1v := U sz (a + b)).
  assert (Hs1: 0 <= s1v < 2 ^ sz) by (unfold s1v, U; apply Z.mod_pos_bound; exact Hp).
  assert (Hr: 0 <= r < 2 ^ sz) by (unfold r, U; apply Z.mod_pos_bound; exact Hp).
  assert (Rr: U sz (s1v + X86.b2z cin) = r) by (unfold s1v, r; apply adc_result; exact Hw).
  set (en := st_env st) in *.
  set (zc := EExt Zext sz (EScalar (flag_scalar X86Lift.n_CF))).
  assert (E1: mk_bin Add lhs rhs = Ok (EBin Add lhs rhs)) by (unfold mk_bin; rewrite Bl, Br, Z.eqb_refl; reflexivity).
  assert (Ez: mk_ext Zext sz (EScalar (flag_scalar X86Lift.n_CF)) = Ok zc).
  { unfold mk_ext. cbn [e_bits flag_scalar sbits]. assert (Q: (sz <=? 1) || (1 =? 0) = false) by (apply orb_false_iff; split; [apply Z.leb_gt; lia|reflexivity]). rewrite Q. reflexivity. }
  assert (Bz: e_bits zc = sz) by reflexivity.
  assert (E0: mk_bin Add (T1e sz) zc = Ok (EBin Add (T1e sz) zc)) by (unfold mk_bin; cbn [e_bits T1e temp_k sbits zc]; rewrite Z.eqb_refl; reflexivity).
  assert (D1: den en (EBin Add lhs rhs) = Ok (mkc sz s1v)) by (rewrite den_bin, Dl, Dr; cbn [bind]; unfold sp_bin_c; cbn [cbits cval]; rewrite Z.eqb_refl; reflexivity).
  set (e1 := env_set en kT1 (mkc sz s1v)).
  assert (G11: env_get e1 kT1 = Some (mkc sz s1v)) by apply env_get_set_same.
  assert (Dzc: forall en', env_get en' kCF = Some (mkc 1 (X86.b2z cin)) -> den en' zc = Ok (mkc sz (X86.b2z cin))).
  { intros en' G. unfold zc. cbn [den]. unfold skey_of, flag_scalar. cbn [sname sssa sbits]. change (X86Lift.n_CF, @None N) with kCF. rewrite G.
    cbn [cbits bind]. rewrite Z.eqb_refl. cbn [bind]. unfold sp_ext. cbn [cbits cval]. assert (Q: (sz <=? 1) = false) by (apply Z.leb_gt; lia). rewrite Q. reflexivity. }
  assert (C1e: env_get e1 kCF = Some (mkc 1 (X86.b2z cin))) by (unfold e1; rewrite env_get_set_other by discriminate; exact Ecf).
  assert (D0: den e1 (EBin Add (T1e sz) zc) = Ok (mkc sz r)).
  { rewrite den_bin, (T1e_den e1 sz s1v G11), (Dzc e1 C1e). cbn [bind]. unfold sp_bin_c. cbn [cbits cval]. rewrite Z.eqb_refl. cbn [negb sp_bin].
    unfold s_add. rewrite Rr. reflexivity. }
  set (e2 := env_set e1 kT0 (mkc sz r)).
  assert (G20: env_get e2 kT0 = Some (mkc sz r)) by apply env_get_set_same.
  assert (G21: env_get e2 kT1 = Some (mkc sz s1v)) by (unfold e2; rewrite env_get_set_other by discriminate; exact G11).
  assert (L2': den e2 lhs = Ok (mkc sz a)) by (unfold e2, e1; rewrite !den_env_set; assumption).
  assert (R2': den e2 rhs = Ok (mkc sz b)) by (unfold e2, e1; rewrite !den_env_set; assumption).
  assert (BT: e_bits (T0e sz) = sz) by reflexivity.
  destruct (set_zf_den e2 sz r (T0e sz) BT (T0e_den e2 sz r G20)) as (zfe & Zf & Dz).
  set (e3 := env_set e2 kZF (mkc 1 (X86.b2z (r =? 0)))).
  assert (G30: env_get e3 kT0 = Some (mkc sz r)) by (unfold e3; rewrite env_get_set_other by discriminate; exact G20).
  assert (L3': den e3 lhs = Ok (mkc sz a)) by (unfold e3; rewrite den_env_set; assumption).
  assert (R3': den e3 rhs = Ok (mkc sz b)) by (unfold e3; rewrite den_env_set; assumption).
  destruct (set_sf_den e3 sz a b r lhs rhs (T0e sz) Hw Ha Hb Hr Bl Br BT L3' R3' (T0e_den e3 sz r G30)) as (sfe & Sf & Ds).
  set (e4 := env_set e3 kSF (mkc 1 (X86.b2z (X86.msb sz r)))).
  assert (G40: env_get e4 kT0 = Some (mkc sz r)) by (unfold e4; rewrite env_get_set_other by discriminate; exact G30).
  assert (L4': den e4 lhs = Ok (mkc sz a)) by (unfold e4; rewrite den_env_set; assumption).
  assert (R4': den e4 rhs = Ok (mkc sz b)) by (unfold e4; rewrite den_env_set; assumption).
  destruct (set_of_den e4 sz a b r lhs rhs (T0e sz) Hw Ha Hb Hr Bl Br BT L4' R4' (T0e_den e4 sz r G40) false) as (ofe & Of & Do).
  pose proof (of_adc_correct sz a b cin Hw Ha Hb) as OA. fold r in OA. rewrite OA in Do.
  set (e5 := env_set e4 kOF (mkc 1 (X86.b2z (X86.sovf sz (X86.Sg sz a + X86.Sg sz b + X86.b2z cin))))).
  assert (G50: env_get e5 kT0 = Some (mkc sz r)) by (unfold e5; rewrite env_get_set_other by discriminate; exact G40).
  assert (G51: env_get e5 kT1 = Some (mkc sz s1v)) by (unfold e5, e4, e3; rewrite !env_get_set_other by discriminate; exact G21).
  assert (G5c: env_get e5 kCF = Some (mkc 1 (X86.b2z cin))) by (unfold e5, e4, e3, e2; rewrite !env_get_set_other by discriminate; exact C1e).
  assert (L5': den e5 lhs = Ok (mkc sz a)) by (unfold e5; rewrite den_env_set; assumption).
  assert (R5': den e5 rhs = Ok (mkc sz b)) by (unfold e5; rewrite den_env_set; assumption).
  set (cexp := EBin Or (EBin Cmpltu (T1e sz) lhs) (EBin Cmpltu (T0e sz) (T1e sz))).
  assert (Ec: (c1 <- mk_bin Cmpltu (T1e sz) lhs ;; c2 <- mk_bin Cmpltu (T0e sz) (T1e sz) ;; mk_bin Or c1 c2) = Ok cexp).
  { unfold mk_bin. cbn [e_bits T1e T0e temp_k sbits is_cmp]. rewrite Bl, !Z.eqb_refl. cbn [negb bind e_bits is_cmp Z.eqb]. reflexivity. }
  assert (Dc: den e5 cexp = Ok (mkc 1 (X86.b2z (2 ^ sz <=? a + b + X86.b2z cin)))).
  { unfold cexp. rewrite !den_bin, (T1e_den e5 sz s1v G51), (T0e_den e5 sz r G50), L5'. cbn [bind]. unfold sp_bin_c. cbn [cbits cval].
    rewrite !Z.eqb_refl. cbn [negb sp_bin bind cbits cval Z.eqb]. unfold s_or, s_cmpltu. cbn [Pos.eqb negb]. f_equal. f_equal. unfold s1v.
    rewrite <- Rr. apply cf_adc_correct; assumption. }
  set (e6 := env_set e5 kCF (mkc 1 (X86.b2z (2 ^ sz <=? a + b + X86.b2z cin)))).
  exists (OAssign (flag_scalar X86Lift.n_ZF) zfe), (OAssign (flag_scalar X86Lift.n_SF) sfe), (OAssign (flag_scalar X86Lift.n_OF) ofe), cexp, (mkst e6 (st_mem st)).
  split; [exact E1|]. split; [exact Ez|]. split; [exact E0|]. split; [exact Zf|]. split; [exact Sf|]. split; [exact Of|]. split; [exact Ec|].
  split; [reflexivity|].
  split.
  { cbn [exec_ops]. unfold assign_flag.
    rewrite (exec_assign st (temp_k 1 sz) _ _ D1). cbn [bind fst st_env st_mem]. fold en. change (skey_of (temp_k 1 sz)) with kT1. fold e1.
    rewrite (exec_assign (mkst e1 _) (temp_k 0 sz) _ _ D0). cbn [bind fst st_env st_mem]. change (skey_of (temp_k 0 sz)) with kT0. fold e2.
    rewrite (exec_assign (mkst e2 _) _ _ _ Dz). cbn [bind fst st_env st_mem]. change (skey_of (flag_scalar X86Lift.n_ZF)) with kZF. fold e3.
    rewrite (exec_assign (mkst e3 _) _ _ _ Ds). cbn [bind fst st_env st_mem]. change (skey_of (flag_scalar X86Lift.n_SF)) with kSF. fold e4.
    rewrite (exec_assign (mkst e4 _) _ _ _ Do). cbn [bind fst st_env st_mem]. change (skey_of (flag_scalar X86Lift.n_OF)) with kOF. fold e5.
    rewrite (exec_assign (mkst e5 _) _ _ _ Dc). cbn [bind fst st_env st_mem]. change (skey_of (flag_scalar X86Lift.n_CF)) with kCF. fold e6.
    reflexivity. }
  split.
  { intros k K0 K1 K2 K3 K4 K5. cbn [st_env]. unfold e6, e5, e4, e3, e2, e1. rewrite !env_get_set_other by assumption. reflexivity. }
  split; [reflexivity|]. split; [exact Hr|]. cbn [st_env]. unfold e6.
  split; [rewrite env_get_set_other by discriminate; exact G50|].
  unfold e5, e4, e3.
  split; [rewrite !env_get_set_other by discriminate; apply env_get_set_same|].
  split; [rewrite !env_get_set_other by discriminate; apply env_get_set_same|].
  split; [rewrite !env_get_set_other by discriminate; apply env_get_set_same|].
  apply env_get_set_same.
Qed.

(* ---------- the core of sbb for arbitrary clean operand expressions ---------- *)
Lemma sbb_core st sz a b (cin : bool) lhs rhs :
  width_ok sz -> e_bits lhs = sz -> e_bits rhs = sz -> 0 <= a < 2 ^ sz -> 0 <= b < 2 ^ sz ->
  den (st_env st) lhs = Ok (mkc sz a) -> den (st_env st) rhs = Ok (mkc sz b) ->
  clean lhs = true -> clean rhs = true -> mentions kT1 lhs = false -> mentions kT1 rhs = false ->
  env_get (st_env st) kCF = Some (mkc 1 (X86.b2z cin)) ->
  let r := U sz (a - b - X86.b2z cin) in
  exists zf sf of c st',
    mk_bin Sub lhs rhs = Ok (EBin Sub lhs rhs) /\
    mk_ext Zext sz (EScalar (flag_scalar X86Lift.n_CF)) = Ok (EExt Zext sz (EScalar (flag_scalar X86Lift.n_CF))) /\
    mk_bin Sub (T1e sz) (EExt Zext sz (EScalar (flag_scalar X86Lift.n_CF))) = Ok (EBin Sub (T1e sz) (EExt Zext sz (EScalar (flag_scalar X86Lift.n_CF)))) /\
    set_zf (T0e sz) = Ok zf /\ set_sf (T0e sz) = Ok sf /\ set_of (T0e sz) lhs rhs true = Ok of /\
    (c1 <- mk_bin Cmpltu lhs rhs ;; c2 <- mk_bin Cmpltu (T1e sz) (EExt Zext sz (EScalar (flag_scalar X86Lift.n_CF))) ;; mk_bin Or c1 c2) = Ok c /\
    forallb is_assign [OAssign (temp_k 1 sz) (EBin Sub lhs rhs); OAssign (temp_k 0 sz) (EBin Sub (T1e sz) (EExt Zext sz (EScalar (flag_scalar X86Lift.n_CF)))); zf; sf; of; assign_flag X86Lift.n_CF c] = true /\
    exec_ops st [OAssign (temp_k 1 sz) (EBin Sub lhs rhs); OAssign (temp_k 0 sz) (EBin Sub (T1e sz) (EExt Zext sz (EScalar (flag_scalar X86Lift.n_CF)))); zf; sf; of; assign_flag X86Lift.n_CF c] = Ok st' /\
    (forall k, k <> kT0 -> k <> kT1 -> k <> kZF -> k <> kSF -> k <> kOF -> k <> kCF -> env_get (st_env st') k = env_get (st_env st) k) /\
    st_mem st' = st_mem st /\ 0 <= r < 2 ^ sz /\
    env_get (st_env st') kT0 = Some (mkc sz r) /\
    env_get (st_env st') kZF = Some (mkc 1 (X86.b2z (r =? 0))) /\
    env_get (st_env st') kSF = Some (mkc 1 (X86.b2z (X86.msb sz r))) /\
    env_get (st_env st') kOF = Some (mkc 1 (X86.b2z (X86.sovf sz (X86.Sg sz a - X86.Sg sz b - X86.b2z cin)))) /\
    env_get (st_env st') kCF = Some (mkc 1 (X86.b2z (a <? b + X86.b2z cin))).
Proof.
  intros Hw Bl Br Ha Hb Dl Dr Cl Cr Ml Mr Ecf r.
  destruct (clean_parts _ Cl) as (L0 & L1 & L2 & L3 & L4). destruct (clean_parts _ Cr) as (R0 & R1 & R2 & R3 & R4).
  assert (Hp: 0 < 2 ^ sz) by (destruct Hw as [->|[->|[->| ->]]]; reflexivity).
  assert (S8: 1 < sz) by (destruct Hw as [->|[->|[->| ->]]]; lia).
  set (s1v := U sz (a - b)).
  assert (Hs1: 0 <= s1v < 2 ^ sz) by (unfold s1v, U; apply Z.mod_pos_bound; exact Hp).
  assert (Hr: 0 <= r < 2 ^ sz) by (unfold r, U; apply Z.mod_pos_bound; exact Hp).
  assert (Rr: U sz (s1v - X86.b2z cin) = r) by (unfold s1v, r; apply sbb_result; exact Hw).
  set (en := st_env st) in *.
  set (zc := EExt Zext sz (EScalar (flag_scalar X86Lift.n_CF))).
  assert (E1: mk_bin Sub lhs rhs = Ok (EBin Sub lhs rhs)) by (unfold mk_bin; rewrite Bl, Br, Z.eqb_refl; reflexivity).
  assert (Ez: mk_ext Zext sz (EScalar (flag_scalar X86Lift.n_CF)) = Ok zc).
  { unfold mk_ext. cbn [e_bits flag_scalar sbits]. assert (Q: (sz <=? 1) || (1 =? 0) = false) by (apply orb_false_iff; split; [apply Z.leb_gt; lia|reflexivity]). rewrite Q. reflexivity. }
  assert (Bz: e_bits zc = sz) by reflexivity.
  assert (E0: mk_bin Sub (T1e sz) zc = Ok (EBin Sub (T1e sz) zc)) by (unfold mk_bin; cbn [e_bits T1e temp_k sbits zc]; rewrite Z.eqb_refl; reflexivity).
  assert (D1: den en (EBin Sub lhs rhs) = Ok (mkc sz s1v)) by (rewrite den_bin, Dl, Dr; cbn [bind]; unfold sp_bin_c; cbn [cbits cval]; rewrite Z.eqb_refl; reflexivity).
  set (e1 := env_set en kT1 (mkc sz s1v)).
  assert (G11: env_get e1 kT1 = Some (mkc sz s1v)) by apply env_get_set_same.
  assert (Dzc: forall en', env_get en' kCF = Some (mkc 1 (X86.b2z cin)) -> den en' zc = Ok (mkc sz (X86.b2z cin))).
  { intros en' G. unfold zc. cbn [den]. unfold skey_of, flag_scalar. cbn [sname sssa sbits]. change (X86Lift.n_CF, @None N) with kCF. rewrite G.
    cbn [cbits bind]. rewrite Z.eqb_refl. cbn [bind]. unfold sp_ext. cbn [cbits cval]. assert (Q: (sz <=? 1) = false) by (apply Z.leb_gt; lia). rewrite Q. reflexivity. }
  assert (C1e: env_get e1 kCF = Some (mkc 1 (X86.b2z cin))) by (unfold e1; rewrite env_get_set_other by discriminate; exact Ecf).
  assert (D0: den e1 (EBin Sub (T1e sz) zc) = Ok (mkc sz r)).
  { rewrite den_bin, (T1e_den e1 sz s1v G11), (Dzc e1 C1e). cbn [bind]. unfold sp_bin_c. cbn [cbits cval]. rewrite Z.eqb_refl. cbn [negb sp_bin].
    unfold s_sub. rewrite Rr. reflexivity. }
  set (e2 := env_set e1 kT0 (mkc sz r)).
  assert (G20: env_get e2 kT0 = Some (mkc sz r)) by apply env_get_set_same.
  assert (G21: env_get e2 kT1 = Some (mkc sz s1v)) by (unfold e2; rewrite env_get_set_other by discriminate; exact G11).
  assert (L2': den e2 lhs = Ok (mkc sz a)) by (unfold e2, e1; rewrite !den_env_set; assumption).
  assert (R2': den e2 rhs = Ok (mkc sz b)) by (unfold e2, e1; rewrite !den_env_set; assumption).
  assert (BT: e_bits (T0e sz) = sz) by reflexivity.
  destruct (set_zf_den e2 sz r (T0e sz) BT (T0e_den e2 sz r G20)) as (zfe & Zf & Dz).
  set (e3 := env_set e2 kZF (mkc 1 (X86.b2z (r =? 0)))).
  assert (G30: env_get e3 kT0 = Some (mkc sz r)) by (unfold e3; rewrite env_get_set_other by discriminate; exact G20).
  assert (L3': den e3 lhs = Ok (mkc sz a)) by (unfold e3; rewrite den_env_set; assumption).
  assert (R3': den e3 rhs = Ok (mkc sz b)) by (unfold e3; rewrite den_env_set; assumption).
  destruct (set_sf_den e3 sz a b r lhs rhs (T0e sz) Hw Ha Hb Hr Bl Br BT L3' R3' (T0e_den e3 sz r G30)) as (sfe & Sf & Ds).
  set (e4 := env_set e3 kSF (mkc 1 (X86.b2z (X86.msb sz r)))).
  assert (G40: env_get e4 kT0 = Some (mkc sz r)) by (unfold e4; rewrite env_get_set_other by discriminate; exact G30).
  assert (L4': den e4 lhs = Ok (mkc sz a)) by (unfold e4; rewrite den_env_set; assumption).
  assert (R4': den e4 rhs = Ok (mkc sz b)) by (unfold e4; rewrite den_env_set; assumption).
  destruct (set_of_den e4 sz a b r lhs rhs (T0e sz) Hw Ha Hb Hr Bl Br BT L4' R4' (T0e_den e4 sz r G40) true) as (ofe & Of & Do).
  pose proof (of_sbb_correct sz a b cin Hw Ha Hb) as OA. fold r in OA. rewrite OA in Do.
  set (e5 := env_set e4 kOF (mkc 1 (X86.b2z (X86.sovf sz (X86.Sg sz a - X86.Sg sz b - X86.b2z cin))))).
  assert (G50: env_get e5 kT0 = Some (mkc sz r)) by (unfold e5; rewrite env_get_set_other by discriminate; exact G40).
  assert (G51: env_get e5 kT1 = Some (mkc sz s1v)) by (unfold e5, e4, e3; rewrite !env_get_set_other by discriminate; exact G21).
  assert (G5c: env_get e5 kCF = Some (mkc 1 (X86.b2z cin))) by (unfold e5, e4, e3, e2; rewrite !env_get_set_other by discriminate; exact C1e).
  assert (L5': den e5 lhs = Ok (mkc sz a)) by (unfold e5; rewrite den_env_set; assumption).
  assert (R5': den e5 rhs = Ok (mkc sz b)) by (unfold e5; rewrite den_env_set; assumption).
  set (cexp := EBin Or (EBin Cmpltu lhs rhs) (EBin Cmpltu (T1e sz) zc)).
  assert (Ec: (c1 <- mk_bin Cmpltu lhs rhs ;; c2 <- mk_bin Cmpltu (T1e sz) zc ;; mk_bin Or c1 c2) = Ok cexp).
  { unfold mk_bin. cbn [e_bits T1e temp_k sbits is_cmp zc]. rewrite Bl, Br, !Z.eqb_refl. cbn [negb bind e_bits is_cmp Z.eqb]. reflexivity. }
  assert (Dc: den e5 cexp = Ok (mkc 1 (X86.b2z (a <? b + X86.b2z cin)))).
  { unfold cexp. rewrite !den_bin, (T1e_den e5 sz s1v G51), (Dzc e5 G5c), L5', R5'. cbn [bind]. unfold sp_bin_c. cbn [cbits cval].
    rewrite !Z.eqb_refl. cbn [negb sp_bin bind cbits cval Z.eqb]. unfold s_or, s_cmpltu. cbn [Pos.eqb negb]. f_equal. f_equal. unfold s1v.
    apply cf_sbb_correct; assumption. }
  set (e6 := env_set e5 kCF (mkc 1 (X86.b2z (a <? b + X86.b2z cin)))).
  exists (OAssign (flag_scalar X86Lift.n_ZF) zfe), (OAssign (flag_scalar X86Lift.n_SF) sfe), (OAssign (flag_scalar X86Lift.n_OF) ofe), cexp, (mkst e6 (st_mem st)).
  split; [exact E1|]. split; [exact Ez|]. split; [exact E0|]. split; [exact Zf|]. split; [exact Sf|]. split; [exact Of|]. split; [exact Ec|].
  split; [reflexivity|].
  split.
  { cbn [exec_ops]. unfold assign_flag.
    rewrite (exec_assign st (temp_k 1 sz) _ _ D1). cbn [bind fst st_env st_mem]. fold en. change (skey_of (temp_k 1 sz)) with kT1. fold e1.
    rewrite (exec_assign (mkst e1 _) (temp_k 0 sz) _ _ D0). cbn [bind fst st_env st_mem]. change (skey_of (temp_k 0 sz)) with kT0. fold e2.
    rewrite (exec_assign (mkst e2 _) _ _ _ Dz). cbn [bind fst st_env st_mem]. change (skey_of (flag_scalar X86Lift.n_ZF)) with kZF. fold e3.
    rewrite (exec_assign (mkst e3 _) _ _ _ Ds). cbn [bind fst st_env st_mem]. change (skey_of (flag_scalar X86Lift.n_SF)) with kSF. fold e4.
    rewrite (exec_assign (mkst e4 _) _ _ _ Do). cbn [bind fst st_env st_mem]. change (skey_of (flag_scalar X86Lift.n_OF)) with kOF. fold e5.
    rewrite (exec_assign (mkst e5 _) _ _ _ Dc). cbn [bind fst st_env st_mem]. change (skey_of (flag_scalar X86Lift.n_CF)) with kCF. fold e6.
    reflexivity. }
  split.
  { intros k K0 K1 K2 K3 K4 K5. cbn [st_env]. unfold e6, e5, e4, e3, e2, e1. rewrite !env_get_set_other by assumption. reflexivity. }
  split; [reflexivity|]. split; [exact Hr|]. cbn [st_env]. unfold e6.
  split; [rewrite env_get_set_other by discriminate; exact G50|].
  unfold e5, e4, e3.
  split; [rewrite !env_get_set_other by discriminate; apply env_get_set_same|].
  split; [rewrite !env_get_set_other by discriminate; apply env_get_set_same|].
  split; [rewrite !env_get_set_other by discriminate; apply env_get_set_same|].
  apply env_get_set_same.
Qed.

(* ---------- operand expressions never mention the second temporary ---------- *)
Lemma kT1_not_reg n : reg_name_ok n = true -> n <> fst kT1.
Proof. intros H E. cbn in E. subst n. cbn in H. discriminate. Qed.

Lemma opv_no_T1 m sz o e : src_operand_ok m sz o -> opv m sz o = Ok e -> mentions kT1 e = false.
Proof.
  intros Ho Oe. destruct o as [r0|r0| |v0]; cbn in Ho; try contradiction.
  - destruct (reg_operand_shape m sz (OReg r0) Ho) as (sd0 & Hs0 & Hr0 & _). destruct (operand_shape_xreg _ _ _ _ _ Hs0) as (X0 & V0 & _).
    unfold opv in Oe. rewrite X0 in Oe. apply (reg_get_mentions _ _ _ _ V0 Oe kT1). apply kT1_not_reg. apply gpr_name_ok. exact Hr0.
  - destruct (reg_operand_shape m sz (ORegH r0) Ho) as (sd0 & Hs0 & Hr0 & _). destruct (operand_shape_xreg _ _ _ _ _ Hs0) as (X0 & V0 & _).
    unfold opv in Oe. rewrite X0 in Oe. apply (reg_get_mentions _ _ _ _ V0 Oe kT1). apply kT1_not_reg. apply gpr_name_ok. exact Hr0.
  - cbn [opv] in Oe. inversion Oe; subst e. reflexivity.
Qed.

(* a register operand as an expression: everything the cores need *)
Lemma reg_expr_facts m sz o s st sd : wf m s -> emb m s st -> reg_operand_ok m sz o ->
  operand_shape m sz o = Some (gpr_name m (oreg o), sd) ->
  exists e, opv m sz o = Ok e /\ e_bits e = sz /\ clean e = true /\ mentions kT1 e = false /\
            0 <= arch_read sd (wordsz m) (rget (x_gpr s) (oreg o)) < 2 ^ sz /\
            den (st_env st) e = Ok (mkc sz (arch_read sd (wordsz m) (rget (x_gpr s) (oreg o)))).
Proof.
  intros Hw He Ho Hs.
  assert (Hso: src_operand_ok m sz o) by (destruct o; cbn in Ho |- *; try contradiction; exact Ho).
  destruct (src_expr m sz o s st Hw He Hso) as (e & b & Oe & Be & Hb & De & Ce & Re).
  destruct (reg_operand_shape m sz o Ho) as (sd' & Hs' & Hr & Hi). rewrite Hs in Hs'. inversion Hs'; subst sd'.
  pose proof (rd_reg_operand m sz o s sd Hi Hs) as Rd. rewrite Re in Rd. inversion Rd; subst b.
  exists e. repeat split; try assumption; try lia. apply (opv_no_T1 m sz o e Hso Oe).
Qed.

Lemma frame_regs m (st2 st : sstate) :
  (forall k, k <> kT0 -> k <> kT1 -> k <> kZF -> k <> kSF -> k <> kOF -> k <> kCF -> env_get (st_env st2) k = env_get (st_env st) k) ->
  (forall r0, 0 <= r0 < ngpr m -> env_get (st_env st2) (gpr_name m r0, None) = env_get (st_env st) (gpr_name m r0, None)) /\
  env_get (st_env st2) kDF = env_get (st_env st) kDF /\ env_get (st_env st2) kTM = env_get (st_env st) kTM.
Proof.
  intros Fr. split; [|split].
  - intros r0 Hr0. destruct (reg_key_facts m r0 Hr0) as (K0 & K1 & K2 & K3 & K4 & _ & _).
    apply Fr; try assumption. intros E. apply (kT1_not_reg _ (gpr_name_ok m _ Hr0)). rewrite <- E. reflexivity.
  - apply Fr; flagkeys; unfold kT1; congruence.
  - apply Fr; flagkeys; unfold kT1, kTM; congruence.
Qed.

(* ---------- adc r, r | imm ---------- *)
Theorem adc_sim m addr len sz dst src :
  reg_operand_ok m sz dst -> src_operand_ok m sz src -> width_ok sz -> sim m addr len (IAlu AAdc sz dst src).
Proof.
  intros Hd Hsrc Hwd s st s' ip Hw He Hstep.
  destruct (reg_operand_shape m sz dst Hd) as (sd & Hs & Hr & Hi).
  destruct (reg_expr_facts m sz dst s st sd Hw He Hd Hs) as (lhs & Ol & Bl & Cl & Ml & Ha & Dl).
  destruct (src_expr m sz src s st Hw He Hsrc) as (rhs & b & Os & Br & Hb & Dr & Cr & Rs).
  pose proof (opv_no_T1 m sz src rhs Hsrc Os) as Mr.
  pose proof (rd_reg_operand m sz dst s sd Hi Hs) as Rd.
  set (a := arch_read sd (wordsz m) (rget (x_gpr s) (oreg dst))) in *.
  unfold step in Hstep. rewrite Rd, Rs in Hstep. cbn [alu_reads_cf] in Hstep.
  pose proof (emb_cf _ _ _ He) as Ecf0. destruct (f_cf (x_fl s)) as [cin|] eqn:Fc; cbn [flag_is] in Hstep; [|discriminate]. cbn [emb_flag] in Ecf0.
  cbn [alu alu_writes] in Hstep.
  destruct (adc_core st sz a b cin lhs rhs Hwd Bl Br Ha Hb Dl Dr Cl Cr Ml Mr Ecf0)
    as (zf & sf & of & c & st2 & E1 & Ez & E0 & Zf & Sf & Of & Ec & Hasg & Hex & Hfr & Hm & Hr0 & G0 & Gz & Gs & Go & Gc).
  set (r := U sz (a + b + X86.b2z cin)) in *.
  destruct (frame_regs m st2 st Hfr) as (Fr & Fd & _).
  set (fl' := fl_arith (x_fl s) (FB (2 ^ sz <=? a + b + X86.b2z cin)) (FB (X86.sovf sz (X86.Sg sz a + X86.Sg sz b + X86.b2z cin))) sz r).
  destruct (finish_reg m s st st2 dst sz sd r (T0e sz) fl' Hw He Hr Hi Hs Hr0 eq_refl (T0e_den _ _ _ G0) Fr Fd Hm eq_refl Gc Gz Gs Go)
    as (o1 & st3 & s2 & Hops & Ia & Hex3 & Hwr & Hemb & Hwf).
  fold r fl' in Hstep. rewrite Hwr in Hstep. inversion Hstep; subst s' ip.
  set (core := [OAssign (temp_k 1 sz) (EBin Add lhs rhs); OAssign (temp_k 0 sz) (EBin Add (T1e sz) (EExt Zext sz (EScalar (flag_scalar X86Lift.n_CF)))); zf; sf; of; assign_flag X86Lift.n_CF c]) in *.
  exists (one_block addr (core ++ [o1])). split.
  - unfold mirror_instr. rewrite Hi, (src_regimm _ _ _ Hsrc). cbn [andb]. unfold lift_alu, lift_alu_rhs. cbn [lift_alu_gen option_map].
    rewrite Ol, Os. cbn [bind]. rewrite E1. cbn [bind]. rewrite Ez. cbn [bind]. fold (T1e sz). rewrite E0. cbn [bind]. fold (T0e sz). rewrite Zf. cbn [bind]. rewrite Sf. cbn [bind]. rewrite Of. cbn [bind].
    revert Ec. destruct (mk_bin Cmpltu (T1e sz) lhs) as [c1| |]; cbn [bind]; try discriminate.
    destruct (mk_bin Cmpltu (T0e sz) (T1e sz)) as [c2| |]; cbn [bind]; try discriminate. intros Ec. rewrite Ec. cbn [bind].
    rewrite Hops. cbn [bind]. reflexivity.
  - exists st3. split; [|auto]. apply run_one_block_nb; [|unfold core; discriminate|unfold core; cbn [length app]; lia|].
    + apply assign_nobranch. rewrite forallb_app. rewrite Hasg. cbn [forallb]. rewrite Ia. reflexivity.
    + rewrite (exec_ops_app _ _ _ _ Hex). exact Hex3.
Qed.

(* ---------- adc r, [m] ---------- *)
Theorem adc_load_sim m addr len sz dst src :
  reg_operand_ok m sz dst -> mem_operand_ok m src -> width_ok sz ->
  sim_when (no_wrap sz src) m addr len (IAlu AAdc sz dst src).
Proof.
  intros Hd Hsrc Hwd s st s' ip Hw He Hnw Hstep.
  destruct (reg_operand_shape m sz dst Hd) as (sd & Hs & Hr & Hi).
  pose proof (rd_reg_operand m sz dst s sd Hi Hs) as Rd.
  unfold step in Hstep. rewrite Rd in Hstep. destruct (rd_op sz src s) as [b|] eqn:Hrd; [|discriminate].
  destruct (load_step m sz src s st b Hw He Hsrc Hwd Hnw Hrd) as (ae & ev & Ea & Ex1 & _ & Hb).
  set (st1 := mkst (env_set (st_env st) kTM (mkc sz b)) (st_mem st)) in *.
  pose proof (emb_set_temp m s st sz b He) as He1. fold st1 in He1.
  assert (Dr: den (st_env st1) (EScalar (temp_main sz)) = Ok (mkc sz b)) by (apply temp_main_den; unfold st1; cbn [st_env]; apply env_get_set_same).
  destruct (reg_expr_facts m sz dst s st1 sd Hw He1 Hd Hs) as (lhs & Ol & Bl & Cl & Ml & Ha & Dl).
  set (a := arch_read sd (wordsz m) (rget (x_gpr s) (oreg dst))) in *.
  cbn [alu_reads_cf] in Hstep.
  pose proof (emb_cf _ _ _ He1) as Ecf0. destruct (f_cf (x_fl s)) as [cin|] eqn:Fc; cbn [flag_is] in Hstep; [|discriminate]. cbn [emb_flag] in Ecf0.
  cbn [alu alu_writes] in Hstep.
  destruct (adc_core st1 sz a b cin lhs (EScalar (temp_main sz)) Hwd Bl eq_refl Ha Hb Dl Dr Cl eq_refl Ml eq_refl Ecf0)
    as (zf & sf & of & c & st2 & E1 & Ez & E0 & Zf & Sf & Of & Ec & Hasg & Hex & Hfr & Hm & Hr0 & G0 & Gz & Gs & Go & Gc).
  set (r := U sz (a + b + X86.b2z cin)) in *.
  destruct (frame_regs m st2 st1 Hfr) as (Fr & Fd & _).
  set (fl' := fl_arith (x_fl s) (FB (2 ^ sz <=? a + b + X86.b2z cin)) (FB (X86.sovf sz (X86.Sg sz a + X86.Sg sz b + X86.b2z cin))) sz r).
  destruct (finish_reg m s st1 st2 dst sz sd r (T0e sz) fl' Hw He1 Hr Hi Hs Hr0 eq_refl (T0e_den _ _ _ G0) Fr Fd Hm eq_refl Gc Gz Gs Go)
    as (o1 & st3 & s2 & Hops & Ia & Hex3 & Hwr & Hemb & Hwf).
  fold r fl' in Hstep. rewrite Hwr in Hstep. inversion Hstep; subst s' ip.
  destruct (mem_operand_facts m src s Hw Hsrc) as (_ & _ & _ & Im). destruct (is_mem_not_reg _ Im) as (_ & Rg).
  set (rhs := EScalar (temp_main sz)) in *.
  set (core := [OAssign (temp_k 1 sz) (EBin Add lhs rhs); OAssign (temp_k 0 sz) (EBin Add (T1e sz) (EExt Zext sz (EScalar (flag_scalar X86Lift.n_CF)))); zf; sf; of; assign_flag X86Lift.n_CF c]) in *.
  exists (one_block addr (OLoad (temp_main sz) ae :: core ++ [o1])). split.
  - unfold mirror_instr. rewrite Hi, Im, Rg. cbn [andb]. unfold lift_alu_load. rewrite Ea. unfold lift_alu_rhs. cbn [lift_alu_gen option_map].
    rewrite Ol. cbn [bind]. fold rhs. rewrite E1. cbn [bind]. rewrite Ez. cbn [bind]. fold (T1e sz). rewrite E0. cbn [bind]. fold (T0e sz). rewrite Zf. cbn [bind]. rewrite Sf. cbn [bind]. rewrite Of. cbn [bind].
    revert Ec. destruct (mk_bin Cmpltu (T1e sz) lhs) as [c1| |]; cbn [bind]; try discriminate.
    destruct (mk_bin Cmpltu (T0e sz) (T1e sz)) as [c2| |]; cbn [bind]; try discriminate. intros Ec. rewrite Ec. cbn [bind].
    rewrite Hops. cbn [bind]. reflexivity.
  - exists st3. split; [|auto]. apply run_one_block_nb; [|discriminate|unfold core; cbn [length app]; lia|].
    + cbn [nobranch forallb is_branch negb andb]. apply assign_nobranch. rewrite forallb_app. rewrite Hasg. cbn [forallb]. rewrite Ia. reflexivity.
    + change (OLoad (temp_main sz) ae :: core ++ [o1]) with ([OLoad (temp_main sz) ae] ++ (core ++ [o1])).
      rewrite (exec_ops_app [OLoad (temp_main sz) ae] _ st st1) by (cbn [exec_ops]; rewrite Ex1; reflexivity).
      rewrite (exec_ops_app _ _ _ _ Hex). exact Hex3.
Qed.

(* ---------- adc [m], r | imm ---------- *)
Theorem adc_rmw_sim m addr len sz dst src :
  mem_operand_ok m dst -> src_operand_ok m sz src -> width_ok sz ->
  sim_when (no_wrap sz dst) m addr len (IAlu AAdc sz dst src).
Proof.
  intros Hd Hsrc Hwd s st s' ip Hw He Hnw Hstep.
  destruct (mem_operand_facts m dst s Hw Hd) as (Hea & A64 & P64 & Im). destruct (is_mem_not_reg _ Im) as (Ir & Irg).
  unfold step in Hstep. destruct (rd_op sz dst s) as [a|] eqn:Hrd; [|discriminate].
  destruct (load_step m sz dst s st a Hw He Hd Hwd Hnw Hrd) as (ae & ev & Ea & Ex1 & _ & Ha).
  set (st1 := mkst (env_set (st_env st) kTM (mkc sz a)) (st_mem st)) in *.
  pose proof (emb_set_temp m s st sz a He) as He1. fold st1 in He1.
  assert (Dl: den (st_env st1) (EScalar (temp_main sz)) = Ok (mkc sz a)) by (apply temp_main_den; unfold st1; cbn [st_env]; apply env_get_set_same).
  destruct (src_expr m sz src s st1 Hw He1 Hsrc) as (rhs & b & Os & Br & Hb & Dr & Cr & Rs).
  pose proof (opv_no_T1 m sz src rhs Hsrc Os) as Mr.
  rewrite Rs in Hstep. cbn [alu_reads_cf] in Hstep.
  pose proof (emb_cf _ _ _ He1) as Ecf0. destruct (f_cf (x_fl s)) as [cin|] eqn:Fc; cbn [flag_is] in Hstep; [|discriminate]. cbn [emb_flag] in Ecf0.
  cbn [alu alu_writes] in Hstep.
  destruct (adc_core st1 sz a b cin (EScalar (temp_main sz)) rhs Hwd eq_refl Br Ha Hb Dl Dr eq_refl Cr eq_refl Mr Ecf0)
    as (zf & sf & of & c & st2 & E1 & Ez & E0 & Zf & Sf & Of & Ec & Hasg & Hex & Hfr & Hm & Hr0 & G0 & Gz & Gs & Go & Gc).
  set (r := U sz (a + b + X86.b2z cin)) in *.
  destruct (frame_regs m st2 st1 Hfr) as (Fr1 & Fd1 & _).
  assert (Fr: forall r0, 0 <= r0 < ngpr m -> env_get (st_env st2) (gpr_name m r0, None) = env_get (st_env st) (gpr_name m r0, None)).
  { intros r0 Hr0'. rewrite Fr1 by exact Hr0'. unfold st1. cbn [st_env]. apply env_get_set_other. destruct (reg_key_facts m r0 Hr0') as (_ & _ & _ & _ & _ & K5 & _). exact K5. }
  assert (Fd: env_get (st_env st2) kDF = env_get (st_env st) kDF) by (rewrite Fd1; unfold st1; cbn [st_env]; apply env_get_set_other; unfold kDF, kTM; discriminate).
  assert (Hm2: st_mem st2 = st_mem st) by (rewrite Hm; reflexivity).
  set (fl' := fl_arith (x_fl s) (FB (2 ^ sz <=? a + b + X86.b2z cin)) (FB (X86.sovf sz (X86.Sg sz a + X86.Sg sz b + X86.b2z cin))) sz r).
  fold r fl' in Hstep.
  destruct (option_map (fun s1 => set_fl s1 fl') (wr_op sz dst r s)) as [s2|] eqn:Hwr; [|discriminate].
  inversion Hstep; subst s' ip.
  destruct (finish_mem m s st st2 dst sz r ae (T0e sz) fl' Hw He Hd Hwd Hnw Ea Hr0 (T0e_den _ _ _ G0) Fr Fd Hm2 eq_refl Gc Gz Gs Go s2 Hwr)
    as (st3 & Hex3 & Hemb & Hwf).
  set (lhs := EScalar (temp_main sz)) in *.
  set (core := [OAssign (temp_k 1 sz) (EBin Add lhs rhs); OAssign (temp_k 0 sz) (EBin Add (T1e sz) (EExt Zext sz (EScalar (flag_scalar X86Lift.n_CF)))); zf; sf; of; assign_flag X86Lift.n_CF c]) in *.
  exists (one_block addr (OLoad (temp_main sz) ae :: core ++ [OStore ae (T0e sz)])). split.
  - unfold mirror_instr. rewrite Ir, Im, (src_regimm _ _ _ Hsrc). cbn [andb]. unfold lift_alu_rmw. rewrite Ea. cbn [lift_alu_gen bind].
    rewrite Os. cbn [bind]. fold lhs. rewrite E1. cbn [bind]. rewrite Ez. cbn [bind]. fold (T1e sz). rewrite E0. cbn [bind]. fold (T0e sz). rewrite Zf. cbn [bind]. rewrite Sf. cbn [bind]. rewrite Of. cbn [bind].
    revert Ec. destruct (mk_bin Cmpltu (T1e sz) lhs) as [c1| |]; cbn [bind]; try discriminate.
    destruct (mk_bin Cmpltu (T0e sz) (T1e sz)) as [c2| |]; cbn [bind]; try discriminate. intros Ec. rewrite Ec. cbn [bind].
    cbn [bind app]. reflexivity.
  - exists st3. split; [|auto]. apply run_one_block_nb; [|discriminate|unfold core; cbn [length app]; lia|].
    + cbn [nobranch forallb is_branch negb andb]. fold (nobranch (core ++ [OStore ae (T0e sz)])). unfold nobranch. rewrite forallb_app.
      pose proof (assign_nobranch _ Hasg) as Nb. unfold nobranch in Nb. rewrite Nb. reflexivity.
    + change (OLoad (temp_main sz) ae :: core ++ [OStore ae (T0e sz)]) with ([OLoad (temp_main sz) ae] ++ (core ++ [OStore ae (T0e sz)])).
      rewrite (exec_ops_app [OLoad (temp_main sz) ae] _ st st1) by (cbn [exec_ops]; rewrite Ex1; reflexivity).
      rewrite (exec_ops_app _ _ _ _ Hex). exact Hex3.
Qed.

(* ---------- sbb r, r | imm ---------- *)
Theorem sbb_sim m addr len sz dst src :
  reg_operand_ok m sz dst -> src_operand_ok m sz src -> width_ok sz -> sim m addr len (IAlu ASbb sz dst src).
Proof.
  intros Hd Hsrc Hwd s st s' ip Hw He Hstep.
  destruct (reg_operand_shape m sz dst Hd) as (sd & Hs & Hr & Hi).
  destruct (reg_expr_facts m sz dst s st sd Hw He Hd Hs) as (lhs & Ol & Bl & Cl & Ml & Ha & Dl).
  destruct (src_expr m sz src s st Hw He Hsrc) as (rhs & b & Os & Br & Hb & Dr & Cr & Rs).
  pose proof (opv_no_T1 m sz src rhs Hsrc Os) as Mr.
  pose proof (rd_reg_operand m sz dst s sd Hi Hs) as Rd.
  set (a := arch_read sd (wordsz m) (rget (x_gpr s) (oreg dst))) in *.
  unfold step in Hstep. rewrite Rd, Rs in Hstep. cbn [alu_reads_cf] in Hstep.
  pose proof (emb_cf _ _ _ He) as Ecf0. destruct (f_cf (x_fl s)) as [cin|] eqn:Fc; cbn [flag_is] in Hstep; [|discriminate]. cbn [emb_flag] in Ecf0.
  cbn [alu alu_writes] in Hstep.
  destruct (sbb_core st sz a b cin lhs rhs Hwd Bl Br Ha Hb Dl Dr Cl Cr Ml Mr Ecf0)
    as (zf & sf & of & c & st2 & E1 & Ez & E0 & Zf & Sf & Of & Ec & Hasg & Hex & Hfr & Hm & Hr0 & G0 & Gz & Gs & Go & Gc).
  set (r := U sz (a - b - X86.b2z cin)) in *.
  destruct (frame_regs m st2 st Hfr) as (Fr & Fd & _).
  set (fl' := fl_arith (x_fl s) (FB (a <? b + X86.b2z cin)) (FB (X86.sovf sz (X86.Sg sz a - X86.Sg sz b - X86.b2z cin))) sz r).
  destruct (finish_reg m s st st2 dst sz sd r (T0e sz) fl' Hw He Hr Hi Hs Hr0 eq_refl (T0e_den _ _ _ G0) Fr Fd Hm eq_refl Gc Gz Gs Go)
    as (o1 & st3 & s2 & Hops & Ia & Hex3 & Hwr & Hemb & Hwf).
  fold r fl' in Hstep. rewrite Hwr in Hstep. inversion Hstep; subst s' ip.
  set (core := [OAssign (temp_k 1 sz) (EBin Sub lhs rhs); OAssign (temp_k 0 sz) (EBin Sub (T1e sz) (EExt Zext sz (EScalar (flag_scalar X86Lift.n_CF)))); zf; sf; of; assign_flag X86Lift.n_CF c]) in *.
  exists (one_block addr (core ++ [o1])). split.
  - unfold mirror_instr. rewrite Hi, (src_regimm _ _ _ Hsrc). cbn [andb]. unfold lift_alu, lift_alu_rhs. cbn [lift_alu_gen option_map].
    rewrite Ol, Os. cbn [bind]. rewrite E1. cbn [bind]. rewrite Ez. cbn [bind]. fold (T1e sz). rewrite E0. cbn [bind]. fold (T0e sz). rewrite Zf. cbn [bind]. rewrite Sf. cbn [bind]. rewrite Of. cbn [bind].
    revert Ec. destruct (mk_bin Cmpltu lhs rhs) as [c1| |]; cbn [bind]; try discriminate.
    destruct (mk_bin Cmpltu (T1e sz) (EExt Zext sz (EScalar (flag_scalar X86Lift.n_CF)))) as [c2| |]; cbn [bind]; try discriminate. intros Ec. rewrite Ec. cbn [bind].
    rewrite Hops. cbn [bind]. reflexivity.
  - exists st3. split; [|auto]. apply run_one_block_nb; [|unfold core; discriminate|unfold core; cbn [length app]; lia|].
    + apply assign_nobranch. rewrite forallb_app. rewrite Hasg. cbn [forallb]. rewrite Ia. reflexivity.
    + rewrite (exec_ops_app _ _ _ _ Hex). exact Hex3.
Qed.

(* ---------- sbb r, [m] ---------- *)
Theorem sbb_load_sim m addr len sz dst src :
  reg_operand_ok m sz dst -> mem_operand_ok m src -> width_ok sz ->
  sim_when (no_wrap sz src) m addr len (IAlu ASbb sz dst src).
Proof.
  intros Hd Hsrc Hwd s st s' ip Hw He Hnw Hstep.
  destruct (reg_operand_shape m sz dst Hd) as (sd & Hs & Hr & Hi).
  pose proof (rd_reg_operand m sz dst s sd Hi Hs) as Rd.
  unfold step in Hstep. rewrite Rd in Hstep. destruct (rd_op sz src s) as [b|] eqn:Hrd; [|discriminate].
  destruct (load_step m sz src s st b Hw He Hsrc Hwd Hnw Hrd) as (ae & ev & Ea & Ex1 & _ & Hb).
  set (st1 := mkst (env_set (st_env st) kTM (mkc sz b)) (st_mem st)) in *.
  pose proof (emb_set_temp m s st sz b He) as He1. fold st1 in He1.
  assert (Dr: den (st_env st1) (EScalar (temp_main sz)) = Ok (mkc sz b)) by (apply temp_main_den; unfold st1; cbn [st_env]; apply env_get_set_same).
  destruct (reg_expr_facts m sz dst s st1 sd Hw He1 Hd Hs) as (lhs & Ol & Bl & Cl & Ml & Ha & Dl).
  set (a := arch_read sd (wordsz m) (rget (x_gpr s) (oreg dst))) in *.
  cbn [alu_reads_cf] in Hstep.
  pose proof (emb_cf _ _ _ He1) as Ecf0. destruct (f_cf (x_fl s)) as [cin|] eqn:Fc; cbn [flag_is] in Hstep; [|discriminate]. cbn [emb_flag] in Ecf0.
  cbn [alu alu_writes] in Hstep.
  destruct (sbb_core st1 sz a b cin lhs (EScalar (temp_main sz)) Hwd Bl eq_refl Ha Hb Dl Dr Cl eq_refl Ml eq_refl Ecf0)
    as (zf & sf & of & c & st2 & E1 & Ez & E0 & Zf & Sf & Of & Ec & Hasg & Hex & Hfr & Hm & Hr0 & G0 & Gz & Gs & Go & Gc).
  set (r := U sz (a - b - X86.b2z cin)) in *.
  destruct (frame_regs m st2 st1 Hfr) as (Fr & Fd & _).
  set (fl' := fl_arith (x_fl s) (FB (a <? b + X86.b2z cin)) (FB (X86.sovf sz (X86.Sg sz a - X86.Sg sz b - X86.b2z cin))) sz r).
  destruct (finish_reg m s st1 st2 dst sz sd r (T0e sz) fl' Hw He1 Hr Hi Hs Hr0 eq_refl (T0e_den _ _ _ G0) Fr Fd Hm eq_refl Gc Gz Gs Go)
    as (o1 & st3 & s2 & Hops & Ia & Hex3 & Hwr & Hemb & Hwf).
  fold r fl' in Hstep. rewrite Hwr in Hstep. inversion Hstep; subst s' ip.
  destruct (mem_operand_facts m src s Hw Hsrc) as (_ & _ & _ & Im). destruct (is_mem_not_reg _ Im) as (_ & Rg).
  set (rhs := EScalar (temp_main sz)) in *.
  set (core := [OAssign (temp_k 1 sz) (EBin Sub lhs rhs); OAssign (temp_k 0 sz) (EBin Sub (T1e sz) (EExt Zext sz (EScalar (flag_scalar X86Lift.n_CF)))); zf; sf; of; assign_flag X86Lift.n_CF c]) in *.
  exists (one_block addr (OLoad (temp_main sz) ae :: core ++ [o1])). split.
  - unfold mirror_instr. rewrite Hi, Im, Rg. cbn [andb]. unfold lift_alu_load. rewrite Ea. unfold lift_alu_rhs. cbn [lift_alu_gen option_map].
    rewrite Ol. cbn [bind]. fold rhs. rewrite E1. cbn [bind]. rewrite Ez. cbn [bind]. fold (T1e sz). rewrite E0. cbn [bind]. fold (T0e sz). rewrite Zf. cbn [bind]. rewrite Sf. cbn [bind]. rewrite Of. cbn [bind].
    revert Ec. destruct (mk_bin Cmpltu lhs rhs) as [c1| |]; cbn [bind]; try discriminate.
    destruct (mk_bin Cmpltu (T1e sz) (EExt Zext sz (EScalar (flag_scalar X86Lift.n_CF)))) as [c2| |]; cbn [bind]; try discriminate. intros Ec. rewrite Ec. cbn [bind].
    rewrite Hops. cbn [bind]. reflexivity.
  - exists st3. split; [|auto]. apply run_one_block_nb; [|discriminate|unfold core; cbn [length app]; lia|].
    + cbn [nobranch forallb is_branch negb andb]. apply assign_nobranch. rewrite forallb_app. rewrite Hasg. cbn [forallb]. rewrite Ia. reflexivity.
    + change (OLoad (temp_main sz) ae :: core ++ [o1]) with ([OLoad (temp_main sz) ae] ++ (core ++ [o1])).
      rewrite (exec_ops_app [OLoad (temp_main sz) ae] _ st st1) by (cbn [exec_ops]; rewrite Ex1; reflexivity).
      rewrite (exec_ops_app _ _ _ _ Hex). exact Hex3.
Qed.

(* ---------- sbb [m], r | imm ---------- *)
Theorem sbb_rmw_sim m addr len sz dst src :
  mem_operand_ok m dst -> src_operand_ok m sz src -> width_ok sz ->
  sim_when (no_wrap sz dst) m addr len (IAlu ASbb sz dst src).
Proof.
  intros Hd Hsrc Hwd s st s' ip Hw He Hnw Hstep.
  destruct (mem_operand_facts m dst s Hw Hd) as (Hea & A64 & P64 & Im). destruct (is_mem_not_reg _ Im) as (Ir & Irg).
  unfold step in Hstep. destruct (rd_op sz dst s) as [a|] eqn:Hrd; [|discriminate].
  destruct (load_step m sz dst s st a Hw He Hd Hwd Hnw Hrd) as (ae & ev & Ea & Ex1 & _ & Ha).
  set (st1 := mkst (env_set (st_env st) kTM (mkc sz a)) (st_mem st)) in *.
  pose proof (emb_set_temp m s st sz a He) as He1. fold st1 in He1.
  assert (Dl: den (st_env st1) (EScalar (temp_main sz)) = Ok (mkc sz a)) by (apply temp_main_den; unfold st1; cbn [st_env]; apply env_get_set_same).
  destruct (src_expr m sz src s st1 Hw He1 Hsrc) as (rhs & b & Os & Br & Hb & Dr & Cr & Rs).
  pose proof (opv_no_T1 m sz src rhs Hsrc Os) as Mr.
  rewrite Rs in Hstep. cbn [alu_reads_cf] in Hstep.
  pose proof (emb_cf _ _ _ He1) as Ecf0. destruct (f_cf (x_fl s)) as [cin|] eqn:Fc; cbn [flag_is] in Hstep; [|discriminate]. cbn [emb_flag] in Ecf0.
  cbn [alu alu_writes] in Hstep.
  destruct (sbb_core st1 sz a b cin (EScalar (temp_main sz)) rhs Hwd eq_refl Br Ha Hb Dl Dr eq_refl Cr eq_refl Mr Ecf0)
    as (zf & sf & of & c & st2 & E1 & Ez & E0 & Zf & Sf & Of & Ec & Hasg & Hex & Hfr & Hm & Hr0 & G0 & Gz & Gs & Go & Gc).
  set (r := U sz (a - b - X86.b2z cin)) in *.
  destruct (frame_regs m st2 st1 Hfr) as (Fr1 & Fd1 & _).
  assert (Fr: forall r0, 0 <= r0 < ngpr m -> env_get (st_env st2) (gpr_name m r0, None) = env_get (st_env st) (gpr_name m r0, None)).
  { intros r0 Hr0'. rewrite Fr1 by exact Hr0'. unfold st1. cbn [st_env]. apply env_get_set_other. destruct (reg_key_facts m r0 Hr0') as (_ & _ & _ & _ & _ & K5 & _). exact K5. }
  assert (Fd: env_get (st_env st2) kDF = env_get (st_env st) kDF) by (rewrite Fd1; unfold st1; cbn [st_env]; apply env_get_set_other; unfold kDF, kTM; discriminate).
  assert (Hm2: st_mem st2 = st_mem st) by (rewrite Hm; reflexivity).
  set (fl' := fl_arith (x_fl s) (FB (a <? b + X86.b2z cin)) (FB (X86.sovf sz (X86.Sg sz a - X86.Sg sz b - X86.b2z cin))) sz r).
  fold r fl' in Hstep.
  destruct (option_map (fun s1 => set_fl s1 fl') (wr_op sz dst r s)) as [s2|] eqn:Hwr; [|discriminate].
  inversion Hstep; subst s' ip.
  destruct (finish_mem m s st st2 dst sz r ae (T0e sz) fl' Hw He Hd Hwd Hnw Ea Hr0 (T0e_den _ _ _ G0) Fr Fd Hm2 eq_refl Gc Gz Gs Go s2 Hwr)
    as (st3 & Hex3 & Hemb & Hwf).
  set (lhs := EScalar (temp_main sz)) in *.
  set (core := [OAssign (temp_k 1 sz) (EBin Sub lhs rhs); OAssign (temp_k 0 sz) (EBin Sub (T1e sz) (EExt Zext sz (EScalar (flag_scalar X86Lift.n_CF)))); zf; sf; of; assign_flag X86Lift.n_CF c]) in *.
  exists (one_block addr (OLoad (temp_main sz) ae :: core ++ [OStore ae (T0e sz)])). split.
  - unfold mirror_instr. rewrite Ir, Im, (src_regimm _ _ _ Hsrc). cbn [andb]. unfold lift_alu_rmw. rewrite Ea. cbn [lift_alu_gen bind].
    rewrite Os. cbn [bind]. fold lhs. rewrite E1. cbn [bind]. rewrite Ez. cbn [bind]. fold (T1e sz). rewrite E0. cbn [bind]. fold (T0e sz). rewrite Zf. cbn [bind]. rewrite Sf. cbn [bind]. rewrite Of. cbn [bind].
    revert Ec. destruct (mk_bin Cmpltu lhs rhs) as [c1| |]; cbn [bind]; try discriminate.
    destruct (mk_bin Cmpltu (T1e sz) (EExt Zext sz (EScalar (flag_scalar X86Lift.n_CF)))) as [c2| |]; cbn [bind]; try discriminate. intros Ec. rewrite Ec. cbn [bind].
    cbn [bind app]. reflexivity.
  - exists st3. split; [|auto]. apply run_one_block_nb; [|discriminate|unfold core; cbn [length app]; lia|].
    + cbn [nobranch forallb is_branch negb andb]. fold (nobranch (core ++ [OStore ae (T0e sz)])). unfold nobranch. rewrite forallb_app.
      pose proof (assign_nobranch _ Hasg) as Nb. unfold nobranch in Nb. rewrite Nb. reflexivity.
    + change (OLoad (temp_main sz) ae :: core ++ [OStore ae (T0e sz)]) with ([OLoad (temp_main sz) ae] ++ (core ++ [OStore ae (T0e sz)])).
      rewrite (exec_ops_app [OLoad (temp_main sz) ae] _ st st1) by (cbn [exec_ops]; rewrite Ex1; reflexivity).
      rewrite (exec_ops_app _ _ _ _ Hex). exact Hex3.
Qed.
