(* Isa/MipsRefuted.v -- witnesses of the known findings of property C02 (MIPS), by computation.
   The lifted IL is the mirror's (Isa/MipsLift.v), which the tie shows equal to the real lifter's
   output on these encodings; `oracle1` is the comparison the check runs (Isa/C02Check.v). *)
From Coq Require Import ZArith List Bool NArith.
From Falcon Require Import Base.Res IL.Const IL.Expr IL.Func Exec.Sem Isa.ILRun Isa.Mips Isa.MipsLift Isa.MipsProofs Isa.C02Check.
Import ListNotations.
Local Open Scope Z_scope.

Definition mirror_lifted (bg : bool) (a : Z) (ws : list Z) : option lifted :=
  match mirror_block bg a ws [[40%N; 41%N]; [42%N; 43%N]; []] with
  | Some (gs, ss) => Some (map (fun x => (fst x, snd x, [])) gs, ss)
  | None => None
  end.
Definition witness_ok (bg : bool) (a : Z) (ws : list Z) (sm : sample) : bool :=
  match mirror_lifted bg a ws with Some l => oracle1 bg a ws l sm | None => true end.

(* kf:mips-jr-jalr-target-read-after-slot -- jr $t9 ; addiu $t9, $t9, 4 with $t9 = 0x1000:
   the IL jumps to 0x1004, the ISA to 0x1000 *)
Lemma jr_target_read_after_slot_refuted :
  witness_ok true 4198400 [52428808; 658046980] (mksample [(25, 4096)] 0 0 0) = false.
Proof. vm_compute. reflexivity. Qed.

(* kf:mips-unaligned-access-no-address-error -- lw $t0, 1($zero): AddressError vs. an unaligned load *)
Lemma unaligned_lw_refuted :
  witness_ok true 4198400 [2349334529] (mksample [] 0 0 7) = false.
Proof. vm_compute. reflexivity. Qed.

(* the same encodings with inputs outside the known classes agree *)
Example jr_slot_not_writing_target_ok :
  witness_ok true 4198400 [52428808; 0] (mksample [(25, 4096)] 0 0 0) = true.
Proof. vm_compute. reflexivity. Qed.
(* fixed (was kf:mips-div-by-zero-il-error): div $zero, $t0, $zero completes *)
Example div_by_zero_completes :
  witness_ok true 4198400 [16777242] (mksample [(8, 5)] 0 0 0) = true.
Proof. vm_compute. reflexivity. Qed.
Example aligned_lw_ok :
  witness_ok true 4198400 [2349334532] (mksample [] 0 0 7) = true.
Proof. vm_compute. reflexivity. Qed.

(* the sampled states of the check are well formed and embedded: the theorems' hypotheses are satisfiable *)
Lemma mk_mstate_wf bg a sm : 0 <= a < W -> wf_m (mk_mstate bg a sm).
Proof.
  intros Ha. unfold wf_m, mk_mstate. cbn [gpr hi lo pc mem].
  assert (M : forall x, 0 <= x mod W < W) by (intros x; apply Z.mod_pos_bound; reflexivity).
  split; [reflexivity|]. split.
  - intros q. destruct ((q <=? 0) || (31 <? q))%bool; [unfold W; split; [apply Z.le_refl|reflexivity]|].
    destruct (assocZ (sm_regs sm) q); [apply M|unfold dflt_reg; apply M].
  - split; [apply M|]. split; [apply M|]. split; [assumption|].
    intros x. apply Z.mod_pos_bound. reflexivity.
Qed.

Lemma embed_emb s : emb s (embed s []).
Proof.
  constructor; try reflexivity.
  - intros q Hq.
    assert (H : q = 1 \/ q = 2 \/ q = 3 \/ q = 4 \/ q = 5 \/ q = 6 \/ q = 7 \/ q = 8 \/ q = 9 \/ q = 10 \/ q = 11 \/
                q = 12 \/ q = 13 \/ q = 14 \/ q = 15 \/ q = 16 \/ q = 17 \/ q = 18 \/ q = 19 \/ q = 20 \/ q = 21 \/
                q = 22 \/ q = 23 \/ q = 24 \/ q = 25 \/ q = 26 \/ q = 27 \/ q = 28 \/ q = 29 \/ q = 30 \/ q = 31) by Lia.lia.
    repeat (destruct H as [-> | H]; [reflexivity|]). subst q. reflexivity.
  - intros a b H. discriminate H.
Qed.

Lemma hypotheses_satisfiable :
  let s := mk_mstate true 4198400 (mksample [(8, 5)] 1 2 3) in
  wf_m s /\ emb s (embed s []).
Proof. cbv zeta. split; [apply mk_mstate_wf; unfold W; split; [discriminate|reflexivity]|apply embed_emb]. Qed.
