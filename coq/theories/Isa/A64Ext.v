(* Isa/A64Ext.v -- the extended-register operand (UXTB .. SXTX with a left shift of 0..4) and
   ADD/SUB/ADDS/SUBS (extended register), W and X, register 31 = SP for Rn / Rd.  [U] *)
From Coq Require Import ZArith List Bool NArith Lia ZifyBool.
From Falcon Require Import Base.Res IL.Const IL.ConstSpec IL.Expr IL.ExprSpec IL.Func IL.Loc Exec.Sem
     IL.ConstProofs IL.ExprProofs Isa.A64 Isa.A64Lift Isa.A64Run Isa.A64Proofs Isa.A64Sim Isa.A64Arith
     Isa.A64Arith2 Isa.A64Flags Isa.A64Flags2.
Import ListNotations.
Local Open Scope Z_scope.
Ltac Zify.zify_post_hook ::= Z.div_mod_to_equations.

(* ------------------------------------------------------------------ the specification's ExtendReg in closed form *)
Definition ext_val (N : Z) (k : extk) (x a : Z) : Z :=
  if ext_len k <? N
  then ((if ext_unsigned k then x mod 2 ^ ext_len k else S (ext_len k) (x mod 2 ^ ext_len k)) * 2 ^ a) mod 2 ^ N
  else (x * 2 ^ a) mod 2 ^ N.

Lemma low_shift N x a : 0 <= a <= N -> ((x mod 2 ^ (N - a)) * 2 ^ a) mod 2 ^ N = (x * 2 ^ a) mod 2 ^ N.
Proof.
  intros Ha. pose proof (pow_pos (N - a) ltac:(lia)) as P1. pose proof (pow_pos a ltac:(lia)) as P2.
  assert (Hs : 2 ^ N = 2 ^ (N - a) * 2 ^ a) by (rewrite <- Z.pow_add_r by lia; f_equal; lia).
  rewrite (Z.div_mod x (2 ^ (N - a))) at 2 by lia.
  replace ((2 ^ (N - a) * (x / 2 ^ (N - a)) + x mod 2 ^ (N - a)) * 2 ^ a)
    with (x mod 2 ^ (N - a) * 2 ^ a + (x / 2 ^ (N - a)) * 2 ^ N) by (rewrite Hs; ring).
  rewrite Z.mod_add by lia. reflexivity.
Qed.
Lemma low_shift_s N x a : 0 <= a <= N -> (S (N - a) (x mod 2 ^ (N - a)) * 2 ^ a) mod 2 ^ N = (x * 2 ^ a) mod 2 ^ N.
Proof.
  intros Ha. rewrite <- (low_shift N x a Ha). unfold S.
  pose proof (pow_pos (N - a) ltac:(lia)) as P1.
  assert (Hs : 2 ^ N = 2 ^ (N - a) * 2 ^ a) by (rewrite <- Z.pow_add_r by lia; f_equal; lia).
  destruct (x mod 2 ^ (N - a) <? 2 ^ (N - a - 1)); [reflexivity|].
  replace ((x mod 2 ^ (N - a) - 2 ^ (N - a)) * 2 ^ a) with (x mod 2 ^ (N - a) * 2 ^ a + (-1) * 2 ^ N) by (rewrite Hs; ring).
  apply Z.mod_add. lia.
Qed.

Lemma ExtendReg_val s N m k a : (N = 64 \/ N = 32) -> 0 <= a <= 4 ->
  ExtendReg s N m k a = ext_val N k (Xw s m N) a.
Proof.
  intros HN Ha. unfold ExtendReg, ext_val.
  destruct (Z.ltb_spec (ext_len k) N) as [Hlt|Hge].
  - assert (Hmin : Z.min (ext_len k) (N - a) = ext_len k) by (destruct k, HN as [-> | ->]; cbn [ext_len] in *; lia).
    rewrite Hmin. reflexivity.
  - assert (Hmin : Z.min (ext_len k) (N - a) = N - a) by (destruct k, HN as [-> | ->]; cbn [ext_len] in *; lia).
    rewrite Hmin. assert (Ha' : 0 <= a <= N) by (destruct HN; lia).
    destruct (ext_unsigned k); [apply low_shift|apply low_shift_s]; exact Ha'.
Qed.

(* ------------------------------------------------------------------ the lifter's `shift` on the extend kinds *)
(* the body of `shift` for an ExtendReg kind (unsigned, len, amount) *)
Definition ext_body (value : expr) (unsigned : bool) (len amount out_bits : Z) : res expr :=
  e1 <- (if len <? e_bits value then unwrap (mk_ext Trun len value) else Ok value) ;;
  e2 <- (if len <? out_bits
         then (if unsigned then unwrap (mk_ext Zext out_bits e1) else unwrap (mk_ext Sext out_bits e1))
         else Ok e1) ;;
  unwrap (mk_bin Shl e2 (expr_const amount out_bits)).

Lemma shift_ext_body value k a N : shift_ value (bext_of k a) N = ext_body value (ext_unsigned k) (ext_len k) a N.
Proof. destruct k; reflexivity. Qed.

Definition ext_il (vw x : Z) (unsigned : bool) (L a N : Z) : Z :=
  let v1 := if L <? vw then x mod 2 ^ L else x in
  let w1 := if L <? vw then L else vw in
  let v2 := if L <? N then (if unsigned then v1 else U N (S w1 v1)) else v1 in
  (v2 * 2 ^ a) mod 2 ^ N.

Lemma ext_body_den en value vw x unsigned L a N :
  e_bits value = vw -> den en value = Ok (mkc vw x) ->
  1 <= L -> 1 <= vw <= N -> (N <= L -> vw = N) -> 0 <= a < N -> N <= 64 ->
  exists e, ext_body value unsigned L a N = Ok e /\ e_bits e = N /\ den en e = Ok (mkc N (ext_il vw x unsigned L a N)).
Proof.
  intros Hb Hd HL Hvw HNL Ha HN64. unfold ext_body, ext_il. rewrite Hb.
  assert (Dc : den en (expr_const a N) = Ok (mkc N a)).
  { rewrite den_const by lia. rewrite U_small; [reflexivity|]. unfold inr. split; [lia|]. pose proof (lt_pow2 N ltac:(lia)). lia. }
  assert (Hfin : forall e2 v2, e_bits e2 = N -> den en e2 = Ok (mkc N v2) ->
            exists e, unwrap (mk_bin Shl e2 (expr_const a N)) = Ok e /\ e_bits e = N /\ den en e = Ok (mkc N ((v2 * 2 ^ a) mod 2 ^ N))).
  { intros e2 v2 B2 D2. rewrite mk_bin_ok by (rewrite B2; reflexivity). cbn [unwrap].
    eexists. split; [reflexivity|]. split; [cbn [e_bits is_cmp]; exact B2|].
    rewrite (den_bin _ Shl _ _ N v2 a D2 Dc). cbn [sp_bin]. unfold s_shl, U. destruct (Z.leb_spec N a); [lia|reflexivity]. }
  destruct (Z.ltb_spec L vw) as [Ht|Ht].
  - (* truncate to L *)
    rewrite mk_ext_ok by (rewrite Hb; lia). cbn [unwrap bind].
    assert (D1 : den en (EExt Trun L value) = Ok (mkc L (x mod 2 ^ L))).
    { rewrite (den_ext _ _ _ _ _ Hd). cbn [sp_ext cbits cval]. destruct (Z.leb_spec vw L); [lia|reflexivity]. }
    destruct (Z.ltb_spec L N) as [He|He]; [|lia].
    destruct unsigned; rewrite mk_ext_ok by (cbn [e_bits]; lia); cbn [unwrap bind]; apply Hfin; try reflexivity;
      rewrite (den_ext _ _ _ _ _ D1); cbn [sp_ext cbits cval]; (destruct (Z.leb_spec N L); [lia|reflexivity]).
  - cbn [bind].
    destruct (Z.ltb_spec L N) as [He|He].
    + destruct unsigned; rewrite mk_ext_ok by (rewrite Hb; lia); cbn [unwrap bind]; apply Hfin; try reflexivity;
        rewrite (den_ext _ _ _ _ _ Hd); cbn [sp_ext cbits cval]; (destruct (Z.leb_spec N vw); [lia|reflexivity]).
    + cbn [bind]. apply Hfin; [rewrite Hb; apply HNL; exact He|]. rewrite (HNL He) in Hd. exact Hd.
Qed.

(* the IL value against the closed form of the specification *)
Lemma ext_il_val_same N k X a : (N = 64 \/ N = 32) -> 0 <= X < 2 ^ N ->
  ext_il N X (ext_unsigned k) (ext_len k) a N = ext_val N k X a.
Proof.
  intros HN HX. unfold ext_il, ext_val.
  destruct (Z.ltb_spec (ext_len k) N) as [Hlt|Hge]; [|reflexivity].
  destruct (ext_unsigned k); [reflexivity|]. unfold U. rewrite Z.mul_mod_idemp_l by (destruct HN as [-> | ->]; lia). reflexivity.
Qed.
Lemma ext_il_val_w N k X a : N = 64 -> ext_len k <= 32 -> 0 <= X < 2 ^ 64 ->
  ext_il 32 (X mod 2 ^ 32) (ext_unsigned k) (ext_len k) a N = ext_val N k X a.
Proof.
  intros -> HL HX. unfold ext_il, ext_val.
  destruct (Z.ltb_spec (ext_len k) 64) as [_|Hge]; [|lia].
  assert (Hmm : forall L, (L = 8 \/ L = 16) -> (X mod 2 ^ 32) mod 2 ^ L = X mod 2 ^ L).
  { intros L [-> | ->]; change (2 ^ 32) with 4294967296; [change (2 ^ 8) with 256|change (2 ^ 16) with 65536]; lia. }
  destruct k; cbn [ext_len ext_unsigned] in *; try lia;
    repeat match goal with |- context [?p <? ?q] => let v := eval vm_compute in (p <? q) in change (p <? q) with v end; cbv iota;
    rewrite ?Hmm by auto; unfold U; rewrite ?Z.mul_mod_idemp_l by lia; reflexivity.
Qed.

(* ------------------------------------------------------------------ the operand as bad64 presents it *)
Lemma Xw64 s n : wf s -> Xw s n 64 = X s n.
Proof. intros Hw. unfold Xw. apply Z.mod_small. unfold X. destruct (n =? 31); [lia|apply (proj1 Hw)]. Qed.
Lemma Xw32_of_X s n : Xw s n 32 = X s n mod 2 ^ 32.
Proof. reflexivity. Qed.

Lemma loads_extended_reg s (sf : bool) rm k a spi : wf s -> 0 <= rm < 32 -> 0 <= a <= 4 ->
  loads s (extended_reg sf rm k a spi) (dsize sf) (dsize sf) (ext_val (dsize sf) k (Xw s rm (dsize sf)) a).
Proof.
  intros Hw Hm Ha.
  assert (HXr : 0 <= X s rm < 2 ^ 64) by (unfold X; destruct (rm =? 31); [lia|apply (proj1 Hw)]).
  unfold extended_reg.
  set (r := xreg_zr (sf && ext_is_x k) rm).
  destruct (xzr_xsp_range (sf && ext_is_x k) rm Hm) as [Hr _]. fold r in Hr.
  assert (Hrb : reg_bits r = dsize (sf && ext_is_x k)) by apply reg_bits_zr.
  assert (Hrv : areg_val s r = Xw s rm (dsize (sf && ext_is_x k))) by (apply areg_val_zr; exact Hw).
  destruct (spi && match k with XUXTX => sf | XUXTW => negb sf | _ => false end) eqn:Epref.
  - (* LSL spelling: k = UXTX (64-bit) or UXTW (32-bit); the register has the operation's width *)
    apply andb_prop in Epref as [_ Ek].
    assert (Hkk : (k = XUXTX /\ sf = true) \/ (k = XUXTW /\ sf = false))
      by (destruct k; try discriminate; [right; destruct sf; [discriminate|auto]|left; auto]).
    assert (Hw' : dsize (sf && ext_is_x k) = dsize sf) by (destruct Hkk as [[-> ->] | [-> ->]]; reflexivity).
    assert (Hev : forall x, ext_val (dsize sf) k x a = (x * 2 ^ a) mod 2 ^ dsize sf)
      by (intros x; destruct Hkk as [[-> ->] | [-> ->]]; reflexivity).
    rewrite Hev. rewrite Hw' in Hrb, Hrv. rewrite <- Hrv, <- Hrb.
    destruct ((a =? 0) && sf) eqn:E0.
    + apply andb_prop in E0 as [E0 _]. apply Z.eqb_eq in E0. subst a. change (2 ^ 0) with 1.
      rewrite Z.mul_1_r, Z.mod_small by (apply areg_val_range; exact Hw). apply loads_reg; assumption.
    + apply loads_shiftreg_lsl; try assumption. rewrite Hrb. destruct sf; cbn; lia.
  - (* an extend kind *)
    intros st He. cbn [operand_load].
    destruct (reg_get_den s st r Hw He Hr) as (e & G & B & D). rewrite G. cbn [bind]. rewrite shift_ext_body.
    assert (HL : 1 <= ext_len k) by (destruct k; cbn; lia).
    assert (HN64 : dsize sf <= 64) by (destruct sf; cbn; lia).
    assert (Ha' : 0 <= a < dsize sf) by (destruct sf; cbn; lia).
    destruct sf.
    + (* 64-bit operation *)
      destruct (ext_is_x k) eqn:Ex; cbn [andb dsize] in *.
      * rewrite Hrb in B, D. rewrite Hrv, Xw64 in D by assumption.
        destruct (ext_body_den (st_env st) e 64 _ (ext_unsigned k) (ext_len k) a 64 B D HL ltac:(lia) ltac:(lia) Ha' ltac:(lia)) as (e' & X1 & X2 & X3).
        exists e'. split; [exact X1|]. split; [exact X2|]. rewrite X3. f_equal. f_equal.
        rewrite Xw64 by assumption. apply ext_il_val_same; [left; reflexivity|exact HXr].
      * rewrite Hrb in B, D. rewrite Hrv in D. cbn [dsize] in D. rewrite Xw32_of_X in D.
        assert (HL32 : ext_len k <= 32) by (destruct k; cbn in *; (lia || discriminate)).
        destruct (ext_body_den (st_env st) e 32 _ (ext_unsigned k) (ext_len k) a 64 B D HL ltac:(lia) ltac:(lia) Ha' ltac:(lia)) as (e' & X1 & X2 & X3).
        exists e'. split; [exact X1|]. split; [exact X2|]. rewrite X3. f_equal. f_equal.
        rewrite Xw64 by assumption. apply ext_il_val_w; [reflexivity|exact HL32|exact HXr].
    + (* 32-bit operation: the register is always W *)
      cbn [andb dsize] in *. rewrite Hrb in B, D. rewrite Hrv in D. cbn [dsize] in D.
      destruct (ext_body_den (st_env st) e 32 _ (ext_unsigned k) (ext_len k) a 32 B D HL ltac:(lia) ltac:(lia) Ha' ltac:(lia)) as (e' & X1 & X2 & X3).
      exists e'. split; [exact X1|]. split; [exact X2|]. rewrite X3. f_equal. f_equal.
      apply ext_il_val_same; [right; reflexivity|]. unfold Xw. apply Z.mod_pos_bound. lia.
Qed.

Lemma ExtendReg_range s N m k a : (N = 64 \/ N = 32) -> 0 <= ExtendReg s N m k a < 2 ^ N.
Proof. intros HN. unfold ExtendReg. apply Z.mod_pos_bound. destruct HN as [-> | ->]; lia. Qed.

(* ------------------------------------------------------------------ C6.2.3 ADD / C6.2.356 SUB (extended register) *)
Theorem addsub_ext_sim addr sf sub k rm imm3 rn rd :
  0 <= imm3 <= 4 -> 0 <= rm < 32 -> 0 <= rn < 32 -> 0 <= rd < 32 ->
  sim addr (IAddSubExt sf sub false k rm imm3 rn rd).
Proof.
  intros Hi Hm Hn Hd s st ops succs s' Hw Hpc Ha He _ Hl Hs.
  destruct (xzr_xsp_range sf rd Hd) as [_ Hrd]. destruct (xzr_xsp_range sf rn Hn) as [_ Hrn].
  assert (HN : dsize sf = 64 \/ dsize sf = 32) by (destruct sf; cbn; auto).
  cbn [a64step] in Hs. unfold finish_addsub in Hs.
  destruct (addsub (dsize sf) sub (SPorX s rn mod 2 ^ dsize sf) (ExtendReg s (dsize sf) rm k imm3))
    as [res [[[fn_ fz_] fc_] fv_]] eqn:Eres.
  cbn [andb negb] in Hs. inversion Hs; subst s'; clear Hs.
  assert (Hop1 : 0 <= SPorX s rn mod 2 ^ dsize sf < 2 ^ dsize sf) by (apply Z.mod_pos_bound; destruct sf; cbn; lia).
  pose proof (ExtendReg_range s (dsize sf) rm k imm3 HN) as Hop2.
  pose proof (addsub_result (dsize sf) sub _ _ HN Hop1 Hop2) as Hres. rewrite Eres in Hres. cbn [fst] in Hres.
  unfold lift in Hl. cbn [operands_of andb] in Hl. cbv iota in Hl.
  assert (L1 : loads s (OReg (xreg_sp sf rn)) (reg_bits (xreg_sp sf rd)) (reg_bits (xreg_sp sf rd)) (SPorX s rn mod 2 ^ dsize sf)).
  { rewrite <- areg_val_sp by assumption. rewrite (reg_bits_sp sf rd), <- (reg_bits_sp sf rn). apply loads_reg; assumption. }
  assert (L2 : loads s (extended_reg sf rm k imm3 ((rn =? 31) || (negb false && (rd =? 31))))
                     (reg_bits (xreg_sp sf rd)) (reg_bits (xreg_sp sf rd)) (ExtendReg s (dsize sf) rm k imm3)).
  { rewrite reg_bits_sp, (ExtendReg_val s _ rm k imm3 HN Hi). apply loads_extended_reg; assumption. }
  destruct (b_addsub_sim (if sub then ASub else AAdd) s st _ _ _ _ _ Hw He Hrd L1 L2) as (op & st' & B1 & B2 & B3).
  rewrite areg_write_sp, reg_bits_sp, <- Hres in B3.
  destruct sub; cbn [dispatch terminating fst snd bind] in Hl; rewrite B1 in Hl; cbn [bind fst snd] in Hl;
    inversion Hl; subst ops succs; clear Hl;
    (apply (finish_fall addr s st _ op st'); try assumption; apply apc_setSPorX).
Qed.

(* ------------------------------------------------------------------ C6.2.7 ADDS / C6.2.362 SUBS (extended register) *)
Theorem addsubs_ext_simc addr (sf sub : bool) k rm imm3 rn rd :
  0 <= imm3 <= 4 -> 0 <= rm < 32 -> 0 <= rn < 32 -> 0 <= rd < 32 ->
  sim_c sub addr (IAddSubExt sf sub true k rm imm3 rn rd).
Proof.
  intros Hi Hm Hn Hd s st ops succs s' Hw Hpc Ha He _ Hl Hs.
  destruct (xzr_xsp_range sf rn Hn) as [_ Hrn].
  cbn [a64step] in Hs.
  assert (HN : dsize sf = 64 \/ dsize sf = 32) by (destruct sf; cbn; auto).
  assert (Hop1 : 0 <= SPorX s rn mod 2 ^ dsize sf < 2 ^ dsize sf) by (apply Z.mod_pos_bound; destruct sf; cbn; lia).
  pose proof (ExtendReg_range s (dsize sf) rm k imm3 HN) as Hop2.
  unfold lift in Hl. cbn [operands_of andb] in Hl.
  destruct (rd =? 31) eqn:E31; [cbn [dispatch bind] in Hl; discriminate|].
  assert (L1 : forall s1, same_regs s s1 -> loads s1 (OReg (xreg_sp sf rn)) (dsize sf) (dsize sf) (SPorX s rn mod 2 ^ dsize sf)).
  { intros s1 Hsr. rewrite <- (same_regs_SPorX s s1 rn Hsr). destruct Hsr as (Hw1 & _).
    rewrite <- areg_val_sp by assumption. rewrite <- (reg_bits_sp sf rn). apply loads_reg; assumption. }
  assert (L2 : forall s1, same_regs s s1 -> loads s1 (extended_reg sf rm k imm3 ((rn =? 31) || (negb true && false)))
                     (dsize sf) (dsize sf) (ExtendReg s (dsize sf) rm k imm3)).
  { intros s1 Hsr. rewrite (ExtendReg_val s _ rm k imm3 HN Hi), <- (same_regs_Xw s s1 rm _ Hsr). destruct Hsr as (Hw1 & _).
    apply loads_extended_reg; assumption. }
  apply (addsubs_close addr sf sub s st rd _ _ ops succs s' _ _ Hw Hpc Ha He Hd Hop1 Hop2 L1 L2); [|exact Hs].
  destruct sub; cbn [dispatch terminating] in Hl; exact Hl.
Qed.
