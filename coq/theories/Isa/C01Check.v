(* Isa/C01Check.v -- the per-case checker of property C01, evaluated in the kernel by the case files.

   One case = one instruction ENCODING (lifted by the real lifter, IL dumped by the harness) with a list of
   sampled machine states; for 64-bit mode each sample carries the PROCESSOR's result for those bytes
   (native/x86run.c).
     snd (oracle): the lifter accepted the encoding without a sort error, and for every sample whose
                   outcome the architecture defines: the dumped IL runs in Exec/Sem without getting stuck and
                   ends in a state that agrees with the processor (where available) and with X86.step
                   (where specified) on GPRs, XMM, CF/ZF/SF/OF/DF, memory and next instruction address.
                   Also: X86.step agrees with the processor (validation of the trusted specification).
     fst (tie):    where a Gallina mirror of the builder exists ([tc_mirror] = Some g), the dumped IL is
                   syntactically the mirror's output. *)
From Coq Require Import ZArith List Bool NArith.
From Falcon Require Import Base.Res IL.Const IL.ConstSpec IL.Expr IL.ExprSpec IL.Func IL.Loc Exec.Sem.
From Falcon Require Import Isa.X86 Isa.X86Run Isa.X86Mirror.
Import ListNotations.
Local Open Scope Z_scope.

Inductive cpu_res :=
| CpuOk (next rflags : Z) (gpr xmm : list (Z * Z)) (diffs : list (Z * Z))     (* registers: (index, new value) of the changed ones *)
| CpuSig (signo : Z)
| CpuNone.

Record sample := mksample {
  sm_gpr : list Z; sm_xmm : list Z; sm_rflags : Z;
  sm_seed : Z; sm_over : list (Z * Z); sm_ranges : list (Z * Z);
  sm_cpu : cpu_res }.

Inductive lifted :=
| LOk (g : cfg) (succ : list (Z * option expr))
| LErr (e : err)
| LPanic.

Record tcase := mkcase {
  tc_mode : mode; tc_addr : Z; tc_len : Z; tc_ins : instr;
  tc_lift : lifted; tc_mirror : option (res cfg); tc_samples : list sample }.

(* ---- syntactic equality of instruction graphs ---- *)
Definition scalar_eqb' := scalar_eqb.
(* placeholders of direct jumps are ONop (Some (OBranch target)); any other placeholder is not equal to anything *)
Definition op_eqb (a b : operation) : bool :=
  match a, b with
  | OAssign d s, OAssign d' s' => scalar_eqb d d' && expr_eqb s s'
  | OStore i s, OStore i' s' => expr_eqb i i' && expr_eqb s s'
  | OLoad d i, OLoad d' i' => scalar_eqb d d' && expr_eqb i i'
  | OBranch t, OBranch t' => expr_eqb t t'
  | ONop None, ONop None => true
  | ONop (Some (OBranch t)), ONop (Some (OBranch t')) => expr_eqb t t'     (* the placeholder of a direct jump *)
  | _, _ => false
  end.
Definition instr_eqb (a b : instruction) : bool :=
  (i_index a =? i_index b) && op_eqb (i_op a) (i_op b) && optZ_eqb (i_addr a) (i_addr b).
Fixpoint list_eqb {A} (eqb : A -> A -> bool) (a b : list A) : bool :=
  match a, b with
  | [], [] => true
  | x :: ta, y :: tb => eqb x y && list_eqb eqb ta tb
  | _, _ => false
  end.
Definition block_eqb (a b : block) : bool :=
  (b_index a =? b_index b) && (b_next a =? b_next b) && list_eqb instr_eqb (b_instrs a) (b_instrs b) &&
  match b_phis a, b_phis b with [], [] => true | _, _ => false end.
Definition optexpr_eqb (a b : option expr) : bool :=
  match a, b with Some x, Some y => expr_eqb x y | None, None => true | _, _ => false end.
Definition edge_eqb (a b : edge) : bool :=
  (e_head a =? e_head b) && (e_tail a =? e_tail b) && optexpr_eqb (e_cond a) (e_cond b).
Definition cfg_eqb (a b : cfg) : bool :=
  list_eqb block_eqb (g_blocks a) (g_blocks b) && list_eqb edge_eqb (g_edges a) (g_edges b) &&
  (g_next_index a =? g_next_index b) && optZ_eqb (g_entry a) (g_entry b) && optZ_eqb (g_exit a) (g_exit b).
Definition succ_eqb (a b : Z * option expr) : bool := (fst a =? fst b) && optexpr_eqb (snd a) (snd b).
(* the whole tie for a mirrored (straight-line) form: same graph, and the only successor is the fall-through *)
Definition syntactic_tie (m : mode) (addr len : Z) (i : instr) (g : cfg) (succ : list (Z * option expr)) : bool :=
  match mirror_instr m addr len i with
  | Some (Ok g') => cfg_eqb g' g && list_eqb succ_eqb succ (mirror_succ m addr len i)
  | _ => false
  end.

(* ---- one sample ---- *)
Definition FUEL : nat := 600.

Definition nospec_mask (fm : Z) : cmpmask :=
  mkmask [] (Z.odd fm) (Z.odd (fm / 2)) (Z.odd (fm / 4)) (Z.odd (fm / 8)) true.

Definition x_init (sm : sample) (img : Z -> option Z) : xstate :=
  mkx (sm_gpr sm) [] (sm_xmm sm) (flags_of_rflags (sm_rflags sm)) (mkxm [] img).

Fixpoint patch (i : Z) (l : list Z) (d : list (Z * Z)) : list Z :=
  match l with
  | [] => []
  | x :: t => (match alookup d i with Some v => v | None => x end) :: patch (i + 1) t d
  end.
(* a changed XMM register of a form whose XMM input was not transmitted shows up as a length mismatch *)
Definition cpu_obs (sm : sample) (next rfl : Z) (gpr xmm : list (Z * Z)) (diffs : list (Z * Z)) (m : mode) : observation :=
  mkobs (Some next) (patch 0 (sm_gpr sm) gpr)
        (match sm_xmm sm, xmm with [], _ :: _ => [0] | l, _ => patch 0 l xmm end)
        (rfl_bit rfl 0) (rfl_bit rfl 6) (rfl_bit rfl 7) (rfl_bit rfl 11) (rfl_bit rfl 10) diffs.

(* result codes of one sample (0 = fine); used by [diag] and collapsed by [sample_ok] *)
Definition sample_code (c : tcase) (g : cfg) (succ : list (Z * option expr)) (sm : sample) : Z :=
  let m := tc_mode c in
  let img := image (sm_seed sm) (sm_over sm) in
  let next := tc_addr c + tc_len c in
  let sp := step m next (tc_ins c) (x_init sm img) in
  let mask := match sp, tc_ins c with
              | XNext s' _, _ => Some (x_mask s')
              | _, INoSpec fm => Some (nospec_mask fm)
              | _, _ => None
              end in
  let xm := sm_xmm sm in
  (* 1. the specification against the processor *)
  let spec_cpu :=
    match sp, sm_cpu sm with
    | XNext s' ip, CpuOk n rfl gp xm' d => if obs_agree img (x_mask s') (x_obs s' ip) (cpu_obs sm n rfl gp xm' d m) then 0 else 1
    | XNext _ _, CpuSig _ => 2
    | XFault, CpuOk _ _ _ _ _ => 3
    | _, _ => 0
    end in
  if negb (spec_cpu =? 0) then spec_cpu else
  (* 2. is the outcome architecturally defined, and do we have something to compare with? *)
  (* XUnspec for a form that HAS a specification = the architecture leaves the outcome undefined for this
     (form, state) (e.g. shld/shrd r16 with a masked count above 16): the oracle is silent *)
  let nospec := match tc_ins c with INoSpec _ => true | _ => false end in
  let defined := match sp, sm_cpu sm with
                 | _, CpuSig _ => false
                 | XFault, _ => false
                 | XUnspec, CpuOk _ _ _ _ _ => nospec
                 | _, CpuOk _ _ _ _ _ => true
                 | XNext _ _, CpuNone => true
                 | _, CpuNone => false
                 end in
  if negb defined then 0 else
  (* 3. the lifted IL *)
  let mem0 := ranges_bytes img (sm_ranges sm) in
  match run_instr FUEL g succ (tc_addr c) (il_init m (sm_gpr sm) xm (sm_rflags sm) mem0) with
  | RunStuck ESort => 10
  | RunStuck _ => 11
  | RunFuel => 12
  | RunAmbiguous => 13
  | RunOk st nx =>
      match il_obs m (length xm) st nx (length mem0) with
      | None => 14
      | Some o =>
          let vs_cpu := match sm_cpu sm, mask with
                        | CpuOk n rfl gp xm' d, Some k => obs_agree img k o (cpu_obs sm n rfl gp xm' d m)
                        | _, _ => true
                        end in
          let vs_spec := match sp with
                         | XNext s' ip => obs_agree img (x_mask s') o (x_obs s' ip)
                         | _ => true
                         end in
          if negb vs_cpu then 20 else if negb vs_spec then 21 else 0
      end
  end.

Definition ck (c : tcase) : bool * bool :=
  (match tc_mirror c, tc_lift c with
   | Some (Ok g'), LOk g succ => cfg_eqb g' g && list_eqb succ_eqb succ (mirror_succ (tc_mode c) (tc_addr c) (tc_len c) (tc_ins c))
   | Some (Err e), LErr e' => err_eqb e e'
   | Some Panic, LPanic => true
   | Some (Ok _), LErr _ | Some (Ok _), LPanic => true
     (* not accepted by the lifter (outside the property): there is no graph to tie the mirror to.  The
        mirror models the builders, not every reason the lifter may have to refuse an encoding (e.g. a
        register missing from its table) *)
   | Some _, _ => false
   | None, _ => true
   end,
   match tc_lift c with
   | LErr ESort => false
   | LErr _ | LPanic => true          (* not accepted by the lifter: outside the property *)
   | LOk g succ => forallb (fun sm => sample_code c g succ sm =? 0) (tc_samples c)
   end).

(* development aid: the code of every sample *)
Definition diag (c : tcase) : list Z :=
  (if fst (ck c) then [] else [100]) ++
  match tc_lift c with
  | LOk g succ => map (sample_code c g succ) (tc_samples c)
  | LErr ESort => [-1]
  | _ => [-2]
  end.
