(* Isa/MipsAll.v -- summary: every non-control form the lifter handles (except rdhwr) has a per-form theorem *)
From Coq Require Import ZArith List Bool NArith Lia ZifyBool.
From Falcon Require Import Base.Res IL.Const IL.Expr IL.Func Exec.Sem Isa.ILRun Isa.Mips Isa.MipsLift Isa.MipsProofs
  Isa.MipsMemProofs Isa.MipsHiLoProofs.
Import ListNotations.
Local Open Scope Z_scope.

Definition imm16_ok (i : Z) : Prop := 0 <= i < 2 ^ 16.
Definition fields_ok (i : minstr) : Prop :=
  match i with
  | MAlu3 _ rd rs rt => reg_ok rd /\ reg_ok rs /\ reg_ok rt
  | MShi _ rd rt sa => reg_ok rd /\ reg_ok rt /\ 0 <= sa < 32
  | MShv _ rd rt rs => reg_ok rd /\ reg_ok rt /\ reg_ok rs
  | MAluI _ rt rs imm => reg_ok rt /\ reg_ok rs /\ imm16_ok imm
  | MLui rt imm => reg_ok rt /\ imm16_ok imm
  | MClz rd rs | MClo rd rs => reg_ok rd /\ reg_ok rs
  | MMulDiv _ rs rt => reg_ok rs /\ reg_ok rt
  | MMfhi r | MMflo r | MMthi r | MMtlo r => reg_ok r
  | MLoad _ rt base off | MStore _ rt base off => reg_ok rt /\ reg_ok base /\ imm16_ok off
  | MTeq rs rt _ => reg_ok rs /\ reg_ok rt
  | _ => True
  end.

Theorem proved_plain_correct bg i : proved_plain i = true -> fields_ok i -> plain_correct bg i.
Proof.
  intros Hp Hf. destruct i; try discriminate Hp; cbn [fields_ok] in Hf.
  - destruct Hf as (Hd & Hs & Ht).
    destruct o; first [apply alu3_simple_correct; [reflexivity|assumption..]
                      |apply add_sub_correct; [solve [auto]|assumption..]
                      |apply slt_correct; [solve [auto]|assumption..]
                      |apply movc_correct; [solve [auto]|assumption..]].
  - destruct Hf as (Hd & Ht & Hs). apply shi_correct; assumption.
  - destruct Hf as (Hd & Ht & Hs). apply shv_correct; assumption.
  - destruct Hf as (Ht & Hs & Hi). unfold imm16_ok in Hi.
    destruct o; first [apply addi_correct; assumption
                      |apply alui_simple_correct; [reflexivity|assumption..]
                      |apply slti_correct; [solve [auto]|assumption..]].
  - destruct Hf as (Ht & Hi). apply lui_correct; assumption.
  - destruct Hf as (Hd & Hs). apply (proj1 (clzo_correct bg rd rs Hd Hs)).
  - destruct Hf as (Hd & Hs). apply (proj2 (clzo_correct bg rd rs Hd Hs)).
  - destruct Hf as (Hs & Ht).
    destruct o; first [apply mult_correct; [solve [auto]|assumption..]
                      |apply div_correct; [solve [auto]|assumption..]
                      |apply macc_correct; [solve [auto 6]|assumption..]].
  - apply mfhi_correct; assumption.
  - apply mflo_correct; assumption.
  - apply mthi_correct; assumption.
  - apply mtlo_correct; assumption.
  - destruct Hf as (Ht & Hb & Hi).
    destruct k; first [apply load_ext_correct; [solve [auto 6]|assumption..]
                      |apply lw_correct; [solve [auto]|assumption..]
                      |apply lwl_correct; assumption
                      |apply lwr_correct; assumption].
  - destruct Hf as (Ht & Hb & Hi).
    destruct k; first [apply store_correct; [solve [auto 6]|assumption..]
                      |apply swl_correct; assumption
                      |apply swr_correct; assumption].
  - destruct Hf. apply teq_correct; assumption.
  - apply break_correct.
  - apply syscall_correct.
  - apply sync_correct.
  - apply pref_correct.
Qed.

Lemma fields_okb_ok i : fields_okb i = true -> fields_ok i.
Proof.
  unfold fields_okb, fields_ok, regb, immb, reg_ok, imm16_ok. destruct i; intros H; try exact I;
    repeat (apply andb_true_iff in H; destruct H as [H ?]); repeat split; lia.
Qed.

(* temporaries with pairwise distinct ids satisfy temps_distinct *)
Lemma nodupN_distinct i ts : nodupN ts = true -> (2 <= length ts)%nat -> temps_distinct i ts.
Proof.
  intros H Hl. destruct ts as [|x [|y t]]; cbn [length] in Hl; try lia.
  cbn [nodupN existsb] in H. apply andb_true_iff in H. destruct H as [H _].
  apply negb_true_iff in H. apply orb_false_iff in H. destruct H as [H _]. apply N.eqb_neq in H.
  assert (D : nthN (x :: y :: t) 0 <> nthN (x :: y :: t) 1) by (unfold nthN; cbn [nth]; exact H).
  destruct i; try exact I. destruct o; try exact I; exact D.
Qed.

(* the executable field test is exactly fields_ok: the tie never excludes an encoding the theorems cover *)
Lemma fields_okb_complete i : fields_ok i -> fields_okb i = true.
Proof.
  unfold fields_okb, fields_ok, regb, immb, reg_ok, imm16_ok. destruct i; intros H; try reflexivity; lia.
Qed.

Lemma branch_okb_complete a b : branch_ok a b -> branch_okb a b = true.
Proof.
  unfold branch_okb, branch_ok, off_okb, off_ok, regb, reg_ok. destruct b; intros H; try reflexivity; lia.
Qed.
