(* Isa/X86SimCmov.v -- round 8: graphs with a guarded block of real operations, and cmovcc on top of them. *)
From Coq Require Import ZArith List Bool NArith Lia ZifyBool.
From Falcon Require Import Base.Res IL.Const IL.ConstSpec IL.ConstProofs IL.Expr IL.ExprSpec IL.Func IL.Loc Exec.Sem.
From Falcon Require Import Isa.X86 Isa.X86Run Isa.X86Lift Isa.X86Mirror Isa.X86Proofs Isa.X86Sim Isa.C01Check Isa.X86Tie Isa.X86SimMem Isa.X86SimCarry Isa.X86SimMore Isa.X86SimXchg Isa.X86SimMul Isa.X86SimShift Isa.X86SimCtl.
Import ListNotations.
Local Open Scope Z_scope.

Definition ev_ok (ev : event) : Prop := match ev with EvBranch _ => False | _ => True end.

Ltac run_graph D Dn :=
  repeat (cbn [il_run]; unfold sem_step, loc_instruction, forward, choose, enabled_locs, edge_enabled, loc_edge; cbn; rewrite ?D, ?Dn; cbn).

(* the guarded block is taken (c = 1) or skipped (c = 0); one or two operations in it *)
Lemma run_diamond_1 addr c o1 st st1 ev1 (b : bool) :
  den (st_env st) c = Ok (mkc 1 (X86.b2z b)) -> exec_op st o1 = Ok (st1, ev1) -> ev_ok ev1 ->
  il_run 600 (mkfunc addr (diamond addr c [o1]) None) (LInstr 0 0) st = ILFin (if b then st1 else st) None.
Proof.
  intros D E1 V1. pose proof (not_cond_den _ _ _ D) as Dn.
  destruct b; cbn [X86.b2z negb] in *.
  - do 3 (cbn [il_run]; unfold sem_step, loc_instruction, forward, choose, enabled_locs, edge_enabled, loc_edge; cbn; rewrite ?D, ?Dn; cbn).
    rewrite E1. destruct ev1; try contradiction;
    do 3 (cbn [il_run]; unfold sem_step, loc_instruction, forward, choose, enabled_locs, edge_enabled, loc_edge; cbn); reflexivity.
  - do 5 (cbn [il_run]; unfold sem_step, loc_instruction, forward, choose, enabled_locs, edge_enabled, loc_edge; cbn; rewrite ?D, ?Dn; cbn). reflexivity.
Qed.

Ltac gstep := cbn [il_run]; unfold sem_step, loc_instruction, forward, choose, enabled_locs, edge_enabled, loc_edge; cbn.

Lemma run_diamond_2 addr c o1 o2 st st1 ev1 st2 ev2 (b : bool) :
  den (st_env st) c = Ok (mkc 1 (X86.b2z b)) -> exec_op st o1 = Ok (st1, ev1) -> ev_ok ev1 -> exec_op st1 o2 = Ok (st2, ev2) -> ev_ok ev2 ->
  il_run 600 (mkfunc addr (diamond addr c [o1; o2]) None) (LInstr 0 0) st = ILFin (if b then st2 else st) None.
Proof.
  intros D E1 V1 E2 V2. pose proof (not_cond_den _ _ _ D) as Dn.
  destruct b; cbn [X86.b2z negb] in *.
  - do 3 (gstep; rewrite ?D, ?Dn; cbn).
    rewrite E1. destruct ev1; try contradiction; (gstep; rewrite E2; destruct ev2; try contradiction; do 3 gstep; reflexivity).
  - do 5 (gstep; rewrite ?D, ?Dn; cbn). reflexivity.
Qed.

Lemma run_diamond4_11 addr c o1 o3 st st1 ev1 st3 ev3 (b : bool) :
  den (st_env st) c = Ok (mkc 1 (X86.b2z b)) ->
  (b = true -> exec_op st o1 = Ok (st1, ev1) /\ ev_ok ev1) -> (b = false -> exec_op st o3 = Ok (st3, ev3) /\ ev_ok ev3) ->
  il_run 600 (mkfunc addr (diamond4 addr c [o1] [o3]) None) (LInstr 0 0) st = ILFin (if b then st1 else st3) None.
Proof.
  intros D H1 H3. pose proof (not_cond_den _ _ _ D) as Dn.
  destruct b; cbn [X86.b2z negb] in *.
  - destruct (H1 eq_refl) as (E1 & V1). do 3 (gstep; rewrite ?D, ?Dn; cbn).
    rewrite E1. destruct ev1; try contradiction; do 3 gstep; reflexivity.
  - destruct (H3 eq_refl) as (E3 & V3). do 3 (gstep; rewrite ?D, ?Dn; cbn).
    rewrite E3. destruct ev3; try contradiction; do 3 gstep; reflexivity.
Qed.

Lemma run_diamond4_21 addr c o1 o2 o3 st st1 ev1 st2 ev2 st3 ev3 (b : bool) :
  den (st_env st) c = Ok (mkc 1 (X86.b2z b)) ->
  (b = true -> exec_op st o1 = Ok (st1, ev1) /\ ev_ok ev1 /\ exec_op st1 o2 = Ok (st2, ev2) /\ ev_ok ev2) ->
  (b = false -> exec_op st o3 = Ok (st3, ev3) /\ ev_ok ev3) ->
  il_run 600 (mkfunc addr (diamond4 addr c [o1; o2] [o3]) None) (LInstr 0 0) st = ILFin (if b then st2 else st3) None.
Proof.
  intros D H1 H3. pose proof (not_cond_den _ _ _ D) as Dn.
  destruct b; cbn [X86.b2z negb] in *.
  - destruct (H1 eq_refl) as (E1 & V1 & E2 & V2). do 3 (gstep; rewrite ?D, ?Dn; cbn).
    rewrite E1. destruct ev1; try contradiction; (gstep; rewrite E2; destruct ev2; try contradiction; do 3 gstep; reflexivity).
  - destruct (H3 eq_refl) as (E3 & V3). do 3 (gstep; rewrite ?D, ?Dn; cbn).
    rewrite E3. destruct ev3; try contradiction; do 3 gstep; reflexivity.
Qed.
