(* Isa/X86SimCmov.v -- round 8: graphs with a guarded block of real operations, and cmovcc on top of them. *)
From Coq Require Import ZArith List Bool NArith Lia ZifyBool.
From Falcon Require Import Base.Res IL.Const IL.ConstSpec IL.ConstProofs IL.Expr IL.ExprSpec IL.Func IL.Loc Exec.Sem.
From Falcon Require Import Isa.X86 Isa.X86Run Isa.X86Lift Isa.X86Mirror Isa.X86Proofs Isa.X86Sim Isa.C01Check Isa.X86Tie Isa.X86SimMem Isa.X86SimCarry Isa.X86SimMore Isa.X86SimXchg Isa.X86SimMul Isa.X86SimShift Isa.X86SimCtl.
Import ListNotations.
Local Open Scope Z_scope.

Definition ev_ok (ev : event) : Prop := match ev with EvBranch _ => False | _ => True end.

Ltac run_graph D Dn :=
  repeat (cbn [il_run]; unfold sem_step, loc_instruction, forward, choose, enabled_locs, edge_enabled, loc_edge; cbn; rewrite ?D, ?Dn; cbn).

(* the guarded block is taken (c = 1) or skipped (c = 0); one or two operations in it *)
Lemma run_diamond_1 addr c o1 st st1 ev1 (b : bool) :
  den (st_env st) c = Ok (mkc 1 (X86.b2z b)) -> exec_op st o1 = Ok (st1, ev1) -> ev_ok ev1 ->
  il_run 600 (mkfunc addr (diamond addr c [o1]) None) (LInstr 0 0) st = ILFin (if b then st1 else st) None.
Proof.
  intros D E1 V1. pose proof (not_cond_den _ _ _ D) as Dn.
  destruct b; cbn [X86.b2z negb] in *.
  - do 3 (cbn [il_run]; unfold sem_step, loc_instruction, forward, choose, enabled_locs, edge_enabled, loc_edge; cbn; rewrite ?D, ?Dn; cbn).
    rewrite E1. destruct ev1; try contradiction;
    do 3 (cbn [il_run]; unfold sem_step, loc_instruction, forward, choose, enabled_locs, edge_enabled, loc_edge; cbn); reflexivity.
  - do 5 (cbn [il_run]; unfold sem_step, loc_instruction, forward, choose, enabled_locs, edge_enabled, loc_edge; cbn; rewrite ?D, ?Dn; cbn). reflexivity.
Qed.

Ltac gstep := cbn [il_run]; unfold sem_step, loc_instruction, forward, choose, enabled_locs, edge_enabled, loc_edge; cbn.

Lemma run_diamond_2 addr c o1 o2 st st1 ev1 st2 ev2 (b : bool) :
  den (st_env st) c = Ok (mkc 1 (X86.b2z b)) -> exec_op st o1 = Ok (st1, ev1) -> ev_ok ev1 -> exec_op st1 o2 = Ok (st2, ev2) -> ev_ok ev2 ->
  il_run 600 (mkfunc addr (diamond addr c [o1; o2]) None) (LInstr 0 0) st = ILFin (if b then st2 else st) None.
Proof.
  intros D E1 V1 E2 V2. pose proof (not_cond_den _ _ _ D) as Dn.
  destruct b; cbn [X86.b2z negb] in *.
  - do 3 (gstep; rewrite ?D, ?Dn; cbn).
    rewrite E1. destruct ev1; try contradiction; (gstep; rewrite E2; destruct ev2; try contradiction; do 3 gstep; reflexivity).
  - do 5 (gstep; rewrite ?D, ?Dn; cbn). reflexivity.
Qed.

Lemma run_diamond4_11 addr c o1 o3 st st1 ev1 st3 ev3 (b : bool) :
  den (st_env st) c = Ok (mkc 1 (X86.b2z b)) ->
  (b = true -> exec_op st o1 = Ok (st1, ev1) /\ ev_ok ev1) -> (b = false -> exec_op st o3 = Ok (st3, ev3) /\ ev_ok ev3) ->
  il_run 600 (mkfunc addr (diamond4 addr c [o1] [o3]) None) (LInstr 0 0) st = ILFin (if b then st1 else st3) None.
Proof.
  intros D H1 H3. pose proof (not_cond_den _ _ _ D) as Dn.
  destruct b; cbn [X86.b2z negb] in *.
  - destruct (H1 eq_refl) as (E1 & V1). do 3 (gstep; rewrite ?D, ?Dn; cbn).
    rewrite E1. destruct ev1; try contradiction; do 3 gstep; reflexivity.
  - destruct (H3 eq_refl) as (E3 & V3). do 3 (gstep; rewrite ?D, ?Dn; cbn).
    rewrite E3. destruct ev3; try contradiction; do 3 gstep; reflexivity.
Qed.

Lemma run_diamond4_21 addr c o1 o2 o3 st st1 ev1 st2 ev2 st3 ev3 (b : bool) :
  den (st_env st) c = Ok (mkc 1 (X86.b2z b)) ->
  (b = true -> exec_op st o1 = Ok (st1, ev1) /\ ev_ok ev1 /\ exec_op st1 o2 = Ok (st2, ev2) /\ ev_ok ev2) ->
  (b = false -> exec_op st o3 = Ok (st3, ev3) /\ ev_ok ev3) ->
  il_run 600 (mkfunc addr (diamond4 addr c [o1; o2] [o3]) None) (LInstr 0 0) st = ILFin (if b then st2 else st3) None.
Proof.
  intros D H1 H3. pose proof (not_cond_den _ _ _ D) as Dn.
  destruct b; cbn [X86.b2z negb] in *.
  - destruct (H1 eq_refl) as (E1 & V1 & E2 & V2). do 3 (gstep; rewrite ?D, ?Dn; cbn).
    rewrite E1. destruct ev1; try contradiction; (gstep; rewrite E2; destruct ev2; try contradiction; do 3 gstep; reflexivity).
  - destruct (H3 eq_refl) as (E3 & V3). do 3 (gstep; rewrite ?D, ?Dn; cbn).
    rewrite E3. destruct ev3; try contradiction; do 3 gstep; reflexivity.
Qed.

Lemma exec_one_assign st o st' : is_assign o = true -> X86Proofs.exec_ops st [o] = Ok st' -> exists ev, exec_op st o = Ok (st', ev) /\ ev_ok ev.
Proof.
  destruct o; try discriminate. intros _. cbn [X86Proofs.exec_ops exec_op]. destruct (den (st_env st) src) as [v| |]; cbn [bind fst]; try discriminate.
  intros H. inversion H. eexists. split; [reflexivity|exact I].
Qed.

(* writing a register's own value back changes nothing (sub-register kinds that do not zero-extend) *)
Lemma arch_write_read_id sd fb x : shape_valid fb sd -> sd <> ShLow32 -> sd <> ShHigh8 -> 0 <= x < 2 ^ fb ->
  arch_write sd fb x (arch_read sd fb x) = x.
Proof.
  intros [[->| ->] _] N1 N2 Hx; destruct sd; try congruence; unfold arch_write, arch_read, X86.reg_write, X86.reg_read, X86.rget, X86.rset, X86.lset;
    cbn [shape_bits Z.to_nat nth Z.ltb Z.compare Pos.compare Pos.compare_cont]; try (rewrite Z.mod_small by lia; reflexivity);
    cbn; lia.
Qed.

Lemma from_diamond addr c ops2 : from_function (mkfunc addr (diamond addr c ops2) None) = Some (Ok (LInstr 0 0)).
Proof. reflexivity. Qed.
Lemma from_diamond4 addr c ops2 ops3 : from_function (mkfunc addr (diamond4 addr c ops2 ops3) None) = Some (Ok (LInstr 0 0)).
Proof. reflexivity. Qed.

(* cmovcc r, r (14 condition codes) *)
Theorem cmov_sim m addr len c sz dst src :
  cc_no_pf c = true -> reg_operand_ok m sz (OReg dst) -> reg_operand_ok m sz src -> width_ok sz -> sz <> 8 ->
  sim m addr len (ICmov c sz dst src).
Proof.
  intros Hn Hd Hsrc Hwd H8 s st s' ip Hw He Hstep.
  unfold step in Hstep. destruct (cond c (x_fl s)) as [b|] eqn:Hc; [|discriminate].
  destruct (cc_condition_emb m s st c b He Hn Hc) as (e & Ce & Be & De).
  destruct (reg_operand_shape m sz (OReg dst) Hd) as (sd & Hs & Hr & Hi).
  destruct (reg_operand_shape m sz src Hsrc) as (sds & Hss & Hrs & His).
  destruct (reg_expr_facts m sz src s st sds Hw He Hsrc Hss) as (rhs & Os & Br & Cr & Mr & Hv & Dr).
  destruct (reg_expr_facts m sz (OReg dst) s st sd Hw He Hd Hs) as (dex & Od & Bd & Cd & Md & Hdv & Dd).
  pose proof (rd_reg_operand m sz src s sds His Hss) as Rs. pose proof (rd_reg_operand m sz (OReg dst) s sd Hi Hs) as Rd.
  set (v := arch_read sds (wordsz m) (rget (x_gpr s) (oreg src))) in *.
  set (dv := arch_read sd (wordsz m) (rget (x_gpr s) (oreg (OReg dst)))) in *.
  rewrite Rs in Hstep. cbn [obind] in Hstep. cbn [rd_op] in Rd. inversion Rd as [Rdv]. rewrite Rdv in Hstep.
  destruct (assign_reg_exec m s st (OReg dst) sz sd rhs v Hw He Hr Hi Hs Br Hv Dr) as (o1 & Hops1 & Ia1 & st1 & g1 & Hex1 & Hwr1 & Hemb1 & Hwf1).
  destruct (exec_one_assign st o1 st1 Ia1 Hex1) as (ev1 & E1 & V1).
  destruct (assign_reg_exec m s st (OReg dst) sz sd dex dv Hw He Hr Hi Hs Bd Hdv Dd) as (o3 & Hops3 & Ia3 & st3 & g3 & Hex3 & Hwr3 & Hemb3 & Hwf3).
  destruct (exec_one_assign st o3 st3 Ia3 Hex3) as (ev3 & E3 & V3).
  assert (Osrc: opl m sz src = Ok ([], rhs)) by (rewrite (opl_nonmem m sz src) by (destruct src; try discriminate His; reflexivity); rewrite Os; reflexivity).
  assert (Ost1: ost m sz (OReg dst) rhs = Ok [o1]) by exact Hops1.
  assert (Ost3: ost m sz (OReg dst) dex = Ok [o3]) by exact Hops3.
  destruct ((match m with M64 => true | M32 => false end) && (sz =? 32)) eqn:Z32.
  - (* long mode, 32-bit destination: both arms write the destination *)
    exists (diamond4 addr e [o1] [o3]). split.
    { unfold mirror_instr. rewrite His. cbn [orb]. unfold lift_cmov. rewrite Ce. cbn [bind]. rewrite Osrc. cbn [bind fst snd]. rewrite Ost1. cbn [bind].
      rewrite Z32, Od. cbn [bind]. rewrite Ost3. cbn [bind app]. reflexivity. }
    assert (Run: il_run 600 (mkfunc addr (diamond4 addr e [o1] [o3]) None) (LInstr 0 0) st = ILFin (if b then st1 else st3) None).
    { apply (run_diamond4_11 addr e o1 o3 st st1 ev1 st3 ev3 b De); intros _; auto. }
    destruct b; [rewrite Hwr1 in Hstep|rewrite Hwr3 in Hstep]; inversion Hstep; subst s' ip; eexists; (split; [|split; eassumption]);
      unfold run_instr; rewrite from_diamond4, Run; reflexivity.
  - (* the condition is false: nothing is written *)
    exists (diamond addr e [o1]). split.
    { unfold mirror_instr. rewrite His. cbn [orb]. unfold lift_cmov. rewrite Ce. cbn [bind]. rewrite Osrc. cbn [bind fst snd]. rewrite Ost1. cbn [bind].
      rewrite Z32. reflexivity. }
    assert (Run: il_run 600 (mkfunc addr (diamond addr e [o1]) None) (LInstr 0 0) st = ILFin (if b then st1 else st) None).
    { apply (run_diamond_1 addr e o1 st st1 ev1 b De E1 V1). }
    destruct b.
    + rewrite Hwr1 in Hstep. inversion Hstep; subst s' ip. eexists. split; [|split; eassumption]. unfold run_instr. rewrite from_diamond, Run. reflexivity.
    + rewrite Hwr3 in Hstep. inversion Hstep; subst s' ip. exists st. split; [unfold run_instr; rewrite from_diamond, Run; reflexivity|].
      (* the state with the register's own value written back embeds in the unchanged IL state *)
      destruct (wr_reg_operand m sz (OReg dst) s sd dv Hi Hw Hr Hs) as (g' & Wr & Lg & Gv & Go). rewrite Wr in Hwr3. assert (Eg3: g3 = g') by (inversion Hwr3; reflexivity). rewrite Eg3 in *. clear Eg3.
      assert (Nsh: sd <> ShLow32 /\ sd <> ShHigh8).
      { cbn [operand_shape] in Hs. destruct (size_shape m sz) as [sd'|] eqn:Q; cbn [option_map] in Hs; [|discriminate]. inversion Hs; subst sd'.
        unfold size_shape in Q. destruct (sz =? wordsz m); [inversion Q; split; discriminate|]. destruct (sz =? 8); [inversion Q; split; discriminate|].
        destruct (sz =? 16); [inversion Q; split; discriminate|]. destruct m; cbn in Z32, Q.
        - destruct (sz =? 32); cbn in Z32, Q; discriminate.
        - destruct (sz =? 32); cbn in Q; discriminate. }
      destruct (operand_shape_xreg _ _ _ _ _ Hs) as (_ & Vd & _).
      assert (Gd: rget g' (oreg (OReg dst)) = rget (x_gpr s) (oreg (OReg dst))).
      { rewrite Gv. apply arch_write_read_id; [exact Vd|tauto|tauto|apply (wf_rng _ _ Hw); exact Hr]. }
      assert (Gall: forall r', 0 <= r' -> rget g' r' = rget (x_gpr s) r').
      { intros r' Hr'. destruct (Z.eq_dec r' (oreg (OReg dst))) as [->|N]; [exact Gd|apply Go; assumption]. }
      split.
      * constructor; cbn [set_gpr x_gpr x_fl x_mem]; try (apply He).
        intros r' Hr'. rewrite Gall by lia. apply (emb_gpr _ _ _ He). exact Hr'.
      * constructor; cbn [set_gpr x_gpr x_mem]; [rewrite Lg; apply (wf_len _ _ Hw)| |apply (wf_bytes _ _ Hw)].
        intros r' Hr'. rewrite Gall by lia. apply (wf_rng _ _ Hw). exact Hr'.
Qed.
