(* Isa/X86.v -- ISA SPECIFICATION of the x86 / x86-64 core instruction classes, transcribed from the
   instruction pages of the Intel SDM vol. 2 over Z with the bit-vector operators of IL/ConstSpec.v.
   TRUSTED (it is the oracle property C01 names, next to the processor itself) and VALIDATED against the
   host CPU on every run of the check (Isa/C01Check.v: [spec_vs_cpu]).  Independent of the lifter and of
   its mirror: nothing here mentions IL.

   * machine state: 16 GPRs (8 in 32-bit mode, values < 2^32), 16 XMM, CF PF ZF SF OF DF, byte memory.
   * results the SDM calls UNDEFINED are the explicit value [FU] (flags) / membership in [x_ugpr]
     (registers); no comparison ever looks at them.  "Unchanged" is not undefined.
   * [XFault] = the instruction raises an exception (#DE, #PF on unmapped memory, ...);
     [XUnspec] = this file does not specify the form (no comparison is made). *)
From Coq Require Import ZArith List Bool.
From Falcon Require Import IL.ConstSpec.
Import ListNotations.
Local Open Scope Z_scope.

Inductive mode := M32 | M64.
Definition wordsz (m : mode) : Z := match m with M32 => 32 | M64 => 64 end.

Inductive flag := FB (b : bool) | FU.
Record flags := mkfl { f_cf : flag; f_pf : flag; f_zf : flag; f_sf : flag; f_of : flag; f_df : flag }.

(* memory: bytes written so far (newest first) over an initial image given as a function *)
Record xmem := mkxm { xm_writes : list (Z * Z); xm_init : Z -> option Z }.

Record xstate := mkx {
  x_gpr : list Z;          (* rax rcx rdx rbx rsp rbp rsi rdi r8 .. r15 *)
  x_ugpr : list Z;         (* numbers of registers whose content is undefined *)
  x_xmm : list Z;
  x_fl : flags;
  x_mem : xmem }.

Inductive outcome := XNext (s : xstate) (ip : Z) | XFault | XUnspec.

(* ---------------- registers ---------------- *)
Definition rget (g : list Z) (r : Z) : Z := nth (Z.to_nat r) g 0.
Fixpoint lset (g : list Z) (n : nat) (v : Z) : list Z :=
  match g, n with
  | [], _ => []
  | _ :: t, O => v :: t
  | x :: t, Datatypes.S n => x :: lset t n v
  end.
Definition rset (g : list Z) (r v : Z) : list Z := lset g (Z.to_nat r) v.

(* low [sz] bits of register r; [regh_read]: bits 8..15 (ah ch dh bh) *)
Definition reg_read (sz r : Z) (g : list Z) : Z := rget g r mod 2 ^ sz.
Definition regh_read (r : Z) (g : list Z) : Z := (rget g r / 256) mod 256.
(* writes: 8/16-bit writes preserve the rest of the register, 32-bit writes zero-extend, 64 replace *)
Definition reg_write (sz r v : Z) (g : list Z) : list Z :=
  let old := rget g r in
  rset g r (if sz <? 32 then old - old mod 2 ^ sz + v else v).
Definition regh_write (r v : Z) (g : list Z) : list Z :=
  let old := rget g r in
  rset g r (old - ((old / 256) mod 256) * 256 + v * 256).

(* ---------------- memory ---------------- *)
Fixpoint alookup (l : list (Z * Z)) (a : Z) : option Z :=
  match l with [] => None | (k, v) :: t => if k =? a then Some v else alookup t a end.
Definition mem_rd1 (m : xmem) (a : Z) : option Z :=
  match alookup (xm_writes m) a with Some v => Some v | None => xm_init m a end.
(* little endian, n bytes; addresses wrap at 2^asz *)
Fixpoint mem_rd (m : xmem) (asz a : Z) (n : nat) : option Z :=
  match n with
  | O => Some 0
  | Datatypes.S n => match mem_rd1 m a, mem_rd m asz ((a + 1) mod 2 ^ asz) n with
                     | Some b, Some r => Some (b + 256 * r)
                     | _, _ => None
                     end
  end.
(* a store faults (None) when a byte of the range is not mapped *)
Fixpoint mem_wr (m : xmem) (asz a v : Z) (n : nat) : option xmem :=
  match n with
  | O => Some m
  | Datatypes.S n => match mem_rd1 m a with
                     | None => None
                     | Some _ => mem_wr (mkxm ((a, v mod 256) :: xm_writes m) (xm_init m)) asz ((a + 1) mod 2 ^ asz) (v / 256) n
                     end
  end.
Definition nbytes (sz : Z) : nat := Z.to_nat (sz / 8).

(* ---------------- operands ---------------- *)
Inductive operand :=
| OReg (r : Z)                       (* register r at the instruction's operand size *)
| ORegH (r : Z)                      (* ah ch dh bh: bits 8..15 of register r (0..3) *)
| OMem (base : option Z) (index : option (Z * Z)) (disp : Z) (asz : Z)
                                     (* address = (base + index*scale + disp) mod 2^asz, asz = address size *)
| OImm (v : Z).                      (* immediate as seen at the operand size: 0 <= v < 2^sz *)

Definition ea (g : list Z) (o : operand) : Z :=
  match o with
  | OMem b i d asz =>
      ((match b with Some r => rget g r | None => 0 end)
       + (match i with Some (r, sc) => rget g r * sc | None => 0 end) + d) mod 2 ^ asz
  | _ => 0
  end.
Definition op_asz (o : operand) : Z := match o with OMem _ _ _ asz => asz | _ => 64 end.

Definition rd_op (sz : Z) (o : operand) (s : xstate) : option Z :=
  match o with
  | OReg r => Some (reg_read sz r (x_gpr s))
  | ORegH r => Some (regh_read r (x_gpr s))
  | OMem _ _ _ asz => mem_rd (x_mem s) asz (ea (x_gpr s) o) (nbytes sz)
  | OImm v => Some v
  end.

Definition set_gpr (s : xstate) (g : list Z) : xstate := mkx g (x_ugpr s) (x_xmm s) (x_fl s) (x_mem s).
Definition set_fl (s : xstate) (f : flags) : xstate := mkx (x_gpr s) (x_ugpr s) (x_xmm s) f (x_mem s).
Definition set_mem (s : xstate) (m : xmem) : xstate := mkx (x_gpr s) (x_ugpr s) (x_xmm s) (x_fl s) m.
Definition set_undef (s : xstate) (r : Z) : xstate := mkx (x_gpr s) (r :: x_ugpr s) (x_xmm s) (x_fl s) (x_mem s).

(* the address of a memory destination is computed from the registers in [sa] (normally the same state) *)
Definition wr_op_at (sz : Z) (o : operand) (v : Z) (sa s : xstate) : option xstate :=
  match o with
  | OReg r => Some (set_gpr s (reg_write sz r v (x_gpr s)))
  | ORegH r => Some (set_gpr s (regh_write r v (x_gpr s)))
  | OMem _ _ _ asz => match mem_wr (x_mem s) asz (ea (x_gpr sa) o) v (nbytes sz) with
                      | Some m => Some (set_mem s m) | None => None end
  | OImm _ => None
  end.
Definition wr_op (sz : Z) (o : operand) (v : Z) (s : xstate) : option xstate := wr_op_at sz o v s s.

(* ---------------- flags ---------------- *)
Definition msb (sz v : Z) : bool := 2 ^ (sz - 1) <=? v.
Definition bitb (v n : Z) : bool := Z.odd (v / 2 ^ n).
Definition fl_cf f v := mkfl v (f_pf f) (f_zf f) (f_sf f) (f_of f) (f_df f).
Definition fl_zf f v := mkfl (f_cf f) (f_pf f) v (f_sf f) (f_of f) (f_df f).
Definition fl_sf f v := mkfl (f_cf f) (f_pf f) (f_zf f) v (f_of f) (f_df f).
Definition fl_of f v := mkfl (f_cf f) (f_pf f) (f_zf f) (f_sf f) v (f_df f).
Definition fl_df f v := mkfl (f_cf f) (f_pf f) (f_zf f) (f_sf f) (f_of f) v.
(* PF is never compared (the lifter does not model it): after any flag-writing instruction it is FU *)
Definition fl_arith (f : flags) (cf of : flag) (sz res : Z) : flags :=
  mkfl cf FU (FB (res =? 0)) (FB (msb sz res)) of (f_df f).
Definition fl_all_undef (f : flags) : flags := mkfl FU FU FU FU FU (f_df f).
Definition flag_is (f : flag) : option bool := match f with FB b => Some b | FU => None end.

(* signed overflow of an exact integer result at width sz *)
Definition sovf (sz r : Z) : bool := (r <? - 2 ^ (sz - 1)) || (2 ^ (sz - 1) <=? r).
Definition Sg := ConstSpec.S.

(* ---------------- instruction forms ---------------- *)
Inductive aluop := AAdd | AOr | AAdc | ASbb | AAnd | ASub | AXor | ACmp | ATest.
Inductive unop := UNot | UNeg | UInc | UDec.
Inductive shop := SRol | SRor | SShl | SShr | SSar.
Inductive cc := CO | CNO | CB | CAE | CE | CNE | CBE | CA | CS | CNS | CP | CNP | CL | CGE | CLE | CG.
Inductive strop := StMovs | StCmps | StStos | StLods | StScas.
Inductive rep := RNone | RRep | RRepne.            (* F3 / F2 *)
Inductive btop := BtT | BtS | BtR | BtC.

Inductive instr :=
| IAlu (o : aluop) (sz : Z) (dst src : operand)
| IUn (o : unop) (sz : Z) (dst : operand)
| IMov (sz : Z) (dst src : operand)
| IMovx (signed : bool) (dsz ssz : Z) (dst : Z) (src : operand)
| ILea (sz : Z) (dst : Z) (src : operand)
| IXchg (sz : Z) (a b : operand)
| IXadd (sz : Z) (dst src : operand)            (* src is a register *)
| IPush (sz : Z) (src : operand)
| IPop (sz : Z) (dst : operand)
| ICallRel (target : Z)
| ICallInd (src : operand)
| IRet (imm : Z)
| IRet0                                       (* C3: no immediate operand (the lifted IL differs from `ret 0`) *)
| ILeave
| IJmpRel (target : Z)
| IJmpInd (src : operand)
| IJcc (c : cc) (target : Z)
| ISetcc (c : cc) (dst : operand)
| ICmov (c : cc) (sz : Z) (dst : Z) (src : operand)
| ILoop (k : Z) (target : Z)                  (* 0 loop, 1 loope, 2 loopne *)
| IJcxz (csz : Z) (target : Z)                (* jcxz / jecxz / jrcxz by count-register size *)
| IShift (o : shop) (sz : Z) (dst : operand) (cnt : operand)    (* cnt: OImm n, or OReg 1 = cl *)
| IShift1 (o : shop) (sz : Z) (dst : operand)                   (* D0 / D1: the count 1 is implicit (no imm8) *)
| IShxd (isl : bool) (sz : Z) (dst : operand) (src : Z) (cnt : operand)   (* shld / shrd dst, src-register, imm8|cl *)
| IMul (sz : Z) (src : operand)
| IImul1 (sz : Z) (src : operand)
| IImul2 (sz : Z) (dst : Z) (src : operand)
| IImul3 (sz : Z) (dst : Z) (src : operand) (imm : Z)
| IDiv (sz : Z) (src : operand)
| IIdiv (sz : Z) (src : operand)
| ICbw (sz : Z)                               (* 16 cbw, 32 cwde, 64 cdqe *)
| ICwd (sz : Z)                               (* 16 cwd, 32 cdq, 64 cqo *)
| IBt (o : btop) (sz : Z) (dst src : operand)
| IBsf (sz : Z) (dst : Z) (src : operand)
| IBsr (sz : Z) (dst : Z) (src : operand)
| IStr (o : strop) (sz : Z) (r : rep)
| IFlag (k : Z)                               (* 0 clc, 1 stc, 2 cmc, 3 cld, 4 std *)
| INop
| INoSpec (flagmask : Z).                     (* no specification here: processor comparison only *)

Definition cond (c : cc) (f : flags) : option bool :=
  let cf := flag_is (f_cf f) in let zf := flag_is (f_zf f) in let sf := flag_is (f_sf f) in
  let of := flag_is (f_of f) in let pf := flag_is (f_pf f) in
  let n := option_map negb in
  let b2 (k : bool -> bool -> bool) x y := match x, y with Some a, Some b => Some (k a b) | _, _ => None end in
  match c with
  | CO => of | CNO => n of | CB => cf | CAE => n cf | CE => zf | CNE => n zf
  | CBE => b2 orb cf zf | CA => n (b2 orb cf zf) | CS => sf | CNS => n sf | CP => pf | CNP => n pf
  | CL => b2 xorb sf of | CGE => n (b2 xorb sf of)
  | CLE => b2 orb zf (b2 xorb sf of) | CG => n (b2 orb zf (b2 xorb sf of))
  end.

Definition b2z (b : bool) : Z := if b then 1 else 0.
Definition obind {A B} (o : option A) (k : A -> option B) : option B := match o with Some a => k a | None => None end.
Definition of_opt (o : option (xstate * Z)) : outcome := match o with Some (s, ip) => XNext s ip | None => XFault end.

(* ---- ALU ---- *)
Definition alu (o : aluop) (sz a b : Z) (cin : bool) (f : flags) : Z * flags :=
  match o with
  | AAdd => let r := a + b in (U sz r, fl_arith f (FB (2 ^ sz <=? r)) (FB (sovf sz (Sg sz a + Sg sz b))) sz (U sz r))
  | AAdc => let r := a + b + b2z cin in
            (U sz r, fl_arith f (FB (2 ^ sz <=? r)) (FB (sovf sz (Sg sz a + Sg sz b + b2z cin))) sz (U sz r))
  | ASub | ACmp => let r := a - b in (U sz r, fl_arith f (FB (a <? b)) (FB (sovf sz (Sg sz a - Sg sz b))) sz (U sz r))
  | ASbb => let r := a - b - b2z cin in
            (U sz r, fl_arith f (FB (a <? b + b2z cin)) (FB (sovf sz (Sg sz a - Sg sz b - b2z cin))) sz (U sz r))
  | AAnd | ATest => let r := Z.land a b in (r, fl_arith f (FB false) (FB false) sz r)
  | AOr => let r := Z.lor a b in (r, fl_arith f (FB false) (FB false) sz r)
  | AXor => let r := Z.lxor a b in (r, fl_arith f (FB false) (FB false) sz r)
  end.
Definition alu_writes (o : aluop) : bool := match o with ACmp | ATest => false | _ => true end.
Definition alu_reads_cf (o : aluop) : bool := match o with AAdc | ASbb => true | _ => false end.

Definition un (o : unop) (sz a : Z) (f : flags) : Z * flags :=
  match o with
  | UNot => (2 ^ sz - 1 - a, f)
  | UNeg => let r := U sz (- a) in (r, fl_arith f (FB (negb (a =? 0))) (FB (a =? 2 ^ (sz - 1))) sz r)
  | UInc => let r := U sz (a + 1) in (r, fl_arith f (f_cf f) (FB (a =? 2 ^ (sz - 1) - 1)) sz r)
  | UDec => let r := U sz (a - 1) in (r, fl_arith f (f_cf f) (FB (a =? 2 ^ (sz - 1))) sz r)
  end.

(* ---- shifts and rotates: count masked to 5 bits (6 for 64-bit operands) ---- *)
Definition cmask (sz : Z) : Z := if sz =? 64 then 64 else 32.
Definition shift (o : shop) (sz a cnt : Z) (f : flags) : Z * flags :=
  let c := cnt mod cmask sz in
  if c =? 0 then (a, f) else
  match o with
  | SShl => let r := if sz <=? c then 0 else U sz (a * 2 ^ c) in
            let cf := if sz <=? c then FU else FB (bitb a (sz - c)) in
            let of := if c =? 1 then FB (xorb (msb sz r) (bitb a (sz - 1))) else FU in
            (r, fl_arith f cf of sz r)
  | SShr => let r := if sz <=? c then 0 else a / 2 ^ c in
            let cf := if sz <=? c then FU else FB (bitb a (c - 1)) in
            let of := if c =? 1 then FB (msb sz a) else FU in
            (r, fl_arith f cf of sz r)
  | SSar => let sa := Sg sz a in
            let r := if sz <=? c then (if sa <? 0 then 2 ^ sz - 1 else 0) else U sz (sa / 2 ^ c) in
            let cf := if sz <=? c then FB (sa <? 0) else FB (bitb a (c - 1)) in
            let of := if c =? 1 then FB false else FU in
            (r, fl_arith f cf of sz r)
  | SRol => let k := c mod sz in
            let r := if k =? 0 then a else U sz (a * 2 ^ k) + a / 2 ^ (sz - k) in
            let cf := Z.odd r in
            let of := if c =? 1 then FB (xorb (msb sz r) cf) else FU in
            (r, fl_of (fl_cf f (FB cf)) of)
  | SRor => let k := c mod sz in
            let r := if k =? 0 then a else a / 2 ^ k + U sz (a * 2 ^ (sz - k)) in
            let cf := msb sz r in
            let of := if c =? 1 then FB (xorb (msb sz r) (bitb r (sz - 2))) else FU in
            (r, fl_of (fl_cf f (FB cf)) of)
  end.

(* ---- stack ---- *)
Definition SP : Z := 4. Definition BP : Z := 5. Definition AX : Z := 0. Definition CX : Z := 1.
Definition DX : Z := 2. Definition SI : Z := 6. Definition DI : Z := 7.

Definition push (m : mode) (sz v : Z) (s : xstate) : option xstate :=
  let w := wordsz m in
  let sp := U w (reg_read w SP (x_gpr s) - sz / 8) in
  obind (mem_wr (x_mem s) w sp v (nbytes sz)) (fun mm =>
  Some (set_mem (set_gpr s (reg_write w SP sp (x_gpr s))) mm)).
(* value popped, and the state with the stack pointer advanced *)
Definition pop (m : mode) (sz : Z) (s : xstate) : option (Z * xstate) :=
  let w := wordsz m in
  let sp := reg_read w SP (x_gpr s) in
  obind (mem_rd (x_mem s) w sp (nbytes sz)) (fun v =>
  Some (v, set_gpr s (reg_write w SP (U w (sp + sz / 8)) (x_gpr s)))).

(* ---- multiplication / division ---- *)
Definition hi_lo_write (sz hi lo : Z) (g : list Z) : list Z :=
  if sz =? 8 then reg_write 16 AX (hi * 256 + lo) g
  else reg_write sz DX hi (reg_write sz AX lo g).
Definition hi_lo_read (sz : Z) (g : list Z) : Z :=
  if sz =? 8 then reg_read 16 AX g else reg_read sz DX g * 2 ^ sz + reg_read sz AX g.

(* ---- bit scan ---- *)
Fixpoint lowbit (fuel : nat) (v i : Z) : Z :=
  match fuel with O => i | Datatypes.S k => if Z.odd v then i else lowbit k (v / 2) (i + 1) end.

(* ---- string instructions ---- *)
Definition str_once (m : mode) (o : strop) (sz : Z) (s : xstate) : option xstate :=
  let w := wordsz m in
  let g := x_gpr s in
  let d := if match f_df (x_fl s) with FB true => true | _ => false end then - (sz / 8) else sz / 8 in
  let si := reg_read w SI g in let di := reg_read w DI g in
  let adv (r : Z) (g : list Z) := reg_write w r (U w (reg_read w r g + d)) g in
  match o with
  | StMovs => obind (mem_rd (x_mem s) w si (nbytes sz)) (fun v =>
              obind (mem_wr (x_mem s) w di v (nbytes sz)) (fun mm =>
              Some (set_mem (set_gpr s (adv DI (adv SI g))) mm)))
  | StStos => obind (mem_wr (x_mem s) w di (reg_read sz AX g) (nbytes sz)) (fun mm =>
              Some (set_mem (set_gpr s (adv DI g)) mm))
  | StLods => obind (mem_rd (x_mem s) w si (nbytes sz)) (fun v =>
              Some (set_gpr s (adv SI (reg_write sz AX v g))))
  | StCmps => obind (mem_rd (x_mem s) w si (nbytes sz)) (fun a =>
              obind (mem_rd (x_mem s) w di (nbytes sz)) (fun b =>
              Some (set_fl (set_gpr s (adv DI (adv SI g))) (snd (alu ACmp sz a b false (x_fl s))))))
  | StScas => obind (mem_rd (x_mem s) w di (nbytes sz)) (fun b =>
              Some (set_fl (set_gpr s (adv DI g)) (snd (alu ACmp sz (reg_read sz AX g) b false (x_fl s)))))
  end.
Definition str_tests_zf (o : strop) : bool := match o with StCmps | StScas => true | _ => false end.
Fixpoint str_rep (fuel : nat) (m : mode) (o : strop) (sz : Z) (r : rep) (s : xstate) : option (option xstate) :=
  (* Some None = fuel exhausted (no comparison) *)
  let w := wordsz m in
  if reg_read w CX (x_gpr s) =? 0 then Some (Some s) else
  match fuel with
  | O => Some None
  | Datatypes.S k =>
      match str_once m o sz s with
      | None => None
      | Some s1 =>
          let s2 := set_gpr s1 (reg_write w CX (U w (reg_read w CX (x_gpr s1) - 1)) (x_gpr s1)) in
          if str_tests_zf o && match r, f_zf (x_fl s2) with
                               | RRep, FB false => true      (* repe: stop when ZF = 0 *)
                               | RRepne, FB true => true     (* repne: stop when ZF = 1 *)
                               | _, _ => false end
          then Some (Some s2) else str_rep k m o sz r s2
      end
  end.

(* ---------------- the transition function ---------------- *)
Definition step (m : mode) (next : Z) (i : instr) (s : xstate) : outcome :=
  let w := wordsz m in
  let g := x_gpr s in
  let f := x_fl s in
  let ret (o : option xstate) := match o with Some s' => XNext s' next | None => XFault end in
  match i with
  | IAlu o sz dst src =>
      match rd_op sz dst s, rd_op sz src s with
      | Some a, Some b =>
          match (if alu_reads_cf o then flag_is (f_cf f) else Some false) with
          | None => XUnspec
          | Some cin =>
              let '(r, f') := alu o sz a b cin f in
              if alu_writes o then ret (option_map (fun s' => set_fl s' f') (wr_op sz dst r s))
              else XNext (set_fl s f') next
          end
      | _, _ => XFault
      end
  | IUn o sz dst =>
      match rd_op sz dst s with
      | Some a => let '(r, f') := un o sz a f in ret (option_map (fun s' => set_fl s' f') (wr_op sz dst r s))
      | None => XFault
      end
  | IMov sz dst src => ret (obind (rd_op sz src s) (fun v => wr_op sz dst v s))
  | IMovx sg dsz ssz dst src =>
      ret (obind (rd_op ssz src s) (fun v => wr_op dsz (OReg dst) (if sg then U dsz (Sg ssz v) else v) s))
  | ILea sz dst src => ret (wr_op sz (OReg dst) (U sz (ea g src)) s)
  | IXchg sz a b =>
      ret (obind (rd_op sz a s) (fun va => obind (rd_op sz b s) (fun vb =>
           obind (wr_op sz a vb s) (fun s1 => wr_op_at sz b va s s1))))
  | IXadd sz dst src =>
      (* SDM: TEMP := SRC + DEST; SRC := DEST; DEST := TEMP -- the source is written first, the destination last
         (one register for both: it ends up with the sum); a memory destination's address uses the old registers *)
      match rd_op sz dst s, rd_op sz src s with
      | Some a, Some b =>
          let '(r, f') := alu AAdd sz a b false f in
          ret (option_map (fun s' => set_fl s' f') (obind (wr_op sz src a s) (fun s1 => wr_op_at sz dst r s s1)))
      | _, _ => XFault
      end
  | IPush sz src => ret (obind (rd_op sz src s) (fun v => push m sz v s))
  | IPop sz dst => ret (obind (pop m sz s) (fun '(v, s1) => wr_op sz dst v s1))
  | ICallRel t => of_opt (option_map (fun s' => (s', t)) (push m w next s))
  | ICallInd src => of_opt (obind (rd_op w src s) (fun t => option_map (fun s' => (s', t)) (push m w next s)))
  | IRet imm =>
      of_opt (obind (pop m w s) (fun '(t, s1) =>
              Some (set_gpr s1 (reg_write w SP (U w (reg_read w SP (x_gpr s1) + imm)) (x_gpr s1)), t)))
  | IRet0 => of_opt (option_map (fun '(t, s1) => (s1, t)) (pop m w s))
  | ILeave =>
      let s0 := set_gpr s (reg_write w SP (reg_read w BP g) g) in
      ret (obind (pop m w s0) (fun '(v, s1) => Some (set_gpr s1 (reg_write w BP v (x_gpr s1)))))
  | IJmpRel t => XNext s t
  | IJmpInd src => of_opt (option_map (fun t => (s, t)) (rd_op w src s))
  | IJcc c t => match cond c f with Some b => XNext s (if b then t else next) | None => XUnspec end
  | ISetcc c dst => match cond c f with Some b => ret (wr_op 8 dst (b2z b) s) | None => XUnspec end
  | ICmov c sz dst src =>
      match cond c f with
      | None => XUnspec
      | Some b =>
          (* the source is always read; a 32-bit destination is zero-extended even when not moved *)
          ret (obind (rd_op sz src s) (fun v => wr_op sz (OReg dst) (if b then v else reg_read sz dst g) s))
      end
  | ILoop k t =>
      let c := U w (reg_read w CX g - 1) in
      let s' := set_gpr s (reg_write w CX c g) in
      match k, flag_is (f_zf f) with
      | 0, _ => XNext s' (if c =? 0 then next else t)
      | 1, Some z => XNext s' (if negb (c =? 0) && z then t else next)
      | 2, Some z => XNext s' (if negb (c =? 0) && negb z then t else next)
      | _, _ => XUnspec
      end
  | IJcxz csz t => XNext s (if reg_read csz CX g =? 0 then t else next)
  | IShift o sz dst cnt =>
      match rd_op sz dst s, rd_op 8 cnt s with
      | Some a, Some c =>
          let '(r, f') := shift o sz a c f in
          ret (option_map (fun s' => set_fl s' f') (wr_op sz dst r s))
      | _, _ => XFault
      end
  | IShift1 o sz dst =>
      match rd_op sz dst s with
      | Some a =>
          let '(r, f') := shift o sz a 1 f in
          ret (option_map (fun s' => set_fl s' f') (wr_op sz dst r s))
      | None => XFault
      end
  | IShxd isl sz dst src cnt =>
      (* SDM: count masked to 5 (6) bits; count 0 = no operation; count > operand size: destination and
         flags UNDEFINED (only possible for 16-bit operands) -> this file says nothing (XUnspec) *)
      match rd_op sz dst s, rd_op 8 cnt s with
      | Some a, Some c0 =>
          let c := c0 mod cmask sz in
          let b := reg_read sz src g in
          if c =? 0 then ret (wr_op sz dst a s)
          else if sz <? c then XUnspec
          else
            let r := if isl then U sz (a * 2 ^ c + b / 2 ^ (sz - c)) else U sz (a / 2 ^ c + b * 2 ^ (sz - c)) in
            let cf := if isl then bitb a (sz - c) else bitb a (c - 1) in
            let of := if c =? 1 then FB (xorb (msb sz r) (msb sz a)) else FU in
            ret (option_map (fun s' => set_fl s' (fl_arith f (FB cf) of sz r)) (wr_op sz dst r s))
      | _, _ => XFault
      end
  | IMul sz src =>
      match rd_op sz src s with
      | Some b => let p := reg_read sz AX g * b in
                  let hi := p / 2 ^ sz in
                  let fl := mkfl (FB (negb (hi =? 0))) FU FU FU (FB (negb (hi =? 0))) (f_df f) in
                  XNext (set_fl (set_gpr s (hi_lo_write sz hi (p mod 2 ^ sz) g)) fl) next
      | None => XFault
      end
  | IImul1 sz src =>
      match rd_op sz src s with
      | Some b => let p := Sg sz (reg_read sz AX g) * Sg sz b in
                  let pu := U (2 * sz) p in
                  let ov := sovf sz p in
                  let fl := mkfl (FB ov) FU FU FU (FB ov) (f_df f) in
                  XNext (set_fl (set_gpr s (hi_lo_write sz (pu / 2 ^ sz) (pu mod 2 ^ sz) g)) fl) next
      | None => XFault
      end
  | IImul2 sz dst src =>
      match rd_op sz src s with
      | Some b => let p := Sg sz (reg_read sz dst g) * Sg sz b in
                  let ov := sovf sz p in
                  let fl := mkfl (FB ov) FU FU FU (FB ov) (f_df f) in
                  XNext (set_fl (set_gpr s (reg_write sz dst (U sz p) g)) fl) next
      | None => XFault
      end
  | IImul3 sz dst src imm =>
      match rd_op sz src s with
      | Some b => let p := Sg sz b * Sg sz imm in
                  let ov := sovf sz p in
                  let fl := mkfl (FB ov) FU FU FU (FB ov) (f_df f) in
                  XNext (set_fl (set_gpr s (reg_write sz dst (U sz p) g)) fl) next
      | None => XFault
      end
  | IDiv sz src =>
      match rd_op sz src s with
      | Some b => if b =? 0 then XFault else
                  let n := hi_lo_read sz g in
                  let q := n / b in
                  if 2 ^ sz <=? q then XFault else
                  XNext (set_fl (set_gpr s (hi_lo_write sz (n mod b) q g)) (fl_all_undef f)) next
      | None => XFault
      end
  | IIdiv sz src =>
      match rd_op sz src s with
      | Some b => if b =? 0 then XFault else
                  let n := Sg (2 * sz) (hi_lo_read sz g) in
                  let d := Sg sz b in
                  let q := Z.quot n d in
                  if sovf sz q then XFault else
                  XNext (set_fl (set_gpr s (hi_lo_write sz (U sz (Z.rem n d)) (U sz q) g)) (fl_all_undef f)) next
      | None => XFault
      end
  | ICbw sz => XNext (set_gpr s (reg_write sz AX (U sz (Sg (sz / 2) (reg_read (sz / 2) AX g))) g)) next
  | ICwd sz => XNext (set_gpr s (reg_write sz DX (if msb sz (reg_read sz AX g) then 2 ^ sz - 1 else 0) g)) next
  | IBt o sz dst src =>
      match rd_op sz src s with
      | None => XFault
      | Some off =>
          (* register / immediate-offset forms: offset modulo the operand size.  A memory base with a
             REGISTER offset addresses a bit string: byte displacement (sz/8) * floor(signed offset / sz) *)
          let isreg := match src with OReg _ => true | _ => false end in
          let dst' := match dst, isreg with
                      | OMem b i d asz, true => OMem b i (d + (sz / 8) * (Sg sz off / sz)) asz
                      | _, _ => dst end in
          let bit := off mod sz in
          match rd_op sz dst' s with
          | None => XFault
          | Some a =>
              let cf := bitb a bit in
              let fl := mkfl (FB cf) FU (f_zf f) FU FU (f_df f) in
              let r := match o with
                       | BtT => a
                       | BtS => if cf then a else a + 2 ^ bit
                       | BtR => if cf then a - 2 ^ bit else a
                       | BtC => if cf then a - 2 ^ bit else a + 2 ^ bit
                       end in
              match o with
              | BtT => XNext (set_fl s fl) next
              | _ => ret (option_map (fun s' => set_fl s' fl) (wr_op sz dst' r s))
              end
          end
      end
  | IBsf sz dst src =>
      match rd_op sz src s with
      | None => XFault
      | Some v =>
          let fl z := mkfl FU FU (FB z) FU FU (f_df f) in
          if v =? 0 then XNext (set_fl (set_undef s dst) (fl true)) next
          else XNext (set_fl (set_gpr s (reg_write sz dst (lowbit 64 v 0) g)) (fl false)) next
      end
  | IBsr sz dst src =>
      match rd_op sz src s with
      | None => XFault
      | Some v =>
          let fl z := mkfl FU FU (FB z) FU FU (f_df f) in
          if v =? 0 then XNext (set_fl (set_undef s dst) (fl true)) next
          else XNext (set_fl (set_gpr s (reg_write sz dst (Z.log2 v) g)) (fl false)) next
      end
  | IStr o sz r =>
      match f_df f with
      | FU => XUnspec
      | FB _ =>
          match r with
          | RNone => ret (str_once m o sz s)
          | _ => match str_rep 64 m o sz r s with
                 | None => XFault
                 | Some None => XUnspec
                 | Some (Some s') => XNext s' next
                 end
          end
      end
  | IFlag k =>
      match k with
      | 0 => XNext (set_fl s (fl_cf f (FB false))) next
      | 1 => XNext (set_fl s (fl_cf f (FB true))) next
      | 2 => match f_cf f with FB b => XNext (set_fl s (fl_cf f (FB (negb b)))) next | FU => XUnspec end
      | 3 => XNext (set_fl s (fl_df f (FB false))) next
      | 4 => XNext (set_fl s (fl_df f (FB true))) next
      | _ => XUnspec
      end
  | INop => XNext s next
  | INoSpec _ => XUnspec
  end.
