(* Isa/Mips.v -- MIPS32 ISA SPECIFICATION (TRUSTED).

   Transcribed from "MIPS32 Architecture For Programmers, Volume II: The MIPS32 Instruction Set"
   (MD00086, rev. 2.x; pre-Release-6 encodings).  Each instruction cites the manual's entry (by
   mnemonic; the manual is alphabetical) and follows its "Operation" pseudocode, written over Z with
   the bit-vector operators of IL/ConstSpec.v (U = unsigned representative, S = signed reading).
   This file is the oracle property C02 names ("the architecture manual"); it does not mention the IL,
   the lifter or the lifter's mirror.

   Conventions
   * `decode` maps a raw 32-bit word to an instruction form.  Only canonical encodings are decoded:
     a field the manual requires to be zero must be zero (otherwise None: the check does not judge it).
   * GPR 0 is hard-wired to zero (`setr` ignores writes to register 0).
   * Results the manual calls UNPREDICTABLE are explicit: `MUnpred` (whole outcome) or the two flags of
     `MOk` (HI / LO UNPREDICTABLE).  Nothing ever compares an unpredictable component.
   * Exceptions are outcomes (`MTrap`): Integer Overflow, Trap, Breakpoint, System Call, Address Error.
   * A branch and its delay slot are ONE transition (`mstep2`): condition, target and link value are
     computed from the state BEFORE the branch, the link register is written by the branch itself,
     then the slot instruction executes, then control transfers. *)
From Coq Require Import ZArith List Bool.
From Falcon Require Import IL.ConstSpec.
Import ListNotations.
Local Open Scope Z_scope.

(* ------------------------------------------------------------------ instruction forms *)
Inductive alu3 := AAdd | AAddu | ASub | ASubu | AAnd | AOr | AXor | ANor | ASlt | ASltu | AMovn | AMovz | AMul.
Inductive shop := SSll | SSrl | SSra.
Inductive alui := IAddi | IAddiu | ISlti | ISltiu | IAndi | IOri | IXori.
Inductive mdop := MMult | MMultu | MDiv | MDivu | MMadd | MMaddu | MMsub | MMsubu.
Inductive ldk := LLb | LLbu | LLh | LLhu | LLw | LLwl | LLwr | LLl.
Inductive stk := SSb | SSh | SSw | SSwl | SSwr | SSc.
Inductive br2 := BEq | BNe.
Inductive brz := BLez | BGtz | BLtz | BGez.
Inductive brzal := BLtzal | BGezal.

Inductive minstr :=
| MAlu3 (o : alu3) (rd rs rt : Z)
| MShi (o : shop) (rd rt sa : Z)          (* SLL SRL SRA *)
| MShv (o : shop) (rd rt rs : Z)          (* SLLV SRLV SRAV *)
| MAluI (o : alui) (rt rs imm : Z)        (* imm = raw 16-bit field *)
| MLui (rt imm : Z)
| MClz (rd rs : Z)
| MClo (rd rs : Z)
| MMulDiv (o : mdop) (rs rt : Z)
| MMfhi (rd : Z) | MMflo (rd : Z) | MMthi (rs : Z) | MMtlo (rs : Z)
| MLoad (k : ldk) (rt base off : Z)       (* off = raw 16-bit field *)
| MStore (k : stk) (rt base off : Z)
| MTeq (rs rt code : Z)
| MBreak (code : Z)
| MSyscall (code : Z)
| MSync (stype : Z)
| MPref (hint base off : Z)
| MRdhwr (rt rd : Z)
| MJ (idx : Z) | MJal (idx : Z)           (* idx = raw 26-bit field *)
| MJr (rs : Z) | MJalr (rd rs : Z)
| MBr2 (c : br2) (rs rt off : Z)          (* BEQ BNE *)
| MBrz (c : brz) (rs off : Z)             (* BLEZ BGTZ BLTZ BGEZ *)
| MBrzal (c : brzal) (rs off : Z).        (* BLTZAL BGEZAL *)

(* ------------------------------------------------------------------ decoder (manual, Appendix A opcode maps) *)
Definition fld (w lo n : Z) : Z := (w / 2 ^ lo) mod 2 ^ n.

Definition dec_special (w rs rt rd sa fn : Z) : option minstr :=
  let z (b : bool) (i : minstr) := if b then Some i else None in
  match fn with
  | 0 => z (rs =? 0) (MShi SSll rd rt sa)                       (* SLL *)
  | 2 => z (rs =? 0) (MShi SSrl rd rt sa)                       (* SRL (rs field 1 = ROTR, not decoded) *)
  | 3 => z (rs =? 0) (MShi SSra rd rt sa)                       (* SRA *)
  | 4 => z (sa =? 0) (MShv SSll rd rt rs)                       (* SLLV *)
  | 6 => z (sa =? 0) (MShv SSrl rd rt rs)                       (* SRLV (sa field 1 = ROTRV, not decoded) *)
  | 7 => z (sa =? 0) (MShv SSra rd rt rs)                       (* SRAV *)
  | 8 => z ((rt =? 0) && (rd =? 0) && (sa =? 0)) (MJr rs)       (* JR (hint 0) *)
  | 9 => z ((rt =? 0) && (sa =? 0)) (MJalr rd rs)               (* JALR (hint 0) *)
  | 10 => z (sa =? 0) (MAlu3 AMovz rd rs rt)                    (* MOVZ *)
  | 11 => z (sa =? 0) (MAlu3 AMovn rd rs rt)                    (* MOVN *)
  | 12 => Some (MSyscall (fld w 6 20))                          (* SYSCALL *)
  | 13 => Some (MBreak (fld w 6 20))                            (* BREAK *)
  | 15 => z ((rs =? 0) && (rt =? 0) && (rd =? 0)) (MSync sa)    (* SYNC *)
  | 16 => z ((rs =? 0) && (rt =? 0) && (sa =? 0)) (MMfhi rd)    (* MFHI *)
  | 17 => z ((rt =? 0) && (rd =? 0) && (sa =? 0)) (MMthi rs)    (* MTHI *)
  | 18 => z ((rs =? 0) && (rt =? 0) && (sa =? 0)) (MMflo rd)    (* MFLO *)
  | 19 => z ((rt =? 0) && (rd =? 0) && (sa =? 0)) (MMtlo rs)    (* MTLO *)
  | 24 => z ((rd =? 0) && (sa =? 0)) (MMulDiv MMult rs rt)      (* MULT *)
  | 25 => z ((rd =? 0) && (sa =? 0)) (MMulDiv MMultu rs rt)     (* MULTU *)
  | 26 => z ((rd =? 0) && (sa =? 0)) (MMulDiv MDiv rs rt)       (* DIV *)
  | 27 => z ((rd =? 0) && (sa =? 0)) (MMulDiv MDivu rs rt)      (* DIVU *)
  | 32 => z (sa =? 0) (MAlu3 AAdd rd rs rt)                     (* ADD *)
  | 33 => z (sa =? 0) (MAlu3 AAddu rd rs rt)                    (* ADDU *)
  | 34 => z (sa =? 0) (MAlu3 ASub rd rs rt)                     (* SUB *)
  | 35 => z (sa =? 0) (MAlu3 ASubu rd rs rt)                    (* SUBU *)
  | 36 => z (sa =? 0) (MAlu3 AAnd rd rs rt)                     (* AND *)
  | 37 => z (sa =? 0) (MAlu3 AOr rd rs rt)                      (* OR *)
  | 38 => z (sa =? 0) (MAlu3 AXor rd rs rt)                     (* XOR *)
  | 39 => z (sa =? 0) (MAlu3 ANor rd rs rt)                     (* NOR *)
  | 42 => z (sa =? 0) (MAlu3 ASlt rd rs rt)                     (* SLT *)
  | 43 => z (sa =? 0) (MAlu3 ASltu rd rs rt)                    (* SLTU *)
  | 52 => Some (MTeq rs rt (fld w 6 10))                        (* TEQ *)
  | _ => None
  end.

Definition dec_special2 (rs rt rd sa fn : Z) : option minstr :=
  let z (b : bool) (i : minstr) := if b then Some i else None in
  match fn with
  | 0 => z ((rd =? 0) && (sa =? 0)) (MMulDiv MMadd rs rt)       (* MADD *)
  | 1 => z ((rd =? 0) && (sa =? 0)) (MMulDiv MMaddu rs rt)      (* MADDU *)
  | 2 => z (sa =? 0) (MAlu3 AMul rd rs rt)                      (* MUL *)
  | 4 => z ((rd =? 0) && (sa =? 0)) (MMulDiv MMsub rs rt)       (* MSUB *)
  | 5 => z ((rd =? 0) && (sa =? 0)) (MMulDiv MMsubu rs rt)      (* MSUBU *)
  | 32 => z ((sa =? 0) && (rt =? rd)) (MClz rd rs)              (* CLZ: "rt must be the same as rd", else UNPREDICTABLE *)
  | 33 => z ((sa =? 0) && (rt =? rd)) (MClo rd rs)              (* CLO *)
  | _ => None
  end.

Definition decode (w : Z) : option minstr :=
  let z (b : bool) (i : minstr) := if b then Some i else None in
  if (w <? 0) || (2 ^ 32 <=? w) then None else
  let op := fld w 26 6 in let rs := fld w 21 5 in let rt := fld w 16 5 in let rd := fld w 11 5 in
  let sa := fld w 6 5 in let fn := fld w 0 6 in let imm := fld w 0 16 in
  match op with
  | 0 => dec_special w rs rt rd sa fn
  | 1 => match rt with                                          (* REGIMM *)
         | 0 => Some (MBrz BLtz rs imm)                         (* BLTZ *)
         | 1 => Some (MBrz BGez rs imm)                         (* BGEZ *)
         | 16 => Some (MBrzal BLtzal rs imm)                    (* BLTZAL *)
         | 17 => Some (MBrzal BGezal rs imm)                    (* BGEZAL *)
         | _ => None
         end
  | 2 => Some (MJ (fld w 0 26))                                 (* J *)
  | 3 => Some (MJal (fld w 0 26))                               (* JAL *)
  | 4 => Some (MBr2 BEq rs rt imm)                              (* BEQ *)
  | 5 => Some (MBr2 BNe rs rt imm)                              (* BNE *)
  | 6 => z (rt =? 0) (MBrz BLez rs imm)                         (* BLEZ *)
  | 7 => z (rt =? 0) (MBrz BGtz rs imm)                         (* BGTZ *)
  | 8 => Some (MAluI IAddi rt rs imm)                           (* ADDI *)
  | 9 => Some (MAluI IAddiu rt rs imm)                          (* ADDIU *)
  | 10 => Some (MAluI ISlti rt rs imm)                          (* SLTI *)
  | 11 => Some (MAluI ISltiu rt rs imm)                         (* SLTIU *)
  | 12 => Some (MAluI IAndi rt rs imm)                          (* ANDI *)
  | 13 => Some (MAluI IOri rt rs imm)                           (* ORI *)
  | 14 => Some (MAluI IXori rt rs imm)                          (* XORI *)
  | 15 => z (rs =? 0) (MLui rt imm)                             (* LUI *)
  | 28 => dec_special2 rs rt rd sa fn                           (* SPECIAL2 *)
  | 31 => match fn with                                         (* SPECIAL3 *)
          | 59 => z ((rs =? 0) && (sa =? 0)) (MRdhwr rt rd)     (* RDHWR *)
          | _ => None
          end
  | 32 => Some (MLoad LLb rt rs imm)                            (* LB *)
  | 33 => Some (MLoad LLh rt rs imm)                            (* LH *)
  | 34 => Some (MLoad LLwl rt rs imm)                           (* LWL *)
  | 35 => Some (MLoad LLw rt rs imm)                            (* LW *)
  | 36 => Some (MLoad LLbu rt rs imm)                           (* LBU *)
  | 37 => Some (MLoad LLhu rt rs imm)                           (* LHU *)
  | 38 => Some (MLoad LLwr rt rs imm)                           (* LWR *)
  | 40 => Some (MStore SSb rt rs imm)                           (* SB *)
  | 41 => Some (MStore SSh rt rs imm)                           (* SH *)
  | 42 => Some (MStore SSwl rt rs imm)                          (* SWL *)
  | 43 => Some (MStore SSw rt rs imm)                           (* SW *)
  | 46 => Some (MStore SSwr rt rs imm)                          (* SWR *)
  | 48 => Some (MLoad LLl rt rs imm)                            (* LL *)
  | 51 => Some (MPref rt rs imm)                                (* PREF *)
  | 56 => Some (MStore SSc rt rs imm)                           (* SC *)
  | _ => None
  end.

(* ------------------------------------------------------------------ machine state *)
Record mstate := mkm {
  gpr : Z -> Z;        (* GPR[0..31]; GPR[0] = 0 *)
  hi : Z; lo : Z;
  pc : Z;
  mem : Z -> Z;        (* byte-addressed, 32-bit address space *)
  big : bool }.        (* BigEndianMem = BigEndianCPU *)

Definition W : Z := 2 ^ 32.
Definition a32 (a : Z) : Z := a mod W.

Definition wf_m (s : mstate) : Prop :=
  gpr s 0 = 0 /\ (forall r, 0 <= gpr s r < W) /\ 0 <= hi s < W /\ 0 <= lo s < W /\
  0 <= pc s < W /\ (forall a, 0 <= mem s a < 256).

Definition setr (s : mstate) (r v : Z) : mstate :=
  if r =? 0 then s
  else mkm (fun k => if k =? r then v else gpr s k) (hi s) (lo s) (pc s) (mem s) (big s).
Definition set_hi (s : mstate) (v : Z) : mstate := mkm (gpr s) v (lo s) (pc s) (mem s) (big s).
Definition set_lo (s : mstate) (v : Z) : mstate := mkm (gpr s) (hi s) v (pc s) (mem s) (big s).
Definition set_pc (s : mstate) (v : Z) : mstate := mkm (gpr s) (hi s) (lo s) v (mem s) (big s).
Definition set_mem (s : mstate) (m : Z -> Z) : mstate := mkm (gpr s) (hi s) (lo s) (pc s) m (big s).

(* memory: "LoadMemory"/"StoreMemory" for naturally sized data; byte 0 of a big-endian datum is its
   most significant byte *)
Definition mb (s : mstate) (a : Z) : Z := mem s (a32 a).
Definition ld1 (s : mstate) (a : Z) : Z := mb s a.
Definition ld2 (s : mstate) (a : Z) : Z :=
  if big s then mb s a * 256 + mb s (a + 1) else mb s (a + 1) * 256 + mb s a.
Definition ld4 (s : mstate) (a : Z) : Z :=
  if big s then ((mb s a * 256 + mb s (a + 1)) * 256 + mb s (a + 2)) * 256 + mb s (a + 3)
  else ((mb s (a + 3) * 256 + mb s (a + 2)) * 256 + mb s (a + 1)) * 256 + mb s a.
Definition wr (m : Z -> Z) (a v : Z) : Z -> Z := fun k => if k =? a32 a then v mod 256 else m k.
Definition st1 (s : mstate) (a v : Z) : mstate := set_mem s (wr (mem s) a v).
Definition st2 (s : mstate) (a v : Z) : mstate :=
  set_mem s (if big s then wr (wr (mem s) a (v / 256)) (a + 1) v
             else wr (wr (mem s) a v) (a + 1) (v / 256)).
Definition st4 (s : mstate) (a v : Z) : mstate :=
  set_mem s (if big s then wr (wr (wr (wr (mem s) a (v / 2 ^ 24)) (a + 1) (v / 2 ^ 16)) (a + 2) (v / 2 ^ 8)) (a + 3) v
             else wr (wr (wr (wr (mem s) a v) (a + 1) (v / 2 ^ 8)) (a + 2) (v / 2 ^ 16)) (a + 3) (v / 2 ^ 24)).

(* ------------------------------------------------------------------ outcomes *)
Inductive mtrap := TOverflow | TTrap | TBreak | TSyscall | TAddrErr.

Inductive mresult :=
| MOk (s : mstate) (uhi ulo : bool)   (* completed; uhi / ulo: HI / LO are UNPREDICTABLE afterwards *)
| MTrap (t : mtrap) (s : mstate)      (* exception; s = architectural state when it is raised *)
| MUnpred.                            (* the manual leaves the whole outcome UNPREDICTABLE / implementation-defined *)

Definition ok (s : mstate) : mresult := MOk s false false.

Definition sx16 (imm : Z) : Z := if imm <? 2 ^ 15 then imm else imm - 2 ^ 16.     (* sign_extend(immediate) *)
Definition vaddr (s : mstate) (base off : Z) : Z := a32 (gpr s base + sx16 off).   (* vAddr <- sign_extend(offset) + GPR[base] *)

(* CLZ / CLO: number of leading zeros (ones) of a 32-bit word *)
Definition clz32 (x : Z) : Z := if x =? 0 then 32 else 31 - Z.log2 x.
Definition clo32 (x : Z) : Z := clz32 (W - 1 - x).

(* ------------------------------------------------------------------ non-control instructions *)
Definition exec_alu3 (o : alu3) (rd rs rt : Z) (s : mstate) : mresult :=
  let a := gpr s rs in let b := gpr s rt in
  match o with
  | AAdd =>   (* ADD: temp <- (GPR[rs]31||GPR[rs]) + (GPR[rt]31||GPR[rt]); temp32 <> temp31 => IntegerOverflow *)
      let t := S 32 a + S 32 b in
      if (t <? - 2 ^ 31) || (2 ^ 31 <=? t) then MTrap TOverflow s else ok (setr s rd (U 32 t))
  | AAddu => ok (setr s rd (U 32 (a + b)))                                  (* ADDU *)
  | ASub =>   (* SUB *)
      let t := S 32 a - S 32 b in
      if (t <? - 2 ^ 31) || (2 ^ 31 <=? t) then MTrap TOverflow s else ok (setr s rd (U 32 t))
  | ASubu => ok (setr s rd (U 32 (a - b)))                                  (* SUBU *)
  | AAnd => ok (setr s rd (Z.land a b))                                     (* AND *)
  | AOr => ok (setr s rd (Z.lor a b))                                       (* OR *)
  | AXor => ok (setr s rd (Z.lxor a b))                                     (* XOR *)
  | ANor => ok (setr s rd (W - 1 - Z.lor a b))                              (* NOR: not (rs or rt) *)
  | ASlt => ok (setr s rd (if S 32 a <? S 32 b then 1 else 0))              (* SLT *)
  | ASltu => ok (setr s rd (if a <? b then 1 else 0))                       (* SLTU *)
  | AMovn => ok (if b =? 0 then s else setr s rd a)                         (* MOVN: if GPR[rt] <> 0 then GPR[rd] <- GPR[rs] *)
  | AMovz => ok (if b =? 0 then setr s rd a else s)                         (* MOVZ *)
  | AMul => MOk (setr s rd (U 32 (S 32 a * S 32 b))) true true              (* MUL: HI, LO UNPREDICTABLE *)
  end.

Definition shift (o : shop) (x n : Z) : Z :=       (* 0 <= n < 32 *)
  match o with
  | SSll => U 32 (x * 2 ^ n)                        (* GPR[rt](31-s)..0 || 0^s *)
  | SSrl => x / 2 ^ n                               (* 0^s || GPR[rt]31..s *)
  | SSra => U 32 (S 32 x / 2 ^ n)                   (* (GPR[rt]31)^s || GPR[rt]31..s *)
  end.

Definition exec_alui (o : alui) (rt rs imm : Z) (s : mstate) : mresult :=
  let a := gpr s rs in
  match o with
  | IAddi =>  (* ADDI *)
      let t := S 32 a + sx16 imm in
      if (t <? - 2 ^ 31) || (2 ^ 31 <=? t) then MTrap TOverflow s else ok (setr s rt (U 32 t))
  | IAddiu => ok (setr s rt (U 32 (a + sx16 imm)))                          (* ADDIU *)
  | ISlti => ok (setr s rt (if S 32 a <? sx16 imm then 1 else 0))           (* SLTI *)
  | ISltiu => ok (setr s rt (if a <? U 32 (sx16 imm) then 1 else 0))        (* SLTIU: sign-extend, compare unsigned *)
  | IAndi => ok (setr s rt (Z.land a imm))                                  (* ANDI: zero_extend(immediate) *)
  | IOri => ok (setr s rt (Z.lor a imm))                                    (* ORI *)
  | IXori => ok (setr s rt (Z.lxor a imm))                                  (* XORI *)
  end.

Definition exec_muldiv (o : mdop) (rs rt : Z) (s : mstate) : mresult :=
  let a := gpr s rs in let b := gpr s rt in
  let acc := hi s * W + lo s in
  let put (t : Z) := ok (set_lo (set_hi s (U 64 t / W)) (U 64 t mod W)) in
  match o with
  | MMult => put (S 32 a * S 32 b)                                          (* MULT: prod <- rs * rt (signed); LO <- prod31..0; HI <- prod63..32 *)
  | MMultu => put (a * b)                                                   (* MULTU *)
  | MDiv =>                                                                 (* DIV: divisor zero => UNPREDICTABLE result, no exception *)
      if b =? 0 then MOk s true true
      else ok (set_lo (set_hi s (U 32 (Z.rem (S 32 a) (S 32 b)))) (U 32 (Z.quot (S 32 a) (S 32 b))))
  | MDivu =>                                                                (* DIVU *)
      if b =? 0 then MOk s true true
      else ok (set_lo (set_hi s (a mod b)) (a / b))
  | MMadd => put (acc + S 32 a * S 32 b)                                    (* MADD: (HI||LO) <- (HI||LO) + rs * rt *)
  | MMaddu => put (acc + a * b)                                             (* MADDU *)
  | MMsub => put (acc - S 32 a * S 32 b)                                    (* MSUB: (HI||LO) <- (HI||LO) - rs * rt *)
  | MMsubu => put (acc - a * b)                                             (* MSUBU *)
  end.

(* unaligned word parts: byte <- vAddr1..0 xor BigEndianCPU^2 (LWL/LWR/SWL/SWR "Operation") *)
Definition lane (s : mstate) (va : Z) : Z := if big s then 3 - va mod 4 else va mod 4.
Definition aligned4 (va : Z) : Z := va - va mod 4.

Definition exec_load (k : ldk) (rt base off : Z) (s : mstate) : mresult :=
  let va := vaddr s base off in
  match k with
  | LLb => ok (setr s rt (U 32 (S 8 (ld1 s va))))                           (* LB: sign_extend(byte) *)
  | LLbu => ok (setr s rt (ld1 s va))                                       (* LBU *)
  | LLh => if va mod 2 =? 0 then ok (setr s rt (U 32 (S 16 (ld2 s va)))) else MTrap TAddrErr s    (* LH: vAddr0 <> 0 => AddressError *)
  | LLhu => if va mod 2 =? 0 then ok (setr s rt (ld2 s va)) else MTrap TAddrErr s                 (* LHU *)
  | LLw | LLl => if va mod 4 =? 0 then ok (setr s rt (ld4 s va)) else MTrap TAddrErr s            (* LW, LL: vAddr1..0 <> 0 => AddressError *)
  | LLwl =>   (* LWL: temp <- memword(7+8*byte)..0 || GPR[rt](23-8*byte)..0 *)
      let b := lane s va in let mw := ld4 s (aligned4 va) in
      ok (setr s rt (U 32 (mw * 2 ^ (8 * (3 - b))) + gpr s rt mod 2 ^ (8 * (3 - b))))
  | LLwr =>   (* LWR: temp <- GPR[rt]31..(32-8*byte) || memword31..(8*byte) *)
      let b := lane s va in let mw := ld4 s (aligned4 va) in
      ok (setr s rt (gpr s rt / 2 ^ (32 - 8 * b) * 2 ^ (32 - 8 * b) + mw / 2 ^ (8 * b)))
  end.

Definition exec_store (k : stk) (rt base off : Z) (s : mstate) : mresult :=
  let va := vaddr s base off in let v := gpr s rt in
  match k with
  | SSb => ok (st1 s va v)                                                  (* SB *)
  | SSh => if va mod 2 =? 0 then ok (st2 s va (v mod 2 ^ 16)) else MTrap TAddrErr s      (* SH *)
  | SSw => if va mod 4 =? 0 then ok (st4 s va v) else MTrap TAddrErr s                   (* SW *)
  | SSc =>    (* SC, on the path where LLbit = 1 (the state has no LLbit: the atomic sequence is assumed uninterrupted):
                 StoreMemory; GPR[rt] <- 0^31 || LLbit *)
      if va mod 4 =? 0 then ok (setr (st4 s va v) rt 1) else MTrap TAddrErr s
  | SSwl =>   (* SWL: dataword <- 0^(24-8*byte) || GPR[rt]31..(24-8*byte), (byte+1) bytes stored at the low-order lanes *)
      let b := lane s va in let mw := ld4 s (aligned4 va) in
      ok (st4 s (aligned4 va) (mw / 2 ^ (8 * (b + 1)) * 2 ^ (8 * (b + 1)) + v / 2 ^ (8 * (3 - b))))
  | SSwr =>   (* SWR: dataword <- GPR[rt](31-8*byte)..0 || 0^(8*byte), stored at lanes byte..3 *)
      let b := lane s va in let mw := ld4 s (aligned4 va) in
      ok (st4 s (aligned4 va) (U 32 (v * 2 ^ (8 * b)) + mw mod 2 ^ (8 * b)))
  end.

Definition is_control (i : minstr) : bool :=
  match i with
  | MJ _ | MJal _ | MJr _ | MJalr _ _ | MBr2 _ _ _ _ | MBrz _ _ _ | MBrzal _ _ _ => true
  | _ => false
  end.

(* one non-control instruction; the program counter is advanced by the caller *)
Definition exec1 (i : minstr) (s : mstate) : mresult :=
  match i with
  | MAlu3 o rd rs rt => exec_alu3 o rd rs rt s
  | MShi o rd rt sa => ok (setr s rd (shift o (gpr s rt) sa))               (* SLL SRL SRA *)
  | MShv o rd rt rs => ok (setr s rd (shift o (gpr s rt) (gpr s rs mod 32)))   (* SLLV SRLV SRAV: s <- GPR[rs]4..0 *)
  | MAluI o rt rs imm => exec_alui o rt rs imm s
  | MLui rt imm => ok (setr s rt (imm * 2 ^ 16))                            (* LUI: immediate || 0^16 *)
  | MClz rd rs => ok (setr s rd (clz32 (gpr s rs)))                         (* CLZ *)
  | MClo rd rs => ok (setr s rd (clo32 (gpr s rs)))                         (* CLO *)
  | MMulDiv o rs rt => exec_muldiv o rs rt s
  | MMfhi rd => ok (setr s rd (hi s))                                       (* MFHI *)
  | MMflo rd => ok (setr s rd (lo s))                                       (* MFLO *)
  | MMthi rs => ok (set_hi s (gpr s rs))                                    (* MTHI *)
  | MMtlo rs => ok (set_lo s (gpr s rs))                                    (* MTLO *)
  | MLoad k rt base off => exec_load k rt base off s
  | MStore k rt base off => exec_store k rt base off s
  | MTeq rs rt _ => if gpr s rs =? gpr s rt then MTrap TTrap s else ok s    (* TEQ *)
  | MBreak _ => MTrap TBreak s                                              (* BREAK *)
  | MSyscall _ => MTrap TSyscall s                                          (* SYSCALL *)
  | MSync _ => ok s                                                         (* SYNC: ordering only *)
  | MPref _ _ _ => ok s                                                     (* PREF: no architecturally visible change *)
  | MRdhwr _ _ => MUnpred                                                   (* RDHWR: hardware registers are not part of this state *)
  | _ => MUnpred                                                            (* control instructions: see mstep2 *)
  end.

(* ------------------------------------------------------------------ branches and jumps *)
Record binfo := mkbi { b_taken : bool; b_target : Z; b_link : option (Z * Z) }.

(* target_offset <- sign_extend(offset || 0^2); PC <- (PC of the delay slot) + target_offset *)
Definition btarget (s : mstate) (off : Z) : Z := a32 (pc s + 4 + sx16 off * 4).
(* J/JAL: PC <- PC(GPRLEN-1)..28 || instr_index || 0^2, PC being the address of the delay slot *)
Definition jtarget (s : mstate) (idx : Z) : Z := a32 (pc s + 4) / 2 ^ 28 * 2 ^ 28 + idx * 4.

(* None = the manual leaves the instruction UNPREDICTABLE in this state / for these fields *)
Definition branch_info (i : minstr) (s : mstate) : option binfo :=
  let link := a32 (pc s + 8) in
  match i with
  | MJ idx => Some (mkbi true (jtarget s idx) None)                         (* J *)
  | MJal idx => Some (mkbi true (jtarget s idx) (Some (31, link)))          (* JAL: GPR[31] <- PC + 8 *)
  | MJr rs => Some (mkbi true (gpr s rs) None)                              (* JR: temp <- GPR[rs] *)
  | MJalr rd rs =>                                                          (* JALR: rs = rd is UNPREDICTABLE *)
      if rd =? rs then None else Some (mkbi true (gpr s rs) (Some (rd, link)))
  | MBr2 BEq rs rt off => Some (mkbi (gpr s rs =? gpr s rt) (btarget s off) None)            (* BEQ *)
  | MBr2 BNe rs rt off => Some (mkbi (negb (gpr s rs =? gpr s rt)) (btarget s off) None)     (* BNE *)
  | MBrz BLez rs off => Some (mkbi (S 32 (gpr s rs) <=? 0) (btarget s off) None)             (* BLEZ *)
  | MBrz BGtz rs off => Some (mkbi (0 <? S 32 (gpr s rs)) (btarget s off) None)              (* BGTZ *)
  | MBrz BLtz rs off => Some (mkbi (S 32 (gpr s rs) <? 0) (btarget s off) None)              (* BLTZ *)
  | MBrz BGez rs off => Some (mkbi (0 <=? S 32 (gpr s rs)) (btarget s off) None)             (* BGEZ *)
  | MBrzal c rs off =>                                                      (* BLTZAL / BGEZAL: GPR[31] <- PC + 8 unconditionally;
                                                                               rs = 31 is UNPREDICTABLE *)
      if rs =? 31 then None
      else Some (mkbi (match c with BLtzal => S 32 (gpr s rs) <? 0 | BGezal => 0 <=? S 32 (gpr s rs) end)
                      (btarget s off) (Some (31, link)))
  | _ => None
  end.

(* a single non-control instruction *)
Definition mstep1 (i : minstr) (s : mstate) : mresult :=
  if is_control i then MUnpred else
  match exec1 i s with
  | MOk s' uh ul => MOk (set_pc s' (a32 (pc s + 4))) uh ul
  | r => r
  end.

(* branch + delay slot: I: condition <- ..., GPR[31] <- PC + 8;  I+1: slot executes; then PC <- target.
   A control instruction in the delay slot is UNPREDICTABLE. *)
Definition mstep2 (b slot : minstr) (s : mstate) : mresult :=
  match branch_info b s with
  | None => MUnpred
  | Some bi =>
      if is_control slot then MUnpred else
      let s1 := match b_link bi with Some (r, v) => setr s r v | None => s end in
      match exec1 slot s1 with
      | MOk s2 uh ul => MOk (set_pc s2 (if b_taken bi then b_target bi else a32 (pc s + 8))) uh ul
      | r => r
      end
  end.

(* what the words at pc, pc+4 do from state s *)
Definition mrun (ws : list Z) (s : mstate) : mresult :=
  match ws with
  | [w] => match decode w with Some i => mstep1 i s | None => MUnpred end
  | [w1; w2] => match decode w1, decode w2 with
                | Some b, Some sl => if is_control b then mstep2 b sl s else MUnpred
                | _, _ => MUnpred
                end
  | _ => MUnpred
  end.
