(* Isa/A64Proofs.v -- generic lemmas for the per-form correctness theorems of property C03:
   the straight-line runner, environments, the embedding of machine states, register access. *)
From Coq Require Import ZArith List Bool NArith Lia ZifyBool.
From Falcon Require Import Base.Res IL.Const IL.ConstSpec IL.Expr IL.ExprSpec IL.Func IL.Loc Exec.Sem
     IL.ConstProofs IL.ExprProofs Isa.A64 Isa.A64Lift Isa.A64Run.
Import ListNotations.
Local Open Scope Z_scope.
Ltac Zify.zify_post_hook ::= Z.div_mod_to_equations.

(* ================================================================== 1. run_graph on graph_of = run_ops *)
Lemma find_instr_number_from addr : forall ops k j o,
  nth_error ops j = Some o ->
  find_instr (number_from k addr ops) (k + Z.of_nat j) = Some (mkinstr (k + Z.of_nat j) o (Some addr)).
Proof.
  induction ops as [|x t IH]; intros k j o H; [destruct j; discriminate|].
  destruct j as [|j]; cbn [nth_error] in H.
  - inversion H; subst. cbn [number_from find_instr i_index]. rewrite Z.add_0_r, Z.eqb_refl. reflexivity.
  - cbn [number_from find_instr i_index].
    destruct (Z.eqb_spec k (k + Z.of_nat (Datatypes.S j))) as [E|_]; [lia|].
    replace (k + Z.of_nat (Datatypes.S j)) with ((k + 1) + Z.of_nat j) by lia. apply IH; assumption.
Qed.

Lemma scan_number_from addr f : forall ops k j o,
  nth_error ops j = Some o ->
  instr_forward_scan f 0 (number_from k addr ops) (k + Z.of_nat j) =
  match nth_error ops (Datatypes.S j) with
  | Some _ => Ok [LInstr 0 (k + Z.of_nat j + 1)]
  | None => es <- cfg_edges_out (f_cfg f) 0 ;; Ok (edge_locs es)
  end.
Proof.
  induction ops as [|x t IH]; intros k j o H; [destruct j; discriminate|].
  destruct j as [|j]; cbn [nth_error] in H.
  - cbn [number_from instr_forward_scan i_index]. rewrite Z.add_0_r, Z.eqb_refl.
    destruct t as [|y u]; cbn [number_from nth_error i_index]; [reflexivity|].
    replace (k + 1) with (k + 1) by lia. reflexivity.
  - cbn [number_from instr_forward_scan i_index].
    destruct (Z.eqb_spec k (k + Z.of_nat (Datatypes.S j))) as [E|_]; [lia|].
    replace (k + Z.of_nat (Datatypes.S j)) with ((k + 1) + Z.of_nat j) by lia.
    rewrite (IH (k + 1) j o H). cbn [nth_error]. reflexivity.
Qed.

Definition gfun (addr : Z) (ops : list operation) : func := mkfunc 0 (graph_of addr ops) None.

Lemma loc_instruction_straight addr all j o : nth_error all j = Some o ->
  loc_instruction (gfun addr all) (LInstr 0 (Z.of_nat j)) = Some (mkinstr (Z.of_nat j) o (Some addr)).
Proof.
  intros Hnth. unfold loc_instruction, gfun, f_blocks, f_cfg, graph_of, g_blocks.
  cbn [find_block b_index]. rewrite Z.eqb_refl. unfold block_instruction. cbn [b_instrs].
  pose proof (find_instr_number_from addr all 0 j o Hnth) as Hf. rewrite Z.add_0_l in Hf. exact Hf.
Qed.

Lemma forward_straight addr all j o : nth_error all j = Some o ->
  forward (gfun addr all) (LInstr 0 (Z.of_nat j)) =
  match nth_error all (Datatypes.S j) with Some _ => Ok [LInstr 0 (Z.of_nat j + 1)] | None => Ok [] end.
Proof.
  intros Hnth. unfold forward, gfun, f_blocks, f_cfg, graph_of, g_blocks. cbn [find_block b_index]. rewrite Z.eqb_refl.
  cbn [b_instrs].
  pose proof (scan_number_from addr (mkfunc 0 (graph_of addr all) None) all 0 j o Hnth) as Hs.
  rewrite Z.add_0_l in Hs. unfold graph_of in Hs. rewrite Hs.
  destruct (nth_error all (Datatypes.S j)); [reflexivity|].
  unfold cfg_edges_out, has_block, f_cfg, g_blocks, g_edges. cbn [find_block b_index]. rewrite Z.eqb_refl.
  reflexivity.
Qed.

Lemma choose_one f st ev b i : choose f st ev [LInstr b i] = Next (LInstr b i) st ev.
Proof. unfold choose, enabled_locs, edge_enabled, loc_edge. cbn. reflexivity. Qed.

Lemma run_from_straight addr all : forall suf pre fuel st,
  all = pre ++ suf -> suf <> [] -> (length suf <= fuel)%nat ->
  run_from fuel (gfun addr all) (LInstr 0 (Z.of_nat (length pre))) st = run_ops suf st.
Proof.
  induction suf as [|o t IH]; intros pre fuel st Hall Hne Hfuel; [congruence|].
  destruct fuel as [|fuel]; [cbn in Hfuel; lia|].
  assert (Hnth : nth_error all (length pre) = Some o).
  { subst all. rewrite nth_error_app2 by lia. rewrite Nat.sub_diag. reflexivity. }
  assert (Hn2 : nth_error all (Datatypes.S (length pre)) = nth_error t 0).
  { subst all. rewrite nth_error_app2 by lia. replace (Datatypes.S (length pre) - length pre)%nat with 1%nat by lia. reflexivity. }
  cbn [run_from sem_step run_ops].
  rewrite (loc_instruction_straight addr all (length pre) o Hnth). cbn [i_op].
  rewrite (forward_straight addr all (length pre) o Hnth), Hn2.
  assert (Hstep : forall st', run_from fuel (gfun addr all) (LInstr 0 (Z.of_nat (length pre) + 1)) st' = run_ops t st' \/ t = []).
  { intros st'. destruct t as [|y u]; [right; reflexivity|left].
    replace (Z.of_nat (length pre) + 1) with (Z.of_nat (length (pre ++ [o]))) by (rewrite app_length; cbn; lia).
    apply IH; [subst all; rewrite <- app_assoc; reflexivity|discriminate|cbn [length] in *; lia]. }
  destruct (exec_op st o) as [[st' ev]|e|]; [|reflexivity|reflexivity].
  destruct t as [|y u].
  - cbn [nth_error]. destruct ev; reflexivity.
  - cbn [nth_error]. destruct (Hstep st') as [Hs|Hs]; [|discriminate].
    destruct ev; try reflexivity; rewrite choose_one; exact Hs.
Qed.

Theorem run_graph_straight addr ops st : (length ops < 64)%nat ->
  run_graph (graph_of addr ops) st = run_ops ops st.
Proof.
  intros Hlen. destruct ops as [|o t].
  - reflexivity.
  - unfold run_graph. change (g_entry (graph_of addr (o :: t))) with (Some 0).
    change (find_block (g_blocks (graph_of addr (o :: t))) 0)
      with (Some (mkblock 0 (Z.of_nat (length (o :: t))) (number_from 0 addr (o :: t)) [])).
    change (block_first_loc (mkblock 0 (Z.of_nat (length (o :: t))) (number_from 0 addr (o :: t)) []))
      with (LInstr 0 (Z.of_nat (@length operation []))).
    change (mkfunc 0 (graph_of addr (o :: t)) None) with (gfun addr (o :: t)).
    apply (run_from_straight addr (o :: t) (o :: t) [] 64 st); [reflexivity|discriminate|cbn [length] in *; lia].
Qed.

(* ================================================================== 2. environments *)
Lemma skey_eqb_eq a b : skey_eqb a b = true <-> a = b.
Proof.
  destruct a as [n1 o1], b as [n2 o2]. unfold skey_eqb. cbn [fst snd]. rewrite andb_true_iff, N.eqb_eq.
  destruct o1 as [x|], o2 as [y|]; cbn [optN_eqb]; try rewrite N.eqb_eq; split; intros H;
    try (destruct H; congruence); try (inversion H; auto); try (destruct H; discriminate).
Qed.
Lemma skey_eqb_refl a : skey_eqb a a = true. Proof. apply skey_eqb_eq; reflexivity. Qed.
Lemma skey_eqb_neq a b : a <> b -> skey_eqb a b = false.
Proof. intros H. destruct (skey_eqb a b) eqn:E; [apply skey_eqb_eq in E; congruence|reflexivity]. Qed.

Lemma env_get_set_same en k v : env_get (env_set en k v) k = Some v.
Proof.
  induction en as [|[k' v'] t IH]; cbn [env_set env_get]; [rewrite skey_eqb_refl; reflexivity|].
  destruct (skey_eqb k' k) eqn:E; cbn [env_get]; [rewrite skey_eqb_refl; reflexivity|rewrite E; exact IH].
Qed.
Lemma env_get_set_other en k v k' : k <> k' -> env_get (env_set en k v) k' = env_get en k'.
Proof.
  intros N. induction en as [|[k0 v0] t IH]; cbn [env_set env_get].
  - rewrite skey_eqb_neq by assumption. reflexivity.
  - destruct (skey_eqb k0 k) eqn:E; cbn [env_get].
    + apply skey_eqb_eq in E. subst k0. rewrite !skey_eqb_neq by assumption. reflexivity.
    + destruct (skey_eqb k0 k'); [reflexivity|exact IH].
Qed.

(* ================================================================== 3. embedding of machine states *)
Definition wf (s : a64state) : Prop :=
  (forall n, 0 <= xr s n < 2 ^ 64) /\ 0 <= asp s < 2 ^ 64 /\ (forall a, 0 <= amem s a < 256) /\ 0 <= apc s < 2 ^ 64.

(* an IL state represents a machine state: the 36 architectural scalars hold the machine's values
   (every other scalar -- temporaries, the write-only xzr -- is free); the IL memory has the same
   endianness and is a partial view of the machine memory *)
Record emb (s : a64state) (st : sstate) : Prop := mkemb {
  emb_x : forall n, 0 <= n <= 30 -> env_get (st_env st) (key_x n) = Some (mkc 64 (xr s n));
  emb_sp : env_get (st_env st) key_sp = Some (mkc 64 (asp s));
  emb_n : env_get (st_env st) key_n = Some (mkc 1 (b2z (fN s)));
  emb_z : env_get (st_env st) key_z = Some (mkc 1 (b2z (fZ s)));
  emb_c : env_get (st_env st) key_c = Some (mkc 1 (b2z (fC s)));
  emb_v : env_get (st_env st) key_v = Some (mkc 1 (b2z (fV s)));
  emb_big : bm_big (st_mem st) = abig s;
  emb_mem : forall a b, bm_get (st_mem st) a = Some b -> b = amem s a }.

(* the embedding does not look at the program counter *)
Lemma emb_setPC s st a : emb s st -> emb (setPC s a) st.
Proof. intros [? ? ? ? ? ? ? ?]. constructor; assumption. Qed.
Lemma emb_nextPC s st : emb s st -> emb (nextPC s) st.
Proof. apply emb_setPC. Qed.

Lemma key_x_inj a b : 0 <= a -> 0 <= b -> key_x a = key_x b -> a = b.
Proof. unfold key_x. intros Ha Hb H. inversion H as [E]. apply Z2N.inj in E; lia. Qed.
Lemma key_x_small n k : 0 <= n <= 30 -> (31 <= k)%N -> key_x n <> (k, None).
Proof. unfold key_x. intros Hn Hk H. inversion H as [E]. lia. Qed.

Ltac keyneq := unfold key_sp, key_n, key_z, key_c, key_v; let E := fresh in intros E; inversion E; try lia.

(* writing an X register *)
Lemma emb_set_x s st d v : emb s st -> 0 <= d <= 30 ->
  emb (setX s d v) (mkst (env_set (st_env st) (key_x d) (mkc 64 v)) (st_mem st)).
Proof.
  intros [Hx Hsp Hn Hz Hc Hv Hb Hm] Hd. unfold setX. destruct (Z.eqb_spec d 31); [lia|].
  constructor; cbn [st_env st_mem xr asp fN fZ fC fV amem abig]; try assumption;
    try (rewrite env_get_set_other by (apply key_x_small; [assumption|lia]); assumption).
  intros k Hk. unfold upd. destruct (Z.eqb_spec k d) as [->|N].
  - apply env_get_set_same.
  - rewrite env_get_set_other; [apply Hx; assumption|]. intros E. apply key_x_inj in E; lia.
Qed.
Lemma emb_set_sp s st v : emb s st ->
  emb (setSP s v) (mkst (env_set (st_env st) key_sp (mkc 64 v)) (st_mem st)).
Proof.
  intros [Hx Hsp Hn Hz Hc Hv Hb Hm].
  constructor; cbn [st_env st_mem xr asp fN fZ fC fV amem abig setSP]; try assumption;
    try (rewrite env_get_set_other by keyneq; assumption).
  - intros k Hk. rewrite env_get_set_other; [apply Hx; assumption|]. intros E. symmetry in E. revert E. apply key_x_small; [assumption|lia].
  - apply env_get_set_same.
Qed.
(* writing a scalar the embedding does not look at (xzr = 36, temporaries = 38, 39) *)
Lemma emb_set_free s st k c : emb s st -> (36 <= k)%N ->
  emb s (mkst (env_set (st_env st) (k, None) c) (st_mem st)).
Proof.
  intros [Hx Hsp Hn Hz Hc Hv Hb Hm] Hk.
  constructor; cbn [st_env st_mem]; try assumption;
    try (rewrite env_get_set_other by keyneq; assumption).
  intros n Hn'. rewrite env_get_set_other; [apply Hx; assumption|]. intros E. symmetry in E. revert E. apply key_x_small; [assumption|lia].
Qed.
(* writing the four flags *)
Lemma emb_set_flag_n s st b : emb s st ->
  emb (setNZCV s b (fZ s) (fC s) (fV s)) (mkst (env_set (st_env st) key_n (mkc 1 (b2z b))) (st_mem st)).
Proof.
  intros [Hx Hsp Hn Hz Hc Hv Hb Hm].
  constructor; cbn [st_env st_mem xr asp fN fZ fC fV amem abig setNZCV]; try assumption;
    try (rewrite env_get_set_other by keyneq; assumption).
  - intros k Hk. rewrite env_get_set_other; [apply Hx; assumption|]. intros E. symmetry in E. revert E. apply key_x_small; [assumption|lia].
  - apply env_get_set_same.
Qed.
Lemma emb_set_flag_z s st b : emb s st ->
  emb (setNZCV s (fN s) b (fC s) (fV s)) (mkst (env_set (st_env st) key_z (mkc 1 (b2z b))) (st_mem st)).
Proof.
  intros [Hx Hsp Hn Hz Hc Hv Hb Hm].
  constructor; cbn [st_env st_mem xr asp fN fZ fC fV amem abig setNZCV]; try assumption;
    try (rewrite env_get_set_other by keyneq; assumption).
  - intros k Hk. rewrite env_get_set_other; [apply Hx; assumption|]. intros E. symmetry in E. revert E. apply key_x_small; [assumption|lia].
  - apply env_get_set_same.
Qed.
Lemma emb_set_flag_c s st b : emb s st ->
  emb (setNZCV s (fN s) (fZ s) b (fV s)) (mkst (env_set (st_env st) key_c (mkc 1 (b2z b))) (st_mem st)).
Proof.
  intros [Hx Hsp Hn Hz Hc Hv Hb Hm].
  constructor; cbn [st_env st_mem xr asp fN fZ fC fV amem abig setNZCV]; try assumption;
    try (rewrite env_get_set_other by keyneq; assumption).
  - intros k Hk. rewrite env_get_set_other; [apply Hx; assumption|]. intros E. symmetry in E. revert E. apply key_x_small; [assumption|lia].
  - apply env_get_set_same.
Qed.
Lemma emb_set_flag_v s st b : emb s st ->
  emb (setNZCV s (fN s) (fZ s) (fC s) b) (mkst (env_set (st_env st) key_v (mkc 1 (b2z b))) (st_mem st)).
Proof.
  intros [Hx Hsp Hn Hz Hc Hv Hb Hm].
  constructor; cbn [st_env st_mem xr asp fN fZ fC fV amem abig setNZCV]; try assumption;
    try (rewrite env_get_set_other by keyneq; assumption).
  - intros k Hk. rewrite env_get_set_other; [apply Hx; assumption|]. intros E. symmetry in E. revert E. apply key_x_small; [assumption|lia].
  - apply env_get_set_same.
Qed.

(* ================================================================== 4. registers as the lifter names them *)
Definition areg_ok (r : areg) : Prop :=
  match r with RX n | RW n => 0 <= n <= 30 | _ => True end.
(* the value a register operand denotes *)
Definition areg_val (s : a64state) (r : areg) : Z :=
  match r with
  | RX n => xr s n | RW n => xr s n mod 2 ^ 32
  | RXZR | RWZR => 0
  | RSP => asp s | RWSP => asp s mod 2 ^ 32
  end.
(* writing a 64-bit value through a register operand (W names write the whole X register) *)
Definition areg_write (s : a64state) (r : areg) (v : Z) : a64state :=
  match r with
  | RX n | RW n => setX s n v
  | RXZR | RWZR => s
  | RSP | RWSP => setSP s v
  end.

Lemma den_scalar_get en n w c : env_get en (n, None) = Some c -> cbits c = w ->
  den en (EScalar (mks n w None)) = Ok c.
Proof. intros H Hw. cbn [den]. unfold skey_of. cbn [sname sssa sbits]. rewrite H, Hw, Z.eqb_refl. reflexivity. Qed.

Lemma xzr_xsp_range sf n : 0 <= n < 32 -> areg_ok (xreg_zr sf n) /\ areg_ok (xreg_sp sf n).
Proof.
  intros H. unfold xreg_zr, xreg_sp. destruct (Z.eqb_spec n 31), sf; cbn; split; try exact I; lia.
Qed.

Lemma reg_get_den s st r : wf s -> emb s st -> areg_ok r ->
  exists e, reg_get r = Ok e /\ e_bits e = reg_bits r /\
            den (st_env st) e = Ok (mkc (reg_bits r) (areg_val s r)).
Proof.
  intros Hw He Hr. destruct r as [n|n| | | |]; cbn [reg_get reg_bits areg_val full_scalar areg_ok] in *.
  - eexists; split; [reflexivity|]. split; [reflexivity|].
    unfold sx. apply den_scalar_get; [apply (emb_x _ _ He); assumption|reflexivity].
  - unfold sx, mk_ext. cbn [e_bits sbits]. cbn [Z.leb Z.eqb orb unwrap]. change (32 <=? 32) with true.
    eexists; split; [reflexivity|]. split; [reflexivity|].
    cbn [den]. unfold skey_of. cbn [sname sssa sbits]. fold (key_x n). rewrite (emb_x _ _ He n Hr).
    cbn [cbits bind sp_ext]. reflexivity.
  - eexists; split; [reflexivity|]. split; [reflexivity|]. reflexivity.
  - eexists; split; [reflexivity|]. split; [reflexivity|]. reflexivity.
  - eexists; split; [reflexivity|]. split; [reflexivity|].
    apply den_scalar_get; [apply (emb_sp _ _ He)|reflexivity].
  - unfold s_sp, mk_ext. cbn [e_bits sbits unwrap].
    eexists; split; [reflexivity|]. split; [reflexivity|].
    cbn [den]. unfold skey_of. cbn [sname sssa sbits]. fold key_sp. rewrite (emb_sp _ _ He).
    cbn [cbits bind sp_ext]. reflexivity.
Qed.
