(* Isa/X86SimStack.v -- push / pop: mirrors of Mode::push_value / Mode::pop_value against X86.push / X86.pop *)
From Coq Require Import ZArith List Bool NArith Lia.
From Falcon Require Import Base.Res IL.Const IL.ConstSpec IL.ConstProofs IL.Expr IL.ExprSpec IL.Func IL.Loc Exec.Sem.
From Falcon Require Import Isa.X86 Isa.X86Run Isa.X86Lift Isa.X86Mirror Isa.X86Proofs Isa.X86Sim Isa.C01Check Isa.X86Tie Isa.X86SimMem.
Import ListNotations.
Local Open Scope Z_scope.

Lemma sp_in_range m : 0 <= X86.SP < ngpr m.
Proof. unfold X86.SP. destruct m; cbn; lia. Qed.
Lemma sp_scalar_key m : skey_of (sp_scalar m) = (gpr_name m X86.SP, None).
Proof. unfold sp_scalar, skey_of. cbn [sname sssa]. rewrite full_name_gpr. reflexivity. Qed.
Lemma wordsz_facts m : 32 <= wordsz m <= 64 /\ (wordsz m <? 32) = false /\ 2 ^ wordsz m <= 2 ^ 64 /\ 0 < 2 ^ wordsz m.
Proof. destruct m; cbn; repeat split; try lia; reflexivity. Qed.

Lemma sp_den m s en : regs_emb m s en -> den en (EScalar (sp_scalar m)) = Ok (mkc (wordsz m) (rget (x_gpr s) X86.SP)).
Proof.
  intros Hg. cbn [den]. rewrite sp_scalar_key, (Hg _ (sp_in_range m)). unfold sp_scalar. cbn [cbits sbits]. rewrite Z.eqb_refl. reflexivity.
Qed.

(* writing a full register scalar directly (the stack pointer) *)
Lemma emb_set_full m s st r v : wf m s -> emb m s st -> 0 <= r < ngpr m -> 0 <= v < 2 ^ wordsz m ->
  emb m (set_gpr s (rset (x_gpr s) r v)) (mkst (env_set (st_env st) (gpr_name m r, None) (mkc (wordsz m) v)) (st_mem st)) /\
  wf m (set_gpr s (rset (x_gpr s) r v)).
Proof.
  intros Hw He Hr Hv.
  set (st' := mkst (env_set (st_env st) (gpr_name m r, None) (mkc (wordsz m) v)) (st_mem st)).
  assert (Hl: (Z.to_nat r < length (x_gpr s))%nat) by (rewrite (wf_len _ _ Hw); lia).
  assert (Fr: forall k, k <> (gpr_name m r, None) -> k <> kT0 -> k <> kZF -> k <> kSF -> k <> kOF -> k <> kCF ->
               env_get (st_env st') k = env_get (st_env st) k).
  { intros k K _ _ _ _ _. unfold st'. cbn [st_env]. apply env_get_set_other. exact K. }
  assert (Ev: env_get (st_env st') (gpr_name m r, None) = Some (mkc (wordsz m) v)) by (unfold st'; cbn [st_env]; apply env_get_set_same).
  destruct (emb_frame m s st st' r (rset (x_gpr s) r v) v Hw He Hr Fr Ev (rget_rset_same _ _ _ (proj1 Hr) Hl)
              (fun r' H0 N => rget_rset_other _ _ _ _ (proj1 Hr) H0 (not_eq_sym N))) as (Eg & Ed).
  destruct (reg_key_facts m r Hr) as (K0 & K1 & K2 & K3 & K4 & K5 & K6).
  assert (Fl: forall f k, k <> (gpr_name m r, None) -> emb_flag f (st_env st) k -> emb_flag f (st_env st') k).
  { intros f k K F. unfold emb_flag in *. unfold st'. cbn [st_env]. destruct f; [rewrite env_get_set_other by exact K; exact F|].
    destruct F as [v0 F]. exists v0. rewrite env_get_set_other by exact K. exact F. }
  split.
  - constructor; cbn [set_gpr x_gpr x_fl x_mem]; try assumption.
    + apply Fl; [congruence|apply (emb_cf _ _ _ He)].
    + apply Fl; [congruence|apply (emb_zf _ _ _ He)].
    + apply Fl; [congruence|apply (emb_sf _ _ _ He)].
    + apply Fl; [congruence|apply (emb_of _ _ _ He)].
    + intros a0. apply (emb_mem _ _ _ He).
    + apply (emb_le _ _ _ He).
  - constructor; cbn [set_gpr x_gpr x_mem]; [unfold rset; rewrite lset_length; apply (wf_len _ _ Hw)| |apply (wf_bytes _ _ Hw)].
    intros r' Hr'. destruct (Z.eq_dec r' r) as [->|N].
    + rewrite rget_rset_same by (lia || exact Hl). exact Hv.
    + rewrite rget_rset_other by lia. apply (wf_rng _ _ Hw). exact Hr'.
Qed.

(* ---------- push r | imm ---------- *)
Definition push_no_wrap (m : mode) (sz : Z) (s : xstate) : Prop :=
  U (wordsz m) (rget (x_gpr s) X86.SP - sz / 8) + sz / 8 <= 2 ^ wordsz m.

Theorem push_sim m addr len sz src :
  src_operand_ok m sz src -> width_ok sz ->
  sim_when (push_no_wrap m sz) m addr len (IPush sz src).
Proof.
  intros Hsrc Hwd s st s' ip Hw He Hnw Hstep.
  destruct (wordsz_facts m) as (Ww & Wlt & W64 & Wp).
  destruct (src_expr m sz src s st Hw He Hsrc) as (rhs & b & Os & Br & Hb & Dr & _ & Rs).
  pose proof (wf_rng _ _ Hw _ (sp_in_range m)) as Hsp.
  set (spv := rget (x_gpr s) X86.SP) in *.
  set (n := sz / 8) in *.
  assert (Hn: 0 < n <= 8) by (unfold n; destruct Hwd as [->|[->|[->| ->]]]; [change (8 / 8) with 1|change (16 / 8) with 2|change (32 / 8) with 4|change (64 / 8) with 8]; lia).
  set (sp' := U (wordsz m) (spv - n)).
  assert (Hsp': 0 <= sp' < 2 ^ wordsz m) by (unfold sp', U; apply Z.mod_pos_bound; exact Wp).
  unfold step in Hstep. rewrite Rs in Hstep. cbn [obind] in Hstep. unfold push in Hstep.
  assert (Rsp: reg_read (wordsz m) X86.SP (x_gpr s) = spv) by (unfold reg_read; fold spv; apply Z.mod_small; exact Hsp).
  rewrite Rsp in Hstep. fold n sp' in Hstep.
  destruct (mem_wr (x_mem s) (wordsz m) sp' b (nbytes sz)) as [xm'|] eqn:Hmw; cbn [obind] in Hstep; [|discriminate].
  inversion Hstep; subst s' ip.
  (* the IL side *)
  set (spe := EScalar (sp_scalar m)).
  assert (Bsp: e_bits spe = wordsz m) by reflexivity.
  assert (Mk: mk_bin Sub spe (expr_const (e_bits rhs / 8) (wordsz m)) = Ok (EBin Sub spe (expr_const n (wordsz m)))).
  { unfold mk_bin. rewrite Br. fold n. cbn [e_bits spe sp_scalar sbits expr_const new_big cbits]. rewrite Z.eqb_refl. reflexivity. }
  assert (P32: 2 ^ 32 <= 2 ^ wordsz m) by (apply Z.pow_le_mono_r; lia). change (2 ^ 32) with 4294967296 in P32.
  assert (Dn: forall en, regs_emb m s en -> den en (EBin Sub spe (expr_const n (wordsz m))) = Ok (mkc (wordsz m) sp')).
  { intros en Hg. rewrite den_bin. unfold spe. rewrite (sp_den m s en Hg). cbn [bind]. unfold expr_const. rewrite new_big_spec by lia. cbn [den bind].
    unfold sp_bin_c. cbn [cbits cval]. rewrite Z.eqb_refl. cbn [negb sp_bin]. unfold s_sub, sp', U. fold spv.
    rewrite (Z.mod_small n) by lia. reflexivity. }
  destruct (mem_store_spec (x_mem s) (st_mem st) (wordsz m) sz sp' b xm' (emb_mem _ _ _ He) (emb_le _ _ _ He) Hwd (proj1 Hsp') Hnw ltac:(lia) Hmw)
    as (bm' & Hst & Hag & Hle).
  assert (L64: sp' < 2 ^ 64) by lia.
  pose proof (exec_store st _ rhs (wordsz m) sp' (mkc sz b) bm' Dr (Dn _ (emb_regs_of _ _ _ He)) L64 Hst) as Ex1.
  set (st1 := mkst (st_env st) bm').
  pose proof (exec_assign st1 (sp_scalar m) _ _ (Dn _ (emb_regs_of _ _ _ He))) as Ex2. rewrite sp_scalar_key in Ex2. cbn [st_env st_mem st1] in Ex2.
  (* embedding of the result *)
  assert (He1: emb m (set_mem s xm') st1).
  { constructor; cbn [set_mem x_gpr x_fl x_mem st_env st_mem st1];
      [apply (emb_gpr _ _ _ He)|apply (emb_cf _ _ _ He)|apply (emb_zf _ _ _ He)|apply (emb_sf _ _ _ He)|apply (emb_of _ _ _ He)|apply (emb_df _ _ _ He)|exact Hag|exact Hle]. }
  assert (Hw1: wf m (set_mem s xm')).
  { constructor; cbn [set_mem x_gpr x_mem]; [apply (wf_len _ _ Hw)|apply (wf_rng _ _ Hw)|apply (wr_bytes_ok _ _ _ _ _ _ (wf_bytes _ _ Hw) Hmw)]. }
  destruct (emb_set_full m (set_mem s xm') st1 X86.SP sp' Hw1 He1 (sp_in_range m) Hsp') as (Hemb & Hwf).
  cbn [set_mem x_gpr st_env st_mem st1] in Hemb, Hwf.
  assert (Eq: set_mem (set_gpr s (reg_write (wordsz m) X86.SP sp' (x_gpr s))) xm' = set_gpr (set_mem s xm') (rset (x_gpr s) X86.SP sp')).
  { unfold set_mem, set_gpr, reg_write. cbn [x_gpr x_ugpr x_xmm x_fl x_mem]. rewrite Wlt. reflexivity. }
  rewrite Eq.
  exists (one_block addr [OStore (EBin Sub spe (expr_const n (wordsz m))) rhs; OAssign (sp_scalar m) (EBin Sub spe (expr_const n (wordsz m)))]). split.
  - unfold mirror_instr, lift_push. assert (Nm: match src with OMem _ _ _ _ => False | _ => True end) by (destruct src; cbn in Hsrc; try contradiction; exact I).
    destruct src; try contradiction; cbn [option_map]; rewrite Os; cbn [bind]; fold spe; rewrite Mk; cbn [bind app]; reflexivity.
  - eexists. split; [apply run_one_block_nb; [reflexivity|discriminate|cbn; lia|]|split; [exact Hemb|exact Hwf]].
    cbn [exec_ops]. rewrite Ex1. cbn [bind fst]. fold st1. rewrite Ex2. reflexivity.
Qed.

(* ---------- pop r ---------- *)
Definition pop_no_wrap (m : mode) (sz : Z) (s : xstate) : Prop :=
  rget (x_gpr s) X86.SP + sz / 8 <= 2 ^ wordsz m.

Theorem pop_sim m addr len sz dst :
  reg_operand_ok m sz dst -> width_ok sz ->
  sim_when (pop_no_wrap m sz) m addr len (IPop sz dst).
Proof.
  intros Hd Hwd s st s' ip Hw He Hnw Hstep.
  destruct (wordsz_facts m) as (Ww & Wlt & W64 & Wp).
  destruct (reg_operand_shape m sz dst Hd) as (sd & Hs & Hr & Hi).
  pose proof (wf_rng _ _ Hw _ (sp_in_range m)) as Hsp.
  set (spv := rget (x_gpr s) X86.SP) in *.
  set (n := sz / 8) in *.
  assert (Hn: 0 < n <= 8) by (unfold n; destruct Hwd as [->|[->|[->| ->]]]; [change (8 / 8) with 1|change (16 / 8) with 2|change (32 / 8) with 4|change (64 / 8) with 8]; lia).
  assert (P32: 2 ^ 32 <= 2 ^ wordsz m) by (apply Z.pow_le_mono_r; lia). change (2 ^ 32) with 4294967296 in P32.
  set (sp' := U (wordsz m) (spv + n)).
  assert (Hsp': 0 <= sp' < 2 ^ wordsz m) by (unfold sp', U; apply Z.mod_pos_bound; exact Wp).
  unfold step in Hstep. unfold pop in Hstep.
  assert (Rsp: reg_read (wordsz m) X86.SP (x_gpr s) = spv) by (unfold reg_read; fold spv; apply Z.mod_small; exact Hsp).
  rewrite Rsp in Hstep. fold n sp' in Hstep.
  destruct (mem_rd (x_mem s) (wordsz m) spv (nbytes sz)) as [v|] eqn:Hrd; cbn [obind] in Hstep; [|discriminate].
  (* load *)
  set (spe := EScalar (sp_scalar m)).
  pose proof (mem_load_spec (x_mem s) (st_mem st) (wordsz m) sz spv v (emb_mem _ _ _ He) (emb_le _ _ _ He) Hwd (proj1 Hsp) Hnw ltac:(lia) Hrd) as Ld.
  assert (L64: spv < 2 ^ 64) by lia.
  pose proof (exec_load st (temp_main sz) spe (wordsz m) spv (mkc sz v) (sp_den m s _ (emb_regs_of _ _ _ He)) L64 Ld) as Ex1.
  change (skey_of (temp_main sz)) with kTM in Ex1.
  set (st1 := mkst (env_set (st_env st) kTM (mkc sz v)) (st_mem st)) in *.
  pose proof (emb_set_temp m s st sz v He) as He1. fold st1 in He1.
  destruct (nbytes_of sz Hwd) as (N1 & _ & N3).
  pose proof (rd_range (x_mem s) (wordsz m) (wf_bytes _ _ Hw) _ _ _ Hrd) as Hv. rewrite N1, N3 in Hv.
  (* sp := sp + n *)
  assert (Mk: mk_bin Add spe (expr_const n (wordsz m)) = Ok (EBin Add spe (expr_const n (wordsz m)))).
  { unfold mk_bin. cbn [e_bits spe sp_scalar sbits expr_const new_big cbits]. rewrite Z.eqb_refl. reflexivity. }
  assert (Dn: den (st_env st1) (EBin Add spe (expr_const n (wordsz m))) = Ok (mkc (wordsz m) sp')).
  { rewrite den_bin. unfold spe. rewrite (sp_den m s _ (emb_regs_of _ _ _ He1)). cbn [bind]. unfold expr_const. rewrite new_big_spec by lia. cbn [den bind].
    unfold sp_bin_c. cbn [cbits cval]. rewrite Z.eqb_refl. cbn [negb sp_bin]. unfold s_add, sp', U. fold spv.
    rewrite (Z.mod_small n) by lia. reflexivity. }
  pose proof (exec_assign st1 (sp_scalar m) _ _ Dn) as Ex2. rewrite sp_scalar_key in Ex2.
  set (st2 := mkst (env_set (st_env st1) (gpr_name m X86.SP, None) (mkc (wordsz m) sp')) (st_mem st1)) in *.
  destruct (emb_set_full m s st1 X86.SP sp' Hw He1 (sp_in_range m) Hsp') as (He2 & Hw2). fold st2 in He2.
  set (s1 := set_gpr s (rset (x_gpr s) X86.SP sp')) in *.
  assert (Eq1: set_gpr s (reg_write (wordsz m) X86.SP sp' (x_gpr s)) = s1) by (unfold s1, reg_write; rewrite Wlt; reflexivity).
  rewrite Eq1 in Hstep.
  (* the destination write, from the temporary, in the state with the stack pointer already advanced *)
  assert (Dt: den (st_env st2) (EScalar (temp_main sz)) = Ok (mkc sz v)).
  { apply temp_main_den. unfold st2, st1. cbn [st_env]. rewrite env_get_set_other; [apply env_get_set_same|].
    apply not_eq_sym. apply (kTM_not_reg _ (gpr_name_ok m _ (sp_in_range m))). }
  assert (Hr1: 0 <= oreg dst < ngpr m) by exact Hr.
  assert (Bt: e_bits (EScalar (temp_main sz)) = sz) by reflexivity.
  destruct (assign_reg_exec m s1 st2 dst sz sd _ v Hw2 He2 Hr1 Hi Hs Bt Hv Dt) as (o1 & Hops & Ia & st' & g' & Hex & Hwr & Hemb & Hwf).
  rewrite Hwr in Hstep. inversion Hstep; subst s' ip.
  exists (one_block addr [OLoad (temp_main sz) spe; OAssign (sp_scalar m) (EBin Add spe (expr_const n (wordsz m))); o1]). split.
  - unfold mirror_instr, lift_pop. fold spe n. destruct dst as [r0|r0| |]; cbn in Hi; try discriminate; cbn [option_map];
      rewrite Mk; cbn [bind]; rewrite Hops; reflexivity.
  - exists st'. split; [|auto]. apply run_one_block_nb; [cbn [nobranch forallb is_branch negb andb]; destruct o1; try discriminate Ia; reflexivity|discriminate|cbn; lia|].
    cbn [exec_ops]. rewrite Ex1. cbn [bind fst]. fold st1. rewrite Ex2. cbn [bind fst]. fold st2. exact Hex.
Qed.

(* ---------- push [m] ---------- *)
Theorem push_mem_sim m addr len sz src :
  mem_operand_ok m src -> width_ok sz ->
  sim_when (fun s => no_wrap sz src s /\ push_no_wrap m sz s) m addr len (IPush sz src).
Proof.
  intros Hsrc Hwd s st s' ip Hw He [Hnw1 Hnw] Hstep.
  destruct (wordsz_facts m) as (Ww & Wlt & W64 & Wp).
  pose proof (wf_rng _ _ Hw _ (sp_in_range m)) as Hsp.
  set (spv := rget (x_gpr s) X86.SP) in *.
  set (n := sz / 8) in *.
  assert (Hn: 0 < n <= 8) by (unfold n; destruct Hwd as [->|[->|[->| ->]]]; [change (8 / 8) with 1|change (16 / 8) with 2|change (32 / 8) with 4|change (64 / 8) with 8]; lia).
  assert (P32: 2 ^ 32 <= 2 ^ wordsz m) by (apply Z.pow_le_mono_r; lia). change (2 ^ 32) with 4294967296 in P32.
  set (sp' := U (wordsz m) (spv - n)).
  assert (Hsp': 0 <= sp' < 2 ^ wordsz m) by (unfold sp', U; apply Z.mod_pos_bound; exact Wp).
  unfold step in Hstep. destruct (rd_op sz src s) as [b|] eqn:Hrd; cbn [obind] in Hstep; [|discriminate].
  destruct (load_step m sz src s st b Hw He Hsrc Hwd Hnw1 Hrd) as (ae & ev & Ea & Ex0 & _ & Hb).
  set (st0 := mkst (env_set (st_env st) kTM (mkc sz b)) (st_mem st)) in *.
  pose proof (emb_set_temp m s st sz b He) as He0. fold st0 in He0.
  assert (Dr: den (st_env st0) (EScalar (temp_main sz)) = Ok (mkc sz b)) by (apply temp_main_den; unfold st0; cbn [st_env]; apply env_get_set_same).
  unfold push in Hstep.
  assert (Rsp: reg_read (wordsz m) X86.SP (x_gpr s) = spv) by (unfold reg_read; fold spv; apply Z.mod_small; exact Hsp).
  rewrite Rsp in Hstep. fold n sp' in Hstep.
  destruct (mem_wr (x_mem s) (wordsz m) sp' b (nbytes sz)) as [xm'|] eqn:Hmw; cbn [obind] in Hstep; [|discriminate].
  inversion Hstep; subst s' ip.
  set (spe := EScalar (sp_scalar m)). set (rhs := EScalar (temp_main sz)) in *.
  assert (Mk: mk_bin Sub spe (expr_const (e_bits rhs / 8) (wordsz m)) = Ok (EBin Sub spe (expr_const n (wordsz m)))).
  { unfold mk_bin, rhs. cbn [e_bits temp_main sbits]. fold n. cbn [e_bits spe sp_scalar sbits expr_const new_big cbits]. rewrite Z.eqb_refl. reflexivity. }
  assert (Dn: forall en, regs_emb m s en -> den en (EBin Sub spe (expr_const n (wordsz m))) = Ok (mkc (wordsz m) sp')).
  { intros en Hg. rewrite den_bin. unfold spe. rewrite (sp_den m s en Hg). cbn [bind]. unfold expr_const. rewrite new_big_spec by lia. cbn [den bind].
    unfold sp_bin_c. cbn [cbits cval]. rewrite Z.eqb_refl. cbn [negb sp_bin]. unfold s_sub, sp', U. fold spv.
    rewrite (Z.mod_small n) by lia. reflexivity. }
  destruct (mem_store_spec (x_mem s) (st_mem st0) (wordsz m) sz sp' b xm' (emb_mem _ _ _ He0) (emb_le _ _ _ He0) Hwd (proj1 Hsp') Hnw ltac:(lia) Hmw)
    as (bm' & Hst & Hag & Hle).
  assert (L64: sp' < 2 ^ 64) by lia.
  pose proof (exec_store st0 _ rhs (wordsz m) sp' (mkc sz b) bm' Dr (Dn _ (emb_regs_of _ _ _ He0)) L64 Hst) as Ex1.
  set (st1 := mkst (st_env st0) bm').
  pose proof (exec_assign st1 (sp_scalar m) _ _ (Dn _ (emb_regs_of _ _ _ He0))) as Ex2. rewrite sp_scalar_key in Ex2. cbn [st_env st_mem st1] in Ex2.
  assert (He1: emb m (set_mem s xm') st1).
  { constructor; cbn [set_mem x_gpr x_fl x_mem st_env st_mem st1];
      [apply (emb_gpr _ _ _ He0)|apply (emb_cf _ _ _ He0)|apply (emb_zf _ _ _ He0)|apply (emb_sf _ _ _ He0)|apply (emb_of _ _ _ He0)|apply (emb_df _ _ _ He0)|exact Hag|exact Hle]. }
  assert (Hw1: wf m (set_mem s xm')).
  { constructor; cbn [set_mem x_gpr x_mem]; [apply (wf_len _ _ Hw)|apply (wf_rng _ _ Hw)|apply (wr_bytes_ok _ _ _ _ _ _ (wf_bytes _ _ Hw) Hmw)]. }
  destruct (emb_set_full m (set_mem s xm') st1 X86.SP sp' Hw1 He1 (sp_in_range m) Hsp') as (Hemb & Hwf).
  cbn [set_mem x_gpr st_env st_mem st1] in Hemb, Hwf.
  assert (Eq: set_mem (set_gpr s (reg_write (wordsz m) X86.SP sp' (x_gpr s))) xm' = set_gpr (set_mem s xm') (rset (x_gpr s) X86.SP sp')).
  { unfold set_mem, set_gpr, reg_write. cbn [x_gpr x_ugpr x_xmm x_fl x_mem]. rewrite Wlt. reflexivity. }
  rewrite Eq.
  destruct (mem_operand_facts m src s Hw Hsrc) as (_ & _ & _ & Im).
  exists (one_block addr ([OLoad (temp_main sz) ae] ++ [OStore (EBin Sub spe (expr_const n (wordsz m))) rhs; OAssign (sp_scalar m) (EBin Sub spe (expr_const n (wordsz m)))])). split.
  - unfold mirror_instr, lift_push. destruct src; try discriminate Im. rewrite Ea. cbn [option_map bind]. fold spe rhs. rewrite Mk. cbn [bind]. reflexivity.
  - eexists. split; [apply run_one_block_nb; [reflexivity|discriminate|cbn; lia|]|split; [exact Hemb|exact Hwf]].
    rewrite (exec_ops_app [OLoad (temp_main sz) ae] _ st st0) by (cbn [exec_ops]; rewrite Ex0; reflexivity).
    cbn [exec_ops]. rewrite Ex1. cbn [bind fst]. fold st1. rewrite Ex2. reflexivity.
Qed.

(* ---------- pop [m]: the address is computed with the stack pointer already advanced ---------- *)
Theorem pop_mem_sim m addr len sz dst :
  mem_operand_ok m dst -> width_ok sz ->
  sim_when (fun s => pop_no_wrap m sz s /\
                     no_wrap sz dst (set_gpr s (rset (x_gpr s) X86.SP (U (wordsz m) (rget (x_gpr s) X86.SP + sz / 8)))))
           m addr len (IPop sz dst).
Proof.
  intros Hd Hwd s st s' ip Hw He [Hnw Hnw2] Hstep.
  destruct (wordsz_facts m) as (Ww & Wlt & W64 & Wp).
  pose proof (wf_rng _ _ Hw _ (sp_in_range m)) as Hsp.
  set (spv := rget (x_gpr s) X86.SP) in *.
  set (n := sz / 8) in *.
  assert (Hn: 0 < n <= 8) by (unfold n; destruct Hwd as [->|[->|[->| ->]]]; [change (8 / 8) with 1|change (16 / 8) with 2|change (32 / 8) with 4|change (64 / 8) with 8]; lia).
  assert (P32: 2 ^ 32 <= 2 ^ wordsz m) by (apply Z.pow_le_mono_r; lia). change (2 ^ 32) with 4294967296 in P32.
  set (sp' := U (wordsz m) (spv + n)) in *.
  assert (Hsp': 0 <= sp' < 2 ^ wordsz m) by (unfold sp', U; apply Z.mod_pos_bound; exact Wp).
  unfold step in Hstep. unfold pop in Hstep.
  assert (Rsp: reg_read (wordsz m) X86.SP (x_gpr s) = spv) by (unfold reg_read; fold spv; apply Z.mod_small; exact Hsp).
  rewrite Rsp in Hstep. fold n sp' in Hstep.
  destruct (mem_rd (x_mem s) (wordsz m) spv (nbytes sz)) as [v|] eqn:Hrd; cbn [obind] in Hstep; [|discriminate].
  set (spe := EScalar (sp_scalar m)).
  pose proof (mem_load_spec (x_mem s) (st_mem st) (wordsz m) sz spv v (emb_mem _ _ _ He) (emb_le _ _ _ He) Hwd (proj1 Hsp) Hnw ltac:(lia) Hrd) as Ld.
  assert (L64: spv < 2 ^ 64) by lia.
  pose proof (exec_load st (temp_main sz) spe (wordsz m) spv (mkc sz v) (sp_den m s _ (emb_regs_of _ _ _ He)) L64 Ld) as Ex1.
  change (skey_of (temp_main sz)) with kTM in Ex1.
  set (st1 := mkst (env_set (st_env st) kTM (mkc sz v)) (st_mem st)) in *.
  pose proof (emb_set_temp m s st sz v He) as He1. fold st1 in He1.
  destruct (nbytes_of sz Hwd) as (N1 & _ & N3).
  pose proof (rd_range (x_mem s) (wordsz m) (wf_bytes _ _ Hw) _ _ _ Hrd) as Hv. rewrite N1, N3 in Hv.
  assert (Mk: mk_bin Add spe (expr_const n (wordsz m)) = Ok (EBin Add spe (expr_const n (wordsz m)))).
  { unfold mk_bin. cbn [e_bits spe sp_scalar sbits expr_const new_big cbits]. rewrite Z.eqb_refl. reflexivity. }
  assert (Dn: den (st_env st1) (EBin Add spe (expr_const n (wordsz m))) = Ok (mkc (wordsz m) sp')).
  { rewrite den_bin. unfold spe. rewrite (sp_den m s _ (emb_regs_of _ _ _ He1)). cbn [bind]. unfold expr_const. rewrite new_big_spec by lia. cbn [den bind].
    unfold sp_bin_c. cbn [cbits cval]. rewrite Z.eqb_refl. cbn [negb sp_bin]. unfold s_add, sp', U. fold spv.
    rewrite (Z.mod_small n) by lia. reflexivity. }
  pose proof (exec_assign st1 (sp_scalar m) _ _ Dn) as Ex2. rewrite sp_scalar_key in Ex2.
  set (st2 := mkst (env_set (st_env st1) (gpr_name m X86.SP, None) (mkc (wordsz m) sp')) (st_mem st1)) in *.
  destruct (emb_set_full m s st1 X86.SP sp' Hw He1 (sp_in_range m) Hsp') as (He2 & Hw2). fold st2 in He2.
  set (s1 := set_gpr s (rset (x_gpr s) X86.SP sp')) in *.
  assert (Eq1: set_gpr s (reg_write (wordsz m) X86.SP sp' (x_gpr s)) = s1) by (unfold s1, reg_write; rewrite Wlt; reflexivity).
  rewrite Eq1 in Hstep.
  assert (Dt: den (st_env st2) (EScalar (temp_main sz)) = Ok (mkc sz v)).
  { apply temp_main_den. unfold st2, st1. cbn [st_env]. rewrite env_get_set_other; [apply env_get_set_same|].
    apply not_eq_sym. apply (kTM_not_reg _ (gpr_name_ok m _ (sp_in_range m))). }
  (* the store through the operand, address from the advanced stack pointer *)
  destruct (addr_expr_correct m dst s1 st2 Hw2 He2 Hd) as (ae & Ea & Ba & Da).
  destruct (mem_operand_facts m dst s1 Hw2 Hd) as (Hea & A64 & P64 & Im).
  assert (Hwr: wr_op sz dst v s1 = option_map (set_mem s1) (mem_wr (x_mem s1) (op_asz dst) (ea (x_gpr s1) dst) v (nbytes sz))).
  { destruct dst; try discriminate Im. unfold wr_op, wr_op_at. cbn [op_asz]. destruct (mem_wr (x_mem s1) asz _ v (nbytes sz)); reflexivity. }
  rewrite Hwr in Hstep. destruct (mem_wr (x_mem s1) (op_asz dst) (ea (x_gpr s1) dst) v (nbytes sz)) as [xm'|] eqn:Hmw; cbn [option_map] in Hstep; [|discriminate].
  inversion Hstep; subst s' ip.
  destruct (mem_store_spec (x_mem s1) (st_mem st2) (op_asz dst) sz (ea (x_gpr s1) dst) v xm' (emb_mem _ _ _ He2) (emb_le _ _ _ He2) Hwd (proj1 Hea) Hnw2 A64 Hmw)
    as (bm' & Hst & Hag & Hle).
  assert (L64': ea (x_gpr s1) dst < 2 ^ 64) by lia.
  pose proof (exec_store st2 ae (EScalar (temp_main sz)) (wordsz m) (ea (x_gpr s1) dst) (mkc sz v) bm' Dt Da L64' Hst) as Ex3.
  exists (one_block addr [OLoad (temp_main sz) spe; OAssign (sp_scalar m) (EBin Add spe (expr_const n (wordsz m))); OStore ae (EScalar (temp_main sz))]). split.
  - unfold mirror_instr, lift_pop. fold spe n. destruct dst; try discriminate Im. rewrite Ea. cbn [option_map]. rewrite Mk. cbn [bind]. reflexivity.
  - exists (mkst (st_env st2) bm'). split.
    + apply run_one_block_nb; [reflexivity|discriminate|cbn; lia|].
      cbn [exec_ops]. rewrite Ex1. cbn [bind fst]. fold st1. rewrite Ex2. cbn [bind fst]. fold st2. rewrite Ex3. reflexivity.
    + split.
      * constructor; cbn [set_mem x_gpr x_fl x_mem st_env st_mem];
          [apply (emb_gpr _ _ _ He2)|apply (emb_cf _ _ _ He2)|apply (emb_zf _ _ _ He2)|apply (emb_sf _ _ _ He2)|apply (emb_of _ _ _ He2)|apply (emb_df _ _ _ He2)|exact Hag|exact Hle].
      * constructor; cbn [set_mem x_gpr x_mem]; [apply (wf_len _ _ Hw2)|apply (wf_rng _ _ Hw2)|apply (wr_bytes_ok _ _ _ _ _ _ (wf_bytes _ _ Hw2) Hmw)].
Qed.
