(* Isa/ILRun.v -- running lifted instruction graphs with the reference IL semantics (Exec/Sem.v).

   A lifter turns each machine instruction into an *instruction graph* (a small cfg with entry and exit);
   a translated block is the list of those graphs, in order, plus the block's successors
   (address, optional guard).  This file runs such a block from an IL state:

     run_instrs : the operations of one IL block, with Sem.exec_op
     run_cfg    : from a block of a graph to the graph's exit block, taking after each block the unique
                  enabled out-edge (as Sem.choose does)
     run_seq    : the graphs one after the other
     run_block  : then the unique enabled successor of the translated block

   Outcomes: Fin (fell off the end), Trap m (an Intrinsic operation with mnemonic id m was reached:
   intrinsics have no IL semantics, they are how lifters signal exceptions), Goto a (a Branch operation,
   or the chosen successor address), Stuck e (any fault of the IL semantics).  Definitions only. *)
From Coq Require Import ZArith List Bool NArith.
From Falcon Require Import Base.Res IL.Const IL.Expr IL.Func IL.Loc Exec.Sem.
Import ListNotations.
Local Open Scope Z_scope.

Inductive outcome :=
| Fin (st : sstate)
| Trap (m : N) (st : sstate)
| Goto (a : Z) (st : sstate)
| Stuck (e : err).

Fixpoint run_instrs (is_ : list instruction) (st : sstate) : outcome :=
  match is_ with
  | [] => Fin st
  | i :: t =>
      match i_op i with
      | OIntrinsic x => Trap (in_mnemonic x) st
      | o => match exec_op st o with
             | Ok (st', EvBranch a) => Goto a st'
             | Ok (st', _) => run_instrs t st'
             | Err e => Stuck e
             | Panic => Stuck EOther
             end
      end
  end.

(* guard of an edge in environment en: unguarded = enabled *)
Definition guard_on (en : senv) (c : option expr) : res bool :=
  match c with
  | None => Ok true
  | Some c => v <- den en c ;; if negb (cbits v =? 1) then Err ESort else Ok (cval v =? 1)
  end.

Fixpoint enabled_edges (en : senv) (es : list edge) : res (list edge) :=
  match es with
  | [] => Ok []
  | e :: t => b <- guard_on en (e_cond e) ;; r <- enabled_edges en t ;; Ok (if b then e :: r else r)
  end.

Definition out_edges (g : cfg) (b : Z) : list edge := filter (fun e => e_head e =? b) (g_edges g).

Fixpoint run_cfg (fuel : nat) (g : cfg) (b : Z) (st : sstate) : outcome :=
  match fuel with
  | O => Stuck EMaxSteps
  | Datatypes.S fuel =>
      match find_block (g_blocks g) b with
      | None => Stuck EGraphVertex
      | Some blk =>
          match run_instrs (b_instrs blk) st with
          | Fin st' =>
              if optZ_eqb (g_exit g) (Some b) then Fin st'
              else match enabled_edges (st_env st') (out_edges g b) with
                   | Ok [e] => run_cfg fuel g (e_tail e) st'
                   | Ok [] => Stuck ENoLocation
                   | Ok _ => Stuck EOther
                   | Err e => Stuck e
                   | Panic => Stuck EOther
                   end
          | o => o
          end
      end
  end.

Definition FUEL : nat := 200.

Definition run_graph (g : cfg) (st : sstate) : outcome :=
  match g_entry g, g_exit g with
  | Some e, Some _ => run_cfg FUEL g e st
  | _, _ => Stuck ENoEntry
  end.

Fixpoint run_seq (gs : list cfg) (st : sstate) : outcome :=
  match gs with
  | [] => Fin st
  | g :: t => match run_graph g st with Fin st' => run_seq t st' | o => o end
  end.

Fixpoint enabled_succs (en : senv) (ss : list (Z * option expr)) : res (list Z) :=
  match ss with
  | [] => Ok []
  | (a, c) :: t => b <- guard_on en c ;; r <- enabled_succs en t ;; Ok (if b then a :: r else r)
  end.

(* the translated block: graphs, then the unique enabled successor *)
Definition run_block (gs : list cfg) (succs : list (Z * option expr)) (st : sstate) : outcome :=
  match run_seq gs st with
  | Fin st' =>
      match succs with
      | [] => Fin st'
      | _ => match enabled_succs (st_env st') succs with
             | Ok [a] => Goto a st'
             | Ok [] => Stuck ENoLocation
             | Ok _ => Stuck EOther
             | Err e => Stuck e
             | Panic => Stuck EOther
             end
      end
  | o => o
  end.
