(* Isa/X86SimCtl.v -- round 7: blocks that leave through a Branch operation (the Goto variant of il_run_one_block),
   blocks followed by guarded successors, and jmp / ret on top of them. *)
From Coq Require Import ZArith List Bool NArith Lia ZifyBool.
From Falcon Require Import Base.Res IL.Const IL.ConstSpec IL.ConstProofs IL.Expr IL.ExprSpec IL.Func IL.Loc Exec.Sem.
From Falcon Require Import Isa.X86 Isa.X86Run Isa.X86Lift Isa.X86Mirror Isa.X86Proofs Isa.X86Sim Isa.C01Check Isa.X86Tie Isa.X86SimMem Isa.X86SimStack Isa.X86SimCarry Isa.X86SimMore Isa.X86SimXchg Isa.X86SimMul Isa.X86SimShift.
Import ListNotations.
Local Open Scope Z_scope.
Ltac Zify.zify_post_hook ::= Z.div_mod_to_equations.

(* ---------- a block whose last operation is a Branch: the run leaves through Goto ---------- *)
Theorem il_run_block_goto addr body t :
  (forall o, In o body -> is_branch o = false) ->
  forall suf pre st st' a fuel,
    body = pre ++ suf -> exec_ops st suf = Ok st' -> exec_op st' (OBranch t) = Ok (st', EvBranch a) -> (length suf < fuel)%nat ->
    il_run fuel (mkfunc addr (one_block addr (body ++ [OBranch t])) None) (LInstr 0 (Z.of_nat (length pre))) st = ILFin st' (Some a).
Proof.
  intros Nb. set (ops := body ++ [OBranch t]).
  induction suf as [|o t2 IH]; intros pre st st' a fuel E Ex Eb Hf.
  - cbn [exec_ops] in Ex. inversion Ex; subst st'. rewrite app_nil_r in E. subst pre.
    destruct fuel as [|fuel]; [cbn in Hf; lia|].
    assert (Nth: nth_error ops (length body) = Some (OBranch t)).
    { unfold ops. rewrite nth_error_app2 by lia. rewrite Nat.sub_diag. reflexivity. }
    cbn [il_run]. unfold sem_step.
    unfold loc_instruction, f_blocks, f_cfg, one_block. cbn [g_blocks find_block b_index Z.eqb block_instruction b_instrs].
    unfold block_instruction. cbn [b_instrs].
    pose proof (find_instr_number addr 0 ops (length body) _ Nth) as FI. cbn [Z.add] in FI. fold ops. rewrite FI. cbn [i_op].
    rewrite Eb. reflexivity.
  - destruct fuel as [|fuel]; [cbn in Hf; lia|].
    cbn [exec_ops] in Ex. destruct (exec_op st o) as [[st1 ev]|?|] eqn:Eo; cbn [bind fst] in Ex; try discriminate.
    assert (Nth: nth_error ops (length pre) = Some o).
    { unfold ops. rewrite E, <- app_assoc. rewrite nth_error_app2 by lia. rewrite Nat.sub_diag. reflexivity. }
    assert (Bo: is_branch o = false) by (apply Nb; rewrite E; apply in_or_app; right; left; reflexivity).
    pose proof (exec_op_not_branch _ _ _ _ Bo Eo) as Nev.
    cbn [il_run]. unfold sem_step.
    unfold loc_instruction, f_blocks, f_cfg, one_block. cbn [g_blocks find_block b_index Z.eqb block_instruction b_instrs].
    unfold block_instruction. cbn [b_instrs].
    pose proof (find_instr_number addr 0 ops (length pre) o Nth) as FI. cbn [Z.add] in FI. fold ops. rewrite FI. cbn [i_op].
    rewrite Eo.
    assert (N2: exists o2, nth_error ops (Datatypes.S (length pre)) = Some o2).
    { destruct (nth_error ops (Datatypes.S (length pre))) as [o2|] eqn:Q; [exists o2; reflexivity|].
      apply nth_error_None in Q. unfold ops in Q. rewrite E, !app_length in Q. cbn [length] in Q. lia. }
    destruct N2 as (o2 & N2).
    assert (FW: forward (mkfunc addr (one_block addr ops) None) (LInstr 0 (Z.of_nat (length pre))) = Ok [LInstr 0 (Z.of_nat (length pre) + 1)]).
    { unfold forward, f_blocks, f_cfg, one_block. cbn [g_blocks find_block b_index Z.eqb b_instrs].
      pose proof (forward_scan_number (mkfunc addr (one_block addr ops) None) addr 0 ops (length pre) o Nth) as FS.
      cbn [Z.add] in FS. unfold one_block in FS. rewrite FS, N2. reflexivity. }
    fold (one_block addr ops). rewrite FW.
    assert (CH: forall ev',
                choose (mkfunc addr (one_block addr ops) None) st1 ev' [LInstr 0 (Z.of_nat (length pre) + 1)] =
                Next (LInstr 0 (Z.of_nat (length pre) + 1)) st1 ev').
    { intros ev'. unfold choose, enabled_locs, edge_enabled, loc_edge. cbn [bind]. reflexivity. }
    assert (IHa: il_run fuel (mkfunc addr (one_block addr ops) None) (LInstr 0 (Z.of_nat (length (pre ++ [o])))) st1 = ILFin st' (Some a)).
    { apply (IH (pre ++ [o]) st1 st' a fuel); [rewrite <- app_assoc; exact E|exact Ex|exact Eb|cbn in Hf |- *; lia]. }
    rewrite app_length in IHa. cbn [length] in IHa. rewrite Nat2Z.inj_add in IHa. cbn [Z.of_nat Pos.of_succ_nat] in IHa.
    destruct ev; try contradiction; rewrite CH; exact IHa.
Qed.

Lemma nobranch_forall ops : nobranch ops = true -> forall o, In o ops -> is_branch o = false.
Proof. intros Ha o Hi. unfold nobranch in Ha. rewrite forallb_forall in Ha. specialize (Ha o Hi). destruct (is_branch o); [discriminate|reflexivity]. Qed.

Lemma from_one_block addr ops : ops <> [] -> from_function (mkfunc addr (one_block addr ops) None) = Some (Ok (LInstr 0 0)).
Proof.
  intros Ne. unfold from_function, one_block. cbn [f_cfg g_entry]. unfold f_block, cfg_block, f_cfg. cbn [g_blocks find_block b_index Z.eqb bind].
  destruct ops as [|o t]; [congruence|]. reflexivity.
Qed.

Lemma run_block_goto addr body t succ st st' a :
  nobranch body = true -> (length body < 600)%nat -> exec_ops st body = Ok st' -> exec_op st' (OBranch t) = Ok (st', EvBranch a) ->
  run_instr 600 (one_block addr (body ++ [OBranch t])) succ addr st = RunOk st' (Some a).
Proof.
  intros Ha Hl Ex Eb. unfold run_instr. rewrite from_one_block by (intros E; apply app_eq_nil in E; destruct E as [_ E]; discriminate).
  pose proof (il_run_block_goto addr body t (nobranch_forall _ Ha) body [] st st' a 600 eq_refl Ex Eb Hl) as R.
  cbn [length Z.of_nat] in R. rewrite R. reflexivity.
Qed.

(* a block without branches, then the guarded successors decide *)
Lemma run_block_succs addr ops succ st st' :
  nobranch ops = true -> ops <> [] -> (length ops <= 600)%nat -> exec_ops st ops = Ok st' ->
  run_instr 600 (one_block addr ops) succ addr st =
    match enabled_succs (st_env st') succ with
    | Ok [] => RunOk st' None
    | Ok (a :: t) => if all_same (a :: t) then RunOk st' (Some a) else RunAmbiguous
    | Err e => RunStuck e
    | Panic => RunStuck EOther
    end.
Proof.
  intros Ha Ne Hl Ex. unfold run_instr. rewrite (from_one_block addr ops Ne).
  pose proof (il_run_one_block addr ops (nobranch_forall _ Ha) ops [] st st' 600 eq_refl Ne Ex Hl) as R.
  cbn [length Z.of_nat] in R. rewrite R. reflexivity.
Qed.

(* the Branch operation on an expression that denotes an address *)
Lemma exec_branch st t w a : den (st_env st) t = Ok (mkc w a) -> 0 <= a < 2 ^ 64 -> exec_op st (OBranch t) = Ok (st, EvBranch a).
Proof.
  intros D Ha. unfold exec_op. rewrite D. cbn [bind]. unfold addr_of. cbn [cval].
  unfold ADDR_LIMIT. replace (a <? 2 ^ 64) with true by (symmetry; apply Z.ltb_lt; lia). reflexivity.
Qed.

(* ---------- jmp rel: a placeholder nop; the successor list holds the target ---------- *)
Theorem jmp_rel_sim m addr len t : sim m addr len (IJmpRel t).
Proof.
  intros s st s' ip Hw He Hstep. unfold step in Hstep. inversion Hstep; subst s' ip.
  exists (one_block addr [branch_nop m t]). split; [reflexivity|].
  exists st. split; [|auto]. cbn [mirror_succ].
  rewrite (run_block_succs addr [branch_nop m t] [(t, None)] st st); [reflexivity|reflexivity|discriminate|cbn; lia|reflexivity].
Qed.

(* ---------- jmp r/m ---------- *)
Theorem jmp_ind_sim m addr len src :
  opnd_ok m (wordsz m) src -> isreg src = true \/ is_mem src = true ->
  sim_when (opnd_nw (wordsz m) src) m addr len (IJmpInd src).
Proof.
  intros Hos Hk s st s' ip Hw He Hnw Hstep.
  destruct (wordsz_facts m) as (Ww & Wlt & W64 & Wp).
  assert (Hww: width_ok (wordsz m)) by (destruct m; cbn; unfold width_ok; auto).
  unfold step in Hstep. destruct (rd_op (wordsz m) src s) as [t|] eqn:Hrd; cbn [option_map of_opt] in Hstep; [|discriminate].
  inversion Hstep; subst s' ip.
  assert (H0: opnd_ok m (wordsz m) (OImm 0)) by (split; [lia|exact Hww]).
  assert (Hone: is_mem src = false \/ is_mem (OImm 0) = false) by (right; reflexivity).
  destruct (read2 m (wordsz m) (wordsz m) src (OImm 0) s st t 0 Hw He Hos H0 Hone Hww Hww Hnw I Hrd eq_refl)
    as (pa & ea & pb & eb & st1 & Oa & Ob & Ma & _ & Nb & Ln & Ex1 & He1 & (Ba & Ht & Da & _) & _).
  assert (Pb: pb = []) by (cbn in Ob; inversion Ob; reflexivity). subst pb. rewrite app_nil_r in *.
  exists (one_block addr (pa ++ [OBranch ea])). split.
  - unfold mirror_instr. rewrite Ma. destruct Hk as [Hk|Hk]; rewrite Hk; [|rewrite orb_true_r]; cbn [orb andb]; unfold lift_jmp_ind; rewrite Oa; reflexivity.
  - exists st1. split; [|auto]. apply run_block_goto; [exact Nb|lia|exact Ex1|]. apply (exec_branch st1 ea (wordsz m) t Da). lia.
Qed.

(* ---------- ret / ret imm16 ---------- *)
Lemma ret_gen m addr succ imm s st t s1 :
  wf m s -> emb m s st -> pop_no_wrap m (wordsz m) s -> imm = -1 \/ 0 <= imm < 2 ^ 16 ->
  pop m (wordsz m) s = Some (t, s1) ->
  let s2 := if imm <? 0 then s1 else set_gpr s1 (reg_write (wordsz m) X86.SP (U (wordsz m) (reg_read (wordsz m) X86.SP (x_gpr s1) + imm)) (x_gpr s1)) in
  exists ops st', lift_ret m imm = Ok ops /\ run_instr 600 (one_block addr ops) succ addr st = RunOk st' (Some t) /\ emb m s2 st' /\ wf m s2.
Proof.
  intros Hw He Hnw Himm Hpop s2. subst s2.
  destruct (wordsz_facts m) as (Ww & Wlt & W64 & Wp).
  assert (Hwd: width_ok (wordsz m)) by (destruct m; cbn; unfold width_ok; auto).
  set (w := wordsz m) in *. set (n := w / 8).
  assert (Hn: 0 < n <= 8) by (unfold n, w; destruct m; cbn; lia).
  pose proof (wf_rng _ _ Hw _ (sp_in_range m)) as Hsp. fold w in Hsp. set (spv := rget (x_gpr s) X86.SP) in *.
  assert (P32: 2 ^ 32 <= 2 ^ w) by (apply Z.pow_le_mono_r; lia). change (2 ^ 32) with 4294967296 in P32.
  set (sp' := U w (spv + n)).
  assert (Hsp': 0 <= sp' < 2 ^ w) by (unfold sp', U; apply Z.mod_pos_bound; exact Wp).
  unfold pop in Hpop. assert (Rsp: reg_read w X86.SP (x_gpr s) = spv) by (unfold reg_read; fold spv; apply Z.mod_small; exact Hsp).
  fold w in Hpop. rewrite Rsp in Hpop. fold n sp' in Hpop.
  destruct (mem_rd (x_mem s) w spv (nbytes w)) as [v|] eqn:Hrd; cbn [obind] in Hpop; [|discriminate]. inversion Hpop; subst t s1. clear Hpop.
  set (spe := EScalar (sp_scalar m)).
  pose proof (mem_load_spec (x_mem s) (st_mem st) w w spv v (emb_mem _ _ _ He) (emb_le _ _ _ He) Hwd (proj1 Hsp) Hnw ltac:(lia) Hrd) as Ld.
  assert (L64: spv < 2 ^ 64) by lia.
  pose proof (exec_load st (temp_main w) spe w spv (mkc w v) (sp_den m s _ (emb_regs_of _ _ _ He)) L64 Ld) as Ex1.
  change (skey_of (temp_main w)) with kTM in Ex1.
  set (st1 := mkst (env_set (st_env st) kTM (mkc w v)) (st_mem st)) in *.
  pose proof (emb_set_temp m s st w v He) as He1. fold st1 in He1.
  destruct (nbytes_of w Hwd) as (N1 & _ & N3).
  pose proof (rd_range (x_mem s) w (wf_bytes _ _ Hw) _ _ _ Hrd) as Hv. rewrite N1, N3 in Hv.
  assert (Mk: forall k, mk_bin Add spe (expr_const k w) = Ok (EBin Add spe (expr_const k w))).
  { intros k. unfold mk_bin. cbn [e_bits spe sp_scalar sbits expr_const new_big cbits]. fold w. rewrite Z.eqb_refl. reflexivity. }
  assert (Dadd: forall s0 st0 k, emb m s0 st0 -> 0 <= k < 2 ^ 16 ->
            den (st_env st0) (EBin Add spe (expr_const k w)) = Ok (mkc w (U w (rget (x_gpr s0) X86.SP + k)))).
  { intros s0 st0 k He0 Hk. rewrite den_bin. unfold spe. rewrite (sp_den m s0 _ (emb_regs_of _ _ _ He0)). cbn [bind]. unfold expr_const. fold w. rewrite new_big_spec by lia. cbn [den bind].
    unfold sp_bin_c. cbn [cbits cval]. rewrite Z.eqb_refl. cbn [negb sp_bin]. unfold s_add, U. rewrite (Z.mod_small k) by lia. reflexivity. }
  pose proof (Dadd s st1 n He1 ltac:(lia)) as Dn. fold spv sp' in Dn.
  pose proof (exec_assign st1 (sp_scalar m) _ _ Dn) as Ex2. rewrite sp_scalar_key in Ex2.
  set (st2 := mkst (env_set (st_env st1) (gpr_name m X86.SP, None) (mkc w sp')) (st_mem st1)) in *.
  destruct (emb_set_full m s st1 X86.SP sp' Hw He1 (sp_in_range m) Hsp') as (He2 & Hw2). fold w st2 in He2.
  set (s1 := set_gpr s (rset (x_gpr s) X86.SP sp')) in *.
  assert (Eq1: set_gpr s (reg_write w X86.SP sp' (x_gpr s)) = s1) by (unfold s1, reg_write; rewrite Wlt; reflexivity).
  fold w. rewrite Eq1.
  assert (KT: (gpr_name m X86.SP, @None N) <> kTM) by (apply (kTM_not_reg _ (gpr_name_ok m _ (sp_in_range m)))).
  assert (Dt2: den (st_env st2) (EScalar (temp_main w)) = Ok (mkc w v)).
  { apply temp_main_den. unfold st2, st1. cbn [st_env]. rewrite env_get_set_other by (apply not_eq_sym; exact KT). apply env_get_set_same. }
  assert (Hv64: 0 <= v < 2 ^ 64) by lia.
  unfold lift_ret. fold w spe n. rewrite (Mk n), (Mk imm). cbn [bind].
  destruct Himm as [->|Himm].
  - (* plain ret *)
    cbn [Z.ltb Z.compare app] in *. 
    exists ([OLoad (temp_main w) spe; OAssign (sp_scalar m) (EBin Add spe (expr_const n w))] ++ [OBranch (EScalar (temp_main w))]), st2.
    split; [reflexivity|]. split; [|split; [exact He2|exact Hw2]].
    apply run_block_goto; [reflexivity|cbn; lia| |apply (exec_branch st2 _ w v Dt2 Hv64)].
    cbn [exec_ops]. rewrite Ex1. cbn [bind fst]. rewrite Ex2. reflexivity.
  - (* ret imm16 *)
    assert (Q: (imm <? 0) = false) by (apply Z.ltb_ge; lia). rewrite Q.
    assert (G1: rget (x_gpr s1) X86.SP = sp').
    { unfold s1. cbn [set_gpr x_gpr]. apply rget_rset_same; [unfold X86.SP; lia|rewrite (wf_len _ _ Hw); unfold X86.SP; destruct m; cbn; lia]. }
    assert (Rsp1: reg_read w X86.SP (x_gpr s1) = sp') by (unfold reg_read; rewrite G1; apply Z.mod_small; exact Hsp').
    rewrite Rsp1. set (sp'' := U w (sp' + imm)).
    assert (Hsp'': 0 <= sp'' < 2 ^ w) by (unfold sp'', U; apply Z.mod_pos_bound; exact Wp).
    pose proof (Dadd s1 st2 imm He2 Himm) as Dn2. rewrite G1 in Dn2. fold sp'' in Dn2.
    pose proof (exec_assign st2 (sp_scalar m) _ _ Dn2) as Ex3. rewrite sp_scalar_key in Ex3.
    set (st3 := mkst (env_set (st_env st2) (gpr_name m X86.SP, None) (mkc w sp'')) (st_mem st2)) in *.
    destruct (emb_set_full m s1 st2 X86.SP sp'' Hw2 He2 (sp_in_range m) Hsp'') as (He3 & Hw3). fold w st3 in He3.
    assert (Eq2: set_gpr s1 (reg_write w X86.SP sp'' (x_gpr s1)) = set_gpr s1 (rset (x_gpr s1) X86.SP sp'')) by (unfold reg_write; rewrite Wlt; reflexivity).
    rewrite Eq2.
    assert (Dt3: den (st_env st3) (EScalar (temp_main w)) = Ok (mkc w v)).
    { apply temp_main_den. unfold st3, st2, st1. cbn [st_env]. rewrite !env_get_set_other by (apply not_eq_sym; exact KT). apply env_get_set_same. }
    exists ([OLoad (temp_main w) spe; OAssign (sp_scalar m) (EBin Add spe (expr_const n w))] ++ [OAssign (sp_scalar m) (EBin Add spe (expr_const imm w))] ++ [OBranch (EScalar (temp_main w))]), st3.
    split; [reflexivity|]. split; [|split; [exact He3|exact Hw3]].
    rewrite app_assoc. apply run_block_goto; [reflexivity|cbn; lia| |apply (exec_branch st3 _ w v Dt3 Hv64)].
    cbn [exec_ops app]. rewrite Ex1. cbn [bind fst]. rewrite Ex2. cbn [bind fst]. rewrite Ex3. reflexivity.
Qed.

Theorem ret0_sim m addr len : sim_when (pop_no_wrap m (wordsz m)) m addr len IRet0.
Proof.
  intros s st s' ip Hw He Hnw Hstep. unfold step in Hstep.
  destruct (pop m (wordsz m) s) as [[t s1]|] eqn:Hpop; cbn [option_map of_opt] in Hstep; [|discriminate]. inversion Hstep; subst s' ip.
  destruct (ret_gen m addr (mirror_succ m addr len IRet0) (-1) s st t s1 Hw He Hnw (or_introl eq_refl) Hpop) as (ops & st' & Hl & Hrun & Hemb & Hwf).
  exists (one_block addr ops). split; [unfold mirror_instr; rewrite Hl; reflexivity|]. exists st'. auto.
Qed.

Theorem ret_imm_sim m addr len imm : 0 <= imm < 2 ^ 16 -> sim_when (pop_no_wrap m (wordsz m)) m addr len (IRet imm).
Proof.
  intros Himm s st s' ip Hw He Hnw Hstep. unfold step in Hstep.
  destruct (pop m (wordsz m) s) as [[t s1]|] eqn:Hpop; cbn [obind of_opt] in Hstep; [|discriminate]. inversion Hstep; subst s' ip.
  destruct (ret_gen m addr (mirror_succ m addr len (IRet imm)) imm s st t s1 Hw He Hnw (or_intror Himm) Hpop) as (ops & st' & Hl & Hrun & Hemb & Hwf).
  assert (Q: (imm <? 0) = false) by (apply Z.ltb_ge; lia). rewrite Q in Hemb, Hwf.
  exists (one_block addr ops). split.
  - unfold mirror_instr. replace (0 <=? imm) with true by (symmetry; apply Z.leb_le; lia). rewrite Hl. reflexivity.
  - exists st'. auto.
Qed.

(* ---------- guarded successors ---------- *)
Lemma not_cond_den en e (b : bool) : den en e = Ok (mkc 1 (X86.b2z b)) -> den en (not_cond e) = Ok (mkc 1 (X86.b2z (negb b))).
Proof. intros D. unfold not_cond. rewrite den_bin, D. destruct b; reflexivity. Qed.

Lemma cond_succs_enabled en next t e (b : bool) : den en e = Ok (mkc 1 (X86.b2z b)) ->
  enabled_succs en (cond_succs next t e) = Ok [if b then t else next].
Proof.
  intros D. pose proof (not_cond_den _ _ _ D) as Dn. unfold cond_succs. destruct (t =? next) eqn:E.
  - apply Z.eqb_eq in E. subst next. cbn [enabled_succs]. rewrite den_bin, Dn, D. destruct b; reflexivity.
  - cbn [enabled_succs]. rewrite Dn, D. destruct b; reflexivity.
Qed.

(* the three-block graph whose guarded body is a jump placeholder: the run ends at the exit block in the same state *)
Lemma run_diamond_nop m addr t e st (b : bool) : den (st_env st) e = Ok (mkc 1 (X86.b2z b)) ->
  il_run 600 (mkfunc addr (diamond addr e [branch_nop m t]) None) (LInstr 0 0) st = ILFin st None.
Proof.
  intros D. pose proof (not_cond_den _ _ _ D) as Dn.
  do 6 (cbn [il_run]; unfold sem_step, loc_instruction, forward, choose, enabled_locs, edge_enabled, loc_edge; cbn; rewrite ?D, ?Dn; cbn; try (destruct b; cbn)).
  all: try reflexivity.
Qed.

Lemma run_cond_jump m addr next t e st (b : bool) : den (st_env st) e = Ok (mkc 1 (X86.b2z b)) ->
  run_instr 600 (diamond addr e [branch_nop m t]) (cond_succs next t e) addr st = RunOk st (Some (if b then t else next)).
Proof.
  intros D. unfold run_instr.
  assert (FF: from_function (mkfunc addr (diamond addr e [branch_nop m t]) None) = Some (Ok (LInstr 0 0))) by reflexivity.
  rewrite FF, (run_diamond_nop m addr t e st b D), (cond_succs_enabled _ next t e b D). reflexivity.
Qed.

(* jcc (the 14 condition codes that do not read PF) *)
Theorem jcc_sim m addr len c t : cc_no_pf c = true -> sim m addr len (IJcc c t).
Proof.
  intros Hn s st s' ip Hw He Hstep.
  unfold step in Hstep. destruct (cond c (x_fl s)) as [b|] eqn:Hc; [|discriminate]. inversion Hstep; subst s' ip.
  destruct (cc_condition_emb m s st c b He Hn Hc) as (e & Ce & Be & De).
  exists (diamond addr e [branch_nop m t]). split; [unfold mirror_instr; rewrite Ce; reflexivity|].
  exists st. split; [|auto]. cbn [mirror_succ]. rewrite Ce. apply run_cond_jump. exact De.
Qed.

(* jcxz / jecxz (/ jrcxz once the lifter accepts it): the count register at its own width *)
Theorem jcxz_sim m addr len csz t : reg_operand_ok m csz (OReg 1) -> sim m addr len (IJcxz csz t).
Proof.
  intros Hd s st s' ip Hw He Hstep.
  unfold step in Hstep. inversion Hstep; subst s' ip.
  assert (Hso: src_operand_ok m csz (OReg 1)) by exact Hd.
  destruct (src_expr m csz (OReg 1) s st Hw He Hso) as (cx & v & Oc & Bc & Hv & Dc & _ & Rs).
  cbn [rd_op] in Rs. inversion Rs as [Rv].
  assert (W0: 0 <= csz). { destruct Hd as (_ & Hs). destruct (Z.le_gt_cases 0 csz); [assumption|]. exfalso. apply Hs. unfold size_shape.
    destruct m; cbn; repeat match goal with |- context [csz =? ?k] => replace (csz =? k) with false by (symmetry; apply Z.eqb_neq; lia) end; reflexivity. }
  set (e := EBin Cmpeq cx (expr_const 0 csz)).
  assert (Ce: jcxz_cond m csz = Ok e) by (unfold jcxz_cond; rewrite Oc; cbn [bind]; unfold mk_bin; rewrite Bc; cbn [e_bits expr_const new_big cbits]; rewrite Z.eqb_refl; reflexivity).
  assert (De: den (st_env st) e = Ok (mkc 1 (X86.b2z (reg_read csz X86.CX (x_gpr s) =? 0)))).
  { unfold e. rewrite den_bin, Dc, (zero_const_den _ csz). cbn [bind]. unfold sp_bin_c. cbn [cbits cval]. rewrite Z.eqb_refl. cbn [negb sp_bin]. unfold s_cmpeq.
    unfold X86.CX. rewrite Rv. destruct (v =? 0); reflexivity. }
  exists (diamond addr e [branch_nop m t]). split; [unfold mirror_instr; rewrite Ce; reflexivity|].
  exists st. split; [|auto]. cbn [mirror_succ]. rewrite Ce. apply run_cond_jump. exact De.
Qed.

(* loop / loope / loopne: the count register is decremented, the successors carry the guards *)
Lemma land_b2z p q : Z.land (X86.b2z p) (X86.b2z q) = X86.b2z (p && q).
Proof. destruct p, q; reflexivity. Qed.

Theorem loop_sim m addr len k t : k = 0 \/ k = 1 \/ k = 2 -> sim m addr len (ILoop k t).
Proof.
  intros Hk s st s' ip Hw He Hstep.
  destruct (wordsz_facts m) as (Ww & Wlt & W64 & Wp).
  assert (Hww: width_ok (wordsz m)) by (destruct m; cbn; unfold width_ok; auto).
  assert (Hd: reg_operand_ok m (wordsz m) (OReg 1)) by (split; [destruct m; cbn; lia|destruct m; discriminate]).
  destruct (reg_operand_shape m (wordsz m) (OReg 1) Hd) as (sd & Hs & Hr & Hi).
  destruct (src_expr m (wordsz m) (OReg 1) s st Hw He Hd) as (cx & v & Oc & Bc & Hv & Dc & _ & Rs).
  cbn [rd_op] in Rs. inversion Rs as [Rv].
  set (w := wordsz m) in *. set (c := U w (v - 1)).
  assert (Hc: 0 <= c < 2 ^ w) by (unfold c, U; apply Z.mod_pos_bound; exact Wp).
  assert (H1: 0 <= 1 < 2 ^ w) by (assert (2 ^ 32 <= 2 ^ w) by (apply Z.pow_le_mono_r; lia); change (2 ^ 32) with 4294967296 in *; lia).
  set (d := EBin Sub cx (expr_const 1 w)).
  assert (Md: mk_bin Sub cx (expr_const 1 w) = Ok d) by (unfold mk_bin; rewrite Bc; cbn [e_bits expr_const new_big cbits]; rewrite Z.eqb_refl; reflexivity).
  assert (Dd: den (st_env st) d = Ok (mkc w c)).
  { unfold d. rewrite den_bin, Dc, (const_den _ 1 w ltac:(lia) H1). cbn [bind]. unfold sp_bin_c. cbn [cbits cval]. rewrite Z.eqb_refl. reflexivity. }
  assert (Bd: e_bits d = w) by (unfold d; cbn [e_bits is_cmp]; exact Bc).
  destruct (assign_reg_exec m s st (OReg 1) w sd d c Hw He Hr Hi Hs Bd Hc Dd) as (o1 & Hops & Ia & st1 & g1 & Hex & Hwr & Hemb & Hwf).
  assert (Eg: set_gpr s g1 = set_gpr s (reg_write w X86.CX c (x_gpr s))).
  { unfold wr_op, wr_op_at in Hwr. inversion Hwr as [Q]. reflexivity. }
  set (s1 := set_gpr s g1) in *.
  (* the guard in the new state *)
  destruct (src_expr m w (OReg 1) s1 st1 Hwf Hemb Hd) as (cx' & v' & Oc' & _ & _ & Dc' & _ & Rs').
  rewrite Oc in Oc'. inversion Oc'; subst cx'.
  assert (Ev': v' = c).
  { cbn [rd_op] in Rs'. assert (Q: reg_read w 1 (x_gpr s1) = c).
    { rewrite Eg. cbn [set_gpr x_gpr]. unfold X86.CX.
      unfold reg_write. fold w. rewrite Wlt. unfold reg_read. rewrite rget_rset_same; [apply Z.mod_small; exact Hc|lia|rewrite (wf_len _ _ Hw); destruct m; cbn; lia]. }
    rewrite Q in Rs'. inversion Rs'; reflexivity. }
  subst v'.
  set (nz := EBin Cmpneq cx (expr_const 0 w)).
  assert (Mnz: mk_bin Cmpneq cx (expr_const 0 w) = Ok nz) by (unfold mk_bin; rewrite Bc; cbn [e_bits expr_const new_big cbits]; rewrite Z.eqb_refl; reflexivity).
  assert (Dnz: den (st_env st1) nz = Ok (mkc 1 (X86.b2z (negb (c =? 0))))).
  { unfold nz. rewrite den_bin, Dc', (zero_const_den _ w). cbn [bind]. unfold sp_bin_c. cbn [cbits cval]. rewrite Z.eqb_refl. cbn [negb sp_bin]. unfold s_cmpneq. destruct (c =? 0); reflexivity. }
  assert (Run: forall succ, run_instr 600 (one_block addr [o1]) succ addr st =
               match enabled_succs (st_env st1) succ with Ok [] => RunOk st1 None | Ok (a :: l) => if all_same (a :: l) then RunOk st1 (Some a) else RunAmbiguous
               | Err e0 => RunStuck e0 | Panic => RunStuck EOther end).
  { intros succ. apply run_block_succs; [cbn; destruct o1; try discriminate Ia; reflexivity|discriminate|cbn; lia|exact Hex]. }
  assert (Mi: mirror_instr m addr len (ILoop k t) = Some (Ok (one_block addr [o1]))).
  { unfold mirror_instr, lift_loop. fold w. rewrite Oc. cbn [bind]. rewrite Md. cbn [bind]. rewrite Hops. reflexivity. }
  unfold step in Hstep. fold w in Hstep. unfold X86.CX in Hstep. rewrite Rv in Hstep. fold c in Hstep.
  assert (Es1: set_gpr s (reg_write w 1 c (x_gpr s)) = s1) by (rewrite Eg; reflexivity). rewrite Es1 in Hstep.
  exists (one_block addr [o1]). split; [exact Mi|]. exists st1.
  split; [|destruct Hk as [->|[->| ->]]; cbn [Z.eqb Pos.eqb] in Hstep; try (destruct (f_zf (x_fl s)); cbn [flag_is] in Hstep; [|discriminate]); inversion Hstep; subst; auto].
  rewrite Run. cbn [mirror_succ]. unfold loop_cond. fold w. rewrite Oc. cbn [bind]. rewrite Mnz. cbn [bind].
  destruct Hk as [->|[->| ->]]; cbn [Z.eqb Pos.eqb] in *.
  - inversion Hstep; subst s' ip. rewrite (cond_succs_enabled _ _ _ nz _ Dnz). cbn [all_same forallb]. destruct (c =? 0); reflexivity.
  - destruct (f_zf (x_fl s)) as [z|] eqn:Fz; cbn [flag_is] in Hstep; [|discriminate]. inversion Hstep; subst s' ip.
    pose proof (emb_zf _ _ _ Hemb) as Ez. unfold s1 in Ez. cbn [set_gpr x_fl] in Ez. rewrite Fz in Ez. cbn [emb_flag] in Ez.
    set (zc := EBin Cmpeq (EScalar (flag_scalar X86Lift.n_ZF)) (expr_const 1 1)).
    assert (Dz: den (st_env st1) zc = Ok (mkc 1 (X86.b2z z))).
    { unfold zc. cbn [den]. unfold skey_of, flag_scalar. cbn [sname sssa sbits]. change (X86Lift.n_ZF, @None N) with kZF. rewrite Ez. destruct z; reflexivity. }
    assert (Da: den (st_env st1) (EBin And nz zc) = Ok (mkc 1 (X86.b2z (negb (c =? 0) && z)))).
    { rewrite den_bin, Dnz, Dz. cbn [bind]. unfold sp_bin_c. cbn [cbits cval Z.eqb Pos.eqb negb sp_bin]. unfold s_and. rewrite land_b2z. reflexivity. }
    change (mk_bin Cmpeq (EScalar (flag_scalar X86Lift.n_ZF)) (expr_const 1 1)) with (Ok zc). cbn [bind].
    change (mk_bin And nz zc) with (Ok (EBin And nz zc)). cbv iota beta.
    rewrite (cond_succs_enabled _ _ _ _ _ Da). cbn [all_same forallb]. reflexivity.
  - destruct (f_zf (x_fl s)) as [z|] eqn:Fz; cbn [flag_is] in Hstep; [|discriminate]. inversion Hstep; subst s' ip.
    pose proof (emb_zf _ _ _ Hemb) as Ez. unfold s1 in Ez. cbn [set_gpr x_fl] in Ez. rewrite Fz in Ez. cbn [emb_flag] in Ez.
    set (zc := EBin Cmpeq (EScalar (flag_scalar X86Lift.n_ZF)) (expr_const 0 1)).
    assert (Dz: den (st_env st1) zc = Ok (mkc 1 (X86.b2z (negb z)))).
    { unfold zc. cbn [den]. unfold skey_of, flag_scalar. cbn [sname sssa sbits]. change (X86Lift.n_ZF, @None N) with kZF. rewrite Ez. destruct z; reflexivity. }
    assert (Da: den (st_env st1) (EBin And nz zc) = Ok (mkc 1 (X86.b2z (negb (c =? 0) && negb z)))).
    { rewrite den_bin, Dnz, Dz. cbn [bind]. unfold sp_bin_c. cbn [cbits cval Z.eqb Pos.eqb negb sp_bin]. unfold s_and. rewrite land_b2z. reflexivity. }
    change (mk_bin Cmpeq (EScalar (flag_scalar X86Lift.n_ZF)) (expr_const 0 1)) with (Ok zc). cbn [bind].
    change (mk_bin And nz zc) with (Ok (EBin And nz zc)). cbv iota beta.
    rewrite (cond_succs_enabled _ _ _ _ _ Da). cbn [all_same forallb]. reflexivity.
Qed.
