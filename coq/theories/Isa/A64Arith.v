(* Isa/A64Arith.v -- per-form correctness: add/sub without flags (immediate, shifted register LSL/LSR,
   extended register), and the moves.  Every theorem is [U]: all field values, all states. *)
From Coq Require Import ZArith List Bool NArith Lia ZifyBool.
From Falcon Require Import Base.Res IL.Const IL.ConstSpec IL.Expr IL.ExprSpec IL.Func IL.Loc Exec.Sem
     IL.ConstProofs IL.ExprProofs Isa.A64 Isa.A64Lift Isa.A64Run Isa.A64Proofs Isa.A64Sim.
Import ListNotations.
Local Open Scope Z_scope.
Ltac Zify.zify_post_hook ::= Z.div_mod_to_equations.

Definition arith_val (a : arith) (w v1 v2 : Z) : Z :=
  match a with AAdd => s_add w v1 v2 | ASub => s_sub w v1 v2 end.

Lemma reg_bits_cases r : reg_bits r = 64 \/ reg_bits r = 32.
Proof. destruct r; cbn; auto. Qed.

(* fn add / fn sub on a register destination and two loadable operands *)
Lemma b_addsub_sim a s st rd o1 o2 v1 v2 :
  wf s -> emb s st -> areg_ok rd ->
  loads s o1 (reg_bits rd) (reg_bits rd) v1 -> loads s o2 (reg_bits rd) (reg_bits rd) v2 ->
  exists op st', b_addsub a [OReg rd; o1; o2] = Ok ([op], []) /\ run_ops [op] st = OFall st' /\
                 emb (areg_write s rd (arith_val a (reg_bits rd) v1 v2)) st'.
Proof.
  intros Hw He Hr H1 H2.
  destruct (H1 st He) as (e1 & L1 & B1 & D1). destruct (H2 st He) as (e2 & L2 & B2 & D2).
  unfold b_addsub, nth_op. cbn [nth_error res_of_option bind operand_storing_width].
  rewrite L1, L2. cbn [bind]. rewrite mk_bin_ok by congruence. cbn [unwrap bind operand_store].
  assert (Hd : den (st_env st) (EBin (arith_op a) e1 e2) = Ok (mkc (reg_bits rd) (arith_val a (reg_bits rd) v1 v2))).
  { rewrite (den_bin _ _ _ _ _ _ _ D1 D2). destruct a; reflexivity. }
  assert (Hb : e_bits (EBin (arith_op a) e1 e2) = reg_bits rd) by (destruct a; exact B1).
  destruct (reg_set_sim s st rd _ _ _ He Hr (reg_bits_cases rd) Hb Hd) as (op & st' & k & c & S1 & S2 & S3).
  rewrite S1. cbn [bind]. exists op, st'. split; [reflexivity|]. split; [|exact S3].
  rewrite (run_ops_assign _ _ _ _ _ _ S2). reflexivity.
Qed.

(* fn mov *)
Lemma b_mov_sim s st rd o1 v1 :
  wf s -> emb s st -> areg_ok rd ->
  loads s o1 (reg_bits rd) (reg_bits rd) v1 ->
  exists op st', b_mov [OReg rd; o1] = Ok ([op], []) /\ run_ops [op] st = OFall st' /\
                 emb (areg_write s rd v1) st'.
Proof.
  intros Hw He Hr H1.
  destruct (H1 st He) as (e1 & L1 & B1 & D1).
  unfold b_mov, nth_op. cbn [nth_error res_of_option bind operand_storing_width].
  rewrite L1. cbn [bind operand_store].
  destruct (reg_set_sim s st rd _ _ _ He Hr (reg_bits_cases rd) B1 D1) as (op & st' & k & c & S1 & S2 & S3).
  rewrite S1. cbn [bind]. exists op, st'. split; [reflexivity|]. split; [|exact S3].
  rewrite (run_ops_assign _ _ _ _ _ _ S2). reflexivity.
Qed.

(* ------------------------------------------------------------------ register naming vs. the specification *)
Lemma reg_bits_sp sf n : reg_bits (xreg_sp sf n) = dsize sf.
Proof. unfold xreg_sp, dsize. destruct (n =? 31), sf; reflexivity. Qed.
Lemma reg_bits_zr sf n : reg_bits (xreg_zr sf n) = dsize sf.
Proof. unfold xreg_zr, dsize. destruct (n =? 31), sf; reflexivity. Qed.

Lemma areg_val_sp s sf n : wf s -> areg_val s (xreg_sp sf n) = SPorX s n mod 2 ^ dsize sf.
Proof.
  intros (Hx & Hsp & _). unfold xreg_sp, SPorX, dsize.
  destruct (n =? 31), sf; cbn [areg_val]; try reflexivity; symmetry; apply Z.mod_small; auto.
Qed.
Lemma areg_val_zr s sf n : wf s -> areg_val s (xreg_zr sf n) = Xw s n (dsize sf).
Proof.
  intros (Hx & Hsp & _). unfold xreg_zr, Xw, X, dsize.
  destruct (n =? 31), sf; cbn [areg_val]; try reflexivity; symmetry; apply Z.mod_small; auto.
Qed.
Lemma areg_write_sp s sf n v : areg_write s (xreg_sp sf n) v = setSPorX s n v.
Proof.
  unfold xreg_sp, setSPorX. destruct (Z.eqb_spec n 31), sf; cbn [areg_write]; reflexivity.
Qed.
Lemma areg_write_zr s sf n v : areg_write s (xreg_zr sf n) v = setX s n v.
Proof.
  unfold xreg_zr. destruct (n =? 31) eqn:E.
  - apply Z.eqb_eq in E. subst n. destruct sf; reflexivity.
  - destruct sf; reflexivity.
Qed.

(* the arithmetic of the pages' common tail *)
Lemma addsub_result N sub x y : (N = 64 \/ N = 32) -> 0 <= x < 2 ^ N -> 0 <= y < 2 ^ N ->
  fst (addsub N sub x y) = arith_val (if sub then ASub else AAdd) N x y.
Proof.
  intros HN Hx Hy. unfold addsub, AddWithCarry, NOT, arith_val, s_add, s_sub, U.
  destruct sub; cbn [fst]; destruct HN as [-> | ->]; lia.
Qed.

(* closing a fall-through instruction whose single operation writes the result state *)
Lemma finish_fall addr s st s1 op st' :
  wf s -> apc s = addr -> addr + 4 < 2 ^ 64 ->
  run_ops [op] st = OFall st' -> emb s1 st' -> apc s1 = apc s ->
  exists st'', run_lifted (graph_of addr [op]) [(addr + 4, None)] st = Ok (st'', apc (nextPC s1)) /\ emb (nextPC s1) st''.
Proof.
  intros Hw Hpc Ha Hr He Hp. exists st'. split; [|apply emb_nextPC; exact He].
  rewrite (run_lifted_fall addr [op] st st') by (cbn; lia || assumption).
  destruct Hw as (_ & _ & _ & Hpcr). rewrite apc_nextPC by lia. rewrite Hp, Hpc. reflexivity.
Qed.

Lemma apc_setSPorX s d v : apc (setSPorX s d v) = apc s.
Proof. unfold setSPorX, setSP, setX. destruct (d =? 31); reflexivity. Qed.
Lemma apc_setX s d v : apc (setX s d v) = apc s.
Proof. unfold setX. destruct (d =? 31); reflexivity. Qed.

(* ------------------------------------------------------------------ C6.2.4 ADD / C6.2.357 SUB (immediate), incl. MOV (to/from SP) *)
Theorem addsub_imm_sim addr sf sub sh imm12 rn rd :
  0 <= imm12 < 4096 -> 0 <= rn < 32 -> 0 <= rd < 32 ->
  sim addr (IAddSubImm sf sub false sh imm12 rn rd).
Proof.
  intros Hi Hn Hd s st ops succs s' Hw Hpc Ha He _ Hl Hs.
  destruct (xzr_xsp_range sf rd Hd) as [_ Hrd]. destruct (xzr_xsp_range sf rn Hn) as [_ Hrn].
  (* the specification's result *)
  cbn [a64step] in Hs. unfold finish_addsub in Hs.
  destruct (addsub (dsize sf) sub (SPorX s rn mod 2 ^ dsize sf) (if sh then imm12 * 4096 else imm12))
    as [res [[[fn_ fz_] fc_] fv_]] eqn:Eres.
  cbn [andb negb] in Hs. inversion Hs; subst s'; clear Hs.
  assert (HN : dsize sf = 64 \/ dsize sf = 32) by (destruct sf; cbn; auto).
  assert (Hop1 : 0 <= SPorX s rn mod 2 ^ dsize sf < 2 ^ dsize sf) by (apply Z.mod_pos_bound; destruct sf; cbn; lia).
  assert (Himm : 0 <= (if sh then imm12 * 4096 else imm12) < 2 ^ dsize sf) by (destruct sh, sf; cbn [dsize]; lia).
  pose proof (addsub_result (dsize sf) sub _ _ HN Hop1 Himm) as Hres. rewrite Eres in Hres. cbn [fst] in Hres.
  (* the lifter *)
  unfold lift in Hl. cbn [operands_of andb] in Hl. cbv iota in Hl.
  destruct (negb sub && negb false && negb sh && (imm12 =? 0) && ((rd =? 31) || (rn =? 31))) eqn:Ealias.
  - (* MOV (to/from SP) *)
    apply andb_prop in Ealias as [Ealias _]. apply andb_prop in Ealias as [Ealias E0].
    apply andb_prop in Ealias as [Ealias Esh]. apply andb_prop in Ealias as [Esub _].
    destruct sub; [discriminate|]. destruct sh; [discriminate|]. apply Z.eqb_eq in E0. subst imm12.
    cbn [dispatch terminating fst snd bind] in Hl.
    assert (L1 : loads s (OReg (xreg_sp sf rn)) (reg_bits (xreg_sp sf rd)) (reg_bits (xreg_sp sf rd)) (SPorX s rn mod 2 ^ dsize sf)).
    { rewrite <- areg_val_sp by assumption. rewrite (reg_bits_sp sf rd), <- (reg_bits_sp sf rn). apply loads_reg; assumption. }
    destruct (b_mov_sim s st _ _ _ Hw He Hrd L1) as (op & st' & B1 & B2 & B3).
    rewrite B1 in Hl. cbn [bind fst snd] in Hl. inversion Hl; subst ops succs; clear Hl.
    rewrite areg_write_sp in B3.
    assert (Hr2 : res = SPorX s rn mod 2 ^ dsize sf).
    { rewrite Hres. unfold arith_val, s_add, U. destruct HN as [-> | ->]; lia. }
    rewrite Hr2. apply (finish_fall addr s st _ op st'); try assumption. apply apc_setSPorX.
  - (* ADD / SUB *)
    assert (L1 : loads s (OReg (xreg_sp sf rn)) (reg_bits (xreg_sp sf rd)) (reg_bits (xreg_sp sf rd)) (SPorX s rn mod 2 ^ dsize sf)).
    { rewrite <- areg_val_sp by assumption. rewrite (reg_bits_sp sf rd), <- (reg_bits_sp sf rn). apply loads_reg; assumption. }
    assert (L2 : loads s (imm_opnd sf imm12 (if sh then Some (BLSL 12) else None))
                       (reg_bits (xreg_sp sf rd)) (reg_bits (xreg_sp sf rd)) (if sh then imm12 * 4096 else imm12)).
    { rewrite reg_bits_sp. unfold imm_opnd. destruct sf, sh; cbn [dsize].
      - replace (imm12 * 4096) with (s_shl 64 (U 64 imm12) (U 64 12)); [apply loads_imm64_lsl|].
        unfold s_shl, U. change (12 mod 2 ^ 64) with 12. change (64 <=? 12) with false. cbv iota. change (2 ^ 12) with 4096. lia.
      - replace imm12 with (U 64 imm12) at 2 by (unfold U; lia). apply loads_imm64.
      - replace (imm12 * 4096) with (s_shl 32 (U 32 imm12) (U 32 12)); [apply loads_imm32_lsl|].
        unfold s_shl, U. change (12 mod 2 ^ 32) with 12. change (32 <=? 12) with false. cbv iota. change (2 ^ 12) with 4096. lia.
      - replace imm12 with (U 32 imm12) at 2 by (unfold U; lia). apply loads_imm32. }
    destruct (b_addsub_sim (if sub then ASub else AAdd) s st _ _ _ _ _ Hw He Hrd L1 L2) as (op & st' & B1 & B2 & B3).
    rewrite areg_write_sp, reg_bits_sp, <- Hres in B3.
    destruct sub; cbn [dispatch terminating fst snd bind] in Hl; rewrite B1 in Hl; cbn [bind fst snd] in Hl;
      inversion Hl; subst ops succs; clear Hl;
      (apply (finish_fall addr s st _ op st'); try assumption; apply apc_setSPorX).
Qed.
